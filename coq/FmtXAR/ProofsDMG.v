(* FmtXAR/ProofsDMG.v — disk images: the laws of Laws/Pipeline.v for dmg.Sign / dmg.Open / DMG.Verify, what is hashed, what is
   protected, refusals, no panic. *)
From Relic Require Import Base.Prelude Base.Enc Generated.FmtXAR_gen FmtXAR.Model FmtXAR.Codec FmtXAR.ProofsHdr.

Ltac idx := unfold dmg_koly_idx_Signature, dmg_koly_idx_XMLOffset, dmg_koly_idx_XMLLength, dmg_koly_idx_SignatureOffset, dmg_koly_idx_SignatureLength,
  dmg_koly_idx_DataForkOffset, dmg_koly_idx_DataForkLength, dmg_koly_idx_ResourceForkOffset, dmg_koly_idx_ResourceForkLength; lia.

(* ---- kget / kset *)
Lemma kget_kset_same i v k : (i < length k)%nat -> kget i (kset i v k) = v.
Proof.
  unfold kget. revert k. induction i as [|i IH]; intros k H; destruct k as [|x k]; cbn [length] in H; try lia; cbn [kset nth].
  - reflexivity.
  - apply IH. lia.
Qed.
Lemma kget_kset_other i j v k : i <> j -> kget j (kset i v k) = kget j k.
Proof.
  unfold kget. revert j k. induction i as [|i IH]; intros j k H; destruct k as [|x k]; cbn [kset]; try reflexivity.
  - destruct j as [|j]; [congruence|reflexivity].
  - destruct j as [|j]; [reflexivity|]. cbn [nth]. apply IH. congruence.
Qed.
Lemma kset_length i v k : length (kset i v k) = length k.
Proof.
  revert k. induction i as [|i IH]; intros k; destruct k as [|x k]; cbn [kset length]; try reflexivity. now rewrite IH.
Qed.
Lemma kset_kget i k : (i < length k)%nat -> kset i (kget i k) k = k.
Proof.
  unfold kget. revert k. induction i as [|i IH]; intros k H; destruct k as [|x k]; cbn [length] in H; try lia; cbn [kset nth].
  - reflexivity.
  - f_equal. apply IH. lia.
Qed.
Lemma kset_kset i v w k : kset i v (kset i w k) = kset i v k.
Proof.
  revert k. induction i as [|i IH]; intros k; destruct k as [|x k]; cbn [kset]; try reflexivity. now rewrite IH.
Qed.

Lemma fields_ok_kset ws sgs vs : fields_ok ws sgs vs -> forall i v, field_ok (nth i ws 0) (nth i sgs 0) v -> (i < length vs)%nat ->
  fields_ok ws sgs (kset i v vs).
Proof.
  induction 1 as [|w ws sg sgs x vs Hw Hok Hr IH]; intros i v Hv Hi.
  - cbn [length] in Hi. lia.
  - destruct i as [|i]; cbn [kset nth] in Hv |- *.
    + constructor; assumption.
    + constructor; try assumption. apply IH; [assumption|]. cbn [length] in Hi. lia.
Qed.
Lemma named_kset (bl : list Z) : forall k i v, nth i bl 0 = 0 -> (i < length k)%nat -> (i < length bl)%nat ->
  map (fun p : Z * Z => if snd p =? 1 then 0 else fst p) (combine (kset i v k) bl) =
  kset i v (map (fun p : Z * Z => if snd p =? 1 then 0 else fst p) (combine k bl)).
Proof.
  induction bl as [|b bl IH]; intros k i v Hb Hk Hl; [cbn in Hl; lia|].
  destruct k as [|x k]; [cbn in Hk; lia|]. destruct i as [|i]; cbn [kset combine map fst snd nth] in *.
  - rewrite Hb. reflexivity.
  - f_equal. cbn [length] in Hk, Hl. apply IH; [assumption|lia|lia].
Qed.
Lemma koly_ok_length k : koly_ok k -> length k = 23%nat.
Proof. intros [H _]. destruct (fields_ok_length _ _ _ H) as [H1 _]. exact H1. Qed.
Definition int64_ok (v : Z) : Prop := - 9223372036854775808 <= v < 9223372036854775808.
Lemma koly_ok_set_sigoff k v : koly_ok k -> int64_ok v -> koly_ok (kset dmg_koly_idx_SignatureOffset v k).
Proof.
  intros [Hf Hn] Hv. pose proof (koly_ok_length k (conj Hf Hn)) as Hl. split.
  - apply fields_ok_kset; [assumption| |unfold dmg_koly_idx_SignatureOffset; lia].
    unfold dmg_koly_idx_SignatureOffset, dmg_koly_widths, dmg_koly_signed, field_ok, int64_ok in *. cbn. lia.
  - unfold koly_named. rewrite named_kset; [|reflexivity|unfold dmg_koly_idx_SignatureOffset; lia|unfold dmg_koly_idx_SignatureOffset, dmg_koly_blank; cbn; lia].
    fold (koly_named k). now rewrite Hn.
Qed.
Lemma koly_ok_set_siglen k v : koly_ok k -> int64_ok v -> koly_ok (kset dmg_koly_idx_SignatureLength v k).
Proof.
  intros [Hf Hn] Hv. pose proof (koly_ok_length k (conj Hf Hn)) as Hl. split.
  - apply fields_ok_kset; [assumption| |unfold dmg_koly_idx_SignatureLength; lia].
    unfold dmg_koly_idx_SignatureLength, dmg_koly_widths, dmg_koly_signed, field_ok, int64_ok in *. cbn. lia.
  - unfold koly_named. rewrite named_kset; [|reflexivity|unfold dmg_koly_idx_SignatureLength; lia|unfold dmg_koly_idx_SignatureLength, dmg_koly_blank; cbn; lia].
    fold (koly_named k). now rewrite Hn.
Qed.
Lemma koly_get_range k i : koly_ok k -> nth i dmg_koly_signed 0 = 1 -> nth i dmg_koly_widths 0 = 8 -> (i < 23)%nat -> int64_ok (kget i k).
Proof.
  intros [Hf _] Hs Hw Hi. unfold kget. revert i Hs Hw Hi.
  induction Hf as [|w ws sg sgs v vs Hw0 Hok _ IH]; intros i Hs Hw Hi; [destruct i; cbn in Hw; lia|].
  destruct i as [|i]; cbn [nth] in *.
  - subst. unfold field_ok in Hok. cbn in Hok. unfold int64_ok. lia.
  - destruct ws as [|w' ws']; [destruct i; cbn in Hw; lia|]. apply IH; try assumption.
    (* the bound on i is only used to stay inside the list; weaken it *)
    lia.
Qed.

(* marshal is injective on trailer values in range *)
Lemma marshal_koly_inj k1 k2 : koly_ok k1 -> koly_ok k2 -> dmg_marshal_koly k1 = dmg_marshal_koly k2 -> k1 = k2.
Proof.
  intros H1 H2 He. pose proof (koly_roundtrip k1 [] H1) as R1. pose proof (koly_roundtrip k2 [] H2) as R2.
  rewrite He in R1. rewrite R1 in R2. now apply Ok_inj in R2.
Qed.

(* ---- the last 512 bytes *)
Lemma trailer_of (f : bytes) : 512 <= zlen f -> dmg_trailer_of f = Ok (zdrop (zlen f - 512) f).
Proof.
  intros H. unfold dmg_trailer_of, dmg_transform_seek, dmg_transform_len.
  replace (zlen f + - 512 <? 0) with false by lia. f_equal. replace (zlen f + - 512) with (zlen f - 512) by lia.
  apply ztake_all. rewrite zlen_zdrop by lia. lia.
Qed.
Lemma tail_of_app (pre t : bytes) : zlen t = 512 -> zdrop (zlen (pre ++ t) - 512) (pre ++ t) = t.
Proof.
  intros H. rewrite zlen_app, H. replace (zlen pre + 512 - 512) with (zlen pre) by lia.
  rewrite zdrop_app_r by lia. replace (zlen pre - zlen pre) with 0 by lia. apply zdrop_0.
Qed.

(* ---- domain *)
Definition fork_in (off len bundle : Z) : bool := (0 <=? off) && (0 <=? len) && (off + len <=? bundle).
Definition dmg_dom (f : bytes) : bool :=
  all_bytes f && (512 <=? zlen f) &&
  match dmg_parse_koly (zdrop (zlen f - 512) f) with
  | Ok k =>
      let bundle := kget dmg_koly_idx_XMLOffset k + kget dmg_koly_idx_XMLLength k in
      (kget dmg_koly_idx_Signature k =? 1802464377) && (0 <=? bundle) && (bundle <=? zlen f - 512) && (bundle <? 9223372036854775808) &&
      fork_in (kget dmg_koly_idx_DataForkOffset k) (kget dmg_koly_idx_DataForkLength k) bundle &&
      fork_in (kget dmg_koly_idx_ResourceForkOffset k) (kget dmg_koly_idx_ResourceForkLength k) bundle &&
      fork_in (kget dmg_koly_idx_XMLOffset k) (kget dmg_koly_idx_XMLLength k) bundle
  | _ => false
  end.
Definition dmg_blob_ok (b : bytes) : bool := all_bytes b && (0 <? zlen b) && (zlen b <=? 10000000).
Definition dmg_embed_wf (f blob : bytes) : result bytes :=
  if dmg_dom f && dmg_blob_ok blob then dmg_embed f blob else Err E_DOMAIN.

Lemma dmg_dom_spec f : dmg_dom f = true ->
  all_bytes f = true /\ 512 <= zlen f /\
  exists k, dmg_parse_koly (zdrop (zlen f - 512) f) = Ok k /\ kget dmg_koly_idx_Signature k = 1802464377 /\
    (0 <= kget dmg_koly_idx_XMLOffset k + kget dmg_koly_idx_XMLLength k <= zlen f - 512 /\
     kget dmg_koly_idx_XMLOffset k + kget dmg_koly_idx_XMLLength k < 9223372036854775808) /\
    fork_in (kget dmg_koly_idx_DataForkOffset k) (kget dmg_koly_idx_DataForkLength k) (kget dmg_koly_idx_XMLOffset k + kget dmg_koly_idx_XMLLength k) = true /\
    fork_in (kget dmg_koly_idx_ResourceForkOffset k) (kget dmg_koly_idx_ResourceForkLength k) (kget dmg_koly_idx_XMLOffset k + kget dmg_koly_idx_XMLLength k) = true /\
    fork_in (kget dmg_koly_idx_XMLOffset k) (kget dmg_koly_idx_XMLLength k) (kget dmg_koly_idx_XMLOffset k + kget dmg_koly_idx_XMLLength k) = true.
Proof.
  unfold dmg_dom. intros H. repeat (apply andb_true_iff in H as [H ?]).
  destruct (dmg_parse_koly (zdrop (zlen f - 512) f)) as [k| |]; try discriminate.
  repeat match goal with Hx : _ && _ = true |- _ => apply andb_true_iff in Hx as [Hx ?] end.
  split; [assumption|]. split; [lia|]. exists k. repeat split; try assumption; lia.
Qed.
Lemma dmg_blob_ok_spec b : dmg_blob_ok b = true -> all_bytes b = true /\ 0 < zlen b <= 10000000.
Proof. unfold dmg_blob_ok. intros H. repeat (apply andb_true_iff in H as [H ?]). repeat split; try assumption; lia. Qed.

(* the shape of a successful signing *)
Lemma sign_shape f blob s : all_bytes f = true ->
  (forall k, dmg_parse_koly (zdrop (zlen f - 512) f) = Ok k -> kget dmg_koly_idx_XMLOffset k + kget dmg_koly_idx_XMLLength k < 9223372036854775808) ->
  zlen blob < 9223372036854775808 -> dmg_sign f blob = Ok s ->
  exists k, 512 <= zlen f /\ dmg_parse_koly (zdrop (zlen f - 512) f) = Ok k /\ koly_ok k /\
    let bundle := kget dmg_koly_idx_XMLOffset k + kget dmg_koly_idx_XMLLength k in
    let k2 := kset dmg_koly_idx_SignatureLength (zlen blob) (kset dmg_koly_idx_SignatureOffset bundle k) in
    0 <= bundle <= zlen f /\ koly_ok k2 /\
    (kget dmg_koly_idx_SignatureOffset k = 0 \/ kget dmg_koly_idx_SignatureOffset k = bundle) /\
    ds_bundle s = bundle /\ ds_pages s = ztake bundle f /\
    ds_rep s = dmg_marshal_koly (kset dmg_koly_idx_SignatureLength 0 (kset dmg_koly_idx_SignatureOffset bundle k)) /\
    ds_file s = ztake bundle f ++ blob ++ dmg_marshal_koly k2.
Proof.
  intros Hb Hlf Hlb Hs. unfold dmg_sign, dmg_sign_pre in Hs.
  destruct (Z_lt_ge_dec (zlen f) 512) as [Hshort|Hlong].
  { unfold dmg_trailer_of, dmg_transform_seek in Hs. replace (zlen f + - 512 <? 0) with true in Hs by lia. discriminate. }
  rewrite trailer_of in Hs by lia. cbn [bind] in Hs.
  destruct (dmg_parse_koly (zdrop (zlen f - 512) f)) as [k| |] eqn:Hp; try discriminate. cbn [bind] in Hs.
  assert (Hk : koly_ok k) by (eapply parse_koly_ok; [apply all_bytes_zdrop; exact Hb|exact Hp]).
  pose proof (koly_ok_length k Hk) as Hlen.
  unfold dmg_sign_bundle, dmg_sign_new_sigoff, dmg_sign_has_old, dmg_sign_gap, dmg_sign_pages_len, dmg_sign_hashes_new_offset,
    dmg_sign_new_siglen, dmg_sign_order, dmg_sign_patch_off, dmg_sign_patch_old, dmg_for_hashing, dmg_hashing_zeroes_siglen in Hs.
  rewrite ztake_c_eq in Hs.
  set (bundle := kget dmg_koly_idx_XMLOffset k + kget dmg_koly_idx_XMLLength k) in *.
  destruct (negb (kget dmg_koly_idx_SignatureOffset k =? 0) && negb (kget dmg_koly_idx_SignatureOffset k =? bundle)) eqn:Eg; [discriminate|].
  cbn [bind] in Hs.
  rewrite (kget_kset_other dmg_koly_idx_SignatureLength dmg_koly_idx_SignatureOffset) in Hs by (unfold dmg_koly_idx_SignatureLength, dmg_koly_idx_SignatureOffset; lia).
  rewrite kget_kset_same in Hs by (rewrite Hlen; unfold dmg_koly_idx_SignatureOffset; lia).
  destruct ((bundle <? 0) || (zlen f - bundle <? 0) || (zlen f <? bundle + (zlen f - bundle))) eqn:Er; [discriminate|].
  apply Ok_inj in Hs. subst s. cbn [ds_bundle ds_pages ds_rep ds_file].
  assert (Hbr : 0 <= bundle <= zlen f) by lia.
  exists k. split; [lia|]. split; [reflexivity|]. split; [assumption|]. cbn zeta.
  split; [assumption|]. split.
  { pose proof (Hlf k eq_refl) as H63. fold bundle in H63.
    apply koly_ok_set_siglen; [apply koly_ok_set_sigoff; [assumption|unfold int64_ok; lia]|unfold int64_ok; pose proof (zlen_nonneg blob); lia]. }
  split.
  { destruct (kget dmg_koly_idx_SignatureOffset k =? 0) eqn:E0; [left; lia|]. destruct (kget dmg_koly_idx_SignatureOffset k =? bundle) eqn:E1; [right; lia|discriminate]. }
  repeat split; try reflexivity.
  replace (bundle + (zlen f - bundle)) with (zlen f) by lia. rewrite (zdrop_all (zlen f)) by lia. now rewrite app_nil_r.
Qed.

(* parsing the trailer of a signed image gives back the value that was written *)
Lemma signed_trailer pre blob k2 : koly_ok k2 ->
  dmg_parse_koly (zdrop (zlen (pre ++ blob ++ dmg_marshal_koly k2) - 512) (pre ++ blob ++ dmg_marshal_koly k2)) = Ok k2.
Proof.
  intros Hk. rewrite app_assoc. rewrite tail_of_app by (now apply marshal_koly_zlen).
  rewrite <- (app_nil_r (dmg_marshal_koly k2)). now apply koly_roundtrip.
Qed.
Lemma signed_len pre blob k2 : koly_ok k2 -> zlen (pre ++ blob ++ dmg_marshal_koly k2) = zlen pre + zlen blob + 512.
Proof. intros Hk. rewrite !zlen_app, marshal_koly_zlen by assumption. lia. Qed.

(* ---- a signed layout: pre ++ blob ++ trailer, the trailer pointing at the blob right behind pre *)
Section SignedLayout.
  Variables (pre blob : bytes) (k2 : koly).
  Hypothesis Hk2 : koly_ok k2.
  Hypothesis Hso : kget dmg_koly_idx_SignatureOffset k2 = zlen pre.
  Hypothesis Hbundle : kget dmg_koly_idx_XMLOffset k2 + kget dmg_koly_idx_XMLLength k2 = zlen pre.
  Hypothesis Hsl : kget dmg_koly_idx_SignatureLength k2 = zlen blob.
  Let g := pre ++ blob ++ dmg_marshal_koly k2.

  Lemma layout_len : zlen g = zlen pre + zlen blob + 512.
  Proof. unfold g. now apply signed_len. Qed.
  Lemma layout_trailer : dmg_parse_koly (zdrop (zlen g - 512) g) = Ok k2.
  Proof. unfold g. now apply signed_trailer. Qed.
  Lemma layout_blob : zslice (zlen pre) (zlen pre + zlen blob) g = blob.
  Proof.
    unfold g, zslice. rewrite zdrop_app_r by lia. replace (zlen pre - zlen pre) with 0 by lia. rewrite zdrop_0.
    replace (zlen pre + zlen blob - zlen pre) with (zlen blob) by lia. rewrite ztake_app_l by lia. apply ztake_all. lia.
  Qed.
  Lemma layout_pre : ztake (zlen pre) g = pre.
  Proof. unfold g. rewrite ztake_app_l by lia. apply ztake_all. lia. Qed.

  Lemma open_signed : kget dmg_koly_idx_Signature k2 = 1802464377 -> 0 < zlen blob <= 10000000 ->
    dmg_open g = Ok (mkDO k2 blob [zlen blob]).
  Proof.
    intros Hmag Hbl. pose proof (zlen_nonneg pre) as Hp0. unfold dmg_open, dmg_open_seek. rewrite layout_len.
    replace (zlen pre + zlen blob + 512 + - 512 <? 0) with false by lia.
    replace (zlen pre + zlen blob + 512 + - 512) with (zlen g - 512) by (rewrite layout_len; lia).
    rewrite layout_trailer. cbn [bind]. rewrite Hmag, Hsl, Hso. unfold dmg_open_bad_magic. cbn [negb Z.eqb Pos.eqb].
    unfold dmg_open_has_sig, dmg_open_sig_unreasonable, dmg_open_alloc, dmg_open_blob_at.
    replace (negb (zlen blob =? 0)) with true by lia. replace ((zlen blob <? 0) || (zlen blob >? 10000000)) with false by lia.
    replace (zlen blob <? 0) with false by lia.
    unfold go_readat. replace (zlen pre <? 0) with false by lia. replace (zlen blob =? 0) with false by lia.
    rewrite layout_len. replace (zlen pre + zlen blob + 512 <? zlen pre + zlen blob) with false by lia. cbn [bind].
    now rewrite layout_blob.
  Qed.

  Lemma sign_pre_signed : dmg_sign_pre g = Ok (k2, zlen pre, pre, dmg_marshal_koly (kset dmg_koly_idx_SignatureLength 0 k2)).
  Proof.
    pose proof (zlen_nonneg pre) as Hp0. pose proof (zlen_nonneg blob) as Hb0. pose proof (koly_ok_length k2 Hk2) as Hl.
    unfold dmg_sign_pre. rewrite trailer_of by (rewrite layout_len; lia). cbn [bind]. rewrite layout_trailer. cbn [bind]. rewrite ztake_c_eq.
    unfold dmg_sign_bundle, dmg_sign_new_sigoff, dmg_sign_has_old, dmg_sign_gap, dmg_sign_pages_len, dmg_sign_hashes_new_offset,
      dmg_for_hashing, dmg_hashing_zeroes_siglen.
    rewrite Hbundle, Hso. replace (negb (zlen pre =? 0) && negb (zlen pre =? zlen pre)) with false by lia.
    replace (kset dmg_koly_idx_SignatureOffset (zlen pre) k2) with k2
      by (rewrite <- Hso; symmetry; apply kset_kget; rewrite Hl; unfold dmg_koly_idx_SignatureOffset; lia).
    now rewrite layout_pre.
  Qed.

  Lemma vhashin_signed : kget dmg_koly_idx_Signature k2 = 1802464377 -> 0 < zlen blob <= 10000000 ->
    dmg_vhashin g = Ok (pre ++ dmg_marshal_koly (kset dmg_koly_idx_SignatureLength 0 k2)).
  Proof.
    intros Hmag Hbl. unfold dmg_vhashin, dmg_verify_inputs. rewrite open_signed by assumption. cbn [bind do_blob do_koly].
    unfold dmg_verify_unsigned. replace (zlen blob =? 0) with false by lia. cbn [bind].
    unfold dmg_verify_pages_len, dmg_verify_pages_from, dmg_for_hashing, dmg_hashing_zeroes_siglen. rewrite Hbundle.
    rewrite ztake_c_eq, zdrop_0. now rewrite layout_pre.
  Qed.
End SignedLayout.

(* every successful embedding (on the domain) produces a signed layout *)
Lemma wf_shape f blob g : dmg_embed_wf f blob = Ok g ->
  exists k, all_bytes f = true /\ 512 <= zlen f /\ all_bytes blob = true /\ 0 < zlen blob <= 10000000 /\
    dmg_parse_koly (zdrop (zlen f - 512) f) = Ok k /\ koly_ok k /\ kget dmg_koly_idx_Signature k = 1802464377 /\
    let bundle := kget dmg_koly_idx_XMLOffset k + kget dmg_koly_idx_XMLLength k in
    let k2 := kset dmg_koly_idx_SignatureLength (zlen blob) (kset dmg_koly_idx_SignatureOffset bundle k) in
    (0 <= bundle <= zlen f - 512 /\ bundle < 9223372036854775808) /\ koly_ok k2 /\
    (kget dmg_koly_idx_SignatureOffset k = 0 \/ kget dmg_koly_idx_SignatureOffset k = bundle) /\
    dmg_hashin f = Ok (ztake bundle f ++ dmg_marshal_koly (kset dmg_koly_idx_SignatureLength 0 (kset dmg_koly_idx_SignatureOffset bundle k))) /\
    g = ztake bundle f ++ blob ++ dmg_marshal_koly k2 /\
    kget dmg_koly_idx_SignatureOffset k2 = bundle /\ kget dmg_koly_idx_SignatureLength k2 = zlen blob /\
    (forall i, i <> dmg_koly_idx_SignatureOffset -> i <> dmg_koly_idx_SignatureLength -> kget i k2 = kget i k).
Proof.
  unfold dmg_embed_wf, dmg_embed. destruct (dmg_dom f && dmg_blob_ok blob) eqn:Ed; [|discriminate].
  apply andb_true_iff in Ed as [Hd Hb].
  destruct (dmg_sign f blob) as [s| |] eqn:Hs; cbn [bind]; try discriminate. intros Hg. apply Ok_inj in Hg. subst g.
  destruct (dmg_dom_spec f Hd) as (Hfb & Hfl & kd & Hpd & Hmag & Hbd & _).
  destruct (dmg_blob_ok_spec blob Hb) as [Hbb Hbl].
  assert (H63 : forall k, dmg_parse_koly (zdrop (zlen f - 512) f) = Ok k -> kget dmg_koly_idx_XMLOffset k + kget dmg_koly_idx_XMLLength k < 9223372036854775808).
  { intros k0 Hk0. rewrite Hpd in Hk0. apply Ok_inj in Hk0. subst k0. lia. }
  destruct (sign_shape f blob s Hfb H63 ltac:(lia) Hs) as (k & Hlen & Hp & Hk & Hbr & Hk2 & Hold & _ & Hpg & Hrep & Hfile).
  rewrite Hp in Hpd. apply Ok_inj in Hpd. subst kd. pose proof (koly_ok_length k Hk) as Hkl.
  exists k. split; [assumption|]. split; [lia|]. split; [assumption|]. split; [lia|]. split; [assumption|]. split; [assumption|]. split; [assumption|].
  cbn zeta in *.
  split; [lia|]. split; [assumption|]. split; [assumption|]. split.
  { unfold dmg_hashin. unfold dmg_sign in Hs. destruct (dmg_sign_pre f) as [[[[k1 bd] pages] rep]| |]; cbn [bind] in Hs |- *; try discriminate.
    destruct (_ || _ || _) in Hs; [discriminate|]. apply Ok_inj in Hs. subst s. cbn [ds_pages ds_rep] in Hpg, Hrep. now rewrite Hpg, Hrep. }
  split; [assumption|]. split.
  { rewrite kget_kset_other by (unfold dmg_koly_idx_SignatureLength, dmg_koly_idx_SignatureOffset; lia).
    apply kget_kset_same. rewrite Hkl. unfold dmg_koly_idx_SignatureOffset. lia. }
  split.
  { apply kget_kset_same. rewrite kset_length, Hkl. unfold dmg_koly_idx_SignatureLength. lia. }
  intros i H1 H2. rewrite !kget_kset_other by congruence. reflexivity.
Qed.

(* C01: law_extract *)
Lemma dmg_law_extract f blob g : dmg_embed_wf f blob = Ok g -> dmg_extract g = Ok (Some blob).
Proof.
  intros Hw. destruct (wf_shape f blob g Hw) as (k & Hfb & Hfl & Hbb & Hbl & Hp & Hk & Hmag & Hbr & Hk2 & Hold & Hh & Hg & Hso & Hsl & Hoth).
  cbn zeta in *. set (bundle := kget dmg_koly_idx_XMLOffset k + kget dmg_koly_idx_XMLLength k) in *.
  set (k2 := kset dmg_koly_idx_SignatureLength (zlen blob) (kset dmg_koly_idx_SignatureOffset bundle k)) in *.
  assert (Hzp : zlen (ztake bundle f) = bundle) by (apply zlen_ztake; lia).
  assert (Hso' : kget dmg_koly_idx_SignatureOffset k2 = zlen (ztake bundle f)) by (rewrite Hzp; exact Hso).
  assert (Hbd' : kget dmg_koly_idx_XMLOffset k2 + kget dmg_koly_idx_XMLLength k2 = zlen (ztake bundle f)).
  { rewrite Hzp, !Hoth by (unfold dmg_koly_idx_XMLOffset, dmg_koly_idx_XMLLength, dmg_koly_idx_SignatureOffset, dmg_koly_idx_SignatureLength; lia). reflexivity. }
  assert (Hmag' : kget dmg_koly_idx_Signature k2 = 1802464377).
  { rewrite Hoth by (unfold dmg_koly_idx_Signature, dmg_koly_idx_SignatureOffset, dmg_koly_idx_SignatureLength; lia). assumption. }
  unfold dmg_extract. subst g. rewrite open_signed by (assumption || lia).
  cbn [bind do_blob]. unfold dmg_verify_unsigned. replace (zlen blob =? 0) with false by lia. reflexivity.
Qed.

(* C01 + C08: law_hashin: the digest input ignores the signature just written (and any signature that was there) *)
Lemma dmg_law_hashin f blob g : dmg_embed_wf f blob = Ok g -> dmg_hashin g = dmg_hashin f.
Proof.
  intros Hw. destruct (wf_shape f blob g Hw) as (k & Hfb & Hfl & Hbb & Hbl & Hp & Hk & Hmag & Hbr & Hk2 & Hold & Hh & Hg & Hso & Hsl & Hoth).
  cbn zeta in *. set (bundle := kget dmg_koly_idx_XMLOffset k + kget dmg_koly_idx_XMLLength k) in *.
  set (k2 := kset dmg_koly_idx_SignatureLength (zlen blob) (kset dmg_koly_idx_SignatureOffset bundle k)) in *.
  assert (Hzp : zlen (ztake bundle f) = bundle) by (apply zlen_ztake; lia).
  assert (Hso' : kget dmg_koly_idx_SignatureOffset k2 = zlen (ztake bundle f)) by (rewrite Hzp; exact Hso).
  assert (Hbd' : kget dmg_koly_idx_XMLOffset k2 + kget dmg_koly_idx_XMLLength k2 = zlen (ztake bundle f)).
  { rewrite Hzp, !Hoth by (unfold dmg_koly_idx_XMLOffset, dmg_koly_idx_XMLLength, dmg_koly_idx_SignatureOffset, dmg_koly_idx_SignatureLength; lia). reflexivity. }
  assert (Hmag' : kget dmg_koly_idx_Signature k2 = 1802464377).
  { rewrite Hoth by (unfold dmg_koly_idx_Signature, dmg_koly_idx_SignatureOffset, dmg_koly_idx_SignatureLength; lia). assumption. }
  rewrite Hh. unfold dmg_hashin. subst g. rewrite sign_pre_signed by (assumption || lia).
  cbn [bind]. unfold k2. now rewrite kset_kset.
Qed.

(* C01 / C05: the verifier's digest input (DMG.Verify: the trailer as found, pages up to the end of the property list) equals the signer's *)
Lemma dmg_vhashin_signed f blob g : dmg_embed_wf f blob = Ok g -> dmg_vhashin g = dmg_hashin f.
Proof.
  intros Hw. destruct (wf_shape f blob g Hw) as (k & Hfb & Hfl & Hbb & Hbl & Hp & Hk & Hmag & Hbr & Hk2 & Hold & Hh & Hg & Hso & Hsl & Hoth).
  cbn zeta in *. set (bundle := kget dmg_koly_idx_XMLOffset k + kget dmg_koly_idx_XMLLength k) in *.
  set (k2 := kset dmg_koly_idx_SignatureLength (zlen blob) (kset dmg_koly_idx_SignatureOffset bundle k)) in *.
  assert (Hzp : zlen (ztake bundle f) = bundle) by (apply zlen_ztake; lia).
  assert (Hso' : kget dmg_koly_idx_SignatureOffset k2 = zlen (ztake bundle f)) by (rewrite Hzp; exact Hso).
  assert (Hbd' : kget dmg_koly_idx_XMLOffset k2 + kget dmg_koly_idx_XMLLength k2 = zlen (ztake bundle f)).
  { rewrite Hzp, !Hoth by (unfold dmg_koly_idx_XMLOffset, dmg_koly_idx_XMLLength, dmg_koly_idx_SignatureOffset, dmg_koly_idx_SignatureLength; lia). reflexivity. }
  assert (Hmag' : kget dmg_koly_idx_Signature k2 = 1802464377).
  { rewrite Hoth by (unfold dmg_koly_idx_Signature, dmg_koly_idx_SignatureOffset, dmg_koly_idx_SignatureLength; lia). assumption. }
  rewrite Hh. subst g. rewrite vhashin_signed by (assumption || lia).
  unfold k2. now rewrite kset_kset.
Qed.

(* ---- the trailer, field by field *)
Fixpoint enc_parts (ws vs : list Z) : list bytes :=
  match ws, vs with w :: wr, v :: vr => enc_field w v :: enc_parts wr vr | _, _ => [] end.
Lemma split_enc ws sgs vs : fields_ok ws sgs vs -> split_w ws (enc_fields ws vs) = enc_parts ws vs.
Proof.
  induction 1 as [|w ws sg sgs v vs Hw Hok _ IH]; [reflexivity|].
  cbn [enc_fields enc_parts]. rewrite split_w_cons by (try apply enc_field_zlen; lia). now rewrite IH.
Qed.
Lemma nth_enc_parts ws : forall vs j, (j < length ws)%nat -> (j < length vs)%nat ->
  nth j (enc_parts ws vs) [] = enc_field (nth j ws 0) (nth j vs 0).
Proof.
  induction ws as [|w ws IH]; intros vs j Hw Hv; [cbn [length] in Hw; lia|].
  destruct vs as [|v vs]; [cbn [length] in Hv; lia|]. destruct j as [|j]; [reflexivity|].
  cbn [enc_parts nth]. cbn [length] in Hw, Hv. apply IH; lia.
Qed.
Lemma nth_blank_parts ws : forall bl parts j, nth j bl 1 = 0 -> (j < length ws)%nat -> (j < length parts)%nat ->
  nth j (blank_parts ws bl parts) [] = nth j parts [].
Proof.
  induction ws as [|w ws IH]; intros bl parts j Hb Hw Hp; [cbn [length] in Hw; lia|].
  destruct bl as [|x bl]; [destruct j; cbn in Hb; lia|]. destruct parts as [|p parts]; [cbn [length] in Hp; lia|].
  destruct j as [|j]; cbn [blank_parts nth] in *.
  - subst x. reflexivity.
  - cbn [length] in Hw, Hp. apply IH; [assumption|lia|lia].
Qed.
Lemma nth_dec_fields sgs : forall parts j, (j < length sgs)%nat -> (j < length parts)%nat ->
  nth j (dec_fields sgs parts) 0 = dec_field (nth j sgs 0) (nth j parts []).
Proof.
  induction sgs as [|sg sgs IH]; intros parts j Hs Hp; [cbn [length] in Hs; lia|].
  destruct parts as [|p parts]; [cbn [length] in Hp; lia|]. destruct j as [|j]; [reflexivity|].
  cbn [dec_fields nth]. cbn [length] in Hs, Hp. apply IH; lia.
Qed.
Lemma nth_named (bl : list Z) : forall k j, nth j bl 1 = 0 -> (j < length k)%nat ->
  nth j (map (fun p : Z * Z => if snd p =? 1 then 0 else fst p) (combine k bl)) 0 = nth j k 0.
Proof.
  induction bl as [|b bl IH]; intros k j Hb Hk; [destruct j; cbn in Hb; lia|].
  destruct k as [|x k]; [cbn [length] in Hk; lia|]. destruct j as [|j]; cbn [combine map nth fst snd] in *.
  - subst b. reflexivity.
  - cbn [length] in Hk. apply IH; [assumption|lia].
Qed.
Lemma split_w_length ws b : length (split_w ws b) = length ws.
Proof. revert b. induction ws as [|w ws IH]; intros b; [reflexivity|]. cbn [split_w length]. now rewrite IH. Qed.
Lemma dec_fields_length sgs : forall parts, length sgs = length parts -> length (dec_fields sgs parts) = length sgs.
Proof.
  induction sgs as [|sg sgs IH]; intros parts H; [reflexivity|]. destruct parts as [|p parts]; [discriminate|].
  cbn [dec_fields length]. rewrite IH; [reflexivity|]. cbn [length] in H. lia.
Qed.

(* relic's field j of a parsed trailer is the decoding of the bytes at the published position of field j *)
Lemma parse_kget tb k j : dmg_parse_koly tb = Ok k -> nth j dmg_koly_blank 1 = 0 -> (j < 23)%nat ->
  kget j k = dec_field (nth j dmg_koly_signed 0) (nth j (spec_koly_slices tb) []).
Proof.
  intros Hp Hb Hj. unfold dmg_parse_koly, go_read_struct in Hp. destruct (zlen tb <? dmg_koly_size); [discriminate|].
  cbn [bind] in Hp. apply Ok_inj in Hp. subst k. unfold kget, koly_named.
  rewrite nth_named; [|assumption|rewrite dec_fields_length by (now rewrite split_w_length); exact Hj].
  rewrite nth_dec_fields; [|exact Hj|rewrite split_w_length; exact Hj]. now rewrite koly_positions.
Qed.

(* the bytes of field j in relic's re-serialised trailer *)
Lemma marshal_part k j : koly_ok k -> (j < 23)%nat ->
  nth j (spec_koly_slices (dmg_marshal_koly k)) [] = enc_field (nth j dmg_koly_widths 0) (kget j k).
Proof.
  intros [Hf Hn] Hj. rewrite <- koly_positions. unfold dmg_marshal_koly. rewrite Hn.
  rewrite (split_enc _ _ _ Hf). destruct (fields_ok_length _ _ _ Hf) as [H1 _].
  apply nth_enc_parts; [exact Hj|rewrite H1; exact Hj].
Qed.
Lemma slices_length b : length (spec_koly_slices b) = 23%nat.
Proof. reflexivity. Qed.
Lemma slice_part_bytes tb j : all_bytes tb = true -> all_bytes (nth j (spec_koly_slices tb) []) = true.
Proof.
  intros Hb. unfold spec_koly_slices. do 23 (destruct j as [|j]; [cbn [nth]; now apply all_bytes_zslice|]). destruct j; reflexivity.
Qed.
Lemma slice_part_len tb j : zlen tb = 512 -> (j < 23)%nat -> zlen (nth j (spec_koly_slices tb) []) = nth j dmg_koly_widths 0.
Proof.
  intros Hl Hj. unfold spec_koly_slices, dmg_koly_widths.
  do 23 (destruct j as [|j]; [cbn [nth]; unfold zslice; rewrite zlen_ztake; [lia|rewrite zlen_zdrop by lia; lia]|]). lia.
Qed.
(* a named field other than the two signature fields keeps its bytes when the image is signed *)
Lemma kept_part tb k k2 j : all_bytes tb = true -> zlen tb = 512 -> dmg_parse_koly tb = Ok k -> koly_ok k2 ->
  kget j k2 = kget j k -> nth j dmg_koly_blank 1 = 0 -> (j < 23)%nat ->
  nth j (spec_koly_slices (dmg_marshal_koly k2)) [] = nth j (spec_koly_slices tb) [].
Proof.
  intros Hb Hl Hp Hk2 He Hbl Hj. rewrite marshal_part by assumption. rewrite He, (parse_kget tb k j Hp Hbl Hj).
  rewrite <- (slice_part_len tb j Hl Hj). apply enc_dec_field; [now apply slice_part_bytes|].
  rewrite slice_part_len by assumption. unfold dmg_koly_widths. do 23 (destruct j as [|j]; [cbn [nth]; lia|]). lia.
Qed.
Lemma zslice_prefix (f rest : bytes) n a b : 0 <= a -> a <= b -> b <= n -> n <= zlen f -> zslice a b (ztake n f ++ rest) = zslice a b f.
Proof.
  intros Ha Hab Hbn Hn. unfold zslice.
  rewrite zdrop_app_l by (rewrite zlen_ztake by lia; lia). rewrite ztake_app_l by (rewrite zlen_zdrop by (rewrite zlen_ztake by lia; lia); rewrite zlen_ztake by lia; lia).
  rewrite <- (ztake_zdrop n f) at 2. rewrite zdrop_app_l by (rewrite zlen_ztake by lia; lia).
  rewrite ztake_app_l; [reflexivity|]. rewrite zlen_zdrop by (rewrite zlen_ztake by lia; lia). rewrite zlen_ztake by lia. lia.
Qed.
(* an 8-byte field that relic reads as a non-negative int64 is read as the same number by the specification reader *)
Lemma kget_unsigned tb k j : all_bytes tb = true -> zlen tb = 512 -> dmg_parse_koly tb = Ok k -> nth j dmg_koly_blank 1 = 0 -> (j < 23)%nat ->
  nth j dmg_koly_signed 0 = 1 -> nth j dmg_koly_widths 0 = 8 -> 0 <= kget j k -> be_dec (nth j (spec_koly_slices tb) []) = kget j k.
Proof.
  intros Hb Hl Hp Hbl Hj Hs Hw Hn. rewrite (parse_kget tb k j Hp Hbl Hj) in *. rewrite Hs in *. unfold dec_field in *. cbn [Z.eqb Pos.eqb] in *.
  pose proof (slice_part_len tb j Hl Hj) as Hz. rewrite Hw in Hz. rewrite Hz in *. symmetry. apply to_signed_nonneg; [lia| |assumption].
  pose proof (be_dec_range _ (slice_part_bytes tb j Hb)) as Hr. rewrite Hz in Hr. rewrite pow256 in Hr by lia. exact Hr.
Qed.

Lemma wf_forks f blob g k : dmg_embed_wf f blob = Ok g -> dmg_parse_koly (zdrop (zlen f - 512) f) = Ok k ->
  let bundle := kget dmg_koly_idx_XMLOffset k + kget dmg_koly_idx_XMLLength k in
  fork_in (kget dmg_koly_idx_DataForkOffset k) (kget dmg_koly_idx_DataForkLength k) bundle = true /\
  fork_in (kget dmg_koly_idx_ResourceForkOffset k) (kget dmg_koly_idx_ResourceForkLength k) bundle = true /\
  fork_in (kget dmg_koly_idx_XMLOffset k) (kget dmg_koly_idx_XMLLength k) bundle = true.
Proof.
  unfold dmg_embed_wf. destruct (dmg_dom f && dmg_blob_ok blob) eqn:Ed; [|discriminate]. intros _ Hp.
  apply andb_true_iff in Ed as [Hd _]. destruct (dmg_dom_spec f Hd) as (_ & _ & kd & Hpd & _ & _ & H1 & H2 & H3).
  rewrite Hp in Hpd. apply Ok_inj in Hpd. subst kd. cbn zeta. auto.
Qed.

Lemma spec_range_signed (f blob : bytes) (t : bytes) bundle off len : 0 <= bundle <= zlen f - 512 -> zlen t = 512 ->
  fork_in off len bundle = true ->
  spec_range (ztake bundle f ++ blob ++ t) off len = spec_range f off len.
Proof.
  intros Hb Ht Hf. unfold fork_in in Hf. unfold spec_range. rewrite !zlen_app, Ht, zlen_ztake by lia.
  pose proof (zlen_nonneg blob).
  replace ((off <? 0) || (len <? 0) || (bundle + (zlen blob + 512) - 512 <? off + len)) with false by lia.
  replace ((off <? 0) || (len <? 0) || (zlen f - 512 <? off + len)) with false by lia.
  f_equal. apply zslice_prefix; lia.
Qed.

(* C03: law_payload *)
Lemma dmg_law_payload f blob g : dmg_embed_wf f blob = Ok g -> spec_dmg_payload g = spec_dmg_payload f.
Proof.
  intros Hw. destruct (wf_shape f blob g Hw) as (k & Hfb & Hfl & Hbb & Hbl & Hp & Hk & Hmag & Hbr & Hk2 & Hold & Hh & Hg & Hso & Hsl & Hoth).
  destruct (wf_forks f blob g k Hw Hp) as (Hf1 & Hf2 & Hf3).
  cbn zeta in *. set (bundle := kget dmg_koly_idx_XMLOffset k + kget dmg_koly_idx_XMLLength k) in *.
  set (k2 := kset dmg_koly_idx_SignatureLength (zlen blob) (kset dmg_koly_idx_SignatureOffset bundle k)) in *.
  set (tb := zdrop (zlen f - 512) f) in *.
  assert (Htl : zlen tb = 512) by (unfold tb; rewrite zlen_zdrop by lia; lia).
  assert (Htb : all_bytes tb = true) by (unfold tb; now apply all_bytes_zdrop).
  assert (Hkept : forall j, In j spec_koly_kept -> nth j (spec_koly_slices (dmg_marshal_koly k2)) [] = nth j (spec_koly_slices tb) []).
  { intros j Hin. unfold spec_koly_kept in Hin. cbn [In] in Hin.
    repeat (destruct Hin as [<-|Hin]; [apply (kept_part tb k k2); try assumption; try reflexivity; try lia;
      apply Hoth; unfold dmg_koly_idx_SignatureOffset, dmg_koly_idx_SignatureLength; lia|]). contradiction. }
  assert (Hu : forall j, nth j dmg_koly_blank 1 = 0 -> (j < 23)%nat -> nth j dmg_koly_signed 0 = 1 -> nth j dmg_koly_widths 0 = 8 -> 0 <= kget j k ->
               be_dec (nth j (spec_koly_slices tb) []) = kget j k) by (intros; now apply kget_unsigned).
  unfold fork_in in Hf1, Hf2, Hf3.
  assert (Hm0 : be_dec (nth 0 (spec_koly_slices tb) []) = 1802464377).
  { pose proof (parse_kget tb k 0 Hp eq_refl ltac:(lia)) as H0. unfold dmg_koly_signed in H0. cbn [nth] in H0. unfold dec_field in H0. cbn [Z.eqb] in H0.
    unfold dmg_koly_idx_Signature in Hmag. unfold kget in *. cbn [nth] in *. congruence. }
  (* the two trailers as the specification reader sees them *)
  assert (Hsf : spec_dmg_trailer f = spec_read_koly tb).
  { unfold spec_dmg_trailer. replace (zlen f <? 512) with false by lia. reflexivity. }
  assert (Hsg : spec_dmg_trailer g = spec_read_koly (dmg_marshal_koly k2)).
  { unfold spec_dmg_trailer. subst g. rewrite signed_len by assumption. pose proof (zlen_nonneg blob).
    rewrite zlen_ztake by lia. replace (bundle + zlen blob + 512 <? 512) with false by lia. f_equal.
    replace (bundle + zlen blob + 512) with (zlen (ztake bundle f ++ blob ++ dmg_marshal_koly k2)) by (rewrite signed_len by assumption; rewrite zlen_ztake by lia; lia).
    rewrite app_assoc. apply tail_of_app. now apply marshal_koly_zlen. }
  unfold spec_dmg_payload. rewrite Hsf, Hsg. unfold spec_read_koly.
  rewrite marshal_koly_zlen by assumption. rewrite Htl. cbn [Z.eqb Pos.eqb negb].
  rewrite (Hkept 0%nat) by (unfold spec_koly_kept; cbn; auto). rewrite Hm0. cbn [Z.eqb Pos.eqb negb].
  cbn [sk_dataoff sk_datalen sk_rsrcoff sk_rsrclen sk_xmloff sk_xmllen sk_slices].
  rewrite (Hkept 5%nat), (Hkept 6%nat), (Hkept 7%nat), (Hkept 8%nat), (Hkept 13%nat), (Hkept 14%nat) by (unfold spec_koly_kept; cbn; tauto).
  unfold dmg_koly_idx_DataForkOffset, dmg_koly_idx_DataForkLength, dmg_koly_idx_ResourceForkOffset, dmg_koly_idx_ResourceForkLength,
    dmg_koly_idx_XMLOffset, dmg_koly_idx_XMLLength in *.
  rewrite (Hu 5%nat), (Hu 6%nat), (Hu 7%nat), (Hu 8%nat), (Hu 13%nat), (Hu 14%nat) by (try reflexivity; lia).
  f_equal. subst g. rewrite !spec_range_signed; try (now apply marshal_koly_zlen); try lia; try (unfold fork_in; lia).
  f_equal. apply map_ext_in. intros j Hin. now apply Hkept.
Qed.

Lemma be_dec_enc_field8 v : 0 <= v < 9223372036854775808 -> be_dec (enc_field 8 v) = v.
Proof.
  intros H. unfold enc_field. rewrite be_dec_enc_mod. apply Z.mod_small.
  change (256 ^ Z.of_nat (Z.to_nat 8)) with 18446744073709551616. lia.
Qed.

(* C05 / C02: what is hashed for a disk image is exactly what lies in front of the code signature offset the rewritten trailer
   declares; the file is  pages ++ blob ++ trailer  and nothing else; the specification reader finds the blob *)
Lemma dmg_code_size_is_data_end f blob g : dmg_embed_wf f blob = Ok g ->
  exists sk pages rep trailer,
    spec_dmg_trailer g = Some sk /\ sk_sigoff sk = zlen pages /\ sk_siglen sk = zlen blob /\
    spec_dmg_signature g = Some (Some blob) /\
    dmg_hashin f = Ok (pages ++ rep) /\ dmg_vhashin g = Ok (pages ++ rep) /\ zlen rep = 512 /\ zlen trailer = 512 /\
    pages = ztake (sk_sigoff sk) g /\ pages = ztake (zlen pages) f /\ g = pages ++ blob ++ trailer /\
    sk_xmloff sk + sk_xmllen sk = sk_sigoff sk.
Proof.
  intros Hw. pose proof (dmg_vhashin_signed f blob g Hw) as Hv.
  destruct (wf_shape f blob g Hw) as (k & Hfb & Hfl & Hbb & Hbl & Hp & Hk & Hmag & Hbr & Hk2 & Hold & Hh & Hg & Hso & Hsl & Hoth).
  destruct (wf_forks f blob g k Hw Hp) as (_ & _ & Hf3).
  cbn zeta in *. set (bundle := kget dmg_koly_idx_XMLOffset k + kget dmg_koly_idx_XMLLength k) in *.
  set (k2 := kset dmg_koly_idx_SignatureLength (zlen blob) (kset dmg_koly_idx_SignatureOffset bundle k)) in *.
  set (k0 := kset dmg_koly_idx_SignatureLength 0 (kset dmg_koly_idx_SignatureOffset bundle k)) in *.
  assert (Hzp : zlen (ztake bundle f) = bundle) by (apply zlen_ztake; lia).
  assert (Hk0 : koly_ok k0) by (apply koly_ok_set_siglen; [apply koly_ok_set_sigoff; [assumption|unfold int64_ok; lia]|unfold int64_ok; lia]).
  assert (Hsg : spec_dmg_trailer g = spec_read_koly (dmg_marshal_koly k2)).
  { unfold spec_dmg_trailer. subst g. rewrite signed_len by assumption. rewrite Hzp. replace (bundle + zlen blob + 512 <? 512) with false by lia. f_equal.
    replace (bundle + zlen blob + 512) with (zlen (ztake bundle f ++ blob ++ dmg_marshal_koly k2)) by (rewrite signed_len by assumption; rewrite Hzp; lia).
    rewrite app_assoc. apply tail_of_app. now apply marshal_koly_zlen. }
  assert (Hpart : forall j, (j < 23)%nat -> nth j dmg_koly_widths 0 = 8 -> 0 <= kget j k2 < 9223372036854775808 ->
                  be_dec (nth j (spec_koly_slices (dmg_marshal_koly k2)) []) = kget j k2).
  { intros j Hj Hw8 Hr. rewrite marshal_part by assumption. rewrite Hw8. now apply be_dec_enc_field8. }
  assert (Hm : be_dec (nth 0 (spec_koly_slices (dmg_marshal_koly k2)) []) = 1802464377).
  { rewrite marshal_part by (try assumption; lia). unfold dmg_koly_widths. cbn [nth]. unfold enc_field. rewrite be_dec_enc_mod.
    replace (kget 0 k2) with 1802464377; [reflexivity|]. symmetry. rewrite <- Hmag. unfold dmg_koly_idx_Signature.
    apply Hoth; idx. }
  unfold fork_in in Hf3.
  assert (Hxo : kget 13 k2 = kget dmg_koly_idx_XMLOffset k) by (apply Hoth; idx).
  assert (Hxl : kget 14 k2 = kget dmg_koly_idx_XMLLength k) by (apply Hoth; idx).
  unfold dmg_koly_idx_SignatureOffset, dmg_koly_idx_SignatureLength in Hso, Hsl.
  eexists. exists (ztake bundle f), (dmg_marshal_koly k0), (dmg_marshal_koly k2).
  split.
  { rewrite Hsg. unfold spec_read_koly. rewrite marshal_koly_zlen by assumption. cbn [Z.eqb Pos.eqb negb]. rewrite Hm. cbn [Z.eqb Pos.eqb negb]. reflexivity. }
  cbn [sk_sigoff sk_siglen sk_xmloff sk_xmllen].
  rewrite (Hpart 16%nat), (Hpart 17%nat), (Hpart 13%nat), (Hpart 14%nat) by (try reflexivity; lia).
  rewrite Hso, Hsl, Hxo, Hxl, Hzp.
  split; [reflexivity|]. split; [reflexivity|]. split.
  { unfold spec_dmg_signature. rewrite Hsg. unfold spec_read_koly. rewrite marshal_koly_zlen by assumption. cbn [Z.eqb Pos.eqb negb]. rewrite Hm. cbn [Z.eqb Pos.eqb negb].
    cbn [sk_siglen sk_sigoff]. rewrite (Hpart 16%nat), (Hpart 17%nat) by (try reflexivity; lia). rewrite Hso, Hsl.
    replace (zlen blob =? 0) with false by lia. unfold spec_range. subst g. rewrite signed_len by assumption. rewrite Hzp.
    replace ((bundle <? 0) || (zlen blob <? 0) || (bundle + zlen blob + 512 - 512 <? bundle + zlen blob)) with false by lia.
    rewrite <- Hzp at 1 2. now rewrite layout_blob. }
  split; [exact Hh|]. split; [now rewrite Hv|]. split; [now apply marshal_koly_zlen|]. split; [now apply marshal_koly_zlen|].
  split. { subst g. rewrite <- Hzp at 2. now rewrite layout_pre. }
  split; [reflexivity|]. split; [exact Hg|]. fold bundle. reflexivity.
Qed.

(* C08: the signed image is again in the domain (signing can be repeated) *)
Lemma dmg_dom_preserved f blob g : dmg_embed_wf f blob = Ok g -> dmg_dom g = true.
Proof.
  intros Hw. destruct (wf_shape f blob g Hw) as (k & Hfb & Hfl & Hbb & Hbl & Hp & Hk & Hmag & Hbr & Hk2 & Hold & Hh & Hg & Hso & Hsl & Hoth).
  destruct (wf_forks f blob g k Hw Hp) as (Hf1 & Hf2 & Hf3).
  cbn zeta in *. set (bundle := kget dmg_koly_idx_XMLOffset k + kget dmg_koly_idx_XMLLength k) in *.
  set (k2 := kset dmg_koly_idx_SignatureLength (zlen blob) (kset dmg_koly_idx_SignatureOffset bundle k)) in *.
  assert (Hzp : zlen (ztake bundle f) = bundle) by (apply zlen_ztake; lia).
  unfold dmg_dom. subst g. rewrite signed_len by assumption. rewrite Hzp.
  rewrite !all_bytes_app, Hbb, marshal_koly_bytes, (all_bytes_ztake _ _ Hfb).
  replace (bundle + zlen blob + 512 - 512) with (zlen (ztake bundle f ++ blob ++ dmg_marshal_koly k2) - 512) by (rewrite signed_len by assumption; rewrite Hzp; lia).
  rewrite signed_trailer by assumption. rewrite signed_len by assumption. rewrite Hzp.
  rewrite !Hoth by (unfold dmg_koly_idx_Signature, dmg_koly_idx_XMLOffset, dmg_koly_idx_XMLLength, dmg_koly_idx_DataForkOffset, dmg_koly_idx_DataForkLength,
    dmg_koly_idx_ResourceForkOffset, dmg_koly_idx_ResourceForkLength, dmg_koly_idx_SignatureOffset, dmg_koly_idx_SignatureLength; lia).
  fold bundle. rewrite Hf1, Hf2, Hf3, Hmag. cbn [andb Z.eqb Pos.eqb].
  lia.
Qed.

(* C01: on the domain signing succeeds unless an existing signature does not start where the property list ends *)
Lemma dmg_embed_total f blob : dmg_dom f = true -> dmg_blob_ok blob = true ->
  (exists g, dmg_embed_wf f blob = Ok g) \/
  (dmg_embed_wf f blob = Err E_GAP /\ exists k, dmg_parse_koly (zdrop (zlen f - 512) f) = Ok k /\
     kget dmg_koly_idx_SignatureOffset k <> 0 /\ kget dmg_koly_idx_SignatureOffset k <> kget dmg_koly_idx_XMLOffset k + kget dmg_koly_idx_XMLLength k).
Proof.
  intros Hd Hb. unfold dmg_embed_wf. rewrite Hd, Hb. cbn [andb].
  destruct (dmg_dom_spec f Hd) as (Hfb & Hfl & k & Hp & Hmag & Hbd & _).
  assert (Hk : koly_ok k) by (eapply parse_koly_ok; [apply all_bytes_zdrop; exact Hfb|exact Hp]).
  pose proof (koly_ok_length k Hk) as Hkl.
  unfold dmg_embed, dmg_sign, dmg_sign_pre. rewrite trailer_of by lia. cbn [bind]. rewrite Hp. cbn [bind].
  unfold dmg_sign_bundle, dmg_sign_new_sigoff, dmg_sign_has_old, dmg_sign_gap.
  set (bundle := kget dmg_koly_idx_XMLOffset k + kget dmg_koly_idx_XMLLength k) in *.
  destruct (negb (kget dmg_koly_idx_SignatureOffset k =? 0) && negb (kget dmg_koly_idx_SignatureOffset k =? bundle)) eqn:Eg.
  - right. split; [reflexivity|]. exists k. split; [reflexivity|]. lia.
  - left. cbn [bind]. unfold dmg_sign_patch_off, dmg_sign_patch_old.
    rewrite (kget_kset_other dmg_koly_idx_SignatureLength dmg_koly_idx_SignatureOffset) by (unfold dmg_koly_idx_SignatureLength, dmg_koly_idx_SignatureOffset; lia).
    rewrite kget_kset_same by (rewrite Hkl; unfold dmg_koly_idx_SignatureOffset; lia).
    replace ((bundle <? 0) || (zlen f - bundle <? 0) || (zlen f <? bundle + (zlen f - bundle))) with false by lia.
    cbn [bind]. eexists. reflexivity.
Qed.

(* C01: refusals of the library call, for every input: a file shorter than a trailer; an existing signature that does not start at
   the end of the property list; a property list end outside the file (the patch range would lie outside) *)
Lemma dmg_refuses f blob e : dmg_embed f blob = Err e ->
  (e = E_EOF /\ zlen f < 512) \/
  exists k, dmg_parse_koly (zdrop (zlen f - 512) f) = Ok k /\
    let bundle := kget dmg_koly_idx_XMLOffset k + kget dmg_koly_idx_XMLLength k in
    (e = E_GAP /\ kget dmg_koly_idx_SignatureOffset k <> 0 /\ kget dmg_koly_idx_SignatureOffset k <> bundle) \/
    (e = E_PATCH /\ (bundle < 0 \/ zlen f < bundle)).
Proof.
  unfold dmg_embed, dmg_sign, dmg_sign_pre. destruct (Z_lt_ge_dec (zlen f) 512) as [Hs|Hl].
  - unfold dmg_trailer_of, dmg_transform_seek. replace (zlen f + - 512 <? 0) with true by lia. cbn [bind]. intros H. left. split; [congruence|lia].
  - rewrite trailer_of by lia. cbn [bind]. unfold dmg_parse_koly at 1, go_read_struct.
    replace (zlen (zdrop (zlen f - 512) f) <? dmg_koly_size) with false by (rewrite zlen_zdrop by lia; unfold dmg_koly_size; lia).
    cbn [bind]. set (k := koly_named (dec_fields dmg_koly_signed (split_w dmg_koly_widths (zdrop (zlen f - 512) f)))).
    assert (Hp : dmg_parse_koly (zdrop (zlen f - 512) f) = Ok k).
    { unfold dmg_parse_koly, go_read_struct. replace (zlen (zdrop (zlen f - 512) f) <? dmg_koly_size) with false by (rewrite zlen_zdrop by lia; unfold dmg_koly_size; lia). reflexivity. }
    unfold dmg_sign_bundle, dmg_sign_new_sigoff, dmg_sign_has_old, dmg_sign_gap, dmg_sign_patch_off, dmg_sign_patch_old.
    set (bundle := kget dmg_koly_idx_XMLOffset k + kget dmg_koly_idx_XMLLength k).
    destruct (negb (kget dmg_koly_idx_SignatureOffset k =? 0) && negb (kget dmg_koly_idx_SignatureOffset k =? bundle)) eqn:Eg; cbn [bind].
    + intros H. right. exists k. split; [exact Hp|]. left. split; [congruence|]. fold bundle. lia.
    + assert (Hlen : (dmg_koly_idx_SignatureOffset < length k)%nat).
      { unfold k, koly_named. rewrite map_length, combine_length, dec_fields_length by (now rewrite split_w_length).
        change (length dmg_koly_signed) with 23%nat. change (length dmg_koly_blank) with 23%nat. unfold dmg_koly_idx_SignatureOffset. lia. }
      rewrite (kget_kset_other dmg_koly_idx_SignatureLength dmg_koly_idx_SignatureOffset) by (unfold dmg_koly_idx_SignatureLength, dmg_koly_idx_SignatureOffset; lia).
      rewrite kget_kset_same by exact Hlen.
      destruct ((bundle <? 0) || (zlen f - bundle <? 0) || (zlen f <? bundle + (zlen f - bundle))) eqn:Er; [|discriminate].
      cbn [bind]. intros H. right. exists k. split; [exact Hp|]. right. split; [congruence|]. fold bundle. lia.
Qed.

(* C11: dmg.Open and the signer never panic on any byte string; the only allocation sized by the input is bounded by a constant *)
Lemma go_readat_no_panic f off n p : go_readat f off n <> Panic p.
Proof. unfold go_readat. destruct (off <? 0); [discriminate|]. destruct (n =? 0); [discriminate|]. destruct (_ <? _); discriminate. Qed.
Lemma dmg_open_no_panic f p : dmg_open f <> Panic p.
Proof.
  unfold dmg_open. destruct (zlen f + dmg_open_seek <? 0); [discriminate|].
  unfold dmg_parse_koly, go_read_struct. destruct (zlen _ <? dmg_koly_size); cbn [bind]; [discriminate|].
  destruct (dmg_open_bad_magic _); [discriminate|]. destruct (dmg_open_has_sig _) eqn:Eh; [|discriminate].
  destruct (dmg_open_sig_unreasonable _) eqn:Eu; [discriminate|].
  unfold dmg_open_sig_unreasonable, dmg_open_alloc in *. match goal with |- context [?x <? 0] => replace (x <? 0) with false by lia end.
  match goal with |- context [go_readat ?a ?b ?c] => pose proof (go_readat_no_panic a b c p) as Hn; destruct (go_readat a b c) end; cbn [bind]; congruence.
Qed.
Lemma dmg_open_allocs_bounded f o : dmg_open f = Ok o -> Forall (fun n => 0 < n <= 10000000) (do_allocs o).
Proof.
  unfold dmg_open. destruct (zlen f + dmg_open_seek <? 0); [discriminate|].
  destruct (dmg_parse_koly _) as [k| |]; cbn [bind]; try discriminate.
  destruct (dmg_open_bad_magic _); [discriminate|]. destruct (dmg_open_has_sig _) eqn:Eh.
  - destruct (dmg_open_sig_unreasonable _) eqn:Eu; [discriminate|]. unfold dmg_open_sig_unreasonable, dmg_open_has_sig, dmg_open_alloc in *.
    match goal with |- context [?x <? 0] => replace (x <? 0) with false by lia end.
    destruct (go_readat _ _ _); cbn [bind]; try discriminate. intros H. apply Ok_inj in H. subst o. cbn [do_allocs]. constructor; [lia|constructor].
  - intros H. apply Ok_inj in H. subst o. constructor.
Qed.
Lemma dmg_sign_no_panic f blob p : dmg_sign f blob <> Panic p.
Proof.
  unfold dmg_sign, dmg_sign_pre, dmg_trailer_of. destruct (_ <? 0); cbn [bind]; [discriminate|].
  unfold dmg_parse_koly, go_read_struct. destruct (zlen _ <? dmg_koly_size); cbn [bind]; [discriminate|].
  destruct (_ && _); cbn [bind]; [discriminate|]. destruct (_ || _ || _); discriminate.
Qed.

(* C08: the is-signed probe coincides with the specification reader's "code signature length is zero" *)
Lemma dmg_is_signed_spec f : dmg_dom f = true ->
  (dmg_extract f = Ok None <-> spec_dmg_signature f = Some None).
Proof.
  intros Hd. destruct (dmg_dom_spec f Hd) as (Hfb & Hfl & k & Hp & Hmag & Hbd & _).
  set (tb := zdrop (zlen f - 512) f) in *.
  assert (Htl : zlen tb = 512) by (unfold tb; rewrite zlen_zdrop by lia; lia).
  assert (Htb : all_bytes tb = true) by (unfold tb; now apply all_bytes_zdrop).
  assert (Hk : koly_ok k) by (eapply parse_koly_ok; eassumption).
  assert (Hm0 : be_dec (nth 0 (spec_koly_slices tb) []) = 1802464377).
  { pose proof (parse_kget tb k 0 Hp eq_refl ltac:(lia)) as H0. unfold dmg_koly_signed in H0. cbn [nth] in H0. unfold dec_field in H0. cbn [Z.eqb] in H0.
    unfold dmg_koly_idx_Signature in Hmag. unfold kget in *. cbn [nth] in *. congruence. }
  pose proof (parse_kget tb k 17 Hp eq_refl ltac:(lia)) as H17. unfold dmg_koly_signed in H17. cbn [nth] in H17. unfold dec_field in H17. cbn [Z.eqb Pos.eqb] in H17.
  pose proof (slice_part_len tb 17 Htl ltac:(lia)) as Hz. unfold dmg_koly_widths in Hz. cbn [nth] in Hz. rewrite Hz in H17.
  pose proof (be_dec_range _ (slice_part_bytes tb 17 Htb)) as Hr. rewrite Hz in Hr. change (256 ^ 8) with 18446744073709551616 in Hr.
  set (u := be_dec (nth 17 (spec_koly_slices tb) [])) in *.
  assert (Hzero : kget 17 k = 0 <-> u = 0).
  { rewrite H17. unfold to_signed. change (2 ^ (8 * 8 - 1)) with 9223372036854775808. change (2 ^ (8 * 8)) with 18446744073709551616.
    destruct (u <? 9223372036854775808) eqn:E; lia. }
  unfold spec_dmg_signature, spec_dmg_trailer. replace (zlen f <? 512) with false by lia. fold tb.
  unfold spec_read_koly. rewrite Htl. cbn [Z.eqb Pos.eqb negb]. rewrite Hm0. cbn [Z.eqb Pos.eqb negb sk_siglen sk_sigoff]. fold u.
  unfold dmg_extract, dmg_open, dmg_open_seek. replace (zlen f + - 512 <? 0) with false by lia.
  replace (zlen f + - 512) with (zlen f - 512) by lia. fold tb. rewrite Hp. cbn [bind].
  unfold dmg_open_bad_magic. rewrite Hmag. cbn [negb Z.eqb Pos.eqb]. unfold dmg_open_has_sig, dmg_koly_idx_SignatureLength.
  destruct (kget 17 k =? 0) eqn:E0; cbn [negb bind do_blob].
  - unfold dmg_verify_unsigned. cbn [zlen length Z.of_nat Z.eqb]. replace (u =? 0) with true by lia. split; reflexivity.
  - replace (u =? 0) with false by lia. split.
    + intros H. exfalso. destruct (dmg_open_sig_unreasonable (kget 17 k)) eqn:Eu; [discriminate|].
      unfold dmg_open_sig_unreasonable, dmg_open_alloc in *. replace (kget 17 k <? 0) with false in H by lia.
      destruct (go_readat f _ (kget 17 k)) as [b| |] eqn:Er; cbn [bind do_blob] in H; try discriminate.
      unfold go_readat, dmg_open_blob_at in Er.
      destruct (kget dmg_koly_idx_SignatureOffset k <? 0) eqn:Eo; [discriminate|]. rewrite E0 in Er.
      destruct (zlen f <? kget dmg_koly_idx_SignatureOffset k + kget 17 k) eqn:Ez; [discriminate|].
      apply Ok_inj in Er. unfold dmg_verify_unsigned in H. destruct (zlen b =? 0) eqn:Eb; [|discriminate].
      subst b. unfold zslice in Eb. rewrite zlen_ztake in Eb; [lia|]. split; [lia|]. rewrite zlen_zdrop by lia. lia.
    + destruct (spec_range f _ u); discriminate.
Qed.

(* ---- C02: what the code signature's digest input pins down *)
Lemma app_inv_len {A} (a b c d : list A) : a ++ b = c ++ d -> length b = length d -> a = c /\ b = d.
Proof.
  intros He Hl. assert (Hla : length a = length c).
  { apply (f_equal (@length A)) in He. rewrite !app_length in He. lia. }
  revert c He Hla. induction a as [|x a IH]; intros [|y c] He Hla; cbn in *; try discriminate; [auto|].
  injection He as <- He. destruct (IH c He) as [<- <-]; [lia|auto].
Qed.
Lemma vhashin_shape g p : dmg_vhashin g = Ok p ->
  exists k, dmg_parse_koly (zdrop (zlen g + dmg_open_seek) g) = Ok k /\
    p = ztake (kget dmg_koly_idx_XMLOffset k + kget dmg_koly_idx_XMLLength k) g ++ dmg_marshal_koly (kset dmg_koly_idx_SignatureLength 0 k).
Proof.
  unfold dmg_vhashin, dmg_verify_inputs, dmg_open. destruct (zlen g + dmg_open_seek <? 0); cbn [bind]; [discriminate|].
  destruct (dmg_parse_koly _) as [k| |]; cbn [bind]; try discriminate.
  destruct (dmg_open_bad_magic _); cbn [bind]; [discriminate|].
  assert (Hgen : forall o, do_koly o = k ->
    (v <- (if dmg_verify_unsigned (zlen (do_blob o)) then Err E_NOTSIGNED
           else Ok (do_blob o, dmg_for_hashing (do_koly o),
                    ztake_c (dmg_verify_pages_len (kget dmg_koly_idx_XMLOffset (do_koly o)) (kget dmg_koly_idx_XMLLength (do_koly o))) (zdrop dmg_verify_pages_from g))) ;;
     (let '(_, rep, pages) := v in Ok (pages ++ rep))) = Ok p ->
    exists k0, Ok k = Ok k0 /\ p = ztake (kget dmg_koly_idx_XMLOffset k0 + kget dmg_koly_idx_XMLLength k0) g ++ dmg_marshal_koly (kset dmg_koly_idx_SignatureLength 0 k0)).
  { intros o Ho. rewrite Ho. destruct (dmg_verify_unsigned _); cbn [bind]; [discriminate|]. intros H. apply Ok_inj in H. subst p.
    exists k. split; [reflexivity|]. rewrite ztake_c_eq. reflexivity. }
  destruct (dmg_open_has_sig _).
  - destruct (dmg_open_sig_unreasonable _); cbn [bind]; [discriminate|]. destruct (_ <? 0); cbn [bind]; [discriminate|].
    destruct (go_readat _ _ _) as [b| |]; cbn [bind]; try discriminate. apply Hgen. reflexivity.
  - cbn [bind]. apply Hgen. reflexivity.
Qed.
Lemma dmg_protect g1 g2 p : all_bytes g1 = true -> all_bytes g2 = true -> dmg_vhashin g1 = Ok p -> dmg_vhashin g2 = Ok p ->
  exists k1 k2, dmg_parse_koly (zdrop (zlen g1 + dmg_open_seek) g1) = Ok k1 /\ dmg_parse_koly (zdrop (zlen g2 + dmg_open_seek) g2) = Ok k2 /\
    (forall i, i <> dmg_koly_idx_SignatureLength -> kget i k1 = kget i k2) /\
    let n := kget dmg_koly_idx_XMLOffset k1 + kget dmg_koly_idx_XMLLength k1 in ztake n g1 = ztake n g2.
Proof.
  intros Hb1 Hb2 H1 H2. destruct (vhashin_shape g1 p H1) as (k1 & Hp1 & E1). destruct (vhashin_shape g2 p H2) as (k2 & Hp2 & E2).
  assert (Hk1 : koly_ok k1) by (eapply parse_koly_ok; [apply all_bytes_zdrop; exact Hb1|exact Hp1]).
  assert (Hk2 : koly_ok k2) by (eapply parse_koly_ok; [apply all_bytes_zdrop; exact Hb2|exact Hp2]).
  assert (Hz1 : koly_ok (kset dmg_koly_idx_SignatureLength 0 k1)) by (apply koly_ok_set_siglen; [assumption|unfold int64_ok; lia]).
  assert (Hz2 : koly_ok (kset dmg_koly_idx_SignatureLength 0 k2)) by (apply koly_ok_set_siglen; [assumption|unfold int64_ok; lia]).
  rewrite E1 in E2. apply app_inv_len in E2 as [Hpages Hrep].
  2:{ pose proof (marshal_koly_zlen _ Hz1) as L1. pose proof (marshal_koly_zlen _ Hz2) as L2. unfold zlen in L1, L2. lia. }
  apply marshal_koly_inj in Hrep; try assumption.
  assert (Hall : forall i, i <> dmg_koly_idx_SignatureLength -> kget i k1 = kget i k2).
  { intros i Hi. rewrite <- (kget_kset_other dmg_koly_idx_SignatureLength i 0 k1) by congruence. rewrite Hrep. apply kget_kset_other. congruence. }
  exists k1, k2. split; [assumption|]. split; [assumption|]. split; [assumption|]. cbn zeta.
  rewrite (Hall dmg_koly_idx_XMLOffset), (Hall dmg_koly_idx_XMLLength) in Hpages by idx.
  rewrite (Hall dmg_koly_idx_XMLOffset), (Hall dmg_koly_idx_XMLLength) by idx. exact Hpages.
Qed.

(* ---- the format handed to Laws/Pipeline.v *)
From Relic Require Import Laws.Pipeline.
Definition dmg_format : format dmg_items := mkFormat dmg_items dmg_hashin dmg_embed_wf dmg_extract spec_dmg_payload.
Theorem dmg_law_extract_F : law_extract dmg_items dmg_format.
Proof. unfold law_extract, dmg_format. cbn [f_embed f_extract]. intros f b g H. now apply (dmg_law_extract f b g). Qed.
Theorem dmg_law_hashin_F : law_hashin dmg_items dmg_format.
Proof. unfold law_hashin, dmg_format. cbn [f_embed f_hashin]. intros f b g H. now apply (dmg_law_hashin f b g). Qed.
Theorem dmg_law_payload_F : law_payload dmg_items dmg_format.
Proof. unfold law_payload, dmg_format. cbn [f_embed f_payload]. intros f b g H. now apply (dmg_law_payload f b g). Qed.

Section DMGCrypto.
  Variables key pubk sigv : Type.
  Variable H : Z -> bytes -> bytes.
  Variable pub : key -> pubk.
  Variable sign : key -> bytes -> sigv.
  Variable vrfy : pubk -> bytes -> sigv -> bool.
  Hypothesis sign_correct : forall k m, vrfy (pub k) m (sign k m) = true.
  Variable tbs : Z -> bytes -> bytes.
  Variable ser : sigblob pubk sigv -> bytes.
  Variable deser : bytes -> option (sigblob pubk sigv).
  Hypothesis deser_ser : forall b, deser (ser b) = Some b.

  Theorem dmg_sign_then_verify : forall k a f g,
    sign_file key pubk sigv H pub sign tbs ser dmg_items dmg_format k a f = Ok g ->
    verify_file pubk sigv H vrfy tbs deser dmg_items dmg_format g = Accept pubk (pub k) a.
  Proof.
    apply (sign_then_verify key pubk sigv H pub sign vrfy sign_correct tbs ser deser deser_ser dmg_items dmg_format).
    - apply dmg_law_extract_F.
    - apply dmg_law_hashin_F.
  Qed.
  Theorem dmg_resign_history : forall hist f g k a,
    resign key pubk sigv H pub sign tbs ser dmg_items dmg_format (hist ++ [(k, a)]) f = Ok g ->
    verify_file pubk sigv H vrfy tbs deser dmg_items dmg_format g = Accept pubk (pub k) a
    /\ is_signed dmg_items dmg_format g = true
    /\ spec_dmg_payload g = spec_dmg_payload f /\ dmg_hashin g = dmg_hashin f.
  Proof.
    apply (resign_history key pubk sigv H pub sign vrfy sign_correct tbs ser deser deser_ser dmg_items dmg_format).
    - apply dmg_law_extract_F.
    - apply dmg_law_hashin_F.
    - apply dmg_law_payload_F.
  Qed.
End DMGCrypto.

(* ---- witnesses *)
(* a well-formed trailer value: "koly", version 4, 512 bytes, one segment; data fork [dataoff, +datalen), property list [xmloff, +xmllen) *)
Definition w_koly (dataoff datalen xmloff xmllen sigoff siglen : Z) : koly :=
  [1802464377; 4; 512; 1; 0; dataoff; datalen; 0; 0; 1; 1; 0; 0; xmloff; xmllen; 0; sigoff; siglen; 0; 0; 1; 8; 0].
(* the usual layout: 3 bytes of data fork, 2 bytes of property list, trailer *)
Definition w_dmg : bytes := [1; 2; 3] ++ [60; 62] ++ dmg_marshal_koly (w_koly 0 3 3 2 0 0).
(* the property list IN FRONT of the data fork (the trailer gives independent offsets; no Apple tool writes this) *)
Definition w_dmg_xml_first : bytes := [60; 62] ++ [1; 2; 3] ++ dmg_marshal_koly (w_koly 2 3 0 2 0 0).

Lemma dmg_dom_inhabited : dmg_dom w_dmg = true /\ dmg_dom w_dmg_xml_first = false.
Proof. vm_compute. split; reflexivity. Qed.
(* C03 witness: relic cuts the image at the end of the property list: the data fork is gone, signing reports success and the result
   verifies structurally (blob found, same digest input as computed when signing) *)
Lemma dmg_payload_refuted : exists g,
  dmg_embed w_dmg_xml_first [9; 9] = Ok g /\ dmg_extract g = Ok (Some [9; 9]) /\
  (exists it, spec_dmg_payload w_dmg_xml_first = Ok it /\ di_data it = Some [1; 2; 3]) /\
  (exists it, spec_dmg_payload g = Ok it /\ di_data it <> Some [1; 2; 3]) /\
  zlen g < zlen w_dmg_xml_first + 2.
Proof.
  eexists. split; [vm_compute; reflexivity|]. split; [vm_compute; reflexivity|]. split.
  - eexists. split; [vm_compute; reflexivity|]. reflexivity.
  - split; [|vm_compute; reflexivity]. eexists. split; [vm_compute; reflexivity|]. cbn [di_data]. discriminate.
Qed.
(* C02 (recorded finding): bytes in the reserved areas of the trailer are not part of the digest input *)
Lemma dmg_reserved_unprotected : exists g1 g2,
  g1 <> g2 /\ dmg_vhashin g1 = dmg_vhashin g2 /\ dmg_extract g1 = dmg_extract g2 /\ dmg_extract g1 = Ok (Some [9; 9]) /\
  zlen g1 = zlen g2 /\ nth 240 (zdrop (zlen g1 - 512) g1) 0 <> nth 240 (zdrop (zlen g2 - 512) g2) 0.
Proof.
  pose (g1 := [1; 2; 3; 60; 62; 9; 9] ++ dmg_marshal_koly (w_koly 0 3 3 2 5 2)).
  pose (g2 := ztake (5 + 2 + 240) g1 ++ [77] ++ zdrop (5 + 2 + 241) g1).
  exists g1, g2. vm_compute. repeat split; try reflexivity; discriminate.
Qed.
(* the example image signs, and the result satisfies every law (computed) *)
Lemma dmg_laws_computed :
  match dmg_embed_wf w_dmg [7; 7; 7] with
  | Ok g => dmg_extract g = Ok (Some [7; 7; 7]) /\ dmg_hashin g = dmg_hashin w_dmg /\ dmg_vhashin g = dmg_hashin w_dmg /\
            spec_dmg_payload g = spec_dmg_payload w_dmg /\ dmg_dom g = true /\ zlen g = zlen w_dmg + 3 /\
            match dmg_embed_wf g [8] with Ok g2 => dmg_extract g2 = Ok (Some [8]) /\ zlen g2 = zlen w_dmg + 1 /\ spec_dmg_payload g2 = spec_dmg_payload w_dmg | _ => False end
  | _ => False
  end.
Proof. vm_compute. repeat split; reflexivity. Qed.
