(* FmtXAR/WitnessXAR.v — concrete witnesses for the flat package theorems, closed by computation on a toy instance of the opaque
   parts (digest, codec of the table of contents, classic signature). *)
From Relic Require Import Base.Prelude Base.Enc Generated.FmtXAR_gen FmtXAR.Model FmtXAR.Codec FmtXAR.ProofsHdr FmtXAR.ProofsXAR.

(* ================================================================================================ witnesses, by computation *)
(* a toy instance of the opaque parts: the "digest" is the message reduced to bytes and cut / zero-padded to the digest size; the
   classic signature is four zero bytes; the compressed table of contents of the input is [1], of the output [2] *)
Definition toy_H (hid : Z) (x : bytes) : bytes := ztake (hash_size hid) (map (fun v => v mod 256) x ++ zeros (hash_size hid)).
Definition toy_csig (x : bytes) : bytes := zeros 4.
Definition toy_new (P : sparams) (t : xtoc) : xtoc := let '(_, _, t') := xar_new_toc P t in t'.
Definition toy_dec (t_old t_new : xtoc) (z : bytes) : option xtoc :=
  if bytes_eqb z [1] then Some t_old else if bytes_eqb z [2] then Some t_new else None.
Definition toy_enc (t : xtoc) : bytes := [2].
Definition toy_usize (t : xtoc) : Z := 5.
Definition toy_file (heap : bytes) : bytes := xar_marshal_header (mkXhdr xar_magic 28 1 1 5 1) ++ [1] ++ heap.
Definition P_ec : sparams := mkSP 3 false 0 10 1.           (* SHA-1, no RSA leaf, 10 bytes of certificates *)
Definition P_rsa : sparams := mkSP 5 true 4 10 1.           (* SHA-256, RSA leaf with a 4-byte modulus *)
Definition toy_embed (P : sparams) (t : xtoc) (heap cms : bytes) : result bytes :=
  xar_embed toy_H (toy_dec t (toy_new P t)) toy_enc toy_usize toy_csig P (toy_file heap) cms.
Definition toy_payload (P : sparams) (t : xtoc) (f : bytes) := spec_xar_payload (toy_dec t (toy_new P t)) f.
Definition toy_verify (P : sparams) (t : xtoc) (f : bytes) := xar_verify_struct toy_H (toy_dec t (toy_new P t)) f false.
Definition ck_slot : slot := mkSlot K_CHECKSUM 0 true 20 0.
Definition dref (off len : Z) (data : bytes) (reach : bool) : fref := mkRef 0 true off len 3 true (toy_H 3 data) reach.

(* the usual layout: checksum, then two members *)
Definition w_toc : xtoc := mkToc [ck_slot] [dref 20 3 [7; 8; 9] true; dref 23 2 [5; 6] true] true.
Definition w_heap : bytes := zeros 20 ++ [7; 8; 9] ++ [5; 6].
Definition unOk (r : result bytes) : bytes := match r with Ok g => g | _ => [] end.
Definition g_ok : bytes := Eval vm_compute in unOk (toy_embed P_ec w_toc w_heap [48; 1; 0]).
Lemma xar_example_computed :
  toy_embed P_ec w_toc w_heap [48; 1; 0] = Ok g_ok /\
  toy_payload P_ec w_toc g_ok = toy_payload P_ec w_toc (toy_file w_heap) /\
  toy_payload P_ec w_toc g_ok = Ok [Some [7; 8; 9]; Some [5; 6]] /\
  toy_verify P_ec w_toc g_ok = Ok (2, [48; 1; 0] ++ zeros 6151, toy_H 3 [2]) /\
  zlen g_ok = 28 + 1 + (20 + 6154) + 5.
Proof. repeat split; vm_compute; reflexivity. Qed.

(* C03 witness: an extended attribute stored in the heap (<ea><offset>): adjustOffsets moves only //data/offset, so after signing the
   attribute's offset names bytes of the signature area *)
Definition w_toc_ea : xtoc := mkToc [ck_slot] [dref 20 3 [7; 8; 9] true; mkRef 1 true 23 2 0 true [] true] true.
Definition g_ea : bytes := Eval vm_compute in unOk (toy_embed P_ec w_toc_ea w_heap [48; 1; 0]).
Lemma xar_payload_ea_refuted :
  toy_embed P_ec w_toc_ea w_heap [48; 1; 0] = Ok g_ea /\
  toy_payload P_ec w_toc_ea (toy_file w_heap) = Ok [Some [7; 8; 9]; Some [5; 6]] /\
  toy_payload P_ec w_toc_ea g_ea = Ok [Some [7; 8; 9]; Some [0; 0]].
Proof. repeat split; vm_compute; reflexivity. Qed.

(* C03 / C01 witness: an existing signature slot BEHIND the member data (the format allows any heap offsets): Sign removes the first
   24 heap bytes whatever they are; the member is lost and relic's own verifier rejects the result *)
Definition w_toc_behind : xtoc := mkToc [ck_slot; mkSlot K_XSIGNATURE 23 true 4 1] [dref 20 3 [7; 8; 9] true] true.
Definition w_heap_behind : bytes := zeros 20 ++ [7; 8; 9] ++ [1; 1; 1; 1].
Definition g_behind : bytes := Eval vm_compute in unOk (toy_embed P_ec w_toc_behind w_heap_behind [48; 1; 0]).
Lemma xar_slots_behind_files_refuted :
  toy_embed P_ec w_toc_behind w_heap_behind [48; 1; 0] = Ok g_behind /\
  toy_payload P_ec w_toc_behind (toy_file w_heap_behind) = Ok [Some [7; 8; 9]] /\
  toy_payload P_ec w_toc_behind g_behind = Ok [Some [0; 0; 0]] /\
  toy_verify P_ec w_toc_behind g_behind = Err E_MISMATCH.
Proof. repeat split; vm_compute; reflexivity. Qed.

(* C01 witness: a member without archived checksum (xar --file-cksum none): the signer skips it, the verifier insists on a style *)
Definition w_toc_nock : xtoc := mkToc [ck_slot] [mkRef 0 true 20 3 0 true [] true] true.
Definition g_nock : bytes := Eval vm_compute in unOk (toy_embed P_ec w_toc_nock (zeros 20 ++ [7; 8; 9]) [48; 1; 0]).
Lemma xar_sign_unverifiable_refuted :
  toy_embed P_ec w_toc_nock (zeros 20 ++ [7; 8; 9]) [48; 1; 0] = Ok g_nock /\ toy_verify P_ec w_toc_nock g_nock = Err E_STYLE.
Proof. split; vm_compute; reflexivity. Qed.

(* C02 witness: a member nested in a member that has data itself: gatherDataFiles does not descend, the nested member's bytes can be
   changed after signing and the structural verification result is the same *)
Definition w_toc_nested : xtoc := mkToc [ck_slot] [dref 20 3 [7; 8; 9] true; dref 23 2 [5; 6] false] true.
Definition g_nested : bytes := Eval vm_compute in unOk (toy_embed P_ec w_toc_nested w_heap [48; 1; 0]).
Definition g_nested' : bytes := Eval vm_compute in ztake (zlen g_nested - 1) g_nested ++ [66].
Lemma xar_verify_unchecked_refuted :
  toy_embed P_ec w_toc_nested w_heap [48; 1; 0] = Ok g_nested /\
  toy_verify P_ec w_toc_nested g_nested' = toy_verify P_ec w_toc_nested g_nested /\ is_ok (toy_verify P_ec w_toc_nested g_nested) = true /\
  toy_payload P_ec w_toc_nested g_nested = Ok [Some [7; 8; 9]; Some [5; 6]] /\ toy_payload P_ec w_toc_nested g_nested' = Ok [Some [7; 8; 9]; Some [5; 66]].
Proof. repeat split; vm_compute; reflexivity. Qed.

(* C11 regression inputs: a negative and a huge <signature> / <x-signature> size: refused before anything is allocated (they were a
   makeslice panic and a 300 MB allocation for a 49-byte file before relic 67d720d) *)
Definition w_toc_neg : xtoc := mkToc [ck_slot; mkSlot K_SIGNATURE 20 true (-1) 1] [] true.
Definition w_toc_huge : xtoc := mkToc [ck_slot; mkSlot K_XSIGNATURE 20 true 300000000 1] [] true.
Lemma xar_open_sizes_refused :
  (exists o, xar_open toy_H (toy_dec w_toc w_toc) (toy_file (toy_H 3 [1])) = Ok o) /\
  xar_open toy_H (toy_dec w_toc_neg w_toc_neg) (toy_file (toy_H 3 [1])) = Err E_TOOBIG /\
  xar_open toy_H (toy_dec w_toc_huge w_toc_huge) (toy_file (toy_H 3 [1])) = Err E_TOOBIG /\
  zlen (toy_file (toy_H 3 [1])) = 49.
Proof. split; [eexists; vm_compute; reflexivity|]. vm_compute. repeat split; reflexivity. Qed.

(* the hypotheses of the section are satisfiable: the toy instance fulfils every one of them for the example archive *)
Lemma hash_size_range' hid : 0 <= hash_size hid <= 64.
Proof. unfold hash_size. repeat (match goal with |- context [if ?c then _ else _] => destruct c end); lia. Qed.
Lemma toy_H_len hid x : zlen (toy_H hid x) = hash_size hid.
Proof.
  unfold toy_H. pose proof (hash_size_range' hid) as Hr. apply zlen_ztake. rewrite zlen_app, zeros_zlen by lia.
  pose proof (zlen_nonneg (map (fun v => v mod 256) x)). lia.
Qed.
Lemma all_bytes_zeros' n : all_bytes (zeros n) = true.
Proof. unfold zeros. induction (Z.to_nat n) as [|k IH]; [reflexivity|]. cbn [repeat all_bytes forallb]. unfold all_bytes in IH. now rewrite IH. Qed.
Lemma toy_H_bytes hid x : all_bytes (toy_H hid x) = true.
Proof.
  unfold toy_H. apply all_bytes_ztake. rewrite all_bytes_app. rewrite all_bytes_zeros'. rewrite andb_true_r.
  induction x as [|v x IH]; [reflexivity|]. cbn [map all_bytes forallb]. unfold all_bytes in IH. rewrite IH. unfold is_byte.
  pose proof (Z.mod_pos_bound v 256). lia.
Qed.
Lemma xar_hypotheses_satisfiable :
  let good := fun t => t = toy_new P_ec w_toc in
  let dec := toy_dec w_toc (toy_new P_ec w_toc) in
  (forall t, good t -> dec (toy_enc t) = Some t) /\ (forall hid x, zlen (toy_H hid x) = hash_size hid) /\
  (forall t, good t -> zlen (toy_enc t) <= 1000000) /\ (forall t, good t -> 0 <= toy_usize t <= 10000000) /\
  (forall t, good t -> all_bytes (toy_enc t) = true) /\ (forall hid x, all_bytes (toy_H hid x) = true) /\ (forall x, all_bytes (toy_csig x) = true) /\
  good (new_toc P_ec w_toc) /\ params_ok toy_csig P_ec /\ params_ok toy_csig P_rsa /\
  xar_dom dec (toy_file w_heap) (mkXhdr xar_magic 28 1 1 5 1) 3 w_toc /\ verify_covered w_toc.
Proof.
  cbn zeta. split; [intros t ->; reflexivity|]. split; [apply toy_H_len|]. split; [intros t _; unfold toy_enc; rewrite zlen_cons, zlen_nil; lia|]. split; [intros t _; unfold toy_usize; lia|].
  split; [reflexivity|]. split; [apply toy_H_bytes|]. split; [reflexivity|]. split; [reflexivity|].
  split. { unfold params_ok, P_ec. cbn [sp_hash sp_classic sp_certsum sp_ncerts sp_rsa]. repeat split; try lia; try (intros; discriminate). }
  split. { unfold params_ok, P_rsa. cbn [sp_hash sp_classic sp_certsum sp_ncerts sp_rsa]. repeat split; try lia; try reflexivity. }
  split.
  - constructor; try (vm_compute; reflexivity); try (cbn; lia).
    + vm_compute. intros; discriminate.
    + vm_compute. split; intros; discriminate.
    + unfold w_toc. cbn [t_refs]. repeat constructor; vm_compute; try reflexivity; intros; discriminate.
  - unfold verify_covered, w_toc. cbn [t_refs]. repeat constructor.
Qed.
