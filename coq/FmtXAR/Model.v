(* FmtXAR/Model.v — Apple flat packages (xar: lib/fruit/xar, signers/xar) and disk images (dmg / UDIF: lib/fruit/dmg, signers/dmg).
   Executable definitions only.

   RELIC side (faithful, built on Generated/FmtXAR_gen.v): the big-endian struct codec of encoding/binary for the xar header and
   the koly trailer, parseHeader, Open (allocation sizes, read positions, refusals), Sign (removeSigs, reserveSignatures,
   checkFiles over a forward-only stream, adjustOffsets, appendSignatures, the patch), Verify's file selection; dmg.Open,
   dmg.Sign, DMG.Verify, the trailer handed over by signers/dmg.
   SPEC side (written from the published layouts, shares nothing with the above): the xar header at fixed offsets, heap addressing
   (heap begins where the compressed table of contents ends; every offset in the table of contents is relative to it), the reader
   that follows the table of contents to the bytes of every member; the UDIF trailer at fixed offsets.

   What is opaque: zlib and the XML document are represented by a decoder `dec` / encoder `enc` between the compressed bytes and
   an abstract table of contents (the signature elements and every heap reference of the document); digests are a function
   `Hf`; the CodeDirectory / superblob (unit FmtMACHO) and CMS (unit C16) blobs are byte strings. *)
From Relic Require Import Base.Prelude Base.Enc Generated.FmtXAR_gen.

(* ---- error and panic classes *)
Definition E_EOF := 1.        (* short read *)
Definition E_MAGIC := 2.
Definition E_VERSION := 3.
Definition E_HASH := 4.       (* unknown / unsupported hash algorithm *)
Definition E_TOOBIG := 5.     (* unreasonably large TOC / signature *)
Definition E_TOC := 6.        (* table of contents does not decode *)
Definition E_CKSIZE := 7.     (* checksum is missing or invalid *)
Definition E_CKSUM := 8.      (* checksum mismatch in TOC *)
Definition E_READ := 9.       (* ReadAt failed *)
Definition E_NOCERT := 10.
Definition E_STYLE := 11.     (* unsupported member checksum style *)
Definition E_HEX := 12.
Definition E_BACK := 13.      (* attempted to seek backwards *)
Definition E_MISMATCH := 14.  (* member digest mismatch *)
Definition E_OVERFLOW := 15.  (* signature overflows reserved space *)
Definition E_PATCH := 16.     (* patch range outside the file (binpatch, unit C12) *)
Definition E_NOTSIGNED := 17.
Definition E_GAP := 18.       (* overlap or gap between bundle and signature *)
Definition E_DOMAIN := 19.
Definition P_MAKESLICE := 1.  (* makeslice: len out of range *)
Definition P_ALLOC := 2.      (* allocation above 64 * |input| + 1 MiB *)

(* ============================================================================================ encoding/binary, big endian *)
(* an unsigned field of w bytes read as int<8w> *)
Definition to_signed (w : Z) (u : Z) : Z := if u <? 2 ^ (8 * w - 1) then u else u - 2 ^ (8 * w).
Definition dec_field (sg : Z) (b : bytes) : Z := if sg =? 1 then to_signed (zlen b) (be_dec b) else be_dec b.
(* binary.Write of an integer of w bytes: low 8w bits, two's complement for negative values (Z division rounds down) *)
Definition enc_field (w : Z) (v : Z) : bytes := be_enc (Z.to_nat w) v.

Fixpoint split_w (ws : list Z) (b : bytes) : list bytes :=
  match ws with [] => [] | w :: r => ztake w b :: split_w r (zdrop w b) end.
Fixpoint dec_fields (sgs : list Z) (parts : list bytes) : list Z :=
  match sgs, parts with
  | sg :: sr, p :: pr => dec_field sg p :: dec_fields sr pr
  | _, _ => []
  end.
Fixpoint enc_fields (ws : list Z) (vs : list Z) : bytes :=
  match ws, vs with
  | w :: wr, v :: vr => enc_field w v ++ enc_fields wr vr
  | _, _ => []
  end.
(* binary.Read(r, BigEndian, &struct): needs `size` bytes, then field by field *)
Definition go_read_struct (ws sgs : list Z) (size : Z) (b : bytes) : result (list Z) :=
  if zlen b <? size then Err E_EOF else Ok (dec_fields sgs (split_w ws b)).

Fixpoint assoc_z (k : Z) (l : list (Z * Z)) : option Z :=
  match l with [] => None | (a, v) :: r => if a =? k then Some v else assoc_z k r end.
Definition zeros (n : Z) : bytes := repeat 0 (Z.to_nat n).
(* the same list as ztake n l, computed without counting past the end of l (lengths in malformed trailers reach 2^63) *)
Definition ztake_c {A} (n : Z) (l : list A) : list A := ztake (Z.min n (zlen l)) l.
Fixpoint zsum (l : list Z) : Z := match l with [] => 0 | x :: r => x + zsum r end.

(* Go crypto.Hash numbers and digest sizes (standard library) *)
Definition H_MD5 := 2. Definition H_SHA1 := 3. Definition H_SHA256 := 5. Definition H_SHA384 := 6. Definition H_SHA512 := 7.
Definition hash_size (hid : Z) : Z :=
  if hid =? 3 then 20 else if hid =? 5 then 32 else if hid =? 6 then 48 else if hid =? 7 then 64 else if hid =? 2 then 16 else 0.

(* make([]byte, n) for an input of `size` bytes: panics on a negative length; P_ALLOC marks an allocation that is not bounded by
   the input (64 * size + 1 MiB, the convention of property C11) *)
Definition alloc_limit (size : Z) : Z := 64 * size + 1048576.
Definition go_make (size n : Z) : result unit :=
  if n <? 0 then Panic P_MAKESLICE else if alloc_limit size <? n then Panic P_ALLOC else Ok tt.
(* os.File.ReadAt(buf of n bytes, off): negative offset is an error, an empty buffer reads nothing, a short read is io.EOF *)
Definition go_readat (f : bytes) (off n : Z) : result bytes :=
  if off <? 0 then Err E_READ
  else if n =? 0 then Ok []
  else if zlen f <? off + n then Err E_READ
  else Ok (zslice off (off + n) f).

(* ============================================================================================ xar header *)
Record xhdr := mkXhdr { xh_magic : Z; xh_hsize : Z; xh_version : Z; xh_clen : Z; xh_ulen : Z; xh_htype : Z }.
Definition xar_hdr_of (fl : list Z) : xhdr :=
  mkXhdr (nth xar_hdr_idx_Magic fl 0) (nth xar_hdr_idx_HeaderSize fl 0) (nth xar_hdr_idx_Version fl 0)
         (nth xar_hdr_idx_CompressedSize fl 0) (nth xar_hdr_idx_UncompressedSize fl 0) (nth xar_hdr_idx_HashType fl 0).
Definition xar_hdr_vals (h : xhdr) : list Z := [xh_magic h; xh_hsize h; xh_version h; xh_clen h; xh_ulen h; xh_htype h].

(* relic: parseHeader *)
Definition xar_parse_header (b : bytes) : result (xhdr * Z) :=
  fl <- go_read_struct xar_hdr_widths xar_hdr_signed xar_hdr_size b ;;
  let h := xar_hdr_of fl in
  if xar_bad_magic (xh_magic h) then Err E_MAGIC
  else if xar_bad_version (xh_version h) then Err E_VERSION
  else match assoc_z (xh_htype h) xar_hash_of_enum with
       | Some hid => Ok (h, hid)
       | None => if xar_hash_of_enum_default_refuses then Err E_HASH else Ok (h, 0)
       end.
(* relic: binary.Write(out, BigEndian, hdr) *)
Definition xar_marshal_header (h : xhdr) : bytes := enc_fields xar_hdr_widths (xar_hdr_vals h).

(* SPEC (xar file format: "xar_header": magic uint32 at 0, size uint16 at 4, version uint16 at 6, toc_length_compressed uint64 at 8,
   toc_length_uncompressed uint64 at 16, cksum_alg uint32 at 24; all big endian; cksum_alg 0 none, 1 SHA-1, 2 MD5, 3 SHA-256, 4 SHA-512) *)
Definition spec_u (off w : Z) (b : bytes) : Z := be_dec (zslice off (off + w) b).
Definition spec_xar_header (b : bytes) : option xhdr :=
  if zlen b <? 28 then None
  else if spec_u 0 4 b =? 2019652129 (* "xar!" *) then
    Some (mkXhdr (spec_u 0 4 b) (spec_u 4 2 b) (spec_u 6 2 b) (spec_u 8 8 b) (spec_u 16 8 b) (spec_u 24 4 b))
  else None.
Definition spec_cksum_hash (alg : Z) : option Z :=
  if alg =? 1 then Some H_SHA1 else if alg =? 2 then Some H_MD5 else if alg =? 3 then Some H_SHA256 else if alg =? 4 then Some H_SHA512 else None.

(* ============================================================================================ abstract table of contents *)
(* a signature element directly under <toc>: kind = index into [checksum; signature; x-signature] *)
Record slot := mkSlot { sl_kind : Z; sl_off : Z; sl_has_size : bool; sl_size : Z; sl_ncerts : Z }.
(* a heap reference of the document.  fr_kind: 0 = <data> directly inside <file>; 1 = <ea> inside <file>; 2 = <data> elsewhere.
   fr_off / fr_len: the value strconv.ParseInt returns (0 on a syntax error); fr_off_ok: ParseInt returned no error.
   fr_ck: archived-checksum: 0 = element absent, 1 = unsupported style, else the Go hash number of the style.
   fr_reach: every enclosing <file> has length 0 (or no data): the verifier's gatherDataFiles reaches this file. *)
Record fref := mkRef { fr_kind : Z; fr_off_ok : bool; fr_off : Z; fr_len : Z; fr_ck : Z; fr_hex_ok : bool; fr_digest : bytes; fr_reach : bool }.
(* t_strict: every number the verifier's XML structure maps parses as int64 (otherwise xml.Unmarshal fails) *)
Record xtoc := mkToc { t_slots : list slot; t_refs : list fref; t_strict : bool }.

Definition K_CHECKSUM := 0. Definition K_SIGNATURE := 1. Definition K_XSIGNATURE := 2.
Definition slot_removed (s : slot) : bool := (0 <=? sl_kind s) && (sl_kind s <? zlen xar_remove_keys).
(* relic: removeSigs *)
Definition xar_remove_sigs (t : xtoc) : Z * xtoc :=
  let rm := filter slot_removed (t_slots t) in
  (if xar_remove_adds_size then zsum (map (fun s => if sl_has_size s then sl_size s else 0) rm) else 0,
   mkToc (if xar_remove_removes then filter (fun s => negb (slot_removed s)) (t_slots t) else t_slots t) (t_refs t) (t_strict t)).

(* signing parameters: digest (Go number), RSA leaf?, modulus size, total DER size of the certificates, their number *)
Record sparams := mkSP { sp_hash : Z; sp_rsa : bool; sp_classic : Z; sp_certsum : Z; sp_ncerts : Z }.
Definition xar_plan (P : sparams) : list (Z * Z * Z * Z) * Z :=
  if sp_rsa P then xar_reserve_rsa (hash_size (sp_hash P)) (sp_classic P) (sp_certsum P)
  else xar_reserve_norsa (hash_size (sp_hash P)) (sp_classic P) (sp_certsum P).
Fixpoint insert_at {A} (n : nat) (x : A) (l : list A) : list A :=
  match n, l with
  | O, _ => x :: l
  | S k, [] => [x]
  | S k, y :: r => y :: insert_at k x r
  end.
(* relic: reserveSignatures: toc.InsertChildAt(index, element) for every planned slot, in order *)
Definition xar_reserve (P : sparams) (t : xtoc) : Z * xtoc :=
  let '(pl, total) := xar_plan P in
  (total,
   mkToc (fold_left (fun acc e => let '(idx, k, off, sz) := e in
                                   insert_at (Z.to_nat idx) (mkSlot k off true sz (if k =? K_CHECKSUM then 0 else sp_ncerts P)) acc) pl (t_slots t))
         (t_refs t) (t_strict t)).
(* relic: adjustOffsets over "//data/offset" *)
Definition is_data_kind (k : Z) : bool := (k =? 0) || (k =? 2).
Definition xar_adjust_ref (delta : Z) (r : fref) : fref :=
  if is_data_kind (fr_kind r) && (fr_off_ok r || negb xar_adjust_skips_unparsable) then
    mkRef (fr_kind r) (fr_off_ok r) (if xar_adjust_adds_delta then fr_off r + delta else fr_off r) (fr_len r) (fr_ck r) (fr_hex_ok r) (fr_digest r) (fr_reach r)
  else r.
Definition xar_adjust (delta : Z) (t : xtoc) : xtoc := mkToc (t_slots t) (map (xar_adjust_ref delta) (t_refs t)) (t_strict t).

(* sort.Slice by offset (insertion sort, stable) *)
Fixpoint insert_ref (r : fref) (l : list fref) : list fref :=
  match l with
  | [] => [r]
  | x :: t => if fr_off r <=? fr_off x then r :: l else x :: insert_ref r t
  end.
Definition sort_refs (l : list fref) : list fref := fold_right insert_ref [] l.
Definition style_hash (ck : Z) : option Z :=
  if existsb (fun p => snd p =? ck) xar_file_styles && negb (ck =? 0) then Some ck else None.

Section Xar.
  Variable Hf : Z -> bytes -> bytes.          (* digest function by Go hash number *)
  Variable dec : bytes -> option xtoc.        (* inflate the compressed TOC and read the document *)
  Variable enc : xtoc -> bytes.               (* write the document and deflate it (relic: doc.WriteTo into zlib.Writer) *)
  Variable usize : xtoc -> Z.                 (* length of the written document *)
  Variable csig : bytes -> bytes.             (* the RSA ("classic") signature over a digest *)

  (* relic: checkFile, the part after the style switch and the hex decoding; `read` abstracts how the bytes are obtained *)
  Definition file_digest_ok (hid : Z) (data : bytes) (r : fref) : bool := bytes_eqb (Hf hid data) (fr_digest r).

  (* relic: the signer's checkFiles over streamReaderAt: members in offset order, the heap delivered as a forward-only stream *)
  Fixpoint stream_check (heap : bytes) (pos : Z) (rs : list fref) : result unit :=
    match rs with
    | [] => Ok tt
    | r :: rest =>
        match style_hash (fr_ck r) with
        | None => Err E_STYLE
        | Some hid =>
            if negb (fr_hex_ok r) then Err E_HEX
            else if fr_len r <? 0 then Err E_EOF                       (* SectionReader with a negative length reads nothing: n != Length *)
            else if fr_len r =? 0 then                                  (* nothing is read: the stream is not touched *)
              (if xar_file_short 0 (fr_len r) then Err E_EOF
               else if file_digest_ok hid [] r then stream_check heap pos rest else Err E_MISMATCH)
            else
              let p := fr_off r in
              if xar_stream_skips p pos then
                (if zlen heap <? pos + xar_stream_skip_len p pos then Err E_EOF
                 else if zlen heap <? p + fr_len r then Err E_EOF
                 else if file_digest_ok hid (zslice p (p + fr_len r) heap) r then stream_check heap (p + fr_len r) rest else Err E_MISMATCH)
              else if xar_stream_backwards p pos then Err E_BACK
              else if zlen heap <? p + fr_len r then Err E_EOF
              else if file_digest_ok hid (zslice p (p + fr_len r) heap) r then stream_check heap (p + fr_len r) rest else Err E_MISMATCH
        end
    end.
  Definition sign_checks (r : fref) : bool := (fr_kind r =? 0) && negb (xar_check_skips (negb (fr_ck r =? 0))).
  Definition xar_check_files_sign (heap : bytes) (t : xtoc) : result unit :=
    stream_check heap 0 (sort_refs (filter sign_checks (t_refs t))).

  (* relic: appendSignatures: header, compressed TOC, its digest, classic signature, CMS, zero padding *)
  Definition xar_append (P : sparams) (ztoc : bytes) (ulen reserved : Z) (cms : bytes) : result bytes :=
    match assoc_z (sp_hash P) xar_enum_of_hash with
    | None => Err E_HASH
    | Some en =>
        let hdr := xar_marshal_header (mkXhdr xar_out_magic xar_out_hsize xar_out_version (xar_out_clen (zlen ztoc)) (xar_out_ulen ulen) en) in
        let ck := Hf (sp_hash P) ztoc in
        let classic := if sp_rsa P then csig ck else [] in
        let used := (if xar_used_counts_checksum then zlen ck else 0) + (if xar_used_counts_classic then zlen classic else 0)
                    + (if xar_used_counts_cms then zlen cms else 0) in
        if xar_append_overflow used reserved then Err E_OVERFLOW
        else Ok (hdr ++ ztoc ++ ck ++ classic ++ cms ++ zeros (xar_append_pad reserved used))
    end.

  (* the rewritten table of contents *)
  Definition xar_new_toc (P : sparams) (t : xtoc) : Z * Z * xtoc :=
    let '(orig, t1) := xar_remove_sigs t in
    let '(newsz, t2) := xar_reserve P t1 in
    (orig, newsz, xar_adjust (xar_sign_delta newsz orig) t2).

  (* relic: Sign + the patch applied (signers.ApplyBinPatch; binpatch itself is unit C12: one range [off, off+old) replaced) *)
  Record xsigned := mkXS { xs_orig : Z; xs_new : Z; xs_toc : xtoc; xs_bytes : bytes; xs_patch_off : Z; xs_patch_old : Z; xs_file : bytes }.
  Definition xar_sign (P : sparams) (f : bytes) (cms : bytes) : result xsigned :=
    hh <- xar_parse_header f ;;
    let h := fst hh in
    if xar_sign_toc_too_large (xh_clen h) (xh_ulen h) then Err E_TOOBIG
    else
      let rest := zdrop xar_hdr_size f in                                (* the stream after binary.Read of the header *)
      if (xh_clen h <? 0) || (zlen rest <? xh_clen h) then Err E_TOC      (* truncated zlib stream *)
      else match dec (ztake (xh_clen h) rest) with
           | None => Err E_TOC
           | Some t =>
               let heap := zdrop (xh_clen h) rest in
               let '(orig, t1) := xar_remove_sigs t in
               let '(newsz, t2) := xar_reserve P t1 in
               _ <- xar_check_files_sign heap t2 ;;
               let t3 := xar_adjust (xar_sign_delta newsz orig) t2 in
               let ztoc := enc t3 in
               nb <- xar_append P ztoc (usize t3) newsz cms ;;
               let total := xar_sign_orig_total (xh_clen h) orig in
               let off := xar_sign_patch_off in
               let old := xar_sign_patch_old total in
               if (old <? 0) || (zlen f <? off + old) then Err E_PATCH
               else Ok (mkXS orig newsz t3 nb off old (ztake off f ++ nb ++ zdrop (off + old) f))
           end.
  Definition xar_embed (P : sparams) (f cms : bytes) : result bytes := s <- xar_sign P f cms ;; Ok (xs_file s).

  (* ---- relic: Open.  The observable parts: refusals, what is allocated, what is read from where *)
  Definition find_slot (k : Z) (t : xtoc) : option slot := find (fun s => sl_kind s =? k) (t_slots t).
  Fixpoint last_offset (rs : list fref) (cur : Z) : Z :=
    match rs with
    | [] => cur
    | r :: rest =>
        let cur' := if (fr_kind r =? 0) && xar_last_takes_file (xar_last_file_end (fr_off r) (fr_len r)) cur then xar_last_file_end (fr_off r) (fr_len r) else cur in
        last_offset rest cur'
    end.
  Record xopened := mkXO { xo_hash : Z; xo_tochash_pre : bytes; xo_toc : xtoc; xo_base : Z; xo_classic : option bytes; xo_cms : option bytes;
                           xo_notary : bytes; xo_last : Z }.
  Definition read_slot (size : Z) (f : bytes) (base : Z) (guard : bool) (alloc at_ : Z) (s : option slot) : result (option bytes) :=
    match s with
    | None => Ok None
    | Some sl =>
        if guard then Err E_TOOBIG
        else _ <- go_make size alloc ;; b <- go_readat f at_ alloc ;; Ok (Some b)
    end.
  Definition xar_open (f : bytes) : result xopened :=
    hh <- xar_parse_header (ztake xar_open_header_len f) ;;
    let '(h, hid) := hh in
    let size := zlen f in
    let base0 := xar_open_toc_off (xh_hsize h) in
    let clen := xar_open_toc_len (xh_clen h) in
    (* SectionReader(r, base, clen): the bytes of the file in [base, base+clen); a short section is a truncated zlib stream *)
    if (clen <? 0) || (zlen f <? base0 + clen) then Err E_TOC
    else
      let ztoc := zslice base0 (base0 + clen) f in
      match dec ztoc with
      | None => Err E_TOC
      | Some t =>
          if negb (t_strict t) then Err E_TOC else
          let base := if xar_open_heap_after_toc then base0 + xh_clen h else base0 in
          let ck := match find_slot K_CHECKSUM t with Some s => s | None => mkSlot K_CHECKSUM 0 false 0 0 end in
          if xar_open_bad_cksize (sl_size ck) (hash_size hid) then Err E_CKSIZE
          else
            _ <- go_make size (xar_open_ck_alloc (sl_size ck)) ;;
            match go_readat f (xar_open_ck_at base (sl_off ck)) (xar_open_ck_alloc (sl_size ck)) with
            | Ok stored =>
                if negb (bytes_eqb stored (Hf hid ztoc)) then Err E_CKSUM
                else
                  let sg := find_slot K_SIGNATURE t in
                  let xs := find_slot K_XSIGNATURE t in
                  let sgs := match sg with Some s => s | None => mkSlot 1 0 false 0 0 end in
                  let xss := match xs with Some s => s | None => mkSlot 2 0 false 0 0 end in
                  (* relic: the refusing loop over {toc.Signature, toc.XSignature} in front of both reads *)
                  let covered := fun k => existsb (fun c => c =? k) xar_open_slot_guard_covers in
                  let refuse := fun (k : Z) (o : option slot) (d : slot) =>
                    covered k && xar_open_slot_guard (match o with Some _ => true | None => false end) (sl_size d) (sl_off d) base size in
                  if refuse K_SIGNATURE sg sgs || refuse K_XSIGNATURE xs xss then Err E_TOOBIG else
                  classic <- read_slot size f base (xar_open_sig_guard (sl_size sgs) (sl_off sgs) base size)
                                       (xar_open_sig_alloc (sl_size sgs)) (xar_open_sig_at base (sl_off sgs)) sg ;;
                  (if match sg with Some s => sl_ncerts s =? 0 | None => false end then Err E_NOCERT
                   else
                     cms <- read_slot size f base (xar_open_xsig_guard (sl_size xss) (sl_off xss) base size)
                                      (xar_open_xsig_alloc (sl_size xss)) (xar_open_xsig_at base (sl_off xss)) xs ;;
                     let last := last_offset (t_refs t) 0 in
                     let lo := xar_open_lo last base in
                     let trailer := xar_open_trailer size lo in
                     if xar_open_has_trailer trailer then
                       _ <- go_make size (xar_open_trailer_alloc trailer) ;;
                       ticket <- go_readat f (xar_open_trailer_at lo) (xar_open_trailer_alloc trailer) ;;
                       Ok (mkXO hid ztoc t base classic cms ticket last)
                     else Ok (mkXO hid ztoc t base classic cms [] last))
            | Err e => Err e
            | Panic p => Panic p
            end
      end.

  (* relic: XAR.Verify's member check: gatherDataFiles + checkFile over random access to the heap *)
  Definition verify_checks (r : fref) : bool := (fr_kind r =? 0) && fr_reach r && xar_gather_takes (fr_len r).
  Definition verify_file (heap : bytes) (r : fref) : result unit :=
    match style_hash (fr_ck r) with
    | None => Err E_STYLE
    | Some hid =>
        if negb (fr_hex_ok r) then Err E_HEX
        else if (fr_len r <? 0) || (fr_off r <? 0) || (zlen heap <? fr_off r + fr_len r) then Err E_EOF
        else if file_digest_ok hid (zslice (fr_off r) (fr_off r + fr_len r) heap) r then Ok tt else Err E_MISMATCH
    end.
  Fixpoint verify_files (heap : bytes) (rs : list fref) : result unit :=
    match rs with [] => Ok tt | r :: rest => _ <- verify_file heap r ;; verify_files heap rest end.
  (* which signature the verifier uses: 2 = CMS over the TOC digest, 1 = classic RSA over the TOC digest, 0 = not signed *)
  Definition xar_verify_route (o : xopened) : Z :=
    match xar_verify_chain with
    | [0; 1] => match xo_cms o, xo_classic o with Some _, _ => 2 | None, Some _ => 1 | None, None => 0 end
    | _ => 99
    end.
  (* Verify minus the cryptography: Ok (route, signature bytes, signed content = digest of the TOC as stored) *)
  Definition xar_verify_struct (f : bytes) (skip_digests : bool) : result (Z * bytes * bytes) :=
    o <- xar_open f ;;
    let content := Hf (xo_hash o) (xo_tochash_pre o) in
    let route := xar_verify_route o in
    if route =? 0 then Err E_NOTSIGNED
    else
      _ <- (if xar_verify_checks_files skip_digests
            then verify_files (zdrop (xo_base o) f) (sort_refs (filter verify_checks (t_refs (xo_toc o))))
            else Ok tt) ;;
      Ok (route, match (if route =? 2 then xo_cms o else xo_classic o) with Some b => b | None => [] end, content).
  Definition xar_extract (f : bytes) : result (option bytes) :=
    o <- xar_open f ;; Ok (xo_cms o).

  (* ---- SPEC reader: follows the format description, not relic *)
  (* heap base = header.size + toc_length_compressed; a reference (offset, length) names heap bytes [offset, offset+length) *)
  Definition spec_xar_split (f : bytes) : option (xhdr * bytes * bytes) :=
    match spec_xar_header f with
    | None => None
    | Some h =>
        if (xh_hsize h <? 28) || (zlen f <? xh_hsize h + xh_clen h) then None
        else Some (h, zslice (xh_hsize h) (xh_hsize h + xh_clen h) f, zdrop (xh_hsize h + xh_clen h) f)
    end.
  Definition spec_ref_bytes (heap : bytes) (r : fref) : option bytes :=
    if negb (fr_off_ok r) || (fr_off r <? 0) || (fr_len r <? 0) || (zlen heap <? fr_off r + fr_len r) then None
    else Some (zslice (fr_off r) (fr_off r + fr_len r) heap).
  (* the payload of an archive: the bytes of every heap reference of the document (file data, extended attributes, other data), in
     document order *)
  Definition spec_xar_payload (f : bytes) : result (list (option bytes)) :=
    match spec_xar_split f with
    | None => Err E_DOMAIN
    | Some (h, ztoc, heap) =>
        match dec ztoc with
        | None => Err E_TOC
        | Some t => Ok (map (spec_ref_bytes heap) (t_refs t))
        end
    end.
  Definition spec_slot_bytes (heap : bytes) (s : slot) : option bytes :=
    if (sl_off s <? 0) || (sl_size s <? 0) || (zlen heap <? sl_off s + sl_size s) then None else Some (zslice (sl_off s) (sl_off s + sl_size s) heap).
  (* the compressed table of contents as a specification reader sees it: the digest preimage of the archive *)
  Definition spec_xar_ztoc (f : bytes) : result bytes :=
    match spec_xar_split f with Some (_, ztoc, _) => Ok ztoc | None => Err E_DOMAIN end.
End Xar.

(* ============================================================================================ dmg: the UDIF trailer *)
(* the trailer as relic holds it: the named fields in declaration order; array fields (segment id, checksums) as their big-endian
   value — binary.Read / binary.Write of [n]uint32 is the identity on the bytes *)
Definition koly := list Z.
Definition koly_named (k : koly) : koly :=                  (* blank fields are skipped by binary.Read and written as zeros *)
  map (fun p => if snd p =? 1 then 0 else fst p) (combine k dmg_koly_blank).
Definition dmg_parse_koly (b : bytes) : result koly :=
  fl <- go_read_struct dmg_koly_widths dmg_koly_signed dmg_koly_size b ;; Ok (koly_named fl).
Definition dmg_marshal_koly (k : koly) : bytes := enc_fields dmg_koly_widths (koly_named k).
Definition kget (i : nat) (k : koly) : Z := nth i k 0.
Fixpoint kset (i : nat) (v : Z) (k : koly) : koly :=
  match i, k with
  | O, _ :: r => v :: r
  | S j, x :: r => x :: kset j v r
  | _, [] => []
  end.
(* relic: udifResourceFile.ForHashing *)
Definition dmg_for_hashing (k : koly) : bytes :=
  dmg_marshal_koly (if dmg_hashing_zeroes_siglen then kset dmg_koly_idx_SignatureLength 0 k else k).

(* SPEC (UDIF resource file trailer, "koly" block: 512 bytes at the end of the image, big endian), the published layout:
   signature 0, version 4, header size 8, flags 12, running data fork offset 16, data fork offset 24, data fork length 32, resource
   fork offset 40, resource fork length 48, segment number 56, segment count 60, segment id 64 (16 bytes), data checksum 80 (type,
   size, 32 words), XML offset 216, XML length 224, reserved 232 (64 bytes), code signature offset 296, code signature length 304,
   reserved 312 (40 bytes), master checksum 352, image variant 488, sector count 492, reserved 500 (12 bytes) *)
Definition spec_koly_slices (b : bytes) : list bytes :=
  [zslice 0 4 b; zslice 4 8 b; zslice 8 12 b; zslice 12 16 b; zslice 16 24 b; zslice 24 32 b; zslice 32 40 b; zslice 40 48 b; zslice 48 56 b;
   zslice 56 60 b; zslice 60 64 b; zslice 64 80 b; zslice 80 216 b; zslice 216 224 b; zslice 224 232 b; zslice 232 296 b; zslice 296 304 b;
   zslice 304 312 b; zslice 312 352 b; zslice 352 488 b; zslice 488 492 b; zslice 492 500 b; zslice 500 512 b].
Record spec_koly := mkSK { sk_slices : list bytes; sk_magic : Z; sk_dataoff : Z; sk_datalen : Z; sk_rsrcoff : Z; sk_rsrclen : Z;
                           sk_xmloff : Z; sk_xmllen : Z; sk_sigoff : Z; sk_siglen : Z }.
Definition spec_read_koly (b : bytes) : option spec_koly :=
  if negb (zlen b =? 512) then None
  else let p := spec_koly_slices b in
       if negb (be_dec (nth 0 p []) =? 1802464377) (* "koly" *) then None
       else Some (mkSK p (be_dec (nth 0 p [])) (be_dec (nth 5 p [])) (be_dec (nth 6 p [])) (be_dec (nth 7 p [])) (be_dec (nth 8 p []))
                       (be_dec (nth 13 p [])) (be_dec (nth 14 p [])) (be_dec (nth 16 p [])) (be_dec (nth 17 p []))).
(* trailer fields that are neither the code signature's position nor reserved: positions in spec_koly_slices *)
Definition spec_koly_kept : list nat := [0; 1; 2; 3; 4; 5; 6; 7; 8; 9; 10; 11; 12; 13; 14; 19; 20; 21]%nat.

(* ---- relic: dmg.Sign as driven by signers/dmg (the trailer is the last 512 bytes of the file; the stream is the whole file) *)
Definition dmg_trailer_of (f : bytes) : result bytes :=
  if zlen f + dmg_transform_seek <? 0 then Err E_EOF                       (* Seek(-512, SeekEnd) on a shorter file: EINVAL *)
  else Ok (ztake dmg_transform_len (zdrop (zlen f + dmg_transform_seek) f)).
Record dsigned := mkDS { ds_bundle : Z; ds_pages : bytes; ds_rep : bytes; ds_patch_off : Z; ds_patch_old : Z; ds_new : bytes; ds_file : bytes }.
(* the part of dmg.Sign in front of csblob.Sign: what is handed to the CodeDirectory builder *)
Definition dmg_sign_pre (f : bytes) : result (koly * Z * bytes * bytes) :=
  tb <- dmg_trailer_of f ;;
  k <- dmg_parse_koly tb ;;
  let bundle := dmg_sign_bundle (kget dmg_koly_idx_XMLOffset k) (kget dmg_koly_idx_XMLLength k) in
  let oldoff := kget dmg_koly_idx_SignatureOffset k in
  let k1 := kset dmg_koly_idx_SignatureOffset (dmg_sign_new_sigoff bundle) k in
  let khash := if dmg_sign_hashes_new_offset then k1 else k in
  if dmg_sign_has_old oldoff && dmg_sign_gap oldoff bundle then Err E_GAP
  else Ok (k1, bundle, ztake_c (dmg_sign_pages_len bundle) f (* io.LimitReader(whole file, bundleSize) *), dmg_for_hashing khash).
Definition dmg_sign (f blob : bytes) : result dsigned :=
  pre <- dmg_sign_pre f ;;
  let '(k1, bundle, pages, rep) := pre in
  let k2 := kset dmg_koly_idx_SignatureLength (dmg_sign_new_siglen (zlen blob)) k1 in
  let nb := match dmg_sign_order with [0; 1] => blob ++ dmg_marshal_koly k2 | _ => [] end in
  let sigoff := kget dmg_koly_idx_SignatureOffset k2 in
  let off := dmg_sign_patch_off sigoff in
  let old := dmg_sign_patch_old (zlen f) sigoff in
  if (off <? 0) || (old <? 0) || (zlen f <? off + old) then Err E_PATCH
  else Ok (mkDS bundle pages rep off old nb (ztake off f ++ nb ++ zdrop (off + old) f)).
Definition dmg_embed (f blob : bytes) : result bytes := s <- dmg_sign f blob ;; Ok (ds_file s).
(* the digest input of a disk image: the single code page (everything in front of the signature) and the rep-specific slot (the
   trailer with the signature length blanked); the second part has a fixed length, so the concatenation is unambiguous *)
Definition dmg_hashin (f : bytes) : result bytes :=
  pre <- dmg_sign_pre f ;; let '(_, _, pages, rep) := pre in Ok (pages ++ rep).

(* ---- relic: dmg.Open and DMG.Verify (up to csblob.Verify) *)
Record dopened := mkDO { do_koly : koly; do_blob : bytes; do_allocs : list Z }.
Definition dmg_open (f : bytes) : result dopened :=
  if zlen f + dmg_open_seek <? 0 then Err E_EOF
  else
    k <- dmg_parse_koly (zdrop (zlen f + dmg_open_seek) f) ;;
    if dmg_open_bad_magic (kget dmg_koly_idx_Signature k) then Err E_MAGIC
    else
      let siglen := kget dmg_koly_idx_SignatureLength k in
      if dmg_open_has_sig siglen then
        if dmg_open_sig_unreasonable siglen then Err E_TOOBIG
        else
          (if dmg_open_alloc siglen <? 0 then Panic P_MAKESLICE
           else b <- go_readat f (dmg_open_blob_at (kget dmg_koly_idx_SignatureOffset k)) (dmg_open_alloc siglen) ;;
                Ok (mkDO k b [dmg_open_alloc siglen]))
      else Ok (mkDO k [] []).
Definition dmg_extract (f : bytes) : result (option bytes) :=
  o <- dmg_open f ;; Ok (if dmg_verify_unsigned (zlen (do_blob o)) then None else Some (do_blob o)).
(* what DMG.Verify hands to csblob: (blob, rep-specific bytes, page reader contents) *)
Definition dmg_verify_inputs (f : bytes) : result (bytes * bytes * bytes) :=
  o <- dmg_open f ;;
  if dmg_verify_unsigned (zlen (do_blob o)) then Err E_NOTSIGNED
  else
    let k := do_koly o in
    let n := dmg_verify_pages_len (kget dmg_koly_idx_XMLOffset k) (kget dmg_koly_idx_XMLLength k) in
    Ok (do_blob o, dmg_for_hashing k, ztake_c n (zdrop dmg_verify_pages_from f) (* SectionReader(f, from, n) *)).
(* the verifier's digest input, same shape as dmg_hashin *)
Definition dmg_vhashin (f : bytes) : result bytes :=
  v <- dmg_verify_inputs f ;; let '(_, rep, pages) := v in Ok (pages ++ rep).

(* ---- SPEC: a disk image is  data fork / property list / [code signature] / trailer; the payload is everything the trailer's
   data fork, resource fork and property list fields name *)
Definition spec_dmg_trailer (f : bytes) : option spec_koly :=
  if zlen f <? 512 then None else spec_read_koly (zdrop (zlen f - 512) f).
Definition spec_range (f : bytes) (off len : Z) : option bytes :=
  if (off <? 0) || (len <? 0) || (zlen f - 512 <? off + len) then None else Some (zslice off (off + len) f).
Record dmg_items := mkDI { di_data : option bytes; di_rsrc : option bytes; di_xml : option bytes; di_fields : list bytes }.
Definition spec_dmg_payload (f : bytes) : result dmg_items :=
  match spec_dmg_trailer f with
  | None => Err E_DOMAIN
  | Some k =>
      Ok (mkDI (spec_range f (sk_dataoff k) (sk_datalen k)) (spec_range f (sk_rsrcoff k) (sk_rsrclen k)) (spec_range f (sk_xmloff k) (sk_xmllen k))
               (map (fun i => nth i (sk_slices k) []) spec_koly_kept))
  end.
(* the code signature according to the trailer *)
Definition spec_dmg_signature (f : bytes) : option (option bytes) :=
  match spec_dmg_trailer f with
  | None => None
  | Some k => if sk_siglen k =? 0 then Some None
              else match spec_range f (sk_sigoff k) (sk_siglen k) with Some b => Some (Some b) | None => None end
  end.
