(* FmtXAR/ProofsHdr.v — the xar header and the UDIF trailer: round trips of relic's codec, agreement with the specification readers. *)
From Relic Require Import Base.Prelude Base.Enc Generated.FmtXAR_gen FmtXAR.Model FmtXAR.Codec.

Lemma Ok_inj {A} (a b : A) : @Ok A a = Ok b -> a = b.
Proof. intros H. now injection H. Qed.

(* ================================================================================================ xar header *)
Definition xhdr_ok (h : xhdr) : Prop :=
  0 <= xh_magic h < 4294967296 /\ 0 <= xh_hsize h < 65536 /\ 0 <= xh_version h < 65536 /\
  - 9223372036854775808 <= xh_clen h < 9223372036854775808 /\ - 9223372036854775808 <= xh_ulen h < 9223372036854775808 /\
  0 <= xh_htype h < 4294967296.

Lemma xhdr_fields_ok h : xhdr_ok h -> fields_ok xar_hdr_widths xar_hdr_signed (xar_hdr_vals h).
Proof.
  intros (H1 & H2 & H3 & H4 & H5 & H6). unfold xar_hdr_widths, xar_hdr_signed, xar_hdr_vals.
  repeat (constructor; [lia| unfold field_ok; cbn; lia |]). constructor.
Qed.
Lemma hdr_of_vals h : xar_hdr_of (xar_hdr_vals h) = h.
Proof. destruct h; reflexivity. Qed.

Lemma header_read_write h rest : xhdr_ok h ->
  go_read_struct xar_hdr_widths xar_hdr_signed xar_hdr_size (xar_marshal_header h ++ rest) = Ok (xar_hdr_vals h).
Proof. intros H. unfold xar_marshal_header. apply go_read_write; [now apply xhdr_fields_ok|reflexivity]. Qed.

Lemma header_roundtrip h rest hid : xhdr_ok h -> xh_magic h = xar_magic -> xh_version h = 1 ->
  assoc_z (xh_htype h) xar_hash_of_enum = Some hid ->
  xar_parse_header (xar_marshal_header h ++ rest) = Ok (h, hid).
Proof.
  intros Hok Hm Hv Hh. unfold xar_parse_header. rewrite header_read_write by assumption. cbn [bind].
  rewrite hdr_of_vals, Hm, Hv, Hh. reflexivity.
Qed.
Lemma marshal_header_zlen h : xhdr_ok h -> zlen (xar_marshal_header h) = 28.
Proof. intros H. unfold xar_marshal_header. rewrite (enc_fields_zlen _ _ _ (xhdr_fields_ok h H)). reflexivity. Qed.

(* what parseHeader reads, in terms of positions in the file *)
Lemma header_fields_positions b :
  dec_fields xar_hdr_signed (split_w xar_hdr_widths b) =
  [be_dec (zslice 0 4 b); be_dec (zslice 4 6 b); be_dec (zslice 6 8 b);
   to_signed (zlen (zslice 8 16 b)) (be_dec (zslice 8 16 b)); to_signed (zlen (zslice 16 24 b)) (be_dec (zslice 16 24 b)); be_dec (zslice 24 28 b)].
Proof.
  unfold xar_hdr_signed, xar_hdr_widths. cbn [split_w dec_fields]. unfold dec_field. cbn [Z.eqb Pos.eqb].
  unfold zslice. rewrite !zdrop_zdrop by lia. cbn [Z.add Z.sub Z.opp Pos.add Pos.succ Z.pos_sub Pos.pred_double]. rewrite zdrop_0. reflexivity.
Qed.

Lemma to_signed_nonneg w u : 1 <= w -> 0 <= u < 2 ^ (8 * w) -> 0 <= to_signed w u -> to_signed w u = u.
Proof.
  intros Hw Hu. unfold to_signed. destruct (u <? 2 ^ (8 * w - 1)) eqn:E; [reflexivity|]. lia.
Qed.

Lemma signed_slice_nonneg b a e : all_bytes b = true -> e = a + 8 -> e <= zlen b -> 0 <= a ->
  0 <= to_signed (zlen (zslice a e b)) (be_dec (zslice a e b)) ->
  to_signed (zlen (zslice a e b)) (be_dec (zslice a e b)) = be_dec (zslice a e b).
Proof.
  intros Hb He Hl Ha Hn. subst e.
  assert (Hz : zlen (zslice a (a + 8) b) = 8).
  { unfold zslice. rewrite zlen_ztake; [lia|]. rewrite zlen_zdrop by lia. lia. }
  rewrite Hz in *. apply to_signed_nonneg; [lia| |exact Hn].
  pose proof (be_dec_range _ (all_bytes_zslice a (a + 8) b Hb)) as Hr. rewrite Hz in Hr. rewrite pow256 in Hr by lia. exact Hr.
Qed.

(* C05: whatever parseHeader accepts, the specification reader reads the same field values at the published offsets *)
Lemma header_spec_agree b h hid : all_bytes b = true -> xar_parse_header b = Ok (h, hid) -> 0 <= xh_clen h -> 0 <= xh_ulen h ->
  spec_xar_header b = Some h /\ spec_cksum_hash (xh_htype h) = Some hid.
Proof.
  intros Hb Hp Hc Hu. unfold xar_parse_header, go_read_struct in Hp.
  destruct (zlen b <? xar_hdr_size) eqn:El; [discriminate|]. cbn [bind] in Hp.
  assert (Hlen : 28 <= zlen b) by (unfold xar_hdr_size in El; lia).
  rewrite header_fields_positions in Hp. unfold xar_hdr_of in Hp.
  cbn [nth xar_hdr_idx_Magic xar_hdr_idx_HeaderSize xar_hdr_idx_Version xar_hdr_idx_CompressedSize xar_hdr_idx_UncompressedSize xar_hdr_idx_HashType
       xh_magic xh_version xh_htype] in Hp.
  destruct (xar_bad_magic (be_dec (zslice 0 4 b))) eqn:Em; [discriminate|].
  destruct (xar_bad_version (be_dec (zslice 6 8 b))) eqn:Ev; [discriminate|].
  destruct (assoc_z (be_dec (zslice 24 28 b)) xar_hash_of_enum) as [hid'|] eqn:Eh; [|unfold xar_hash_of_enum_default_refuses in Hp; discriminate].
  injection Hp as <- <-. cbn [xh_clen xh_ulen xh_htype] in *.
  unfold xar_bad_magic in Em. apply negb_false_iff, Z.eqb_eq in Em.
  split.
  - unfold spec_xar_header. replace (zlen b <? 28) with false by lia. unfold spec_u. cbn [Z.add].
    rewrite Em. cbn [Z.eqb Pos.eqb]. rewrite <- Em.
    rewrite (signed_slice_nonneg b 8 16) by (try assumption; lia).
    rewrite (signed_slice_nonneg b 16 24) by (try assumption; lia). reflexivity.
  - unfold xar_hash_of_enum in Eh. unfold spec_cksum_hash. cbn [assoc_z] in Eh.
    destruct (1 =? be_dec (zslice 24 28 b)) eqn:E1.
    { apply Z.eqb_eq in E1. rewrite <- E1. injection Eh as <-. reflexivity. }
    destruct (3 =? be_dec (zslice 24 28 b)) eqn:E3.
    { apply Z.eqb_eq in E3. rewrite <- E3. injection Eh as <-. reflexivity. }
    destruct (4 =? be_dec (zslice 24 28 b)) eqn:E4.
    { apply Z.eqb_eq in E4. rewrite <- E4. injection Eh as <-. reflexivity. }
    discriminate.
Qed.

(* C01 / C05: the specification reader reads relic's header back *)
Lemma header_spec_reads_relic h rest hid : xhdr_ok h -> all_bytes rest = true -> xh_magic h = xar_magic -> xh_version h = 1 ->
  assoc_z (xh_htype h) xar_hash_of_enum = Some hid -> 0 <= xh_clen h -> 0 <= xh_ulen h ->
  spec_xar_header (xar_marshal_header h ++ rest) = Some h.
Proof.
  intros Hok Hr Hm Hv Hh Hc Hu.
  refine (proj1 (header_spec_agree _ h hid _ (header_roundtrip h rest hid Hok Hm Hv Hh) Hc Hu)).
  rewrite all_bytes_app. unfold xar_marshal_header. now rewrite enc_fields_bytes.
Qed.

(* C11: the header parser never panics, and reads a fixed number of bytes *)
Lemma parse_header_no_panic b p : xar_parse_header b <> Panic p.
Proof.
  unfold xar_parse_header, go_read_struct. destruct (zlen b <? xar_hdr_size); cbn [bind]; [discriminate|].
  destruct (xar_bad_magic _); [discriminate|]. destruct (xar_bad_version _); [discriminate|].
  destruct (assoc_z _ _); [discriminate|]. destruct xar_hash_of_enum_default_refuses; discriminate.
Qed.
Lemma parse_header_prefix b : xar_parse_header (ztake 28 b) = xar_parse_header b.
Proof.
  unfold xar_parse_header, go_read_struct, xar_hdr_size.
  destruct (Z_lt_ge_dec (zlen b) 28) as [Hs|Hs].
  - now rewrite ztake_all by lia.
  - rewrite zlen_ztake by lia. replace (28 <? 28) with false by lia. replace (zlen b <? 28) with false by lia.
    cbn [bind]. rewrite !header_fields_positions. unfold zslice.
    assert (Hx : forall a n, 0 <= a -> 0 <= n -> a + n <= 28 -> ztake n (zdrop a (ztake 28 b)) = ztake n (zdrop a b)).
    { intros a n Ha Hn Han. rewrite <- (ztake_zdrop 28 b) at 2. rewrite zdrop_app_l by (rewrite zlen_ztake; lia).
      rewrite ztake_app_l; [reflexivity|]. rewrite zlen_zdrop by (rewrite zlen_ztake; lia). rewrite zlen_ztake by lia. lia. }
    rewrite !Hx by lia. reflexivity.
Qed.

(* ================================================================================================ koly trailer *)
Lemma koly_widths_pos : widths_pos dmg_koly_widths.
Proof. unfold dmg_koly_widths. cbn. repeat split; lia. Qed.
Lemma koly_size_sum : zsum dmg_koly_widths = dmg_koly_size.
Proof. reflexivity. Qed.

(* a trailer value as relic holds it: every named field in range, blank fields zero *)
Definition koly_ok (k : koly) : Prop := fields_ok dmg_koly_widths dmg_koly_signed k /\ koly_named k = k.

Lemma named_idem (bl : list Z) k : map (fun p => if snd p =? 1 then 0 else fst p) (combine (map (fun p => if snd p =? 1 then 0 else fst p) (combine k bl)) bl)
  = map (fun p : Z * Z => if snd p =? 1 then 0 else fst p) (combine k bl).
Proof.
  revert bl. induction k as [|x k IH]; intros [|b bl]; try reflexivity.
  cbn [combine map fst snd]. f_equal; [destruct (b =? 1); reflexivity|apply IH].
Qed.
Lemma koly_named_idem k : koly_named (koly_named k) = koly_named k.
Proof. apply named_idem. Qed.

Lemma field_ok_zero w sg : 1 <= w -> field_ok w sg 0.
Proof.
  intros Hw. unfold field_ok. assert (0 < 2 ^ (8 * w - 1)) by (apply Z.pow_pos_nonneg; lia).
  assert (0 < 2 ^ (8 * w)) by (apply Z.pow_pos_nonneg; lia). destruct (sg =? 1); lia.
Qed.
Lemma named_ok ws sgs vs : fields_ok ws sgs vs -> forall bl, length bl = length vs ->
  fields_ok ws sgs (map (fun p : Z * Z => if snd p =? 1 then 0 else fst p) (combine vs bl)).
Proof.
  induction 1 as [|w ws sg sgs v vs Hw Hok _ IH]; intros bl Hl.
  - destruct bl; [constructor|discriminate].
  - destruct bl as [|b bl]; [discriminate|]. cbn [combine map fst snd]. constructor; [assumption| |apply IH; cbn in Hl; lia].
    destruct (b =? 1); [now apply field_ok_zero|assumption].
Qed.
Lemma fields_ok_length ws sgs vs : fields_ok ws sgs vs -> length vs = length ws /\ length sgs = length ws.
Proof. induction 1 as [|? ? ? ? ? ? _ _ _ [IH1 IH2]]; cbn; split; lia. Qed.

(* C01 / C05: parse (marshal k) = k for every trailer value in range *)
Lemma koly_roundtrip k rest : koly_ok k -> dmg_parse_koly (dmg_marshal_koly k ++ rest) = Ok k.
Proof.
  intros [Hok Hn]. unfold dmg_parse_koly, dmg_marshal_koly. rewrite Hn.
  rewrite go_read_write by (try assumption; reflexivity). cbn [bind]. now rewrite Hn.
Qed.
Lemma marshal_koly_zlen k : koly_ok k -> zlen (dmg_marshal_koly k) = 512.
Proof. intros [Hok Hn]. unfold dmg_marshal_koly. rewrite Hn. now rewrite (enc_fields_zlen _ _ _ Hok). Qed.
Lemma marshal_koly_bytes k : all_bytes (dmg_marshal_koly k) = true.
Proof. apply enc_fields_bytes. Qed.

(* whatever relic parses is a trailer value in range *)
Lemma parse_koly_ok b k : all_bytes b = true -> dmg_parse_koly b = Ok k -> koly_ok k.
Proof.
  intros Hb Hp. unfold dmg_parse_koly, go_read_struct in Hp. destruct (zlen b <? dmg_koly_size) eqn:E; [discriminate|].
  cbn [bind] in Hp. apply Ok_inj in Hp. subst k. unfold dmg_koly_size in E.
  assert (Hf : fields_ok dmg_koly_widths dmg_koly_signed (dec_fields dmg_koly_signed (split_w dmg_koly_widths b))).
  { apply dec_fields_ok; [apply koly_widths_pos|reflexivity|assumption|rewrite koly_size_sum; unfold dmg_koly_size; lia]. }
  split.
  - unfold koly_named. destruct (fields_ok_length _ _ _ Hf) as [H1 _]. apply named_ok; [exact Hf|]. transitivity (length dmg_koly_widths); [reflexivity|now symmetry].
  - apply koly_named_idem.
Qed.

(* marshal (parse b): field by field the bytes of b, blank fields zero *)
Fixpoint blank_parts (ws bl : list Z) (parts : list bytes) : list bytes :=
  match ws, bl, parts with
  | w :: wr, x :: xr, p :: pr => (if x =? 1 then zeros w else p) :: blank_parts wr xr pr
  | _, _, _ => []
  end.
Lemma zeros_zlen n : 0 <= n -> zlen (zeros n) = n.
Proof. intros H. unfold zeros, zlen. rewrite repeat_length. lia. Qed.
Lemma be_enc_zero w : be_enc w 0 = repeat 0 w.
Proof.
  unfold be_enc. assert (H : le_enc w 0 = repeat 0 w).
  { induction w as [|w IH]; [reflexivity|]. cbn [le_enc repeat]. now rewrite Z.mod_0_l, Z.div_0_l, IH by lia. }
  rewrite H. clear H. induction w as [|w IH]; [reflexivity|]. cbn [repeat rev]. rewrite IH.
  clear IH. induction w as [|w IH]; [reflexivity|]. cbn [repeat app]. now rewrite IH.
Qed.
Lemma marshal_parse_parts ws : forall sgs bl b, widths_pos ws -> length sgs = length ws -> length bl = length ws ->
  all_bytes b = true -> zsum ws <= zlen b ->
  split_w ws (enc_fields ws (map (fun p : Z * Z => if snd p =? 1 then 0 else fst p) (combine (dec_fields sgs (split_w ws b)) bl)))
  = blank_parts ws bl (split_w ws b).
Proof.
  induction ws as [|w ws IH]; intros sgs bl b Hp Hs Hl Hb Hlen; [reflexivity|].
  destruct sgs as [|sg sgs]; [discriminate|]. destruct bl as [|x bl]; [discriminate|]. destruct Hp as [Hw Hp].
  cbn [zsum] in Hlen.
  assert (Hz : 0 <= zsum ws). { clear -Hp. induction ws as [|y r IHr]; cbn [zsum]; [lia|]. destruct Hp. specialize (IHr H0). lia. }
  cbn [split_w dec_fields combine map fst snd enc_fields blank_parts].
  assert (Htl : zlen (ztake w b) = w) by (apply zlen_ztake; lia).
  assert (Hrest : forall v, zlen (enc_field w v) = w) by (intros; apply enc_field_zlen; lia).
  set (tailv := map (fun p : Z * Z => if snd p =? 1 then 0 else fst p) (combine (dec_fields sgs (split_w ws (zdrop w b))) bl)).
  rewrite <- (app_nil_r (enc_fields ws tailv)). rewrite app_assoc.
  rewrite <- app_assoc. rewrite app_nil_r.
  pose proof (split_w_cons w ws (enc_field w (if x =? 1 then 0 else dec_field sg (ztake w b))) (enc_fields ws tailv) (Hrest _) ltac:(lia)) as Hsc.
  cbn [split_w] in Hsc. rewrite Hsc. f_equal.
  - destruct (x =? 1).
    + unfold enc_field, zeros. apply be_enc_zero.
    + rewrite <- Htl at 1. apply enc_dec_field; [now apply all_bytes_ztake|lia].
  - unfold tailv. apply IH; try assumption; try (cbn in *; lia); [now apply all_bytes_zdrop|rewrite zlen_zdrop by lia; lia].
Qed.

Lemma koly_marshal_parse b k : all_bytes b = true -> zlen b = 512 -> dmg_parse_koly b = Ok k ->
  split_w dmg_koly_widths (dmg_marshal_koly k) = blank_parts dmg_koly_widths dmg_koly_blank (split_w dmg_koly_widths b).
Proof.
  intros Hb Hl Hp. unfold dmg_parse_koly, go_read_struct in Hp. destruct (zlen b <? dmg_koly_size) eqn:E; [discriminate|].
  cbn [bind] in Hp. apply Ok_inj in Hp. subst k. unfold dmg_marshal_koly. rewrite koly_named_idem. unfold koly_named.
  apply marshal_parse_parts; [apply koly_widths_pos|reflexivity|reflexivity|assumption|rewrite koly_size_sum; unfold dmg_koly_size; lia].
Qed.

(* the parts in terms of file positions (published layout of the koly block) *)
Lemma koly_positions b : split_w dmg_koly_widths b = spec_koly_slices b.
Proof.
  unfold dmg_koly_widths, spec_koly_slices. cbn [split_w]. unfold zslice. rewrite !zdrop_zdrop by lia.
  cbn [Z.add Z.sub Z.opp Pos.add Pos.succ Z.pos_sub Pos.pred_double Pos.add_carry]. rewrite zdrop_0. reflexivity.
Qed.
