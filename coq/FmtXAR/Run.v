(* FmtXAR/Run.v — evaluation of the model and of the specification readers on harness cases.  Input [kind ...]:
   0  xar header          [0 bytes]                                   -> [st [6 fields] hid spec_ok [6 spec fields]]
   1  xar Sign            [1 file toc params ztoc' ulen' ck csig cms]  -> [st orig new toc' patch_off patch_old newbytes file]
   2  xar Open + Verify   [2 file toc ztoc ck skip]                    -> [open_st hid base has_classic classic has_cms cms notary last verify_st route content]
   3  koly codec          [3 bytes]                                   -> [st [fields] marshal for_hashing]
   4  dmg Sign            [4 file blob]                               -> [st bundle rep patch_off patch_old newbytes file]
   5  dmg Open / Verify   [5 file]                                    -> [st blob rep pages_len [allocs] extract_st]
   toc = [[slot ...] [ref ...] strict], slot = [kind off has_size size ncerts], ref = [kind off_ok off len ck hex_ok digest reach];
   params = [hash rsa classic certsum ncerts].
   The opaque parts are instantiated from the case: the codec by the table of contents / compressed bytes the harness-owned reader and
   the real run delivered, the digest by "ck for the compressed table of contents, identity elsewhere" (member digests are prepared
   accordingly by the check), the RSA signature by the bytes the real run produced. *)
From Relic Require Import Base.Prelude Base.Enc Base.Val Generated.FmtXAR_gen FmtXAR.Model.

Definition st_of {A} (r : result A) : Z := match r with Ok _ => 0 | Err e => e | Panic p => 100 + p end.
Definition vslot (v : val) : slot := mkSlot (vz (vnth 0 v)) (vz (vnth 1 v)) (vbool (vnth 2 v)) (vz (vnth 3 v)) (vz (vnth 4 v)).
Definition vref (v : val) : fref :=
  mkRef (vz (vnth 0 v)) (vbool (vnth 1 v)) (vz (vnth 2 v)) (vz (vnth 3 v)) (vz (vnth 4 v)) (vbool (vnth 5 v)) (vb (vnth 6 v)) (vbool (vnth 7 v)).
Definition vtoc (v : val) : xtoc := mkToc (map vslot (vl (vnth 0 v))) (map vref (vl (vnth 1 v))) (vbool (vnth 2 v)).
Definition vparams (v : val) : sparams := mkSP (vz (vnth 0 v)) (vbool (vnth 1 v)) (vz (vnth 2 v)) (vz (vnth 3 v)) (vz (vnth 4 v)).
Definition slot_val (s : slot) : val := VL [VZ (sl_kind s); VZ (sl_off s); of_bool (sl_has_size s); VZ (sl_size s); VZ (sl_ncerts s)].
Definition ref_val (r : fref) : val :=
  VL [VZ (fr_kind r); of_bool (fr_off_ok r); VZ (fr_off r); VZ (fr_len r); VZ (fr_ck r); of_bool (fr_hex_ok r); VB (fr_digest r); of_bool (fr_reach r)].
Definition toc_val (t : xtoc) : val := VL [VL (map slot_val (t_slots t)); VL (map ref_val (t_refs t)); of_bool (t_strict t)].
Definition hdr_val (h : xhdr) : val := VZs (xar_hdr_vals h).
Definition run_H (z ck : bytes) (hid : Z) (x : bytes) : bytes := if bytes_eqb x z then ck else x.
Definition opt_val (o : option bytes) : list val := match o with Some b => [VZ 1; VB b] | None => [VZ 0; VB []] end.

Definition run (v : val) : val :=
  let k := vz (vnth 0 v) in
  if k =? 0 then
    let b := vb (vnth 1 v) in
    let sp := spec_xar_header b in
    match xar_parse_header b with
    | Ok (h, hid) => VL [VZ 0; hdr_val h; VZ hid; of_bool (match sp with Some _ => true | None => false end); match sp with Some s => hdr_val s | None => VL [] end]
    | r => VL [VZ (st_of r); VL []; VZ 0; of_bool (match sp with Some _ => true | None => false end); match sp with Some s => hdr_val s | None => VL [] end]
    end
  else if k =? 1 then
    let f := vb (vnth 1 v) in let t := vtoc (vnth 2 v) in let P := vparams (vnth 3 v) in
    let z := vb (vnth 4 v) in let ul := vz (vnth 5 v) in let ck := vb (vnth 6 v) in let cs := vb (vnth 7 v) in let cms := vb (vnth 8 v) in
    match xar_sign (run_H z ck) (fun _ => Some t) (fun _ => z) (fun _ => ul) (fun _ => cs) P f cms with
    | Ok s => VL [VZ 0; VZ (xs_orig s); VZ (xs_new s); toc_val (xs_toc s); VZ (xs_patch_off s); VZ (xs_patch_old s); VB (xs_bytes s); VB (xs_file s)]
    | r => VL [VZ (st_of r); VZ 0; VZ 0; VL []; VZ 0; VZ 0; VB []; VB []]
    end
  else if k =? 2 then
    let f := vb (vnth 1 v) in let t := vtoc (vnth 2 v) in let z := vb (vnth 3 v) in let ck := vb (vnth 4 v) in let skip := vbool (vnth 5 v) in
    let Hf := run_H z ck in let dec := fun _ : bytes => Some t in
    match xar_open Hf dec f with
    | Ok o =>
        let vs := xar_verify_struct Hf dec f skip in
        VL ([VZ 0; VZ (xo_hash o); VZ (xo_base o)] ++ opt_val (xo_classic o) ++ opt_val (xo_cms o) ++ [VB (xo_notary o); VZ (xo_last o); VZ (st_of vs)]
            ++ match vs with Ok (route, _, content) => [VZ route; VB content] | _ => [VZ 0; VB []] end)
    | r => VL [VZ (st_of r)]
    end
  else if k =? 3 then
    match dmg_parse_koly (vb (vnth 1 v)) with
    | Ok kk => VL [VZ 0; VZs kk; VB (dmg_marshal_koly kk); VB (dmg_for_hashing kk)]
    | r => VL [VZ (st_of r)]
    end
  else if k =? 4 then
    match dmg_sign (vb (vnth 1 v)) (vb (vnth 2 v)) with
    | Ok s => VL [VZ 0; VZ (ds_bundle s); VB (ds_rep s); VZ (ds_patch_off s); VZ (ds_patch_old s); VB (ds_new s); VB (ds_file s)]
    | r => VL [VZ (st_of r)]
    end
  else
    let f := vb (vnth 1 v) in
    match dmg_open f with
    | Ok o =>
        let vi := dmg_verify_inputs f in
        VL [VZ 0; VB (do_blob o); VB (match vi with Ok (_, rep, _) => rep | _ => [] end); VZ (match vi with Ok (_, _, pages) => zlen pages | _ => -1 end);
            VZs (do_allocs o); VZ (st_of (dmg_extract f)); VZ (st_of vi)]
    | r => VL [VZ (st_of r)]
    end.
