(* FmtXAR/ProofsXAR.v — flat packages: the slot plan, the heap layout after signing, what the checksum and the signatures cover,
   extraction, payload, re-signing, size estimate, refusals, panics. *)
From Relic Require Import Base.Prelude Base.Enc Generated.FmtXAR_gen FmtXAR.Model FmtXAR.Codec FmtXAR.ProofsHdr.
From Relic Require Laws.Pipeline.

(* ---- slices of concatenations *)
Lemma zslice_app_r {A} (a b : list A) x y : zlen a <= x -> x <= y -> zslice x y (a ++ b) = zslice (x - zlen a) (y - zlen a) b.
Proof.
  intros H1 H2. unfold zslice. rewrite zdrop_app_r by lia. f_equal. lia.
Qed.
Lemma zslice_app_l {A} (a b : list A) x y : 0 <= x -> x <= y -> y <= zlen a -> zslice x y (a ++ b) = zslice x y a.
Proof.
  intros H0 H1 H2. unfold zslice. rewrite zdrop_app_l by lia. rewrite ztake_app_l; [reflexivity|]. rewrite zlen_zdrop by lia. lia.
Qed.
Lemma zslice_full {A} (a : list A) : zslice 0 (zlen a) a = a.
Proof. unfold zslice. rewrite zdrop_0. apply ztake_all. lia. Qed.
Lemma zslice_zdrop {A} (l : list A) n x y : 0 <= n -> 0 <= x -> zslice x y (zdrop n l) = zslice (x + n) (y + n) l.
Proof. intros Hn Hx. unfold zslice. rewrite zdrop_zdrop by lia. f_equal. lia. Qed.
Lemma zslice_head {A} (a b : list A) : zslice 0 (zlen a) (a ++ b) = a.
Proof. rewrite zslice_app_l by (pose proof (zlen_nonneg a); lia). apply zslice_full. Qed.
Lemma zeros_len n : 0 <= n -> zlen (zeros n) = n.
Proof. apply zeros_zlen. Qed.
Lemma bytes_eqb_refl b : bytes_eqb b b = true.
Proof. apply list_eqb_Z_eq. reflexivity. Qed.

(* ---- the specification header reader only looks at the first 28 bytes *)
Lemma spec_header_prefix hdr rest : zlen hdr = 28 -> spec_xar_header (hdr ++ rest) = spec_xar_header hdr.
Proof.
  intros Hl. unfold spec_xar_header. rewrite zlen_app, Hl. pose proof (zlen_nonneg rest).
  replace (28 + zlen rest <? 28) with false by lia. replace (28 <? 28) with false by lia.
  unfold spec_u. rewrite !zslice_app_l by lia. reflexivity.
Qed.

(* ---- the slot plan *)
Definition toc_wf (t : xtoc) : bool := forallb slot_removed (t_slots t).
Lemma filter_all {A} (p : A -> bool) l : forallb p l = true -> filter p l = l.
Proof. induction l as [|x l IH]; [reflexivity|]. cbn [forallb filter]. intros H. apply andb_true_iff in H as [Hx Hl]. rewrite Hx. f_equal. now apply IH. Qed.
Lemma filter_none {A} (p : A -> bool) l : forallb p l = true -> filter (fun x => negb (p x)) l = [].
Proof. induction l as [|x l IH]; [reflexivity|]. cbn [forallb filter]. intros H. apply andb_true_iff in H as [Hx Hl]. rewrite Hx. cbn [negb]. now apply IH. Qed.
Lemma remove_all t : toc_wf t = true ->
  xar_remove_sigs t = (zsum (map (fun s => if sl_has_size s then sl_size s else 0) (t_slots t)), mkToc [] (t_refs t) (t_strict t)).
Proof.
  intros H. unfold xar_remove_sigs, xar_remove_adds_size, xar_remove_removes, toc_wf in *.
  now rewrite (filter_all _ _ H), (filter_none _ _ H).
Qed.

Definition plan_slots (P : sparams) : list slot :=
  let hs := hash_size (sp_hash P) in
  if sp_rsa P then [mkSlot K_CHECKSUM 0 true hs 0; mkSlot K_SIGNATURE hs true (sp_classic P) (sp_ncerts P);
                    mkSlot K_XSIGNATURE (hs + sp_classic P) true (6144 + sp_certsum P) (sp_ncerts P)]
  else [mkSlot K_CHECKSUM 0 true hs 0; mkSlot K_XSIGNATURE hs true (6144 + sp_certsum P) (sp_ncerts P)].
Definition plan_total (P : sparams) : Z :=
  hash_size (sp_hash P) + (if sp_rsa P then sp_classic P else 0) + (6144 + sp_certsum P).

(* C03 / C01: reserveSignatures on a table of contents without signature elements: checksum at 0, then the classic signature (RSA leaf
   only), then the CMS slot; contiguous, in this order, total = the sum of the sizes *)
Lemma reserve_plan P refs strict :
  xar_reserve P (mkToc [] refs strict) = (plan_total P, mkToc (plan_slots P) refs strict).
Proof.
  unfold xar_reserve, xar_plan, plan_slots, plan_total, xar_reserve_rsa, xar_reserve_norsa. destruct (sp_rsa P).
  - cbn [fold_left t_slots t_refs t_strict]. change (Z.to_nat 0) with 0%nat. change (Z.to_nat 1) with 1%nat. change (Z.to_nat (1 + 1)) with 2%nat.
    cbn [insert_at]. unfold K_CHECKSUM, K_SIGNATURE, K_XSIGNATURE. cbn [Z.eqb Pos.eqb]. rewrite !Z.add_0_l. reflexivity.
  - cbn [fold_left t_slots t_refs t_strict]. change (Z.to_nat 0) with 0%nat. change (Z.to_nat 1) with 1%nat.
    cbn [insert_at]. unfold K_CHECKSUM, K_SIGNATURE, K_XSIGNATURE. cbn [Z.eqb Pos.eqb]. rewrite !Z.add_0_l, Z.add_0_r. reflexivity.
Qed.
Lemma plan_slots_wf P : forallb slot_removed (plan_slots P) = true.
Proof. unfold plan_slots. destruct (sp_rsa P); reflexivity. Qed.
Lemma plan_slots_sum P : zsum (map (fun s => if sl_has_size s then sl_size s else 0) (plan_slots P)) = plan_total P.
Proof. unfold plan_slots, plan_total. destruct (sp_rsa P); cbn [map zsum sl_has_size sl_size]; lia. Qed.

Lemma new_toc_shape P t : toc_wf t = true ->
  let orig := zsum (map (fun s => if sl_has_size s then sl_size s else 0) (t_slots t)) in
  xar_new_toc P t = (orig, plan_total P, mkToc (plan_slots P) (map (xar_adjust_ref (plan_total P - orig)) (t_refs t)) (t_strict t)).
Proof.
  intros Hw. cbn zeta. unfold xar_new_toc. rewrite (remove_all t Hw). rewrite reserve_plan. unfold xar_adjust, xar_sign_delta. reflexivity.
Qed.

Definition toc_orig (t : xtoc) : Z := zsum (map (fun s => if sl_has_size s then sl_size s else 0) (t_slots t)).
(* a heap reference the signer can move: a data offset that parses, lies behind the signature area and inside the heap *)
Definition ref_ok (orig heaplen : Z) (r : fref) : Prop :=
  is_data_kind (fr_kind r) = true /\ fr_off_ok r = true /\ orig <= fr_off r /\ 0 <= fr_len r /\ fr_off r + fr_len r <= heaplen.

Section XarLaws.
  Variable Hf : Z -> bytes -> bytes.
  Variable dec : bytes -> option xtoc.
  Variable enc : xtoc -> bytes.
  Variable usize : xtoc -> Z.
  Variable csig : bytes -> bytes.
  (* the tables of contents the codec is assumed to handle: dec reads back what enc wrote, within the size class relic signs *)
  Variable good : xtoc -> Prop.
  Hypothesis dec_enc : forall t, good t -> dec (enc t) = Some t.
  Hypothesis Hf_len : forall hid x, zlen (Hf hid x) = hash_size hid.
  (* the size class of tables of contents relic accepts for signing (Sign refuses larger ones) *)
  Hypothesis enc_small : forall t, good t -> zlen (enc t) <= 1000000.
  Hypothesis usize_ok : forall t, good t -> 0 <= usize t <= 10000000.
  Hypothesis enc_bytes : forall t, good t -> all_bytes (enc t) = true.
  Hypothesis Hf_bytes : forall hid x, all_bytes (Hf hid x) = true.
  Hypothesis csig_bytes : forall x, all_bytes (csig x) = true.

  Notation xar_sign := (xar_sign Hf dec enc usize csig).
  Notation xar_embed := (xar_embed Hf dec enc usize csig).
  Notation xar_open := (xar_open Hf dec).
  Notation xar_extract := (xar_extract Hf dec).
  Notation spec_xar_payload := (spec_xar_payload dec).

  (* signing parameters that occur: SHA-1 / SHA-256 / SHA-512, sizes not negative, at least one certificate *)
  Definition params_ok (P : sparams) : Prop :=
    (sp_hash P = 3 \/ sp_hash P = 5 \/ sp_hash P = 7) /\ 0 <= sp_classic P /\ 0 <= sp_certsum P /\ 0 < sp_ncerts P /\
    (sp_rsa P = true -> forall x, zlen (csig x) = sp_classic P).

  (* the input class: header of 28 bytes, table of contents decodes, signature elements of the three kinds only, every heap
     reference a movable data reference *)
  Record xar_dom (f : bytes) (h : xhdr) (hid : Z) (t : xtoc) : Prop := mkDom {
    xd_bytes : all_bytes f = true;
    xd_hdr : xar_parse_header f = Ok (h, hid);
    xd_hsize : xh_hsize h = 28;
    xd_clen : 0 <= xh_clen h <= 1000000;
    xd_ulen : 0 <= xh_ulen h <= 10000000;
    xd_len : 28 + xh_clen h <= zlen f;
    xd_dec : dec (zslice 28 (28 + xh_clen h) f) = Some t;
    xd_wf : toc_wf t = true;
    xd_strict : t_strict t = true;
    xd_orig : 0 <= toc_orig t <= zlen f - 28 - xh_clen h;
    xd_refs : Forall (ref_ok (toc_orig t) (zlen f - 28 - xh_clen h)) (t_refs t)
  }.

  Definition heap_of (f : bytes) (h : xhdr) : bytes := zdrop (28 + xh_clen h) f.
  Definition new_refs (P : sparams) (t : xtoc) : list fref := map (xar_adjust_ref (plan_total P - toc_orig t)) (t_refs t).
  Definition new_toc (P : sparams) (t : xtoc) : xtoc := mkToc (plan_slots P) (new_refs P t) (t_strict t).
  Definition new_hdr (P : sparams) (t : xtoc) (en : Z) : xhdr := mkXhdr xar_magic 28 1 (zlen (enc (new_toc P t))) (usize (new_toc P t)) en.
  Definition sig_area (P : sparams) (t : xtoc) (cms : bytes) : bytes :=
    let ck := Hf (sp_hash P) (enc (new_toc P t)) in
    let classic := if sp_rsa P then csig ck else [] in
    ck ++ classic ++ cms ++ zeros (plan_total P - (zlen ck + zlen classic + zlen cms)).

  Lemma enum_of_hash P : params_ok P -> exists en, assoc_z (sp_hash P) xar_enum_of_hash = Some en /\ assoc_z en xar_hash_of_enum = Some (sp_hash P) /\ 0 <= en < 4294967296
    /\ spec_cksum_hash en = Some (sp_hash P).
  Proof.
    intros [[H|[H|H]] _]; rewrite H; unfold xar_enum_of_hash, xar_hash_of_enum; cbn [assoc_z Z.eqb Pos.eqb];
      eexists; (split; [reflexivity|]); cbn [assoc_z Z.eqb Pos.eqb]; (split; [reflexivity|]); (split; [lia|reflexivity]).
  Qed.

  (* what a successful signing consists of *)
  Lemma sign_inv P f h hid t cms s : params_ok P -> xar_dom f h hid t -> xar_sign P f cms = Ok s ->
    exists en, assoc_z (sp_hash P) xar_enum_of_hash = Some en /\
      xar_check_files_sign Hf (heap_of f h) (mkToc (plan_slots P) (t_refs t) (t_strict t)) = Ok tt /\
      hash_size (sp_hash P) + (if sp_rsa P then sp_classic P else 0) + zlen cms <= plan_total P /\
      xs_orig s = toc_orig t /\ xs_new s = plan_total P /\ xs_toc s = new_toc P t /\
      xs_bytes s = xar_marshal_header (new_hdr P t en) ++ enc (new_toc P t) ++ sig_area P t cms /\
      xs_patch_off s = 0 /\ xs_patch_old s = 28 + xh_clen h + toc_orig t /\
      xs_file s = xs_bytes s ++ zdrop (toc_orig t) (heap_of f h).
  Proof.
    intros HP [Hfb Hh Hhs Hcl Hul Hlen Hdec Hwf Hst Horig Hrefs] Hs.
    destruct (enum_of_hash P HP) as (en & Hen & _). exists en. split; [exact Hen|].
    destruct HP as (Hhash & Hc0 & Hs0 & Hn0 & Hcs).
    unfold Model.xar_sign in Hs. rewrite Hh in Hs. cbn [bind fst] in Hs.
    unfold xar_sign_toc_too_large in Hs. replace ((xh_clen h >? 1000000) || (xh_ulen h >? 10000000)) with false in Hs by lia.
    unfold xar_hdr_size in Hs. rewrite zlen_zdrop in Hs by lia.
    replace ((xh_clen h <? 0) || (zlen f - 28 <? xh_clen h)) with false in Hs by lia.
    assert (Hz : ztake (xh_clen h) (zdrop 28 f) = zslice 28 (28 + xh_clen h) f) by (unfold zslice; f_equal; lia).
    rewrite Hz, Hdec in Hs. rewrite (remove_all t Hwf) in Hs. fold (toc_orig t) in Hs. rewrite reserve_plan in Hs.
    rewrite zdrop_zdrop in Hs by lia. replace (xh_clen h + 28) with (28 + xh_clen h) in Hs by lia. fold (heap_of f h) in Hs.
    destruct (xar_check_files_sign Hf (heap_of f h) _) as [[]| |] eqn:Hck; cbn [bind] in Hs; try discriminate.
    split; [reflexivity|].
    unfold xar_adjust, xar_sign_delta in Hs. cbn [t_slots t_refs t_strict] in Hs. fold (new_refs P t) in Hs. fold (new_toc P t) in Hs.
    unfold xar_append in Hs. rewrite Hen in Hs.
    unfold xar_used_counts_checksum, xar_used_counts_classic, xar_used_counts_cms, xar_append_overflow, xar_append_pad in Hs.
    rewrite Hf_len in Hs.
    set (classic := if sp_rsa P then csig (Hf (sp_hash P) (enc (new_toc P t))) else []) in *.
    assert (Hcl2 : zlen classic = if sp_rsa P then sp_classic P else 0).
    { unfold classic. destruct (sp_rsa P) eqn:Er; [now apply Hcs|reflexivity]. }
    destruct (hash_size (sp_hash P) + zlen classic + zlen cms >? plan_total P) eqn:Eov; cbn [bind] in Hs; [discriminate|].
    unfold xar_sign_orig_total, xar_sign_patch_off, xar_sign_patch_old in Hs.
    replace ((28 + xh_clen h + toc_orig t <? 0) || (zlen f <? 0 + (28 + xh_clen h + toc_orig t))) with false in Hs by lia.
    apply Ok_inj in Hs. subst s. cbn [xs_orig xs_new xs_toc xs_bytes xs_patch_off xs_patch_old xs_file].
    split; [rewrite <- Hcl2; lia|]. repeat (split; [reflexivity|]).
    assert (Hnb : xar_marshal_header (mkXhdr xar_out_magic xar_out_hsize xar_out_version (xar_out_clen (zlen (enc (new_toc P t)))) (xar_out_ulen (usize (new_toc P t))) en) ++
                  enc (new_toc P t) ++ Hf (sp_hash P) (enc (new_toc P t)) ++ classic ++ cms ++ zeros (plan_total P - (hash_size (sp_hash P) + zlen classic + zlen cms))
                  = xar_marshal_header (new_hdr P t en) ++ enc (new_toc P t) ++ sig_area P t cms).
    { unfold sig_area, new_hdr. fold classic. rewrite Hf_len. reflexivity. }
    rewrite Hnb. split; [reflexivity|]. split; [reflexivity|]. split; [reflexivity|].
    rewrite ztake_neg by lia. cbn [app]. f_equal. unfold heap_of. rewrite zdrop_zdrop by lia. f_equal. lia.
  Qed.

  Lemma plan_total_nonneg P : params_ok P -> 6144 <= plan_total P /\ 0 <= hash_size (sp_hash P) <= 64.
  Proof.
    intros ([H|[H|H]] & Hc & Hs & _). all: unfold plan_total; rewrite H; cbn [hash_size Z.eqb Pos.eqb]; destruct (sp_rsa P); lia.
  Qed.
  Lemma sig_area_len P t cms : params_ok P -> hash_size (sp_hash P) + (if sp_rsa P then sp_classic P else 0) + zlen cms <= plan_total P ->
    zlen (sig_area P t cms) = plan_total P.
  Proof.
    intros HP Hle. destruct HP as (Hhash & Hc0 & Hs0 & Hn0 & Hcs). unfold sig_area. cbn zeta.
    set (ck := Hf (sp_hash P) (enc (new_toc P t))). set (classic := if sp_rsa P then csig ck else []).
    assert (Hcl2 : zlen classic = if sp_rsa P then sp_classic P else 0).
    { unfold classic. destruct (sp_rsa P) eqn:Er; [now apply Hcs|reflexivity]. }
    assert (Hck : zlen ck = hash_size (sp_hash P)) by apply Hf_len.
    rewrite !zlen_app, zeros_len by lia. lia.
  Qed.

  Lemma new_hdr_ok P t en : good (new_toc P t) -> 0 <= en < 4294967296 -> xhdr_ok (new_hdr P t en).
  Proof.
    intros Hg He. unfold xhdr_ok, new_hdr. cbn [xh_magic xh_hsize xh_version xh_clen xh_ulen xh_htype]. unfold xar_magic.
    pose proof (zlen_nonneg (enc (new_toc P t))). pose proof (enc_small (new_toc P t) Hg). pose proof (usize_ok (new_toc P t) Hg). lia.
  Qed.

  (* the signed file as the SPECIFICATION reader splits it: header, compressed table of contents, heap *)
  Lemma signed_split P t en cms tail : good (new_toc P t) -> params_ok P -> assoc_z (sp_hash P) xar_enum_of_hash = Some en ->
    spec_xar_split (xar_marshal_header (new_hdr P t en) ++ enc (new_toc P t) ++ sig_area P t cms ++ tail)
    = Some (new_hdr P t en, enc (new_toc P t), sig_area P t cms ++ tail).
  Proof.
    intros Hg HP Hen. destruct (enum_of_hash P HP) as (en' & Hen' & Hback & Hr & _). rewrite Hen in Hen'. injection Hen' as <-.
    pose proof (new_hdr_ok P t en Hg Hr) as Hok. pose proof (marshal_header_zlen _ Hok) as Hl.
    unfold spec_xar_split. rewrite spec_header_prefix by exact Hl.
    rewrite <- (app_nil_r (xar_marshal_header (new_hdr P t en))) at 1.
    rewrite (header_spec_reads_relic (new_hdr P t en) [] (sp_hash P)); try assumption; try reflexivity;
      try (cbn [new_hdr xh_clen xh_ulen]; first [apply zlen_nonneg | apply (usize_ok _ Hg)]).
    cbn [new_hdr xh_hsize xh_clen]. pose proof (zlen_nonneg (enc (new_toc P t))).
    rewrite !zlen_app, Hl. pose proof (zlen_nonneg (sig_area P t cms)). pose proof (zlen_nonneg tail).
    replace ((28 <? 28) || (28 + (zlen (enc (new_toc P t)) + (zlen (sig_area P t cms) + zlen tail)) <? 28 + zlen (enc (new_toc P t)))) with false by lia.
    f_equal. f_equal; [f_equal|].
    - rewrite zslice_app_r by lia. rewrite Hl. replace (28 - 28) with 0 by lia. replace (28 + zlen (enc (new_toc P t)) - 28) with (zlen (enc (new_toc P t))) by lia.
      apply zslice_head.
    - rewrite app_assoc. rewrite zdrop_app_r by (rewrite zlen_app; lia). rewrite zlen_app, Hl.
      replace (28 + zlen (enc (new_toc P t)) - (28 + zlen (enc (new_toc P t)))) with 0 by lia. apply zdrop_0.
  Qed.

  (* a reference that was moved names the same bytes in the new heap *)
  Lemma moved_ref_bytes (heap area : bytes) orig total r : 0 <= orig <= zlen heap -> zlen area = total -> 0 <= total ->
    ref_ok orig (zlen heap) r ->
    spec_ref_bytes (area ++ zdrop orig heap) (xar_adjust_ref (total - orig) r) = spec_ref_bytes heap r.
  Proof.
    intros Ho Ha Ht (Hk & Hok & Hoff & Hlen & Hend). unfold xar_adjust_ref, xar_adjust_skips_unparsable, xar_adjust_adds_delta.
    rewrite Hk, Hok. cbn [andb orb negb]. unfold spec_ref_bytes. cbn [fr_off_ok fr_off fr_len]. rewrite Hok. cbn [negb orb].
    rewrite zlen_app, Ha, zlen_zdrop by lia.
    replace ((fr_off r + (total - orig) <? 0) || (fr_len r <? 0) || (total + (zlen heap - orig) <? fr_off r + (total - orig) + fr_len r)) with false by lia.
    replace ((fr_off r <? 0) || (fr_len r <? 0) || (zlen heap <? fr_off r + fr_len r)) with false by lia.
    f_equal. rewrite zslice_app_r by lia. rewrite Ha. rewrite zslice_zdrop by lia. f_equal; lia.
  Qed.

  Lemma spec_payload_of_dom f h hid t : xar_dom f h hid t ->
    spec_xar_payload f = Ok (map (spec_ref_bytes (heap_of f h)) (t_refs t)).
  Proof.
    intros [Hfb Hh Hhs Hcl Hul Hlen Hdec Hwf Hst Horig Hrefs]. unfold Model.spec_xar_payload, spec_xar_split.
    destruct (header_spec_agree f h hid Hfb Hh ltac:(lia) ltac:(lia)) as [Hsp _]. rewrite Hsp. rewrite Hhs.
    replace ((28 <? 28) || (zlen f <? 28 + xh_clen h)) with false by lia. rewrite Hdec. reflexivity.
  Qed.

  (* C03: law_payload on the domain *)
  Lemma xar_law_payload_dom P f h hid t cms g : good (new_toc P t) -> params_ok P -> xar_dom f h hid t -> xar_embed P f cms = Ok g ->
    spec_xar_payload g = spec_xar_payload f.
  Proof.
    intros Hg HP Hd He. unfold Model.xar_embed in He. destruct (xar_sign P f cms) as [s| |] eqn:Hs; cbn [bind] in He; try discriminate.
    apply Ok_inj in He. subst g. destruct (sign_inv P f h hid t cms s HP Hd Hs) as (en & Hen & Hck & Hle & Ho & Hn & Ht & Hb & Hpo & Hpl & Hfile).
    rewrite (spec_payload_of_dom f h hid t Hd). rewrite Hfile, Hb. rewrite <- !app_assoc.
    unfold Model.spec_xar_payload. rewrite signed_split by assumption. rewrite dec_enc by assumption. cbn [new_toc t_refs]. f_equal.
    unfold new_refs. rewrite map_map. apply map_ext_in. intros r Hin.
    destruct Hd as [Hfb Hh Hhs Hcl Hul Hlen Hdec Hwf Hst Horig Hrefs]. rewrite Forall_forall in Hrefs.
    assert (Hhl : zlen (heap_of f h) = zlen f - 28 - xh_clen h) by (unfold heap_of; rewrite zlen_zdrop by lia; lia).
    apply moved_ref_bytes; try lia.
    - now apply sig_area_len.
    - pose proof (plan_total_nonneg P HP). lia.
    - rewrite Hhl. now apply Hrefs.
  Qed.

  Lemma zslice_mid {A} (a b c : list A) : zslice (zlen a) (zlen a + zlen b) (a ++ b ++ c) = b.
  Proof.
    pose proof (zlen_nonneg a). pose proof (zlen_nonneg b).
    rewrite zslice_app_r by lia. replace (zlen a - zlen a) with 0 by lia. replace (zlen a + zlen b - zlen a) with (zlen b) by lia. apply zslice_head.
  Qed.
  Lemma zlen0_nil {A} (l : list A) : zlen l = 0 -> l = [].
  Proof. destruct l; [reflexivity|]. rewrite zlen_cons. pose proof (zlen_nonneg l). lia. Qed.
  Lemma go_readat_mid (a b c : bytes) : go_readat (a ++ b ++ c) (zlen a) (zlen b) = Ok b.
  Proof.
    pose proof (zlen_nonneg a). pose proof (zlen_nonneg b). pose proof (zlen_nonneg c). unfold go_readat. replace (zlen a <? 0) with false by lia.
    destruct (zlen b =? 0) eqn:E0; [f_equal; symmetry; apply zlen0_nil; lia|].
    rewrite !zlen_app. replace (zlen a + (zlen b + zlen c) <? zlen a + zlen b) with false by lia. now rewrite zslice_mid.
  Qed.
  Lemma go_make_ok size n : 0 <= n <= size -> go_make size n = Ok tt.
  Proof. intros H. unfold go_make, alloc_limit. replace (n <? 0) with false by lia. replace (64 * size + 1048576 <? n) with false by lia. reflexivity. Qed.
  Lemma last_offset_ge rs : forall cur, cur <= last_offset rs cur.
  Proof.
    induction rs as [|r rs IH]; intros cur; cbn [last_offset]; [lia|].
    unfold xar_last_takes_file, xar_last_file_end. destruct ((fr_kind r =? 0) && (fr_off r + fr_len r >? cur)) eqn:E; [|apply IH].
    specialize (IH (fr_off r + fr_len r)). lia.
  Qed.

  Definition cms_slot (P : sparams) (cms : bytes) : bytes :=
    cms ++ zeros (plan_total P - (hash_size (sp_hash P) + (if sp_rsa P then sp_classic P else 0) + zlen cms)).

  (* C01: what relic's Open finds in a file of the signed shape *)
  Lemma open_layout P t en cms tail : good (new_toc P t) -> params_ok P -> assoc_z (sp_hash P) xar_enum_of_hash = Some en -> t_strict t = true ->
    hash_size (sp_hash P) + (if sp_rsa P then sp_classic P else 0) + zlen cms <= plan_total P ->
    let nt := new_toc P t in
    let ck := Hf (sp_hash P) (enc nt) in
    exists notary last,
      xar_open (xar_marshal_header (new_hdr P t en) ++ enc nt ++ sig_area P t cms ++ tail)
      = Ok (mkXO (sp_hash P) (enc nt) nt (28 + zlen (enc nt)) (if sp_rsa P then Some (csig ck) else None) (Some (cms_slot P cms)) notary last).
  Proof.
    intros Hg HP Hen Hst Hle nt ck. destruct (enum_of_hash P HP) as (en' & Hen' & Hback & Hr & _). rewrite Hen in Hen'. injection Hen' as <-.
    pose proof (new_hdr_ok P t en Hg Hr) as Hok. pose proof (marshal_header_zlen _ Hok) as Hl.
    pose proof (plan_total_nonneg P HP) as [Htot Hhs]. destruct HP as (Hhash & Hc0 & Hs0 & Hn0 & Hcs).
    set (hdr := xar_marshal_header (new_hdr P t en)) in *. set (z := enc nt).
    set (classic := if sp_rsa P then csig ck else []).
    assert (Hcl2 : zlen classic = if sp_rsa P then sp_classic P else 0).
    { unfold classic. destruct (sp_rsa P) eqn:Er; [now apply Hcs|reflexivity]. }
    assert (Hckl : zlen ck = hash_size (sp_hash P)) by apply Hf_len.
    assert (Harea : sig_area P t cms = ck ++ classic ++ cms_slot P cms).
    { unfold sig_area, cms_slot. fold nt. fold ck. fold classic. rewrite Hckl, Hcl2. reflexivity. }
    assert (Hcsl : zlen (cms_slot P cms) = 6144 + sp_certsum P).
    { unfold cms_slot. rewrite zlen_app, zeros_len by lia. unfold plan_total. lia. }
    set (g := hdr ++ z ++ sig_area P t cms ++ tail).
    assert (Hgl : zlen g = 28 + zlen z + plan_total P + zlen tail).
    { unfold g. rewrite !zlen_app, Hl, (sig_area_len P t cms) by (try assumption; repeat split; assumption). lia. }
    pose proof (zlen_nonneg z) as Hz0. pose proof (zlen_nonneg tail) as Ht0. pose proof (zlen_nonneg cms) as Hc00.
    unfold Model.xar_open. unfold xar_open_header_len. rewrite parse_header_prefix.
    unfold g at 1. unfold hdr at 1. rewrite (header_roundtrip (new_hdr P t en) _ (sp_hash P)); try assumption; try reflexivity.
    cbn [bind]. fold g. unfold xar_open_toc_off, xar_open_toc_len. cbn [new_hdr xh_hsize xh_clen]. fold nt. fold z.
    replace ((zlen z <? 0) || (zlen g <? 28 + zlen z)) with false by lia.
    assert (Hzs : zslice 28 (28 + zlen z) g = z).
    { unfold g. rewrite <- Hl. apply zslice_mid. }
    rewrite Hzs. unfold z at 1. unfold nt at 1. rewrite dec_enc by assumption. fold nt. fold z. unfold nt at 1. cbn [new_toc t_strict]. rewrite Hst. cbn [negb].
    unfold xar_open_heap_after_toc. cbn [xh_clen new_hdr]. fold nt. fold z.
    (* checksum *)
    assert (Hfck : find_slot K_CHECKSUM nt = Some (mkSlot K_CHECKSUM 0 true (hash_size (sp_hash P)) 0)).
    { unfold find_slot, nt, new_toc, plan_slots. cbn [t_slots]. destruct (sp_rsa P); reflexivity. }
    rewrite Hfck. cbn [sl_size sl_off]. unfold xar_open_bad_cksize. replace (negb (hash_size (sp_hash P) =? hash_size (sp_hash P))) with false by lia.
    unfold xar_open_ck_alloc, xar_open_ck_at. rewrite go_make_ok by lia. cbn [bind].
    assert (Hg1 : g = (hdr ++ z) ++ ck ++ (classic ++ cms_slot P cms ++ tail)).
    { unfold g. rewrite Harea. now rewrite <- !app_assoc. }
    assert (Hr1 : go_readat g (28 + zlen z + 0) (hash_size (sp_hash P)) = Ok ck).
    { rewrite Hg1 at 1. replace (28 + zlen z + 0) with (zlen (hdr ++ z)) by (rewrite zlen_app, Hl; lia). rewrite <- Hckl. apply go_readat_mid. }
    rewrite Hr1. fold ck. rewrite bytes_eqb_refl. cbn [negb].
    (* classic signature and CMS slot *)
    assert (Hg2 : g = (hdr ++ z ++ ck) ++ classic ++ (cms_slot P cms ++ tail)).
    { unfold g. rewrite Harea. now rewrite <- !app_assoc. }
    assert (Hg3 : g = (hdr ++ z ++ ck ++ classic) ++ cms_slot P cms ++ tail).
    { unfold g. rewrite Harea. now rewrite <- !app_assoc. }
    assert (Hlast0 : 0 <= last_offset (t_refs nt) 0) by apply last_offset_ge.
    set (last := last_offset (t_refs nt) 0) in *.
    assert (Htrail : forall classic_o cms_o,
      exists notary,
      (let lo := xar_open_lo last (28 + zlen z) in
       let trailer := xar_open_trailer (zlen g) lo in
       if xar_open_has_trailer trailer
       then _ <- go_make (zlen g) (xar_open_trailer_alloc trailer) ;;
            ticket <- go_readat g (xar_open_trailer_at lo) (xar_open_trailer_alloc trailer) ;;
            Ok (mkXO (sp_hash P) z nt (28 + zlen z) classic_o cms_o ticket last)
       else Ok (mkXO (sp_hash P) z nt (28 + zlen z) classic_o cms_o [] last))
      = Ok (mkXO (sp_hash P) z nt (28 + zlen z) classic_o cms_o notary last)).
    { intros co xo. cbn zeta. unfold xar_open_lo, xar_open_trailer, xar_open_has_trailer, xar_open_trailer_alloc, xar_open_trailer_at.
      destruct ((zlen g - (last + (28 + zlen z)) >? 0) && (zlen g - (last + (28 + zlen z)) <? 1000000)) eqn:Et.
      - unfold go_make, alloc_limit. replace (zlen g - (last + (28 + zlen z)) <? 0) with false by lia.
        replace (64 * zlen g + 1048576 <? zlen g - (last + (28 + zlen z))) with false by lia. cbn [bind].
        unfold go_readat. replace (last + (28 + zlen z) <? 0) with false by lia. replace (zlen g - (last + (28 + zlen z)) =? 0) with false by lia.
        replace (zlen g <? last + (28 + zlen z) + (zlen g - (last + (28 + zlen z)))) with false by lia. cbn [bind]. eexists. reflexivity.
      - eexists. reflexivity. }
    assert (Hpt : plan_total P = hash_size (sp_hash P) + (if sp_rsa P then sp_classic P else 0) + (6144 + sp_certsum P)) by reflexivity.
    destruct (sp_rsa P) eqn:Er.
    - assert (Hfs : find_slot K_SIGNATURE nt = Some (mkSlot K_SIGNATURE (hash_size (sp_hash P)) true (sp_classic P) (sp_ncerts P))).
      { unfold find_slot, nt, new_toc, plan_slots. cbn [t_slots]. rewrite Er. reflexivity. }
      assert (Hfx : find_slot K_XSIGNATURE nt = Some (mkSlot K_XSIGNATURE (hash_size (sp_hash P) + sp_classic P) true (6144 + sp_certsum P) (sp_ncerts P))).
      { unfold find_slot, nt, new_toc, plan_slots. cbn [t_slots]. rewrite Er. reflexivity. }
      rewrite Hfs, Hfx.
      unfold xar_open_slot_guard_covers, xar_open_slot_guard, K_SIGNATURE, K_XSIGNATURE. cbn [existsb Z.eqb Pos.eqb orb andb sl_size sl_off].
      match goal with |- context [if ?c then Err E_TOOBIG else _] => replace c with false by lia end.
      cbn [read_slot sl_size sl_off sl_ncerts]. unfold xar_open_sig_guard, xar_open_xsig_guard, xar_open_sig_alloc, xar_open_sig_at, xar_open_xsig_alloc, xar_open_xsig_at.
      rewrite go_make_ok by lia. cbn [bind].
      assert (Hr2 : go_readat g (28 + zlen z + hash_size (sp_hash P)) (sp_classic P) = Ok classic).
      { rewrite Hg2 at 1. replace (28 + zlen z + hash_size (sp_hash P)) with (zlen (hdr ++ z ++ ck)) by (rewrite !zlen_app, Hl, Hckl; lia).
        rewrite <- Hcl2. apply go_readat_mid. }
      rewrite Hr2. cbn [bind]. replace (sp_ncerts P =? 0) with false by lia.
      rewrite go_make_ok by lia. cbn [bind].
      assert (Hr3 : go_readat g (28 + zlen z + (hash_size (sp_hash P) + sp_classic P)) (6144 + sp_certsum P) = Ok (cms_slot P cms)).
      { rewrite Hg3 at 1. replace (28 + zlen z + (hash_size (sp_hash P) + sp_classic P)) with (zlen (hdr ++ z ++ ck ++ classic)) by (rewrite !zlen_app, Hl, Hckl, Hcl2; lia).
        rewrite <- Hcsl. apply go_readat_mid. }
      rewrite Hr3. cbn [bind]. destruct (Htrail (Some classic) (Some (cms_slot P cms))) as [notary Hn]. exists notary, last. exact Hn.
    - assert (Hfs : find_slot K_SIGNATURE nt = None).
      { unfold find_slot, nt, new_toc, plan_slots. cbn [t_slots]. rewrite Er. reflexivity. }
      assert (Hfx : find_slot K_XSIGNATURE nt = Some (mkSlot K_XSIGNATURE (hash_size (sp_hash P)) true (6144 + sp_certsum P) (sp_ncerts P))).
      { unfold find_slot, nt, new_toc, plan_slots. cbn [t_slots]. rewrite Er. reflexivity. }
      rewrite Hfs, Hfx.
      unfold xar_open_slot_guard_covers, xar_open_slot_guard, K_SIGNATURE, K_XSIGNATURE. cbn [existsb Z.eqb Pos.eqb orb andb sl_size sl_off].
      match goal with |- context [if ?c then Err E_TOOBIG else _] => replace c with false by lia end.
      cbn [read_slot sl_size sl_off sl_ncerts bind]. unfold xar_open_xsig_guard, xar_open_xsig_alloc, xar_open_xsig_at.
      rewrite go_make_ok by lia. cbn [bind].
      assert (Hr3 : go_readat g (28 + zlen z + hash_size (sp_hash P)) (6144 + sp_certsum P) = Ok (cms_slot P cms)).
      { rewrite Hg3 at 1. replace (28 + zlen z + hash_size (sp_hash P)) with (zlen (hdr ++ z ++ ck ++ classic)) by (rewrite !zlen_app, Hl, Hckl, Hcl2; lia).
        rewrite <- Hcsl. apply go_readat_mid. }
      rewrite Hr3. cbn [bind]. destruct (Htrail None (Some (cms_slot P cms))) as [notary Hn]. exists notary, last. exact Hn.
  Qed.

  (* the file a successful signing produces, in one piece *)
  Lemma embed_file P f h hid t cms g : params_ok P -> xar_dom f h hid t -> xar_embed P f cms = Ok g ->
    exists en, assoc_z (sp_hash P) xar_enum_of_hash = Some en /\
      hash_size (sp_hash P) + (if sp_rsa P then sp_classic P else 0) + zlen cms <= plan_total P /\
      xar_check_files_sign Hf (heap_of f h) (mkToc (plan_slots P) (t_refs t) (t_strict t)) = Ok tt /\
      g = xar_marshal_header (new_hdr P t en) ++ enc (new_toc P t) ++ sig_area P t cms ++ zdrop (toc_orig t) (heap_of f h).
  Proof.
    intros HP Hd He. unfold Model.xar_embed in He. destruct (xar_sign P f cms) as [s| |] eqn:Hs; cbn [bind] in He; try discriminate.
    apply Ok_inj in He. subst g. destruct (sign_inv P f h hid t cms s HP Hd Hs) as (en & Hen & Hck & Hle & Ho & Hn & Ht & Hb & Hpo & Hpl & Hfile).
    exists en. split; [assumption|]. split; [assumption|]. split; [assumption|]. rewrite Hfile, Hb. now rewrite <- !app_assoc.
  Qed.

  (* C01: law_extract on the domain: Open finds the CMS slot, i.e. the blob followed by the zero padding of the reserved space *)
  Lemma xar_law_extract_dom P f h hid t cms g : good (new_toc P t) -> params_ok P -> xar_dom f h hid t -> xar_embed P f cms = Ok g ->
    xar_extract g = Ok (Some (cms_slot P cms)).
  Proof.
    intros Hgood HP Hd He. destruct (embed_file P f h hid t cms g HP Hd He) as (en & Hen & Hle & Hck & Hg). subst g.
    destruct (open_layout P t en cms (zdrop (toc_orig t) (heap_of f h)) Hgood HP Hen (xd_strict _ _ _ _ Hd) Hle) as (notary & last & Ho).
    unfold Model.xar_extract. rewrite Ho. reflexivity.
  Qed.

  (* C03 / C01: the heap of the signed archive as a reader following the rewritten table of contents finds it:
     - the table of contents declares exactly the planned slots: checksum at heap offset 0 with the digest size, the classic signature
       behind it (RSA leaf only), then the CMS slot; together they fill [0, total) without gap or overlap;
     - the checksum slot holds the digest of the compressed table of contents as emitted, the classic slot the RSA signature over that
       digest, the CMS slot the blob and zero padding;
     - every file reference was moved by total - (old signature area) and names the same bytes as before. *)
  Lemma xar_heap_layout P f h hid t cms g : good (new_toc P t) -> params_ok P -> xar_dom f h hid t -> xar_embed P f cms = Ok g ->
    exists hdr' z' heap',
      spec_xar_split g = Some (hdr', z', heap') /\ dec z' = Some (new_toc P t) /\ t_slots (new_toc P t) = plan_slots P /\
      xh_hsize hdr' = 28 /\ xh_clen hdr' = zlen z' /\ spec_cksum_hash (xh_htype hdr') = Some (sp_hash P) /\
      (let hs := hash_size (sp_hash P) in let ck := Hf (sp_hash P) z' in
       spec_slot_bytes heap' (mkSlot K_CHECKSUM 0 true hs 0) = Some ck /\
       (sp_rsa P = true -> spec_slot_bytes heap' (mkSlot K_SIGNATURE hs true (sp_classic P) (sp_ncerts P)) = Some (csig ck)) /\
       spec_slot_bytes heap' (mkSlot K_XSIGNATURE (hs + (if sp_rsa P then sp_classic P else 0)) true (6144 + sp_certsum P) (sp_ncerts P)) = Some (cms_slot P cms)) /\
      Forall (fun r' => is_data_kind (fr_kind r') = true -> plan_total P <= fr_off r') (t_refs (new_toc P t)) /\
      map (spec_ref_bytes heap') (t_refs (new_toc P t)) = map (spec_ref_bytes (heap_of f h)) (t_refs t).
  Proof.
    intros Hgood HP Hd He. destruct (embed_file P f h hid t cms g HP Hd He) as (en & Hen & Hle & Hck & Hg). subst g.
    destruct (enum_of_hash P HP) as (en' & Hen' & Hback & Hr & Hspec). rewrite Hen in Hen'. injection Hen' as <-.
    pose proof (plan_total_nonneg P HP) as [Htot Hhs].
    exists (new_hdr P t en), (enc (new_toc P t)), (sig_area P t cms ++ zdrop (toc_orig t) (heap_of f h)).
    split; [now apply signed_split|]. split; [now apply dec_enc|]. split; [reflexivity|]. split; [reflexivity|]. split; [reflexivity|].
    split; [exact Hspec|].
    pose proof HP as (Hhash & Hc0 & Hs0 & Hn0 & Hcs).
    set (ck := Hf (sp_hash P) (enc (new_toc P t))). set (classic := if sp_rsa P then csig ck else []).
    assert (Hcl2 : zlen classic = if sp_rsa P then sp_classic P else 0).
    { unfold classic. destruct (sp_rsa P) eqn:Er; [now apply Hcs|reflexivity]. }
    assert (Hckl : zlen ck = hash_size (sp_hash P)) by apply Hf_len.
    assert (Harea : sig_area P t cms = ck ++ classic ++ cms_slot P cms).
    { unfold sig_area, cms_slot. fold ck. fold classic. rewrite Hckl, Hcl2. reflexivity. }
    assert (Hcsl : zlen (cms_slot P cms) = 6144 + sp_certsum P).
    { unfold cms_slot. rewrite zlen_app, zeros_len by lia. unfold plan_total. lia. }
    set (tail := zdrop (toc_orig t) (heap_of f h)). pose proof (zlen_nonneg tail) as Ht0.
    assert (Hslot : forall (a b c : bytes) k nc, sig_area P t cms ++ tail = a ++ b ++ c ->
              spec_slot_bytes (sig_area P t cms ++ tail) (mkSlot k (zlen a) true (zlen b) nc) = Some b).
    { intros a b c k nc E. unfold spec_slot_bytes. cbn [sl_off sl_size]. rewrite E. pose proof (zlen_nonneg a). pose proof (zlen_nonneg b). pose proof (zlen_nonneg c).
      rewrite !zlen_app. replace ((zlen a <? 0) || (zlen b <? 0) || (zlen a + (zlen b + zlen c) <? zlen a + zlen b)) with false by lia. now rewrite zslice_mid. }
    split.
    { cbn zeta. fold ck. split; [|split].
      - rewrite <- Hckl. apply (Hslot [] ck (classic ++ cms_slot P cms ++ tail)). rewrite Harea. now rewrite <- !app_assoc.
      - intros Er. rewrite <- Hckl. replace (sp_classic P) with (zlen classic) by (rewrite Hcl2, Er; reflexivity).
        replace (csig ck) with classic by (unfold classic; now rewrite Er).
        replace (zlen ck) with (zlen ([] ++ ck)) by reflexivity. apply (Hslot ([] ++ ck) classic (cms_slot P cms ++ tail)). rewrite Harea. now rewrite <- !app_assoc.
      - rewrite <- Hcsl. replace (hash_size (sp_hash P) + (if sp_rsa P then sp_classic P else 0)) with (zlen (ck ++ classic)) by (rewrite zlen_app, Hckl, Hcl2; reflexivity).
        apply (Hslot (ck ++ classic) (cms_slot P cms) tail). rewrite Harea. now rewrite <- !app_assoc. }
    destruct Hd as [Hfb Hh Hhsz Hcl Hul Hlen Hdec Hwf Hst Horig Hrefs].
    assert (Hhl : zlen (heap_of f h) = zlen f - 28 - xh_clen h) by (unfold heap_of; rewrite zlen_zdrop by lia; lia).
    split.
    { cbn [new_toc t_refs]. unfold new_refs. rewrite Forall_map. eapply Forall_impl; [|exact Hrefs]. intros r (Hk & Hok & Hoff & _) _.
      unfold xar_adjust_ref, xar_adjust_skips_unparsable, xar_adjust_adds_delta. rewrite Hk, Hok. cbn [andb orb fr_off]. lia. }
    cbn [new_toc t_refs]. unfold new_refs. rewrite map_map. apply map_ext_in. intros r Hin. rewrite Forall_forall in Hrefs.
    apply moved_ref_bytes; try lia; [now apply sig_area_len|rewrite Hhl; now apply Hrefs].
  Qed.

  (* C01 / C02: the checksum relic writes is the digest of exactly the compressed table of contents it emits (the bytes a
     specification reader takes for the table of contents), Open recomputes it over the same bytes, the classic signature and the CMS
     content are that digest *)
  Lemma xar_toc_checksum_covers_toc P f h hid t cms g : good (new_toc P t) -> params_ok P -> xar_dom f h hid t -> xar_embed P f cms = Ok g ->
    exists z', spec_xar_ztoc g = Ok z' /\ z' = enc (new_toc P t) /\
      (exists o, xar_open g = Ok o /\ xo_tochash_pre o = z' /\ xo_hash o = sp_hash P /\
                 xo_classic o = (if sp_rsa P then Some (csig (Hf (sp_hash P) z')) else None)) /\
      zslice (28 + zlen z') (28 + zlen z' + hash_size (sp_hash P)) g = Hf (sp_hash P) z' /\
      xar_checksum_covers = 1 (* d.Write(ztoc) *) /\
      xar_classic_signs = 2 /\ xar_cms_content = 2 (* both sign ztocHash *) /\ xar_verify_cms_content = 0 /\ xar_verify_classic_content = 0 (* x.TOCHash *).
  Proof.
    intros Hgood HP Hd He. destruct (embed_file P f h hid t cms g HP Hd He) as (en & Hen & Hle & Hck & Hg). subst g.
    exists (enc (new_toc P t)). split.
    { unfold spec_xar_ztoc. now rewrite signed_split. }
    split; [reflexivity|]. split.
    { destruct (open_layout P t en cms (zdrop (toc_orig t) (heap_of f h)) Hgood HP Hen (xd_strict _ _ _ _ Hd) Hle) as (notary & last & Ho).
      eexists. split; [exact Ho|]. cbn [xo_tochash_pre xo_hash xo_classic]. repeat split. }
    split; [|repeat split; reflexivity].
    destruct (enum_of_hash P HP) as (en' & Hen' & Hback & Hr & _). rewrite Hen in Hen'. injection Hen' as <-.
    pose proof (marshal_header_zlen _ (new_hdr_ok P t en Hgood Hr)) as Hl.
    pose proof HP as (Hhash & Hc0 & Hs0 & Hn0 & Hcs).
    set (ck := Hf (sp_hash P) (enc (new_toc P t))).
    assert (Hckl : zlen ck = hash_size (sp_hash P)) by apply Hf_len.
    unfold sig_area. cbn zeta. fold ck. rewrite <- !app_assoc.
    replace (28 + zlen (enc (new_toc P t))) with (zlen (xar_marshal_header (new_hdr P t en) ++ enc (new_toc P t))) by (rewrite zlen_app, Hl; reflexivity).
    rewrite <- Hckl. rewrite app_assoc. apply zslice_mid.
  Qed.

  (* ---- the member checks *)
  Lemma In_insert_ref r x l : In r (insert_ref x l) <-> r = x \/ In r l.
  Proof.
    induction l as [|y l IH]; cbn [insert_ref In].
    - intuition (subst; auto).
    - destruct (fr_off x <=? fr_off y); cbn [In]; [intuition (subst; auto)|]. rewrite IH. intuition (subst; auto).
  Qed.
  Lemma In_sort_refs r l : In r (sort_refs l) <-> In r l.
  Proof.
    unfold sort_refs. induction l as [|y l IH]; cbn [fold_right In]; [tauto|]. rewrite In_insert_ref, IH. intuition (subst; auto).
  Qed.

  (* what a member check establishes about one reference *)
  Definition member_ok (heap : bytes) (r : fref) : Prop :=
    exists hid, style_hash (fr_ck r) = Some hid /\ fr_hex_ok r = true /\ 0 <= fr_len r /\
      (0 < fr_len r -> 0 <= fr_off r /\ fr_off r + fr_len r <= zlen heap /\ file_digest_ok Hf hid (zslice (fr_off r) (fr_off r + fr_len r) heap) r = true).
  Lemma stream_check_members heap rs : forall pos, 0 <= pos -> stream_check Hf heap pos rs = Ok tt -> Forall (member_ok heap) rs.
  Proof.
    induction rs as [|r rs IH]; intros pos Hpos H; [constructor|]. cbn [stream_check] in H.
    destruct (style_hash (fr_ck r)) as [hid|] eqn:Es; [|discriminate]. destruct (fr_hex_ok r) eqn:Eh; cbn [negb] in H; [|discriminate].
    destruct (fr_len r <? 0) eqn:El; [discriminate|]. destruct (fr_len r =? 0) eqn:E0.
    - unfold xar_file_short in H. replace (negb (0 =? fr_len r)) with false in H by lia.
      destruct (file_digest_ok Hf hid [] r) eqn:Ed; [|discriminate]. constructor; [|eapply IH; eassumption].
      exists hid. repeat split; try assumption; lia.
    - unfold xar_stream_skips, xar_stream_backwards, xar_stream_skip_len in H.
      assert (Hgen : forall b, (if zlen heap <? fr_off r + fr_len r then Err E_EOF
                                 else if file_digest_ok Hf hid (zslice (fr_off r) (fr_off r + fr_len r) heap) r then stream_check Hf heap (fr_off r + fr_len r) rs else Err E_MISMATCH) = Ok tt ->
                           pos <= fr_off r -> b = true -> Forall (member_ok heap) (r :: rs)).
      { intros _ Hx Hle _. destruct (zlen heap <? fr_off r + fr_len r) eqn:Ee; [discriminate|].
        destruct (file_digest_ok Hf hid _ r) eqn:Ed; [|discriminate]. constructor; [|eapply IH; [|exact Hx]; lia].
        exists hid. repeat split; try assumption; lia. }
      destruct (fr_off r >? pos) eqn:Eg.
      + destruct (zlen heap <? pos + (fr_off r - pos)); [discriminate|]. apply (Hgen true H); [lia|reflexivity].
      + destruct (fr_off r <? pos) eqn:Eb; [discriminate|]. apply (Hgen true H); [lia|reflexivity].
  Qed.
  Lemma verify_files_all heap rs : Forall (fun r => verify_file Hf heap r = Ok tt) rs -> verify_files Hf heap rs = Ok tt.
  Proof. induction 1 as [|r rs Hr _ IH]; [reflexivity|]. cbn [verify_files]. rewrite Hr. cbn [bind]. exact IH. Qed.

  (* the class in which relic's own verifier checks nothing the signer has not checked: every file the verifier selects
     (data directly in a <file>, all enclosing files without data, length not zero) carries an archived checksum *)
  Definition verify_covered (t : xtoc) : Prop := Forall (fun r => verify_checks r = true -> sign_checks r = true) (t_refs t).

  Lemma adjust_keeps d r : fr_kind (xar_adjust_ref d r) = fr_kind r /\ fr_len (xar_adjust_ref d r) = fr_len r /\ fr_ck (xar_adjust_ref d r) = fr_ck r /\
    fr_hex_ok (xar_adjust_ref d r) = fr_hex_ok r /\ fr_digest (xar_adjust_ref d r) = fr_digest r /\ fr_reach (xar_adjust_ref d r) = fr_reach r /\ fr_off_ok (xar_adjust_ref d r) = fr_off_ok r.
  Proof. unfold xar_adjust_ref. destruct (_ && _); cbn; repeat split. Qed.

  (* C01: relic's own verifier accepts the structure of what Sign wrote: Open succeeds, the CMS route is taken over the digest of the
     stored table of contents, every member check passes *)
  Lemma xar_sign_then_verify_struct P f h hid t cms g : good (new_toc P t) -> params_ok P -> xar_dom f h hid t -> verify_covered t -> xar_embed P f cms = Ok g ->
    xar_verify_struct Hf dec g false = Ok (2, cms_slot P cms, Hf (sp_hash P) (enc (new_toc P t))).
  Proof.
    intros Hgood HP Hd Hcov He. destruct (embed_file P f h hid t cms g HP Hd He) as (en & Hen & Hle & Hck & Hg). subst g.
    destruct (open_layout P t en cms (zdrop (toc_orig t) (heap_of f h)) Hgood HP Hen (xd_strict _ _ _ _ Hd) Hle) as (notary & last & Ho).
    unfold xar_verify_struct. rewrite Ho. cbn [bind xo_hash xo_tochash_pre xo_cms xo_classic xo_base xo_toc].
    unfold xar_verify_route, xar_verify_chain. cbn [xo_cms]. cbn [Z.eqb Pos.eqb]. unfold xar_verify_checks_files. cbn [negb].
    destruct (enum_of_hash P HP) as (en' & Hen' & Hback & Hr & _). rewrite Hen in Hen'. injection Hen' as <-.
    pose proof (marshal_header_zlen _ (new_hdr_ok P t en Hgood Hr)) as Hl.
    assert (Hheap : zdrop (28 + zlen (enc (new_toc P t))) (xar_marshal_header (new_hdr P t en) ++ enc (new_toc P t) ++ sig_area P t cms ++ zdrop (toc_orig t) (heap_of f h))
                    = sig_area P t cms ++ zdrop (toc_orig t) (heap_of f h)).
    { rewrite app_assoc. rewrite zdrop_app_r by (rewrite zlen_app, Hl; lia). rewrite zlen_app, Hl.
      replace (28 + zlen (enc (new_toc P t)) - (28 + zlen (enc (new_toc P t)))) with 0 by lia. apply zdrop_0. }
    rewrite Hheap.
    assert (Hvf : verify_files Hf (sig_area P t cms ++ zdrop (toc_orig t) (heap_of f h)) (sort_refs (filter verify_checks (t_refs (new_toc P t)))) = Ok tt).
    { apply verify_files_all. rewrite Forall_forall. intros r' Hin. rewrite In_sort_refs, filter_In in Hin. destruct Hin as [Hin Hvc].
      cbn [new_toc t_refs] in Hin. unfold new_refs in Hin. rewrite in_map_iff in Hin. destruct Hin as (r & <- & Hin).
      destruct (adjust_keeps (plan_total P - toc_orig t) r) as (Ak & Al & Ac & Ah & Ad & Ar & Ao).
      assert (Hvr : verify_checks r = true) by (unfold verify_checks in *; now rewrite Ak, Al, Ar in Hvc).
      unfold verify_covered in Hcov. rewrite Forall_forall in Hcov. pose proof (Hcov r Hin Hvr) as Hsc.
      assert (Hmem : member_ok (heap_of f h) r).
      { unfold xar_check_files_sign in Hck. cbn [t_refs] in Hck. pose proof (stream_check_members _ _ 0 ltac:(lia) Hck) as Hall.
        rewrite Forall_forall in Hall. apply Hall. rewrite In_sort_refs, filter_In. auto. }
      destruct Hmem as (hidr & Hs & Hhex & Hl0 & Hpos).
      assert (Hlen : 0 < fr_len r). { unfold verify_checks, xar_gather_takes in Hvr. lia. }
      destruct (Hpos Hlen) as (Hoff0 & Hend & Hdig).
      pose proof Hd as [Hfb Hh Hhsz Hcl Hul Hlenf Hdec Hwf Hst Horig Hrefs]. rewrite Forall_forall in Hrefs. pose proof (Hrefs r Hin) as Hrok.
      assert (Hhl : zlen (heap_of f h) = zlen f - 28 - xh_clen h) by (unfold heap_of; rewrite zlen_zdrop by lia; lia).
      pose proof (plan_total_nonneg P HP) as [Htot _].
      pose proof (moved_ref_bytes (heap_of f h) (sig_area P t cms) (toc_orig t) (plan_total P) r ltac:(lia) (sig_area_len P t cms HP Hle) ltac:(lia) ltac:(rewrite Hhl; exact Hrok)) as Hmv.
      destruct Hrok as (Hk & Hok & Hoff & Hlen0 & Hend2).
      unfold verify_file. rewrite Ac, Hs, Ah, Hhex, Al. cbn [negb].
      unfold spec_ref_bytes in Hmv. rewrite Ao, Hok, Al in Hmv. cbn [negb orb] in Hmv.
      replace ((fr_off r <? 0) || (fr_len r <? 0) || (zlen (heap_of f h) <? fr_off r + fr_len r)) with false in Hmv by lia.
      destruct ((fr_off (xar_adjust_ref (plan_total P - toc_orig t) r) <? 0) || (fr_len r <? 0)
                || (zlen (sig_area P t cms ++ zdrop (toc_orig t) (heap_of f h)) <? fr_off (xar_adjust_ref (plan_total P - toc_orig t) r) + fr_len r)) eqn:Eb; [discriminate|].
      injection Hmv as Hmv.
      replace ((fr_len r <? 0) || (fr_off (xar_adjust_ref (plan_total P - toc_orig t) r) <? 0)
               || (zlen (sig_area P t cms ++ zdrop (toc_orig t) (heap_of f h)) <? fr_off (xar_adjust_ref (plan_total P - toc_orig t) r) + fr_len r)) with false by lia.
      rewrite Hmv. unfold file_digest_ok in *. rewrite Ad. now rewrite Hdig. }
    rewrite Hvf. cbn [bind]. reflexivity.
  Qed.

  (* ---- signing again: the signed archive is in the domain, with the slots just written as its signature area *)
  Lemma all_bytes_zeros n : all_bytes (zeros n) = true.
  Proof. unfold zeros. induction (Z.to_nat n) as [|k IH]; [reflexivity|]. cbn [repeat all_bytes forallb]. unfold all_bytes in IH. now rewrite IH. Qed.

  Lemma xar_dom_preserved P f h hid t cms g : good (new_toc P t) -> params_ok P -> xar_dom f h hid t -> all_bytes cms = true -> xar_embed P f cms = Ok g ->
    exists h', xar_dom g h' (sp_hash P) (new_toc P t) /\ toc_orig (new_toc P t) = plan_total P /\
      heap_of g h' = sig_area P t cms ++ zdrop (toc_orig t) (heap_of f h).
  Proof.
    intros Hgood HP Hd Hcb He. destruct (embed_file P f h hid t cms g HP Hd He) as (en & Hen & Hle & Hck & Hg). subst g.
    destruct (enum_of_hash P HP) as (en' & Hen' & Hback & Hr & _). rewrite Hen in Hen'. injection Hen' as <-.
    pose proof (new_hdr_ok P t en Hgood Hr) as Hok. pose proof (marshal_header_zlen _ Hok) as Hl.
    pose proof (plan_total_nonneg P HP) as [Htot Hhs].
    pose proof Hd as [Hfb Hh Hhsz Hcl Hul Hlen Hdec Hwf Hst Horig Hrefs].
    assert (Hhl : zlen (heap_of f h) = zlen f - 28 - xh_clen h) by (unfold heap_of; rewrite zlen_zdrop by lia; lia).
    set (tail := zdrop (toc_orig t) (heap_of f h)). assert (Htl : zlen tail = zlen (heap_of f h) - toc_orig t) by (unfold tail; rewrite zlen_zdrop by lia; lia).
    set (z := enc (new_toc P t)). pose proof (zlen_nonneg z) as Hz0. pose proof (enc_small (new_toc P t) Hgood) as Hzs. fold z in Hzs.
    pose proof (sig_area_len P t cms HP Hle) as Hal.
    set (g := xar_marshal_header (new_hdr P t en) ++ z ++ sig_area P t cms ++ tail).
    assert (Hgl : zlen g = 28 + zlen z + plan_total P + zlen tail) by (unfold g; rewrite !zlen_app, Hl, Hal; lia).
    assert (Hheap : zdrop (28 + zlen z) g = sig_area P t cms ++ tail).
    { unfold g. rewrite app_assoc. rewrite zdrop_app_r by (rewrite zlen_app, Hl; lia). rewrite zlen_app, Hl.
      replace (28 + zlen z - (28 + zlen z)) with 0 by lia. apply zdrop_0. }
    exists (new_hdr P t en). split; [|split].
    - constructor.
      + unfold g. rewrite !all_bytes_app. unfold xar_marshal_header. rewrite enc_fields_bytes. unfold z. rewrite enc_bytes by assumption.
        assert (Htb : all_bytes tail = true) by (unfold tail, heap_of; now apply all_bytes_zdrop, all_bytes_zdrop).
        unfold sig_area. cbn zeta. rewrite !all_bytes_app, Hf_bytes, Hcb, all_bytes_zeros, Htb. destruct (sp_rsa P); [rewrite csig_bytes|]; reflexivity.
      + unfold g. apply header_roundtrip; try assumption; reflexivity.
      + reflexivity.
      + cbn [new_hdr xh_clen]. fold z. lia.
      + cbn [new_hdr xh_ulen]. now apply usize_ok.
      + cbn [new_hdr xh_clen]. fold z. lia.
      + cbn [new_hdr xh_clen]. fold z. assert (Hzs2 : zslice 28 (28 + zlen z) g = z) by (unfold g; rewrite <- Hl; apply zslice_mid).
        rewrite Hzs2. unfold z. now apply dec_enc.
      + unfold toc_wf. cbn [new_toc t_slots]. apply plan_slots_wf.
      + cbn [new_toc t_strict]. exact Hst.
      + unfold toc_orig. cbn [new_toc t_slots]. rewrite plan_slots_sum. cbn [new_hdr xh_clen]. fold z. lia.
      + unfold toc_orig. cbn [new_toc t_slots t_refs]. rewrite plan_slots_sum. cbn [new_hdr xh_clen]. fold z.
        unfold new_refs. rewrite Forall_map. eapply Forall_impl; [|exact Hrefs]. intros r (Hk & Hok2 & Hoff & Hlen0 & Hend).
        destruct (adjust_keeps (plan_total P - toc_orig t) r) as (Ak & Al & Ac & Ah & Ad & Ar & Ao).
        unfold ref_ok. rewrite Ak, Al, Ao. split; [assumption|]. split; [assumption|].
        unfold xar_adjust_ref, xar_adjust_skips_unparsable, xar_adjust_adds_delta. rewrite Hk, Hok2. cbn [andb orb fr_off]. lia.
    - unfold toc_orig. cbn [new_toc t_slots]. apply plan_slots_sum.
    - unfold heap_of. cbn [new_hdr xh_clen]. fold z. exact Hheap.
  Qed.

  Lemma adj_off d orig hl r : ref_ok orig hl r -> fr_off (xar_adjust_ref d r) = fr_off r + d.
  Proof.
    intros (Hk & Hok & _). unfold xar_adjust_ref, xar_adjust_skips_unparsable, xar_adjust_adds_delta. rewrite Hk, Hok. reflexivity.
  Qed.
  Lemma stream_transfer (heap area : bytes) orig total : 0 <= orig <= zlen heap -> zlen area = total -> 0 <= total ->
    forall rs pos pos', Forall (ref_ok orig (zlen heap)) rs -> pos' <= Z.max (pos + (total - orig)) total ->
    stream_check Hf heap pos rs = Ok tt ->
    stream_check Hf (area ++ zdrop orig heap) pos' (map (xar_adjust_ref (total - orig)) rs) = Ok tt.
  Proof.
    intros Ho Ha Ht. induction rs as [|r rs IH]; intros pos pos' Hall Hpp H; [reflexivity|].
    apply Forall_cons_iff in Hall as [Hr Hrs]. cbn [map stream_check] in H |- *.
    destruct (adjust_keeps (total - orig) r) as (Ak & Al & Ac & Ah & Ad & Ar & Ao). rewrite Ac, Ah, Al, (adj_off _ _ _ _ Hr).
    destruct (style_hash (fr_ck r)) as [hid|] eqn:Es; [|discriminate]. destruct (fr_hex_ok r) eqn:Eh; cbn [negb] in H |- *; [|discriminate].
    destruct (fr_len r <? 0) eqn:El; [discriminate|]. destruct (fr_len r =? 0) eqn:E0.
    - destruct (xar_file_short 0 (fr_len r)); [discriminate|]. unfold file_digest_ok in *. rewrite Ad.
      destruct (bytes_eqb (Hf hid []) (fr_digest r)); [|discriminate]. eapply IH; eassumption.
    - destruct Hr as (Hk & Hok & Hoff & Hlen0 & Hend).
      assert (Hnl : zlen (area ++ zdrop orig heap) = total + (zlen heap - orig)) by (rewrite zlen_app, Ha, zlen_zdrop by lia; lia).
      assert (Hsl : zslice (fr_off r + (total - orig)) (fr_off r + (total - orig) + fr_len r) (area ++ zdrop orig heap) = zslice (fr_off r) (fr_off r + fr_len r) heap).
      { rewrite zslice_app_r by lia. rewrite Ha. rewrite zslice_zdrop by lia. f_equal; lia. }
      unfold xar_stream_skips, xar_stream_backwards, xar_stream_skip_len in *.
      assert (Hgen : (if zlen heap <? fr_off r + fr_len r then Err E_EOF
                      else if file_digest_ok Hf hid (zslice (fr_off r) (fr_off r + fr_len r) heap) r then stream_check Hf heap (fr_off r + fr_len r) rs else Err E_MISMATCH) = Ok tt ->
                     pos <= fr_off r ->
                     (if fr_off r + (total - orig) >? pos'
                      then if zlen (area ++ zdrop orig heap) <? pos' + (fr_off r + (total - orig) - pos') then Err E_EOF
                           else if zlen (area ++ zdrop orig heap) <? fr_off r + (total - orig) + fr_len r then Err E_EOF
                           else if file_digest_ok Hf hid (zslice (fr_off r + (total - orig)) (fr_off r + (total - orig) + fr_len r) (area ++ zdrop orig heap)) (xar_adjust_ref (total - orig) r)
                                then stream_check Hf (area ++ zdrop orig heap) (fr_off r + (total - orig) + fr_len r) (map (xar_adjust_ref (total - orig)) rs) else Err E_MISMATCH
                      else if fr_off r + (total - orig) <? pos' then Err E_BACK
                           else if zlen (area ++ zdrop orig heap) <? fr_off r + (total - orig) + fr_len r then Err E_EOF
                           else if file_digest_ok Hf hid (zslice (fr_off r + (total - orig)) (fr_off r + (total - orig) + fr_len r) (area ++ zdrop orig heap)) (xar_adjust_ref (total - orig) r)
                                then stream_check Hf (area ++ zdrop orig heap) (fr_off r + (total - orig) + fr_len r) (map (xar_adjust_ref (total - orig)) rs) else Err E_MISMATCH) = Ok tt).
      { intros Hx Hle. destruct (zlen heap <? fr_off r + fr_len r) eqn:Ee; [discriminate|]. rewrite Hnl, Hsl.
        unfold file_digest_ok in *. rewrite Ad. destruct (bytes_eqb _ (fr_digest r)) eqn:Ed; [|discriminate].
        assert (Hrec : stream_check Hf (area ++ zdrop orig heap) (fr_off r + (total - orig) + fr_len r) (map (xar_adjust_ref (total - orig)) rs) = Ok tt).
        { eapply IH; [exact Hrs| |exact Hx]. lia. }
        rewrite Hrec.
        replace (total + (zlen heap - orig) <? pos' + (fr_off r + (total - orig) - pos')) with false by lia.
        replace (total + (zlen heap - orig) <? fr_off r + (total - orig) + fr_len r) with false by lia.
        replace (fr_off r + (total - orig) <? pos') with false by lia. destruct (fr_off r + (total - orig) >? pos'); reflexivity. }
      destruct (fr_off r >? pos) eqn:Eg.
      + destruct (zlen heap <? pos + (fr_off r - pos)); [discriminate|]. apply Hgen; [exact H|lia].
      + destruct (fr_off r <? pos) eqn:Eb; [discriminate|]. apply Hgen; [exact H|lia].
  Qed.

  Lemma insert_map_adj d orig hl x l : ref_ok orig hl x -> Forall (ref_ok orig hl) l ->
    insert_ref (xar_adjust_ref d x) (map (xar_adjust_ref d) l) = map (xar_adjust_ref d) (insert_ref x l).
  Proof.
    intros Hx Hl. induction Hl as [|y l Hy _ IH]; [reflexivity|]. cbn [map insert_ref].
    rewrite (adj_off d _ _ _ Hx), (adj_off d _ _ _ Hy). replace (fr_off x + d <=? fr_off y + d) with (fr_off x <=? fr_off y) by lia.
    destruct (fr_off x <=? fr_off y); [reflexivity|]. cbn [map]. now rewrite IH.
  Qed.
  Lemma Forall_insert_ref (Q : fref -> Prop) x l : Q x -> Forall Q l -> Forall Q (insert_ref x l).
  Proof. intros Hx Hl. rewrite Forall_forall in *. intros r Hin. rewrite In_insert_ref in Hin. destruct Hin as [->|Hin]; auto. Qed.
  Lemma Forall_sort_refs (Q : fref -> Prop) l : Forall Q l -> Forall Q (sort_refs l).
  Proof. intros Hl. rewrite Forall_forall in *. intros r Hin. rewrite In_sort_refs in Hin. auto. Qed.
  Lemma sort_map_adj d orig hl l : Forall (ref_ok orig hl) l -> sort_refs (map (xar_adjust_ref d) l) = map (xar_adjust_ref d) (sort_refs l).
  Proof.
    induction 1 as [|x l Hx Hl IH]; [reflexivity|]. unfold sort_refs in *. cbn [map fold_right]. rewrite IH.
    apply (insert_map_adj d orig hl); [assumption|]. now apply (Forall_sort_refs _ l).
  Qed.
  Lemma filter_map_adj d l : filter sign_checks (map (xar_adjust_ref d) l) = map (xar_adjust_ref d) (filter sign_checks l).
  Proof.
    induction l as [|x l IH]; [reflexivity|]. cbn [map filter]. destruct (adjust_keeps d x) as (Ak & _ & Ac & _).
    unfold sign_checks at 1. rewrite Ak, Ac. fold (sign_checks x). destruct (sign_checks x); cbn [map]; now rewrite IH.
  Qed.
  Lemma Forall_filter {A} (Q : A -> Prop) p l : Forall Q l -> Forall Q (filter p l).
  Proof. intros H. rewrite Forall_forall in *. intros x Hin. apply filter_In in Hin. now apply H. Qed.

  (* C08: the member checks of a second signing pass because those of the first did *)
  Lemma check_files_resign P f h hid t cms slots' : params_ok P -> xar_dom f h hid t ->
    hash_size (sp_hash P) + (if sp_rsa P then sp_classic P else 0) + zlen cms <= plan_total P ->
    xar_check_files_sign Hf (heap_of f h) (mkToc (plan_slots P) (t_refs t) (t_strict t)) = Ok tt ->
    xar_check_files_sign Hf (sig_area P t cms ++ zdrop (toc_orig t) (heap_of f h)) (mkToc slots' (new_refs P t) (t_strict t)) = Ok tt.
  Proof.
    intros HP Hd Hle Hck. unfold xar_check_files_sign in *. cbn [t_refs] in *. unfold new_refs.
    pose proof Hd as [Hfb Hh Hhsz Hcl Hul Hlen Hdec Hwf Hst Horig Hrefs].
    assert (Hhl : zlen (heap_of f h) = zlen f - 28 - xh_clen h) by (unfold heap_of; rewrite zlen_zdrop by lia; lia).
    rewrite <- Hhl in Hrefs. pose proof (plan_total_nonneg P HP) as [Htot _].
    rewrite filter_map_adj. rewrite (sort_map_adj _ (toc_orig t) (zlen (heap_of f h))) by (now apply Forall_filter).
    eapply stream_transfer; try eassumption; try lia.
    - now apply sig_area_len.
    - apply Forall_sort_refs. now apply Forall_filter.
  Qed.

  (* C01: on the domain Sign succeeds exactly when the member checks pass and the signatures fit the reserved space *)
  Lemma sign_total P f h hid t cms : params_ok P -> xar_dom f h hid t ->
    xar_check_files_sign Hf (heap_of f h) (mkToc (plan_slots P) (t_refs t) (t_strict t)) = Ok tt ->
    hash_size (sp_hash P) + (if sp_rsa P then sp_classic P else 0) + zlen cms <= plan_total P ->
    exists s, xar_sign P f cms = Ok s.
  Proof.
    intros HP [Hfb Hh Hhs Hcl Hul Hlen Hdec Hwf Hst Horig Hrefs] Hck Hfit.
    destruct (enum_of_hash P HP) as (en & Hen & _). destruct HP as (Hhash & Hc0 & Hs0 & Hn0 & Hcs).
    unfold Model.xar_sign. rewrite Hh. cbn [bind fst].
    unfold xar_sign_toc_too_large. replace ((xh_clen h >? 1000000) || (xh_ulen h >? 10000000)) with false by lia.
    unfold xar_hdr_size. rewrite zlen_zdrop by lia.
    replace ((xh_clen h <? 0) || (zlen f - 28 <? xh_clen h)) with false by lia.
    assert (Hz : ztake (xh_clen h) (zdrop 28 f) = zslice 28 (28 + xh_clen h) f) by (unfold zslice; f_equal; lia).
    rewrite Hz, Hdec. rewrite (remove_all t Hwf). fold (toc_orig t). rewrite reserve_plan.
    rewrite zdrop_zdrop by lia. replace (xh_clen h + 28) with (28 + xh_clen h) by lia. fold (heap_of f h). rewrite Hck. cbn [bind].
    unfold xar_adjust, xar_sign_delta. cbn [t_slots t_refs t_strict]. fold (new_refs P t). fold (new_toc P t).
    unfold xar_append. rewrite Hen.
    unfold xar_used_counts_checksum, xar_used_counts_classic, xar_used_counts_cms, xar_append_overflow, xar_append_pad.
    rewrite Hf_len.
    set (classic := if sp_rsa P then csig (Hf (sp_hash P) (enc (new_toc P t))) else []).
    assert (Hcl2 : zlen classic = if sp_rsa P then sp_classic P else 0).
    { unfold classic. destruct (sp_rsa P) eqn:Er; [now apply Hcs|reflexivity]. }
    replace (hash_size (sp_hash P) + zlen classic + zlen cms >? plan_total P) with false by lia. cbn [bind].
    unfold xar_sign_orig_total, xar_sign_patch_off, xar_sign_patch_old.
    replace ((28 + xh_clen h + toc_orig t <? 0) || (zlen f <? 0 + (28 + xh_clen h + toc_orig t))) with false by lia.
    eexists. reflexivity.
  Qed.

  (* C08: signing a signed archive again (any key, digest, certificates): it succeeds whenever the new CMS fits, it removes exactly the
     slots of the previous signing, the members keep their bytes, the verifier finds the new CMS *)
  Lemma xar_resign P1 P2 f h hid t cms1 cms2 g1 : good (new_toc P1 t) -> good (new_toc P2 (new_toc P1 t)) ->
    params_ok P1 -> params_ok P2 -> xar_dom f h hid t -> all_bytes cms1 = true ->
    xar_embed P1 f cms1 = Ok g1 ->
    hash_size (sp_hash P2) + (if sp_rsa P2 then sp_classic P2 else 0) + zlen cms2 <= plan_total P2 ->
    exists g2 s2, xar_sign P2 g1 cms2 = Ok s2 /\ xs_file s2 = g2 /\ xs_orig s2 = plan_total P1 /\
      t_slots (xs_toc s2) = plan_slots P2 /\
      spec_xar_payload g2 = spec_xar_payload f /\ xar_extract g2 = Ok (Some (cms_slot P2 cms2)).
  Proof.
    intros Hgd1 Hgd2 HP1 HP2 Hd Hcb He1 Hfit.
    destruct (xar_dom_preserved P1 f h hid t cms1 g1 Hgd1 HP1 Hd Hcb He1) as (h1 & Hd1 & Ho1 & Hheap1).
    destruct (embed_file P1 f h hid t cms1 g1 HP1 Hd He1) as (en1 & Hen1 & Hle1 & Hck1 & Hg1).
    assert (Hs2 : exists s2, xar_sign P2 g1 cms2 = Ok s2).
    { apply (sign_total P2 g1 h1 (sp_hash P1) (new_toc P1 t) cms2 HP2 Hd1); [|exact Hfit].
      rewrite Hheap1. cbn [new_toc t_refs t_strict]. now apply (check_files_resign P1 f h hid t cms1 (plan_slots P2)). }
    destruct Hs2 as [s2 Hs2]. exists (xs_file s2), s2. split; [exact Hs2|]. split; [reflexivity|].
    destruct (sign_inv P2 g1 h1 (sp_hash P1) (new_toc P1 t) cms2 s2 HP2 Hd1 Hs2) as (en & Hen & Hck & Hle & Ho & Hn & Ht & Hb & Hpo & Hpl & Hfile).
    split; [now rewrite Ho|]. split; [now rewrite Ht|].
    assert (He2 : xar_embed P2 g1 cms2 = Ok (xs_file s2)) by (unfold Model.xar_embed; now rewrite Hs2).
    split.
    - rewrite (xar_law_payload_dom P2 g1 h1 (sp_hash P1) (new_toc P1 t) cms2 _ Hgd2 HP2 Hd1 He2).
      now apply (xar_law_payload_dom P1 f h hid t cms1).
    - now apply (xar_law_extract_dom P2 g1 h1 (sp_hash P1) (new_toc P1 t) cms2).
  Qed.

  (* C08: any history of signing (keys, digests, certificate chains and blobs all differing from round to round) *)
  Fixpoint xar_history (hist : list (sparams * bytes)) (f : bytes) : result bytes :=
    match hist with [] => Ok f | (P, c) :: r => g <- xar_embed P f c ;; xar_history r g end.
  Fixpoint chain_good (hist : list (sparams * bytes)) (t : xtoc) : Prop :=
    match hist with [] => True | (P, _) :: r => good (new_toc P t) /\ chain_good r (new_toc P t) end.
  Lemma xar_resign_history hist : forall f h hid t P c g,
    Forall (fun pc => params_ok (fst pc) /\ all_bytes (snd pc) = true) (hist ++ [(P, c)]) -> chain_good (hist ++ [(P, c)]) t -> xar_dom f h hid t ->
    xar_history (hist ++ [(P, c)]) f = Ok g ->
    spec_xar_payload g = spec_xar_payload f /\ xar_extract g = Ok (Some (cms_slot P c)) /\
    exists h' t', xar_dom g h' (sp_hash P) t' /\ t_slots t' = plan_slots P /\ toc_orig t' = plan_total P.
  Proof.
    induction hist as [|[P0 c0] hist IH]; intros f h hid t P c g Hall Hch Hd Hr.
    - cbn [app chain_good] in Hch. destruct Hch as [Hg0 _]. cbn [app xar_history] in Hr. destruct (xar_embed P f c) as [g'| |] eqn:He; cbn [bind] in Hr; try discriminate. apply Ok_inj in Hr. subst g'.
      apply Forall_cons_iff in Hall as [[HP Hcb] _]. cbn [fst snd] in *.
      split; [now apply (xar_law_payload_dom P f h hid t c)|]. split; [now apply (xar_law_extract_dom P f h hid t c)|].
      destruct (xar_dom_preserved P f h hid t c g Hg0 HP Hd Hcb He) as (h' & Hd' & Ho & _). exists h', (new_toc P t). auto.
    - cbn [app chain_good] in Hch. destruct Hch as [Hg0 Hch]. cbn [app xar_history] in Hr. destruct (xar_embed P0 f c0) as [g0| |] eqn:He; cbn [bind] in Hr; try discriminate.
      cbn [app] in Hall. apply Forall_cons_iff in Hall as [[HP0 Hcb0] Hall]. cbn [fst snd] in *.
      destruct (xar_dom_preserved P0 f h hid t c0 g0 Hg0 HP0 Hd Hcb0 He) as (h0 & Hd0 & _).
      destruct (IH g0 h0 (sp_hash P0) (new_toc P0 t) P c g Hall Hch Hd0 Hr) as (Hp & Hx & Hrest).
      split; [|split; assumption]. rewrite Hp. now apply (xar_law_payload_dom P0 f h hid t c0).
  Qed.

  (* ---- C01: the reserved space is sufficient exactly for CMS blobs of at most 6144 bytes plus the certificates *)
  Lemma xar_size_estimate P ztoc ulen cms : params_ok P ->
    (xar_append Hf csig P ztoc ulen (plan_total P) cms = Err E_OVERFLOW <-> 6144 + sp_certsum P < zlen cms) /\
    (zlen cms <= 6144 + sp_certsum P -> exists nb, xar_append Hf csig P ztoc ulen (plan_total P) cms = Ok nb /\ zlen nb = 28 + zlen ztoc + plan_total P).
  Proof.
    intros HP. destruct (enum_of_hash P HP) as (en & Hen & _ & Hr & _). pose proof HP as (Hhash & Hc0 & Hs0 & Hn0 & Hcs).
    unfold xar_append. rewrite Hen. unfold xar_used_counts_checksum, xar_used_counts_classic, xar_used_counts_cms, xar_append_overflow, xar_append_pad.
    rewrite Hf_len. set (classic := if sp_rsa P then csig (Hf (sp_hash P) ztoc) else []).
    assert (Hcl2 : zlen classic = if sp_rsa P then sp_classic P else 0).
    { unfold classic. destruct (sp_rsa P) eqn:Er; [now apply Hcs|reflexivity]. }
    assert (Hpt : plan_total P = hash_size (sp_hash P) + (if sp_rsa P then sp_classic P else 0) + (6144 + sp_certsum P)) by reflexivity.
    destruct (hash_size (sp_hash P) + zlen classic + zlen cms >? plan_total P) eqn:Eo.
    - split; [split; [intros _; lia|reflexivity]|]. intros Hle. lia.
    - split; [split; [discriminate|lia]|]. intros Hle. eexists. split; [reflexivity|].
      pose proof (plan_total_nonneg P HP) as [_ Hhs].
      assert (Hh28 : forall hh, zlen (xar_marshal_header hh) = 28).
      { intros hh. unfold xar_marshal_header, xar_hdr_vals, xar_hdr_widths. cbn [enc_fields]. rewrite !zlen_app, !enc_field_zlen by lia. reflexivity. }
      fold classic. rewrite zlen_app, Hh28, !zlen_app, zeros_len, Hf_len by lia. lia.
  Qed.

  (* ---- C11: Sign never panics (every size it allocates from is guarded or comes from the stream); Open panics exactly through the
     two unguarded signature sizes *)
  Lemma stream_check_no_panic heap rs : forall pos p, stream_check Hf heap pos rs <> Panic p.
  Proof.
    induction rs as [|r rs IH]; intros pos p; cbn [stream_check]; [discriminate|].
    destruct (style_hash _); [|discriminate]. destruct (negb _); [discriminate|]. destruct (fr_len r <? 0); [discriminate|].
    destruct (fr_len r =? 0).
    - destruct (xar_file_short _ _); [discriminate|]. destruct (file_digest_ok _ _ _ _); [apply IH|discriminate].
    - destruct (xar_stream_skips _ _).
      + destruct (_ <? _); [discriminate|]. destruct (_ <? _); [discriminate|]. destruct (file_digest_ok _ _ _ _); [apply IH|discriminate].
      + destruct (xar_stream_backwards _ _); [discriminate|]. destruct (_ <? _); [discriminate|]. destruct (file_digest_ok _ _ _ _); [apply IH|discriminate].
  Qed.
  Lemma xar_sign_no_panic P f cms p : xar_sign P f cms <> Panic p.
  Proof.
    unfold Model.xar_sign. pose proof (parse_header_no_panic f) as Hn. destruct (xar_parse_header f) as [[h hid]| |e]; cbn [bind]; try discriminate; [|exfalso; exact (Hn e eq_refl)].
    destruct (xar_sign_toc_too_large _ _); [discriminate|]. destruct (_ || _); [discriminate|]. destruct (dec _) as [t|]; [|discriminate].
    destruct (xar_remove_sigs t) as [orig t1]. destruct (xar_reserve P t1) as [newsz t2].
    unfold xar_check_files_sign. pose proof (stream_check_no_panic (zdrop (xh_clen (fst (h, hid))) (zdrop xar_hdr_size f)) (sort_refs (filter sign_checks (t_refs t2))) 0) as Hs.
    destruct (stream_check _ _ _ _) as [[]| |e]; cbn [bind]; try discriminate; [|exfalso; exact (Hs e eq_refl)].
    unfold xar_append. destruct (assoc_z _ _); cbn [bind]; [|discriminate]. destruct (xar_append_overflow _ _); cbn [bind]; [discriminate|].
    destruct (_ || _); discriminate.
  Qed.
  (* ---- C01: sign, then verify, with symbolic cryptography (the types of Laws/Pipeline.v).  The CMS blob is made over the digest of
     the compressed table of contents Sign emits (builder.SetContentData(ztocHash)); the verifier hands the digest of the stored table
     of contents to the CMS layer (psd.Content.Verify(x.TOCHash)).  The CMS reader takes the first element of the slot and ignores the
     zero padding behind it (go-asn1-ber; an assumption about the CMS layer, unit C16). *)
  Section XarCrypto.
    Variables key pubk sigv : Type.
    Variable H : Z -> bytes -> bytes.
    Variable pub : key -> pubk.
    Variable sign : key -> bytes -> sigv.
    Variable vrfy : pubk -> bytes -> sigv -> bool.
    Hypothesis sign_correct : forall k m, vrfy (pub k) m (sign k m) = true.
    Variable tbs : Z -> bytes -> bytes.
    Variable ser : Pipeline.sigblob pubk sigv -> bytes.
    Variable deser : bytes -> option (Pipeline.sigblob pubk sigv).
    Hypothesis deser_pad : forall b n, deser (ser b ++ zeros n) = Some b.

    Definition xar_verify_file (g : bytes) : Pipeline.verdict pubk :=
      match xar_verify_struct Hf dec g false with
      | Ok (route, slot, content) =>
          if route =? 2 then
            match deser slot with
            | Some b => if Pipeline.blob_ok pubk sigv vrfy tbs b && bytes_eqb (H (Pipeline.sb_alg pubk sigv b) content) (Pipeline.sb_digest pubk sigv b)
                        then Pipeline.Accept pubk (Pipeline.sb_cert pubk sigv b) (Pipeline.sb_alg pubk sigv b) else Pipeline.Reject pubk
            | None => Pipeline.Reject pubk
            end
          else Pipeline.Reject pubk
      | Err e => if e =? E_NOTSIGNED then Pipeline.NotSigned pubk else Pipeline.Reject pubk
      | Panic _ => Pipeline.Reject pubk
      end.
    Definition xar_sign_file (P : sparams) (t : xtoc) (k : key) (a : Z) (f : bytes) : result bytes :=
      xar_embed P f (ser (Pipeline.mksig key pubk sigv pub sign tbs k a (H a (Hf (sp_hash P) (enc (new_toc P t)))))).

    Theorem xar_sign_then_verify P f h hid t k a g : good (new_toc P t) -> params_ok P -> xar_dom f h hid t -> verify_covered t ->
      xar_sign_file P t k a f = Ok g -> xar_verify_file g = Pipeline.Accept pubk (pub k) a.
    Proof.
      intros Hgood HP Hd Hcov Hs. unfold xar_sign_file in Hs. unfold xar_verify_file.
      rewrite (xar_sign_then_verify_struct P f h hid t _ g Hgood HP Hd Hcov Hs). cbn [Z.eqb Pos.eqb].
      unfold cms_slot. rewrite deser_pad. unfold Pipeline.blob_ok, Pipeline.mksig. cbn [Pipeline.sb_alg Pipeline.sb_digest Pipeline.sb_cert Pipeline.sb_sig].
      rewrite sign_correct, bytes_eqb_refl. reflexivity.
    Qed.
  End XarCrypto.
End XarLaws.


(* ---- C02: what a successful verification pins down about the heap *)
Section XarProtect.
  Variable Hf : Z -> bytes -> bytes.
  Variable dec : bytes -> option xtoc.
  Lemma verify_files_inv heap rs : verify_files Hf heap rs = Ok tt -> Forall (fun r => verify_file Hf heap r = Ok tt) rs.
  Proof.
    induction rs as [|r rs IH]; [constructor|]. cbn [verify_files]. destruct (verify_file Hf heap r) as [[]| |] eqn:E; cbn [bind]; try discriminate.
    intros H. constructor; [exact E|now apply IH].
  Qed.
  Lemma verify_file_inv heap r : verify_file Hf heap r = Ok tt ->
    exists hid, style_hash (fr_ck r) = Some hid /\ 0 <= fr_off r /\ 0 <= fr_len r /\ fr_off r + fr_len r <= zlen heap /\
      Hf hid (zslice (fr_off r) (fr_off r + fr_len r) heap) = fr_digest r.
  Proof.
    unfold verify_file. destruct (style_hash (fr_ck r)) as [hid|]; [|discriminate]. destruct (negb (fr_hex_ok r)); [discriminate|].
    destruct (_ || _ || _) eqn:Eb; [discriminate|]. unfold file_digest_ok. destruct (bytes_eqb _ _) eqn:Ed; [|discriminate]. intros _.
    exists hid. apply list_eqb_Z_eq in Ed. repeat split; try assumption; lia.
  Qed.
  (* a structurally accepted archive: the digest handed to the signature check is that of the stored compressed table of contents,
     and every member the verifier selects has, in the heap, bytes whose digest is the one the table of contents records *)
  Lemma xar_protect g route sigb content : xar_verify_struct Hf dec g false = Ok (route, sigb, content) ->
    exists o, xar_open Hf dec g = Ok o /\ content = Hf (xo_hash o) (xo_tochash_pre o) /\
      Forall (fun r => verify_checks r = true ->
                exists hid, style_hash (fr_ck r) = Some hid /\
                  Hf hid (zslice (fr_off r) (fr_off r + fr_len r) (zdrop (xo_base o) g)) = fr_digest r) (t_refs (xo_toc o)).
  Proof.
    unfold xar_verify_struct. destruct (xar_open Hf dec g) as [o| |] eqn:Ho; cbn [bind]; try discriminate.
    destruct (xar_verify_route o =? 0); [discriminate|]. unfold xar_verify_checks_files. cbn [negb].
    destruct (verify_files Hf _ _) as [[]| |] eqn:Hv; cbn [bind]; try discriminate. intros H. apply Ok_inj in H.
    exists o. split; [reflexivity|]. split; [congruence|].
    apply verify_files_inv in Hv. rewrite Forall_forall in *. intros r Hin Hvc.
    assert (Hin2 : In r (sort_refs (filter verify_checks (t_refs (xo_toc o))))) by (apply In_sort_refs, filter_In; auto).
    destruct (verify_file_inv _ _ (Hv r Hin2)) as (hid & Hs & _ & _ & _ & Hd). exists hid. auto.
  Qed.

  (* ---- C11 *)
  Notation xar_open := (xar_open Hf dec).
  Lemma go_make_ok' size n : 0 <= n <= alloc_limit size -> go_make size n = Ok tt.
  Proof. intros H. unfold go_make. replace (n <? 0) with false by lia. replace (alloc_limit size <? n) with false by lia. reflexivity. Qed.
  Lemma go_make_no_panic_dom size n p : 0 <= n <= alloc_limit size -> go_make size n <> Panic p.
  Proof. intros H. unfold go_make. replace (n <? 0) with false by lia. replace (alloc_limit size <? n) with false by lia. discriminate. Qed.
  Lemma go_readat_no_panic f off n p : go_readat f off n <> Panic p.
  Proof. unfold go_readat. destruct (off <? 0); [discriminate|]. destruct (n =? 0); [discriminate|]. destruct (_ <? _); discriminate. Qed.
  Lemma read_slot_no_panic size f base guard alloc at_ s p :
    (s <> None -> guard = false -> 0 <= alloc <= alloc_limit size) -> read_slot size f base guard alloc at_ s <> Panic p.
  Proof.
    intros H. unfold read_slot. destruct s as [sl|]; [|discriminate]. destruct guard; [discriminate|].
    pose proof (fun q => go_make_no_panic_dom size alloc q (H ltac:(discriminate) eq_refl)) as Hm. destruct (go_make size alloc) as [[]| |e]; cbn [bind]; try discriminate; [|exfalso; exact (Hm e eq_refl)].
    pose proof (fun q => go_readat_no_panic f at_ alloc q) as Hr. destruct (go_readat f at_ alloc) as [b| |e]; cbn [bind]; try discriminate. exfalso; exact (Hr e eq_refl).
  Qed.

  Lemma bind_np {A B} (r : result A) (k : A -> result B) p : (forall q, r <> Panic q) -> (forall a, r = Ok a -> k a <> Panic p) -> bind r k <> Panic p.
  Proof. intros Hr Hk. destruct r as [a| |e]; cbn [bind]; [now apply Hk|discriminate|exfalso; exact (Hr e eq_refl)]. Qed.
  Lemma hash_size_range hid : 0 <= hash_size hid <= 64.
  Proof. unfold hash_size. repeat (match goal with |- context [if ?c then _ else _] => destruct c end); lia. Qed.

  (* C11: Open never panics and never allocates more than 64 |file| + 1 MiB, for every byte string and every table of contents the
     decoder may deliver (since relic 67d720d: both signature elements are checked against the file size before anything is allocated) *)
  Lemma xar_open_no_panic f p : xar_open f <> Panic p.
  Proof.
    unfold Model.xar_open. unfold xar_open_header_len.
    pose proof (fun q => parse_header_no_panic (ztake 28 f) q) as Hn.
    destruct (xar_parse_header (ztake 28 f)) as [[h hid]| |e] eqn:Hp; cbn [bind]; try discriminate; [|exfalso; exact (Hn e eq_refl)].
    unfold xar_open_toc_off, xar_open_toc_len. destruct (_ || _); [discriminate|].
    destruct (dec _) as [t|] eqn:Hd; [|discriminate]. destruct (negb (t_strict t)); [discriminate|].
    destruct (xar_open_bad_cksize _ _) eqn:Eck; [discriminate|]. unfold xar_open_bad_cksize in Eck. apply negb_false_iff, Z.eqb_eq in Eck.
    unfold xar_open_ck_alloc. rewrite Eck. pose proof (hash_size_range hid) as Hr. pose proof (zlen_nonneg f) as Hf0.
    rewrite go_make_ok' by (unfold alloc_limit; lia). cbn [bind].
    pose proof (fun q => go_readat_no_panic f (xar_open_ck_at (if xar_open_heap_after_toc then xh_hsize h + xh_clen h else xh_hsize h)
         (sl_off match find_slot K_CHECKSUM t with Some s => s | None => mkSlot K_CHECKSUM 0 false 0 0 end)) (hash_size hid) q) as Hrn.
    destruct (go_readat f _ (hash_size hid)) as [stored| |e]; try discriminate; [|exfalso; exact (Hrn e eq_refl)].
    destruct (negb (bytes_eqb stored _)); [discriminate|].
    unfold xar_open_slot_guard_covers, xar_open_slot_guard, K_SIGNATURE, K_XSIGNATURE. cbn [existsb Z.eqb Pos.eqb orb andb].
    match goal with |- (if ?c then _ else _) <> _ => destruct c eqn:Eg; [discriminate|] end.
    apply orb_false_iff in Eg as [Eg1 Eg2].
    apply bind_np.
    { intros q. apply read_slot_no_panic. intros Hsome _. unfold xar_open_sig_alloc. destruct (find_slot 1 t) as [s|] eqn:Efs; [|congruence].
      cbn [andb] in Eg1. unfold alloc_limit. lia. }
    intros classic _. destruct (match find_slot 1 t with Some s => sl_ncerts s =? 0 | None => false end); [discriminate|].
    apply bind_np.
    { intros q. apply read_slot_no_panic. intros Hsome _. unfold xar_open_xsig_alloc. destruct (find_slot 2 t) as [s|] eqn:Efs; [|congruence].
      cbn [andb] in Eg2. unfold alloc_limit. lia. }
    intros cmsb _. cbn zeta. unfold xar_open_has_trailer, xar_open_trailer_alloc.
    match goal with |- context [if (?tr >? 0) && (?tr <? 1000000) then _ else _] => destruct ((tr >? 0) && (tr <? 1000000)) eqn:Et; [|discriminate];
      rewrite (go_make_ok' (zlen f) tr) by (unfold alloc_limit; lia); cbn [bind] end.
    apply bind_np; [intros q; apply go_readat_no_panic|]. intros tk _. discriminate.
  Qed.

End XarProtect.
