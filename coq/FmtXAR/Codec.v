(* FmtXAR/Codec.v — lemmas about the big-endian struct codec of FmtXAR/Model.v (encoding/binary over fixed-width fields). *)
From Relic Require Import Base.Prelude Base.Enc Generated.FmtXAR_gen FmtXAR.Model.

Lemma pow256 w : 0 <= w -> 256 ^ w = 2 ^ (8 * w).
Proof. intros H. rewrite Z.pow_mul_r by lia. reflexivity. Qed.

Lemma le_enc_mod w v : le_enc w v = le_enc w (v mod 256 ^ Z.of_nat w).
Proof.
  revert v. induction w as [|w IH]; intros v; [reflexivity|].
  rewrite Nat2Z.inj_succ, Z.pow_succ_r by lia. set (M := 256 ^ Z.of_nat w).
  assert (HM : 0 < M) by (unfold M; apply Z.pow_pos_nonneg; lia).
  cbn [le_enc]. f_equal.
  - rewrite Z.rem_mul_r by lia. rewrite (Z.mul_comm 256 ((v / 256) mod M)), Z_mod_plus_full. now rewrite Z.mod_mod by lia.
  - rewrite (IH (v / 256)). rewrite (IH ((v mod (256 * M)) / 256)). f_equal. fold M.
    rewrite Z.rem_mul_r by lia.
    replace ((v mod 256 + 256 * ((v / 256) mod M)) / 256) with ((v / 256) mod M).
    + now rewrite Z.mod_mod by lia.
    + rewrite (Z.mul_comm 256 ((v / 256) mod M)), Z.div_add by lia.
      rewrite (Z.div_small (v mod 256)) by (apply Z.mod_pos_bound; lia). lia.
Qed.
Lemma be_enc_mod w v : be_enc w v = be_enc w (v mod 256 ^ Z.of_nat w).
Proof. unfold be_enc. now rewrite le_enc_mod. Qed.
Lemma be_dec_enc_mod w v : be_dec (be_enc w v) = v mod 256 ^ Z.of_nat w.
Proof.
  rewrite be_enc_mod. apply be_dec_enc. apply Z.mod_pos_bound. apply Z.pow_pos_nonneg; lia.
Qed.
Lemma be_enc_shift w v k : be_enc w (v + k * 256 ^ Z.of_nat w) = be_enc w v.
Proof. rewrite be_enc_mod, Z_mod_plus_full, <- be_enc_mod. reflexivity. Qed.

Lemma enc_field_zlen w v : 0 <= w -> zlen (enc_field w v) = w.
Proof. intros H. unfold enc_field. rewrite be_enc_zlen. lia. Qed.
Lemma enc_field_bytes w v : all_bytes (enc_field w v) = true.
Proof. apply be_enc_bytes. Qed.

(* in-range values of a field: unsigned 0 <= v < 2^(8w), signed -2^(8w-1) <= v < 2^(8w-1) *)
Definition field_ok (w sg v : Z) : Prop :=
  if sg =? 1 then - 2 ^ (8 * w - 1) <= v < 2 ^ (8 * w - 1) else 0 <= v < 2 ^ (8 * w).

Lemma dec_enc_field w sg v : 1 <= w -> field_ok w sg v -> dec_field sg (enc_field w v) = v.
Proof.
  intros Hw Hok. unfold dec_field, field_ok in *. rewrite enc_field_zlen by lia. unfold enc_field.
  rewrite be_dec_enc_mod. rewrite Z2Nat.id by lia. rewrite pow256 by lia.
  assert (Hp : 2 ^ (8 * w) = 2 * 2 ^ (8 * w - 1)).
  { replace (8 * w) with (Z.succ (8 * w - 1)) at 1 by lia. rewrite Z.pow_succ_r by lia. reflexivity. }
  assert (Hq : 0 < 2 ^ (8 * w - 1)) by (apply Z.pow_pos_nonneg; lia).
  destruct (sg =? 1).
  - unfold to_signed. destruct (Z_lt_ge_dec v 0) as [Hn|Hn].
    + replace (v mod 2 ^ (8 * w)) with (v + 2 ^ (8 * w)).
      * destruct (v + 2 ^ (8 * w) <? 2 ^ (8 * w - 1)) eqn:E; lia.
      * symmetry. rewrite <- (Z_mod_plus_full v 1). rewrite Z.mod_small; lia.
    + rewrite Z.mod_small by lia. destruct (v <? 2 ^ (8 * w - 1)) eqn:E; lia.
  - apply Z.mod_small. lia.
Qed.

Lemma enc_dec_field sg p : all_bytes p = true -> 1 <= zlen p -> enc_field (zlen p) (dec_field sg p) = p.
Proof.
  intros Hb Hl. unfold enc_field, dec_field.
  assert (Hn : Z.to_nat (zlen p) = length p) by (unfold zlen; lia).
  destruct (sg =? 1).
  - unfold to_signed. destruct (be_dec p <? 2 ^ (8 * zlen p - 1)).
    + rewrite Hn. now apply be_enc_dec.
    + replace (be_dec p - 2 ^ (8 * zlen p)) with (be_dec p + (-1) * 256 ^ Z.of_nat (Z.to_nat (zlen p))).
      * rewrite be_enc_shift. rewrite Hn. now apply be_enc_dec.
      * rewrite Z2Nat.id by lia. rewrite pow256 by lia. lia.
  - rewrite Hn. now apply be_enc_dec.
Qed.

Lemma be_dec_range p : all_bytes p = true -> 0 <= be_dec p < 256 ^ zlen p.
Proof.
  intros H. unfold be_dec. replace (zlen p) with (zlen (rev p)) by (unfold zlen; now rewrite rev_length).
  apply le_dec_range. now rewrite all_bytes_rev.
Qed.
Lemma dec_field_ok sg p : all_bytes p = true -> 1 <= zlen p -> field_ok (zlen p) sg (dec_field sg p).
Proof.
  intros Hb Hl. pose proof (be_dec_range p Hb) as Hr. rewrite pow256 in Hr by lia.
  assert (Hp : 2 ^ (8 * zlen p) = 2 * 2 ^ (8 * zlen p - 1)).
  { replace (8 * zlen p) with (Z.succ (8 * zlen p - 1)) at 1 by lia. rewrite Z.pow_succ_r by lia. reflexivity. }
  unfold field_ok, dec_field. destruct (sg =? 1); [|lia].
  unfold to_signed. destruct (be_dec p <? 2 ^ (8 * zlen p - 1)) eqn:E; lia.
Qed.

(* ---- structs *)
Lemma split_w_cons w ws a rest : zlen a = w -> 0 <= w -> split_w (w :: ws) (a ++ rest) = a :: split_w ws rest.
Proof.
  intros Hl Hw. cbn [split_w]. f_equal.
  - rewrite ztake_app_l by lia. apply ztake_all. lia.
  - rewrite zdrop_app_r by lia. replace (w - zlen a) with 0 by lia. apply zdrop_0.
Qed.

Inductive fields_ok : list Z -> list Z -> list Z -> Prop :=
| fok_nil : fields_ok [] [] []
| fok_cons w ws sg sgs v vs : 1 <= w -> field_ok w sg v -> fields_ok ws sgs vs -> fields_ok (w :: ws) (sg :: sgs) (v :: vs).

Lemma read_write_struct ws sgs vs rest : fields_ok ws sgs vs ->
  dec_fields sgs (split_w ws (enc_fields ws vs ++ rest)) = vs.
Proof.
  induction 1 as [|w ws sg sgs v vs Hw Hok _ IH]; [reflexivity|].
  cbn [enc_fields]. rewrite <- app_assoc. rewrite split_w_cons by (try apply enc_field_zlen; lia).
  cbn [dec_fields]. rewrite dec_enc_field by assumption. f_equal. exact IH.
Qed.
Lemma enc_fields_zlen ws sgs vs : fields_ok ws sgs vs -> zlen (enc_fields ws vs) = zsum ws.
Proof.
  induction 1 as [|w ws sg sgs v vs Hw _ _ IH]; [reflexivity|].
  cbn [enc_fields zsum]. rewrite zlen_app, enc_field_zlen by lia. lia.
Qed.
Lemma enc_fields_bytes ws vs : all_bytes (enc_fields ws vs) = true.
Proof.
  revert vs. induction ws as [|w ws IH]; intros [|v vs]; try reflexivity.
  cbn [enc_fields]. rewrite all_bytes_app, enc_field_bytes, IH. reflexivity.
Qed.
Lemma go_read_write ws sgs vs size rest : fields_ok ws sgs vs -> size = zsum ws ->
  go_read_struct ws sgs size (enc_fields ws vs ++ rest) = Ok vs.
Proof.
  intros H Hs. unfold go_read_struct. rewrite zlen_app, (enc_fields_zlen _ _ _ H), Hs.
  pose proof (zlen_nonneg rest). destruct (zsum ws + zlen rest <? zsum ws) eqn:E; [lia|].
  now rewrite read_write_struct.
Qed.

(* the other direction: writing back what was read reproduces the bytes, field by field *)
Lemma all_bytes_ztake n (l : bytes) : all_bytes l = true -> all_bytes (ztake n l) = true.
Proof.
  intros H. rewrite <- (ztake_zdrop n l), all_bytes_app in H. now apply andb_true_iff in H as [H1 _].
Qed.
Lemma all_bytes_zdrop n (l : bytes) : all_bytes l = true -> all_bytes (zdrop n l) = true.
Proof.
  intros H. rewrite <- (ztake_zdrop n l), all_bytes_app in H. now apply andb_true_iff in H as [_ H2].
Qed.
Lemma all_bytes_zslice a b (l : bytes) : all_bytes l = true -> all_bytes (zslice a b l) = true.
Proof. intros H. unfold zslice. now apply all_bytes_ztake, all_bytes_zdrop. Qed.

Fixpoint widths_pos (ws : list Z) : Prop := match ws with [] => True | w :: r => 1 <= w /\ widths_pos r end.
Lemma write_read_struct ws : forall sgs b, widths_pos ws -> length sgs = length ws -> all_bytes b = true -> zsum ws <= zlen b ->
  enc_fields ws (dec_fields sgs (split_w ws b)) = ztake (zsum ws) b.
Proof.
  induction ws as [|w ws IH]; intros sgs b Hp Hl Hb Hlen.
  - reflexivity.
  - destruct sgs as [|sg sgs]; [discriminate|]. destruct Hp as [Hw Hp]. cbn [zsum] in *.
    assert (Hz : 0 <= zsum ws). { clear -Hp. induction ws as [|x r IHr]; cbn [zsum]; [lia|]. destruct Hp. specialize (IHr H0). lia. }
    cbn [split_w dec_fields enc_fields].
    assert (Htl : zlen (ztake w b) = w) by (apply zlen_ztake; lia).
    rewrite <- Htl at 1. rewrite enc_dec_field by (try apply all_bytes_ztake; try lia; assumption).
    rewrite IH; try assumption.
    + rewrite <- (ztake_zdrop w b) at 3. rewrite ztake_app_r by lia. rewrite Htl. f_equal. f_equal. lia.
    + cbn in Hl. lia.
    + now apply all_bytes_zdrop.
    + rewrite zlen_zdrop by lia. lia.
Qed.
Lemma dec_fields_ok ws : forall sgs b, widths_pos ws -> length sgs = length ws -> all_bytes b = true -> zsum ws <= zlen b ->
  fields_ok ws sgs (dec_fields sgs (split_w ws b)).
Proof.
  induction ws as [|w ws IH]; intros sgs b Hp Hl Hb Hlen.
  - destruct sgs; [constructor|discriminate].
  - destruct sgs as [|sg sgs]; [discriminate|]. destruct Hp as [Hw Hp]. cbn [zsum] in *.
    assert (Hz : 0 <= zsum ws). { clear -Hp. induction ws as [|x r IHr]; cbn [zsum]; [lia|]. destruct Hp. specialize (IHr H0). lia. }
    cbn [split_w dec_fields]. constructor; [lia| |].
    + assert (Htl : zlen (ztake w b) = w) by (apply zlen_ztake; lia).
      rewrite <- Htl at 1. apply dec_field_ok; [now apply all_bytes_ztake|lia].
    + apply IH; try assumption; [cbn in Hl; lia|now apply all_bytes_zdrop|rewrite zlen_zdrop by lia; lia].
Qed.

Lemma ztake_c_eq {A} n (l : list A) : ztake_c n l = ztake n l.
Proof.
  unfold ztake_c. destruct (Z_le_gt_dec n (zlen l)) as [H|H].
  - now rewrite Z.min_l by lia.
  - rewrite Z.min_r by lia. rewrite !ztake_all by lia. reflexivity.
Qed.
