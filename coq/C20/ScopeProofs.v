From Relic Require Import Base.Prelude Generated.C20_gen C20.Model C20.Proofs C20.Lock C20.LockProofs C20.Scope.
Require Import Coq.Sorting.Permutation.

(* ------------------------------------------------------------------ the generated decisions *)
(* pingOne reports failure exactly when Ping returned an error; healthCheck counts exactly those tokens *)
Lemma counted_ok_spec err expired : tok_counted_ok err expired = negb err.
Proof. destruct err, expired; reflexivity. Qed.

Lemma forallb_map {A B} (f : B -> bool) (g : A -> B) l : forallb f (map g l) = forallb (fun x => f (g x)) l.
Proof. induction l as [|x l IH]; cbn [map forallb]; [reflexivity|]. rewrite IH. reflexivity. Qed.

(* ------------------------------------------------------------------ deadlines *)
Lemma per_token_shift chain rs ps :
  all_per_token chain = true ->
  ping_deadline chain rs ps = match ping_deadline chain 0 0 with Some d => Some (ps + d) | None => None end.
Proof.
  induction chain as [|[[site dur] live] rest IH]; intros H; cbn [ping_deadline]; [reflexivity|].
  unfold all_per_token in H. cbn [forallb fst] in H. apply andb_prop in H. destruct H as [Hs Hr].
  rewrite (IH Hr). unfold elem_deadline. rewrite Hs.
  destruct (ping_deadline rest 0 0) as [d|]; cbn [opt_min]; destruct live; f_equal; lia.
Qed.
Lemma per_token_deadline chain T rs ps :
  chain_timeout chain = Some T -> ping_deadline chain rs ps = Some (ps + T).
Proof.
  unfold chain_timeout. destruct (all_per_token chain) eqn:E; [|discriminate].
  intros H. rewrite (per_token_shift chain rs ps E), H. reflexivity.
Qed.
Lemma single_per_token d : chain_timeout [(1, d, true)] = Some d.
Proof. unfold chain_timeout, all_per_token. cbn [forallb fst Z.eqb Pos.eqb andb ping_deadline opt_min elem_deadline]. f_equal; lia. Qed.

(* the current source: one context per token, token_check_timeout seconds, for every configuration *)
Lemma source_scope_per_token timeout_s interval_s n :
  chain_timeout (cfg_chain timeout_s interval_s n) = Some (spec_timeout timeout_s).
Proof. unfold cfg_chain, ping_ctx_chain, spec_timeout, ns_per_s. apply single_per_token. Qed.

(* ------------------------------------------------------------------ one ping, one round *)
Lemma ping_run_per_token p now T :
  0 <= T ->
  ping_run p now (Some (now + T)) =
  if tok_returns p
  then Some (now + spec_tok_dur T p, negb (spec_tok_ok T p) || negb (k_res p),
             if k_honours p then negb (match k_lat p with Some l => l <? T | None => false end)
             else (match k_lat p with Some l => T <=? l | None => false end))
  else None.
Proof.
  intros HT. destruct p as [[l|] res hon]; unfold ping_run, tok_returns, spec_tok_dur, spec_tok_ok; cbn [k_lat k_res k_honours].
  - destruct hon; cbn [orb].
    + destruct (l <? T) eqn:E.
      * assert (E' : now + l <? now + T = true) by lia. rewrite E'. rewrite andb_true_r. destruct res; reflexivity.
      * assert (E' : now + l <? now + T = false) by lia. rewrite E'. rewrite andb_false_r. cbn [negb orb].
        rewrite Z.max_r by lia. reflexivity.
    + rewrite andb_true_r. assert (E : (now + T <=? now + l) = (T <=? l)) by (destruct (T <=? l) eqn:E1; lia). rewrite E.
      destruct res; reflexivity.
  - destruct hon; cbn [orb]; [|reflexivity]. rewrite andb_false_r. cbn [negb orb]. rewrite Z.max_r by lia. reflexivity.
Qed.

Lemma trace_per_token chain T rs ps : forall now,
  chain_timeout chain = Some T -> 0 <= T ->
  round_trace chain rs now ps = if forallb tok_returns ps then Some (spec_trace T now ps) else None.
Proof.
  induction ps as [|p rest IH]; intros now HC HT; cbn [round_trace forallb spec_trace]; [reflexivity|].
  rewrite (per_token_deadline chain T rs now HC), (ping_run_per_token p now T HT).
  destruct (tok_returns p); cbn [andb]; [|reflexivity].
  rewrite (IH _ HC HT). destruct (forallb tok_returns rest); [|reflexivity].
  rewrite counted_ok_spec.
  f_equal. f_equal. f_equal.
  unfold spec_tok_ok. destruct (k_res p); cbn [andb negb orb]; [|reflexivity].
  rewrite orb_false_r, negb_involutive. reflexivity.
Qed.

Lemma spec_trace_oks T ps : forall now, map snd (spec_trace T now ps) = map (spec_tok_ok T) ps.
Proof. induction ps as [|p r IH]; intros now; cbn [spec_trace map snd]; [reflexivity|]. rewrite IH. reflexivity. Qed.
Lemma spec_trace_end T ps : forall now d, last (map fst (spec_trace T now ps)) d = match ps with [] => d | _ => now + spec_round_dur T ps end.
Proof.
  unfold spec_round_dur. induction ps as [|p r IH]; intros now d; cbn [spec_trace map fst]; [reflexivity|].
  destruct r as [|q r'].
  - cbn. lia.
  - change (last (?a :: map fst (spec_trace T ?n (q :: r'))) d) with (last (map fst (spec_trace T n (q :: r'))) d).
    rewrite IH. cbn [map zsum fold_right]. lia.
Qed.

(* THE per-token characterisation: whenever every context on the chain is created per token, a round over ANY tokens is
   decided token by token — its outcomes are the tokens' own (answer ok, within T of the start of their own ping), it ends
   after the sum of the individual check times, and it hangs iff some token neither answers nor can be interrupted *)
Lemma round_per_token chain T rs ps :
  chain_timeout chain = Some T -> 0 <= T ->
  run_round chain rs ps =
  if forallb tok_returns ps then Some (map (spec_tok_ok T) ps, rs + spec_round_dur T ps) else None.
Proof.
  intros HC HT. unfold run_round. rewrite (trace_per_token chain T rs ps rs HC HT).
  destruct (forallb tok_returns ps); [|reflexivity].
  rewrite spec_trace_oks, spec_trace_end. destruct ps; [|reflexivity].
  unfold spec_round_dur. cbn. f_equal. f_equal. lia.
Qed.

(* for the current source, every configuration with a non-negative timeout *)
Lemma source_round timeout_s interval_s rs ps :
  0 <= timeout_s ->
  run_round (cfg_chain timeout_s interval_s (zlen ps)) rs ps =
  if forallb tok_returns ps
  then Some (map (spec_tok_ok (spec_timeout timeout_s)) ps, rs + spec_round_dur (spec_timeout timeout_s) ps) else None.
Proof.
  intros H. apply round_per_token; [apply source_scope_per_token|]. unfold spec_timeout, ns_per_s. lia.
Qed.

(* a round is ok iff every token answers ok within the timeout ON ITS OWN *)
Lemma round_ok_iff_each_in_time timeout_s interval_s rs ps :
  0 <= timeout_s -> forallb tok_returns ps = true ->
  exists oks tend, run_round (cfg_chain timeout_s interval_s (zlen ps)) rs ps = Some (oks, tend) /\
                   round_ok (mkR oks tend) = forallb (spec_tok_ok (spec_timeout timeout_s)) ps.
Proof.
  intros H Hr. rewrite (source_round timeout_s interval_s rs ps H), Hr. eexists. eexists. split; [reflexivity|].
  unfold round_ok. cbn [r_oks]. rewrite forallb_map. reflexivity.
Qed.

(* order (map iteration order!) does not matter: not for the outcome, not for the end time, not for whether it ends *)
Lemma forallb_perm {A} (f : A -> bool) l l' : Permutation l l' -> forallb f l = forallb f l'.
Proof.
  induction 1; cbn [forallb]; try congruence.
  - destruct (f x), (f y); reflexivity.
Qed.
Lemma zsum_perm l l' : Permutation l l' -> zsum l = zsum l'.
Proof. unfold zsum. induction 1; cbn [fold_right] in *; lia. Qed.
Lemma zlen_perm {A} (l l' : list A) : Permutation l l' -> zlen l = zlen l'.
Proof. intros H. unfold zlen. rewrite (Permutation_length H). reflexivity. Qed.
Definition round_verdict (r : option (list bool * Z)) : option (bool * Z) :=
  match r with Some (oks, tend) => Some (forallb (fun b => b) oks, tend) | None => None end.
Lemma round_order_independent timeout_s interval_s rs ps ps' :
  0 <= timeout_s -> Permutation ps ps' ->
  round_verdict (run_round (cfg_chain timeout_s interval_s (zlen ps)) rs ps) =
  round_verdict (run_round (cfg_chain timeout_s interval_s (zlen ps')) rs ps').
Proof.
  intros H HP. rewrite !source_round by assumption.
  rewrite (forallb_perm tok_returns ps ps' HP).
  destruct (forallb tok_returns ps'); [|reflexivity]. cbn [round_verdict].
  rewrite !forallb_map. rewrite (forallb_perm _ ps ps' HP).
  unfold spec_round_dur. rewrite (zsum_perm _ _ (Permutation_map (spec_tok_dur (spec_timeout timeout_s)) HP)). reflexivity.
Qed.

(* independence of the OTHER tokens: whether token p's check is recorded ok does not depend on what comes before or
   after it in the round *)
Lemma token_outcome_independent timeout_s interval_s rs before p after oks tend :
  0 <= timeout_s ->
  run_round (cfg_chain timeout_s interval_s (zlen (before ++ p :: after))) rs (before ++ p :: after) = Some (oks, tend) ->
  nth (length before) oks false = spec_tok_ok (spec_timeout timeout_s) p.
Proof.
  intros H. rewrite source_round by assumption. destruct (forallb tok_returns (before ++ p :: after)); [|discriminate].
  intros E. injection E as <- _. rewrite map_app. cbn [map]. rewrite app_nth2; rewrite map_length; [|lia].
  rewrite Nat.sub_diag. reflexivity.
Qed.

(* ------------------------------------------------------------------ timed histories and the hysteresis *)
Lemma timed_from_refines chain T failures rounds : forall st,
  (forall n, chain_timeout (chain n) = Some T) -> 0 <= T ->
  h_run_timed_from chain failures st rounds =
  fold_left (fun st r => h_check failures st (not_ok_count (r_oks r)) (r_time r)) (spec_hist T rounds) st.
Proof.
  induction rounds as [|r rest IH]; intros st HC HT; cbn [h_run_timed_from spec_hist fold_left]; [reflexivity|].
  rewrite (round_per_token _ T _ _ (HC _) HT).
  destruct (forallb tok_returns (tr_toks r)); [|reflexivity].
  cbn [fold_left spec_round r_oks r_time]. apply IH; assumption.
Qed.
Lemma timed_run_refines chain T failures t0 rounds :
  (forall n, chain_timeout (chain n) = Some T) -> 0 <= T ->
  h_run_timed chain failures t0 rounds = h_run failures t0 (spec_hist T rounds).
Proof. intros. unfold h_run_timed, h_run. apply timed_from_refines; assumption. Qed.

(* the health endpoint over timed histories: the answer is what the property demands of the per-token outcomes *)
Lemma timed_health_refines_spec disabled interval failures timeout_s interval_s t0 rounds now :
  1 <= failures -> 0 <= timeout_s ->
  h_healthy disabled interval (h_run_timed (cfg_chain timeout_s interval_s) failures t0 rounds) now =
  spec_healthy disabled interval failures t0 (spec_hist (spec_timeout timeout_s) rounds) now.
Proof.
  intros HN HT. rewrite (timed_run_refines _ (spec_timeout timeout_s)).
  - apply health_refines_spec. assumption.
  - intros n. apply source_scope_per_token.
  - unfold spec_timeout, ns_per_s. lia.
Qed.

(* tokens that each answer ok in time never trip the failure counter — any number of tokens, any latencies below the
   timeout, any number of rounds: the countdown stays at N *)
Definition all_in_time (T : Z) (rounds : list tround) : Prop :=
  forall r, In r rounds -> forallb (spec_tok_ok T) (tr_toks r) = true.
Lemma in_time_ok_returns T p : spec_tok_ok T p = true -> tok_returns p = true.
Proof.
  unfold spec_tok_ok, tok_returns. destruct (k_res p); cbn [andb]; [|discriminate].
  destruct (k_lat p); [intros _; apply orb_true_r|discriminate].
Qed.
Lemma in_time_trailing T rounds : all_in_time T rounds -> trailing_failures (spec_hist T rounds) = 0.
Proof.
  intros H. unfold trailing_failures.
  assert (G : forall r, In r (rev (spec_hist T rounds)) -> round_ok r = true).
  { intros r Hr. apply in_rev in Hr. revert Hr. induction rounds as [|x rest IH]; cbn [spec_hist]; [intros []|].
    destruct (forallb tok_returns (tr_toks x)); [|intros []].
    intros [<-|Hin].
    - unfold round_ok, spec_round. cbn [r_oks]. rewrite forallb_map. apply H. left. reflexivity.
    - apply IH; [|exact Hin]. intros r' Hr'. apply H. right. exact Hr'. }
  destruct (rev (spec_hist T rounds)) as [|r l]; [reflexivity|]. cbn [trailing_failures_rev].
  rewrite (G r (or_introl eq_refl)). reflexivity.
Qed.
Lemma in_time_never_trips failures timeout_s interval_s t0 rounds :
  1 <= failures -> 0 <= timeout_s -> all_in_time (spec_timeout timeout_s) rounds ->
  h_status (h_run_timed (cfg_chain timeout_s interval_s) failures t0 rounds) = failures.
Proof.
  intros HN HT H. rewrite (timed_run_refines _ (spec_timeout timeout_s)).
  - destruct (run_invariant failures t0 (spec_hist (spec_timeout timeout_s) rounds) HN) as [Hs _].
    rewrite Hs, (in_time_trailing _ _ H). lia.
  - intros n. apply source_scope_per_token.
  - unfold spec_timeout, ns_per_s. lia.
Qed.
Lemma in_time_healthy disabled interval failures timeout_s interval_s t0 rounds now :
  1 <= failures -> 0 <= timeout_s -> all_in_time (spec_timeout timeout_s) rounds ->
  h_healthy disabled interval (h_run_timed (cfg_chain timeout_s interval_s) failures t0 rounds) now =
  negb disabled && (now - last_completed t0 (spec_hist (spec_timeout timeout_s) rounds) <=? 3 * interval).
Proof.
  intros HN HT H. rewrite timed_health_refines_spec by assumption. unfold spec_healthy.
  rewrite (in_time_trailing _ _ H). assert (E : 0 <? failures = true) by lia. rewrite E, andb_true_r. reflexivity.
Qed.

(* necessity: ANY chain with a per-round element of the configured duration fails two tokens that each answer ok in
   time, as soon as their latencies add up to the timeout *)
Lemma per_round_scope_cuts_healthy_tokens T l1 l2 rs :
  0 < l1 -> 0 < l2 -> l1 < T -> l2 < T -> T <= l1 + l2 ->
  run_round [(2, T, true)] rs [mkTok (Some l1) true true; mkTok (Some l2) true true] = Some ([true; false], rs + T) /\
  forallb (spec_tok_ok T) [mkTok (Some l1) true true; mkTok (Some l2) true true] = true.
Proof.
  intros. unfold run_round. cbn [round_trace ping_deadline opt_min elem_deadline Z.eqb Pos.eqb ping_run k_lat k_res k_honours].
  assert (E1 : rs + l1 <? rs + T = true) by lia. rewrite E1.
  assert (E2 : rs + l1 + l2 <? rs + T = false) by lia. rewrite E2.
  rewrite !counted_ok_spec. cbn [negb map snd fst last]. rewrite Z.max_r by lia.
  split; [reflexivity|]. cbn [forallb spec_tok_ok k_lat k_res k_honours andb].
  assert (E3 : l1 <? T = true) by lia. assert (E4 : l2 <? T = true) by lia. rewrite E3, E4. reflexivity.
Qed.

(* ------------------------------------------------------------------ connection with the concurrent model (Lock.v) *)
Lemma run_sys_cons_fst P Q C s a rest :
  fst (run_sys P Q C s (a :: rest)) = fst (run_sys P Q C (fst (step P Q C s a)) rest).
Proof.
  cbn [run_sys]. destruct (step P Q C s a) as [s1 o1]. cbn [fst]. destruct (run_sys P Q C s1 rest). reflexivity.
Qed.
Lemma run_sys_app_fst P Q C a : forall s b,
  fst (run_sys P Q C s (a ++ b)) = fst (run_sys P Q C (fst (run_sys P Q C s a)) b).
Proof.
  induction a as [|x a IH]; intros s b; [reflexivity|].
  cbn [app]. rewrite !run_sys_cons_fst. apply IH.
Qed.

Definition trace_end (now : Z) (tr : list (Z * bool)) : Z := fold_left (fun _ x => fst x) tr now.
Lemma last_trace_end tr : forall d, last (map fst tr) d = trace_end d tr.
Proof.
  unfold trace_end. induction tr as [|a l IH]; intros d; [reflexivity|].
  destruct l as [|b l']; [reflexivity|].
  change (last (map fst (a :: b :: l')) d) with (last (map fst (b :: l')) d). rewrite IH. reflexivity.
Qed.

(* the pings of a round in flight, played out: the round is published with exactly the recorded outcomes, stamped with
   the moment the last ping returns *)
Lemma pings_publish P Q C tr : forall s now notok ll,
  good_plan P ->
  tr <> [] -> s_now s = now -> s_phase s = CPing (length tr) notok ll ->
  s_held s = false -> s_leaked s = false -> s_closed s = false ->
  let s' := fst (run_sys P Q C s (sched_of_trace now tr)) in
  s_hist s' = s_hist s ++ [mkR (s_cur s ++ map snd tr) (trace_end now tr)] /\
  s_phase s' = CIdle /\ s_now s' = trace_end now tr /\ s_closed s' = false.
Proof.
  induction tr as [|[t ok] rest IH]; intros s now notok ll GP Hne Hnow Hph Hh Hl Hc; [congruence|].
  pose proof GP as (G1 & G2 & G3).
  change (sched_of_trace now ((t, ok) :: rest)) with (ATick (t - now) :: APing ok :: sched_of_trace t rest).
  cbn zeta. rewrite !run_sys_cons_fst.
  cbn [step fst s_phase]. rewrite Hph. cbn [length].
  cbn [s_st s_now s_closed s_held s_leaked s_hist s_cur s_late fst].
  unfold next_ping. destruct rest as [|x rest'].
  - cbn [length]. unfold publish. cbn [s_held s_leaked s_st s_now s_closed s_hist s_cur s_late]. rewrite Hh, Hl. cbn [negb andb].
    cbn [sched_of_trace run_sys fst s_hist s_phase s_now s_closed map snd trace_end fold_left].
    rewrite Hnow. replace (now + (t - now)) with t by lia. rewrite Hc. repeat split; reflexivity.
  - cbn [length]. cbn [s_closed]. rewrite Hc, andb_false_r.
    cbn [s_st s_now s_closed s_held s_leaked s_hist s_cur s_late].
    match goal with |- context [run_sys P Q C ?s1 _] => set (s1' := s1) end.
    assert (Hn1 : s_now s1' = t) by (subst s1'; cbn [s_now]; lia).
    destruct (IH s1' t (if ok then notok else notok + 1) ll GP ltac:(discriminate) Hn1 eq_refl Hh Hl eq_refl) as (I1 & I2 & I3 & I4).
    cbn zeta in I1, I2, I3, I4. rewrite I1, I2, I3, I4.
    subst s1'. cbn [s_hist s_cur map snd]. rewrite <- app_assoc. cbn [app].
    repeat split; reflexivity.
Qed.

Lemma spec_trace_length T ps : forall now, length (spec_trace T now ps) = length ps.
Proof. induction ps as [|p r IH]; intros now; cbn [spec_trace length]; [reflexivity|]. rewrite IH. reflexivity. Qed.
Lemma spec_trace_trace_end T ps now : trace_end now (spec_trace T now ps) = now + spec_round_dur T ps.
Proof.
  rewrite <- last_trace_end, spec_trace_end. destruct ps; [|reflexivity]. unfold spec_round_dur. cbn. lia.
Qed.

(* one whole round of the concurrent model, its pings timed by the scope model: what gets published is the round the
   specification describes *)
Lemma round_published P Q C t0 chain T s rs ps :
  good_plan P -> good_qplan Q -> inv C t0 s -> s_phase s = CIdle -> s_closed s = false ->
  c_tokens C = length ps -> chain_timeout chain = Some T -> 0 <= T -> forallb tok_returns ps = true ->
  let s' := fst (run_sys P Q C s (round_sched chain (s_now s) rs ps)) in
  s_hist s' = s_hist s ++ [mkR (map (spec_tok_ok T) ps) (rs + spec_round_dur T ps)] /\
  s_phase s' = CIdle /\ s_closed s' = false /\ s_now s' = rs + spec_round_dur T ps.
Proof.
  intros GP GQ Hi Hph Hc Hn HC HT Hret. pose proof GP as (G1 & G2 & G3). pose proof Hi as (Hh & Hl & Hst & _).
  cbn zeta. unfold round_sched. rewrite (trace_per_token chain T rs ps rs HC HT), Hret.
  rewrite !run_sys_cons_fst. cbn [step fst s_phase]. rewrite Hph.
  cbn [s_st s_now s_closed s_held s_leaked s_hist s_cur s_late fst]. rewrite Hl. cbn [fst].
  unfold next_ping. rewrite Hn. destruct ps as [|p rest].
  - cbn [length]. unfold publish. cbn [s_held s_leaked s_st s_now s_closed s_hist s_cur s_late]. rewrite G1. cbn [negb andb].
    cbn [spec_trace sched_of_trace run_sys fst s_hist s_phase s_now s_closed map].
    unfold spec_round_dur. cbn [map zsum fold_right].
    replace (s_now s + (rs - s_now s)) with (rs + 0) by lia. rewrite Hc. repeat split; reflexivity.
  - cbn [length s_closed]. rewrite Hc, andb_false_r.
    cbn [s_st s_now s_closed s_held s_leaked s_hist s_cur s_late].
    match goal with |- context [run_sys P Q C ?s1 _] => set (s1' := s1) end.
    assert (Hn1 : s_now s1' = rs) by (subst s1'; cbn [s_now]; lia).
    assert (Hlen : s_phase s1' = CPing (length (spec_trace T rs (p :: rest))) 0 (h_status (s_st s))).
    { subst s1'. cbn [s_phase]. rewrite spec_trace_length. reflexivity. }
    assert (Hne : spec_trace T rs (p :: rest) <> []) by (cbn [spec_trace]; discriminate).
    destruct (pings_publish P Q C _ s1' rs _ _ GP Hne Hn1 Hlen G1 eq_refl eq_refl) as (I1 & I2 & I3 & I4).
    cbn zeta in I1, I2, I3, I4. rewrite I1, I2, I3, I4.
    subst s1'. cbn [s_hist s_cur app]. rewrite spec_trace_oks, spec_trace_trace_end. repeat split; reflexivity.
Qed.

(* any number of rounds, one after the other: the published history is the specification's history of the timed rounds *)
Lemma rounds_published P Q C t0 chain T rounds : forall s,
  good_plan P -> good_qplan Q -> inv C t0 s -> s_phase s = CIdle -> s_closed s = false ->
  (forall r, In r rounds -> c_tokens C = length (tr_toks r)) ->
  (forall n, chain_timeout (chain n) = Some T) -> 0 <= T ->
  let s' := fst (run_sys P Q C s (rounds_sched chain (s_now s) rounds)) in
  s_hist s' = s_hist s ++ spec_hist T rounds /\ inv C t0 s'.
Proof.
  induction rounds as [|r rest IH]; intros s GP GQ Hi Hph Hc Hn HC HT; cbn zeta.
  - cbn [rounds_sched run_sys fst spec_hist]. rewrite app_nil_r. split; [reflexivity|exact Hi].
  - cbn [rounds_sched spec_hist]. rewrite run_sys_app_fst.
    rewrite (round_per_token _ T _ _ (HC _) HT).
    destruct (forallb tok_returns (tr_toks r)) eqn:Hret.
    + destruct (round_published P Q C t0 (chain (zlen (tr_toks r))) T s (tr_start r) (tr_toks r) GP GQ Hi Hph Hc (Hn r (or_introl eq_refl)) (HC _) HT Hret)
        as (I1 & I2 & I3 & I4). cbn zeta in I1, I2, I3, I4.
      set (s1 := fst (run_sys P Q C s (round_sched (chain (zlen (tr_toks r))) (s_now s) (tr_start r) (tr_toks r)))) in *.
      assert (Hi1 : inv C t0 s1) by (apply run_inv; assumption).
      rewrite <- I4.
      destruct (IH s1 GP GQ Hi1 I2 I3 (fun r' H => Hn r' (or_intror H)) HC HT) as (J1 & J2). cbn zeta in J1, J2.
      split; [|exact J2]. rewrite J1, I1, <- app_assoc. reflexivity.
    + change (fst (run_sys P Q C ?x [])) with x. rewrite app_nil_r. split; [|apply run_inv; assumption].
      unfold round_sched. rewrite (trace_per_token _ T _ _ _ (HC _) HT), Hret.
      rewrite !run_sys_cons_fst. cbn [run_sys fst step s_phase]. rewrite Hph.
      pose proof Hi as (Hh & Hl & _). cbn [s_leaked]. rewrite Hl. cbn [fst].
      unfold next_ping. rewrite (Hn r (or_introl eq_refl)).
      destruct (tr_toks r) as [|p ps]; [discriminate|]. cbn [length s_closed]. rewrite Hc, andb_false_r. reflexivity.
Qed.

(* the current source, from the initial state: after any timed rounds the published history is the specification's, and a
   query made any time later is answered, with what the property demands of the per-token outcomes *)
Lemma timed_rounds_concurrent C timeout_s interval_s t0 rounds :
  1 <= c_failures C -> 0 <= timeout_s ->
  (forall r, In r rounds -> c_tokens C = length (tr_toks r)) ->
  let s := fst (run_sys hc_plan healthy_plan C (init C t0 t0) (rounds_sched (cfg_chain timeout_s interval_s) t0 rounds)) in
  s_hist s = spec_hist (spec_timeout timeout_s) rounds /\
  forall d, snd (run_sys hc_plan healthy_plan C s [ATick d; AQuery]) =
            [OAns (spec_healthy (c_disabled C) (c_interval C) (c_failures C) t0
                     (spec_hist (spec_timeout timeout_s) rounds) (s_now s + d)) (s_now s + d)].
Proof.
  intros HN HT Hn s.
  assert (HT' : 0 <= spec_timeout timeout_s) by (unfold spec_timeout, ns_per_s; lia).
  pose proof (rounds_published hc_plan healthy_plan C t0 (cfg_chain timeout_s interval_s) (spec_timeout timeout_s) rounds (init C t0 t0)
              (proj1 hc_plan_good) healthy_plan_good (init_inv C t0 t0) eq_refl eq_refl Hn
              (fun n => source_scope_per_token timeout_s interval_s n) HT') as H.
  cbn zeta in H.
  assert (H1 : s_hist s = spec_hist (spec_timeout timeout_s) rounds) by exact (proj1 H).
  assert (H2 : inv C t0 s) by exact (proj2 H).
  split; [exact H1|].
  intros d.
  rewrite (queries_answered_from_published hc_plan healthy_plan C t0 [ATick d; AQuery] s (proj1 hc_plan_good) healthy_plan_good HN H2).
  cbn [spec_obs step fst app]. unfold spec_answer. cbn [s_hist s_now]. rewrite H1. reflexivity.
Qed.
