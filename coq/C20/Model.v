(* C20/Model.v — health check state machine (server/view_health.go) and the property's specification. *)
From Relic Require Import Base.Prelude Generated.C20_gen.

Record hstate := mkH { h_status : Z; h_last : Z }.

Definition h_init (failures t0 : Z) : hstate := mkH (health_init_status failures) t0.

(* one round of healthCheck: n_not_ok = number of tokens whose ping failed or timed out; t = completion time *)
Definition h_check (failures : Z) (st : hstate) (n_not_ok t : Z) : hstate :=
  let last := h_status st in
  let next := hc_start_value last in
  let next := if hc_all_ok n_not_ok then hc_reset_value failures
              else if hc_can_decrement last then (if hc_decrements then next - 1 else next) else next in
  mkH next t.

Definition h_healthy (disabled : bool) (interval : Z) (st : hstate) (now : Z) : bool :=
  healthy_gen disabled (now - h_last st) interval (h_status st).

(* a round: per-token outcomes (true = ok) and completion time *)
Record round := mkR { r_oks : list bool; r_time : Z }.
Definition not_ok_count (oks : list bool) : Z := zlen (filter negb oks).
Definition h_run (failures t0 : Z) (hist : list round) : hstate :=
  fold_left (fun st r => h_check failures st (not_ok_count (r_oks r)) (r_time r)) hist (h_init failures t0).

(* ---- specification, written from the property text *)
Definition round_ok (r : round) : bool := forallb (fun b => b) (r_oks r).
(* number of most recent consecutive failed rounds *)
Fixpoint trailing_failures_rev (rev_hist : list round) : Z :=
  match rev_hist with
  | [] => 0
  | r :: rest => if round_ok r then 0 else 1 + trailing_failures_rev rest
  end.
Definition trailing_failures (hist : list round) : Z := trailing_failures_rev (rev hist).
Definition last_completed (t0 : Z) (hist : list round) : Z :=
  match rev hist with [] => t0 | r :: _ => r_time r end.
(* healthy iff not disabled, checks completed within three intervals, and not (the last N checks all failed) *)
Definition spec_healthy (disabled : bool) (interval failures t0 : Z) (hist : list round) (now : Z) : bool :=
  negb disabled && (now - last_completed t0 hist <=? 3 * interval) && (trailing_failures hist <? failures).

(* the background loop: what the select arm for the closed channel does *)
Inductive loop_action := Exit | Spin.
Definition loop_on_closed : loop_action := if loop_closed_exits then Exit else Spin.
