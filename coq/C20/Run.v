(* C20/Run.v — model evaluation on harness histories.
   input: [failures disabled interval t0 [ [ [oks...] time [q1 q2 ...] ] ... ]]  (query times after each round)
   output: [ [ [model_q1 spec_q1 model_q2 spec_q2 ...] ... ] loop_exits ] *)
From Relic Require Import Base.Prelude Base.Val Generated.C20_gen C20.Model.

Definition vround (v : val) : round := mkR (map vbool (vl (vnth 0 v))) (vz (vnth 1 v)).
Fixpoint go (failures : Z) (disabled : bool) (interval t0 : Z) (done : list round) (rest : list val) : list val :=
  match rest with
  | [] => []
  | v :: rest' =>
      let done' := done ++ [vround v] in
      let st := h_run failures t0 done' in
      VL (flat_map (fun q => [of_bool (h_healthy disabled interval st (vz q));
                              of_bool (spec_healthy disabled interval failures t0 done' (vz q))]) (vl (vnth 2 v)))
      :: go failures disabled interval t0 done' rest'
  end.
Definition run (v : val) : val :=
  VL [VL (go (vz (vnth 0 v)) (vbool (vnth 1 v)) (vz (vnth 2 v)) (vz (vnth 3 v)) [] (vl (vnth 4 v)));
      of_bool loop_closed_exits].
