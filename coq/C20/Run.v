(* C20/Run.v — model evaluation on harness histories.
   input: [failures disabled interval t0 [ [ [oks...] time [q1 q2 ...] ] ... ]]  (query times after each round)
   output: [ [ [model_q1 spec_q1 model_q2 spec_q2 ...] ... ] loop_exits ] *)
From Relic Require Import Base.Prelude Base.Val Generated.C20_gen C20.Model C20.Lock.

Definition vround (v : val) : round := mkR (map vbool (vl (vnth 0 v))) (vz (vnth 1 v)).
Fixpoint go (failures : Z) (disabled : bool) (interval t0 : Z) (done : list round) (rest : list val) : list val :=
  match rest with
  | [] => []
  | v :: rest' =>
      let done' := done ++ [vround v] in
      let st := h_run failures t0 done' in
      VL (flat_map (fun q => [of_bool (h_healthy disabled interval st (vz q));
                              of_bool (spec_healthy disabled interval failures t0 done' (vz q))]) (vl (vnth 2 v)))
      :: go failures disabled interval t0 done' rest'
  end.
Definition run_hist (v : val) : val :=
  VL [VL (go (vz (vnth 0 v)) (vbool (vnth 1 v)) (vz (vnth 2 v)) (vz (vnth 3 v)) [] (vl (vnth 4 v)));
      of_bool loop_closed_exits].

(* concurrent scenarios.
   input:  [-1 failures disabled interval tokens t0 now0 [action ...]]
           action = [0 d] time passes | [1] a round begins | [2 ok] the ping in flight returns | [3] GET /health | [4] Close
   output: [ [obs ...] [spec-obs ...] [flags] late stuck published ]
           obs = [1 healthy t] answered | [0 t] blocked behind healthMu
           flags = [analysis-understands-healthCheck ping_locked closed_check leak_early leak_end
                    analysis-understands-Healthy q_early q_block_locked q_leak close_joins_loop q_locks] *)
Definition vaction (v : val) : action :=
  match vz (vnth 0 v) with
  | 0 => ATick (vz (vnth 1 v))
  | 1 => ABegin
  | 2 => APing (vbool (vnth 1 v))
  | 3 => AQuery
  | _ => AClose
  end.
Definition of_obs (o : obs) : val :=
  match o with OAns b t => VL [VZ 1; of_bool b; VZ t] | OBlocked t => VL [VZ 0; VZ t] end.
Definition plan_flags : val :=
  VL [of_bool (match analyze hc_events with Some _ => true | None => false end);
      of_bool (p_ping_locked hc_plan); of_bool (p_closed_check hc_plan); of_bool (p_leak_early hc_plan); of_bool (p_leak_end hc_plan);
      of_bool (match analyze_q healthy_events with Some _ => true | None => false end);
      of_bool (q_early healthy_plan); of_bool (q_block_locked healthy_plan); of_bool (q_leak healthy_plan);
      of_bool close_joins_loop; of_bool (q_locks healthy_plan)].
Definition run_conc (v : val) : val :=
  let C := mkCfg (vz (vnth 1 v)) (vbool (vnth 2 v)) (vz (vnth 3 v)) (Z.to_nat (vz (vnth 4 v))) in
  let t0 := vz (vnth 5 v) in
  let s0 := init C t0 (vz (vnth 6 v)) in
  let sched := map vaction (vl (vnth 7 v)) in
  let '(s, os) := run_sys hc_plan healthy_plan C s0 sched in
  VL [VL (map of_obs os); VL (map of_obs (spec_obs hc_plan healthy_plan C t0 s0 sched)); plan_flags;
      VZ (s_late s); of_bool (match s_phase s with CStuck => true | _ => false end); VZ (zlen (s_hist s))].
Definition run (v : val) : val :=
  if vz (vnth 0 v) =? -1 then run_conc v else run_hist v.
