(* C20/Run.v — model evaluation on harness histories.
   input: [failures disabled interval t0 [ [ [oks...] time [q1 q2 ...] ] ... ]]  (query times after each round)
   output: [ [ [model_q1 spec_q1 model_q2 spec_q2 ...] ... ] loop_exits ] *)
From Relic Require Import Base.Prelude Base.Val Generated.C20_gen C20.Model C20.Lock C20.Scope.

Definition vround (v : val) : round := mkR (map vbool (vl (vnth 0 v))) (vz (vnth 1 v)).
Fixpoint go (failures : Z) (disabled : bool) (interval t0 : Z) (done : list round) (rest : list val) : list val :=
  match rest with
  | [] => []
  | v :: rest' =>
      let done' := done ++ [vround v] in
      let st := h_run failures t0 done' in
      VL (flat_map (fun q => [of_bool (h_healthy disabled interval st (vz q));
                              of_bool (spec_healthy disabled interval failures t0 done' (vz q))]) (vl (vnth 2 v)))
      :: go failures disabled interval t0 done' rest'
  end.
Definition run_hist (v : val) : val :=
  VL [VL (go (vz (vnth 0 v)) (vbool (vnth 1 v)) (vz (vnth 2 v)) (vz (vnth 3 v)) [] (vl (vnth 4 v)));
      of_bool loop_closed_exits].

(* concurrent scenarios.
   input:  [-1 failures disabled interval tokens t0 now0 [action ...]]
           action = [0 d] time passes | [1] a round begins | [2 ok] the ping in flight returns | [3] GET /health | [4] Close
   output: [ [obs ...] [spec-obs ...] [flags] late stuck published ]
           obs = [1 healthy t] answered | [0 t] blocked behind healthMu
           flags = [analysis-understands-healthCheck ping_locked closed_check leak_early leak_end
                    analysis-understands-Healthy q_early q_block_locked q_leak close_joins_loop q_locks] *)
Definition vaction (v : val) : action :=
  match vz (vnth 0 v) with
  | 0 => ATick (vz (vnth 1 v))
  | 1 => ABegin
  | 2 => APing (vbool (vnth 1 v))
  | 3 => AQuery
  | _ => AClose
  end.
Definition of_obs (o : obs) : val :=
  match o with OAns b t => VL [VZ 1; of_bool b; VZ t] | OBlocked t => VL [VZ 0; VZ t] end.
Definition plan_flags : val :=
  VL [of_bool (match analyze hc_events with Some _ => true | None => false end);
      of_bool (p_ping_locked hc_plan); of_bool (p_closed_check hc_plan); of_bool (p_leak_early hc_plan); of_bool (p_leak_end hc_plan);
      of_bool (match analyze_q healthy_events with Some _ => true | None => false end);
      of_bool (q_early healthy_plan); of_bool (q_block_locked healthy_plan); of_bool (q_leak healthy_plan);
      of_bool close_joins_loop; of_bool (q_locks healthy_plan)].
Definition run_conc (v : val) : val :=
  let C := mkCfg (vz (vnth 1 v)) (vbool (vnth 2 v)) (vz (vnth 3 v)) (Z.to_nat (vz (vnth 4 v))) in
  let t0 := vz (vnth 5 v) in
  let s0 := init C t0 (vz (vnth 6 v)) in
  let sched := map vaction (vl (vnth 7 v)) in
  let '(s, os) := run_sys hc_plan healthy_plan C s0 sched in
  VL [VL (map of_obs os); VL (map of_obs (spec_obs hc_plan healthy_plan C t0 s0 sched)); plan_flags;
      VZ (s_late s); of_bool (match s_phase s with CStuck => true | _ => false end); VZ (zlen (s_hist s))].
(* timed rounds (timeout scope of the pings); all times in ns.
   input:  [-2 failures disabled interval_ns timeout_s interval_s t0 [ [start [[lat res honours] ...] [q ...]] ... ]]
           lat < 0 = the token never answers on its own; tokens in the order in which they were pinged
   output: [ [ [completed [ok ...] tend [[has-deadline, deadline of the context minus start of the ping] per ping] [model_q spec_q ...]] ... ]
             [chain as [site dur live] for this configuration and 2 tokens] ] *)
Definition vtok (v : val) : tok :=
  mkTok (if vz (vnth 0 v) <? 0 then None else Some (vz (vnth 0 v))) (vbool (vnth 1 v)) (vbool (vnth 2 v)).
Definition vtround (v : val) : tround := mkTR (vz (vnth 0 v)) (map vtok (vl (vnth 1 v))).
Fixpoint budgets (chain : list elem) (rs now : Z) (tr : list (Z * bool)) : list val :=
  match tr with
  | [] => []
  | (t', _) :: rest => (match ping_deadline chain rs now with Some d => VL [VZ 1; VZ (d - now)] | None => VL [VZ 0; VZ 0] end) :: budgets chain rs t' rest
  end.
Fixpoint go_timed (chain : Z -> list elem) (failures : Z) (disabled : bool) (interval T t0 : Z) (done : list tround) (rest : list val) : list val :=
  match rest with
  | [] => []
  | v :: rest' =>
      let r := vtround v in
      let done' := done ++ [r] in
      let c := chain (zlen (tr_toks r)) in
      let st := h_run_timed chain failures t0 done' in
      let sh := spec_hist T done' in
      VL [of_bool (match run_round c (tr_start r) (tr_toks r) with Some _ => true | None => false end);
          VL (match run_round c (tr_start r) (tr_toks r) with Some (oks, _) => map of_bool oks | None => [] end);
          VZ (match run_round c (tr_start r) (tr_toks r) with Some (_, tend) => tend | None => -1 end);
          VL (match round_trace c (tr_start r) (tr_start r) (tr_toks r) with Some tr => budgets c (tr_start r) (tr_start r) tr | None => [] end);
          VL (flat_map (fun q => [of_bool (h_healthy disabled interval st (vz q));
                                  of_bool (spec_healthy disabled interval failures t0 sh (vz q))]) (vl (vnth 2 v)))]
      :: go_timed chain failures disabled interval T t0 done' rest'
  end.
Definition run_timed (v : val) : val :=
  let failures := vz (vnth 1 v) in
  let disabled := vbool (vnth 2 v) in
  let interval := vz (vnth 3 v) in
  let timeout_s := vz (vnth 4 v) in
  let interval_s := vz (vnth 5 v) in
  let t0 := vz (vnth 6 v) in
  VL [VL (go_timed (cfg_chain timeout_s interval_s) failures disabled interval (spec_timeout timeout_s) t0 [] (vl (vnth 7 v)));
      VL (map (fun e : elem => VL [VZ (fst (fst e)); VZ (snd (fst e)); of_bool (snd e)]) (cfg_chain timeout_s interval_s 2))].

Definition run (v : val) : val :=
  if vz (vnth 0 v) =? -1 then run_conc v
  else if vz (vnth 0 v) =? -2 then run_timed v
  else run_hist v.
