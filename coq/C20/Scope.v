(* C20/Scope.v — the TIMEOUT SCOPE of the token pings (server/view_health.go: healthCheck -> pingOne -> Token.Ping).

   What is generated (Generated/C20_gen.v, srcgen pingScope):
     ping_ctx_chain timeout_s interval_s n_tokens : list (site, duration in ns, live)
         the contexts between context.Background() and the argument of Token.Ping; site 1 = the creating statement runs
         once per token (inside the token loop or in a function called from it), site 2 = once per round (in healthCheck,
         outside the loop); live = false when its cancel function is called before the ping;
     ping_one_ok err_nonnil ctx_expired   the return tree of pingOne;
     hc_token_not_ok ping_ok              the path condition under which healthCheck appends the token to notOK.

   Model.  A token's Ping has a real latency (or never answers on its own), an answer (ok / error) and either honours the
   context it is given (returns ctx.Err() when the deadline comes first — token/worker's HTTP ping) or ignores it.  The
   pings of a round are made one after the other; the k-th starts when the (k-1)-th has returned.  The deadline a ping
   sees is the earliest deadline on its context chain: creation time of the element (start of this ping for site 1, start
   of the round for site 2) plus its duration.  All times in nanoseconds.

   Specification (from the property text and the documentation of token_check_timeout: the time EACH token has to answer):
   a token's check is ok iff the token answers ok and — if it can be interrupted — within the timeout counted from the
   start of ITS ping; the round is ok iff every token's check is ok. *)
From Relic Require Import Base.Prelude Generated.C20_gen C20.Model C20.Lock.

Record tok := mkTok {
  k_lat : option Z;      (* time the token needs to answer; None = never answers on its own *)
  k_res : bool;          (* the answer: true = ok, false = an error *)
  k_honours : bool }.    (* Ping returns ctx.Err() as soon as its context is done *)

Definition elem := (Z * Z * bool)%type.

Definition elem_deadline (rs ps : Z) (e : elem) : Z :=
  let '(site, dur, live) := e in
  let created := if site =? 1 then ps else rs in
  if live then created + dur else created.
Definition opt_min (a : option Z) (b : Z) : option Z :=
  match a with None => Some b | Some x => Some (Z.min x b) end.
(* the deadline of the context handed to a ping that starts at ps in a round that started at rs; None = no deadline *)
Fixpoint ping_deadline (chain : list elem) (rs ps : Z) : option Z :=
  match chain with
  | [] => None
  | e :: rest => opt_min (ping_deadline rest rs ps) (elem_deadline rs ps e)
  end.

(* one call of Token.Ping: (time of return, err != nil, ctx.Err() != nil at that moment), or None = never returns *)
Definition ping_run (p : tok) (start : Z) (dl : option Z) : option (Z * bool * bool) :=
  match k_lat p, dl with
  | Some l, None => Some (start + l, negb (k_res p), false)
  | Some l, Some d =>
      if k_honours p
      then if start + l <? d then Some (start + l, negb (k_res p), false) else Some (Z.max start d, true, true)
      else Some (start + l, negb (k_res p), d <=? start + l)
  | None, Some d => if k_honours p then Some (Z.max start d, true, true) else None
  | None, None => None
  end.

(* what healthCheck records for the token: it is ok unless it is appended to notOK *)
Definition tok_counted_ok (err_nonnil ctx_expired : bool) : bool :=
  negb (hc_token_not_ok (ping_one_ok err_nonnil ctx_expired)).

(* the pings of a round in iteration order: per ping, the time it returns and what is recorded *)
Fixpoint round_trace (chain : list elem) (rs now : Z) (ps : list tok) : option (list (Z * bool)) :=
  match ps with
  | [] => Some []
  | p :: rest =>
      match ping_run p now (ping_deadline chain rs now) with
      | None => None
      | Some (t', err, expired) =>
          match round_trace chain rs t' rest with
          | None => None
          | Some l => Some ((t', tok_counted_ok err expired) :: l)
          end
      end
  end.
(* the round: recorded outcomes and the moment the last ping returns (= when the state is written); None = it hangs *)
Definition run_round (chain : list elem) (rs : Z) (ps : list tok) : option (list bool * Z) :=
  match round_trace chain rs rs ps with
  | Some tr => Some (map snd tr, last (map fst tr) rs)
  | None => None
  end.

(* ---- timed histories: rounds given by their start time and the behaviour of the tokens, in iteration order *)
Record tround := mkTR { tr_start : Z; tr_toks : list tok }.
Fixpoint h_run_timed_from (chain : Z -> list elem) (failures : Z) (st : hstate) (rounds : list tround) : hstate :=
  match rounds with
  | [] => st
  | r :: rest =>
      match run_round (chain (zlen (tr_toks r))) (tr_start r) (tr_toks r) with
      | Some (oks, tend) => h_run_timed_from chain failures (h_check failures st (not_ok_count oks) tend) rest
      | None => st         (* healthCheck never returns: the loop makes no further round, nothing is written again *)
      end
  end.
Definition h_run_timed (chain : Z -> list elem) (failures t0 : Z) (rounds : list tround) : hstate :=
  h_run_timed_from chain failures (h_init failures t0) rounds.

(* the chain of the current source for a configuration (seconds, as in the configuration file) *)
Definition cfg_chain (timeout_s interval_s : Z) : Z -> list elem := ping_ctx_chain timeout_s interval_s.

(* ------------------------------------------------------------------ specification *)
Definition ns_per_s : Z := 1000000000.
(* token_check_timeout (seconds) is the time each token has to answer *)
Definition spec_timeout (timeout_s : Z) : Z := ns_per_s * timeout_s.

Definition spec_tok_ok (T : Z) (p : tok) : bool :=
  k_res p && match k_lat p with
             | Some l => if k_honours p then l <? T else true
             | None => false
             end.
(* how long the check of one token takes *)
Definition spec_tok_dur (T : Z) (p : tok) : Z :=
  match k_lat p with
  | Some l => if k_honours p then (if l <? T then l else T) else l
  | None => T
  end.
(* the check of this token ends at all: it can be interrupted, or it answers *)
Definition tok_returns (p : tok) : bool :=
  k_honours p || match k_lat p with Some _ => true | None => false end.
Definition zsum (l : list Z) : Z := fold_right Z.add 0 l.
Definition spec_round_dur (T : Z) (ps : list tok) : Z := zsum (map (spec_tok_dur T) ps).
Definition spec_round (T : Z) (r : tround) : round :=
  mkR (map (spec_tok_ok T) (tr_toks r)) (tr_start r + spec_round_dur T (tr_toks r)).
(* the completed rounds of a timed history: everything up to the first round that never ends *)
Fixpoint spec_hist (T : Z) (rounds : list tround) : list round :=
  match rounds with
  | [] => []
  | r :: rest => if forallb tok_returns (tr_toks r) then spec_round T r :: spec_hist T rest else []
  end.
Fixpoint spec_trace (T now : Z) (ps : list tok) : list (Z * bool) :=
  match ps with
  | [] => []
  | p :: rest => (now + spec_tok_dur T p, spec_tok_ok T p) :: spec_trace T (now + spec_tok_dur T p) rest
  end.

(* the scope is per token: every context on the chain is created once per token; the effective timeout is then the
   smallest duration on the chain (ping_deadline for a ping starting at 0) *)
Definition all_per_token (chain : list elem) : bool := forallb (fun e : elem => fst (fst e) =? 1) chain.
Definition chain_timeout (chain : list elem) : option Z :=
  if all_per_token chain then ping_deadline chain 0 0 else None.

(* ------------------------------------------------------------------ connection with the concurrent model (Lock.v) *)
(* the schedule that a trace of pings induces: time passes until the ping returns, then it returns *)
Fixpoint sched_of_trace (now : Z) (tr : list (Z * bool)) : list action :=
  match tr with
  | [] => []
  | (t', ok) :: rest => ATick (t' - now) :: APing ok :: sched_of_trace t' rest
  end.
(* a round whose timer fires at rs (the system clock being at `now`), with the token behaviours ps *)
Definition round_sched (chain : list elem) (now rs : Z) (ps : list tok) : list action :=
  match round_trace chain rs rs ps with
  | Some tr => ATick (rs - now) :: ABegin :: sched_of_trace rs tr
  | None => [ATick (rs - now); ABegin]
  end.
Fixpoint rounds_sched (chain : Z -> list elem) (now : Z) (rounds : list tround) : list action :=
  match rounds with
  | [] => []
  | r :: rest =>
      round_sched (chain (zlen (tr_toks r))) now (tr_start r) (tr_toks r) ++
      match run_round (chain (zlen (tr_toks r))) (tr_start r) (tr_toks r) with
      | Some (_, tend) => rounds_sched chain tend rest
      | None => []
      end
  end.
