From Relic Require Import Base.Prelude Generated.C20_gen C20.Model.

Lemma not_ok_count_zero oks : not_ok_count oks = 0 <-> forallb (fun b => b) oks = true.
Proof.
  unfold not_ok_count. induction oks as [|b r IH]; cbn [filter forallb].
  - rewrite zlen_nil. tauto.
  - destruct b; cbn [negb andb].
    + exact IH.
    + rewrite zlen_cons. pose proof (zlen_nonneg (filter negb r)). split; [lia|discriminate].
Qed.

(* invariant: remaining tolerance = N - min N (trailing failures) *)
Lemma run_invariant failures t0 hist :
  1 <= failures ->
  h_status (h_run failures t0 hist) = failures - Z.min failures (trailing_failures hist) /\
  h_last (h_run failures t0 hist) = last_completed t0 hist.
Proof.
  intros HN. induction hist as [|r hist IH] using rev_ind.
  - cbn. unfold trailing_failures, last_completed, health_init_status. cbn. split; lia.
  - unfold h_run in *. rewrite fold_left_app. cbn [fold_left].
    destruct IH as [IHs IHl].
    unfold trailing_failures, last_completed in *. rewrite rev_unit. cbn [trailing_failures_rev].
    unfold h_check at 1. cbn [h_status h_last].
    unfold hc_all_ok, hc_reset_value, hc_can_decrement, hc_decrements, hc_start_value.
    split; [|reflexivity].
    unfold round_ok. destruct (forallb (fun b => b) (r_oks r)) eqn:Hok.
    + apply not_ok_count_zero in Hok. rewrite Hok. change (0 =? 0) with true. cbv iota. rewrite Z.min_r by lia. lia.
    + assert (Hnz : not_ok_count (r_oks r) <> 0).
      { intro H. apply not_ok_count_zero in H. congruence. }
      destruct (not_ok_count (r_oks r) =? 0) eqn:E; [lia|].
      rewrite IHs.
      assert (0 <= trailing_failures_rev (rev hist)).
      { clear. induction (rev hist) as [|x l IH]; cbn [trailing_failures_rev]; [lia|]. destruct (round_ok x); lia. }
      pose proof (Z.min_spec failures (trailing_failures_rev (rev hist))) as M1.
      pose proof (Z.min_spec failures (1 + trailing_failures_rev (rev hist))) as M2.
      destruct (failures - Z.min failures (trailing_failures_rev (rev hist)) >? 0) eqn:E2; lia.
Qed.

Lemma health_refines_spec disabled interval failures t0 hist now :
  1 <= failures ->
  h_healthy disabled interval (h_run failures t0 hist) now = spec_healthy disabled interval failures t0 hist now.
Proof.
  intros HN. destruct (run_invariant failures t0 hist HN) as [Hs Hl].
  unfold h_healthy, healthy_gen, spec_healthy. rewrite Hs, Hl.
  destruct disabled; cbn [negb andb]; [reflexivity|].
  assert (0 <= trailing_failures hist).
  { unfold trailing_failures. induction (rev hist) as [|x l IH]; cbn [trailing_failures_rev]; [lia|]. destruct (round_ok x); lia. }
  pose proof (Z.min_spec failures (trailing_failures hist)) as M1.
  destruct (now - last_completed t0 hist >? 3 * interval) eqn:E1;
  destruct (now - last_completed t0 hist <=? 3 * interval) eqn:E2; try lia; cbn [andb]; try reflexivity.
  all: destruct (trailing_failures hist <? failures) eqn:E3; lia.
Qed.

Lemma one_success_restores disabled interval failures t0 hist oks t :
  1 <= failures -> forallb (fun b => b) oks = true -> disabled = false -> 0 <= interval ->
  h_healthy disabled interval (h_run failures t0 (hist ++ [mkR oks t])) t = true.
Proof.
  intros HN Hok Hd Hi. rewrite health_refines_spec by assumption. subst disabled.
  unfold spec_healthy, last_completed, trailing_failures. rewrite rev_unit. cbn [r_time trailing_failures_rev negb andb].
  unfold round_ok. cbn [r_oks]. rewrite Hok. lia.
Qed.

Lemma close_exits : loop_on_closed = Exit.
Proof. reflexivity. Qed.
