(* C20/Lock.v — the lock discipline of server/view_health.go and the health endpoint under concurrency.

   Static part.  srcgen linearises healthCheck, Healthy, serveHealth and pingOne into event lists (Generated/C20_gen.v:
   hc_events, healthy_events, serve_health_events, ping_one_events).  Codes:
      1 healthMu.Lock()   2 healthMu.Unlock()   3 defer healthMu.Unlock()
      4 read healthStatus 5 read healthLastPing 6 write healthStatus  7 write healthLastPing
      8 token ping        9 next block is guarded by <-s.Closed       10 return
     11 / 12  begin / end of `for ... range s.tokens`                 13 / 14 begin / end of a conditional block
     15 / 16  function literal or go statement                        17 other blocking primitive
   `annot` is an abstract interpreter for these lists (who holds the mutex at each event, what is deferred);
   `analyze` / `analyze_q` turn a list into a PLAN: the few facts the dynamic model depends on.

   Dynamic part.  One checker thread (the health loop) and any number of /health queries, interleaved by an arbitrary
   schedule of actions: time passes, the timer fires (a round begins), the ping in flight returns (ok or not, after an
   arbitrary time, possibly never), a query arrives, the server is closed.  Sections that hold healthMu and contain no
   ping are instantaneous; a section that contains a ping lasts as long as the schedule says.  A query that finds the
   mutex held by a section that is waiting for a ping is BLOCKED. *)
From Relic Require Import Base.Prelude Generated.C20_gen C20.Model.

(* ------------------------------------------------------------------ static: annotate events with the lock state *)
Record ann := mkAnn { n_code : Z; n_held : bool; n_depth : Z; n_loop : bool; n_defers : Z }.
Record wstate := mkW { w_held : bool; w_defers : Z; w_depth : Z; w_loop : bool }.
Definition w0 : wstate := mkW false 0 0 false.

Definition w_step (w : wstate) (c : Z) (last : bool) : option wstate :=
  let top := (w_depth w =? 0) && negb (w_loop w) in
  match c with
  | 1 => if top && negb (w_held w) then Some (mkW true (w_defers w) (w_depth w) (w_loop w)) else None
  | 2 => if top && w_held w then Some (mkW false (w_defers w) (w_depth w) (w_loop w)) else None
  | 3 => if top && w_held w && (w_defers w =? 0) then Some (mkW true 1 (w_depth w) (w_loop w)) else None
  | 4 | 5 | 6 | 7 | 8 | 9 | 17 => Some w
  | 10 => if (w_defers w =? 1) && negb (w_held w) then None        (* deferred unlock of an unlocked mutex: fatal *)
          else if top && negb last then None                        (* statements after an unconditional return *)
          else Some w
  | 11 => if top then Some (mkW (w_held w) (w_defers w) 0 true) else None
  | 12 => if w_loop w && (w_depth w =? 0) then Some (mkW (w_held w) (w_defers w) 0 false) else None
  | 13 => Some (mkW (w_held w) (w_defers w) (w_depth w + 1) (w_loop w))
  | 14 => if w_depth w >? 0 then Some (mkW (w_held w) (w_defers w) (w_depth w - 1) (w_loop w)) else None
  | _ => None
  end.

Fixpoint annot (w : wstate) (evs : list Z) : option (list ann * wstate) :=
  match evs with
  | [] => Some ([], w)
  | c :: rest =>
      match w_step w c (match rest with [] => true | _ => false end) with
      | None => None
      | Some w' =>
          match annot w' rest with
          | None => None
          | Some (l, wf) => Some (mkAnn c (w_held w) (w_depth w) (w_loop w) (w_defers w) :: l, wf)
          end
      end
  end.

Definition is_code (c : Z) (a : ann) : bool := n_code a =? c.
Definition is_access (a : ann) : bool := (4 <=? n_code a) && (n_code a <=? 7).
Definition ping_locked (l : list ann) : bool := existsb (fun a => is_code 8 a && n_held a) l.
Definition block_locked (l : list ann) : bool := existsb (fun a => is_code 17 a && n_held a) l.
Definition all_access_locked (l : list ann) : bool := forallb (fun a => if is_access a then n_held a else true) l.
Definition is_early_return (a : ann) : bool := is_code 10 a && ((n_depth a >? 0) || n_loop a).
Definition leak_early (l : list ann) : bool := existsb (fun a => is_early_return a && n_held a && (n_defers a =? 0)) l.
Definition leak_end (w : wstate) : bool := w_held w && (w_defers w =? 0).
Definition count (c : Z) (evs : list Z) : Z := zlen (filter (Z.eqb c) evs).

(* every access of healthStatus / healthLastPing is made with healthMu held (race freedom of the shared state) *)
Definition locked_access (evs : list Z) : bool :=
  match annot w0 evs with Some (l, _) => all_access_locked l | None => false end.
(* the function neither starts a ping nor blocks otherwise while it holds healthMu, and releases it on every return *)
Definition lock_clean (evs : list Z) : bool :=
  match annot w0 evs with
  | Some (l, wf) => negb (ping_locked l) && negb (block_locked l) && negb (leak_early l) && negb (leak_end wf)
  | None => false
  end.

Fixpoint take_until (c : Z) (evs : list Z) : option (list Z * list Z) :=
  match evs with
  | [] => None
  | x :: rest => if x =? c then Some ([], rest)
                 else match take_until c rest with Some (a, b) => Some (x :: a, b) | None => None end
  end.
Definition split_loop (evs : list Z) : option (list Z * list Z * list Z) :=
  match take_until 11 evs with
  | Some (pre, r) => match take_until 12 r with Some (body, post) => Some (pre, body, post) | None => None end
  | None => None
  end.
Fixpoint take_until_write (evs : list Z) : option (list Z * list Z) :=
  match evs with
  | [] => None
  | x :: rest => if (x =? 6) || (x =? 7) then Some ([], rest)
                 else match take_until_write rest with Some (a, b) => Some (x :: a, b) | None => None end
  end.
(* the two writes that publish a round are made in one critical section *)
Definition publish_atomic (post : list Z) : bool :=
  match take_until_write post with
  | Some (_, r) => match take_until_write r with Some (mid, _) => negb (existsb (Z.eqb 2) mid) | None => false end
  | None => false
  end.
Definition closed_check (body : list Z) : bool :=
  match body with 9 :: 13 :: 10 :: 14 :: _ => true | _ => false end.

(* what the dynamic model needs to know about healthCheck *)
Record plan := mkPlan {
  p_ping_locked : bool;   (* a token ping is started while healthMu is held *)
  p_closed_check : bool;  (* before each ping the loop tests s.Closed and returns *)
  p_leak_early : bool;    (* that early return leaves healthMu locked *)
  p_leak_end : bool }.    (* the normal return leaves healthMu locked *)

(* the shape the dynamic model assumes: status read before the token loop, exactly one ping per token and none
   elsewhere, the state written exactly once after the loop, unconditionally and in one critical section, no other
   blocking primitive, and no early return other than the Closed test *)
Definition hc_shape (pre body post : list Z) (l : list ann) : bool :=
  existsb (Z.eqb 4) pre && (count 4 body =? 0) && (count 4 post =? 0)
  && (count 8 body =? 1) && (count 8 pre =? 0) && (count 8 post =? 0)
  && (count 6 (pre ++ body) =? 0) && (count 7 (pre ++ body) =? 0) && (count 6 post =? 1) && (count 7 post =? 1)
  && forallb (fun a => if (is_code 6 a || is_code 7 a) then (n_depth a =? 0) && negb (n_loop a) else true) l
  && publish_atomic post
  && (count 17 (pre ++ body ++ post) =? 0)
  && (count 11 (body ++ post) =? 0) && (count 12 post =? 0)
  && (zlen (filter is_early_return l) =? (if closed_check body then 1 else 0)).

Definition analyze (evs : list Z) : option plan :=
  match annot w0 evs, split_loop evs with
  | Some (l, wf), Some (pre, body, post) =>
      if hc_shape pre body post l
      then Some (mkPlan (ping_locked l) (closed_check body) (leak_early l) (leak_end wf))
      else None
  | _, _ => None
  end.

(* what the dynamic model needs to know about Healthy *)
Record qplan := mkQ {
  q_locks : bool;         (* Healthy takes healthMu at all (if not, it cannot block; its reads are then unprotected) *)
  q_early : bool;         (* the Disabled test returns before healthMu is taken *)
  q_block_locked : bool;  (* Healthy pings or blocks while holding healthMu *)
  q_leak : bool }.        (* some return leaves healthMu locked *)
Definition analyze_q (evs : list Z) : option qplan :=
  match annot w0 evs with
  | Some (l, wf) =>
      if (count 11 evs =? 0) && (count 1 evs <=? 1)
      then Some (mkQ (count 1 evs =? 1) (match evs with 13 :: 10 :: 14 :: _ => true | _ => false end)
                     (ping_locked l || block_locked l) (leak_early l || leak_end wf))
      else None
  | None => None
  end.

Definition good_plan (P : plan) : Prop :=
  p_ping_locked P = false /\ p_leak_early P = false /\ p_leak_end P = false.
Definition good_qplan (Q : qplan) : Prop := q_block_locked Q = false /\ q_leak Q = false.

(* plans used when the source no longer has a shape the analysis understands: everything that can go wrong does *)
Definition worst_plan : plan := mkPlan true false true true.
Definition worst_qplan : qplan := mkQ true false true true.
Definition hc_plan : plan := match analyze hc_events with Some p => p | None => worst_plan end.
Definition healthy_plan : qplan := match analyze_q healthy_events with Some q => q | None => worst_qplan end.

(* Close returns only after the loop goroutine has returned: startHealthCheck publishes the channel, the goroutine
   closes it when the loop returns, Close receives from it before closing the tokens; and the loop leaves on Closed *)
Definition close_joins_loop : bool :=
  start_publishes_done && start_loop_closes_done && close_waits_for_loop && loop_closed_exits.

(* ------------------------------------------------------------------ step level: a round with n tokens, unrolled *)
Fixpoint repeat_list {A} (l : list A) (n : nat) : list A :=
  match n with O => [] | S k => l ++ repeat_list l k end.
(* lock state along a loop-free list of events: conditional blocks are walked through, lock operations toggle *)
Definition held_after (h : bool) (c : Z) : bool :=
  match c with 1 => true | 2 => false | _ => h end.
Fixpoint pings_held (h : bool) (evs : list Z) : list bool :=
  match evs with
  | [] => []
  | c :: rest => (if c =? 8 then [h] else []) ++ pings_held (held_after h c) rest
  end.
Definition unroll (evs : list Z) (n : nat) : list Z :=
  match split_loop evs with
  | Some (pre, body, post) => pre ++ repeat_list body n ++ post
  | None => evs
  end.

(* ------------------------------------------------------------------ dynamic: checker thread and queries *)
Record cfg := mkCfg { c_failures : Z; c_disabled : bool; c_interval : Z; c_tokens : nat }.
Inductive cphase := CIdle | CPing (remaining : nat) (notok : Z) (ll : Z) | CStuck.
Record sys := mkSys {
  s_st : hstate;            (* healthStatus, healthLastPing *)
  s_now : Z;
  s_closed : bool;
  s_held : bool;            (* healthMu is held by the round in flight *)
  s_leaked : bool;          (* healthMu was left locked by a function that has returned *)
  s_phase : cphase;
  s_hist : list round;      (* ghost: the rounds PUBLISHED so far, with their completion times *)
  s_cur : list bool;        (* ghost: outcomes of the pings of the round in flight *)
  s_late : Z }.             (* ghost: pings started after Close *)
Inductive action := ATick (d : Z) | ABegin | APing (ok : bool) | AQuery | AClose.
Inductive obs := OAns (healthy : bool) (t : Z) | OBlocked (t : Z).

Definition init (C : cfg) (t0 now0 : Z) : sys :=
  mkSys (h_init (c_failures C) t0) now0 false false false CIdle [] [] 0.

Definition publish (P : plan) (C : cfg) (s : sys) (notok ll : Z) : sys :=
  if negb (s_held s) && s_leaked s
  then mkSys (s_st s) (s_now s) (s_closed s) (s_held s) (s_leaked s) CStuck (s_hist s) (s_cur s) (s_late s)
  else mkSys (h_check (c_failures C) (mkH ll (h_last (s_st s))) notok (s_now s)) (s_now s) (s_closed s)
             false (p_leak_end P) CIdle (s_hist s ++ [mkR (s_cur s) (s_now s)]) [] (s_late s).

Definition next_ping (P : plan) (C : cfg) (s : sys) (remaining : nat) (notok ll : Z) : sys :=
  match remaining with
  | O => publish P C s notok ll
  | S _ =>
      if p_closed_check P && s_closed s
      then mkSys (s_st s) (s_now s) (s_closed s) false (s_leaked s || (s_held s && p_leak_early P)) CIdle (s_hist s) [] (s_late s)
      else mkSys (s_st s) (s_now s) (s_closed s) (s_held s) (s_leaked s) (CPing remaining notok ll) (s_hist s) (s_cur s)
                 (s_late s + (if s_closed s then 1 else 0))
  end.

Definition query (Q : qplan) (C : cfg) (s : sys) : sys * obs :=
  if q_early Q && c_disabled C then (s, OAns false (s_now s))
  else if q_locks Q && (s_held s || s_leaked s) then (s, OBlocked (s_now s))
  else (mkSys (s_st s) (s_now s) (s_closed s) (s_held s) (s_leaked s || (q_locks Q && q_leak Q)) (s_phase s) (s_hist s) (s_cur s) (s_late s),
        OAns (h_healthy (c_disabled C) (c_interval C) (s_st s) (s_now s)) (s_now s)).

Definition step (P : plan) (Q : qplan) (C : cfg) (s : sys) (a : action) : sys * list obs :=
  match a with
  | ATick d => (mkSys (s_st s) (s_now s + d) (s_closed s) (s_held s) (s_leaked s) (s_phase s) (s_hist s) (s_cur s) (s_late s), [])
  | AClose => (mkSys (s_st s) (s_now s) true (s_held s) (s_leaked s) (s_phase s) (s_hist s) (s_cur s) (s_late s), [])
  | ABegin =>
      match s_phase s with
      | CIdle =>
          if s_leaked s
          then (mkSys (s_st s) (s_now s) (s_closed s) (s_held s) (s_leaked s) CStuck (s_hist s) (s_cur s) (s_late s), [])
          else (next_ping P C (mkSys (s_st s) (s_now s) (s_closed s) (p_ping_locked P) (s_leaked s) CIdle (s_hist s) [] (s_late s))
                          (c_tokens C) 0 (h_status (s_st s)), [])
      | _ => (s, [])
      end
  | APing ok =>
      match s_phase s with
      | CPing (S k) notok ll =>
          (next_ping P C (mkSys (s_st s) (s_now s) (s_closed s) (s_held s) (s_leaked s) CIdle (s_hist s) (s_cur s ++ [ok]) (s_late s))
                     k (if ok then notok else notok + 1) ll, [])
      | _ => (s, [])
      end
  | AQuery => let '(s', o) := query Q C s in (s', [o])
  end.

Fixpoint run_sys (P : plan) (Q : qplan) (C : cfg) (s : sys) (sched : list action) : sys * list obs :=
  match sched with
  | [] => (s, [])
  | a :: rest => let '(s1, o1) := step P Q C s a in let '(s2, o2) := run_sys P Q C s1 rest in (s2, o1 ++ o2)
  end.

Definition is_answer (o : obs) : bool := match o with OAns _ _ => true | OBlocked _ => false end.

(* ------------------------------------------------------------------ specification of the answers *)
(* what the property demands of a query made in state s: the answer, now, computed from the published rounds *)
Definition spec_answer (C : cfg) (t0 : Z) (s : sys) : obs :=
  OAns (spec_healthy (c_disabled C) (c_interval C) (c_failures C) t0 (s_hist s) (s_now s)) (s_now s).
Fixpoint spec_obs (P : plan) (Q : qplan) (C : cfg) (t0 : Z) (s : sys) (sched : list action) : list obs :=
  match sched with
  | [] => []
  | a :: rest => (match a with AQuery => [spec_answer C t0 s] | _ => [] end) ++ spec_obs P Q C t0 (fst (step P Q C s a)) rest
  end.


(* invariant of every reachable state when the discipline holds (used in statements about single steps) *)
Definition inv (C : cfg) (t0 : Z) (s : sys) : Prop :=
  s_held s = false /\ s_leaked s = false /\ s_st s = h_run (c_failures C) t0 (s_hist s) /\
  match s_phase s with
  | CIdle => True
  | CPing k notok ll => ll = h_status (s_st s) /\ notok = not_ok_count (s_cur s)
  | CStuck => False
  end.

