(* C20/Properties.v — property theorems only. *)
From Relic Require Import Base.Prelude Generated.C20_gen C20.Model C20.Proofs C20.Lock C20.LockProofs C20.Scope C20.ScopeProofs.
Require Import Coq.Sorting.Permutation.

(* the endpoint reports failure exactly when disabled, stale for three intervals, or the last N checks all failed —
   for every threshold N >= 1, every history of rounds over any number of tokens, every query time *)
Theorem health_refines_spec : forall disabled interval failures t0 hist now,
  1 <= failures ->
  h_healthy disabled interval (h_run failures t0 hist) now = spec_healthy disabled interval failures t0 hist now.
Proof. exact C20.Proofs.health_refines_spec. Qed.

(* one successful check restores health *)
Theorem one_success_restores : forall disabled interval failures t0 hist oks t,
  1 <= failures -> forallb (fun b => b) oks = true -> disabled = false -> 0 <= interval ->
  h_healthy disabled interval (h_run failures t0 (hist ++ [mkR oks t])) t = true.
Proof. exact C20.Proofs.one_success_restores. Qed.

(* closing the server ends the background loop (the generated select-arm table says the arm leaves the loop) *)
Theorem close_exits : loop_on_closed = Exit.
Proof. exact C20.Proofs.close_exits. Qed.

Example three_failures_trip :
  let hist := [mkR [true; true] 10; mkR [true; false] 20; mkR [false] 30; mkR [false; false] 40] in
  spec_healthy false 10 3 0 hist 41 = false /\ spec_healthy false 10 3 0 (removelast hist) 31 = true /\
  h_healthy false 10 (h_run 3 0 hist) 41 = false.
Proof. vm_compute. repeat split. Qed.

(* ================= lock discipline and concurrency (C20/Lock.v) ================= *)

(* the source has the shape the dynamic model assumes; healthCheck never starts a ping while it holds healthMu, releases
   it on every return, and tests s.Closed before each ping *)
Theorem hc_plan_good : good_plan hc_plan /\ p_closed_check hc_plan = true.
Proof. exact C20.LockProofs.hc_plan_good. Qed.
(* Healthy neither pings nor blocks under healthMu and releases it on every return *)
Theorem healthy_plan_good : good_qplan healthy_plan.
Proof. exact C20.LockProofs.healthy_plan_good. Qed.
(* every read and write of healthStatus / healthLastPing in healthCheck, Healthy and serveHealth is made under healthMu *)
Theorem shared_state_locked :
  locked_access hc_events = true /\ locked_access healthy_events = true /\ locked_access serve_health_events = true.
Proof. exact C20.LockProofs.shared_state_locked. Qed.
(* none of healthCheck, Healthy, serveHealth, pingOne pings or blocks while holding healthMu or returns with it locked;
   pingOne does not touch the mutex at all *)
Theorem lock_released_and_never_held_over_a_ping :
  lock_clean hc_events = true /\ lock_clean healthy_events = true /\ lock_clean serve_health_events = true /\
  lock_clean ping_one_events = true /\ count 1 ping_one_events = 0.
Proof. exact C20.LockProofs.lock_released_and_never_held_over_a_ping. Qed.
(* step level, for every number of tokens n: the unrolled round makes exactly n pings, healthMu free at each of them *)
Theorem no_ping_under_lock : forall n,
  forallb negb (pings_held false (unroll hc_events n)) = true /\
  zlen (pings_held false (unroll hc_events n)) = Z.of_nat n.
Proof. exact C20.LockProofs.no_ping_under_lock. Qed.

(* for every configuration, every interleaving of time, round starts, ping returns (each after an arbitrary time or
   never), queries and Close: every query is answered — never blocked — and the answer is what the property demands of
   the rounds PUBLISHED at that moment (spec_healthy over the ghost history, at the query's own time) *)
Theorem queries_answered_from_published : forall P Q C t0 now0 sched,
  good_plan P -> good_qplan Q -> 1 <= c_failures C ->
  snd (run_sys P Q C (init C t0 now0) sched) = spec_obs P Q C t0 (init C t0 now0) sched.
Proof. intros. apply C20.LockProofs.queries_answered_from_published; try assumption. apply C20.LockProofs.init_inv. Qed.
Theorem queries_never_block : forall P Q C t0 now0 sched,
  good_plan P -> good_qplan Q -> 1 <= c_failures C ->
  forallb is_answer (snd (run_sys P Q C (init C t0 now0) sched)) = true.
Proof. exact C20.LockProofs.queries_never_block. Qed.
(* instantiated with the plans computed from the current source *)
Theorem health_endpoint_concurrent : forall C t0 now0 sched, 1 <= c_failures C ->
  snd (run_sys hc_plan healthy_plan C (init C t0 now0) sched) = spec_obs hc_plan healthy_plan C t0 (init C t0 now0) sched.
Proof.
  intros. apply queries_answered_from_published; try assumption.
  - exact (proj1 C20.LockProofs.hc_plan_good).
  - exact C20.LockProofs.healthy_plan_good.
Qed.
(* the published history grows only when the last ping of a round returns, stamped with that moment *)
Theorem published_on_completion : forall P Q C t0 s a,
  good_plan P -> good_qplan Q -> inv C t0 s ->
  let s' := fst (step P Q C s a) in
  s_hist s' = s_hist s \/
  (exists ok notok ll, a = APing ok /\ s_phase s = CPing 1 notok ll /\ s_hist s' = s_hist s ++ [mkR (s_cur s ++ [ok]) (s_now s)]) \/
  (a = ABegin /\ s_phase s = CIdle /\ c_tokens C = O /\ s_hist s' = s_hist s ++ [mkR [] (s_now s)]).
Proof. exact C20.LockProofs.published_on_completion. Qed.
(* the staleness clause fires while a round is in flight, after any interleaving *)
Theorem stale_reported_in_flight : forall P Q C t0 now0 sched,
  good_plan P -> good_qplan Q -> 1 <= c_failures C ->
  let s := fst (run_sys P Q C (init C t0 now0) sched) in
  s_now s - last_completed t0 (s_hist s) > 3 * c_interval C ->
  snd (query Q C s) = OAns false (s_now s).
Proof. exact C20.LockProofs.stale_reported_in_flight. Qed.
(* and not before: fresh published state with fewer than N trailing failures answers healthy, round in flight or not *)
Theorem fresh_healthy_in_flight : forall P Q C t0 now0 sched,
  good_plan P -> good_qplan Q -> 1 <= c_failures C -> c_disabled C = false ->
  let s := fst (run_sys P Q C (init C t0 now0) sched) in
  s_now s - last_completed t0 (s_hist s) <= 3 * c_interval C ->
  trailing_failures (s_hist s) < c_failures C ->
  snd (query Q C s) = OAns true (s_now s).
Proof. exact C20.LockProofs.fresh_healthy_in_flight. Qed.
(* Close: no ping is started once the server is closed; Close itself returns only after the loop has returned *)
Theorem no_ping_started_after_close : forall P Q C t0 now0 sched,
  p_closed_check P = true -> s_late (fst (run_sys P Q C (init C t0 now0) sched)) = 0.
Proof. exact C20.LockProofs.no_ping_started_after_close. Qed.
Theorem close_joins : close_joins_loop = true.
Proof. exact C20.LockProofs.close_joins. Qed.
Theorem checker_never_stuck : forall P Q C t0 now0 sched,
  good_plan P -> good_qplan Q -> s_phase (fst (run_sys P Q C (init C t0 now0) sched)) <> CStuck.
Proof. exact C20.LockProofs.checker_never_stuck. Qed.
(* necessity: ANY healthCheck that pings under healthMu blocks every query made while its first ping is in flight,
   for as long as that takes *)
Theorem ping_under_lock_blocks : forall P Q C t0 now0 ticks,
  p_ping_locked P = true -> (1 <= c_tokens C)%nat -> q_locks Q = true -> q_early Q && c_disabled C = false ->
  exists t, snd (run_sys P Q C (init C t0 now0) (ABegin :: map ATick ticks ++ [AQuery])) = [OBlocked t].
Proof. exact C20.LockProofs.ping_under_lock_blocks. Qed.

(* non-vacuity.  One slow token among three, N = 2, interval 1000: the round is in flight from t = 0; the last published
   state is 2700 old.  A query at once is answered healthy, one 600 later is answered unhealthy (stale), and after the
   slow ping returns ok the round is published and the next query is healthy again. *)
Example slow_token_scenario :
  let C := mkCfg 2 false 1000 3 in
  snd (run_sys hc_plan healthy_plan C (init C (-2700) 0)
        [ABegin; APing true; AQuery; ATick 600; AQuery; APing true; AQuery; APing false; AQuery; AClose; ABegin; AQuery])
  = [OAns true 0; OAns false 600; OAns false 600; OAns true 600; OAns true 600].
Proof. vm_compute. reflexivity. Qed.
(* the shape of a healthCheck that holds healthMu for the whole round (lock; defer unlock; read; pings; write) is
   understood by the analysis, is flagged, and the dynamic model then blocks the same queries *)
Example whole_round_under_lock_blocks :
  let evs := [1; 3; 4; 11; 9; 13; 10; 14; 8; 12; 6; 7; 10] in
  analyze evs = Some (mkPlan true true false false) /\
  let C := mkCfg 2 false 1000 1 in
  snd (run_sys (mkPlan true true false false) healthy_plan C (init C (-2700) 0) [ABegin; AQuery; ATick 600; AQuery; APing true; AQuery])
  = [OBlocked 0; OBlocked 600; OAns true 600].
Proof. vm_compute. split; reflexivity. Qed.
(* shapes the analysis rejects or flags: unlock missing on the Closed return; write outside the lock; second Lock while held *)
Example flagged_shapes :
  analyze [1; 4; 11; 9; 13; 10; 14; 8; 12; 6; 7; 2; 10] = Some (mkPlan true true true false) /\
  locked_access [1; 4; 2; 11; 8; 12; 6; 7; 10] = false /\
  analyze [1; 4; 11; 8; 12; 1; 6; 7; 2; 10] = None.
Proof. vm_compute. repeat split. Qed.

(* ================= timeout scope of the token pings (C20/Scope.v) ================= *)

(* the generated decisions of pingOne / healthCheck: a token is recorded ok exactly when its Ping returned nil *)
Theorem counted_ok_spec : forall err expired, tok_counted_ok err expired = negb err.
Proof. exact C20.ScopeProofs.counted_ok_spec. Qed.
(* the context that reaches Token.Ping is created once per token with token_check_timeout seconds, for every
   configuration and every number of tokens (statement over the generated chain) *)
Theorem source_scope_per_token : forall timeout_s interval_s n,
  chain_timeout (cfg_chain timeout_s interval_s n) = Some (spec_timeout timeout_s).
Proof. exact C20.ScopeProofs.source_scope_per_token. Qed.
(* ANY chain whose contexts are all created per token: the round is decided token by token, ends after the sum of the
   individual check times, and hangs iff some token neither answers nor can be interrupted *)
Theorem round_per_token : forall chain T rs ps,
  chain_timeout chain = Some T -> 0 <= T ->
  run_round chain rs ps =
  if forallb tok_returns ps then Some (map (spec_tok_ok T) ps, rs + spec_round_dur T ps) else None.
Proof. exact C20.ScopeProofs.round_per_token. Qed.
(* the current source: all configurations, all rounds over any number of tokens with any latencies *)
Theorem source_round : forall timeout_s interval_s rs ps,
  0 <= timeout_s ->
  run_round (cfg_chain timeout_s interval_s (zlen ps)) rs ps =
  if forallb tok_returns ps
  then Some (map (spec_tok_ok (spec_timeout timeout_s)) ps, rs + spec_round_dur (spec_timeout timeout_s) ps) else None.
Proof. exact C20.ScopeProofs.source_round. Qed.
(* a round is ok iff every token answers ok within the timeout on its own *)
Theorem round_ok_iff_each_in_time : forall timeout_s interval_s rs ps,
  0 <= timeout_s -> forallb tok_returns ps = true ->
  exists oks tend, run_round (cfg_chain timeout_s interval_s (zlen ps)) rs ps = Some (oks, tend) /\
                   round_ok (mkR oks tend) = forallb (spec_tok_ok (spec_timeout timeout_s)) ps.
Proof. exact C20.ScopeProofs.round_ok_iff_each_in_time. Qed.
(* the order in which the tokens are pinged (map iteration order) changes neither the verdict, nor the end time, nor
   whether the round ends *)
Theorem round_order_independent : forall timeout_s interval_s rs ps ps',
  0 <= timeout_s -> Permutation ps ps' ->
  round_verdict (run_round (cfg_chain timeout_s interval_s (zlen ps)) rs ps) =
  round_verdict (run_round (cfg_chain timeout_s interval_s (zlen ps')) rs ps').
Proof. exact C20.ScopeProofs.round_order_independent. Qed.
(* what is recorded for a token does not depend on the tokens pinged before or after it *)
Theorem token_outcome_independent : forall timeout_s interval_s rs before p after oks tend,
  0 <= timeout_s ->
  run_round (cfg_chain timeout_s interval_s (zlen (before ++ p :: after))) rs (before ++ p :: after) = Some (oks, tend) ->
  nth (length before) oks false = spec_tok_ok (spec_timeout timeout_s) p.
Proof. exact C20.ScopeProofs.token_outcome_independent. Qed.
(* hysteresis over timed histories: /health is what the property demands of the per-token outcomes *)
Theorem timed_health_refines_spec : forall disabled interval failures timeout_s interval_s t0 rounds now,
  1 <= failures -> 0 <= timeout_s ->
  h_healthy disabled interval (h_run_timed (cfg_chain timeout_s interval_s) failures t0 rounds) now =
  spec_healthy disabled interval failures t0 (spec_hist (spec_timeout timeout_s) rounds) now.
Proof. exact C20.ScopeProofs.timed_health_refines_spec. Qed.
(* tokens that each answer ok in time never trip the failure counter: any number of tokens, rounds, latencies *)
Theorem in_time_never_trips : forall failures timeout_s interval_s t0 rounds,
  1 <= failures -> 0 <= timeout_s -> all_in_time (spec_timeout timeout_s) rounds ->
  h_status (h_run_timed (cfg_chain timeout_s interval_s) failures t0 rounds) = failures.
Proof. exact C20.ScopeProofs.in_time_never_trips. Qed.
Theorem in_time_healthy : forall disabled interval failures timeout_s interval_s t0 rounds now,
  1 <= failures -> 0 <= timeout_s -> all_in_time (spec_timeout timeout_s) rounds ->
  h_healthy disabled interval (h_run_timed (cfg_chain timeout_s interval_s) failures t0 rounds) now =
  negb disabled && (now - last_completed t0 (spec_hist (spec_timeout timeout_s) rounds) <=? 3 * interval).
Proof. exact C20.ScopeProofs.in_time_healthy. Qed.
(* necessity: with a context created once per round, two tokens that each answer ok in time fail the round as soon as
   their latencies add up to the timeout *)
Theorem per_round_scope_cuts_healthy_tokens : forall T l1 l2 rs,
  0 < l1 -> 0 < l2 -> l1 < T -> l2 < T -> T <= l1 + l2 ->
  run_round [(2, T, true)] rs [mkTok (Some l1) true true; mkTok (Some l2) true true] = Some ([true; false], rs + T) /\
  forallb (spec_tok_ok T) [mkTok (Some l1) true true; mkTok (Some l2) true true] = true.
Proof. exact C20.ScopeProofs.per_round_scope_cuts_healthy_tokens. Qed.
(* the concurrent model, its pings timed by the scope model: after any timed rounds the published history is the
   specification's, and a query made any time later is answered with what the property demands *)
Theorem timed_rounds_concurrent : forall C timeout_s interval_s t0 rounds,
  1 <= c_failures C -> 0 <= timeout_s ->
  (forall r, In r rounds -> c_tokens C = length (tr_toks r)) ->
  let s := fst (run_sys hc_plan healthy_plan C (init C t0 t0) (rounds_sched (cfg_chain timeout_s interval_s) t0 rounds)) in
  s_hist s = spec_hist (spec_timeout timeout_s) rounds /\
  forall d, snd (run_sys hc_plan healthy_plan C s [ATick d; AQuery]) =
            [OAns (spec_healthy (c_disabled C) (c_interval C) (c_failures C) t0
                     (spec_hist (spec_timeout timeout_s) rounds) (s_now s + d)) (s_now s + d)].
Proof. exact C20.ScopeProofs.timed_rounds_concurrent. Qed.

(* non-vacuity.  token_check_timeout = 1 s; times in ns.  Two tokens that answer ok after 650 ms each: the round is ok
   and takes 1.3 s; with a per-round context the second one is cut at 1 s.  One token above the timeout among fast ones,
   in each position: the round fails after 1.1 s.  A token that ignores its context and answers ok after 1.3 s counts
   as ok; one that never answers and honours the context costs exactly the timeout. *)
Definition ms (x : Z) : Z := x * 1000000.
Example two_slow_but_healthy_tokens :
  let ps := [mkTok (Some (ms 650)) true true; mkTok (Some (ms 650)) true true] in
  run_round (cfg_chain 1 60 2) 0 ps = Some ([true; true], ms 1300) /\
  run_round [(2, spec_timeout 1, true)] 0 ps = Some ([true; false], ms 1000) /\
  all_in_time (spec_timeout 1) [mkTR 0 ps; mkTR (ms 5000) ps; mkTR (ms 9000) ps] /\
  h_healthy false (ms 3000) (h_run_timed (cfg_chain 1 60) 2 0 [mkTR 0 ps; mkTR (ms 5000) ps; mkTR (ms 9000) ps]) (ms 10400) = true /\
  h_healthy false (ms 3000) (h_run_timed (fun _ => [(2, spec_timeout 1, true)]) 2 0 [mkTR 0 ps; mkTR (ms 5000) ps]) (ms 6100) = false.
Proof.
  cbv zeta. split; [vm_compute; reflexivity|]. split; [vm_compute; reflexivity|].
  split; [intros r [<-|[<-|[<-|[]]]]; vm_compute; reflexivity|].
  split; vm_compute; reflexivity.
Qed.
Example one_slow_among_fast :
  let f := mkTok (Some (ms 50)) true true in
  let sl := mkTok (Some (ms 1400)) true true in
  run_round (cfg_chain 1 60 3) 0 [sl; f; f] = Some ([false; true; true], ms 1100) /\
  run_round (cfg_chain 1 60 3) 0 [f; sl; f] = Some ([true; false; true], ms 1100) /\
  run_round (cfg_chain 1 60 3) 0 [f; f; sl] = Some ([true; true; false], ms 1100) /\
  run_round (cfg_chain 1 60 2) 0 [mkTok (Some (ms 1300)) true false; f] = Some ([true; true], ms 1350) /\
  run_round (cfg_chain 1 60 2) 0 [mkTok None true true; f] = Some ([false; true], ms 1050) /\
  run_round (cfg_chain 1 60 2) 0 [mkTok None true false; f] = None.
Proof. vm_compute. repeat split; reflexivity. Qed.
Example timed_round_in_concurrent_model :
  let ps := [mkTok (Some (ms 650)) true true; mkTok (Some (ms 650)) true true] in
  let C := mkCfg 2 false (ms 3000) 2 in
  snd (run_sys hc_plan healthy_plan C (init C 0 0) (rounds_sched (cfg_chain 1 60) 0 [mkTR 0 ps; mkTR (ms 4300) ps] ++ [AQuery]))
  = [OAns true (ms 5600)].
Proof. vm_compute. reflexivity. Qed.
