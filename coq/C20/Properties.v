(* C20/Properties.v — property theorems only. *)
From Relic Require Import Base.Prelude Generated.C20_gen C20.Model C20.Proofs.

(* the endpoint reports failure exactly when disabled, stale for three intervals, or the last N checks all failed —
   for every threshold N >= 1, every history of rounds over any number of tokens, every query time *)
Theorem health_refines_spec : forall disabled interval failures t0 hist now,
  1 <= failures ->
  h_healthy disabled interval (h_run failures t0 hist) now = spec_healthy disabled interval failures t0 hist now.
Proof. exact C20.Proofs.health_refines_spec. Qed.

(* one successful check restores health *)
Theorem one_success_restores : forall disabled interval failures t0 hist oks t,
  1 <= failures -> forallb (fun b => b) oks = true -> disabled = false -> 0 <= interval ->
  h_healthy disabled interval (h_run failures t0 (hist ++ [mkR oks t])) t = true.
Proof. exact C20.Proofs.one_success_restores. Qed.

(* closing the server ends the background loop (the generated select-arm table says the arm leaves the loop) *)
Theorem close_exits : loop_on_closed = Exit.
Proof. exact C20.Proofs.close_exits. Qed.

Example three_failures_trip :
  let hist := [mkR [true; true] 10; mkR [true; false] 20; mkR [false] 30; mkR [false; false] 40] in
  spec_healthy false 10 3 0 hist 41 = false /\ spec_healthy false 10 3 0 (removelast hist) 31 = true /\
  h_healthy false 10 (h_run 3 0 hist) 41 = false.
Proof. vm_compute. repeat split. Qed.
