From Relic Require Import Base.Prelude Generated.C20_gen C20.Model C20.Proofs C20.Lock.

(* ------------------------------------------------------------------ static facts about the current source *)
Lemma hc_analysis : analyze hc_events = Some (mkPlan false true false false).
Proof. vm_compute. reflexivity. Qed.
Lemma healthy_analysis : analyze_q healthy_events = Some (mkQ true true false false).
Proof. vm_compute. reflexivity. Qed.

Lemma hc_plan_good : good_plan hc_plan /\ p_closed_check hc_plan = true.
Proof. unfold hc_plan. rewrite hc_analysis. unfold good_plan. cbn. repeat split. Qed.
Lemma healthy_plan_good : good_qplan healthy_plan.
Proof. unfold healthy_plan. rewrite healthy_analysis. unfold good_qplan. cbn. split; reflexivity. Qed.

Lemma shared_state_locked :
  locked_access hc_events = true /\ locked_access healthy_events = true /\ locked_access serve_health_events = true.
Proof. vm_compute. repeat split. Qed.
Lemma lock_released_and_never_held_over_a_ping :
  lock_clean hc_events = true /\ lock_clean healthy_events = true /\ lock_clean serve_health_events = true /\
  lock_clean ping_one_events = true /\ count 1 ping_one_events = 0.
Proof. vm_compute. repeat split. Qed.
Lemma close_joins : close_joins_loop = true.
Proof. reflexivity. Qed.

(* ------------------------------------------------------------------ step level, every number of tokens *)
Lemma pings_held_app h a b :
  pings_held h (a ++ b) = pings_held h a ++ pings_held (fold_left held_after a h) b.
Proof.
  revert h. induction a as [|c a IH]; intros h; cbn [app pings_held fold_left]; [reflexivity|].
  rewrite IH, app_assoc. reflexivity.
Qed.
Lemma fold_repeat_neutral body n :
  fold_left held_after body false = false -> fold_left held_after (repeat_list body n) false = false.
Proof.
  intros Hb. induction n as [|n IH]; cbn [repeat_list]; [reflexivity|].
  rewrite fold_left_app, Hb. exact IH.
Qed.
Lemma repeat_pings_free body n :
  fold_left held_after body false = false -> forallb negb (pings_held false body) = true ->
  forallb negb (pings_held false (repeat_list body n)) = true.
Proof.
  intros Hb Hp. induction n as [|n IH]; cbn [repeat_list]; [reflexivity|].
  rewrite pings_held_app, forallb_app, Hp, Hb. exact IH.
Qed.
Lemma unrolled_pings_free pre body post n :
  fold_left held_after pre false = false -> fold_left held_after body false = false ->
  forallb negb (pings_held false pre) = true -> forallb negb (pings_held false body) = true ->
  forallb negb (pings_held false post) = true ->
  forallb negb (pings_held false (pre ++ repeat_list body n ++ post)) = true.
Proof.
  intros Hpre Hbody P1 P2 P3.
  rewrite pings_held_app, forallb_app, P1, Hpre. cbn [andb].
  rewrite pings_held_app, forallb_app, (repeat_pings_free body n Hbody P2), (fold_repeat_neutral body n Hbody).
  exact P3.
Qed.
Lemma repeat_list_count8 body n : count 8 body = 1 -> count 8 (repeat_list body n) = Z.of_nat n.
Proof.
  intros Hb. unfold count in *. induction n as [|n IH]; cbn [repeat_list]; [reflexivity|].
  rewrite filter_app, zlen_app, Hb, IH. lia.
Qed.
Lemma pings_held_length h evs : zlen (pings_held h evs) = count 8 evs.
Proof.
  unfold count. revert h. induction evs as [|c evs IH]; intros h; cbn [pings_held filter]; [reflexivity|].
  rewrite zlen_app, IH. rewrite (Z.eqb_sym 8 c). destruct (c =? 8); [rewrite zlen_cons, zlen_nil|rewrite zlen_nil]; rewrite ?zlen_cons; lia.
Qed.

(* a round over n tokens makes exactly n pings and healthMu is free at the start of every one of them *)
Lemma no_ping_under_lock n :
  forallb negb (pings_held false (unroll hc_events n)) = true /\
  zlen (pings_held false (unroll hc_events n)) = Z.of_nat n.
Proof.
  unfold unroll.
  destruct (split_loop hc_events) as [[[pre body] post]|] eqn:E; [|vm_compute in E; discriminate].
  vm_compute in E. injection E as <- <- <-.
  split.
  - apply unrolled_pings_free; reflexivity.
  - rewrite pings_held_length. unfold count. rewrite !filter_app, !zlen_app.
    fold (count 8 (repeat_list [9; 13; 10; 14; 8] n)). rewrite repeat_list_count8 by reflexivity.
    cbn. lia.
Qed.

(* ------------------------------------------------------------------ dynamic: invariant of every interleaving *)
Lemma h_check_status_only f st x n t : h_check f (mkH (h_status st) x) n t = h_check f st n t.
Proof. reflexivity. Qed.
Lemma h_run_snoc f t0 hist r :
  h_run f t0 (hist ++ [r]) = h_check f (h_run f t0 hist) (not_ok_count (r_oks r)) (r_time r).
Proof. unfold h_run. rewrite fold_left_app. reflexivity. Qed.
Lemma not_ok_count_snoc l ok : not_ok_count (l ++ [ok]) = if ok then not_ok_count l else not_ok_count l + 1.
Proof.
  unfold not_ok_count. rewrite filter_app, zlen_app. destruct ok; cbn [filter negb]; rewrite ?zlen_cons, zlen_nil; lia.
Qed.

Lemma init_inv C t0 now0 : inv C t0 (init C t0 now0).
Proof. unfold inv, init. cbn. repeat split. Qed.

Lemma next_ping_inv P C t0 s k notok ll :
  good_plan P ->
  s_held s = false -> s_leaked s = false -> s_st s = h_run (c_failures C) t0 (s_hist s) ->
  ll = h_status (s_st s) -> notok = not_ok_count (s_cur s) ->
  inv C t0 (next_ping P C s k notok ll).
Proof.
  intros (G1 & G2 & G3) Hh Hl Hst Hll Hn. unfold next_ping. destruct k as [|k].
  - unfold publish. rewrite Hh, Hl. cbn [negb andb]. unfold inv. cbn [s_held s_leaked s_st s_hist s_phase].
    repeat split; try assumption.
    rewrite h_run_snoc. cbn [r_oks r_time]. rewrite <- Hst, Hll, Hn. apply h_check_status_only.
  - destruct (p_closed_check P && s_closed s); unfold inv; cbn [s_held s_leaked s_st s_hist s_phase s_cur].
    + rewrite Hh, Hl. cbn. repeat split; assumption.
    + repeat split; assumption.
Qed.

Lemma step_inv P Q C t0 s a :
  good_plan P -> good_qplan Q -> inv C t0 s -> inv C t0 (fst (step P Q C s a)).
Proof.
  intros GP (Q1 & Q2) Hi. pose proof Hi as (Hh & Hl & Hst & Hph). destruct a as [d| |ok| |]; cbn [step fst].
  - unfold inv. cbn. repeat split; assumption.
  - destruct (s_phase s) eqn:Eph; cbn [fst]; try exact Hi.
    rewrite Hl. cbn [fst]. destruct GP as (G1 & G2 & G3). rewrite G1.
    apply next_ping_inv; cbn [s_held s_leaked s_st s_hist s_cur]; try assumption; try reflexivity.
    repeat split; assumption.
  - destruct (s_phase s) as [|[|k] notok ll|] eqn:Eph; cbn [fst]; try exact Hi.
    destruct Hph as [Hll Hn].
    apply next_ping_inv; cbn [s_held s_leaked s_st s_hist s_cur]; try assumption.
    rewrite not_ok_count_snoc. destruct ok; lia.
  - unfold query. destruct (q_early Q && c_disabled C); cbn [fst]; [exact Hi|].
    rewrite Hh, Hl, Q2. cbn [orb]. rewrite !andb_false_r. cbn [fst]. unfold inv. cbn [s_held s_leaked s_st s_hist s_phase]. repeat split; assumption.
  - unfold inv. cbn. repeat split; assumption.
Qed.

Lemma run_inv P Q C t0 sched : forall s,
  good_plan P -> good_qplan Q -> inv C t0 s -> inv C t0 (fst (run_sys P Q C s sched)).
Proof.
  induction sched as [|a rest IH]; intros s GP GQ Hi; cbn [run_sys]; [exact Hi|].
  pose proof (step_inv P Q C t0 s a GP GQ Hi) as H1.
  destruct (step P Q C s a) as [s1 o1]. cbn [fst] in H1.
  specialize (IH s1 GP GQ H1). destruct (run_sys P Q C s1 rest) as [s2 o2]. exact IH.
Qed.

Lemma query_spec Q C t0 s :
  1 <= c_failures C -> inv C t0 s -> snd (query Q C s) = spec_answer C t0 s.
Proof.
  intros HN (Hh & Hl & Hst & _). unfold query, spec_answer.
  destruct (q_early Q && c_disabled C) eqn:E; cbn [snd].
  - apply andb_prop in E. destruct E as [_ Hd]. rewrite Hd. reflexivity.
  - rewrite Hh, Hl. cbn [orb]. rewrite andb_false_r. cbn [snd]. rewrite Hst, health_refines_spec by assumption. reflexivity.
Qed.

Lemma queries_answered_from_published P Q C t0 sched : forall s,
  good_plan P -> good_qplan Q -> 1 <= c_failures C -> inv C t0 s ->
  snd (run_sys P Q C s sched) = spec_obs P Q C t0 s sched.
Proof.
  induction sched as [|a rest IH]; intros s GP GQ HN Hi; cbn [run_sys spec_obs]; [reflexivity|].
  pose proof (step_inv P Q C t0 s a GP GQ Hi) as H1.
  assert (Ho : snd (step P Q C s a) = match a with AQuery => [spec_answer C t0 s] | _ => [] end).
  { destruct a; cbn [step snd]; try reflexivity.
    - destruct (s_phase s); [destruct (s_leaked s)|..]; reflexivity.
    - destruct (s_phase s) as [|[|k] ? ?|]; reflexivity.
    - pose proof (query_spec Q C t0 s HN Hi) as Hq. destruct (query Q C s) as [s' o]. cbn [snd] in *. rewrite Hq. reflexivity. }
  destruct (step P Q C s a) as [s1 o1]. cbn [fst snd] in *.
  specialize (IH s1 GP GQ HN H1). destruct (run_sys P Q C s1 rest) as [s2 o2]. cbn [snd] in *.
  rewrite Ho, IH. reflexivity.
Qed.

Lemma spec_obs_answers P Q C t0 sched : forall s, forallb is_answer (spec_obs P Q C t0 s sched) = true.
Proof.
  induction sched as [|a rest IH]; intros s; cbn [spec_obs]; [reflexivity|].
  rewrite forallb_app, IH. destruct a; reflexivity.
Qed.

Lemma queries_never_block P Q C t0 now0 sched :
  good_plan P -> good_qplan Q -> 1 <= c_failures C ->
  forallb is_answer (snd (run_sys P Q C (init C t0 now0) sched)) = true.
Proof.
  intros GP GQ HN. rewrite (queries_answered_from_published P Q C t0 sched _ GP GQ HN (init_inv C t0 now0)).
  apply spec_obs_answers.
Qed.

(* the staleness clause is reachable while a round is in flight: whatever the checker is doing, a query made more than
   three intervals after the last PUBLISHED round is answered, and the answer is failure *)
Lemma stale_reported_in_flight P Q C t0 now0 sched :
  good_plan P -> good_qplan Q -> 1 <= c_failures C ->
  let s := fst (run_sys P Q C (init C t0 now0) sched) in
  s_now s - last_completed t0 (s_hist s) > 3 * c_interval C ->
  snd (query Q C s) = OAns false (s_now s).
Proof.
  intros GP GQ HN s Hs.
  pose proof (run_inv P Q C t0 sched _ GP GQ (init_inv C t0 now0)) as Hi. fold s in Hi.
  rewrite (query_spec Q C t0 s HN Hi). unfold spec_answer, spec_healthy.
  destruct (s_now s - last_completed t0 (s_hist s) <=? 3 * c_interval C) eqn:E; [lia|].
  rewrite andb_false_r. reflexivity.
Qed.

(* and it does not fire early: fresh published state, fewer than N trailing failures, not disabled -> healthy, even
   though a round may be in flight *)
Lemma fresh_healthy_in_flight P Q C t0 now0 sched :
  good_plan P -> good_qplan Q -> 1 <= c_failures C -> c_disabled C = false ->
  let s := fst (run_sys P Q C (init C t0 now0) sched) in
  s_now s - last_completed t0 (s_hist s) <= 3 * c_interval C ->
  trailing_failures (s_hist s) < c_failures C ->
  snd (query Q C s) = OAns true (s_now s).
Proof.
  intros GP GQ HN Hd s Hs Ht.
  pose proof (run_inv P Q C t0 sched _ GP GQ (init_inv C t0 now0)) as Hi. fold s in Hi.
  rewrite (query_spec Q C t0 s HN Hi). unfold spec_answer, spec_healthy. rewrite Hd. cbn [negb andb].
  destruct (s_now s - last_completed t0 (s_hist s) <=? 3 * c_interval C) eqn:E; [|lia].
  destruct (trailing_failures (s_hist s) <? c_failures C) eqn:E2; [reflexivity|lia].
Qed.

(* rounds enter the published history only when their last ping has returned (or at once when there are no tokens),
   stamped with that moment and carrying the outcomes of exactly that round *)
Lemma published_on_completion P Q C t0 s a :
  good_plan P -> good_qplan Q -> inv C t0 s ->
  let s' := fst (step P Q C s a) in
  s_hist s' = s_hist s \/
  (exists ok notok ll, a = APing ok /\ s_phase s = CPing 1 notok ll /\ s_hist s' = s_hist s ++ [mkR (s_cur s ++ [ok]) (s_now s)]) \/
  (a = ABegin /\ s_phase s = CIdle /\ c_tokens C = O /\ s_hist s' = s_hist s ++ [mkR [] (s_now s)]).
Proof.
  intros (G1 & G2 & G3) (Q1 & Q2) (Hh & Hl & Hst & Hph). cbn zeta.
  destruct a as [d| |ok| |]; cbn [step fst].
  - left. reflexivity.
  - destruct (s_phase s) eqn:Eph; cbn [fst]; try (left; reflexivity).
    rewrite Hl. cbn [fst]. unfold next_ping. destruct (c_tokens C) eqn:Et.
    + right. right. unfold publish. cbn [s_held s_leaked]. rewrite G1. cbn. repeat split; reflexivity.
    + left. cbn [s_closed]. destruct (p_closed_check P && s_closed s); reflexivity.
  - destruct (s_phase s) as [|[|k] notok ll|] eqn:Eph; cbn [fst]; try (left; reflexivity).
    unfold next_ping. destruct k as [|k].
    + right. left. exists ok, notok, ll. unfold publish. cbn [s_held s_leaked]. rewrite Hh, Hl. cbn. repeat split; reflexivity.
    + left. cbn [s_closed]. destruct (p_closed_check P && s_closed s); reflexivity.
  - left. unfold query. destruct (q_early Q && c_disabled C); [reflexivity|]. rewrite Hh, Hl. cbn [orb]. rewrite andb_false_r. reflexivity.
  - left. reflexivity.
Qed.

(* Close: with the Closed test in the token loop no ping is STARTED after the server has been closed *)
Lemma next_ping_late P C s k notok ll :
  p_closed_check P = true -> s_late s = 0 -> s_late (next_ping P C s k notok ll) = 0.
Proof.
  intros Hc H0. unfold next_ping. destruct k as [|k].
  - unfold publish. destruct (negb (s_held s) && s_leaked s); exact H0.
  - rewrite Hc. destruct (s_closed s); cbn [andb s_late]; [exact H0|lia].
Qed.
Lemma no_ping_started_after_close P Q C t0 now0 sched :
  p_closed_check P = true -> s_late (fst (run_sys P Q C (init C t0 now0) sched)) = 0.
Proof.
  intros Hc. assert (H0 : s_late (init C t0 now0) = 0) by reflexivity. revert H0. generalize (init C t0 now0).
  induction sched as [|a rest IH]; intros s H0; cbn [run_sys]; [exact H0|].
  assert (H1 : s_late (fst (step P Q C s a)) = 0).
  { destruct a; cbn [step fst]; try exact H0.
    - destruct (s_phase s); [destruct (s_leaked s)|..]; cbn [fst]; try exact H0. apply next_ping_late; assumption.
    - destruct (s_phase s) as [|[|k] ? ?|]; cbn [fst]; try exact H0. apply next_ping_late; assumption.
    - unfold query. destruct (q_early Q && c_disabled C); [exact H0|]. destruct (q_locks Q && (s_held s || s_leaked s)); exact H0. }
  destruct (step P Q C s a) as [s1 o1]. cbn [fst] in H1. specialize (IH s1 H1).
  destruct (run_sys P Q C s1 rest) as [s2 o2]. exact IH.
Qed.

(* the checker never deadlocks on healthMu *)
Lemma checker_never_stuck P Q C t0 now0 sched :
  good_plan P -> good_qplan Q -> s_phase (fst (run_sys P Q C (init C t0 now0) sched)) <> CStuck.
Proof.
  intros GP GQ. pose proof (run_inv P Q C t0 sched _ GP GQ (init_inv C t0 now0)) as (_ & _ & _ & H).
  intro E. rewrite E in H. exact H.
Qed.

(* the discipline is necessary: a plan that pings under the lock blocks every query made while the first ping of a
   round is in flight, however long that takes — the staleness clause cannot be reached *)
Lemma run_ticks P Q C s ticks :
  run_sys P Q C s (map ATick ticks ++ [AQuery]) =
  (let s' := mkSys (s_st s) (s_now s + fold_left Z.add ticks 0) (s_closed s) (s_held s) (s_leaked s) (s_phase s) (s_hist s) (s_cur s) (s_late s) in
   (fst (query Q C s'), [snd (query Q C s')])).
Proof.
  revert s. induction ticks as [|d ticks IH]; intros s; cbn [map app].
  - cbn [run_sys step fold_left]. rewrite Z.add_0_r. destruct s; cbn. destruct (query Q C _); reflexivity.
  - cbn [run_sys step]. rewrite IH. cbn [s_st s_now s_closed s_held s_leaked s_phase s_hist s_cur s_late fold_left].
    replace (s_now s + d + fold_left Z.add ticks 0) with (s_now s + fold_left Z.add ticks (0 + d)); [reflexivity|].
    assert (G : forall l a, fold_left Z.add l a = a + fold_left Z.add l 0).
    { clear. induction l as [|x l IHl]; intros a; cbn [fold_left]; [lia|]. rewrite (IHl (a + x)), (IHl (0 + x)). lia. }
    rewrite (G ticks (0 + d)). lia.
Qed.
Lemma ping_under_lock_blocks P Q C t0 now0 ticks :
  p_ping_locked P = true -> (1 <= c_tokens C)%nat -> q_locks Q = true -> q_early Q && c_disabled C = false ->
  exists t, snd (run_sys P Q C (init C t0 now0) (ABegin :: map ATick ticks ++ [AQuery])) = [OBlocked t].
Proof.
  intros Hp Ht Hlk Hq. cbn [run_sys]. cbn [step init s_phase s_leaked].
  unfold next_ping. destruct (c_tokens C) as [|k] eqn:Ek; [lia|].
  cbn [s_closed andb]. rewrite andb_false_r. rewrite run_ticks. cbn zeta. cbn [snd app].
  unfold query. rewrite Hq, Hlk. cbn [s_held s_leaked]. rewrite Hp. cbn [orb andb snd]. eexists. reflexivity.
Qed.
