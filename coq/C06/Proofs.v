From Relic Require Import Base.Prelude Generated.C06_gen C06.Model.
From Coq Require Import Permutation.

Definition nb (b : bool) : nat := if b then 1%nat else 0%nat.

(* ------------------------------------------------------------------------------------------------------------
   PublishAudit for an arbitrary order [pc] of sink attempts (0 = AMQP, anything else = the audit file) *)

(* sink c is configured and its delivery fails *)
Definition sink_fails (c : Z) (s : sinks) : bool :=
  if c =? 0 then amqp_configured s && negb (amqp_ok s) else file_configured s && negb (file_ok s).

Lemma publish_step c r s :
  publish (c :: r) s =
  (let used := if c =? 0 then amqp_configured s else file_configured s in
   let ok := if c =? 0 then amqp_ok s else file_ok s in
   let eff := if c =? 0 then EAmqp (amqp_ok s) else EAppend (file_ok s) in
   if used then if ok then (eff :: fst (publish r s), snd (publish r s)) else ([eff], false) else publish r s).
Proof.
  cbn [publish]. unfold publish_uses_amqp, publish_uses_file.
  destruct (c =? 0); cbv zeta; destruct (publish r s) as [e k]; cbn [fst snd];
    destruct (amqp_configured s), (amqp_ok s), (file_configured s), (file_ok s); reflexivity.
Qed.

(* a configured sink that fails anywhere in the order makes PublishAudit fail *)
Lemma publish_fail pc s : (exists c, In c pc /\ sink_fails c s = true) -> snd (publish pc s) = false.
Proof.
  induction pc as [|c r IH]; intros [c' [Hin Hf]]; [destruct Hin|].
  rewrite publish_step. cbv zeta. destruct Hin as [<-|Hin].
  - unfold sink_fails in Hf. destruct (c =? 0); apply andb_true_iff in Hf as [-> Hn];
      apply negb_true_iff in Hn; rewrite Hn; reflexivity.
  - assert (R : snd (publish r s) = false) by (apply IH; exists c'; auto).
    destruct (if c =? 0 then amqp_configured s else file_configured s);
      [destruct (if c =? 0 then amqp_ok s else file_ok s)|]; cbn [snd]; auto.
Qed.

(* ... and conversely, PublishAudit fails only if some configured sink failed *)
Lemma publish_ok pc s : (forall c, In c pc -> sink_fails c s = false) -> snd (publish pc s) = true.
Proof.
  induction pc as [|c r IH]; intro H; [reflexivity|].
  rewrite publish_step. cbv zeta.
  assert (Hc := H c (or_introl eq_refl)). unfold sink_fails in Hc.
  assert (R : snd (publish r s) = true) by (apply IH; intros c' Hin; apply H; right; exact Hin).
  destruct (c =? 0).
  - destruct (amqp_configured s), (amqp_ok s); cbn [snd]; try discriminate; auto.
  - destruct (file_configured s), (file_ok s); cbn [snd]; try discriminate; auto.
Qed.

Lemma publish_no_respond pc s : existsb is_200 (fst (publish pc s)) = false.
Proof.
  induction pc as [|c r IH]; [reflexivity|]. rewrite publish_step. cbv zeta.
  destruct (if c =? 0 then amqp_configured s else file_configured s); [|exact IH].
  destruct (if c =? 0 then amqp_ok s else file_ok s); cbn [fst existsb]; destruct (c =? 0); cbn; auto.
Qed.

(* whatever the order: nothing is attempted after a failed sink *)
Lemma publish_stops pc s : stops_at_failure (fst (publish pc s)) = true.
Proof.
  induction pc as [|c r IH]; [reflexivity|]. rewrite publish_step. cbv zeta.
  destruct (c =? 0).
  - destruct (amqp_configured s); [|exact IH]. destruct (amqp_ok s); cbn [fst stops_at_failure is_failed_sink]; auto.
  - destruct (file_configured s); [|exact IH]. destruct (file_ok s); cbn [fst stops_at_failure is_failed_sink]; auto.
Qed.
(* the outcome is success exactly when no attempted delivery failed *)
Lemma publish_result pc s : snd (publish pc s) = negb (existsb is_failed_sink (fst (publish pc s))).
Proof.
  induction pc as [|c r IH]; [reflexivity|]. rewrite publish_step. cbv zeta.
  destruct (c =? 0).
  - destruct (amqp_configured s); [|exact IH]. destruct (amqp_ok s); cbn [fst snd existsb is_failed_sink orb negb]; auto.
  - destruct (file_configured s); [|exact IH]. destruct (file_ok s); cbn [fst snd existsb is_failed_sink orb negb]; auto.
Qed.

(* ------------------------------------------------------------------------------------------------------------
   serveSign with PublishAudit trying the sinks in an arbitrary order *)
Lemma serve_p_unfold pc i g s :
  serve_p pc serve_calls i g s =
  if i then
    if g then ESign true :: fst (publish pc s) ++ [ERespond (if snd (publish pc s) then 200 else 500)]
    else [ESign false; ERespond 500]
  else [ERespond 500].
Proof.
  unfold serve_calls. cbn [serve_p Z.eqb]. change (0 =? 0) with true. cbv iota.
  destruct i; [|reflexivity].
  change (1 =? 0) with false. change (1 =? 1) with true. cbv iota.
  destruct g; [|reflexivity].
  change (2 =? 0) with false. change (2 =? 1) with false. change (2 =? 2) with true. cbv iota.
  destruct (publish pc s) as [e [|]]; reflexivity.
Qed.

Lemma sink_failure_blocks_any_order pc i g s :
  (exists c, In c pc /\ sink_fails c s = true) -> responds_200 (serve_p pc serve_calls i g s) = false.
Proof.
  intro H. rewrite serve_p_unfold. destruct i, g; try reflexivity.
  rewrite (publish_fail pc s H). unfold responds_200. cbn [existsb is_200 orb].
  rewrite existsb_app, publish_no_respond. reflexivity.
Qed.

(* every subset of failing sinks, every order in which both sinks are tried *)
Lemma sink_failure_blocks_every_order pc i g s :
  In 0 pc -> In 1 pc ->
  (amqp_configured s = true /\ amqp_ok s = false) \/ (file_configured s = true /\ file_ok s = false) ->
  responds_200 (serve_p pc serve_calls i g s) = false.
Proof.
  intros H0 H1 [[Hc Hk]|[Hc Hk]]; apply sink_failure_blocks_any_order.
  - exists 0. split; [exact H0|]. unfold sink_fails. cbn. rewrite Hc, Hk. reflexivity.
  - exists 1. split; [exact H1|]. unfold sink_fails. cbn. rewrite Hc, Hk. reflexivity.
Qed.

(* a 200 needs every attempted sink to have succeeded, in any order *)
Lemma response_needs_all_sinks pc i g s :
  responds_200 (serve_p pc serve_calls i g s) = true ->
  i = true /\ g = true /\ forall c, In c pc -> sink_fails c s = false.
Proof.
  intro H. destruct i; [|discriminate]. destruct g; [|discriminate]. repeat split.
  intros c Hin. destruct (sink_fails c s) eqn:E; [|reflexivity].
  rewrite sink_failure_blocks_any_order in H; [discriminate|]. exists c. auto.
Qed.

Lemma two_orders (pc : list Z) : Permutation [0; 1] pc -> pc = [0; 1] \/ pc = [1; 0].
Proof. apply Permutation_length_2_inv. Qed.

(* both orders: a 200 is preceded by exactly one delivered record per configured sink *)
Lemma audit_before_response_every_order pc init_ok sign_ok s :
  Permutation [0; 1] pc ->
  responds_200 (serve_p pc serve_calls init_ok sign_ok s) = true ->
  let pre := before_200 (serve_p pc serve_calls init_ok sign_ok s) in
  count_ok_amqp pre = nb (amqp_configured s) /\ count_ok_append pre = nb (file_configured s) /\
  In (ESign true) pre /\ init_ok = true /\ sign_ok = true.
Proof.
  intros P. destruct (two_orders pc P) as [-> | ->]; destruct s as [ac fc ao fo];
    destruct init_ok, sign_ok, ac, fc, ao, fo; vm_compute; intro H; try discriminate; repeat split; auto.
Qed.

(* ------------------------------------------------------------------------------------------------------------
   the code's own order (generated table publish_calls) *)

(* server: a 200 response is preceded by exactly one successful record per configured sink, after the signature *)
Lemma audit_before_response init_ok sign_ok s :
  responds_200 (serve_sign init_ok sign_ok s) = true ->
  let pre := before_200 (serve_sign init_ok sign_ok s) in
  count_ok_amqp pre = nb (amqp_configured s) /\ count_ok_append pre = nb (file_configured s) /\
  In (ESign true) pre /\ init_ok = true /\ sign_ok = true.
Proof.
  destruct s as [ac fc ao fo]; destruct init_ok, sign_ok, ac, fc, ao, fo; vm_compute; intro H; try discriminate;
    repeat split; auto.
Qed.

(* any configured sink failing => the signature is not returned *)
Lemma sink_failure_blocks init_ok sign_ok s :
  (amqp_configured s = true /\ amqp_ok s = false) \/ (file_configured s = true /\ file_ok s = false) ->
  responds_200 (serve_sign init_ok sign_ok s) = false.
Proof.
  destruct s as [ac fc ao fo]. cbn [amqp_configured amqp_ok file_configured file_ok].
  intros [[-> ->]|[-> ->]]; destruct init_ok, sign_ok; try destruct ac; try destruct fc; try destruct ao; try destruct fo;
    reflexivity.
Qed.

(* when everything works the response is a 200 *)
Lemma all_ok_responds s :
  (amqp_configured s = true -> amqp_ok s = true) -> (file_configured s = true -> file_ok s = true) ->
  responds_200 (serve_sign true true s) = true.
Proof.
  destruct s as [ac fc ao fo]. cbn [amqp_configured amqp_ok file_configured file_ok]. intros H1 H2.
  destruct ac, fc, ao, fo; try reflexivity;
    try (specialize (H1 eq_refl); discriminate); try (specialize (H2 eq_refl); discriminate).
Qed.

(* a request produces at most one record per sink and at most one response (no duplicates) *)
Lemma at_most_one_record init_ok sign_ok s :
  let t := serve_sign init_ok sign_ok s in
  (count_ok_amqp t <= 1)%nat /\ (count_ok_append t <= 1)%nat /\ (count_200 t <= 1)%nat /\
  (attempts_amqp t <= 1)%nat /\ (attempts_append t <= 1)%nat.
Proof.
  destruct s as [ac fc ao fo]; destruct init_ok, sign_ok, ac, fc, ao, fo; vm_compute; repeat split; auto.
Qed.

(* standalone: success (exit 0) implies exactly one record per configured sink *)
Lemma standalone_success_audited init_ok sign_ok apply_ok s e :
  sign_cmd init_ok sign_ok apply_ok s = (e, true) ->
  count_ok_amqp e = nb (amqp_configured s) /\ count_ok_append e = nb (file_configured s) /\ In (ESign true) e.
Proof.
  destruct s as [ac fc ao fo]; destruct init_ok, sign_ok, apply_ok, ac, fc, ao, fo; vm_compute; intro H;
    try discriminate; inversion H; subst; repeat split; auto.
Qed.

(* standalone: a failing sink makes the command fail *)
Lemma standalone_sink_failure_fails init_ok sign_ok apply_ok s :
  (amqp_configured s = true /\ amqp_ok s = false) \/ (file_configured s = true /\ file_ok s = false) ->
  snd (sign_cmd init_ok sign_ok apply_ok s) = false.
Proof.
  destruct s as [ac fc ao fo]. cbn [amqp_configured amqp_ok file_configured file_ok].
  intros [[-> ->]|[-> ->]]; destruct init_ok, sign_ok, apply_ok; try destruct ac; try destruct fc; try destruct ao;
    try destruct fo; reflexivity.
Qed.

(* ------------------------------------------------------------------------------------------------------------
   sequences of requests: totals of records and responses *)
Lemma count_app p a b : count p (a ++ b) = (count p a + count p b)%nat.
Proof. unfold count. rewrite filter_app, app_length. reflexivity. Qed.

Lemma serve_all_cons ac fc r rs : serve_all ac fc (r :: rs) = serve_req ac fc r ++ serve_all ac fc rs.
Proof. reflexivity. Qed.

Lemma req_totals ac fc r :
  let t := serve_req ac fc r in
  (nb ac * count_200 t <= count_ok_amqp t)%nat /\ (nb fc * count_200 t <= count_ok_append t)%nat /\
  (healthy r = true -> count_ok_amqp t = nb ac * count_200 t /\ count_ok_append t = nb fc * count_200 t)%nat.
Proof.
  destruct r as [i g ao fo]; destruct ac, fc, i, g, ao, fo; vm_compute; repeat split; auto; discriminate.
Qed.

(* every returned signature is covered by a record in each configured sink *)
Lemma responses_covered_by_records ac fc rs :
  let t := serve_all ac fc rs in
  (nb ac * count_200 t <= count_ok_amqp t)%nat /\ (nb fc * count_200 t <= count_ok_append t)%nat.
Proof.
  induction rs as [|r rs IH]; [destruct ac, fc; vm_compute; auto|].
  cbv zeta in *. rewrite serve_all_cons. unfold count_200, count_ok_amqp, count_ok_append in *. rewrite !count_app.
  destruct (req_totals ac fc r) as [A [B _]]. cbv zeta in A, B. unfold count_200, count_ok_amqp, count_ok_append in A, B.
  destruct IH as [IA IB]. destruct ac, fc; cbn [nb] in *; lia.
Qed.

(* with healthy sinks: #records in the file = #records at the broker = #signatures returned *)
Lemma records_equal_responses ac fc rs :
  forallb healthy rs = true ->
  let t := serve_all ac fc rs in
  count_ok_amqp t = (nb ac * count_200 t)%nat /\ count_ok_append t = (nb fc * count_200 t)%nat.
Proof.
  induction rs as [|r rs IH]; intro H; [destruct ac, fc; vm_compute; auto|].
  cbn [forallb] in H. apply andb_true_iff in H as [Hr Hrs]. specialize (IH Hrs).
  cbv zeta in *. rewrite serve_all_cons. unfold count_200, count_ok_amqp, count_ok_append in *. rewrite !count_app.
  destruct (req_totals ac fc r) as [_ [_ C]]. cbv zeta in C. specialize (C Hr).
  unfold count_200, count_ok_amqp, count_ok_append in C. destruct C as [CA CB]. destruct IH as [IA IB].
  destruct ac, fc; cbn [nb] in *; lia.
Qed.

(* ------------------------------------------------------------------------------------------------------------ *)
Lemma single_write_per_record : append_writes = 1.
Proof. reflexivity. Qed.

(* the log written by any serialisation of whole-record appends splits back into exactly those records *)
Lemma lines_acc_record r cur rest :
  no_nl r = true -> lines_acc (r ++ nl :: rest) cur = rev (rev r ++ cur) :: lines_acc rest [].
Proof.
  revert cur. induction r as [|b r IH]; intros cur H; cbn [app lines_acc rev].
  - unfold nl at 1. change (10 =? nl) with true. cbv iota. reflexivity.
  - cbn [no_nl forallb] in H. apply andb_true_iff in H as [Hb Hr].
    destruct (b =? nl) eqn:E; [discriminate|]. rewrite IH by exact Hr.
    rewrite <- app_assoc. reflexivity.
Qed.
Lemma log_wellformed order :
  Forall (fun r => no_nl r = true) order -> lines (log_of order) = order.
Proof.
  unfold lines, log_of. induction 1 as [|r rs Hr _ IH]; [reflexivity|].
  cbn [map concat]. rewrite <- app_assoc. cbn [app]. rewrite lines_acc_record by exact Hr.
  rewrite app_nil_r, rev_involutive. f_equal. exact IH.
Qed.
(* hence for any interleaving (permutation) of the writers' records the file holds exactly those records, one per line *)
Lemma log_interleaving records order :
  Permutation order records -> Forall (fun r => no_nl r = true) records ->
  Permutation (lines (log_of order)) records.
Proof.
  intros P F. rewrite log_wellformed; [exact P|].
  apply Forall_forall. intros x Hx. rewrite Forall_forall in F. apply F. eapply Permutation_in; eauto.
Qed.
