From Relic Require Import Base.Prelude Generated.C06_gen C06.Model.
From Coq Require Import Permutation.

Lemma publish_cases s :
  publish publish_calls s =
  (if amqp_configured s then
     if amqp_ok s then
       (if file_configured s then (if file_ok s then ([EAmqp true; EAppend true], true) else ([EAmqp true; EAppend false], false))
        else ([EAmqp true], true))
     else ([EAmqp false], false)
   else if file_configured s then (if file_ok s then ([EAppend true], true) else ([EAppend false], false))
   else ([], true)).
Proof.
  unfold publish_calls, publish, publish_uses_amqp, publish_uses_file. cbn.
  destruct (amqp_configured s), (amqp_ok s), (file_configured s), (file_ok s); reflexivity.
Qed.

Definition nb (b : bool) : nat := if b then 1%nat else 0%nat.

(* server: a 200 response is preceded by exactly one successful record per configured sink, after the signature *)
Lemma audit_before_response init_ok sign_ok s :
  responds_200 (serve_sign init_ok sign_ok s) = true ->
  let pre := before_200 (serve_sign init_ok sign_ok s) in
  count_ok_amqp pre = nb (amqp_configured s) /\ count_ok_append pre = nb (file_configured s) /\
  In (ESign true) pre /\ init_ok = true /\ sign_ok = true.
Proof.
  unfold serve_sign, serve_calls. cbn [serve Z.eqb]. change (0 =? 0) with true. cbv iota.
  destruct init_ok; [|cbn; discriminate].
  change (1 =? 0) with false. change (1 =? 1) with true. cbv iota.
  destruct sign_ok; [|cbn; discriminate].
  change (2 =? 0) with false. change (2 =? 1) with false. change (2 =? 2) with true. cbv iota.
  rewrite publish_cases.
  destruct (amqp_configured s), (amqp_ok s), (file_configured s), (file_ok s); cbn; intro H; try discriminate;
    repeat split; auto.
Qed.

(* any configured sink failing => the signature is not returned *)
Lemma sink_failure_blocks init_ok sign_ok s :
  (amqp_configured s = true /\ amqp_ok s = false) \/ (file_configured s = true /\ file_ok s = false) ->
  responds_200 (serve_sign init_ok sign_ok s) = false.
Proof.
  unfold serve_sign, serve_calls. cbn [serve Z.eqb]. change (0 =? 0) with true. cbv iota.
  destruct init_ok; [|reflexivity].
  change (1 =? 0) with false. change (1 =? 1) with true. cbv iota.
  destruct sign_ok; [|reflexivity].
  change (2 =? 0) with false. change (2 =? 1) with false. change (2 =? 2) with true. cbv iota.
  rewrite publish_cases.
  intros [[H1 H2]|[H1 H2]]; rewrite H1, H2; destruct (amqp_configured s), (amqp_ok s), (file_configured s), (file_ok s);
    try discriminate; reflexivity.
Qed.

(* when everything works the response is a 200 *)
Lemma all_ok_responds s :
  (amqp_configured s = true -> amqp_ok s = true) -> (file_configured s = true -> file_ok s = true) ->
  responds_200 (serve_sign true true s) = true.
Proof.
  unfold serve_sign, serve_calls. cbn [serve Z.eqb]. change (0 =? 0) with true. cbv iota.
  change (1 =? 0) with false. change (1 =? 1) with true. cbv iota.
  change (2 =? 0) with false. change (2 =? 1) with false. change (2 =? 2) with true. cbv iota.
  rewrite publish_cases. intros H1 H2.
  destruct (amqp_configured s), (amqp_ok s), (file_configured s), (file_ok s); try reflexivity;
    try (specialize (H1 eq_refl); discriminate); try (specialize (H2 eq_refl); discriminate).
Qed.

(* standalone: success (exit 0) implies exactly one record per configured sink *)
Lemma standalone_success_audited init_ok sign_ok apply_ok s e :
  sign_cmd init_ok sign_ok apply_ok s = (e, true) ->
  count_ok_amqp e = nb (amqp_configured s) /\ count_ok_append e = nb (file_configured s) /\ In (ESign true) e.
Proof.
  unfold sign_cmd, standalone_calls. cbn [standalone Z.eqb]. change (0 =? 0) with true. cbv iota.
  destruct init_ok; [|discriminate].
  change (1 =? 0) with false. change (1 =? 1) with true. cbv iota.
  destruct sign_ok; [|discriminate].
  change (2 =? 0) with false. change (2 =? 1) with false. change (2 =? 2) with true. cbv iota.
  destruct apply_ok; [|discriminate].
  change (3 =? 0) with false. change (3 =? 1) with false. change (3 =? 2) with false. change (3 =? 3) with true. cbv iota.
  change (4 =? 0) with false. change (4 =? 1) with false. change (4 =? 2) with false. change (4 =? 3) with false. cbv iota.
  rewrite publish_cases.
  destruct (amqp_configured s), (amqp_ok s), (file_configured s), (file_ok s); cbn; intro H; inversion H; subst; cbn;
    repeat split; auto.
Qed.

Lemma single_write_per_record : append_writes = 1.
Proof. reflexivity. Qed.

(* the log written by any serialisation of whole-record appends splits back into exactly those records *)
Lemma lines_acc_record r cur rest :
  no_nl r = true -> lines_acc (r ++ nl :: rest) cur = rev (rev r ++ cur) :: lines_acc rest [].
Proof.
  revert cur. induction r as [|b r IH]; intros cur H; cbn [app lines_acc rev].
  - unfold nl at 1. change (10 =? nl) with true. cbv iota. reflexivity.
  - cbn [no_nl forallb] in H. apply andb_true_iff in H as [Hb Hr].
    destruct (b =? nl) eqn:E; [discriminate|]. rewrite IH by exact Hr.
    rewrite <- app_assoc. reflexivity.
Qed.
Lemma log_wellformed order :
  Forall (fun r => no_nl r = true) order -> lines (log_of order) = order.
Proof.
  unfold lines, log_of. induction 1 as [|r rs Hr _ IH]; [reflexivity|].
  cbn [map concat]. rewrite <- app_assoc. cbn [app]. rewrite lines_acc_record by exact Hr.
  rewrite app_nil_r, rev_involutive. f_equal. exact IH.
Qed.
(* hence for any interleaving (permutation) of the writers' records the file holds exactly those records, one per line *)
Lemma log_interleaving records order :
  Permutation order records -> Forall (fun r => no_nl r = true) records ->
  Permutation (lines (log_of order)) records.
Proof.
  intros P F. rewrite log_wellformed; [exact P|].
  apply Forall_forall. intros x Hx. rewrite Forall_forall in F. apply F. eapply Permutation_in; eauto.
Qed.
