(* C06/AppendProofs.v — proofs about the system-call model of AppendTo (C06/Append.v):
   1. what the generated program append_prog does for EVERY record length and every fault;
   2. what a buffered writer does to the same bytes, for every record length and buffer size;
   3. for any number of appenders, any record lengths and ANY interleaving of their write(2) calls: the file is one
      record per line iff every record reaches the file in a single non-empty write. *)
From Relic Require Import Base.Prelude Generated.C06_gen C06.Model C06.Append.
From Coq Require Import Permutation.

(* ------------------------------------------------------------------ part 1 and 2: one call *)
Lemma fd_write_small fails short p sys : zlen p <= os_max_rw -> short (length sys) = None ->
  fd_write fails short p sys = (sys ++ [(p, negb (fails (length sys)))], negb (fails (length sys))).
Proof. intros H N. unfold fd_write. rewrite N. destruct (zlen p <=? os_max_rw) eqn:E; [reflexivity|lia]. Qed.

Lemma append_outcome E r : zlen r + 1 <= os_max_rw -> e_short E 0%nat = None ->
  let s := run_append E r in
  s_bad s = false /\
  s_ret s = Some (e_open_ok E && e_marshal_ok E && negb (e_fail E 0)) /\
  s_sys s = if e_open_ok E && e_marshal_ok E then [(r ++ [nl], negb (e_fail E 0))] else [].
Proof.
  intros H N. unfold run_append, run_prog, append_prog, exec. cbn [fold_left].
  destruct E as [o m f sh]. cbn [e_short] in N.
  destruct o, m; cbn -[fd_write os_max_rw]; try (repeat split; reflexivity).
  rewrite ?app_nil_r. rewrite fd_write_small by (try exact N; rewrite zlen_app; cbn; lia).
  cbn. destruct (f 0%nat); cbn; repeat split; reflexivity.
Qed.

Lemma take_z_all n l : zlen l <= n -> take_z n l = l.
Proof.
  revert n. induction l as [|x l IH]; intros n H; [reflexivity|].
  rewrite zlen_cons in H. pose proof (zlen_nonneg l). cbn [take_z].
  destruct (n <=? 0) eqn:E; [lia|]. rewrite IH by lia. reflexivity.
Qed.
Lemma drop_z_all n l : zlen l <= n -> drop_z n l = [].
Proof.
  revert n. induction l as [|x l IH]; intros n H; [reflexivity|].
  rewrite zlen_cons in H. pose proof (zlen_nonneg l). cbn [drop_z].
  destruct (n <=? 0) eqn:E; [lia|]. apply IH. lia.
Qed.
Lemma take_drop_z n l : take_z n l ++ drop_z n l = l.
Proof.
  revert n. induction l as [|x l IH]; intros n; [reflexivity|]. cbn [take_z drop_z].
  destruct (n <=? 0); [reflexivity|]. cbn [app]. rewrite IH. reflexivity.
Qed.

Definition eff_size (size : Z) : Z := if size <=? 0 then bufio_default_size else size.


Definition huw : uwrite := file_uw healthy_env true.
Lemma huw_small p sys : zlen p <= os_max_rw -> huw p sys = (sys ++ [(p, true)], true).
Proof. intro H. unfold huw, file_uw, healthy_env. cbn [e_fail e_short]. rewrite fd_write_small by (try exact H; reflexivity). reflexivity. Qed.

Lemma bw_write_bypass id B p sys :
  B < zlen p -> zlen p <= os_max_rw ->
  bw_write huw (mkBw id B [] false) p sys = (mkBw id B [] false, sys ++ [(p, true)], true).
Proof.
  intros H1 H2. unfold bw_write, bw_avail. cbn [ bw_size bw_buf bw_err negb andb]. change (zlen (@nil Z)) with 0.
  rewrite Z.sub_0_r. destruct (zlen p >? B) eqn:E; [|lia]. cbn [andb]. change (0 =? 0) with true. cbv iota.
  rewrite huw_small by exact H2. reflexivity.
Qed.
Lemma bw_write_fits id B buf p sys :
  zlen p <= B - zlen buf ->
  bw_write huw (mkBw id B buf false) p sys = (mkBw id B (buf ++ p) false, sys, true).
Proof.
  intros H. unfold bw_write, bw_avail. cbn [ bw_size bw_buf bw_err negb andb].
  destruct (zlen p >? B - zlen buf) eqn:E; [lia|]. reflexivity.
Qed.
Lemma bw_byte_room id B buf c sys :
  0 < B - zlen buf -> bw_write_byte huw (mkBw id B buf false) c sys = (mkBw id B (buf ++ [c]) false, sys, true).
Proof.
  intros H. unfold bw_write_byte, bw_avail. cbn [ bw_size bw_buf bw_err].
  destruct (B - zlen buf <=? 0) eqn:E; [lia|]. reflexivity.
Qed.
Lemma bw_flush_some id B buf sys :
  0 < zlen buf -> zlen buf <= os_max_rw ->
  bw_flush huw (mkBw id B buf false) sys = (mkBw id B [] false, sys ++ [(buf, true)], true).
Proof.
  intros H1 H2. unfold bw_flush. cbn [bw_buf bw_err]. destruct (zlen buf =? 0) eqn:E; [lia|].
  rewrite huw_small by exact H2. reflexivity.
Qed.
Lemma bw_byte_full id B buf c sys :
  B - zlen buf <= 0 -> 0 < zlen buf -> zlen buf <= os_max_rw ->
  bw_write_byte huw (mkBw id B buf false) c sys = (mkBw id B [c] false, sys ++ [(buf, true)], true).
Proof.
  intros H H1 H2. unfold bw_write_byte, bw_avail. cbn [ bw_size bw_buf bw_err].
  destruct (B - zlen buf <=? 0) eqn:E; [|lia]. rewrite bw_flush_some by assumption. reflexivity.
Qed.

(* the state after the first three statements of prog_bufio *)
Definition sb (blob : bytes) (b : bw) (sys : list syscall) : st := mkSt blob true [b] sys None false.
Lemma step_write1 r b sys chk :
  bw_id b = 1 ->
  exec_op healthy_env r (AWrite 1 [PBlob] chk) (sb r b sys) =
  let '(b', sys', ok) := bw_write huw b r sys in after_chk chk ok (set_sys (set_ws (sb r b sys) (put_bw b' [b])) sys').
Proof.
  intro H. unfold sb. cbn [exec_op s_ret s_blob payload_bytes flat_map]. rewrite app_nil_r.
  change (1 =? 0) with false. cbv iota. unfold with_bw. cbn [s_ws find_bw s_file s_sys]. rewrite H.
  change (1 =? 1) with true. cbv iota. reflexivity.
Qed.
Lemma step_byte1 r blob b sys c chk :
  bw_id b = 1 ->
  exec_op healthy_env r (AWriteByte 1 c chk) (sb blob b sys) =
  let '(b', sys', ok) := bw_write_byte huw b c sys in after_chk chk ok (set_sys (set_ws (sb blob b sys) (put_bw b' [b])) sys').
Proof.
  intro H. unfold sb. cbn [exec_op s_ret]. unfold with_bw. cbn [s_ws find_bw s_file s_sys]. rewrite H.
  change (1 =? 1) with true. cbv iota. reflexivity.
Qed.
Lemma step_flush1 r blob b sys chk :
  bw_id b = 1 ->
  exec_op healthy_env r (AFlush 1 chk) (sb blob b sys) =
  let '(b', sys', ok) := bw_flush huw b sys in after_chk chk ok (set_sys (set_ws (sb blob b sys) (put_bw b' [b])) sys').
Proof.
  intro H. unfold sb. cbn [exec_op s_ret]. unfold with_bw. cbn [s_ws find_bw s_file s_sys]. rewrite H.
  change (1 =? 1) with true. cbv iota. reflexivity.
Qed.
Lemma prefix_bufio size r :
  exec healthy_env r [AOpen 1; AMarshal 1; ANewWriter 1 0 size] st0 = sb r (mkBw 1 (eff_size size) [] false) [].
Proof. reflexivity. Qed.
Lemma upd1 blob B buf sys B' buf' sys' :
  set_sys (set_ws (sb blob (mkBw 1 B buf false) sys) (put_bw (mkBw 1 B' buf' false) [mkBw 1 B buf false])) sys'
  = sb blob (mkBw 1 B' buf' false) sys'.
Proof. reflexivity. Qed.

Lemma bufio_emit size r :
  zlen r <= os_max_rw -> eff_size size <= os_max_rw ->
  emit_of (prog_bufio size) r = if zlen r <? eff_size size then [r ++ [nl]] else [r; [nl]].
Proof.
  intros Hr HB. assert (HB0 : 0 < eff_size size).
  { unfold eff_size. destruct (size <=? 0) eqn:E; [reflexivity|lia]. }
  pose proof (zlen_nonneg r) as Hr0.
  unfold emit_of, run_prog, prog_bufio.
  change (exec healthy_env r [AOpen 1; AMarshal 1; ANewWriter 1 0 size; AWrite 1 [PBlob] 0; AWriteByte 1 10 0; AFlush 1 1; AReturn true] st0)
    with (exec healthy_env r [AWrite 1 [PBlob] 0; AWriteByte 1 10 0; AFlush 1 1; AReturn true]
            (exec healthy_env r [AOpen 1; AMarshal 1; ANewWriter 1 0 size] st0)).
  rewrite prefix_bufio. set (B := eff_size size) in *. unfold exec. cbn [fold_left].
  rewrite step_write1 by reflexivity.
  destruct (Z.ltb_spec (zlen r) B) as [Hlt|Hge].
  - (* fits with its terminator *)
    rewrite bw_write_fits by (change (zlen (@nil Z)) with 0; lia). cbn [app]. cbn [after_chk Z.eqb]. rewrite upd1.
    rewrite step_byte1 by reflexivity. rewrite bw_byte_room by lia. cbn [after_chk Z.eqb]. rewrite upd1.
    rewrite step_flush1 by reflexivity.
    rewrite bw_flush_some by (rewrite zlen_app; change (zlen [10]) with 1; lia).
    cbn [after_chk Z.eqb]. rewrite upd1. reflexivity.
  - destruct (Z.eq_dec (zlen r) B) as [Heq|Hne].
    + (* exactly fills the buffer: WriteByte has to flush first *)
      rewrite bw_write_fits by (change (zlen (@nil Z)) with 0; lia). cbn [app]. cbn [after_chk Z.eqb]. rewrite upd1.
      rewrite step_byte1 by reflexivity. rewrite bw_byte_full by lia. cbn [after_chk Z.eqb]. rewrite upd1.
      rewrite step_flush1 by reflexivity. rewrite bw_flush_some by (change (zlen [10]) with 1; lia).
      cbn [after_chk Z.eqb]. rewrite upd1. reflexivity.
    + (* larger than the buffer: bypass *)
      rewrite bw_write_bypass by lia. cbn [after_chk Z.eqb]. rewrite upd1.
      rewrite step_byte1 by reflexivity. rewrite bw_byte_room by (change (zlen (@nil Z)) with 0; lia).
      cbn [app after_chk Z.eqb]. rewrite upd1.
      rewrite step_flush1 by reflexivity. rewrite bw_flush_some by (change (zlen [10]) with 1; lia).
      cbn [after_chk Z.eqb]. rewrite upd1. reflexivity.
Qed.

(* ------------------------------------------------------------------ part 3: concurrent appenders *)
Lemma concat_all_nil {A} (ws : list (list A)) : Forall (fun w => w = []) ws -> concat ws = [].
Proof. induction 1 as [|w ws -> _ IH]; [reflexivity|exact IH]. Qed.

Lemma interleave_perm ws evs : interleave ws evs -> Permutation (map snd evs) (concat ws).
Proof.
  induction 1 as [ws H|pre c rest post evs _ IH].
  - rewrite concat_all_nil by exact H. constructor.
  - cbn [map snd]. rewrite concat_app in *. cbn [concat] in *. cbn [app].
    apply Permutation_cons_app. exact IH.
Qed.

Lemma apply_events_append evs file offs : apply_events true evs file offs = file ++ concat (map snd evs).
Proof.
  revert file. induction evs as [|[i c] evs IH]; intro file; cbn [apply_events map snd concat].
  - rewrite app_nil_r. reflexivity.
  - rewrite IH, <- app_assoc. reflexivity.
Qed.
Lemma file_after_append evs : file_after true evs = concat (map snd evs).
Proof. unfold file_after. rewrite apply_events_append. reflexivity. Qed.

Lemma concat_nonempty (l : list bytes) : concat (nonempty l) = concat l.
Proof.
  induction l as [|c l IH]; [reflexivity|]. unfold nonempty in *. cbn [filter concat].
  destruct c; cbn [is_nil negb]; cbn [concat app]; rewrite IH; reflexivity.
Qed.
Lemma nonempty_app a b : nonempty (a ++ b) = nonempty a ++ nonempty b.
Proof. apply filter_app. Qed.
Lemma nonempty_concat_map (f : bytes -> list bytes) rs : nonempty (concat (map f rs)) = concat (map (fun r => nonempty (f r)) rs).
Proof.
  induction rs as [|r rs IH]; [reflexivity|]. cbn [map concat]. rewrite nonempty_app, IH. reflexivity.
Qed.
Lemma nonempty_perm a b : Permutation a b -> Permutation (nonempty a) (nonempty b).
Proof.
  induction 1; unfold nonempty in *; cbn [filter].
  - constructor.
  - destruct (negb (is_nil x)); [constructor|]; assumption.
  - destruct (negb (is_nil x)), (negb (is_nil y)); try constructor; apply Permutation_refl.
  - eapply Permutation_trans; eassumption.
Qed.

(* spec_lines on a sequence of whole lines *)
Lemma spec_lines_line r rest :
  no_nl r = true -> spec_lines (r ++ nl :: rest) = (r :: fst (spec_lines rest), snd (spec_lines rest)).
Proof.
  induction r as [|b r IH]; intro H.
  - cbn [app spec_lines]. destruct (spec_lines rest) as [ls tl]. unfold nl. change (10 =? 10) with true. reflexivity.
  - cbn [no_nl forallb] in H. apply andb_true_iff in H as [Hb Hr]. specialize (IH Hr).
    cbn [app spec_lines]. rewrite IH. unfold nl in Hb. destruct (b =? 10); [discriminate|]. reflexivity.
Qed.
Lemma spec_lines_log order : Forall (fun r => no_nl r = true) order -> spec_lines (log_of order) = (order, []).
Proof.
  unfold log_of. induction 1 as [|r rs Hr _ IH]; [reflexivity|].
  cbn [map concat]. rewrite <- app_assoc. cbn [app]. rewrite spec_lines_line by exact Hr. rewrite IH. reflexivity.
Qed.

Lemma concat_map_single (rs : list bytes) : concat (map (fun r => [r ++ [nl]]) rs) = map (fun r => r ++ [nl]) rs.
Proof. induction rs as [|r rs IH]; [reflexivity|]. cbn [map concat app]. rewrite IH. reflexivity. Qed.

Lemma forall_perm {A} (P : A -> Prop) a b : Permutation a b -> Forall P b -> Forall P a.
Proof. intros Hp Hf. apply Forall_forall. intros x Hx. rewrite Forall_forall in Hf. apply Hf. eapply Permutation_in; eauto. Qed.

(* whatever the split into empty and non-empty chunks: if the non-empty chunks of every record are the one whole line,
   every interleaving leaves a well-formed file *)
Lemma atomic_wellformed (emit : bytes -> list bytes) records evs :
  Forall (fun r => no_nl r = true) records ->
  Forall (fun r => nonempty (emit r) = [r ++ [nl]]) records ->
  interleave (map emit records) evs -> spec_ok records (file_after true evs).
Proof.
  intros Hn Ha Hi. rewrite file_after_append.
  apply interleave_perm in Hi. apply nonempty_perm in Hi. rewrite nonempty_concat_map in Hi.
  assert (E : concat (map (fun r => nonempty (emit r)) records) = map (fun r => r ++ [nl]) records).
  { rewrite <- concat_map_single. f_equal. apply map_ext_in. intros r Hr. rewrite Forall_forall in Ha. apply Ha, Hr. }
  rewrite E in Hi. apply Permutation_map_inv in Hi as [order [Ho Hp]].
  rewrite <- concat_nonempty, Ho. exists order. split.
  - apply (spec_lines_log order). eapply forall_perm; [apply Permutation_sym; exact Hp|exact Hn].
  - apply Permutation_sym. exact Hp.
Qed.

(* ---- the converse: a record that reaches the file in two or more non-empty writes can be torn *)
Lemma nonempty_split l c m :
  nonempty l = c :: m ->
  exists zs tl, l = zs ++ c :: tl /\ Forall (fun w => w = []) zs /\ nonempty tl = m /\ c <> [].
Proof.
  induction l as [|x l IH]; intro H; [discriminate|].
  unfold nonempty in H. cbn [filter] in H. destruct x as [|b x].
  - cbn [is_nil negb] in H. destruct (IH H) as [zs [tl [-> [Hz [Ht Hc]]]]].
    exists ([] :: zs), tl. repeat split; auto.
  - cbn [is_nil negb] in H. injection H as <- Hm. exists [], l. repeat split; auto. discriminate.
Qed.

Fixpoint seq_events (k : nat) (ws : list (list bytes)) : list (nat * bytes) :=
  match ws with [] => [] | w :: r => map (pair k) w ++ seq_events (S k) r end.

Lemma il_at pre a post l evs :
  interleave (pre ++ a :: post) evs -> interleave (pre ++ (l ++ a) :: post) (map (pair (length pre)) l ++ evs).
Proof. intro H. induction l as [|c l IH]; [exact H|]. cbn [map app]. apply il_cons. exact IH. Qed.

Lemma il_seq ws : forall pre, Forall (fun w => w = []) pre -> interleave (pre ++ ws) (seq_events (length pre) ws).
Proof.
  induction ws as [|w ws IH]; intros pre Hp.
  - rewrite app_nil_r. apply il_nil. exact Hp.
  - cbn [seq_events]. rewrite <- (app_nil_r w) at 1. apply il_at.
    replace (pre ++ [] :: ws) with ((pre ++ [[]]) ++ ws) by (rewrite <- app_assoc; reflexivity).
    replace (S (length pre)) with (length (pre ++ [[]])) by (rewrite app_length; cbn; lia).
    apply IH. apply Forall_app. split; [exact Hp|repeat constructor].
Qed.

Lemma map_snd_pair {A} (k : nat) (l : list A) : map snd (map (pair k) l) = l.
Proof. induction l as [|x l IH]; [reflexivity|]. cbn [map snd]. rewrite IH. reflexivity. Qed.
Lemma map_snd_seq k ws : map snd (seq_events k ws) = concat ws.
Proof.
  revert k. induction ws as [|w ws IH]; intro k; [reflexivity|].
  cbn [seq_events concat]. rewrite map_app, map_snd_pair, IH. reflexivity.
Qed.

Lemma app_snoc_split {A} (a t r : list A) x : a ++ t = r ++ [x] -> t <> [] -> exists r2, r = a ++ r2 /\ t = r2 ++ [x].
Proof.
  intros H Ht. destruct (exists_last Ht) as [t' [y ->]]. rewrite app_assoc in H.
  apply app_inj_tail in H as [<- ->]. exists t'. split; reflexivity.
Qed.
Lemma no_nl_app a b : no_nl (a ++ b) = no_nl a && no_nl b.
Proof. unfold no_nl. apply forallb_app. Qed.

Lemma concat_map_lines (emit : bytes -> list bytes) os :
  Forall (fun o => concat (emit o) = o ++ [nl]) os -> concat (concat (map emit os)) = log_of os.
Proof.
  unfold log_of. induction 1 as [|o os Ho _ IH]; [reflexivity|].
  cbn [map concat]. rewrite concat_app, Ho, IH. reflexivity.
Qed.

Lemma split_write_breaks (emit : bytes -> list bytes) r others :
  no_nl r = true -> Forall (fun o => no_nl o = true) others ->
  concat (emit r) = r ++ [nl] -> Forall (fun o => concat (emit o) = o ++ [nl]) others ->
  nonempty (emit r) <> [r ++ [nl]] ->
  exists evs, interleave (map emit (r :: r :: others)) evs /\ ~ spec_ok (r :: r :: others) (file_after true evs).
Proof.
  intros Hr Ho Cr Co Hsplit.
  assert (Cn : concat (nonempty (emit r)) = r ++ [nl]) by (rewrite concat_nonempty; exact Cr).
  destruct (nonempty (emit r)) as [|c1 m] eqn:En.
  { cbn in Cn. destruct r; discriminate. }
  destruct m as [|c2 m].
  { cbn in Cn. rewrite app_nil_r in Cn. subst c1. contradiction. }
  destruct (nonempty_split _ _ _ En) as [zs [tl [El [Hz [Ht Hc1]]]]].
  assert (Htl : concat tl <> []).
  { rewrite <- concat_nonempty, Ht. cbn [concat].
    assert (In c2 (nonempty tl)) by (rewrite Ht; left; reflexivity).
    unfold nonempty in H. apply filter_In in H as [_ H]. destruct c2; [discriminate|]. discriminate. }
  assert (Cz : concat zs = []) by (apply concat_all_nil; exact Hz).
  assert (C1 : c1 ++ concat tl = r ++ [nl]).
  { rewrite <- Cr, El, concat_app, Cz. reflexivity. }
  destruct (app_snoc_split _ _ _ _ C1 Htl) as [r2 [Er Et]].
  set (W := map emit others).
  exists (map (pair 0%nat) (zs ++ [c1]) ++ map (pair 1%nat) (emit r) ++ map (pair 0%nat) tl ++ seq_events 2 W).
  split.
  - cbn [map]. fold W.
    replace (emit r :: emit r :: W) with ([] ++ ((zs ++ [c1]) ++ tl) :: emit r :: W)
      by (cbn [app]; rewrite <- app_assoc; cbn [app]; rewrite <- El; reflexivity).
    apply (il_at [] tl (emit r :: W) (zs ++ [c1])). cbn [app].
    rewrite <- (app_nil_r (emit r)) at 1.
    apply (il_at [tl] [] W (emit r)).
    rewrite <- (app_nil_r tl) at 1.
    apply (il_at [] [] ([] :: W) tl). cbn [app].
    apply (il_seq W [[]; []]). repeat constructor.
  - rewrite file_after_append. rewrite !map_app, !map_snd_pair, map_snd_seq. rewrite !concat_app.
    cbn [concat]. rewrite Cz, app_nil_r. cbn [app]. rewrite Cr, Et. unfold W. rewrite concat_map_lines by exact Co.
    assert (Nr : no_nl (c1 ++ r) = true /\ no_nl r2 = true).
    { rewrite Er in Hr. rewrite no_nl_app in Hr. apply andb_true_iff in Hr as [H1 H2].
      rewrite Er. rewrite !no_nl_app, H1, H2. split; reflexivity. }
    destruct Nr as [N1 N2].
    assert (F : c1 ++ (r ++ [nl]) ++ (r2 ++ [nl]) ++ log_of others = log_of ((c1 ++ r) :: r2 :: others)).
    { unfold log_of. cbn [map concat]. rewrite <- !app_assoc. reflexivity. }
    rewrite F. intros [ls [Hl Hp]].
    rewrite spec_lines_log in Hl by (repeat constructor; assumption).
    injection Hl as <-.
    change ((c1 ++ r) :: r2 :: others) with ([c1 ++ r; r2] ++ others) in Hp.
    change (r :: r :: others) with ([r; r] ++ others) in Hp.
    apply Permutation_app_inv_r in Hp.
    assert (Hin : In (c1 ++ r) [r; r]) by (eapply Permutation_in; [exact Hp|left; reflexivity]).
    assert (E : c1 ++ r = r) by (destruct Hin as [H|[H|[]]]; symmetry; exact H).
    apply (f_equal (@length Z)) in E. rewrite app_length in E. destruct c1; [contradiction|cbn in E; lia].
Qed.

Definition wellformed_always (dom : bytes -> Prop) (emit : bytes -> list bytes) : Prop :=
  forall records evs, Forall dom records -> interleave (map emit records) evs -> spec_ok records (file_after true evs).

Lemma one_write_iff_wellformed (dom : bytes -> Prop) (emit : bytes -> list bytes) :
  (forall r, dom r -> no_nl r = true) ->
  (forall r, dom r -> concat (emit r) = r ++ [nl]) ->
  (wellformed_always dom emit <-> forall r, dom r -> nonempty (emit r) = [r ++ [nl]]).
Proof.
  intros Dn Dc. split.
  - intros W r Hr.
    destruct (list_eq_dec (list_eq_dec Z.eq_dec) (nonempty (emit r)) [r ++ [nl]]) as [E|N]; [exact E|exfalso].
    destruct (split_write_breaks emit r [] (Dn r Hr) (Forall_nil _) (Dc r Hr) (Forall_nil _) N) as [evs [Hi Hb]].
    apply Hb. apply W; [|exact Hi]. repeat constructor; exact Hr.
  - intros A records evs Hd Hi. apply (atomic_wellformed emit records evs); [| |exact Hi].
    + eapply Forall_impl; [|exact Hd]. intros r Hr. apply Dn, Hr.
    + eapply Forall_impl; [|exact Hd]. intros r Hr. apply A, Hr.
Qed.

(* the executable schedules are interleavings *)
Lemma nth_pop_split i : forall ws c ws', nth_pop i ws = Some (c, ws') ->
  exists pre rest post, ws = pre ++ (c :: rest) :: post /\ ws' = pre ++ rest :: post /\ length pre = i.
Proof.
  induction i as [|i IH]; intros [|w ws] c ws' H; try discriminate.
  - cbn [nth_pop] in H. destruct w as [|c0 w]; [discriminate|]. injection H as <- <-. exists [], w, ws. auto.
  - cbn [nth_pop] in H. destruct (nth_pop i ws) as [[c0 r']|] eqn:E; [|discriminate]. injection H as <- <-.
    destruct (IH _ _ _ E) as [pre [rest [post [-> [-> Hl]]]]]. exists (w :: pre), rest, post. cbn [app length]. auto.
Qed.
Lemma sched_run_interleave sched : forall ws evs, sched_run ws sched = Some evs -> interleave ws evs.
Proof.
  induction sched as [|i t IH]; intros ws evs H; cbn [sched_run] in H.
  - destruct (forallb is_nil ws) eqn:E; [|discriminate]. injection H as <-. apply il_nil.
    apply Forall_forall. intros w Hw. rewrite forallb_forall in E. specialize (E w Hw). destruct w; [reflexivity|discriminate].
  - destruct (nth_pop i ws) as [[c ws']|] eqn:E; [|discriminate].
    destruct (sched_run ws' t) as [e|] eqn:E2; [|discriminate]. injection H as <-.
    destruct (nth_pop_split _ _ _ _ E) as [pre [rest [post [-> [-> <-]]]]]. apply il_cons. apply IH. exact E2.
Qed.

(* ------------------------------------------------------------------ consequences for the code as it is *)
(* the records the theorems speak about: encoding/json never emits a raw line feed; one write(2) carries at most os_max_rw bytes *)
Definition in_domain (r : bytes) : Prop := no_nl r = true /\ zlen r + 1 <= os_max_rw.

Lemma appendto_one_write r : zlen r + 1 <= os_max_rw -> emit_prog r = [r ++ [nl]].
Proof.
  intro H. unfold emit_prog, emit_of. fold (run_append healthy_env r).
  destruct (append_outcome healthy_env r H eq_refl) as [_ [_ S]]. rewrite S. reflexivity.
Qed.

Lemma nonempty_line r : nonempty [r ++ [nl]] = [r ++ [nl]].
Proof. destruct r; reflexivity. Qed.

Lemma appendto_open_flags :
  append_open_append = true /\ append_open_trunc = false /\ append_open_create = true /\ append_open_writable = true.
Proof. repeat split; reflexivity. Qed.

Lemma audit_file_one_record_per_line records evs :
  Forall in_domain records -> interleave (map emit_prog records) evs ->
  spec_ok records (file_after append_open_append evs).
Proof.
  intros Hd Hi. destruct appendto_open_flags as [-> _].
  apply (atomic_wellformed emit_prog records evs); [| |exact Hi].
  - eapply Forall_impl; [|exact Hd]. intros r [H _]. exact H.
  - eapply Forall_impl; [|exact Hd]. intros r [_ H]. rewrite appendto_one_write by exact H. apply nonempty_line.
Qed.

(* success is reported exactly when the complete line reached the file in one successful write(2); a refused call leaves
   no part of a line behind *)
Lemma appendto_success_iff E r : zlen r + 1 <= os_max_rw -> e_short E 0%nat = None ->
  let s := run_append E r in
  (s_ret s = Some true <-> e_open_ok E = true /\ e_marshal_ok E = true /\ e_fail E 0%nat = false) /\
  (s_ret s = Some true -> s_sys s = [(r ++ [nl], true)] /\ written s = r ++ [nl]) /\
  (s_ret s <> Some true -> s_ret s = Some false /\ written s = []) /\
  s_bad s = false.
Proof.
  intros H N. destruct (append_outcome E r H N) as [B [R S]]. cbv zeta. rewrite R, B. unfold written. rewrite S.
  destruct (e_open_ok E), (e_marshal_ok E), (e_fail E 0%nat);
    cbn [andb negb filter snd map fst concat app]; rewrite ?app_nil_r;
    (split; [split; [intro X; try discriminate X; auto | intros [X1 [X2 X3]]; try discriminate; auto]
            | split; [intro X; try discriminate X; auto
                     | split; [intro NN; try (exfalso; apply NN; reflexivity); auto | reflexivity]]]).
Qed.

(* ---- the same bytes through a buffered writer (the class of change the unit has to decide) *)
Lemma bufio_concat size r : zlen r <= os_max_rw -> eff_size size <= os_max_rw ->
  concat (emit_of (prog_bufio size) r) = r ++ [nl].
Proof.
  intros H1 H2. rewrite bufio_emit by assumption. destruct (zlen r <? eff_size size); cbn [concat app].
  - rewrite ?app_nil_r. reflexivity.
  - rewrite ?app_nil_r. reflexivity.
Qed.
Lemma bufio_atomic_iff size r : zlen r <= os_max_rw -> eff_size size <= os_max_rw ->
  (nonempty (emit_of (prog_bufio size) r) = [r ++ [nl]] <-> zlen r < eff_size size).
Proof.
  intros H1 H2. rewrite bufio_emit by assumption. destruct (Z.ltb_spec (zlen r) (eff_size size)) as [L|G].
  - split; [intros _; exact L|intros _]. apply nonempty_line.
  - split; [|lia]. intro H. exfalso. unfold nonempty in H. cbn [filter] in H.
    destruct r as [|b r]; cbn [is_nil negb] in H.
    + assert (HB0 : 0 < eff_size size) by (unfold eff_size; destruct (size <=? 0) eqn:E; [reflexivity|lia]).
      change (zlen (@nil Z)) with 0 in G. lia.
    + discriminate.
Qed.

Lemma no_nl_repeat n : no_nl (repeat 120 n) = true.
Proof. induction n as [|n IH]; [reflexivity|]. cbn [repeat no_nl forallb]. exact IH. Qed.
Lemma zlen_repeat n : zlen (repeat 120 n) = Z.of_nat n.
Proof. unfold zlen. rewrite repeat_length. reflexivity. Qed.

(* whatever the buffer size, appenders that go through the buffered writer can tear the file *)
Lemma bufio_can_tear size : eff_size size + 1 <= os_max_rw -> ~ wellformed_always in_domain (emit_of (prog_bufio size)).
Proof.
  intros HB W.
  assert (HB0 : 0 < eff_size size) by (unfold eff_size; destruct (size <=? 0) eqn:E; [reflexivity|lia]).
  pose proof (proj1 (one_write_iff_wellformed in_domain (emit_of (prog_bufio size))
    (fun r H => proj1 H) (fun r H => bufio_concat size r ltac:(destruct H; lia) ltac:(lia))) W) as A.
  set (r := repeat 120 (Z.to_nat (eff_size size))).
  assert (D : in_domain r) by (split; [apply no_nl_repeat|unfold r; rewrite zlen_repeat; lia]).
  specialize (A r D). apply bufio_atomic_iff in A; [|destruct D; lia|lia].
  unfold r in A. rewrite zlen_repeat in A. lia.
Qed.

Lemma os_max_rw_pos : 1 <= os_max_rw.
Proof. apply Z.leb_le. vm_compute. reflexivity. Qed.

Lemma two_writes_emit r : zlen r <= os_max_rw -> emit_of prog_two_writes r = [r; [nl]].
Proof.
  intro H. unfold emit_of, run_prog, prog_two_writes, exec, healthy_env. cbn [fold_left].
  cbn -[fd_write os_max_rw]. rewrite app_nil_r. rewrite fd_write_small by (try exact H; reflexivity).
  cbn -[fd_write os_max_rw]. rewrite fd_write_small by (try reflexivity; pose proof os_max_rw_pos; cbn; lia). reflexivity.
Qed.

(* ---- the full statement does NOT hold once a write(2) can be short (disk filling up, RLIMIT_FSIZE): the call is refused,
   as it must be, but a piece of the line stays in the file, and the next record is glued to it *)
Definition short_env : env := mkEnv true true (fun k => Nat.eqb k 1) (fun k => if Nat.eqb k 0 then Some 2 else None).
Lemma appendto_short_write_refuted :
  exists E r, zlen r + 1 <= os_max_rw /\
    s_ret (run_append E r) = Some false /\ written (run_append E r) = [123; 34] /\
    spec_lines (written (run_append E r) ++ written (run_append healthy_env r)) = ([[123; 34; 123; 34; 97; 34; 58; 49; 125]], []).
Proof.
  exists short_env, [123; 34; 97; 34; 58; 49; 125]. split; [apply Z.leb_le; vm_compute; reflexivity|].
  repeat split; vm_compute; reflexivity.
Qed.
