(* C06/Record.v — the CONTENT of the audit record as a function of the request that produced it.

   Generated/C06rec_gen.v holds lib/audit (New, SetPgpCert, SetX509Cert, SetTimestamp, SetCounterSignature, SetMimeType,
   GetMimeType, Marshal and every helper of the package they reach), x509tools.FormatSubject / FormatIssuer, the
   AuditContext methods of internal/authmodel, signers.SignOpts.SetBinPatch / SetPkcs7 / WithContext, signinit.Init and
   PublishAudit, and serveSign / signCmd from their call of signinit.Init on, translated statement by statement.  This file
   gives that language its meaning: an interpreter with a heap (pointers and maps are references), local frames, the
   package-level variables as explicit PROCESS STATE threaded from one request to the next, an effect log, and a world
   that answers what the code asks of its environment (clock, host name, what InitKey loads for this request, the
   signer's outcome, the sinks).  Everything the interpreter does not know stops the run (Stuck): an untranslated
   statement, an unknown function handed a pointer, a read of an unreviewed package-level variable.

   Values of functions the model does not look into (SHA-1, the distinguished-name formatter, the primary user id of a
   PGP certificate, ...) are symbolic terms VSym f args; the independent SPECIFICATION at the end is written over the
   same symbols from the property text.  Executable definitions only. *)
From Coq Require Strings.String Strings.Ascii.
From Relic Require Import Base.Prelude Generated.C06rec_gen.
Import String.StringSyntax.

Definition zs (s : String.string) : bytes := map (fun a => Z.of_nat (Ascii.nat_of_ascii a)) (String.list_ascii_of_string s).
Local Open Scope string_scope.
(* a string literal as a byte list, computed when the definition is read (not each time it is evaluated) *)
Local Notation "'B' s" := (ltac:(let v := eval vm_compute in (zs s) in exact v)) (at level 0, s at level 0, only parsing).

(* ------------------------------------------------------------------------------------------------ values *)
Inductive value :=
| VNil
| VBool (b : bool)
| VInt (z : Z)
| VStr (s : bytes)                              (* string / []byte *)
| VTime (t : Z)                                 (* a non-zero time.Time *)
| VRef (a : Z)                                  (* pointer or map reference *)
| VStruct (ty : bytes) (fs : list (bytes * value))
| VMap (m : list (value * value))               (* contents of a map cell, newest entry first *)
| VAttrs (sl : list (bytes * (bool * value)))   (* contents of a map[string]interface{} cell: one slot per key (is it present, value) *)
| VTuple (l : list value)                       (* several results *)
| VHash (alg : Z) (pieces : list value)         (* a hash.Hash: what was written so far *)
| VSym (f : bytes) (args : list value)          (* value of a function the model does not look into *)
| VBad (why : bytes).

Fixpoint value_eqb (a b : value) {struct a} : bool :=
  let fix leq (l1 l2 : list value) {struct l1} : bool :=
    match l1, l2 with [], [] => true | x :: r1, y :: r2 => value_eqb x y && leq r1 r2 | _, _ => false end in
  let fix feq (l1 l2 : list (bytes * value)) {struct l1} : bool :=
    match l1, l2 with [], [] => true | (k1, x) :: r1, (k2, y) :: r2 => bytes_eqb k1 k2 && value_eqb x y && feq r1 r2 | _, _ => false end in
  let fix meq (l1 l2 : list (value * value)) {struct l1} : bool :=
    match l1, l2 with [], [] => true | (k1, x) :: r1, (k2, y) :: r2 => value_eqb k1 k2 && value_eqb x y && meq r1 r2 | _, _ => false end in
  let fix seq (l1 l2 : list (bytes * (bool * value))) {struct l1} : bool :=
    match l1, l2 with [], [] => true | (k1, (b1, x)) :: r1, (k2, (b2, y)) :: r2 => bytes_eqb k1 k2 && Bool.eqb b1 b2 && value_eqb x y && seq r1 r2 | _, _ => false end in
  match a, b with
  | VAttrs s1, VAttrs s2 => seq s1 s2
  | VNil, VNil => true
  | VBool x, VBool y => Bool.eqb x y
  | VInt x, VInt y => x =? y
  | VStr x, VStr y => bytes_eqb x y
  | VTime x, VTime y => x =? y
  | VRef x, VRef y => x =? y
  | VStruct t1 f1, VStruct t2 f2 => bytes_eqb t1 t2 && feq f1 f2
  | VMap m1, VMap m2 => meq m1 m2
  | VTuple l1, VTuple l2 => leq l1 l2
  | VHash a1 p1, VHash a2 p2 => (a1 =? a2) && leq p1 p2
  | VSym g1 l1, VSym g2 l2 => bytes_eqb g1 g2 && leq l1 l2
  | VBad _, VBad _ => true
  | _, _ => false
  end.

Fixpoint alookup {A} (k : bytes) (l : list (bytes * A)) : option A :=
  match l with [] => None | (k', v) :: r => if bytes_eqb k k' then Some v else alookup k r end.
Fixpoint aset {A} (k : bytes) (v : A) (l : list (bytes * A)) : list (bytes * A) :=
  match l with [] => [(k, v)] | (k', v') :: r => if bytes_eqb k k' then (k, v) :: r else (k', v') :: aset k v r end.
Fixpoint zlookup {A} (k : Z) (l : list (Z * A)) : option A :=
  match l with [] => None | (k', v) :: r => if k =? k' then Some v else zlookup k r end.
Fixpoint zset {A} (k : Z) (v : A) (l : list (Z * A)) : list (Z * A) :=
  match l with [] => [(k, v)] | (k', v') :: r => if k =? k' then (k, v) :: r else (k', v') :: zset k v r end.
Fixpoint mlookup (k : value) (l : list (value * value)) : option value :=
  match l with [] => None | (k', v) :: r => if value_eqb k k' then Some v else mlookup k r end.
Fixpoint slookup (k : bytes) (l : list (bytes * (bool * value))) : option value :=
  match l with [] => None | (k', bv) :: r => if bytes_eqb k k' then (if fst bv then Some (snd bv) else None) else slookup k r end.
Fixpoint sset (k : bytes) (v : value) (l : list (bytes * (bool * value))) : list (bytes * (bool * value)) :=
  match l with [] => [(k, (true, v))] | (k', bv) :: r => if bytes_eqb k k' then (k', (true, v)) :: r else (k', bv) :: sset k v r end.
Fixpoint bytes_prefix (p s : bytes) : bool :=
  match p, s with [] , _ => true | a :: p', b :: s' => (a =? b) && bytes_prefix p' s' | _, [] => false end.

(* does a value contain a reference?  (an unknown function given a pointer could change what it points to) *)
Fixpoint has_ref (v : value) : bool :=
  let fix any (l : list value) : bool := match l with [] => false | x :: r => has_ref x || any r end in
  let fix anyf (l : list (bytes * value)) : bool := match l with [] => false | (_, x) :: r => has_ref x || anyf r end in
  let fix anym (l : list (value * value)) : bool := match l with [] => false | (k, x) :: r => has_ref k || has_ref x || anym r end in
  let fix anys (l : list (bytes * (bool * value))) : bool := match l with [] => false | (_, (_, x)) :: r => has_ref x || anys r end in
  match v with
  | VRef _ => true
  | VAttrs sl => anys sl
  | VStruct _ fs => anyf fs
  | VMap m => anym m
  | VTuple l | VHash _ l | VSym _ l => any l
  | _ => false
  end.

(* ------------------------------------------------------------------------------------------------ state, effects *)
Inductive event :=
| EvSign (cert audit : value)          (* mod.Sign ran: the certificate bundle and the audit record (a reference) it was given *)
| EvAmqp (rec : value) (ok : bool)     (* info.Publish: the attributes at that moment, resolved; did the broker take it *)
| EvFile (rec : value) (ok : bool)     (* info.AppendTo *)
| EvHeader (k v : value)               (* rw.Header().Set *)
| EvRespond (blob : value)             (* rw.Write *)
| EvApply (out mime : value).          (* standalone: transform.Apply *)

Record state := mkState {
  s_heap : list (Z * value);
  s_next : Z;
  s_glob : list (bytes * value);       (* package-level variables: all that outlives a request *)
  s_fr : list (bytes * value);         (* locals of the running function *)
  s_ev : list event }.                 (* newest first *)

Definition set_heap (s : state) (h : list (Z * value)) : state := mkState h (s_next s) (s_glob s) (s_fr s) (s_ev s).
Definition set_fr (s : state) (f : list (bytes * value)) : state := mkState (s_heap s) (s_next s) (s_glob s) f (s_ev s).
Definition set_glob (s : state) (g : list (bytes * value)) : state := mkState (s_heap s) (s_next s) g (s_fr s) (s_ev s).
Definition add_ev (s : state) (e : event) : state := mkState (s_heap s) (s_next s) (s_glob s) (s_fr s) (e :: s_ev s).
Definition alloc (v : value) (s : state) : value * state :=
  (VRef (s_next s), mkState ((s_next s, v) :: s_heap s) (s_next s + 1) (s_glob s) (s_fr s) (s_ev s)).
Definition cell (a : Z) (s : state) : value := match zlookup a (s_heap s) with Some v => v | None => VBad (B "dangling reference") end.
Definition deref1 (v : value) (s : state) : value := match v with VRef a => cell a s | _ => v end.

(* a value with every reference replaced by what it points to *)
Fixpoint resolve (fuel : nat) (h : list (Z * value)) (v : value) : value :=
  match fuel with
  | O => VBad (B "resolve: depth")
  | S f =>
      match v with
      | VRef a => match zlookup a h with Some c => resolve f h c | None => VBad (B "dangling reference") end
      | VStruct ty fs => VStruct ty (map (fun kv => (fst kv, resolve f h (snd kv))) fs)
      | VMap m => VMap (map (fun kv => (resolve f h (fst kv), resolve f h (snd kv))) m)
      | VTuple l => VTuple (map (resolve f h) l)
      | VHash a l => VHash a (map (resolve f h) l)
      | VSym g l => VSym g (map (resolve f h) l)
      | _ => v
      end
  end.
Definition res_depth : nat := 8.
Definition resolved (v : value) (s : state) : value := resolve res_depth (s_heap s) v.

Inductive res (A : Type) := Done (a : A) (s : state) | Stuck (why : bytes).
Arguments Done {A} a s.
Arguments Stuck {A} why.
Notation "'LET' x , s <-- r ;; k" := (match r with Done x s => k | Stuck w => Stuck w end) (at level 200, x name, s name, r at level 100, k at level 200).

(* ------------------------------------------------------------------------------------------------ the world *)
Record world := mkWorld {
  w_now : Z;                       (* time.Now() *)
  w_host : bytes;                  (* os.Hostname() *)
  w_initkey : value;               (* what signinit.InitKey returns for this request: (bundle, key section, error) *)
  w_gts_ok : bool;                 (* GetTimestamper succeeds *)
  w_config : value;                (* shared.CurrentConfig *)
  w_sign_ok : bool;                (* mod.Sign succeeds *)
  w_sign_kind : Z;                 (* how the signer returns: 0 plain blob, 1 opts.SetBinPatch, 2 opts.SetPkcs7 *)
  w_cs : value;                    (* the counter-signature of a PKCS#7 result (VNil: none) *)
  w_blob : value;
  w_size_in : Z;
  w_amqp_ok : bool;                (* the broker stores and confirms the message *)
  w_file_ok : bool;                (* the audit file takes the line *)
  w_stdin : bool;                  (* standalone: input is standard input *)
  w_signed : bool }.               (* standalone: mod.IsSigned *)

(* constants of the Go standard library the code names *)
Definition crypto_ids : list (bytes * Z) := Eval vm_compute in
  [(B "crypto.MD5", 2); (B "crypto.SHA1", 3); (B "crypto.SHA224", 4); (B "crypto.SHA256", 5); (B "crypto.SHA384", 6); (B "crypto.SHA512", 7)].

Definition n_HashNames := Eval vm_compute in B "x509tools.HashNames".
Definition n_CurrentConfig := Eval vm_compute in B "shared.CurrentConfig".
Definition t_table := Eval vm_compute in B "table".
Definition n_stdin := Eval vm_compute in B "os.Stdin".
Definition n_stderr := Eval vm_compute in B "os.Stderr".
Definition n_ordwr := Eval vm_compute in B "os.O_RDWR".

(* every attribute key relic assigns anywhere (generated inventory): the slots of a fresh attribute map *)
Fixpoint dedup (l : list bytes) (seen : list bytes) : list bytes :=
  match l with [] => [] | k :: r => if existsb (bytes_eqb k) seen then dedup r seen else k :: dedup r (k :: seen) end.
Definition attr_universe : list bytes := Eval vm_compute in dedup (map (fun t => snd t) attr_writes) [].

Section Interp.
Variable W : world.

(* identifiers of other packages.  A package-level VARIABLE of another package is read only if it is one of the two
   reviewed ones: the table x509tools.HashNames (never written after package initialisation; indexing it is the symbolic
   function "x509tools.HashNames[]") and the configuration shared.CurrentConfig (set once at start-up) *)
Definition ext_value (n : bytes) (isvar : bool) (s : state) : res value :=
  if bytes_eqb n n_HashNames then Done (VStruct t_table [(n, VNil)]) s
  else if bytes_eqb n n_CurrentConfig then Done (w_config W) s
  else if isvar then Stuck (B "unreviewed package-level variable of another package: " ++ n)
  else match alookup n crypto_ids with
       | Some z => Done (VInt z) s
       | None => if bytes_eqb n n_stdin then Done (VRef (-1)) s
                 else if bytes_eqb n n_stderr then Done (VRef (-2)) s
                 else if bytes_eqb n n_ordwr then Done (VInt 2) s
                 else Done (VSym n []) s
       end.

Definition field_get (v : value) (f : bytes) (s : state) : res value :=
  match deref1 v s with
  | VStruct _ fs => Done (match alookup f fs with Some x => x | None => VNil end) s
  | VNil => Stuck (B "nil dereference at ." ++ f)
  | _ => Stuck (B "field of a non-struct: ." ++ f)
  end.

(* e[k]: value and presence *)
Definition index_get (m k : value) (s : state) : res (value * bool) :=
  match deref1 m s with
  | VMap l => Done (match mlookup k l with Some x => (x, true) | None => (VNil, false) end) s
  | VAttrs sl => match k with
                 | VStr kb => Done (match slookup kb sl with Some x => (x, true) | None => (VNil, false) end) s
                 | _ => Stuck (B "attribute key that is not a string") end
  | VNil => Done (VNil, false) s
  | VStruct ty [(n, _)] => if bytes_eqb ty t_table then Done (VSym (n ++ B "[]") [k], true) s else Stuck (B "index of a struct")
  | _ => Stuck (B "index of a non-map")
  end.

Definition to_bool (v : value) : option bool := match v with VBool b => Some b | _ => None end.

Definition binop (op : bytes) (a b : value) : value :=
  if bytes_eqb op (B "==") then VBool (value_eqb a b)
  else if bytes_eqb op (B "!=") then VBool (negb (value_eqb a b))
  else match a, b with
       | VInt x, VInt y =>
           if bytes_eqb op (B "&") then VInt (Z.land x y) else if bytes_eqb op (B "|") then VInt (Z.lor x y)
           else if bytes_eqb op (B "+") then VInt (x + y) else if bytes_eqb op (B "-") then VInt (x - y) else if bytes_eqb op (B "*") then VInt (x * y)
           else if bytes_eqb op (B "/") then (if y =? 0 then VBad (B "division by zero") else VInt (Z.quot x y))
           else if bytes_eqb op (B "<") then VBool (x <? y) else if bytes_eqb op (B "<=") then VBool (x <=? y)
           else if bytes_eqb op (B ">") then VBool (x >? y) else if bytes_eqb op (B ">=") then VBool (x >=? y)
           else VBad (B "operator " ++ op)
       | VStr x, VStr y => if bytes_eqb op (B "+") then VStr (x ++ y) else VBad (B "operator " ++ op)
       | _, _ => VSym op [a; b]
       end.

(* ---- functions and methods the model gives a meaning to itself.  [callf] runs a translated function by name. *)
Definition callT := bytes -> list value -> state -> res value.


Definition pure_ok (args : list value) : bool := negb (existsb has_ref args).

Definition prim_call (callf : callT) (fn : bytes) (args : list value) (s : state) : res value :=
  if bytes_eqb fn (B "time.Now") then Done (VTime (w_now W)) s
  else if bytes_eqb fn (B "os.Hostname") then Done (VTuple [VStr (w_host W); VNil]) s
  else if bytes_eqb fn (B "make:map[string]interface{}") then let '(r, s1) := alloc (VAttrs (map (fun k => (k, (false, VNil))) attr_universe)) s in Done r s1
  else if bytes_prefix (B "make:map[") fn then let '(r, s1) := alloc (VMap []) s in Done r s1
  else if bytes_prefix (B "conv:") fn then match args with [v] => Done v s | _ => Stuck (B "conversion") end
  else if bytes_eqb fn (B "zero:string") then Done (VStr []) s
  else if bytes_eqb fn (B "zero:bool") then Done (VBool false) s
  else if bytes_prefix (B "zero:") fn then Done VNil s
  else if bytes_eqb fn (B "fmt.Sprintf") then
    match args with
    | [VStr f; v] => if bytes_eqb f (B "%x") then Done (VSym (B "hex") [resolved v s]) s else Done (VBad (B "Sprintf format")) s
    | _ => Done (VBad (B "Sprintf")) s
    end
  else if bytes_eqb fn (B "pgptools.EntityName") then Done (VSym fn (map (fun v => resolved v s) args)) s
  else if bytes_eqb fn (B "json.Marshal") then Done (VTuple [VSym fn []; VNil]) s
  else if bytes_eqb fn (B "signinit.InitKey") then Done (w_initkey W) s
  else if bytes_eqb fn (B "signinit.GetTimestamper") then
    Done (VTuple (if w_gts_ok W then [VStruct (B "tsclient") []; VNil] else [VNil; VSym (B "error") [VStr (B "timestamper")]])) s
  else if bytes_eqb fn (B "readercounter.New") then
    let '(r, s1) := alloc (VStruct (B "readercounter.ReaderCounter") [(B "R", VNil); (B "N", VInt 0)]) s in Done r s1
  else if bytes_eqb fn (B "hlog.FromRequest") then Done (VStruct (B "logger") []) s
  else if bytes_eqb fn (B "context.Background") then Done (VSym (B "context") []) s
  else if bytes_eqb fn (B "shared.Fail") then match args with [e] => Done e s | _ => Stuck (B "shared.Fail") end
  else if bytes_eqb fn (B "shared.OpenForPatching") then
    if w_stdin W then Done (VTuple [VRef (-1); VNil]) s
    else let '(r, s1) := alloc (VStruct (B "os.File") []) s in Done (VTuple [r; VNil]) s1
  else if bytes_eqb fn (B "os.OpenFile") then let '(r, s1) := alloc (VStruct (B "os.File") []) s in Done (VTuple [r; VNil]) s1
  else if bytes_eqb fn (B "fmt.Fprintf") || bytes_eqb fn (B "fmt.Fprintln") then Done VNil s
  else if bytes_eqb fn (B "errors.New") || bytes_eqb fn (B "fmt.Errorf") then Done (VSym (B "error") (map (fun v => resolved v s) args)) s
  else if pure_ok args then Done (VSym fn args) s
  else Stuck (B "unknown function given a reference: " ++ fn).

Definition sink_error : value := VSym (B "error") [VStr (B "sink")].

(* attributes of an audit record (a reference to audit.Info), resolved *)
Definition attrs_of (info : value) (s : state) : value :=
  match deref1 info s with
  | VStruct _ fs => match alookup (B "Attributes") fs with Some m => deref1 m s | None => VBad (B "no Attributes") end
  | _ => VBad (B "not an Info")
  end.

(* rv: the receiver as evaluated; returns the result and, for a method that changes a receiver held by value, the new receiver *)
Definition prim_meth (callf : callT) (rv : value) (m : bytes) (args : list value) (s : state) : res (value * option value) :=
  let rd := deref1 rv s in
  let plain v s' := Done (v, None) s' in
  match rd with
  | VTime t =>
      if bytes_eqb m (B "UTC") then plain (VTime t) s else if bytes_eqb m (B "IsZero") then plain (VBool false) s
      else plain (VSym (B "." ++ m) (rd :: args)) s
  | VInt alg => if bytes_eqb m (B "New") then plain (VHash alg []) s else Stuck (B "method of an integer: " ++ m)
  | VHash alg ps =>
      if bytes_eqb m (B "Write") then match args with [b] => Done (VTuple [VSym (B "len") [b]; VNil], Some (VHash alg (ps ++ [resolved b s]))) s | _ => Stuck (B "Write") end
      else if bytes_eqb m (B "Sum") then match args with [VNil] => plain (VSym (B "digest") [VInt alg; VTuple ps]) s | _ => plain (VBad (B "Sum with a prefix")) s end
      else Stuck (B "method of a hash: " ++ m)
  | VMap l =>     (* sync.Map held in a package-level variable *)
      if bytes_eqb m (B "Load") then match args with [k] => plain (match mlookup k l with Some v => VTuple [v; VBool true] | None => VTuple [VNil; VBool false] end) s | _ => Stuck (B "Load") end
      else if bytes_eqb m (B "Store") then match args with [k; v] => Done (VNil, Some (VMap ((k, v) :: l))) s | _ => Stuck (B "Store") end
      else Stuck (B "method of a map: " ++ m)
  | VNil =>       (* zero value of a sync.Map variable *)
      if bytes_eqb m (B "Load") then plain (VTuple [VNil; VBool false]) s
      else if bytes_eqb m (B "Store") then match args with [k; v] => Done (VNil, Some (VMap [(k, v)])) s | _ => Stuck (B "Store") end
      else Stuck (B "method of nil: " ++ m)
  | VStruct ty fs =>
      if bytes_eqb ty (B "logger") then plain rd s
      else if bytes_eqb ty (B "config.KeyConfig") && bytes_eqb m (B "Name") then plain (match alookup (B "name") fs with Some v => v | None => VBad (B "name") end) s
      else if bytes_eqb ty (B "signers.FlagValues") && bytes_eqb m (B "GetBool") then
        match args with [VStr k] => plain (match alookup k fs with Some v => v | None => VBool false end) s | _ => Stuck (B "GetBool") end
      else if bytes_eqb ty (B "http.ResponseWriter") then
        if bytes_eqb m (B "Header") then plain (VStruct (B "http.Header") []) s
        else if bytes_eqb m (B "Write") then match args with [b] => plain (VTuple [VSym (B "len") [b]; VNil]) (add_ev s (EvRespond (resolved b s))) | _ => Stuck (B "Write") end
        else Stuck (B "method of the response writer: " ++ m)
      else if bytes_eqb ty (B "http.Request") && bytes_eqb m (B "Context") then plain (VSym (B "context") []) s
      else if bytes_eqb ty (B "http.Header") && bytes_eqb m (B "Set") then
        match args with [k; v] => plain VNil (add_ev s (EvHeader k v)) | _ => Stuck (B "Set") end
      else if bytes_eqb ty (B "os.File") then
        if bytes_eqb m (B "Seek") then plain (VTuple [VInt 0; VNil]) s else if bytes_eqb m (B "Close") then plain VNil s else Stuck (B "method of a file: " ++ m)
      else if bytes_eqb ty (B "transform") then
        if bytes_eqb m (B "GetReader") then plain (VTuple [VSym (B "stream") []; VNil]) s
        else if bytes_eqb m (B "Apply") then match args with [o; mt; _] => plain VNil (add_ev s (EvApply o mt)) | _ => Stuck (B "Apply") end
        else Stuck (B "method of the transformer: " ++ m)
      else if bytes_eqb ty (B "audit.Info") then
        (* the two sinks: Marshal (translated) and then the delivery *)
        if bytes_eqb m (B "Publish") || bytes_eqb m (B "AppendTo") then
          LET _ , s1 <-- callf (B "audit.Info.Marshal") [rv] s ;;
          let snap := attrs_of rv s1 in
          if bytes_eqb m (B "Publish") then plain (if w_amqp_ok W then VNil else sink_error) (add_ev s1 (EvAmqp snap (w_amqp_ok W)))
          else plain (if w_file_ok W then VNil else sink_error) (add_ev s1 (EvFile snap (w_file_ok W)))
        else Stuck (B "method of the audit record: " ++ m)
      else if bytes_eqb ty (B "signers.Signer") then
        if bytes_eqb m (B "Sign") then
          match args with
          | [stream; cert; opts] =>
              match opts with
              | VStruct oty ofs =>
                  let audit := match alookup (B "Audit") ofs with Some a => a | None => VNil end in
                  let s1 := add_ev s (EvSign cert audit) in
                  (* the request body has been read *)
                  let s2 := match stream with
                            | VRef a => match cell a s1 with
                                        | VStruct cty cfs => if bytes_eqb cty (B "readercounter.ReaderCounter") then set_heap s1 (zset a (VStruct cty (aset (B "N") (VInt (w_size_in W)) cfs)) (s_heap s1)) else s1
                                        | _ => s1 end
                            | _ => s1 end in
                  if negb (w_sign_ok W) then plain (VTuple [VNil; VSym (B "error") [VStr (B "sign")]]) s2
                  else if w_sign_kind W =? 1 then
                    LET r , s3 <-- callf (B "signers.SignOpts.SetBinPatch") [opts; VStruct (B "binpatch.PatchSet") [(B "blob", w_blob W)]] s2 ;; plain r s3
                  else if w_sign_kind W =? 2 then
                    LET r , s3 <-- callf (B "signers.SignOpts.SetPkcs7") [opts; VStruct (B "pkcs9.TimestampedSignature") [(B "CounterSignature", w_cs W); (B "Raw", w_blob W)]] s2 ;; plain r s3
                  else plain (VTuple [w_blob W; VNil]) s2
              | _ => Stuck (B "Sign: options")
              end
          | _ => Stuck (B "Sign: arguments")
          end
        else if bytes_eqb m (B "FormatLog") then plain (VSym (B "FormatLog") []) s
        else if bytes_eqb m (B "IsSigned") then plain (VTuple [VBool (w_signed W); VNil]) s
        else if bytes_eqb m (B "GetTransform") then plain (VTuple [VStruct (B "transform") []; VNil]) s
        else if bytes_eqb m (B "Fixup") then plain VNil s
        else Stuck (B "method of the signer module: " ++ m)
      else if pure_ok (rd :: args) then plain (VSym (B "." ++ m) (rd :: args)) s
      else Stuck (B "unknown method given a reference: " ++ m)
  | _ => if pure_ok (rd :: args) then plain (VSym (B "." ++ m) (rd :: args)) s else Stuck (B "unknown method given a reference: " ++ m)
  end.

Fixpoint find_fun (n : bytes) (l : list rfun) : option rfun :=
  match l with [] => None | f :: r => if bytes_eqb n (f_name f) then Some f else find_fun n r end.

Fixpoint bind_params (ps : list bytes) (vs : list value) : option (list (bytes * value)) :=
  match ps, vs with
  | [], [] => Some []
  | p :: ps', v :: vs' => match bind_params ps' vs' with Some l => Some ((p, v) :: l) | None => None end
  | _, _ => None
  end.

Definition type_of (v : value) (s : state) : option bytes := match deref1 v s with VStruct ty _ => Some ty | _ => None end.

Definition is_close (e : rx) : bool := match e with XMeth _ m [] => bytes_eqb m (B "Close") | _ => false end.
Definition is_andand (op : bytes) := bytes_eqb op (B "&&").
Definition is_oror (op : bytes) := bytes_eqb op (B "||").

Variable funcs : list rfun.

Definition eval_list_with (ev : rx -> state -> res value) : list rx -> state -> res (list value) :=
  fix go (l : list rx) (s0 : state) {struct l} : res (list value) :=
    match l with
    | [] => Done [] s0
    | a :: r => LET v , s1 <-- ev a s0 ;; LET vs , s2 <-- go r s1 ;; Done (v :: vs) s2
    end.
Definition assign_all_with (asg : rx -> value -> state -> res unit) : list rx -> list value -> state -> res unit :=
  fix go (ls : list rx) (vs : list value) (s0 : state) {struct ls} : res unit :=
    match ls, vs with
    | [], [] => Done tt s0
    | a :: ls', v :: vs' => LET _ , s1 <-- asg a v s0 ;; go ls' vs' s1
    | _, _ => Stuck (B "assignment: number of values")
    end.

Fixpoint eval (fuel : nat) (e : rx) (s : state) {struct fuel} : res value :=
  match fuel with
  | O => Stuck (B "out of fuel")
  | S f =>
      let eval_list := eval_list_with (eval f) in
      match e with
      | XVar n => match alookup n (s_fr s) with Some v => Done v s | None => Stuck (B "undefined variable " ++ n) end
      | XGlobal n => Done (match alookup n (s_glob s) with Some v => v | None => VNil end) s
      | XExt n isvar => ext_value n isvar s
      | XStr b => Done (VStr b) s
      | XInt z => Done (VInt z) s
      | XNil => Done VNil s
      | XBool b => Done (VBool b) s
      | XSel e1 fld => LET v , s1 <-- eval f e1 s ;; field_get v fld s1
      | XIndex e1 k => LET m , s1 <-- eval f e1 s ;; LET kv , s2 <-- eval f k s1 ;; LET r , s3 <-- index_get m kv s2 ;; Done (fst r) s3
      | XSlice e1 lo hi => match lo, hi with XNil, XNil => eval f e1 s | _, _ => Stuck (B "slice with bounds") end
      | XCall fn args => LET vs , s1 <-- eval_list args s ;; call f fn vs s1
      | XMeth r m args =>
          LET rv , s1 <-- eval f r s ;;
          LET vs , s2 <-- eval_list args s1 ;;
          let generic :=
            (LET p , s3 <-- prim_meth (call f) rv m vs s2 ;;
             match snd p with
             | None => Done (fst p) s3
             | Some nv => LET _ , s4 <-- assign f r nv s3 ;; Done (fst p) s4
             end) in
          match type_of rv s2 with
          | Some ty =>
              match find_fun (ty ++ B "." ++ m) funcs with
              | Some fn =>
                  (* pointer receiver needs a pointer; value receiver gets a copy *)
                  if f_ptr fn then match rv with VRef _ => call f (f_name fn) (rv :: vs) s2 | _ => Stuck (B "pointer method on a value: " ++ m) end
                  else call f (f_name fn) (deref1 rv s2 :: vs) s2
              | None => generic
              end
          | None => generic
          end
      | XBin op a b =>
          LET va , s1 <-- eval f a s ;;
          if is_andand op then
            match to_bool va with
            | Some false => Done (VBool false) s1
            | Some true => LET vb , s2 <-- eval f b s1 ;; match to_bool vb with Some x => Done (VBool x) s2 | None => Stuck (B "&& of a non-boolean") end
            | None => Stuck (B "&& of a non-boolean")
            end
          else if is_oror op then
            match to_bool va with
            | Some true => Done (VBool true) s1
            | Some false => LET vb , s2 <-- eval f b s1 ;; match to_bool vb with Some x => Done (VBool x) s2 | None => Stuck (B "|| of a non-boolean") end
            | None => Stuck (B "|| of a non-boolean")
            end
          else LET vb , s2 <-- eval f b s1 ;; Done (binop op va vb) s2
      | XNot e1 => LET v , s1 <-- eval f e1 s ;; match to_bool v with Some b => Done (VBool (negb b)) s1 | None => Stuck (B "! of a non-boolean") end
      | XLit ty addr fs =>
          let names := map fst fs in
          LET vs , s1 <-- eval_list (map snd fs) s ;;
          let v := if bytes_prefix (B "map[") ty then (match fs with [] => Some (VMap []) | _ => None end) else Some (VStruct ty (combine names vs)) in
          match v with
          | None => Stuck (B "map literal with entries")
          | Some v => if addr || bytes_prefix (B "map[") ty then let '(r, s2) := alloc v s1 in Done r s2 else Done v s1
          end
      | XAddr e1 => LET v , s1 <-- eval f e1 s ;; let '(r, s2) := alloc v s1 in Done r s2
      | XDeref e1 => LET v , s1 <-- eval f e1 s ;; match v with VRef a => Done (cell a s1) s1 | _ => Stuck (B "* of a non-pointer") end
      | XAssert e1 _ => eval f e1 s
      | XUnk src => Stuck (B "not translated: " ++ src)
      end
  end

with assign (fuel : nat) (lhs : rx) (v : value) (s : state) {struct fuel} : res unit :=
  match fuel with
  | O => Stuck (B "out of fuel")
  | S f =>
      match lhs with
      | XVar n => if bytes_eqb n (B "_") then Done tt s else Done tt (set_fr s (aset n v (s_fr s)))
      | XGlobal n => Done tt (set_glob s (aset n v (s_glob s)))
      | XSel e1 fld =>
          LET b , s1 <-- eval f e1 s ;;
          match b with
          | VRef a => match cell a s1 with
                      | VStruct ty fs => Done tt (set_heap s1 (zset a (VStruct ty (aset fld v fs)) (s_heap s1)))
                      | _ => Stuck (B "field assignment through a non-struct pointer") end
          | VStruct ty fs => assign f e1 (VStruct ty (aset fld v fs)) s1
          | _ => Stuck (B "field assignment to a non-struct")
          end
      | XIndex e1 k =>
          LET m , s1 <-- eval f e1 s ;;
          LET kv , s2 <-- eval f k s1 ;;
          match m with
          | VRef a => match cell a s2 with
                      | VMap l => Done tt (set_heap s2 (zset a (VMap ((kv, v) :: l)) (s_heap s2)))
                      | VAttrs sl => match kv with
                                     | VStr kb => Done tt (set_heap s2 (zset a (VAttrs (sset kb v sl)) (s_heap s2)))
                                     | _ => Stuck (B "attribute key that is not a string") end
                      | _ => Stuck (B "index assignment through a non-map reference") end
          | VNil => Stuck (B "assignment to an entry of a nil map")
          | _ => Stuck (B "index assignment to a non-map")
          end
      | XDeref e1 => LET p , s1 <-- eval f e1 s ;; match p with VRef a => Done tt (set_heap s1 (zset a v (s_heap s1))) | _ => Stuck (B "assignment through a non-pointer") end
      | _ => Stuck (B "assignment to something that is not a variable, field or entry")
      end
  end

with run_stmts (fuel : nat) (l : list rs) (s : state) {struct fuel} : res (option (list value)) :=
  match fuel with
  | O => Stuck (B "out of fuel")
  | S f =>
      match l with
      | [] => Done None s
      | st :: rest =>
          let continue s' := run_stmts f rest s' in
          match st with
          | SAssign lhs rhs _ =>
              let assign_all := assign_all_with (assign f) in
              match lhs, rhs with
              | [_; _], [XIndex e1 k] =>      (* v, ok := m[k] *)
                  LET m , s1 <-- eval f e1 s ;; LET kv , s2 <-- eval f k s1 ;; LET r , s3 <-- index_get m kv s2 ;;
                  LET _ , s4 <-- assign_all lhs [fst r; VBool (snd r)] s3 ;; continue s4
              | [_; _], [XAssert e1 _] =>     (* v, ok := x.(T) *)
                  LET v , s1 <-- eval f e1 s ;; LET _ , s2 <-- assign_all lhs [v; VBool true] s1 ;; continue s2
              | [_], [r] => LET v , s1 <-- eval f r s ;; LET _ , s2 <-- assign_all lhs [v] s1 ;; continue s2
              | _, [r] =>
                  LET v , s1 <-- eval f r s ;;
                  match v with
                  | VTuple vs => LET _ , s2 <-- assign_all lhs vs s1 ;; continue s2
                  | _ => Stuck (B "several variables from one value")
                  end
              | _, _ =>
                  LET vs , s1 <-- eval_list_with (eval f) rhs s ;; LET _ , s2 <-- assign_all lhs vs s1 ;; continue s2
              end
          | SExpr e => LET _ , s1 <-- eval f e s ;; continue s1
          | SIf init c t e =>
              LET r0 , s1 <-- run_stmts f init s ;;
              match r0 with
              | Some _ => Stuck (B "return inside an if-initialiser")
              | None =>
                  LET cv , s2 <-- eval f c s1 ;;
                  match to_bool cv with
                  | Some b => LET r1 , s3 <-- run_stmts f (if b then t else e) s2 ;; match r1 with Some vs => Done (Some vs) s3 | None => continue s3 end
                  | None => Stuck (B "condition is not a boolean")
                  end
              end
          | SReturn es =>
              LET vs , s1 <-- eval_list_with (eval f) es s ;; Done (Some vs) s1
          | SDefer e => if is_close e then continue s else Stuck (B "deferred call that is not a Close")
          | SUnknown src => Stuck (B "not translated: " ++ src)
          end
      end
  end

(* a call by name: a translated function if there is one, else a function the model knows *)
with call (fuel : nat) (fn : bytes) (args : list value) (s : state) {struct fuel} : res value :=
  match fuel with
  | O => Stuck (B "out of fuel")
  | S f =>
      match find_fun fn funcs with
      | Some fd =>
          match bind_params (f_params fd) args with
          | None => Stuck (B "number of arguments of " ++ fn)
          | Some fr =>
              LET r , s1 <-- run_stmts f (f_body fd) (set_fr s fr) ;;
              let s2 := set_fr s1 (s_fr s) in
              match r with
              | None | Some [] => Done VNil s2
              | Some [v] => Done v s2
              | Some vs => Done (VTuple vs) s2
              end
          end
      | None => prim_call (call f) fn args s
      end
  end.

End Interp.

(* ================================================================================================ requests
   One signing request and everything its environment answers.  Byte strings are arbitrary (the theorems quantify over
   them); the structure is what the code can tell apart. *)
Record cert := mkCert { c_raw : bytes; c_subject : bytes; c_issuer : bytes; c_spki : bytes; c_tbs : bytes }.
Record entity := mkEntity { e_fpr : bytes; e_keyid : bytes; e_ids : bytes }.   (* e_ids: the identities (whatever EntityName reads) *)
Inductive user :=
| UCert (name subject : bytes)                                   (* certificate authentication: nickname, DN ("" unless recognised through a CA) *)
| UPolicy (subject : bytes) (iss : option bytes) (decision : bytes).   (* token + policy agent *)

(* how a signer returns: the bare blob (pgp), opts.SetBinPatch, opts.SetPkcs7 with or without a counter-signature
   (certificate of the time-stamping authority, time, hash) *)
Inductive skind := KPlain | KBinPatch | KPkcs7 (cs : option (cert * Z * Z)).

Record request := mkRequest {
  q_key : bytes;               (* key name given by the client *)
  q_sigtype : bytes;           (* name of the signer module *)
  q_hash : Z;                  (* crypto.Hash in use *)
  q_filename : bytes;
  q_remote : bytes;            (* request.RemoteAddr *)
  q_user : user;
  q_no_ts : bool;              (* flag no-timestamp *)
  (* the key as InitKey finds it NOW *)
  k_ok : bool;                 (* InitKey succeeds *)
  k_section : bytes;           (* configuration section the name resolves to (aliases followed) *)
  k_leaf : option cert;        (* leaf of the X.509 certificate file as it is on disk now *)
  k_pgp : option entity;
  k_ts : bool; k_tsname : bytes;
  (* the signer module *)
  m_x509 : bool; m_pgp : bool; (* certificate types it requires *)
  m_formatlog : bool; m_stdin : bool; m_fixup : bool;
  (* configuration of the sinks *)
  c_amqp : bool; c_file : bool;
  (* standalone only *)
  a_file : bytes; a_output : bytes; a_ifunsigned : bool;
  (* what the environment answers *)
  r_now : Z; r_host : bytes;   (* clock, os.Hostname() *)
  r_gts_ok : bool;             (* the timestamp client can be built *)
  r_sign_ok : bool;            (* mod.Sign succeeds *)
  r_kind : skind;              (* how the signer hands back its result *)
  r_blob : bytes; r_size : Z;  (* the signature blob, bytes read from the client *)
  r_amqp_ok : bool; r_file_ok : bool;
  r_stdin : bool; r_signed : bool }.

Definition cert_val (c : cert) : value :=
  VStruct (B "x509.Certificate") [(B "Raw", VStr (c_raw c)); (B "RawSubject", VStr (c_subject c)); (B "RawIssuer", VStr (c_issuer c));
                                  (B "RawSubjectPublicKeyInfo", VStr (c_spki c)); (B "RawTBSCertificate", VStr (c_tbs c))].
Definition entity_val (e : entity) : value :=
  VStruct (B "openpgp.Entity") [(B "PrimaryKey", VStruct (B "packet.PublicKey") [(B "Fingerprint", VStr (e_fpr e)); (B "KeyId", VStr (e_keyid e))]);
                                 (B "Identities", VStr (e_ids e))].
Definition user_val (u : user) : value :=
  match u with
  | UCert n sub => VStruct (B "authmodel.CertificateInfo") [(B "Name", VStr n); (B "Subject", VStr sub)]
  | UPolicy sub iss dec =>
      VStruct (B "authmodel.PolicyInfo") [(B "Subject", VStr sub);
                                          (B "Claims", VMap (match iss with Some i => [(VStr (B "iss"), VStr i)] | None => [] end));
                                          (B "DecisionID", VStr dec)]
  end.

(* addresses of what exists before the request code runs *)
Definition a_bundle : Z := 1.
Definition a_kconf : Z := 2.
Definition a_leaf : Z := 3.
Definition a_pgp : Z := 4.
Definition a_user : Z := 5.
Definition heap0 (r : request) : list (Z * value) :=
  [(a_bundle, VStruct (B "certloader.Certificate")
                [(B "Leaf", match k_leaf r with Some _ => VRef a_leaf | None => VNil end);
                 (B "PgpKey", match k_pgp r with Some _ => VRef a_pgp | None => VNil end);
                 (B "Timestamper", VNil); (B "KeyName", VStr (q_key r))]);
   (a_kconf, VStruct (B "config.KeyConfig") [(B "name", VStr (k_section r)); (B "Timestamp", VBool (k_ts r)); (B "Timestamper", VStr (k_tsname r))]);
   (a_leaf, match k_leaf r with Some c => cert_val c | None => VNil end);
   (a_pgp, match k_pgp r with Some e => entity_val e | None => VNil end);
   (a_user, user_val (q_user r))].

Definition cs_val (cs : option (cert * Z * Z)) : value :=
  match cs with
  | Some (c, t, h) => VStruct (B "pkcs9.CounterSignature") [(B "Certificate", cert_val c); (B "SigningTime", VTime t); (B "Hash", VInt h)]
  | None => VNil
  end.
Definition world_of (r : request) : world :=
  mkWorld (r_now r) (r_host r)
    (if k_ok r then VTuple [VRef a_bundle; VRef a_kconf; VNil] else VTuple [VNil; VNil; VSym (B "error") [VStr (B "key")]])
    (r_gts_ok r)
    (VStruct (B "config.Config") [(B "Amqp", if c_amqp r then VStruct (B "config.AmqpConfig") [(B "URL", VStr (B "amqp://broker/"))] else VNil);
                                   (B "AuditFile", VStr (if c_file r then B "/var/log/relic-audit.log" else []))])
    (r_sign_ok r) (match r_kind r with KPlain => 0 | KBinPatch => 1 | KPkcs7 _ => 2 end) (match r_kind r with KPkcs7 cs => cs_val cs | _ => VNil end)
    (VStr (r_blob r)) (r_size r) (r_amqp_ok r) (r_file_ok r) (r_stdin r) (r_signed r).

Definition mod_val (r : request) : value :=
  VStruct (B "signers.Signer") [(B "Name", VStr (q_sigtype r));
                                 (B "CertTypes", VInt ((if m_x509 r then 1 else 0) + (if m_pgp r then 2 else 0)));
                                 (B "FormatLog", if m_formatlog r then VSym (B "func") [] else VNil);
                                 (B "AllowStdin", VBool (m_stdin r));
                                 (B "Fixup", if m_fixup r then VSym (B "func") [] else VNil)].
Definition flags_val (r : request) : value := VStruct (B "signers.FlagValues") [(B "no-timestamp", VBool (q_no_ts r))].

(* variables of serveSign at the point where it calls signinit.Init (what the statements before it assigned: see
   servesign_prelude and its reviewed form in Proofs) *)
Definition serve_frame (r : request) : list (bytes * value) :=
  [(B "s", VStruct (B "server.Server") []); (B "rw", VStruct (B "http.ResponseWriter") []);
   (B "request", VStruct (B "http.Request") [(B "RemoteAddr", VStr (q_remote r)); (B "Body", VSym (B "body") [])]);
   (B "keyName", VStr (q_key r)); (B "filename", VStr (q_filename r)); (B "sigType", VStr (q_sigtype r));
   (B "userInfo", VRef a_user); (B "keyConf", VRef a_kconf); (B "mod", mod_val r); (B "hash", VInt (q_hash r));
   (B "flags", flags_val r); (B "tok", VStruct (B "token") []); (B "err", VNil)].
(* signCmd: package-level variables of cmdline/token are the command line *)
Definition cmd_frame (r : request) : list (bytes * value) :=
  [(B "cmd", VStruct (B "cobra.Command") []); (B "args", VNil); (B "mod", mod_val r); (B "hash", VInt (q_hash r));
   (B "flags", flags_val r); (B "token", VStruct (B "token") []); (B "err", VNil)].
Definition cmd_globals (r : request) : list (bytes * value) :=
  [(B "token.argKeyName", VStr (q_key r)); (B "token.argFile", VStr (a_file r)); (B "token.argOutput", VStr (a_output r));
   (B "token.argIfUnsigned", VBool (a_ifunsigned r))].

Definition fuel0 : nat := 60.
Definition n_serve := Eval vm_compute in B "server.Server.serveSign:window".
Definition n_cmd := Eval vm_compute in B "token.signCmd:window".

(* what a run shows *)
Record outcome := mkOut {
  o_ret : option value;           (* what the function returned (VNil: no error); None: the run is stuck *)
  o_why : bytes;
  o_ev : list event;              (* oldest first *)
  o_glob : list (bytes * value) }.

Definition finish (g : list (bytes * value)) (x : res (option (list value))) : outcome :=
  match x with
  | Done ret s => mkOut (Some (match ret with Some [v] => v | Some [] | None => VNil | Some vs => VTuple vs end)) [] (rev (s_ev s)) (s_glob s)
  | Stuck w => mkOut None w [] g
  end.

(* the whole window in one go *)
Definition run_mono (funcs : list rfun) (name : bytes) (r : request) (g fr : list (bytes * value)) : outcome :=
  match find_fun name funcs with
  | None => mkOut None (B "no such function") [] g
  | Some fd => finish g (run_stmts (world_of r) funcs fuel0 (f_body fd) (mkState (heap0 r) 100 g fr []))
  end.

(* The same, said in two stages: a window begins with  cert, opts, err := signinit.Init(args...)  — run that call, bind its
   three results, run the remaining statements from the state it left.  (window_parts checks that shape on the generated
   statements; a window of another shape has no parts and the run is stuck.) *)
Definition n_init := Eval vm_compute in B "signinit.Init".
Definition window_parts (funcs : list rfun) (name : bytes) : option (list rx * list rx * list rs) :=
  match find_fun name funcs with
  | Some fd =>
      match f_body fd with
      | SAssign [l1; l2; l3] [XCall fn args] true :: tail => if bytes_eqb fn n_init then Some ([l1; l2; l3], args, tail) else None
      | _ => None
      end
  | None => None
  end.
Definition stage_args (W : world) (funcs : list rfun) (args : list rx) (s : state) : res (list value) := eval_list_with (eval W funcs fuel0) args s.
Definition stage_init (W : world) (funcs : list rfun) (vs : list value) (s : state) : res value := call W funcs fuel0 n_init vs s.
Definition stage_bind (W : world) (funcs : list rfun) (lhs : list rx) (v : value) (s : state) : res unit :=
  match v with VTuple vs => assign_all_with (assign W funcs fuel0) lhs vs s | _ => Stuck (B "Init: number of results") end.
Definition stage_tail (W : world) (funcs : list rfun) (tail : list rs) (s : state) : res (option (list value)) := run_stmts W funcs fuel0 tail s.
Definition run_staged (funcs : list rfun) (name : bytes) (r : request) (g fr : list (bytes * value)) : outcome :=
  let W := world_of r in
  match window_parts funcs name with
  | None => mkOut None (B "the window does not begin with the call of signinit.Init") [] g
  | Some (lhs, args, tail) =>
      finish g (LET vs , s1 <-- stage_args W funcs args (mkState (heap0 r) 100 g fr []) ;;
                LET v , s2 <-- stage_init W funcs vs s1 ;;
                LET _ , s3 <-- stage_bind W funcs lhs v s2 ;;
                stage_tail W funcs tail s3)
  end.

(* one request to the server in a process whose package-level variables are g *)
Definition handle_with (funcs : list rfun) (g : list (bytes * value)) (r : request) : outcome := run_staged funcs n_serve r g (serve_frame r).
Definition handle := handle_with rec_funcs.
(* the standalone command: a process of its own, its package-level variables are the command line *)
Definition cmd_with (funcs : list rfun) (r : request) : outcome := run_staged funcs n_cmd r (cmd_globals r) (cmd_frame r).
Definition cmd := cmd_with rec_funcs.

(* a history in one process *)
Fixpoint handle_all (funcs : list rfun) (g : list (bytes * value)) (rs : list request) : list outcome :=
  match rs with [] => [] | r :: rest => let o := handle_with funcs g r in o :: handle_all funcs (o_glob o) rest end.

(* ---- observables of an outcome *)
Definition responded (o : outcome) : list value := flat_map (fun e => match e with EvRespond b => [b] | _ => [] end) (o_ev o).
Definition applied (o : outcome) : list value := flat_map (fun e => match e with EvApply out _ => [out] | _ => [] end) (o_ev o).
Definition signed_with (o : outcome) : list value := flat_map (fun e => match e with EvSign c _ => [c] | _ => [] end) (o_ev o).
Definition amqp_records (o : outcome) : list (value * bool) := flat_map (fun e => match e with EvAmqp rc ok => [(rc, ok)] | _ => [] end) (o_ev o).
Definition file_records (o : outcome) : list (value * bool) := flat_map (fun e => match e with EvFile rc ok => [(rc, ok)] | _ => [] end) (o_ev o).
(* position of the first event satisfying p *)
Fixpoint first_pos (p : event -> bool) (l : list event) (n : nat) : option nat :=
  match l with [] => None | e :: r => if p e then Some n else first_pos p r (S n) end.

(* ================================================================================================ SPECIFICATION
   From the property text: the record names the key, signature type, digest, certificate, client identity and file name
   ACTUALLY USED for this signature.  Written over the request alone: no process state, no earlier request.
     key            the configuration section whose key material and certificates signed (aliases followed)
     signature type the signer module that ran
     digest         the registered name of the hash function in use
     certificate    X.509: subject and issuer of the leaf embedded in this signature, in LDAP style, and the SHA-1 of its
                    DER encoding in hex; PGP: fingerprint in hex and primary user id of the signing certificate
     client         address the request came from; the authenticated name (and DN, or subject / issuer / decision)
     file name      the name the client gave *)
Definition sha1_id : Z := 3.
Definition ldap_style : Z := 1.
Definition spec_x509 (c : cert) : list (bytes * value) :=
  [(B "sig.x509.subject", VSym (B "x509tools.FormatPkixName") [VStr (c_subject c); VInt ldap_style]);
   (B "sig.x509.issuer", VSym (B "x509tools.FormatPkixName") [VStr (c_issuer c); VInt ldap_style]);
   (B "sig.x509.fingerprint", VSym (B "hex") [VSym (B "digest") [VInt sha1_id; VTuple [VStr (c_raw c)]]])].
Definition spec_pgp (e : entity) : list (bytes * value) :=
  [(B "sig.pgp.fingerprint", VSym (B "hex") [VStr (e_fpr e)]);
   (B "sig.pgp.entity", VSym (B "pgptools.EntityName") [entity_val e])].
Definition spec_user (u : user) : list (bytes * value) :=
  match u with
  | UCert n sub => (B "client.name", VStr n) :: match sub with [] => [] | _ => [(B "client.dn", VStr sub)] end
  | UPolicy sub iss dec =>
      (B "client.sub", VStr sub) :: (match iss with Some i => [(B "client.iss", VStr i)] | None => [] end)
      ++ match dec with [] => [] | _ => [(B "client.decision_id", VStr dec)] end
  end.
(* what every record names, whoever asked *)
Definition spec_signature (r : request) : list (bytes * value) :=
  [(B "sig.type", VStr (q_sigtype r)); (B "sig.keyname", VStr (k_section r)); (B "sig.hash", VSym (B "x509tools.HashNames[]") [VInt (q_hash r)])]
  ++ (match k_leaf r with Some c => spec_x509 c | None => [] end)
  ++ (match k_pgp r with Some e => spec_pgp e | None => [] end).
Definition spec_server (r : request) : list (bytes * value) :=
  spec_signature r ++ [(B "client.ip", VSym (B "zhttp.StripPort") [VStr (q_remote r)]); (B "client.filename", VStr (q_filename r))] ++ spec_user (q_user r).
Definition spec_cmd (r : request) : list (bytes * value) :=
  spec_signature r ++ [(B "client.filename", VSym (B "filepath.Base") [VStr (a_file r)])].

(* the digest names of the registry (IANA hash function textual names as relic spells them) *)
Definition spec_hash_name (h : Z) : option bytes :=
  if h =? 2 then Some (B "MD5") else if h =? 3 then Some (B "SHA1") else if h =? 4 then Some (B "SHA-224")
  else if h =? 5 then Some (B "SHA-256") else if h =? 6 then Some (B "SHA-384") else if h =? 7 then Some (B "SHA-512") else None.
Fixpoint hash_name_of (h : Z) (t : list (Z * bytes)) : option bytes :=
  match t with [] => None | (k, n) :: r => if h =? k then Some n else hash_name_of h r end.

(* the attributes of a record that name key, type, digest, certificate, client and file, in a fixed order *)
Definition identity_keys : list bytes := Eval vm_compute in
  map zs ["sig.type"; "sig.keyname"; "sig.hash"; "sig.x509.subject"; "sig.x509.issuer"; "sig.x509.fingerprint"; "sig.pgp.fingerprint"; "sig.pgp.entity";
          "client.ip"; "client.filename"; "client.name"; "client.dn"; "client.sub"; "client.iss"; "client.decision_id"].
(* no attribute of the record is something the model could not evaluate, or a pointer *)
Fixpoint no_bad (v : value) : bool :=
  let fix all (l : list value) : bool := match l with [] => true | x :: r => no_bad x && all r end in
  let fix allf (l : list (bytes * value)) : bool := match l with [] => true | (_, x) :: r => no_bad x && allf r end in
  let fix allm (l : list (value * value)) : bool := match l with [] => true | (k, x) :: r => no_bad k && no_bad x && allm r end in
  let fix alls (l : list (bytes * (bool * value))) : bool := match l with [] => true | (_, (_, x)) :: r => no_bad x && alls r end in
  match v with
  | VBad _ | VRef _ => false
  | VAttrs sl => alls sl
  | VStruct _ fs => allf fs
  | VMap m => allm m
  | VTuple l | VHash _ l | VSym _ l => all l
  | _ => true
  end.

(* ---- a summary of an outcome: everything the theorems speak about, as plain data *)
Definition init_keys : list bytes := Eval vm_compute in      (* the attributes signinit.Init fills in *)
  map zs ["sig.type"; "sig.keyname"; "sig.hash"; "sig.timestamp"; "sig.hostname"; "sig.x509.subject"; "sig.x509.issuer"; "sig.x509.fingerprint";
          "sig.pgp.fingerprint"; "sig.pgp.entity"].
Definition client_keys : list bytes := Eval vm_compute in
  map zs ["client.ip"; "client.filename"; "client.name"; "client.dn"; "client.sub"; "client.iss"; "client.decision_id"].
Definition late_keys : list bytes := Eval vm_compute in      (* everything written after Init *)
  client_keys ++ map zs ["perf.size.in"; "perf.size.patch"; "perf.elapsed.ms"; "content-type"; "sig.ts.timestamper"; "sig.ts.timestamp"; "sig.ts.hash"].
Definition slot_of (k : bytes) (rc : value) : bool * value :=
  match rc with VAttrs sl => match alookup k sl with Some bv => bv | None => (false, VNil) end | _ => (false, VBad (B "not an attribute map")) end.
Definition sig_slots (rc : value) : list (bool * value) := map (fun k => slot_of k rc) init_keys.
Definition present (k : bytes) (bv : bool * value) : list (bytes * value) := if fst bv then [(k, snd bv)] else [].
Definition client_identity (rc : value) : list (bytes * value) := flat_map (fun k => present k (slot_of k rc)) client_keys.
Definition late_no_bad (rc : value) : bool := forallb (fun k => no_bad (snd (slot_of k rc))) late_keys.
Definition rec_view := (list (bool * value) * list (bytes * value) * bool * bool)%type.
Definition view_of (p : value * bool) : rec_view := (sig_slots (fst p), client_identity (fst p), late_no_bad (fst p), snd p).
(* no record is delivered and nothing is signed once the response (or, standalone, nothing at all) has gone out *)
Fixpoint order_ok (seen_resp : bool) (l : list event) : bool :=
  match l with
  | [] => true
  | EvRespond _ :: r => order_ok true r
  | (EvAmqp _ _ | EvFile _ _ | EvSign _ _) :: r => negb seen_resp && order_ok seen_resp r
  | _ :: r => order_ok seen_resp r
  end.
Record summ := mkSumm {
  sm_ok : bool;                   (* the function returned nil *)
  sm_resp : list value;           (* bodies written to the client *)
  sm_ctype : list (value * value);(* headers set *)
  sm_applied : list (value * value);
  sm_signed : list value;         (* certificate bundles mod.Sign was given *)
  sm_amqp : list rec_view;
  sm_file : list rec_view;
  sm_order : bool }.
Definition summary (o : outcome) : summ :=
  mkSumm (match o_ret o with Some VNil => true | _ => false end) (responded o)
         (flat_map (fun e => match e with EvHeader k v => [(k, v)] | _ => [] end) (o_ev o))
         (flat_map (fun e => match e with EvApply a b => [(a, b)] | _ => [] end) (o_ev o))
         (signed_with o) (map view_of (amqp_records o)) (map view_of (file_records o)) (order_ok false (o_ev o)).
(* the identity attributes among Init's slots *)
Definition sig_identity (sv : list (bool * value)) : list (bytes * value) :=
  flat_map (fun kb => if existsb (bytes_eqb (fst kb)) identity_keys then present (fst kb) (snd kb) else []) (combine init_keys sv).
(* the attributes of a record that name key, type, digest, certificate, client and file: those that are present, in the order of identity_keys *)
Definition identity_of (rc : value) : list (bytes * value) := sig_identity (sig_slots rc) ++ client_identity rc.
