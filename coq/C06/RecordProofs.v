(* C06/RecordProofs.v — proofs about the content of the audit record (C06/Record.v over Generated/C06rec_gen.v).
   Method: the generated program is run by the interpreter on a request whose byte strings, numbers and certificates are
   VARIABLES; only what the code branches on is taken apart.  Stage 1 (signinit.Init, with lib/audit inlined by its calls)
   leaves a state that is written down in closed form; stage 2 (the rest of serveSign / signCmd) is run from that state
   with Init's ten attribute slots generalised.  No axioms. *)
From Coq Require Strings.String Strings.Ascii.
From Relic Require Import Base.Prelude Generated.C06rec_gen C06.Record.
Import String.StringSyntax.
Local Open Scope string_scope.
Local Notation "'B' s" := (ltac:(let v := eval vm_compute in (zs s) in exact v)) (at level 0, s at level 0, only parsing).

(* ------------------------------------------------------------------------------------------------ stage 1: Init *)
Definition ctx_val : value := VSym (B "context") [].
Definition tok_val : value := VStruct (B "token") [].
Definition init_args (r : request) : list value := [ctx_val; mod_val r; tok_val; VStr (q_key r); VInt (q_hash r); flags_val r].

Definition nilb (b : bytes) : bool := match b with [] => true | _ => false end.
Definition ts_active (r : request) : bool := (k_ts r || negb (nilb (k_tsname r))) && negb (q_no_ts r).
Definition init_succeeds (r : request) : bool :=
  k_ok r
  && (match k_leaf r with Some _ => true | None => negb (m_x509 r) end)
  && (match k_pgp r with Some _ => true | None => negb (m_pgp r) end)
  && (negb (ts_active r) || r_gts_ok r).

(* the ten slots Init fills, in the order of init_keys *)
Definition init_slots (r : request) : list (bool * value) :=
  [(true, VStr (q_sigtype r)); (true, VStr (k_section r)); (true, VSym (B "x509tools.HashNames[]") [VInt (q_hash r)]); (true, VTime (r_now r));
   (match r_host r with [] => (false, VNil) | _ => (true, VStr (r_host r)) end);
   (match k_leaf r with Some c => (true, VSym (B "x509tools.FormatPkixName") [VStr (c_subject c); VInt 1]) | None => (false, VNil) end);
   (match k_leaf r with Some c => (true, VSym (B "x509tools.FormatPkixName") [VStr (c_issuer c); VInt 1]) | None => (false, VNil) end);
   (match k_leaf r with Some c => (true, VSym (B "hex") [VSym (B "digest") [VInt 3; VTuple [VStr (c_raw c)]]]) | None => (false, VNil) end);
   (match k_pgp r with Some e => (true, VSym (B "hex") [VStr (e_fpr e)]) | None => (false, VNil) end);
   (match k_pgp r with Some e => (true, VSym (B "pgptools.EntityName") [entity_val e]) | None => (false, VNil) end)].

Definition slots_with (sv : list (bool * value)) : list (bytes * (bool * value)) :=
  map (fun k => (k, match alookup k (combine init_keys sv) with Some bv => bv | None => (false, VNil) end)) attr_universe.

Definition bundle_with (r : request) (t : value) : value :=
  VStruct (B "certloader.Certificate")
    [(B "Leaf", match k_leaf r with Some _ => VRef a_leaf | None => VNil end);
     (B "PgpKey", match k_pgp r with Some _ => VRef a_pgp | None => VNil end);
     (B "Timestamper", t); (B "KeyName", VStr (q_key r))].
Definition ts_val (r : request) : value :=
  if ts_active r then VStruct (B "signinit.namedTimestamper") [(B "client", VStruct (B "tsclient") []); (B "name", VStr (k_tsname r))] else VNil.

(* the state a successful Init leaves: three new cells (the attribute map, the Info, the options) and the bundle's timestamper *)
Definition after_init (r : request) (sv : list (bool * value)) (t : value) (g fr : list (bytes * value)) : state :=
  mkState
    ((102, VStruct (B "signers.SignOpts") [(B "Hash", VInt (q_hash r)); (B "Time", VTime (r_now r)); (B "Audit", VRef 101); (B "Flags", flags_val r); (B "ctx", ctx_val)])
     :: (101, VStruct (B "audit.Info") [(B "Attributes", VRef 100); (B "StartTime", VTime (r_now r))])
     :: (100, VAttrs (slots_with sv))
     :: (a_bundle, bundle_with r t) :: tl (heap0 r))
    103 g fr [].

(* close  l = r  by evaluating both sides once, when the proof is checked *)
Ltac vm_refl := match goal with |- ?l = ?r => vm_cast_no_check (@eq_refl _ r) end.

Ltac init_paths :=
  repeat match goal with
         | |- context [match ?x with _ => _ end] => is_var x; destruct x
         end.

Lemma init_state : forall r g fr,
  init_succeeds r = true ->
  stage_init (world_of r) rec_funcs (init_args r) (mkState (heap0 r) 100 g fr [])
  = Done (VTuple [VRef a_bundle; VRef 102; VNil]) (after_init r (init_slots r) (ts_val r) g fr).
Proof.
  intros [key st h fn rem u nots kok sec leaf pgp kts ktsn mx mp mfl mstd mfix ca cf af ao aiu now host gts sok kind blob sz aok fok stdin sgn] g fr.
  unfold init_succeeds, ts_active. cbn [k_ok k_leaf k_pgp m_x509 m_pgp k_ts k_tsname q_no_ts r_gts_ok].
  intros H.
  destruct kok; [|discriminate H].
  destruct mx, mp;
  (destruct leaf as [c|]; [|try discriminate H]);
  (destruct pgp as [e|]; [|try discriminate H]);
  destruct host as [|h0 host]; destruct kts; destruct ktsn as [|t0 ktsn]; destruct nots; destruct gts; try discriminate H;
  vm_refl.
Qed.

(* Init fails: nothing is signed, published or answered, and no package-level variable changes *)
Definition silent : summ := mkSumm false [] [] [] [] [] [] true.
Lemma serve_init_fails : forall g r, init_succeeds r = false -> summary (handle g r) = silent /\ o_glob (handle g r) = g.
Proof.
  intros g [key st h fn rem u nots kok sec leaf pgp kts ktsn mx mp mfl mstd mfix ca cf af ao aiu now host gts sok kind blob sz aok fok stdin sgn].
  unfold init_succeeds, ts_active. cbn [k_ok k_leaf k_pgp m_x509 m_pgp k_ts k_tsname q_no_ts r_gts_ok].
  intros H.
  destruct kok; [|split; vm_refl].
  destruct host as [|h0 host]; destruct mx, mp; destruct leaf as [c|]; destruct pgp as [e|];
  destruct kts; destruct ktsn as [|t0 ktsn]; destruct nots; destruct gts; try discriminate H; split; vm_refl.
Qed.

(* ------------------------------------------------------------------------------------------------ stage 2: the rest of serveSign *)
Definition parts_s := Eval vm_compute in window_parts rec_funcs n_serve.
Definition lhs_s : list rx := match parts_s with Some (l, _, _) => l | None => [] end.
Definition args_s : list rx := match parts_s with Some (_, a, _) => a | None => [] end.
Definition tail_s : list rs := match parts_s with Some (_, _, t) => t | None => [] end.
Lemma parts_serve : window_parts rec_funcs n_serve = Some (lhs_s, args_s, tail_s).
Proof. vm_compute. reflexivity. Qed.

Definition bound_frame (fr : list (bytes * value)) : list (bytes * value) :=
  aset (B "err") VNil (aset (B "opts") (VRef 102) (aset (B "cert") (VRef a_bundle) fr)).

Lemma args_serve : forall r g,
  stage_args (world_of r) rec_funcs args_s (mkState (heap0 r) 100 g (serve_frame r) [])
  = Done (init_args r) (mkState (heap0 r) 100 g (serve_frame r) []).
Proof. intros [key st h fn rem u nots kok sec leaf pgp kts ktsn mx mp mfl mstd mfix ca cf af ao aiu now host gts sok kind blob sz aok fok stdin sgn] g. vm_refl. Qed.

Lemma bind_serve : forall r sv t g,
  stage_bind (world_of r) rec_funcs lhs_s (VTuple [VRef a_bundle; VRef 102; VNil]) (after_init r sv t g (serve_frame r))
  = Done tt (after_init r sv t g (bound_frame (serve_frame r))).
Proof. intros [key st h fn rem u nots kok sec leaf pgp kts ktsn mx mp mfl mstd mfix ca cf af ao aiu now host gts sok kind blob sz aok fok stdin sgn] sv t g. vm_refl. Qed.

Definition client_spec (r : request) : list (bytes * value) :=
  [(B "client.ip", VSym (B "zhttp.StripPort") [VStr (q_remote r)]); (B "client.filename", VStr (q_filename r))] ++ spec_user (q_user r).
Definition blob_out (r : request) : value :=
  match r_kind r with
  | KBinPatch => VSym (B ".Dump") [VStruct (B "binpatch.PatchSet") [(B "blob", VStr (r_blob r))]]
  | _ => VStr (r_blob r)
  end.
Definition ctype_of (r : request) : value :=
  VStr (match r_kind r with KPlain => B "application/octet-stream" | KBinPatch => B "application/x-binary-patch" | KPkcs7 _ => B "application/pkcs7-mime" end).

(* what a request that got through Init shows, in the order the code decides it *)
Definition serve_spec (r : request) (sv : list (bool * value)) : summ :=
  let view ok : rec_view := (sv, client_spec r, true, ok) in
  if negb (r_sign_ok r) then mkSumm false [] [] [] [VRef a_bundle] [] [] true
  else if c_amqp r && negb (r_amqp_ok r) then mkSumm false [] [] [] [VRef a_bundle] [view false] [] true
  else let am := if c_amqp r then [view true] else [] in
       if c_file r && negb (r_file_ok r) then mkSumm false [] [] [] [VRef a_bundle] am [view false] true
       else mkSumm true [blob_out r] [(VStr (B "Content-Type"), ctype_of r)] [] [VRef a_bundle] am (if c_file r then [view true] else []) true.

Lemma tail_serve : forall r p1 p2 p3 p4 p5 p6 p7 p8 p9 p10 t g,
  let sv := [p1; p2; p3; p4; p5; p6; p7; p8; p9; p10] in
  let o := finish g (stage_tail (world_of r) rec_funcs tail_s (after_init r sv t g (bound_frame (serve_frame r)))) in
  summary o = serve_spec r sv /\ o_glob o = g.
Proof.
  intros [key st h fn rem u nots kok sec leaf pgp kts ktsn mx mp mfl mstd mfix ca cf af ao aiu now host gts sok kind blob sz aok fok stdin sgn] p1 p2 p3 p4 p5 p6 p7 p8 p9 p10 t g.
  cbv zeta.
  destruct u as [nm [|d0 dn]|sub [iss|] [|e0 dec]];
  (destruct sok; [|split; vm_refl]);
  (destruct kind as [| |[[[tc tt] th]|]]);
  (destruct ca; [destruct aok; [|split; vm_refl]|]);
  (destruct cf; [destruct fok; [|split; vm_refl]|]);
  destruct mfl; split; vm_refl.
Qed.

(* ------------------------------------------------------------------------------------------------ one request to the server *)
Theorem serve_summary : forall g r,
  summary (handle g r) = (if init_succeeds r then serve_spec r (init_slots r) else silent) /\ o_glob (handle g r) = g.
Proof.
  intros g r. destruct (init_succeeds r) eqn:HI; [|apply serve_init_fails; exact HI].
  unfold handle, handle_with, run_staged. rewrite parts_serve. cbv beta iota zeta.
  rewrite args_serve. cbv beta iota.
  rewrite (init_state r g _ HI). cbv beta iota.
  rewrite bind_serve. cbv beta iota.
  exact (tail_serve r _ _ _ _ _ _ _ _ _ _ (ts_val r) g).
Qed.

Lemma serve_all_cons : forall funcs g r rs,
  handle_all funcs g (r :: rs) = handle_with funcs g r :: handle_all funcs (o_glob (handle_with funcs g r)) rs.
Proof. reflexivity. Qed.

Lemma init_identity : forall r, sig_identity (init_slots r) = spec_signature r.
Proof.
  intros [key st h fn rem u nots kok sec leaf pgp kts ktsn mx mp mfl mstd mfix ca cf af ao aiu now host gts sok kind blob sz aok fok stdin sgn].
  destruct leaf as [c|], pgp as [e|]; vm_compute; reflexivity.
Qed.

Lemma spec_server_split : forall r, spec_server r = spec_signature r ++ client_spec r.
Proof. reflexivity. Qed.

(* a delivered record seen through view_of *)
Lemma view_record : forall (l : list (value * bool)) sv cl nb ok,
  map view_of l = [(sv, cl, nb, ok)] ->
  exists rc, l = [(rc, ok)] /\ sig_slots rc = sv /\ client_identity rc = cl /\ late_no_bad rc = nb.
Proof.
  intros [|[rc k] [|x l]] sv cl nb ok H; try discriminate H.
  cbn in H. injection H as H1 H2 H3 H4. exists rc. subst. repeat split.
Qed.

Lemma summary_fields : forall o,
  responded o = sm_resp (summary o) /\ signed_with o = sm_signed (summary o) /\ order_ok false (o_ev o) = sm_order (summary o) /\
  map view_of (file_records o) = sm_file (summary o) /\ map view_of (amqp_records o) = sm_amqp (summary o).
Proof. intros o. repeat split. Qed.

Theorem record_names_what_was_used : forall g r b,
  In b (responded (handle g r)) ->
  let o := handle g r in
  b = blob_out r /\ signed_with o = [VRef a_bundle] /\ o_glob o = g /\ order_ok false (o_ev o) = true /\
  (if c_file r then exists rc, file_records o = [(rc, true)] /\ identity_of rc = spec_server r /\ late_no_bad rc = true else file_records o = []) /\
  (if c_amqp r then exists rc, amqp_records o = [(rc, true)] /\ identity_of rc = spec_server r /\ late_no_bad rc = true else amqp_records o = []).
Proof.
  intros g r b Hb o. subst o.
  destruct (serve_summary g r) as [Hs Hg].
  destruct (summary_fields (handle g r)) as [Hresp [Hsig [Hord [Hf Ha]]]].
  remember (handle g r) as o eqn:Eo. clear Eo.
  rewrite Hs in Hresp, Hsig, Hord, Hf, Ha. clear Hs.
  rewrite Hresp in Hb. clear Hresp.
  assert (Hid : forall rc, sig_slots rc = init_slots r -> client_identity rc = client_spec r -> identity_of rc = spec_server r).
  { intros rc H1 H2. unfold identity_of. rewrite H1, H2, init_identity. symmetry. apply spec_server_split. }
  destruct (init_succeeds r); [|destruct Hb].
  unfold serve_spec in *.
  remember (init_slots r) as sv eqn:Esv. clear Esv.
  remember (client_spec r) as cs eqn:Ecs. clear Ecs.
  remember (blob_out r) as bo eqn:Ebo. clear Ebo.
  destruct (r_sign_ok r); cbn [negb] in *; [|destruct Hb].
  destruct (c_amqp r), (r_amqp_ok r); cbn [negb andb] in *; try (destruct Hb; fail);
  destruct (c_file r), (r_file_ok r); cbn [negb andb] in *; try (destruct Hb; fail);
  cbn [sm_resp sm_signed sm_order sm_file sm_amqp] in *;
  (destruct Hb as [Hb|[]]; subst b);
  (split; [reflexivity|split; [exact Hsig|split; [exact Hg|split; [exact Hord|split]]]]);
  first [ apply map_eq_nil in Hf; exact Hf | apply map_eq_nil in Ha; exact Ha
        | (apply view_record in Hf; destruct Hf as [rc' [E1 [E2 [E3 E4]]]]; exists rc'; split; [exact E1|split; [apply Hid; assumption|exact E4]])
        | (apply view_record in Ha; destruct Ha as [rc' [E1 [E2 [E3 E4]]]]; exists rc'; split; [exact E1|split; [apply Hid; assumption|exact E4]]) ].
Qed.

(* no response: no signature leaves; and whatever happened, the package-level variables are as before *)
Theorem serve_state_untouched : forall g r, o_glob (handle g r) = g.
Proof. intros. exact (proj2 (serve_summary g r)). Qed.
Theorem serve_does_not_read_state : forall g g' r, summary (handle g r) = summary (handle g' r).
Proof. intros. rewrite (proj1 (serve_summary g r)), (proj1 (serve_summary g' r)). reflexivity. Qed.

(* HISTORY INDEPENDENCE: in a process that serves any sequence of requests, starting from any values of the package-level
   variables, every request shows exactly what it shows as the first request of a fresh process *)
Theorem record_history_independent : forall rs g,
  map summary (handle_all rec_funcs g rs) = map (fun r => summary (handle [] r)) rs.
Proof.
  induction rs as [|r rs IH]; intros g; [reflexivity|].
  rewrite serve_all_cons. cbn [map].
  assert (E : handle_with rec_funcs g r = handle g r) by (unfold handle; reflexivity).
  rewrite E, (serve_state_untouched g r), IH, (serve_does_not_read_state g [] r). reflexivity.
Qed.

(* ------------------------------------------------------------------------------------------------ the standalone command *)
Definition parts_c := Eval vm_compute in window_parts rec_funcs n_cmd.
Definition lhs_c : list rx := match parts_c with Some (l, _, _) => l | None => [] end.
Definition args_c : list rx := match parts_c with Some (_, a, _) => a | None => [] end.
Definition tail_c : list rs := match parts_c with Some (_, _, t) => t | None => [] end.
Lemma parts_cmd : window_parts rec_funcs n_cmd = Some (lhs_c, args_c, tail_c).
Proof. vm_compute. reflexivity. Qed.

Lemma args_cmd : forall r,
  stage_args (world_of r) rec_funcs args_c (mkState (heap0 r) 100 (cmd_globals r) (cmd_frame r) [])
  = Done (init_args r) (mkState (heap0 r) 100 (cmd_globals r) (cmd_frame r) []).
Proof. intros [key st h fn rem u nots kok sec leaf pgp kts ktsn mx mp mfl mstd mfix ca cf af ao aiu now host gts sok kind blob sz aok fok stdin sgn]. vm_refl. Qed.

Lemma bind_cmd : forall r sv t,
  stage_bind (world_of r) rec_funcs lhs_c (VTuple [VRef a_bundle; VRef 102; VNil]) (after_init r sv t (cmd_globals r) (cmd_frame r))
  = Done tt (after_init r sv t (cmd_globals r) (bound_frame (cmd_frame r))).
Proof. intros [key st h fn rem u nots kok sec leaf pgp kts ktsn mx mp mfl mstd mfix ca cf af ao aiu now host gts sok kind blob sz aok fok stdin sgn] sv t. vm_refl. Qed.

Definition cmd_client_spec (r : request) : list (bytes * value) := [(B "client.filename", VSym (B "filepath.Base") [VStr (a_file r)])].
(* the standalone command after a successful Init, in the order the code decides *)
Definition cmd_spec (r : request) (sv : list (bool * value)) : summ :=
  let view ok : rec_view := (sv, cmd_client_spec r, true, ok) in
  let app := [(VStr (a_output r), ctype_of r)] in
  if r_stdin r && negb (m_stdin r) then silent
  else if a_ifunsigned r && r_stdin r then silent
  else if a_ifunsigned r && r_signed r then mkSumm true [] [] [] [] [] [] true       (* already signed: nothing to do, nothing signed *)
  else if negb (r_sign_ok r) then mkSumm false [] [] [] [VRef a_bundle] [] [] true
  else if c_amqp r && negb (r_amqp_ok r) then mkSumm false [] [] app [VRef a_bundle] [view false] [] true
  else let am := if c_amqp r then [view true] else [] in
       if c_file r && negb (r_file_ok r) then mkSumm false [] [] app [VRef a_bundle] am [view false] true
       else mkSumm true [] [] app [VRef a_bundle] am (if c_file r then [view true] else []) true.

Lemma tail_cmd : forall r p1 p2 p3 p4 p5 p6 p7 p8 p9 p10 t,
  let sv := [p1; p2; p3; p4; p5; p6; p7; p8; p9; p10] in
  let o := finish (cmd_globals r) (stage_tail (world_of r) rec_funcs tail_c (after_init r sv t (cmd_globals r) (bound_frame (cmd_frame r)))) in
  summary o = cmd_spec r sv /\ o_glob o = cmd_globals r.
Proof.
  intros [key st h fn rem u nots kok sec leaf pgp kts ktsn mx mp mfl mstd mfix ca cf af ao aiu now host gts sok kind blob sz aok fok stdin sgn] p1 p2 p3 p4 p5 p6 p7 p8 p9 p10 t.
  cbv zeta.
  destruct stdin, mstd, aiu, sgn;
  (destruct sok; [|split; vm_refl]);
  (destruct kind as [| |[[[tc tt] th]|]]);
  destruct mfix;
  (destruct ca; [destruct aok; [|split; vm_refl]|]);
  (destruct cf; [destruct fok; [|split; vm_refl]|]);
  split; vm_refl.
Qed.

Lemma cmd_init_fails : forall r, init_succeeds r = false -> summary (cmd r) = silent /\ o_glob (cmd r) = cmd_globals r.
Proof.
  intros [key st h fn rem u nots kok sec leaf pgp kts ktsn mx mp mfl mstd mfix ca cf af ao aiu now host gts sok kind blob sz aok fok stdin sgn].
  unfold init_succeeds, ts_active. cbn [k_ok k_leaf k_pgp m_x509 m_pgp k_ts k_tsname q_no_ts r_gts_ok].
  intros H.
  destruct kok; [|split; vm_refl].
  destruct host as [|h0 host]; destruct mx, mp; destruct leaf as [c|]; destruct pgp as [e|];
  destruct kts; destruct ktsn as [|t0 ktsn]; destruct nots; destruct gts; try discriminate H; split; vm_refl.
Qed.

Theorem cmd_summary : forall r,
  summary (cmd r) = (if init_succeeds r then cmd_spec r (init_slots r) else silent) /\ o_glob (cmd r) = cmd_globals r.
Proof.
  intros r. destruct (init_succeeds r) eqn:HI; [|apply cmd_init_fails; exact HI].
  unfold cmd, cmd_with, run_staged. rewrite parts_cmd. cbv beta iota zeta.
  rewrite args_cmd. cbv beta iota.
  rewrite (init_state r (cmd_globals r) _ HI). cbv beta iota.
  rewrite bind_cmd. cbv beta iota.
  exact (tail_cmd r _ _ _ _ _ _ _ _ _ _ (ts_val r)).
Qed.

Lemma spec_cmd_split : forall r, spec_cmd r = spec_signature r ++ cmd_client_spec r.
Proof. reflexivity. Qed.

(* the standalone command exits 0 having signed: exactly one record per configured sink, naming what was used *)
Theorem cmd_record_names_what_was_used : forall r,
  sm_ok (summary (cmd r)) = true -> signed_with (cmd r) <> [] ->
  let o := cmd r in
  signed_with o = [VRef a_bundle] /\
  (if c_file r then exists rc, file_records o = [(rc, true)] /\ identity_of rc = spec_cmd r /\ late_no_bad rc = true else file_records o = []) /\
  (if c_amqp r then exists rc, amqp_records o = [(rc, true)] /\ identity_of rc = spec_cmd r /\ late_no_bad rc = true else amqp_records o = []).
Proof.
  intros r Hok Hsg o. subst o.
  destruct (cmd_summary r) as [Hs Hg].
  destruct (summary_fields (cmd r)) as [_ [Hsig [_ [Hf Ha]]]].
  remember (cmd r) as o eqn:Eo. clear Eo.
  rewrite Hs in Hok, Hsig, Hf, Ha. clear Hs.
  rewrite Hsig in Hsg. 
  assert (Hid : forall rc, sig_slots rc = init_slots r -> client_identity rc = cmd_client_spec r -> identity_of rc = spec_cmd r).
  { intros rc H1 H2. unfold identity_of. rewrite H1, H2, init_identity. symmetry. apply spec_cmd_split. }
  destruct (init_succeeds r); [|discriminate Hok].
  unfold cmd_spec, silent in *.
  remember (init_slots r) as sv eqn:Esv. clear Esv.
  remember (cmd_client_spec r) as cs eqn:Ecs. clear Ecs.
  destruct (r_stdin r && negb (m_stdin r)); [discriminate Hok|].
  destruct (a_ifunsigned r && r_stdin r); [discriminate Hok|].
  destruct (a_ifunsigned r && r_signed r); [exfalso; apply Hsg; reflexivity|].
  destruct (r_sign_ok r); cbn [negb] in *; [|discriminate Hok].
  destruct (c_amqp r), (r_amqp_ok r); cbn [negb andb] in *; try discriminate Hok;
  destruct (c_file r), (r_file_ok r); cbn [negb andb] in *; try discriminate Hok;
  cbn [sm_resp sm_signed sm_order sm_file sm_amqp] in *;
  (split; [exact Hsig|split]);
  first [ apply map_eq_nil in Hf; exact Hf | apply map_eq_nil in Ha; exact Ha
        | (apply view_record in Hf; destruct Hf as [rc' [E1 [E2 [E3 E4]]]]; exists rc'; split; [exact E1|split; [apply Hid; assumption|exact E4]])
        | (apply view_record in Ha; destruct Ha as [rc' [E1 [E2 [E3 E4]]]]; exists rc'; split; [exact E1|split; [apply Hid; assumption|exact E4]]) ].
Qed.

(* ------------------------------------------------------------------------------------------------ reviewed inventories
   What srcgen reads off the source must be exactly what was reviewed.  A new package-level variable in lib/audit,
   internal/signinit or internal/authmodel, a new writer of an identity attribute, a new call of SetX509Cert / SetPgpCert /
   audit.New / PublishAudit, a change in where keyName / filename / hash come from: each changes a generated list and the
   corresponding lemma below no longer holds. *)
Definition zs2 (p : String.string * String.string) : bytes * bytes := (zs (fst p), zs (snd p)).
Definition zs3 (p : String.string * String.string * String.string) : bytes * bytes * bytes := (zs (fst (fst p)), zs (snd (fst p)), zs (snd p)).
Definition zs4 (p : String.string * String.string * String.string * String.string) : bytes * bytes * bytes * bytes :=
  (zs (fst (fst (fst p))), zs (snd (fst (fst p))), zs (snd (fst p)), zs (snd p)).

(* lib/audit has NO package-level variable; signinit has the timestamp client singleton and its mutex (neither holds a
   key, a certificate or anything of a request); authmodel has a context key and a constant table of messages *)
Definition reviewed_pkg_vars : list (String.string * String.string) :=
  [("internal/signinit.mu", "sync.Mutex"); ("internal/signinit.ts", "pkcs9.Timestamper");
   ("internal/authmodel.ctxKeyUserInfo", "ctxKey"); ("internal/authmodel.should401", "= map[string]bool")].
Lemma state_inventory_reviewed : rec_pkg_vars = map zs2 reviewed_pkg_vars.
Proof. vm_compute. reflexivity. Qed.

(* the identity setters are called in exactly one place each, on the certificate / key of the bundle Init just loaded, and
   the record that is published is the one of the options Init returned *)
Definition reviewed_setter_calls : list (String.string * String.string * String.string * String.string) :=
  [("cmdline/token/signcmd.go", "signCmd", "PublishAudit", "opts.Audit");
   ("internal/signinit/signinit.go", "Init", "audit.New", "kconf.Name()");
   ("internal/signinit/signinit.go", "Init", "SetX509Cert", "cert.Leaf");
   ("internal/signinit/signinit.go", "Init", "SetPgpCert", "cert.PgpKey");
   ("server/view_sign.go", "Server.serveSign", "PublishAudit", "opts.Audit")].
Lemma setter_calls_reviewed : setter_calls = map zs4 reviewed_setter_calls.
Proof. vm_compute. reflexivity. Qed.

(* who writes an attribute that names key, type, digest, certificate, client or file: nobody but these; in particular no
   signer module touches them (their attributes are listed in attr_writes under other keys), and every key is a literal *)
Definition q_mark : bytes := zs "?".
Definition identity_writers : list (bytes * bytes * bytes) :=
  filter (fun w => existsb (bytes_eqb (snd w)) identity_keys) attr_writes.
Definition reviewed_identity_writers : list (String.string * String.string * String.string) :=
  [("cmdline/token/signcmd.go", "signCmd", "client.filename");
   ("internal/authmodel/certificate.go", "CertificateInfo.AuditContext", "client.name");
   ("internal/authmodel/certificate.go", "CertificateInfo.AuditContext", "client.dn");
   ("internal/authmodel/opa.go", "PolicyInfo.AuditContext", "client.sub");
   ("internal/authmodel/opa.go", "PolicyInfo.AuditContext", "client.iss");
   ("internal/authmodel/opa.go", "PolicyInfo.AuditContext", "client.decision_id");
   ("lib/audit/audit.go", "New", "sig.type"); ("lib/audit/audit.go", "New", "sig.keyname"); ("lib/audit/audit.go", "New", "sig.hash");
   ("lib/audit/audit.go", "Info.SetPgpCert", "sig.pgp.fingerprint"); ("lib/audit/audit.go", "Info.SetPgpCert", "sig.pgp.entity");
   ("lib/audit/audit.go", "Info.SetX509Cert", "sig.x509.subject"); ("lib/audit/audit.go", "Info.SetX509Cert", "sig.x509.issuer");
   ("lib/audit/audit.go", "Info.SetX509Cert", "sig.x509.fingerprint");
   ("server/view_sign.go", "Server.serveSign", "client.ip"); ("server/view_sign.go", "Server.serveSign", "client.filename")].
Lemma identity_writers_reviewed :
  identity_writers = map zs3 reviewed_identity_writers /\ forallb (fun w => negb (bytes_eqb (snd w) q_mark)) attr_writes = true.
Proof. split; vm_compute; reflexivity. Qed.

(* every statement and expression of the translated functions was understood *)
Lemma everything_translated : rec_untranslated = [].
Proof. reflexivity. Qed.

(* where the variables of the two windows come from (the statements before the call of signinit.Init) *)
Definition S (s : String.string) : bytes := zs s.
Definition reviewed_servesign_prelude : list (bytes * list rx) :=
  [(S "query", [XMeth (XSel (XVar (S "request")) (S "URL")) (S "Query") []]);
   (S "keyName", [XMeth (XVar (S "query")) (S "Get") [XStr (S "key")]]);
   (S "filename", [XMeth (XVar (S "query")) (S "Get") [XStr (S "filename")]]);
   (S "sigType", [XMeth (XVar (S "query")) (S "Get") [XStr (S "sigtype")]]);
   (S "userInfo", [XCall (S "authmodel.RequestInfo") [XVar (S "request")]]);
   (S "keyConf,err", [XMeth (XSel (XVar (S "s")) (S "Config")) (S "GetKey") [XVar (S "keyName")]]);
   (S "mod", [XCall (S "signers.ByName") [XVar (S "sigType")]]);
   (S "hash", [XExt (S "crypto.SHA256") false]);
   (S "digest", [XMeth (XMeth (XSel (XVar (S "request")) (S "URL")) (S "Query") []) (S "Get") [XStr (S "digest")]]);
   (S "hash", [XCall (S "x509tools.HashByName") [XVar (S "digest")]]);
   (S "flags,err", [XMeth (XVar (S "mod")) (S "FlagsFromQuery") [XVar (S "query")]]);
   (S "tok", [XIndex (XSel (XVar (S "s")) (S "tokens")) (XSel (XVar (S "keyConf")) (S "Token"))])].
Definition reviewed_signcmd_prelude : list (bytes * list rx) :=
  [(S "argOutput", [XGlobal (S "token.argFile")]);
   (S "mod,err", [XCall (S "signers.ByFile") [XGlobal (S "token.argFile"); XGlobal (S "token.argSigType")]]);
   (S "flags,err", [XMeth (XVar (S "mod")) (S "FlagsFromCmdline") [XMeth (XVar (S "cmd")) (S "Flags") []]]);
   (S "hash,err", [XCall (S "shared.GetDigest") []]);
   (S "token,err", [XCall (S "token.openTokenByKey") [XGlobal (S "token.argKeyName")]])].
Lemma preludes_reviewed : servesign_prelude = reviewed_servesign_prelude /\ signcmd_prelude = reviewed_signcmd_prelude.
Proof. split; vm_compute; reflexivity. Qed.

(* the digest names: relic's table is the registry's *)
Lemma hash_names_are_the_registered_ones : forall h, hash_name_of h hash_names = spec_hash_name h.
Proof.
  intros h. unfold spec_hash_name, hash_names. cbn [hash_name_of].
  destruct (h =? 2); [reflexivity|]. destruct (h =? 3); [reflexivity|]. destruct (h =? 4); [reflexivity|].
  destruct (h =? 5); [reflexivity|]. destruct (h =? 6); [reflexivity|]. destruct (h =? 7); reflexivity.
Qed.

(* ------------------------------------------------------------------------------------------------ non-vacuity, and the class of change this decides *)
Definition cert_a : cert := mkCert (zs "DER of certificate A") (zs "subject A") (zs "issuer A") (zs "the public key") (zs "tbs A").
Definition cert_b : cert := mkCert (zs "DER of certificate B") (zs "subject B") (zs "issuer B") (zs "the public key") (zs "tbs B").
Definition ent_a : entity := mkEntity (zs "fpr A") (zs "kid A") (zs "ids A").
Definition blob_a : bytes := zs "pkcs7 blob".
Definition req_with (keyname section : String.string) (c : cert) : request :=
  mkRequest (zs keyname) (zs "cat") 5 (zs "hyperv.cat") (zs "198.51.100.23:5151") (UCert (zs "alice") [])
        false true (zs section) (Some c) (Some ent_a) false [] true false false false false false true [] [] false
        1759212000 (zs "signer01") true true (KPkcs7 None) blob_a 13580 true true false false.
Definition req_a := req_with "release" "release" cert_a.
Definition req_b := req_with "rel-alias" "release-ev" cert_b.

Example server_request_answered :
  responded (handle [] req_a) = [VStr blob_a] /\ init_succeeds req_a = true /\
  map (fun p => identity_of (fst p)) (file_records (handle [] req_a)) = [spec_server req_a].
Proof. vm_compute. repeat split. Qed.

(* the staged reading of a window agrees with running it in one go *)
Example staged_is_mono :
  summary (handle [] req_b) = summary (run_mono rec_funcs n_serve req_b [] (serve_frame req_b)) /\
  summary (cmd req_b) = summary (run_mono rec_funcs n_cmd req_b (cmd_globals req_b) (cmd_frame req_b)).
Proof. split; vm_compute; reflexivity. Qed.

(* SetX509Cert with its three strings memoised per public key (lib/audit with a package-level sync.Map), as srcgen
   translates it: the interpreter runs it faithfully, and the second certificate over the same key is recorded under the
   name of the first.  With such a source tree init_state above does not compute (XGlobal meets the unknown g) and
   state_inventory_reviewed fails; here the model shows the concrete history. *)
Definition memo_setx509 : list rfun :=
  [mkFun (S "audit.Info.SetX509Cert") true true [S "info"; S "cert"]
     [SAssign [XVar (S "attrs")] [XCall (S "audit.formatX509Attrs") [XVar (S "cert")]] true;
      SAssign [XIndex (XSel (XVar (S "info")) (S "Attributes")) (XStr (S "sig.x509.subject"))] [XSel (XVar (S "attrs")) (S "subject")] false;
      SAssign [XIndex (XSel (XVar (S "info")) (S "Attributes")) (XStr (S "sig.x509.issuer"))] [XSel (XVar (S "attrs")) (S "issuer")] false;
      SAssign [XIndex (XSel (XVar (S "info")) (S "Attributes")) (XStr (S "sig.x509.fingerprint"))] [XSel (XVar (S "attrs")) (S "fingerprint")] false];
   mkFun (S "audit.formatX509Attrs") false false [S "cert"]
     [SAssign [XVar (S "cacheKey")] [XCall (S "conv:string") [XSel (XVar (S "cert")) (S "RawSubjectPublicKeyInfo")]] true;
      SIf [SAssign [XVar (S "cached"); XVar (S "ok")] [XMeth (XGlobal (S "audit.x509AttrCache")) (S "Load") [XVar (S "cacheKey")]] true] (XVar (S "ok"))
        [SReturn [XAssert (XVar (S "cached")) (S "x509Attrs")]] [];
      SAssign [XVar (S "d")] [XMeth (XExt (S "crypto.SHA1") false) (S "New") []] true;
      SExpr (XMeth (XVar (S "d")) (S "Write") [XSel (XVar (S "cert")) (S "Raw")]);
      SAssign [XVar (S "attrs")] [XLit (S "audit.x509Attrs") false
         [(S "subject", XCall (S "x509tools.FormatSubject") [XVar (S "cert")]); (S "issuer", XCall (S "x509tools.FormatIssuer") [XVar (S "cert")]);
          (S "fingerprint", XCall (S "fmt.Sprintf") [XStr (S "%x"); XMeth (XVar (S "d")) (S "Sum") [XNil]])]] true;
      SExpr (XMeth (XGlobal (S "audit.x509AttrCache")) (S "Store") [XVar (S "cacheKey"); XVar (S "attrs")]);
      SReturn [XVar (S "attrs")]]].
Definition memo_funcs : list rfun := memo_setx509 ++ filter (fun f => negb (bytes_eqb (f_name f) (S "audit.Info.SetX509Cert"))) rec_funcs.
Definition x509_named (o : outcome) : list (list (bytes * value)) :=
  map (fun p => filter (fun kv => bytes_prefix (S "sig.x509.") (fst kv)) (identity_of (fst p))) (file_records o).

Example memo_names_the_first_certificate :
  let os := handle_all memo_funcs [] [req_a; req_b; req_a] in
  map x509_named os = [[spec_x509 cert_a]; [spec_x509 cert_a]; [spec_x509 cert_a]]         (* the record of B's signature names A *)
  /\ map responded os = [[VStr blob_a]; [VStr blob_a]; [VStr blob_a]]
  /\ map x509_named (handle_all rec_funcs [] [req_a; req_b; req_a]) = [[spec_x509 cert_a]; [spec_x509 cert_b]; [spec_x509 cert_a]]
  /\ (forall o, In o os -> o_glob o <> []).
Proof.
  vm_compute. repeat split. intros o [E|[E|[E|[]]]]; subst o; discriminate.
Qed.
