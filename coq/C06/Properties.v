(* C06/Properties.v — property theorems only. *)
From Relic Require Import Base.Prelude Generated.C06_gen C06.Model C06.Proofs.
From Coq Require Import Permutation.

(* server: a response carrying a signature is preceded by exactly one delivered record per configured sink,
   made after the signature was computed, for every combination of sink configuration and sink faults *)
Theorem audit_before_response : forall init_ok sign_ok s,
  responds_200 (serve_sign init_ok sign_ok s) = true ->
  let pre := before_200 (serve_sign init_ok sign_ok s) in
  count_ok_amqp pre = nb (amqp_configured s) /\ count_ok_append pre = nb (file_configured s) /\
  In (ESign true) pre /\ init_ok = true /\ sign_ok = true.
Proof. exact C06.Proofs.audit_before_response. Qed.

(* if any configured sink fails, the signature is not returned *)
Theorem sink_failure_blocks : forall init_ok sign_ok s,
  (amqp_configured s = true /\ amqp_ok s = false) \/ (file_configured s = true /\ file_ok s = false) ->
  responds_200 (serve_sign init_ok sign_ok s) = false.
Proof. exact C06.Proofs.sink_failure_blocks. Qed.

Theorem all_ok_responds : forall s,
  (amqp_configured s = true -> amqp_ok s = true) -> (file_configured s = true -> file_ok s = true) ->
  responds_200 (serve_sign true true s) = true.
Proof. exact C06.Proofs.all_ok_responds. Qed.

(* standalone: successful completion has produced exactly one record per configured sink *)
Theorem standalone_success_audited : forall init_ok sign_ok apply_ok s e,
  sign_cmd init_ok sign_ok apply_ok s = (e, true) ->
  count_ok_amqp e = nb (amqp_configured s) /\ count_ok_append e = nb (file_configured s) /\ In (ESign true) e.
Proof. exact C06.Proofs.standalone_success_audited. Qed.

(* one write system call per record (generated call table of AppendTo) *)
Theorem single_write_per_record : append_writes = 1.
Proof. exact C06.Proofs.single_write_per_record. Qed.

(* under any interleaving of concurrent writers the audit file is exactly one complete record per line *)
Theorem log_interleaving : forall records order,
  Permutation order records -> Forall (fun r => no_nl r = true) records ->
  Permutation (lines (log_of order)) records.
Proof. exact C06.Proofs.log_interleaving. Qed.

Example both_sinks_file_fails :
  serve_sign true true (mkSinks true true true false) = [ESign true; EAmqp true; EAppend false; ERespond 500] /\
  serve_sign true true (mkSinks false true true true) = [ESign true; EAppend true; ERespond 200].
Proof. split; reflexivity. Qed.
