(* C06/Properties.v — property theorems only. *)
From Relic Require Import Base.Prelude Generated.C06_gen C06.Model C06.Proofs C06.Append C06.AppendProofs.
From Relic Require Import Generated.C06rec_gen C06.Record C06.RecordProofs.
From Coq Require Import Permutation.

(* server: a response carrying a signature is preceded by exactly one delivered record per configured sink,
   made after the signature was computed, for every combination of sink configuration and sink faults *)
Theorem audit_before_response : forall init_ok sign_ok s,
  responds_200 (serve_sign init_ok sign_ok s) = true ->
  let pre := before_200 (serve_sign init_ok sign_ok s) in
  count_ok_amqp pre = nb (amqp_configured s) /\ count_ok_append pre = nb (file_configured s) /\
  In (ESign true) pre /\ init_ok = true /\ sign_ok = true.
Proof. exact C06.Proofs.audit_before_response. Qed.

(* if any configured sink fails, the signature is not returned *)
Theorem sink_failure_blocks : forall init_ok sign_ok s,
  (amqp_configured s = true /\ amqp_ok s = false) \/ (file_configured s = true /\ file_ok s = false) ->
  responds_200 (serve_sign init_ok sign_ok s) = false.
Proof. exact C06.Proofs.sink_failure_blocks. Qed.

Theorem all_ok_responds : forall s,
  (amqp_configured s = true -> amqp_ok s = true) -> (file_configured s = true -> file_ok s = true) ->
  responds_200 (serve_sign true true s) = true.
Proof. exact C06.Proofs.all_ok_responds. Qed.

(* standalone: successful completion has produced exactly one record per configured sink *)
Theorem standalone_success_audited : forall init_ok sign_ok apply_ok s e,
  sign_cmd init_ok sign_ok apply_ok s = (e, true) ->
  count_ok_amqp e = nb (amqp_configured s) /\ count_ok_append e = nb (file_configured s) /\ In (ESign true) e.
Proof. exact C06.Proofs.standalone_success_audited. Qed.

(* the same for EVERY order in which PublishAudit might try the two sinks, and every subset of failing sinks:
   a later successful sink can never make up for an earlier failure, nor an earlier success for a later failure *)
Theorem sink_failure_blocks_every_order : forall pc init_ok sign_ok s,
  In 0 pc -> In 1 pc ->
  (amqp_configured s = true /\ amqp_ok s = false) \/ (file_configured s = true /\ file_ok s = false) ->
  responds_200 (serve_p pc serve_calls init_ok sign_ok s) = false.
Proof. exact C06.Proofs.sink_failure_blocks_every_order. Qed.

Theorem audit_before_response_every_order : forall pc init_ok sign_ok s,
  Permutation [0; 1] pc ->
  responds_200 (serve_p pc serve_calls init_ok sign_ok s) = true ->
  let pre := before_200 (serve_p pc serve_calls init_ok sign_ok s) in
  count_ok_amqp pre = nb (amqp_configured s) /\ count_ok_append pre = nb (file_configured s) /\
  In (ESign true) pre /\ init_ok = true /\ sign_ok = true.
Proof. exact C06.Proofs.audit_before_response_every_order. Qed.

(* PublishAudit, any order: it fails iff an attempted delivery failed, and nothing is attempted after a failure
   (so which sinks hold a record of a refused request is determined by the order srcgen reads from the source) *)
Theorem publish_result : forall pc s, snd (publish pc s) = negb (existsb is_failed_sink (fst (publish pc s))).
Proof. exact C06.Proofs.publish_result. Qed.
Theorem publish_stops : forall pc s, stops_at_failure (fst (publish pc s)) = true.
Proof. exact C06.Proofs.publish_stops. Qed.

(* no duplicates: one request yields at most one record per sink, one connection to the broker, one response *)
Theorem at_most_one_record : forall init_ok sign_ok s,
  let t := serve_sign init_ok sign_ok s in
  (count_ok_amqp t <= 1)%nat /\ (count_ok_append t <= 1)%nat /\ (count_200 t <= 1)%nat /\
  (attempts_amqp t <= 1)%nat /\ (attempts_append t <= 1)%nat.
Proof. exact C06.Proofs.at_most_one_record. Qed.

(* over any sequence of requests (each with its own faults): every returned signature is covered by a record in each
   configured sink; and while the sinks are healthy  #file records = #broker messages = #signatures returned *)
Theorem responses_covered_by_records : forall ac fc rs,
  let t := serve_all ac fc rs in
  (nb ac * count_200 t <= count_ok_amqp t)%nat /\ (nb fc * count_200 t <= count_ok_append t)%nat.
Proof. exact C06.Proofs.responses_covered_by_records. Qed.
Theorem records_equal_responses : forall ac fc rs,
  forallb healthy rs = true ->
  let t := serve_all ac fc rs in
  count_ok_amqp t = (nb ac * count_200 t)%nat /\ count_ok_append t = (nb fc * count_200 t)%nat.
Proof. exact C06.Proofs.records_equal_responses. Qed.

(* standalone: a failing sink makes the command fail (the artefact is already written: EApply precedes, see Example) *)
Theorem standalone_sink_failure_fails : forall init_ok sign_ok apply_ok s,
  (amqp_configured s = true /\ amqp_ok s = false) \/ (file_configured s = true /\ file_ok s = false) ->
  snd (sign_cmd init_ok sign_ok apply_ok s) = false.
Proof. exact C06.Proofs.standalone_sink_failure_fails. Qed.

(* one write system call per record (generated call table of AppendTo) *)
Theorem single_write_per_record : append_writes = 1.
Proof. exact C06.Proofs.single_write_per_record. Qed.

(* under any interleaving of concurrent writers the audit file is exactly one complete record per line *)
Theorem log_interleaving : forall records order,
  Permutation order records -> Forall (fun r => no_nl r = true) records ->
  Permutation (lines (log_of order)) records.
Proof. exact C06.Proofs.log_interleaving. Qed.

Example both_sinks_file_fails :
  serve_sign true true (mkSinks true true true false) = [ESign true; EAmqp true; EAppend false; ERespond 500] /\
  serve_sign true true (mkSinks false true true true) = [ESign true; EAppend true; ERespond 200].
Proof. split; reflexivity. Qed.

(* the code's order is AMQP first: with the file failing and a healthy broker the broker HOLDS a record of the refused
   request (a record without a signature is allowed; a signature without a record is not), and with the broker failing
   the file is not even tried *)
Example record_without_signature :
  let t := serve_sign true true (mkSinks true true true false) in
  responds_200 t = false /\ count_ok_amqp t = 1%nat /\ count_ok_append t = 0%nat /\ attempts_append t = 1%nat.
Proof. repeat split; reflexivity. Qed.
Example broker_failure_skips_file :
  let t := serve_sign true true (mkSinks true true false true) in
  responds_200 t = false /\ attempts_amqp t = 1%nat /\ attempts_append t = 0%nat.
Proof. repeat split; reflexivity. Qed.
Example standalone_sink_failure_after_apply :
  sign_cmd true true true (mkSinks true true true false) = ([ESign true; EApply; EAmqp true; EAppend false], false).
Proof. reflexivity. Qed.
Example healthy_batch :
  let t := serve_all true true [mkReq true true true true; mkReq true false true true; mkReq true true true true] in
  count_200 t = 2%nat /\ count_ok_amqp t = 2%nat /\ count_ok_append t = 2%nat.
Proof. repeat split; reflexivity. Qed.

(* ====================================================================================================================
   "Under concurrent requests the audit file remains exactly one complete JSON object per line."
   System-call level (C06/Append.v): append_prog is lib/audit Info.AppendTo translated statement by statement. *)

(* whatever the length of the record (up to the runtime's cap on one write(2), os_max_rw = 2^30), the generated program
   hands the record and its line feed to write(2) in exactly ONE call *)
Theorem appendto_one_write : forall r, zlen r + 1 <= os_max_rw -> emit_prog r = [r ++ [nl]].
Proof. exact C06.AppendProofs.appendto_one_write. Qed.

(* the descriptor is opened O_APPEND (every write(2) lands at the end of the file) and never truncated *)
Theorem appendto_open_flags :
  append_open_append = true /\ append_open_trunc = false /\ append_open_create = true /\ append_open_writable = true.
Proof. exact C06.AppendProofs.appendto_open_flags. Qed.

(* the model-independent fact, for EVERY way of emitting a line (any split into write(2) calls, empty ones included), any
   number of concurrent records of every length in [dom], and EVERY interleaving of the calls:
   the file is always one record per line  <->  every record reaches the file in a single non-empty write *)
Theorem one_write_iff_wellformed : forall (dom : bytes -> Prop) (emit : bytes -> list bytes),
  (forall r, dom r -> no_nl r = true) ->
  (forall r, dom r -> concat (emit r) = r ++ [nl]) ->
  (wellformed_always dom emit <-> forall r, dom r -> nonempty (emit r) = [r ++ [nl]]).
Proof. exact C06.AppendProofs.one_write_iff_wellformed. Qed.

(* one direction spelled out: a record written in pieces can be torn in the company of ANY other records *)
Theorem split_write_breaks : forall (emit : bytes -> list bytes) r others,
  no_nl r = true -> Forall (fun o => no_nl o = true) others ->
  concat (emit r) = r ++ [nl] -> Forall (fun o => concat (emit o) = o ++ [nl]) others ->
  nonempty (emit r) <> [r ++ [nl]] ->
  exists evs, interleave (map emit (r :: r :: others)) evs /\ ~ spec_ok (r :: r :: others) (file_after true evs).
Proof. exact C06.AppendProofs.split_write_breaks. Qed.

(* hence for the code as it is: any number of appenders (goroutines or processes), records of every length, every
   interleaving of their system calls — the file is exactly the appended records, one per line, nothing torn *)
Theorem audit_file_one_record_per_line : forall records evs,
  Forall in_domain records -> interleave (map emit_prog records) evs ->
  spec_ok records (file_after append_open_append evs).
Proof. exact C06.AppendProofs.audit_file_one_record_per_line. Qed.

(* AppendTo reports success exactly when open, marshal and the write succeeded; then the complete line is in the file by
   one successful write(2); otherwise it returns an error and no part of a line is left behind — PROVIDED the write(2) is
   not short (domain: e_short E 0 = None). With a short write the statement fails: see the witness below. *)
Theorem appendto_success_iff : forall E r, zlen r + 1 <= os_max_rw -> e_short E 0%nat = None ->
  let s := run_append E r in
  (s_ret s = Some true <-> e_open_ok E = true /\ e_marshal_ok E = true /\ e_fail E 0%nat = false) /\
  (s_ret s = Some true -> s_sys s = [(r ++ [nl], true)] /\ written s = r ++ [nl]) /\
  (s_ret s <> Some true -> s_ret s = Some false /\ written s = []) /\
  s_bad s = false.
Proof. exact C06.AppendProofs.appendto_success_iff. Qed.

(* FINDING (unchanged code): a write(2) that takes only part of the line and is followed by a failing one (disk filling up,
   RLIMIT_FSIZE) makes AppendTo return an error, correctly, but leaves the piece in the file; the next successful record
   is appended to it and the line is not a JSON object. Replayed on the real code by the check (mode fsize). *)
Theorem appendto_short_write_refuted :
  exists E r, zlen r + 1 <= os_max_rw /\
    s_ret (run_append E r) = Some false /\ written (run_append E r) = [123; 34] /\
    spec_lines (written (run_append E r) ++ written (run_append healthy_env r)) = ([[123; 34; 123; 34; 97; 34; 58; 49; 125]], []).
Proof. exact C06.AppendProofs.appendto_short_write_refuted. Qed.

(* the class of change this part of the unit decides: the same bytes through bufio.Writer (Write, WriteByte, Flush), any
   buffer size: one write(2) below the buffer size, two from the buffer size on (Write bypasses an empty buffer for
   large data; a full buffer is flushed before the line feed goes in) — so such appenders CAN tear the file *)
Theorem bufio_emit : forall size r, zlen r <= os_max_rw -> eff_size size <= os_max_rw ->
  emit_of (prog_bufio size) r = if zlen r <? eff_size size then [r ++ [nl]] else [r; [nl]].
Proof. exact C06.AppendProofs.bufio_emit. Qed.
Theorem bufio_can_tear : forall size, eff_size size + 1 <= os_max_rw -> ~ wellformed_always in_domain (emit_of (prog_bufio size)).
Proof. exact C06.AppendProofs.bufio_can_tear. Qed.

(* the executable schedules used for the comparison with strace are interleavings in the sense above *)
Theorem sched_run_interleave : forall sched ws evs, sched_run ws sched = Some evs -> interleave ws evs.
Proof. exact C06.AppendProofs.sched_run_interleave. Qed.

(* ---- non-vacuity *)
Example in_domain_inhabited : in_domain [123; 34; 97; 34; 58; 49; 125].
Proof. split; [reflexivity|]. apply Z.leb_le. vm_compute. reflexivity. Qed.
Example append_prog_like_single : emit_prog [123; 125] = emit_of prog_single [123; 125] /\ emit_prog [123; 125] = [[123; 125; 10]].
Proof. split; reflexivity. Qed.
Example interleaving_exists :
  interleave (map emit_prog [[1; 2]; [3]]) [(1%nat, [3; 10]); (0%nat, [1; 2; 10])] /\
  file_after append_open_append [(1%nat, [3; 10]); (0%nat, [1; 2; 10])] = [3; 10; 1; 2; 10] /\
  spec_lines [3; 10; 1; 2; 10] = ([[3]; [1; 2]], []).
Proof.
  split; [|split; reflexivity].
  apply (C06.AppendProofs.sched_run_interleave [1%nat; 0%nat]). reflexivity.
Qed.
(* the default buffer is 4096 bytes: 4095 go out with their line feed, 4096 do not *)
Example bufio_boundary :
  map (fun c => zlen c) (emit_of (prog_bufio 0) (repeat 120 4095)) = [4096] /\
  map (fun c => zlen c) (emit_of (prog_bufio 0) (repeat 120 4096)) = [4096; 1] /\
  map (fun c => zlen c) (emit_of (prog_bufio 0) (repeat 120 4097)) = [4097; 1].
Proof. repeat split; vm_compute; reflexivity. Qed.
(* a torn file, concretely: two 4-byte records through a 4-byte buffer, second appender between the two calls of the first *)
Example torn_file :
  let ws := map (emit_of (prog_bufio 4)) [[1; 2; 3; 4]; [5; 6; 7; 8]] in
  option_map (fun evs => spec_lines (file_after true evs)) (sched_run ws [0; 1; 1; 0]%nat)
  = Some ([[1; 2; 3; 4; 5; 6; 7; 8]; []], []).
Proof. vm_compute. reflexivity. Qed.
(* without O_APPEND every descriptor writes from offset 0: the second record lands on top of the first *)
Example without_o_append_records_clobber :
  file_after false [(0%nat, [1; 2; 3; 10]); (1%nat, [7; 10])] = [7; 10; 3; 10].
Proof. reflexivity. Qed.
(* a failing write(2) is reported; with a buffered writer whose Flush is checked too, but not by a program that ignores it *)
Example failing_write_reported :
  s_ret (run_append (mkEnv true true (fun k => Nat.eqb k 0) (fun _ => None)) [1; 2]) = Some false /\
  s_ret (run_prog [AOpen 1; AMarshal 1; AAppend [10]; AWrite 0 [PBlob] 0; AReturn true] (mkEnv true true (fun k => Nat.eqb k 0) (fun _ => None)) [1; 2]) = Some true.
Proof. split; reflexivity. Qed.

(* ====================================================================================================================
   "... exactly one audit record ... naming the key, signature type, digest, certificate, client identity and file name
   ACTUALLY USED."  The CONTENT of the record (C06/Record.v): lib/audit, signinit.Init / PublishAudit, the AuditContext
   methods, SignOpts.SetBinPatch / SetPkcs7 and the two callers are translated statement by statement
   (Generated/C06rec_gen.v) and run by an interpreter whose only memory between requests is the package-level variables. *)

(* one request, any process state g, any key / names / certificates / client / file name / digest / signer outcome / sink
   configuration and faults: what it shows is a function of the request alone (serve_spec, or nothing when Init refuses),
   and no package-level variable changes *)
Theorem serve_summary : forall g r,
  summary (handle g r) = (if init_succeeds r then serve_spec r (init_slots r) else silent) /\ o_glob (handle g r) = g.
Proof. exact C06.RecordProofs.serve_summary. Qed.

(* a body written to the client is the signer's blob; the signer was given the bundle InitKey loaded for THIS request;
   before the body, every configured sink took exactly one record, whose identity attributes are the specification's:
   the key section used, the signer module, the digest, subject / issuer / SHA-1 fingerprint of the leaf of that same bundle,
   fingerprint and user id of its PGP certificate, the client's address, name (DN / subject / issuer / decision) and file name *)
Theorem record_names_what_was_used : forall g r b,
  In b (responded (handle g r)) ->
  let o := handle g r in
  b = blob_out r /\ signed_with o = [VRef a_bundle] /\ o_glob o = g /\ order_ok false (o_ev o) = true /\
  (if c_file r then exists rc, file_records o = [(rc, true)] /\ identity_of rc = spec_server r /\ late_no_bad rc = true else file_records o = []) /\
  (if c_amqp r then exists rc, amqp_records o = [(rc, true)] /\ identity_of rc = spec_server r /\ late_no_bad rc = true else amqp_records o = []).
Proof. exact C06.RecordProofs.record_names_what_was_used. Qed.

(* HISTORY INDEPENDENCE: any sequence of requests in one process, from any initial values of the package-level variables:
   every request shows exactly what it shows as the only request of a fresh process (no memo between requests) *)
Theorem record_history_independent : forall rs g,
  map summary (handle_all rec_funcs g rs) = map (fun r => summary (handle [] r)) rs.
Proof. exact C06.RecordProofs.record_history_independent. Qed.
Theorem serve_state_untouched : forall g r, o_glob (handle g r) = g.
Proof. exact C06.RecordProofs.serve_state_untouched. Qed.

(* signinit.Init alone (lib/audit inlined by its calls): the state it leaves, for every request it accepts *)
Theorem init_state : forall r g fr,
  init_succeeds r = true ->
  stage_init (world_of r) rec_funcs (init_args r) (mkState (heap0 r) 100 g fr [])
  = Done (VTuple [VRef a_bundle; VRef 102; VNil]) (after_init r (init_slots r) (ts_val r) g fr).
Proof. exact C06.RecordProofs.init_state. Qed.
Theorem init_identity : forall r, sig_identity (init_slots r) = spec_signature r.
Proof. exact C06.RecordProofs.init_identity. Qed.

(* the standalone command *)
Theorem cmd_summary : forall r,
  summary (cmd r) = (if init_succeeds r then cmd_spec r (init_slots r) else silent) /\ o_glob (cmd r) = cmd_globals r.
Proof. exact C06.RecordProofs.cmd_summary. Qed.
Theorem cmd_record_names_what_was_used : forall r,
  sm_ok (summary (cmd r)) = true -> signed_with (cmd r) <> [] ->
  let o := cmd r in
  signed_with o = [VRef a_bundle] /\
  (if c_file r then exists rc, file_records o = [(rc, true)] /\ identity_of rc = spec_cmd r /\ late_no_bad rc = true else file_records o = []) /\
  (if c_amqp r then exists rc, amqp_records o = [(rc, true)] /\ identity_of rc = spec_cmd r /\ late_no_bad rc = true else amqp_records o = []).
Proof. exact C06.RecordProofs.cmd_record_names_what_was_used. Qed.

(* what srcgen reads off the source is what was reviewed: package-level variables of lib/audit (none), internal/signinit,
   internal/authmodel; the call sites of audit.New / SetX509Cert / SetPgpCert / PublishAudit and their first arguments; the
   writers of identity attributes (no signer module among them; every key a literal); the origin of keyName, filename, hash,
   mod, tok, flags, userInfo; nothing left untranslated *)
Theorem state_inventory_reviewed : rec_pkg_vars = map zs2 reviewed_pkg_vars.
Proof. exact C06.RecordProofs.state_inventory_reviewed. Qed.
Theorem setter_calls_reviewed : setter_calls = map zs4 reviewed_setter_calls.
Proof. exact C06.RecordProofs.setter_calls_reviewed. Qed.
Theorem identity_writers_reviewed :
  identity_writers = map zs3 reviewed_identity_writers /\ forallb (fun w => negb (bytes_eqb (snd w) q_mark)) attr_writes = true.
Proof. exact C06.RecordProofs.identity_writers_reviewed. Qed.
Theorem preludes_reviewed : servesign_prelude = reviewed_servesign_prelude /\ signcmd_prelude = reviewed_signcmd_prelude.
Proof. exact C06.RecordProofs.preludes_reviewed. Qed.
Theorem everything_translated : rec_untranslated = [].
Proof. exact C06.RecordProofs.everything_translated. Qed.
Theorem hash_names_are_the_registered_ones : forall h, hash_name_of h hash_names = spec_hash_name h.
Proof. exact C06.RecordProofs.hash_names_are_the_registered_ones. Qed.

(* ---- non-vacuity *)
Example server_request_answered :
  responded (handle [] req_a) = [VStr blob_a] /\ init_succeeds req_a = true /\
  map (fun p => identity_of (fst p)) (file_records (handle [] req_a)) = [spec_server req_a].
Proof. exact C06.RecordProofs.server_request_answered. Qed.
Example staged_is_mono :
  summary (handle [] req_b) = summary (run_mono rec_funcs n_serve req_b [] (serve_frame req_b)) /\
  summary (cmd req_b) = summary (run_mono rec_funcs n_cmd req_b (cmd_globals req_b) (cmd_frame req_b)).
Proof. exact C06.RecordProofs.staged_is_mono. Qed.
(* the class of change this decides: the three strings of SetX509Cert memoised per public key *)
Example memo_names_the_first_certificate :
  let os := handle_all memo_funcs [] [req_a; req_b; req_a] in
  map x509_named os = [[spec_x509 cert_a]; [spec_x509 cert_a]; [spec_x509 cert_a]]
  /\ map responded os = [[VStr blob_a]; [VStr blob_a]; [VStr blob_a]]
  /\ map x509_named (handle_all rec_funcs [] [req_a; req_b; req_a]) = [[spec_x509 cert_a]; [spec_x509 cert_b]; [spec_x509 cert_a]]
  /\ (forall o, In o os -> o_glob o <> []).
Proof. exact C06.RecordProofs.memo_names_the_first_certificate. Qed.
