(* C06/Properties.v — property theorems only. *)
From Relic Require Import Base.Prelude Generated.C06_gen C06.Model C06.Proofs.
From Coq Require Import Permutation.

(* server: a response carrying a signature is preceded by exactly one delivered record per configured sink,
   made after the signature was computed, for every combination of sink configuration and sink faults *)
Theorem audit_before_response : forall init_ok sign_ok s,
  responds_200 (serve_sign init_ok sign_ok s) = true ->
  let pre := before_200 (serve_sign init_ok sign_ok s) in
  count_ok_amqp pre = nb (amqp_configured s) /\ count_ok_append pre = nb (file_configured s) /\
  In (ESign true) pre /\ init_ok = true /\ sign_ok = true.
Proof. exact C06.Proofs.audit_before_response. Qed.

(* if any configured sink fails, the signature is not returned *)
Theorem sink_failure_blocks : forall init_ok sign_ok s,
  (amqp_configured s = true /\ amqp_ok s = false) \/ (file_configured s = true /\ file_ok s = false) ->
  responds_200 (serve_sign init_ok sign_ok s) = false.
Proof. exact C06.Proofs.sink_failure_blocks. Qed.

Theorem all_ok_responds : forall s,
  (amqp_configured s = true -> amqp_ok s = true) -> (file_configured s = true -> file_ok s = true) ->
  responds_200 (serve_sign true true s) = true.
Proof. exact C06.Proofs.all_ok_responds. Qed.

(* standalone: successful completion has produced exactly one record per configured sink *)
Theorem standalone_success_audited : forall init_ok sign_ok apply_ok s e,
  sign_cmd init_ok sign_ok apply_ok s = (e, true) ->
  count_ok_amqp e = nb (amqp_configured s) /\ count_ok_append e = nb (file_configured s) /\ In (ESign true) e.
Proof. exact C06.Proofs.standalone_success_audited. Qed.

(* the same for EVERY order in which PublishAudit might try the two sinks, and every subset of failing sinks:
   a later successful sink can never make up for an earlier failure, nor an earlier success for a later failure *)
Theorem sink_failure_blocks_every_order : forall pc init_ok sign_ok s,
  In 0 pc -> In 1 pc ->
  (amqp_configured s = true /\ amqp_ok s = false) \/ (file_configured s = true /\ file_ok s = false) ->
  responds_200 (serve_p pc serve_calls init_ok sign_ok s) = false.
Proof. exact C06.Proofs.sink_failure_blocks_every_order. Qed.

Theorem audit_before_response_every_order : forall pc init_ok sign_ok s,
  Permutation [0; 1] pc ->
  responds_200 (serve_p pc serve_calls init_ok sign_ok s) = true ->
  let pre := before_200 (serve_p pc serve_calls init_ok sign_ok s) in
  count_ok_amqp pre = nb (amqp_configured s) /\ count_ok_append pre = nb (file_configured s) /\
  In (ESign true) pre /\ init_ok = true /\ sign_ok = true.
Proof. exact C06.Proofs.audit_before_response_every_order. Qed.

(* PublishAudit, any order: it fails iff an attempted delivery failed, and nothing is attempted after a failure
   (so which sinks hold a record of a refused request is determined by the order srcgen reads from the source) *)
Theorem publish_result : forall pc s, snd (publish pc s) = negb (existsb is_failed_sink (fst (publish pc s))).
Proof. exact C06.Proofs.publish_result. Qed.
Theorem publish_stops : forall pc s, stops_at_failure (fst (publish pc s)) = true.
Proof. exact C06.Proofs.publish_stops. Qed.

(* no duplicates: one request yields at most one record per sink, one connection to the broker, one response *)
Theorem at_most_one_record : forall init_ok sign_ok s,
  let t := serve_sign init_ok sign_ok s in
  (count_ok_amqp t <= 1)%nat /\ (count_ok_append t <= 1)%nat /\ (count_200 t <= 1)%nat /\
  (attempts_amqp t <= 1)%nat /\ (attempts_append t <= 1)%nat.
Proof. exact C06.Proofs.at_most_one_record. Qed.

(* over any sequence of requests (each with its own faults): every returned signature is covered by a record in each
   configured sink; and while the sinks are healthy  #file records = #broker messages = #signatures returned *)
Theorem responses_covered_by_records : forall ac fc rs,
  let t := serve_all ac fc rs in
  (nb ac * count_200 t <= count_ok_amqp t)%nat /\ (nb fc * count_200 t <= count_ok_append t)%nat.
Proof. exact C06.Proofs.responses_covered_by_records. Qed.
Theorem records_equal_responses : forall ac fc rs,
  forallb healthy rs = true ->
  let t := serve_all ac fc rs in
  count_ok_amqp t = (nb ac * count_200 t)%nat /\ count_ok_append t = (nb fc * count_200 t)%nat.
Proof. exact C06.Proofs.records_equal_responses. Qed.

(* standalone: a failing sink makes the command fail (the artefact is already written: EApply precedes, see Example) *)
Theorem standalone_sink_failure_fails : forall init_ok sign_ok apply_ok s,
  (amqp_configured s = true /\ amqp_ok s = false) \/ (file_configured s = true /\ file_ok s = false) ->
  snd (sign_cmd init_ok sign_ok apply_ok s) = false.
Proof. exact C06.Proofs.standalone_sink_failure_fails. Qed.

(* one write system call per record (generated call table of AppendTo) *)
Theorem single_write_per_record : append_writes = 1.
Proof. exact C06.Proofs.single_write_per_record. Qed.

(* under any interleaving of concurrent writers the audit file is exactly one complete record per line *)
Theorem log_interleaving : forall records order,
  Permutation order records -> Forall (fun r => no_nl r = true) records ->
  Permutation (lines (log_of order)) records.
Proof. exact C06.Proofs.log_interleaving. Qed.

Example both_sinks_file_fails :
  serve_sign true true (mkSinks true true true false) = [ESign true; EAmqp true; EAppend false; ERespond 500] /\
  serve_sign true true (mkSinks false true true true) = [ESign true; EAppend true; ERespond 200].
Proof. split; reflexivity. Qed.

(* the code's order is AMQP first: with the file failing and a healthy broker the broker HOLDS a record of the refused
   request (a record without a signature is allowed; a signature without a record is not), and with the broker failing
   the file is not even tried *)
Example record_without_signature :
  let t := serve_sign true true (mkSinks true true true false) in
  responds_200 t = false /\ count_ok_amqp t = 1%nat /\ count_ok_append t = 0%nat /\ attempts_append t = 1%nat.
Proof. repeat split; reflexivity. Qed.
Example broker_failure_skips_file :
  let t := serve_sign true true (mkSinks true true false true) in
  responds_200 t = false /\ attempts_amqp t = 1%nat /\ attempts_append t = 0%nat.
Proof. repeat split; reflexivity. Qed.
Example standalone_sink_failure_after_apply :
  sign_cmd true true true (mkSinks true true true false) = ([ESign true; EApply; EAmqp true; EAppend false], false).
Proof. reflexivity. Qed.
Example healthy_batch :
  let t := serve_all true true [mkReq true true true true; mkReq true false true true; mkReq true true true true] in
  count_200 t = 2%nat /\ count_ok_amqp t = 2%nat /\ count_ok_append t = 2%nat.
Proof. repeat split; reflexivity. Qed.
