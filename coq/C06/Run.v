(* C06/Run.v — input [mode init_ok sign_ok apply_ok amqp_conf file_conf amqp_ok file_ok]; mode 0 server, 1 standalone
   output [responds_200_or_success ok_amqp_records ok_file_records] *)
From Relic Require Import Base.Prelude Base.Val Generated.C06_gen C06.Model.
Definition run (v : val) : val :=
  let b n := vbool (vnth n v) in
  let s := mkSinks (b 4%nat) (b 5%nat) (b 6%nat) (b 7%nat) in
  if vz (vnth 0 v) =? 0 then
    let t := serve_sign (b 1%nat) (b 2%nat) s in
    VL [of_bool (responds_200 t); VZ (Z.of_nat (count_ok_amqp t)); VZ (Z.of_nat (count_ok_append t))]
  else
    let '(t, ok) := sign_cmd (b 1%nat) (b 2%nat) (b 3%nat) s in
    VL [of_bool ok; VZ (Z.of_nat (count_ok_amqp t)); VZ (Z.of_nat (count_ok_append t))].
