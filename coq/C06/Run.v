(* C06/Run.v — input [mode ...]
   mode 0 (server) / 1 (standalone): [mode init_ok sign_ok apply_ok amqp_conf file_conf amqp_ok file_ok]
     output [responds_200_or_success ok_amqp_records ok_file_records amqp_attempts file_attempts]
   mode 2 (a sequence of server requests on one configuration): [2 amqp_conf file_conf [[init_ok sign_ok amqp_ok file_ok] ...]]
     output [count_200 ok_amqp_records ok_file_records amqp_attempts] *)
From Relic Require Import Base.Prelude Base.Val Generated.C06_gen C06.Model.
Definition nz (n : nat) : val := VZ (Z.of_nat n).
Definition run_trace (v : val) : val :=
  let b n := vbool (vnth n v) in
  let mode := vz (vnth 0 v) in
  if mode =? 2 then
    let rs := map (fun r => mkReq (vbool (vnth 0 r)) (vbool (vnth 1 r)) (vbool (vnth 2 r)) (vbool (vnth 3 r))) (vl (vnth 3 v)) in
    let t := serve_all (b 1%nat) (b 2%nat) rs in
    VL [nz (count_200 t); nz (count_ok_amqp t); nz (count_ok_append t); nz (attempts_amqp t)]
  else
  let s := mkSinks (b 4%nat) (b 5%nat) (b 6%nat) (b 7%nat) in
  if mode =? 0 then
    let t := serve_sign (b 1%nat) (b 2%nat) s in
    VL [of_bool (responds_200 t); nz (count_ok_amqp t); nz (count_ok_append t); nz (attempts_amqp t); nz (attempts_append t)]
  else
    let '(t, ok) := sign_cmd (b 1%nat) (b 2%nat) (b 3%nat) s in
    VL [of_bool ok; nz (count_ok_amqp t); nz (count_ok_append t); nz (attempts_amqp t); nz (attempts_append t)].

(* ---- system-call level (C06/Append.v)
   mode 3 (one AppendTo call): [3 J fail_k open_ok marshal_ok short] — record of J bytes, the fail_k-th write(2) fails (-1: none),
     short > 0: the first write(2) takes only that many bytes
     output [ret sizes oks ends_with_lf bad]   ret: 1 returned nil, 0 returned an error, 2 did not return
   mode 4 (concurrent appenders): [4 [[J ...] ...] [appender ...]] — per appender the lengths of the records it appends one
     after the other; the schedule names the appender that performs the next write(2)
     output [1 line_lengths torn_tail_length] or [0] when the schedule does not fit the appenders' system calls *)
From Relic Require Import C06.Append.
Definition rec_of (j : Z) : bytes := repeat 120 (Z.to_nat j).
Definition ends_lf (c : bytes) : Z := if last c 0 =? 10 then 1 else 0.
Definition run3 (v : val) : val :=
  let k := vz (vnth 2 v) in
  let sh := vz (vnth 5 v) in   (* > 0: the first write(2) takes only that many bytes *)
  let E := mkEnv (vbool (vnth 3 v)) (vbool (vnth 4 v)) (fun n => Z.of_nat n =? k)
                 (fun n => if (Nat.eqb n 0) && (0 <? sh) then Some sh else None) in
  let s := run_append E (rec_of (vz (vnth 1 v))) in
  VL [VZ (match s_ret s with Some true => 1 | Some false => 0 | None => 2 end);
      VZs (map (fun c : syscall => zlen (fst c)) (s_sys s)); VZs (map (fun c : syscall => if snd c then 1 else 0) (s_sys s));
      VZs (map (fun c : syscall => ends_lf (fst c)) (s_sys s)); of_bool (s_bad s)].
Definition run4 (v : val) : val :=
  let ws := map (fun w => concat (map (fun j => emit_prog (rec_of (vz j))) (vl w))) (vl (vnth 1 v)) in
  match sched_run ws (map (fun i => Z.to_nat (vz i)) (vl (vnth 2 v))) with
  | None => VL [VZ 0]
  | Some evs => let '(ls, tail) := spec_lines (file_after append_open_append evs) in
                VL [VZ 1; VZs (map (fun l : bytes => zlen l) ls); VZ (zlen tail)]
  end.
Definition run_old (v : val) : val :=
  let mode := vz (vnth 0 v) in
  if mode =? 3 then run3 v else if mode =? 4 then run4 v else run_trace v.

(* ---- the content of the audit record (C06/Record.v)
   mode 5 (a history of requests in one server process): [5 [req ...]] with
     req = [key sigtype hash filename remote user no_ts section leaf pgp needs_x509 needs_pgp amqp_conf file_conf host kind now size sign_ok]
     user = [0 name dn] (certificate) ; leaf = [] or [[raw subject issuer spki tbs]] ; pgp = [] or [[fingerprint keyid name]]
     kind: 0 bare blob, 1 binary patch, 2 PKCS#7
   output per request: [answered file_records amqp_records] ; a record is the list of its present attributes [key term]
   terms: [0 bytes] string, [1 z] number, [2 f [args]] value of function f, [3 t] time, [4 [..]] tuple, [5 ty [[k v]..]] struct,
          [6] nil, [7 b] boolean, [9] something the model could not evaluate *)
From Relic Require Import Generated.C06rec_gen C06.Record.
Fixpoint term_of (fuel : nat) (v : value) : val :=
  match fuel with
  | O => VL [VZ 9]
  | S f =>
      match v with
      | VStr b => VL [VZ 0; VB b]
      | VInt z => VL [VZ 1; VZ z]
      | VSym g args => VL [VZ 2; VB g; VL (map (term_of f) args)]
      | VTime t => VL [VZ 3; VZ t]
      | VTuple l => VL [VZ 4; VL (map (term_of f) l)]
      | VStruct ty fs => VL [VZ 5; VB ty; VL (map (fun kv : bytes * value => VL [VB (fst kv); term_of f (snd kv)]) fs)]
      | VNil => VL [VZ 6]
      | VBool b => VL [VZ 7; of_bool b]
      | _ => VL [VZ 9]
      end
  end.
Definition record_val (p : value * bool) : val :=
  match fst p with
  | VAttrs sl => VL (flat_map (fun s : bytes * (bool * value) => if fst (snd s) then [VL [VB (fst s); term_of 8 (snd (snd s))]] else []) sl)
  | _ => VL [VL [VB []; VL [VZ 9]]]
  end.
Definition req_of (v : val) : request :=
  let b n := vb (vnth n v) in
  let z n := vz (vnth n v) in
  let t n := vbool (vnth n v) in
  let u := vnth 5 v in
  let leaf := match vl (vnth 8 v) with c :: _ => Some (mkCert (vb (vnth 0 c)) (vb (vnth 1 c)) (vb (vnth 2 c)) (vb (vnth 3 c)) (vb (vnth 4 c))) | [] => None end in
  let pgp := match vl (vnth 9 v) with e :: _ => Some (mkEntity (vb (vnth 0 e)) (vb (vnth 1 e)) (vb (vnth 2 e))) | [] => None end in
  let kind := if z 15%nat =? 1 then KBinPatch else if z 15%nat =? 2 then KPkcs7 None else KPlain in
  mkRequest (b 0%nat) (b 1%nat) (z 2%nat) (b 3%nat) (b 4%nat) (UCert (vb (vnth 1 u)) (vb (vnth 2 u))) (t 6%nat)
        true (b 7%nat) leaf pgp false [] (t 10%nat) (t 11%nat) false false false (t 12%nat) (t 13%nat) [] [] false
        (z 16%nat) (b 14%nat) true (t 18%nat) kind [] (z 17%nat) true true false false.
Definition run5 (v : val) : val :=
  VL (map (fun o : outcome => VL [of_bool (match responded o with [] => false | _ => true end);
                                  VL (map record_val (file_records o)); VL (map record_val (amqp_records o));
                                  VB (o_why o)])
          (handle_all rec_funcs [] (map req_of (vl (vnth 1 v))))).
Definition run (v : val) : val := if vz (vnth 0 v) =? 5 then run5 v else run_old v.
