(* C06/Run.v — input [mode ...]
   mode 0 (server) / 1 (standalone): [mode init_ok sign_ok apply_ok amqp_conf file_conf amqp_ok file_ok]
     output [responds_200_or_success ok_amqp_records ok_file_records amqp_attempts file_attempts]
   mode 2 (a sequence of server requests on one configuration): [2 amqp_conf file_conf [[init_ok sign_ok amqp_ok file_ok] ...]]
     output [count_200 ok_amqp_records ok_file_records amqp_attempts] *)
From Relic Require Import Base.Prelude Base.Val Generated.C06_gen C06.Model.
Definition nz (n : nat) : val := VZ (Z.of_nat n).
Definition run_trace (v : val) : val :=
  let b n := vbool (vnth n v) in
  let mode := vz (vnth 0 v) in
  if mode =? 2 then
    let rs := map (fun r => mkReq (vbool (vnth 0 r)) (vbool (vnth 1 r)) (vbool (vnth 2 r)) (vbool (vnth 3 r))) (vl (vnth 3 v)) in
    let t := serve_all (b 1%nat) (b 2%nat) rs in
    VL [nz (count_200 t); nz (count_ok_amqp t); nz (count_ok_append t); nz (attempts_amqp t)]
  else
  let s := mkSinks (b 4%nat) (b 5%nat) (b 6%nat) (b 7%nat) in
  if mode =? 0 then
    let t := serve_sign (b 1%nat) (b 2%nat) s in
    VL [of_bool (responds_200 t); nz (count_ok_amqp t); nz (count_ok_append t); nz (attempts_amqp t); nz (attempts_append t)]
  else
    let '(t, ok) := sign_cmd (b 1%nat) (b 2%nat) (b 3%nat) s in
    VL [of_bool ok; nz (count_ok_amqp t); nz (count_ok_append t); nz (attempts_amqp t); nz (attempts_append t)].

(* ---- system-call level (C06/Append.v)
   mode 3 (one AppendTo call): [3 J fail_k open_ok marshal_ok short] — record of J bytes, the fail_k-th write(2) fails (-1: none),
     short > 0: the first write(2) takes only that many bytes
     output [ret sizes oks ends_with_lf bad]   ret: 1 returned nil, 0 returned an error, 2 did not return
   mode 4 (concurrent appenders): [4 [[J ...] ...] [appender ...]] — per appender the lengths of the records it appends one
     after the other; the schedule names the appender that performs the next write(2)
     output [1 line_lengths torn_tail_length] or [0] when the schedule does not fit the appenders' system calls *)
From Relic Require Import C06.Append.
Definition rec_of (j : Z) : bytes := repeat 120 (Z.to_nat j).
Definition ends_lf (c : bytes) : Z := if last c 0 =? 10 then 1 else 0.
Definition run3 (v : val) : val :=
  let k := vz (vnth 2 v) in
  let sh := vz (vnth 5 v) in   (* > 0: the first write(2) takes only that many bytes *)
  let E := mkEnv (vbool (vnth 3 v)) (vbool (vnth 4 v)) (fun n => Z.of_nat n =? k)
                 (fun n => if (Nat.eqb n 0) && (0 <? sh) then Some sh else None) in
  let s := run_append E (rec_of (vz (vnth 1 v))) in
  VL [VZ (match s_ret s with Some true => 1 | Some false => 0 | None => 2 end);
      VZs (map (fun c : syscall => zlen (fst c)) (s_sys s)); VZs (map (fun c : syscall => if snd c then 1 else 0) (s_sys s));
      VZs (map (fun c : syscall => ends_lf (fst c)) (s_sys s)); of_bool (s_bad s)].
Definition run4 (v : val) : val :=
  let ws := map (fun w => concat (map (fun j => emit_prog (rec_of (vz j))) (vl w))) (vl (vnth 1 v)) in
  match sched_run ws (map (fun i => Z.to_nat (vz i)) (vl (vnth 2 v))) with
  | None => VL [VZ 0]
  | Some evs => let '(ls, tail) := spec_lines (file_after append_open_append evs) in
                VL [VZ 1; VZs (map (fun l : bytes => zlen l) ls); VZ (zlen tail)]
  end.
Definition run (v : val) : val :=
  let mode := vz (vnth 0 v) in
  if mode =? 3 then run3 v else if mode =? 4 then run4 v else run_trace v.
