(* C06/Run.v — input [mode ...]
   mode 0 (server) / 1 (standalone): [mode init_ok sign_ok apply_ok amqp_conf file_conf amqp_ok file_ok]
     output [responds_200_or_success ok_amqp_records ok_file_records amqp_attempts file_attempts]
   mode 2 (a sequence of server requests on one configuration): [2 amqp_conf file_conf [[init_ok sign_ok amqp_ok file_ok] ...]]
     output [count_200 ok_amqp_records ok_file_records amqp_attempts] *)
From Relic Require Import Base.Prelude Base.Val Generated.C06_gen C06.Model.
Definition nz (n : nat) : val := VZ (Z.of_nat n).
Definition run (v : val) : val :=
  let b n := vbool (vnth n v) in
  let mode := vz (vnth 0 v) in
  if mode =? 2 then
    let rs := map (fun r => mkReq (vbool (vnth 0 r)) (vbool (vnth 1 r)) (vbool (vnth 2 r)) (vbool (vnth 3 r))) (vl (vnth 3 v)) in
    let t := serve_all (b 1%nat) (b 2%nat) rs in
    VL [nz (count_200 t); nz (count_ok_amqp t); nz (count_ok_append t); nz (attempts_amqp t)]
  else
  let s := mkSinks (b 4%nat) (b 5%nat) (b 6%nat) (b 7%nat) in
  if mode =? 0 then
    let t := serve_sign (b 1%nat) (b 2%nat) s in
    VL [of_bool (responds_200 t); nz (count_ok_amqp t); nz (count_ok_append t); nz (attempts_amqp t); nz (attempts_append t)]
  else
    let '(t, ok) := sign_cmd (b 1%nat) (b 2%nat) (b 3%nat) s in
    VL [of_bool ok; nz (count_ok_amqp t); nz (count_ok_append t); nz (attempts_amqp t); nz (attempts_append t)].
