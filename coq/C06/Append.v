(* C06/Append.v — lib/audit Info.AppendTo at the level of system calls, and the audit file under concurrent appenders.

   [append_prog] (Generated/C06_gen.v) is AppendTo translated statement by statement: which writer every byte of the
   record goes through, how many Write / WriteByte / Flush calls, what is checked, every branch on the record length,
   the open(2) flags. This file gives that program its meaning: os.File.Write (one write(2) per call, split only above
   the runtime's cap os_max_rw), bufio.Writer (Write / WriteByte / Flush exactly as in GOROOT/src/bufio/bufio.go,
   including the "large write, empty buffer" bypass), a fault oracle for open / marshal / the k-th write(2); and the
   file as the result of ANY interleaving of the write(2) calls of any number of appenders.
   Executable definitions only; SPEC functions (written from the property text) are at the end. *)
From Relic Require Import Base.Prelude Generated.C06_gen C06.Model.
From Coq Require Import Permutation.

(* ---- slicing with a Z counter (no unary numbers: the cap is 2^30) *)
Fixpoint take_z (n : Z) (l : bytes) : bytes :=
  match l with [] => [] | x :: r => if n <=? 0 then [] else x :: take_z (n - 1) r end.
Fixpoint drop_z (n : Z) (l : bytes) : bytes :=
  match l with [] => [] | x :: r => if n <=? 0 then l else drop_z (n - 1) r end.

(* ---- environment: what can fail *)
Record env := mkEnv {
  e_open_ok : bool;            (* os.OpenFile succeeds *)
  e_marshal_ok : bool;         (* info.Marshal succeeds *)
  e_fail : nat -> bool;        (* the k-th write(2) issued on the audit descriptor fails (ENOSPC, EIO, ...) *)
  e_short : nat -> option Z }. (* the k-th write(2) takes only the first n bytes (disk filling up, file size limit) *)
Definition healthy_env : env := mkEnv true true (fun _ => false) (fun _ => None).

Definition syscall := (bytes * bool)%type.     (* payload handed to write(2), did it succeed *)

(* os.File.Write -> poll.FD.Write: one write(2) per call, except that at most os_max_rw bytes go into one call.
   A failing call ends the loop; after a short write the loop calls write(2) again with the rest (one short write per
   Write is modelled; the call after it takes everything or fails). *)
Fixpoint fd_write_chunks (fuel : nat) (fails : nat -> bool) (p : bytes) (sys : list syscall) : list syscall * bool :=
  let c := take_z os_max_rw p in
  let rest := drop_z os_max_rw p in
  if fails (length sys) then (sys ++ [(c, false)], false)
  else match rest, fuel with
       | [], _ => (sys ++ [(c, true)], true)
       | _, O => (sys ++ [(c, true)], false)
       | _, S f => fd_write_chunks f fails rest (sys ++ [(c, true)])
       end.
Definition fd_write (fails : nat -> bool) (short : nat -> option Z) (p : bytes) (sys : list syscall) : list syscall * bool :=
  if zlen p <=? os_max_rw then
    let ok := negb (fails (length sys)) in
    match short (length sys) with
    | Some n =>
        if ok && (0 <? n) && (n <? zlen p) then
          let sys1 := sys ++ [(take_z n p, true)] in
          let ok2 := negb (fails (length sys1)) in (sys1 ++ [(drop_z n p, ok2)], ok2)
        else (sys ++ [(p, ok)], ok)
    | None => (sys ++ [(p, ok)], ok)
    end
  else fd_write_chunks (length p) fails p sys.

(* ---- bufio.Writer over the file *)
Record bw := mkBw { bw_id : Z; bw_size : Z; bw_buf : bytes; bw_err : bool }.
Definition bw_avail (b : bw) : Z := bw_size b - zlen (bw_buf b).
Definition bw_set_buf (b : bw) (buf : bytes) : bw := mkBw (bw_id b) (bw_size b) buf (bw_err b).
Definition bw_set_err (b : bw) (e : bool) : bw := mkBw (bw_id b) (bw_size b) (bw_buf b) e.

Definition uwrite := bytes -> list syscall -> list syscall * bool.

(* func (b *Writer) Flush() error *)
Definition bw_flush (uw : uwrite) (b : bw) (sys : list syscall) : bw * list syscall * bool :=
  if bw_err b then (b, sys, false)
  else if zlen (bw_buf b) =? 0 then (b, sys, true)
  else let '(sys', ok) := uw (bw_buf b) sys in
       if ok then (bw_set_buf b [], sys', true) else (bw_set_err b true, sys', false).

(* func (b *Writer) Write(p []byte): the loop `for len(p) > b.Available() && b.err == nil` runs at most twice
   (fill + flush, then either the bypass or a plain copy); it is unrolled here *)
Definition bw_write (uw : uwrite) (b : bw) (p : bytes) (sys : list syscall) : bw * list syscall * bool :=
  if (zlen p >? bw_avail b) && negb (bw_err b) then
    if zlen (bw_buf b) =? 0 then
      (* large write, empty buffer: written directly from p, the buffer is bypassed *)
      let '(sys', ok) := uw p sys in (bw_set_err b (negb ok), sys', ok)
    else
      let n := bw_avail b in
      let '(b2, sys2, _) := bw_flush uw (bw_set_buf b (bw_buf b ++ take_z n p)) sys in
      let p' := drop_z n p in
      if (zlen p' >? bw_avail b2) && negb (bw_err b2) then
        let '(sys3, ok3) := uw p' sys2 in (bw_set_err b2 (negb ok3), sys3, ok3)
      else if bw_err b2 then (b2, sys2, false)
      else (bw_set_buf b2 (bw_buf b2 ++ p'), sys2, true)
  else if bw_err b then (b, sys, false)
  else (bw_set_buf b (bw_buf b ++ p), sys, true).

(* func (b *Writer) WriteByte(c byte) error *)
Definition bw_write_byte (uw : uwrite) (b : bw) (c : Z) (sys : list syscall) : bw * list syscall * bool :=
  if bw_err b then (b, sys, false)
  else if bw_avail b <=? 0 then
    let '(b1, sys1, ok1) := bw_flush uw b sys in
    if ok1 then (bw_set_buf b1 (bw_buf b1 ++ [c]), sys1, true) else (b1, sys1, false)
  else (bw_set_buf b (bw_buf b ++ [c]), sys, true).

(* ---- the state of one AppendTo call *)
Record st := mkSt {
  s_blob : bytes;               (* the record buffer *)
  s_file : bool;                (* the descriptor is valid *)
  s_ws : list bw;               (* buffered writers created so far *)
  s_sys : list syscall;         (* write(2) calls issued on the audit descriptor, oldest first *)
  s_ret : option bool;          (* Some true: returned nil; Some false: returned an error *)
  s_bad : bool }.               (* the program refers to a writer that does not exist *)
Definition st0 : st := mkSt [] false [] [] None false.
Definition set_blob s b := mkSt b (s_file s) (s_ws s) (s_sys s) (s_ret s) (s_bad s).
Definition set_file s f := mkSt (s_blob s) f (s_ws s) (s_sys s) (s_ret s) (s_bad s).
Definition set_ws s w := mkSt (s_blob s) (s_file s) w (s_sys s) (s_ret s) (s_bad s).
Definition set_sys s y := mkSt (s_blob s) (s_file s) (s_ws s) y (s_ret s) (s_bad s).
Definition set_ret s r := mkSt (s_blob s) (s_file s) (s_ws s) (s_sys s) r (s_bad s).
Definition set_bad s := mkSt (s_blob s) (s_file s) (s_ws s) (s_sys s) (s_ret s) true.

(* what the code does with an error result (see the generated comment on chk) *)
Definition after_chk (chk : Z) (ok : bool) (s : st) : st :=
  if chk =? 1 then (if ok then s else set_ret s (Some false))
  else if chk =? 2 then (if ok then set_ret s (Some false) else s)
  else if chk =? 3 then (if ok then s else set_ret s (Some true))
  else s.

Definition payload_bytes (blob : bytes) (p : list apiece) : bytes :=
  flat_map (fun x => match x with PBlob => blob | PByte b => [b] end) p.

(* Write on the file itself: a nil *os.File (failed open whose error was not acted on) returns ErrInvalid, no system call *)
Definition file_uw (E : env) (valid : bool) : uwrite :=
  fun p sys => if valid then fd_write (e_fail E) (e_short E) p sys else (sys, false).

Fixpoint find_bw (w : Z) (l : list bw) : option bw :=
  match l with [] => None | b :: r => if bw_id b =? w then Some b else find_bw w r end.
Fixpoint put_bw (b : bw) (l : list bw) : list bw :=
  match l with [] => [b] | x :: r => if bw_id x =? bw_id b then b :: r else x :: put_bw b r end.

Definition cmp_holds (c : acmp) (a b : Z) : bool :=
  match c with CLt => a <? b | CLe => a <=? b | CGt => a >? b | CGe => a >=? b | CEq => a =? b | CNe => negb (a =? b) end.

Definition with_bw (s : st) (w : Z) (f : bw -> bw * list syscall * bool) (chk : Z) : st :=
  match find_bw w (s_ws s) with
  | None => set_bad s
  | Some b => let '(b', sys', ok) := f b in after_chk chk ok (set_sys (set_ws s (put_bw b' (s_ws s))) sys')
  end.

Fixpoint exec_op (E : env) (r : bytes) (o : aop) (s : st) : st :=
  match s_ret s with
  | Some _ => s
  | None =>
    match o with
    | AOpen chk => after_chk chk (e_open_ok E) (set_file s (e_open_ok E))
    | AMarshal chk => after_chk chk (e_marshal_ok E) (set_blob s (if e_marshal_ok E then r else []))
    | AAppend lit => set_blob s (s_blob s ++ lit)
    | ANewWriter w under size =>
        if under =? 0 then set_ws s (put_bw (mkBw w (if size <=? 0 then bufio_default_size else size) [] false) (s_ws s))
        else set_bad s
    | AWrite w p chk =>
        let data := payload_bytes (s_blob s) p in
        if w =? 0 then let '(sys', ok) := file_uw E (s_file s) data (s_sys s) in after_chk chk ok (set_sys s sys')
        else with_bw s w (fun b => bw_write (file_uw E (s_file s)) b data (s_sys s)) chk
    | AWriteByte w c chk => with_bw s w (fun b => bw_write_byte (file_uw E (s_file s)) b c (s_sys s)) chk
    | AFlush w chk => with_bw s w (fun b => bw_flush (file_uw E (s_file s)) b (s_sys s)) chk
    | AIf c k n t e =>
        (fix go (l : list aop) (s : st) : st := match l with [] => s | x :: l' => go l' (exec_op E r x s) end)
          (if cmp_holds c (zlen (s_blob s) + k) n then t else e) s
    | AReturn ok => set_ret s (Some ok)
    end
  end.
Definition exec (E : env) (r : bytes) (p : list aop) (s : st) : st := fold_left (fun s o => exec_op E r o s) p s.

(* one call of a program on record r (the JSON text, without line terminator) *)
Definition run_prog (p : list aop) (E : env) (r : bytes) : st := exec E r p st0.
Definition run_append := run_prog append_prog.
(* the write(2) payloads of one record when nothing fails *)
Definition emit_of (p : list aop) (r : bytes) : list bytes := map fst (s_sys (run_prog p healthy_env r)).
Definition emit_prog := emit_of append_prog.
(* bytes that reached the file *)
Definition written (s : st) : bytes := concat (map fst (filter snd (s_sys s))).

(* reference programs of the mechanism (not generated): the record and its terminator assembled in one buffer and handed
   to ONE Write on the file; and the same bytes through a buffered writer, terminator added with WriteByte, one Flush *)
Definition prog_single : list aop := [AOpen 1; AMarshal 1; AAppend [10]; AWrite 0 [PBlob] 1; AReturn true].
Definition prog_bufio (size : Z) : list aop :=
  [AOpen 1; AMarshal 1; ANewWriter 1 0 size; AWrite 1 [PBlob] 0; AWriteByte 1 10 0; AFlush 1 1; AReturn true].
Definition prog_two_writes : list aop := [AOpen 1; AMarshal 1; AWrite 0 [PBlob] 1; AWrite 0 [PByte 10] 1; AReturn true].

(* ---- concurrent appenders: interleavings of their write(2) calls
   ws: for every appender the sequence of payloads it will hand to write(2); an event is (appender, payload).
   Each system call is atomic; the calls of one appender keep their order; nothing else is assumed. *)
Inductive interleave : list (list bytes) -> list (nat * bytes) -> Prop :=
| il_nil : forall ws, Forall (fun w => w = []) ws -> interleave ws []
| il_cons : forall pre c rest post evs,
    interleave (pre ++ rest :: post) evs -> interleave (pre ++ (c :: rest) :: post) ((length pre, c) :: evs).

(* executable form: a schedule names the appender that performs the next system call *)
Fixpoint nth_pop (i : nat) (ws : list (list bytes)) : option (bytes * list (list bytes)) :=
  match ws, i with
  | [], _ => None
  | w :: r, O => match w with [] => None | c :: w' => Some (c, w' :: r) end
  | w :: r, S i' => match nth_pop i' r with Some (c, r') => Some (c, w :: r') | None => None end
  end.
Definition is_nil {A} (l : list A) : bool := match l with [] => true | _ => false end.
Fixpoint sched_run (ws : list (list bytes)) (sched : list nat) : option (list (nat * bytes)) :=
  match sched with
  | [] => if forallb is_nil ws then Some [] else None
  | i :: t => match nth_pop i ws with
              | None => None
              | Some (c, ws') => match sched_run ws' t with Some e => Some ((i, c) :: e) | None => None end
              end
  end.

(* the file after a sequence of write(2) events. With O_APPEND every call writes at the end of the file, whatever the
   descriptor's own offset. Without it every descriptor has its own offset, starting at 0 (each AppendTo opens the file
   anew), and writes over what is there. *)
Definition overlay (file : bytes) (off : Z) (c : bytes) : bytes :=
  take_z off file ++ repeat 0 (Z.to_nat (off - zlen file)) ++ c ++ drop_z (off + zlen c) file.
Fixpoint off_of (i : nat) (offs : list (nat * Z)) : Z :=
  match offs with [] => 0 | (j, o) :: r => if Nat.eqb i j then o else off_of i r end.
Fixpoint apply_events (oappend : bool) (evs : list (nat * bytes)) (file : bytes) (offs : list (nat * Z)) : bytes :=
  match evs with
  | [] => file
  | (i, c) :: r =>
      if oappend then apply_events oappend r (file ++ c) offs
      else let o := off_of i offs in apply_events oappend r (overlay file o c) ((i, o + zlen c) :: offs)
  end.
Definition file_after (oappend : bool) (evs : list (nat * bytes)) : bytes := apply_events oappend evs [] [].

Definition nonempty (l : list bytes) : list bytes := filter (fun c => negb (is_nil c)) l.

(* ---- SPEC (from the property text: "the audit file remains exactly one complete JSON object per line").
   Independent of the code above and of Model.lines: cut the file at every line feed, from the right; what follows the last
   line feed is a torn line. The file is well formed for a set of appended records when nothing is torn and the lines
   are exactly those records, each exactly once, in some order. (That a record is a JSON object and contains no raw line
   feed is a property of encoding/json's output; the harness checks it on every line of the real file.) *)
Fixpoint spec_lines (l : bytes) : list bytes * bytes :=
  match l with
  | [] => ([], [])
  | b :: r =>
      let '(ls, tail) := spec_lines r in
      if b =? 10 then ([] :: ls, tail)
      else match ls with
           | [] => ([], b :: tail)
           | first :: more => ((b :: first) :: more, tail)
           end
  end.
Definition spec_ok (records : list bytes) (file : bytes) : Prop :=
  exists ls, spec_lines file = (ls, []) /\ Permutation ls records.
