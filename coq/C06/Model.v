(* C06/Model.v — effect trace of a signing operation (server and standalone) and the audit log under concurrency.
   The order of effects is read from the call tables srcgen extracts from serveSign / signCmd / PublishAudit / AppendTo. *)
From Relic Require Import Base.Prelude Generated.C06_gen.

Inductive effect :=
| ESign (ok : bool)            (* mod.Sign ran *)
| EAmqp (ok : bool)            (* record published to the broker (or the attempt failed) *)
| EAppend (ok : bool)          (* record appended to the audit file (or the attempt failed) *)
| EApply                       (* standalone: result applied to the output file *)
| ERespond (code : Z).         (* server: HTTP response; 200 carries the signature *)

Record sinks := mkSinks { amqp_configured : bool; file_configured : bool; amqp_ok : bool; file_ok : bool }.

(* PublishAudit: sinks in the order of the generated table; stops at the first failure. Returns (effects, ok) *)
Fixpoint publish (calls : list Z) (s : sinks) : list effect * bool :=
  match calls with
  | [] => ([], true)
  | c :: r =>
      let '(used, ok, eff) :=
        if c =? 0 then (publish_uses_amqp (amqp_configured s), amqp_ok s, EAmqp (amqp_ok s))
        else (publish_uses_file (file_configured s), file_ok s, EAppend (file_ok s)) in
      if used then
        if ok then let '(e, k) := publish r s in (eff :: e, k) else ([eff], false)
      else publish r s
  end.

(* serveSign from Init on (authorisation is C04): walk the call table. [pc] is the order in which PublishAudit
   tries the sinks; the code's order is the generated table publish_calls *)
Fixpoint serve_p (pc : list Z) (calls : list Z) (init_ok sign_ok : bool) (s : sinks) : list effect :=
  match calls with
  | [] => []
  | c :: r =>
      if c =? 0 then (if init_ok then serve_p pc r init_ok sign_ok s else [ERespond 500])
      else if c =? 1 then (if sign_ok then ESign true :: serve_p pc r init_ok sign_ok s else [ESign false; ERespond 500])
      else if c =? 2 then (let '(e, ok) := publish pc s in if ok then e ++ serve_p pc r init_ok sign_ok s else e ++ [ERespond 500])
      else [ERespond 200]
  end.
Definition serve (calls : list Z) := serve_p publish_calls calls.
Definition serve_sign (init_ok sign_ok : bool) (s : sinks) : list effect := serve serve_calls init_ok sign_ok s.

(* standalone signCmd: returns effects and whether the command succeeds (exit status 0) *)
Fixpoint standalone_p (pc : list Z) (calls : list Z) (init_ok sign_ok apply_ok : bool) (s : sinks) : list effect * bool :=
  match calls with
  | [] => ([], true)
  | c :: r =>
      if c =? 0 then (if init_ok then standalone_p pc r init_ok sign_ok apply_ok s else ([], false))
      else if c =? 1 then (if sign_ok then let '(e, k) := standalone_p pc r init_ok sign_ok apply_ok s in (ESign true :: e, k) else ([ESign false], false))
      else if c =? 2 then (if apply_ok then let '(e, k) := standalone_p pc r init_ok sign_ok apply_ok s in (EApply :: e, k) else ([], false))
      else if c =? 3 then standalone_p pc r init_ok sign_ok apply_ok s
      else let '(e, ok) := publish pc s in if ok then let '(e2, k) := standalone_p pc r init_ok sign_ok apply_ok s in (e ++ e2, k) else (e, false)
  end.
Definition standalone (calls : list Z) := standalone_p publish_calls calls.
Definition sign_cmd (init_ok sign_ok apply_ok : bool) (s : sinks) := standalone standalone_calls init_ok sign_ok apply_ok s.

Definition is_ok_amqp (e : effect) : bool := match e with EAmqp true => true | _ => false end.
Definition is_ok_append (e : effect) : bool := match e with EAppend true => true | _ => false end.
Definition is_amqp (e : effect) : bool := match e with EAmqp _ => true | _ => false end.
Definition is_append (e : effect) : bool := match e with EAppend _ => true | _ => false end.
Definition is_200 (e : effect) : bool := match e with ERespond 200 => true | _ => false end.
Definition is_failed_sink (e : effect) : bool := match e with EAmqp false | EAppend false => true | _ => false end.
Definition count (p : effect -> bool) (t : list effect) : nat := length (filter p t).
Definition count_ok_amqp (t : list effect) : nat := count is_ok_amqp t.      (* records the broker stored *)
Definition count_ok_append (t : list effect) : nat := count is_ok_append t.  (* records in the audit file *)
Definition attempts_amqp (t : list effect) : nat := count is_amqp t.         (* connections made to the broker *)
Definition attempts_append (t : list effect) : nat := count is_append t.
Definition count_200 (t : list effect) : nat := count is_200 t.
Definition responds_200 (t : list effect) : bool := existsb is_200 t.
(* a trace in which nothing follows a failed delivery *)
Fixpoint stops_at_failure (t : list effect) : bool :=
  match t with
  | [] => true
  | x :: r => if is_failed_sink x then (match r with [] => true | _ => false end) else stops_at_failure r
  end.
(* effects strictly before the first 200 response *)
Fixpoint before_200 (t : list effect) : list effect :=
  match t with
  | [] => []
  | ERespond 200 :: _ => []
  | e :: r => e :: before_200 r
  end.

(* ---- a server's life: a sequence of requests against one sink configuration, each with its own outcome of
   Init / Sign and its own sink faults; the trace is the concatenation (the totals below do not depend on the order) *)
Record req := mkReq { r_init : bool; r_sign : bool; r_amqp_ok : bool; r_file_ok : bool }.
Definition serve_req (ac fc : bool) (r : req) : list effect :=
  serve_sign (r_init r) (r_sign r) (mkSinks ac fc (r_amqp_ok r) (r_file_ok r)).
Definition serve_all (ac fc : bool) (rs : list req) : list effect := flat_map (serve_req ac fc) rs.
Definition healthy (r : req) : bool := r_amqp_ok r && r_file_ok r.

(* ---- the audit file under concurrent writers: each AppendTo is one write of (record ++ "\n") with O_APPEND,
   so the file is the concatenation of whole records in the order the writes were serialised *)
Definition nl : Z := 10.
Definition append_writes : Z := zlen (filter (fun c => c =? 2) append_calls).
Definition log_of (order : list bytes) : bytes := concat (map (fun r => r ++ [nl]) order).
(* split a log into newline-terminated lines *)
Fixpoint lines_acc (l : bytes) (cur : bytes) : list bytes :=
  match l with
  | [] => match cur with [] => [] | _ => [rev cur] end   (* unterminated tail shows up as an extra line *)
  | b :: r => if b =? nl then rev cur :: lines_acc r [] else lines_acc r (b :: cur)
  end.
Definition lines (l : bytes) : list bytes := lines_acc l [].
Definition no_nl (r : bytes) : bool := forallb (fun b => negb (b =? nl)) r.
