(* C17/ProofsL.v — the layout-level writer (C17/Layout.v): the generated bodies are the model of C17/Model.v, and the
   directory written after ANY sequence of NewFile / AddFile calls is read by the APPNOTE reader as the intended members. *)
From Relic Require Import Base.Prelude Base.Enc Generated.C17_gen C17.Model C17.Bytes C17.Proofs C17.ProofsCD C17.Layout.

(* ------------------------------------------------------------------ generated bodies = the hand-assembled model *)
Lemma g_set_field_eq : forall ws vs cur off v, g_set_field ws vs cur off v = set_field ws vs cur off v.
Proof. induction ws as [|w ws IH]; intros [|x vs] cur off v; cbn [g_set_field set_field]; try reflexivity; f_equal; apply IH. Qed.

(* AddFile: raw is dropped exactly when the member is re-indexed at another offset; the member gets the current DirLoc;
   DirLoc advances by the member's total size; the member is appended *)
Lemma af_step_model size raw off dl :
  af_step size raw off dl = (if negb (off =? dl) then [] else raw, dl, dl + size).
Proof. unfold af_step. destruct (off =? dl) eqn:E; cbn [negb]; try (apply Z.eqb_eq in E; subst); reflexivity. Qed.
Lemma af_step_statements : af_step_skipped = [0; 1; 2] /\ af_appends = true.
Proof. split; reflexivity. Qed.
Lemma add_file_l_model files dl f size : add_file_l files dl f size = add_file files dl f size.
Proof. unfold add_file_l, add_file. rewrite af_step_model. reflexivity. Qed.

(* GetDirectoryHeader: the bytes are Model.dir_header (rebuilt entries: one new ZIP64 record followed by the old extra field
   WITHOUT its ZIP64 records); f.Extra is left as it was *)
Lemma gdh_of_model f : gdh_of f = (dir_header f, e_extra f).
Proof.
  unfold gdh_of, gdh_step, dir_header, gdh_use_raw.
  destruct (zlen (e_raw f) >? 0); [reflexivity|].
  unfold regen_header, gdh_promote.
  destruct (((e_csize f >=? 4294967295) || (e_usize f >=? 4294967295)) || (e_offset f >=? 4294967295)).
  - rewrite !g_set_field_eq. cbn [app]. rewrite <- !app_assoc. reflexivity.
  - cbn [app]. rewrite <- !app_assoc. reflexivity.
Qed.
Lemma gdh_step_statements : gdh_step_skipped = [].
Proof. reflexivity. Qed.
(* the File after GetDirectoryHeader: the same fields *)
Definition after_write (f : cdent) : cdent := with_extra f (e_extra f).
Lemma header_st_model f : header_st f = (dir_header f, after_write f).
Proof. unfold header_st. now rewrite gdh_of_model. Qed.

(* the loop of WriteDirectory *)
Lemma wd_loop_step_model reader n mv c s :
  wd_loop_step reader n mv c s = (if wd_version_raise reader mv then reader else mv, c + 1, s + n).
Proof. reflexivity. Qed.
Lemma wd_loop_statements : wd_loop_step_skipped = [0; 1; 2].
Proof. reflexivity. Qed.
Lemma cd_bytes_cons f fs : cd_bytes (f :: fs) = dir_header f ++ cd_bytes fs.
Proof. reflexivity. Qed.
Lemma wd_loop_fold : forall files a,
  fold_left wd_iter files a =
  mkAcc (a_buf a ++ cd_bytes files)
        (fold_left (fun mv f => if wd_version_raise (e_reader f) mv then e_reader f else mv) files (a_mv a))
        (a_count a + zlen files) (a_size a + zlen (cd_bytes files))
        (a_files a ++ map after_write files).
Proof.
  induction files as [|f fs IH]; intros a.
  - cbn [fold_left map]. change (cd_bytes []) with (@nil Z). change (zlen (@nil cdent)) with 0. change (zlen (@nil Z)) with 0.
    rewrite !app_nil_r, !Z.add_0_r. now destruct a.
  - cbn [fold_left]. rewrite IH. unfold wd_iter at 1 2 3 4 5. rewrite header_st_model. cbn [fst snd].
    rewrite wd_loop_step_model. cbn [a_buf a_mv a_count a_size a_files fst snd map].
    rewrite cd_bytes_cons, zlen_cons, zlen_app, <- !app_assoc. cbn [app].
    f_equal; lia.
Qed.
Lemma wd_tail_of_model files dirloc force :
  wd_tail_of (wd_min_version files) (zlen files) (zlen (cd_bytes files)) dirloc force = wd_tail files dirloc force.
Proof. reflexivity. Qed.
Lemma write_directory_l_model files dirloc force :
  write_directory_l files dirloc force =
  (cd_bytes files, wd_tail files dirloc force, map after_write files).
Proof.
  unfold write_directory_l, wd_loop. rewrite wd_loop_fold. cbn [a_buf a_mv a_count a_size a_files app].
  rewrite !Z.add_0_l. reflexivity.
Qed.
Lemma write_directory_model files dirloc force :
  write_directory files dirloc force false false = Ok (fst (write_directory_l files dirloc force)).
Proof. rewrite write_directory_l_model. reflexivity. Qed.

(* ------------------------------------------------------------------ the APPNOTE reader on an encoded directory entry *)
Lemma cdh_widths_ok : Forall (fun w => 0 <= w) cdh_widths.
Proof. unfold cdh_widths. wsok. Qed.
Lemma su_cdh vs R i : length vs = 17%nat -> (i < 17)%nat ->
  su (off_of i cdh_widths) (nth i cdh_widths 0) (enc_struct cdh_widths vs ++ R) = nth i vs 0 mod 256 ^ nth i cdh_widths 0.
Proof.
  intros Hl Hi. change (su ?a ?b ?c) with (fld a b c).
  apply fld_enc_struct; [now rewrite Hl|apply cdh_widths_ok|exact Hi].
Qed.

Lemma sp_entry_with_shape (T : entry_tail) vs name extra comment rest :
  length vs = 17%nat -> nth 0 vs 0 mod 4294967296 = 33639248 ->
  nth 10 vs 0 mod 65536 = zlen name -> nth 11 vs 0 mod 65536 = zlen extra -> nth 12 vs 0 mod 65536 = zlen comment ->
  sp_entry_with T (enc_struct cdh_widths vs ++ name ++ extra ++ comment ++ rest) =
  T name extra rest (nth 7 vs 0 mod 4294967296) (nth 8 vs 0 mod 4294967296) (nth 9 vs 0 mod 4294967296)
    (nth 16 vs 0 mod 4294967296).
Proof.
  intros Hl Hsig Hn He Hk.
  set (H := enc_struct cdh_widths vs).
  assert (HH : zlen H = 46) by (unfold H; rewrite zlen_enc_struct; [reflexivity|now rewrite Hl|apply cdh_widths_ok]).
  pose proof (zlen_nonneg name). pose proof (zlen_nonneg extra). pose proof (zlen_nonneg comment). pose proof (zlen_nonneg rest).
  assert (F : forall i R, (i < 17)%nat -> su (off_of i cdh_widths) (nth i cdh_widths 0) (H ++ R) = nth i vs 0 mod 256 ^ nth i cdh_widths 0)
    by (intros; apply su_cdh; assumption).
  set (X := H ++ name ++ extra ++ comment ++ rest).
  assert (HX : zlen X = 46 + zlen name + zlen extra + zlen comment + zlen rest) by (unfold X; rewrite !zlen_app; lia).
  unfold sp_entry_with.
  replace (zlen X <? 46) with false by lia.
  change (su 0 4 X) with (su (off_of 0 cdh_widths) (nth 0 cdh_widths 0) X).
  change (su 16 4 X) with (su (off_of 7 cdh_widths) (nth 7 cdh_widths 0) X).
  change (su 20 4 X) with (su (off_of 8 cdh_widths) (nth 8 cdh_widths 0) X).
  change (su 24 4 X) with (su (off_of 9 cdh_widths) (nth 9 cdh_widths 0) X).
  change (su 28 2 X) with (su (off_of 10 cdh_widths) (nth 10 cdh_widths 0) X).
  change (su 30 2 X) with (su (off_of 11 cdh_widths) (nth 11 cdh_widths 0) X).
  change (su 32 2 X) with (su (off_of 12 cdh_widths) (nth 12 cdh_widths 0) X).
  change (su 42 4 X) with (su (off_of 16 cdh_widths) (nth 16 cdh_widths 0) X).
  unfold X. rewrite !F by lia.
  change (256 ^ nth 0 cdh_widths 0) with 4294967296. change (256 ^ nth 7 cdh_widths 0) with 4294967296.
  change (256 ^ nth 8 cdh_widths 0) with 4294967296. change (256 ^ nth 9 cdh_widths 0) with 4294967296.
  change (256 ^ nth 10 cdh_widths 0) with 65536. change (256 ^ nth 11 cdh_widths 0) with 65536.
  change (256 ^ nth 12 cdh_widths 0) with 65536. change (256 ^ nth 16 cdh_widths 0) with 4294967296.
  rewrite Hsig, Hn, He, Hk. change (33639248 =? 33639248) with true. cbn [negb].
  fold X. replace (zlen X <? 46 + zlen name + zlen extra + zlen comment) with false by lia.
  assert (E1 : zslice 46 (46 + zlen name) X = name) by (unfold X; apply zslice_mid; lia).
  assert (E2 : zslice (46 + zlen name) (46 + zlen name + zlen extra) X = extra).
  { unfold X. rewrite (app_assoc H name). apply zslice_mid; rewrite ?zlen_app; lia. }
  assert (E3 : zdrop (46 + zlen name + zlen extra + zlen comment) X = rest).
  { unfold X. rewrite (app_assoc H name), (app_assoc (H ++ name) extra), (app_assoc ((H ++ name) ++ extra) comment).
    apply zdrop_exact_n. rewrite !zlen_app. lia. }
  rewrite E1, E2, E3. reflexivity.
Qed.
Lemma sp_entry_shape vs name extra comment rest :
  length vs = 17%nat -> nth 0 vs 0 mod 4294967296 = 33639248 ->
  nth 10 vs 0 mod 65536 = zlen name -> nth 11 vs 0 mod 65536 = zlen extra -> nth 12 vs 0 mod 65536 = zlen comment ->
  sp_entry (enc_struct cdh_widths vs ++ name ++ extra ++ comment ++ rest) =
  ap_tail name extra rest (nth 7 vs 0 mod 4294967296) (nth 8 vs 0 mod 4294967296) (nth 9 vs 0 mod 4294967296)
          (nth 16 vs 0 mod 4294967296).
Proof. apply sp_entry_with_shape. Qed.
Lemma sp_entry_py_shape vs name extra comment rest :
  length vs = 17%nat -> nth 0 vs 0 mod 4294967296 = 33639248 ->
  nth 10 vs 0 mod 65536 = zlen name -> nth 11 vs 0 mod 65536 = zlen extra -> nth 12 vs 0 mod 65536 = zlen comment ->
  sp_entry_py (enc_struct cdh_widths vs ++ name ++ extra ++ comment ++ rest) =
  py_tail name extra rest (nth 7 vs 0 mod 4294967296) (nth 8 vs 0 mod 4294967296) (nth 9 vs 0 mod 4294967296)
          (nth 16 vs 0 mod 4294967296).
Proof. apply sp_entry_with_shape. Qed.

Lemma sp_tail_plain name extra rest crc c32 u32v o32 :
  c32 <> S_M32 -> u32v <> S_M32 -> o32 <> S_M32 ->
  ap_tail name extra rest crc c32 u32v o32 = Some (mkSE name o32 c32 u32v crc, rest).
Proof.
  intros Hc Hu Ho. unfold ap_tail.
  replace (u32v =? S_M32) with false by lia. replace (c32 =? S_M32) with false by lia. replace (o32 =? S_M32) with false by lia.
  reflexivity.
Qed.

Lemma su8 x R : 0 <= x < 2 ^ 64 -> su 0 8 (le_enc 8 x ++ R) = x.
Proof. intros H. change (su 0 8 (le_enc 8 x ++ R)) with (le_dec (zslice 0 8 (le_enc 8 x ++ R))). now apply dec8_head. Qed.
Lemma sp_find_z64_head body old k : zlen body < 65536 ->
  sp_find_z64 (S k) (le_enc 2 1 ++ le_enc 2 (zlen body) ++ body ++ old) = Some body.
Proof.
  intros Hb. pose proof (zlen_nonneg body). pose proof (zlen_nonneg old).
  set (x := le_enc 2 1 ++ le_enc 2 (zlen body) ++ body ++ old).
  assert (Hx : zlen x = 4 + zlen body + zlen old) by (unfold x; rewrite !zlen_app, !le_enc_zlen; lia).
  assert (Hid : su 0 2 x = 1) by (unfold x; apply (dec2_head 1); lia).
  assert (Hsz : su 2 2 x = zlen body) by (unfold x; apply (dec2_second 1); lia).
  assert (Hs : zslice 4 (4 + zlen body) x = body).
  { unfold x. rewrite (app_assoc (le_enc 2 1)). apply zslice_mid; rewrite ?zlen_app, ?le_enc_zlen; reflexivity. }
  cbn [sp_find_z64]. rewrite Hid, Hsz, Hs.
  replace (zlen x <? 4) with false by lia. replace (zlen x <? 4 + zlen body) with false by lia. reflexivity.
Qed.
Lemma sp_take8_yes v x R : 0 <= x < 2 ^ 64 -> sp_take8 true v (le_enc 8 x ++ R) = Some (x, R).
Proof.
  intros H. unfold sp_take8. pose proof (zlen_nonneg R). rewrite zlen_app, le_enc_zlen.
  replace (Z.of_nat 8 + zlen R <? 8) with false by lia. now rewrite su8, drop8_head.
Qed.
Lemma sp_tail_z64 name old rest crc u c o :
  0 <= u < 2 ^ 64 -> 0 <= c < 2 ^ 64 -> 0 <= o < 2 ^ 64 ->
  ap_tail name (le_enc 2 1 ++ le_enc 2 24 ++ le_enc 8 u ++ le_enc 8 c ++ le_enc 8 o ++ old) rest crc S_M32 S_M32 S_M32
  = Some (mkSE name o c u crc, rest).
Proof.
  intros Hu Hc Ho. unfold ap_tail. change (S_M32 =? S_M32) with true. cbn [orb].
  assert (E : sp_find_z64 (S (length (le_enc 2 1 ++ le_enc 2 24 ++ le_enc 8 u ++ le_enc 8 c ++ le_enc 8 o ++ old)))
                          (le_enc 2 1 ++ le_enc 2 24 ++ le_enc 8 u ++ le_enc 8 c ++ le_enc 8 o ++ old)
              = Some (le_enc 8 u ++ le_enc 8 c ++ le_enc 8 o)).
  { pose proof (sp_find_z64_head (le_enc 8 u ++ le_enc 8 c ++ le_enc 8 o) old
                 (length (le_enc 2 1 ++ le_enc 2 24 ++ le_enc 8 u ++ le_enc 8 c ++ le_enc 8 o ++ old))) as P.
    rewrite !zlen_app, !le_enc_zlen in P. change (Z.of_nat 8 + (Z.of_nat 8 + Z.of_nat 8)) with 24 in P.
    rewrite <- !app_assoc in P. apply P. lia. }
  rewrite E. rewrite sp_take8_yes by assumption. rewrite sp_take8_yes by assumption.
  rewrite <- (app_nil_r (le_enc 8 o)). rewrite sp_take8_yes by assumption. reflexivity.
Qed.

(* ------------------------------------------------------------------ withoutZip64Extra *)
Inductive tlv_no1 : bytes -> Prop :=
| no1_end r : zlen r < 4 -> tlv_no1 r
| no1_rec id body rest : 0 <= id < 65536 -> id <> 1 -> zlen body < 65536 -> tlv_no1 rest ->
    tlv_no1 (le_enc 2 id ++ le_enc 2 (zlen body) ++ body ++ rest).

Lemma zlen_take_drop {A} n (l : list A) : zlen (ztake n l) + zlen (zdrop n l) = zlen l.
Proof. rewrite <- zlen_app. now rewrite ztake_zdrop. Qed.
(* never longer than the input, whatever the bytes are *)
Lemma wz_len : forall fuel extra out, zlen (without_z64 fuel extra out) <= zlen out + zlen extra.
Proof.
  induction fuel as [|k IH]; intros extra out; cbn [without_z64]; [rewrite zlen_app; lia|].
  change wz_keeps_remainder with true. change wz_advances with true. change wz_copies_record with true. cbv iota.
  destruct (negb (wz_loop (zlen extra))); [rewrite zlen_app; lia|].
  destruct (wz_overrun _ _); [rewrite zlen_app; lia|].
  set (size := wz_size (le_dec (zslice 2 4 extra))).
  pose proof (zlen_take_drop size extra). pose proof (zlen_nonneg (ztake size extra)).
  destruct (wz_keep _ && true).
  - specialize (IH (zdrop size extra) (out ++ ztake size extra)). rewrite zlen_app in IH. lia.
  - specialize (IH (zdrop size extra) out). lia.
Qed.
Lemma wz_len' x : zlen (without_zip64_extra x) <= zlen x.
Proof. unfold without_zip64_extra. pose proof (wz_len (S (length x)) x []). change (zlen (@nil Z)) with 0 in *. lia. Qed.

(* on a walkable extra field: the records whose id is not 1, in order, then the remainder *)
Lemma wz_tlv : forall x, tlv x -> forall fuel out, (length x < fuel)%nat ->
  exists y, without_z64 fuel x out = out ++ y /\ tlv_no1 y.
Proof.
  induction 1 as [r Hr | id body rest Hid Hb Hrest IH]; intros fuel out Hf; (destruct fuel as [|k]; [lia|]); cbn [without_z64].
  - unfold wz_loop. replace (zlen r >=? 4) with false by lia. cbn [negb]. change wz_keeps_remainder with true. cbv iota.
    exists r. split; [reflexivity|now constructor].
  - pose proof (zlen_nonneg body). pose proof (zlen_nonneg rest).
    set (x := le_enc 2 id ++ le_enc 2 (zlen body) ++ body ++ rest) in *.
    assert (Hx : zlen x = 4 + zlen body + zlen rest) by (unfold x; rewrite !zlen_app, !le_enc_zlen; lia).
    assert (Hi : le_dec (zslice 0 2 x) = id) by (unfold x; apply dec2_head; lia).
    assert (Hs : le_dec (zslice 2 4 x) = zlen body) by (unfold x; apply dec2_second; lia).
    rewrite Hi, Hs. unfold wz_loop, wz_size, wz_overrun, wz_keep.
    replace (zlen x >=? 4) with true by lia. cbn [negb]. replace (4 + zlen body >? zlen x) with false by lia.
    change wz_advances with true. change wz_copies_record with true. cbv iota.
    assert (Hd : zdrop (4 + zlen body) x = rest).
    { unfold x. rewrite (app_assoc (le_enc 2 id)), (app_assoc (_ ++ le_enc 2 (zlen body))).
      apply zdrop_exact_n. rewrite !zlen_app, !le_enc_zlen. lia. }
    assert (Ht : ztake (4 + zlen body) x = le_enc 2 id ++ le_enc 2 (zlen body) ++ body).
    { unfold x. rewrite (app_assoc (le_enc 2 id)), (app_assoc (_ ++ le_enc 2 (zlen body))), <- (app_assoc (le_enc 2 id)).
      apply ztake_exact_n. rewrite !zlen_app, !le_enc_zlen. lia. }
    rewrite Hd, Ht.
    assert (Hk : (length rest < k)%nat) by (unfold x in Hf; rewrite !app_length, !le_enc_length in Hf; lia).
    destruct (id =? 1) eqn:E; cbn [negb andb].
    + destruct (IH k out Hk) as (y & -> & Hy). exists y. split; [reflexivity|exact Hy].
    + destruct (IH k (out ++ le_enc 2 id ++ le_enc 2 (zlen body) ++ body) Hk) as (y & -> & Hy).
      exists (le_enc 2 id ++ le_enc 2 (zlen body) ++ body ++ y). split; [now rewrite <- !app_assoc|].
      constructor; [assumption|lia|assumption|assumption].
Qed.
Lemma wz_tlv' x : tlv x -> tlv_no1 (without_zip64_extra x).
Proof.
  intros H. unfold without_zip64_extra. destruct (wz_tlv x H (S (length x)) [] ltac:(lia)) as (y & -> & Hy). exact Hy.
Qed.

(* ------------------------------------------------------------------ the zipfile-style scan *)
Lemma py_scan_no1 : forall y, tlv_no1 y -> forall fuel u c o, (length y < fuel)%nat -> py_scan fuel y u c o = Some (u, c, o).
Proof.
  induction 1 as [r Hr | id body rest Hid Hne Hb Hrest IH]; intros fuel u c o Hf; (destruct fuel as [|k]; [lia|]); cbn [py_scan].
  - replace (zlen r <? 4) with true by lia. reflexivity.
  - pose proof (zlen_nonneg body). pose proof (zlen_nonneg rest).
    set (x := le_enc 2 id ++ le_enc 2 (zlen body) ++ body ++ rest) in *.
    assert (Hx : zlen x = 4 + zlen body + zlen rest) by (unfold x; rewrite !zlen_app, !le_enc_zlen; lia).
    assert (Hi : su 0 2 x = id) by (unfold x; apply (dec2_head id); lia).
    assert (Hs : su 2 2 x = zlen body) by (unfold x; apply (dec2_second id); lia).
    rewrite Hi, Hs. replace (zlen x <? 4) with false by lia. replace (zlen x <? zlen body + 4) with false by lia.
    replace (id =? 1) with false by lia.
    assert (Hd : zdrop (4 + zlen body) x = rest).
    { unfold x. rewrite (app_assoc (le_enc 2 id)), (app_assoc (_ ++ le_enc 2 (zlen body))).
      apply zdrop_exact_n. rewrite !zlen_app, !le_enc_zlen. lia. }
    rewrite Hd. apply IH. unfold x in Hf; rewrite !app_length, !le_enc_length in Hf; lia.
Qed.
(* no value is a sentinel: ZIP64 records are walked over without being consulted *)
Lemma py_scan_nosent : forall x, tlv x -> forall fuel u c o, (length x < fuel)%nat ->
  u <> 18446744073709551615 -> u <> S_M32 -> c <> S_M32 -> o <> S_M32 -> py_scan fuel x u c o = Some (u, c, o).
Proof.
  induction 1 as [r Hr | id body rest Hid Hb Hrest IH]; intros fuel u c o Hf Hu1 Hu2 Hc Ho; (destruct fuel as [|k]; [lia|]); cbn [py_scan].
  - replace (zlen r <? 4) with true by lia. reflexivity.
  - pose proof (zlen_nonneg body). pose proof (zlen_nonneg rest).
    set (x := le_enc 2 id ++ le_enc 2 (zlen body) ++ body ++ rest) in *.
    assert (Hx : zlen x = 4 + zlen body + zlen rest) by (unfold x; rewrite !zlen_app, !le_enc_zlen; lia).
    assert (Hi : su 0 2 x = id) by (unfold x; apply (dec2_head id); lia).
    assert (Hs : su 2 2 x = zlen body) by (unfold x; apply (dec2_second id); lia).
    rewrite Hi, Hs. replace (zlen x <? 4) with false by lia. replace (zlen x <? zlen body + 4) with false by lia.
    assert (Hd : zdrop (4 + zlen body) x = rest).
    { unfold x. rewrite (app_assoc (le_enc 2 id)), (app_assoc (_ ++ le_enc 2 (zlen body))).
      apply zdrop_exact_n. rewrite !zlen_app, !le_enc_zlen. lia. }
    rewrite Hd.
    assert (Hk : (length rest < k)%nat) by (unfold x in Hf; rewrite !app_length, !le_enc_length in Hf; lia).
    replace (u =? 18446744073709551615) with false by lia. replace (u =? S_M32) with false by lia.
    replace (c =? S_M32) with false by lia. replace (o =? S_M32) with false by lia. cbn [orb sp_take8].
    destruct (id =? 1); now apply IH.
Qed.
(* a ZIP64 record at the head *)
Lemma py_scan_head body Y k u c o : zlen body < 65536 ->
  py_scan (S k) (le_enc 2 1 ++ le_enc 2 (zlen body) ++ body ++ Y) u c o =
  match sp_take8 ((u =? 18446744073709551615) || (u =? S_M32)) u body with
  | None => None
  | Some (u', d1) =>
      match sp_take8 (c =? S_M32) c d1 with
      | None => None
      | Some (c', d2) =>
          match sp_take8 (o =? S_M32) o d2 with
          | None => None
          | Some (o', _) => py_scan k Y u' c' o'
          end
      end
  end.
Proof.
  intros Hb. pose proof (zlen_nonneg body). pose proof (zlen_nonneg Y).
  set (x := le_enc 2 1 ++ le_enc 2 (zlen body) ++ body ++ Y).
  assert (Hx : zlen x = 4 + zlen body + zlen Y) by (unfold x; rewrite !zlen_app, !le_enc_zlen; lia).
  assert (Hi : su 0 2 x = 1) by (unfold x; apply (dec2_head 1); lia).
  assert (Hs : su 2 2 x = zlen body) by (unfold x; apply (dec2_second 1); lia).
  assert (Hd : zdrop (4 + zlen body) x = Y).
  { unfold x. rewrite (app_assoc (le_enc 2 1)), (app_assoc (_ ++ le_enc 2 (zlen body))).
    apply zdrop_exact_n. rewrite !zlen_app, !le_enc_zlen. lia. }
  assert (Hz : zslice 4 (4 + zlen body) x = body).
  { unfold x. rewrite (app_assoc (le_enc 2 1)). apply zslice_mid; rewrite ?zlen_app, ?le_enc_zlen; reflexivity. }
  cbn [py_scan]. rewrite Hi, Hs, Hz, Hd.
  replace (zlen x <? 4) with false by lia. replace (zlen x <? zlen body + 4) with false by lia. reflexivity.
Qed.

(* counting ZIP64 records *)
Lemma z64_count_no1 : forall y, tlv_no1 y -> forall fuel, z64_count fuel y = 0.
Proof.
  induction 1 as [r Hr | id body rest Hid Hne Hb Hrest IH]; intros fuel; (destruct fuel as [|k]; [reflexivity|]); cbn [z64_count].
  - replace (zlen r <? 4) with true by lia. reflexivity.
  - pose proof (zlen_nonneg body). pose proof (zlen_nonneg rest).
    set (x := le_enc 2 id ++ le_enc 2 (zlen body) ++ body ++ rest) in *.
    assert (Hx : zlen x = 4 + zlen body + zlen rest) by (unfold x; rewrite !zlen_app, !le_enc_zlen; lia).
    assert (Hi : su 0 2 x = id) by (unfold x; apply (dec2_head id); lia).
    assert (Hs : su 2 2 x = zlen body) by (unfold x; apply (dec2_second id); lia).
    rewrite Hi, Hs. replace (zlen x <? 4) with false by lia. replace (zlen x <? zlen body + 4) with false by lia.
    replace (id =? 1) with false by lia.
    assert (Hd : zdrop (4 + zlen body) x = rest).
    { unfold x. rewrite (app_assoc (le_enc 2 id)), (app_assoc (_ ++ le_enc 2 (zlen body))).
      apply zdrop_exact_n. rewrite !zlen_app, !le_enc_zlen. lia. }
    rewrite Hd, IH. reflexivity.
Qed.
Lemma z64_count_head body Y k : zlen body < 65536 ->
  z64_count (S k) (le_enc 2 1 ++ le_enc 2 (zlen body) ++ body ++ Y) = 1 + z64_count k Y.
Proof.
  intros Hb. pose proof (zlen_nonneg body). pose proof (zlen_nonneg Y).
  set (x := le_enc 2 1 ++ le_enc 2 (zlen body) ++ body ++ Y).
  assert (Hx : zlen x = 4 + zlen body + zlen Y) by (unfold x; rewrite !zlen_app, !le_enc_zlen; lia).
  assert (Hi : su 0 2 x = 1) by (unfold x; apply (dec2_head 1); lia).
  assert (Hs : su 2 2 x = zlen body) by (unfold x; apply (dec2_second 1); lia).
  assert (Hd : zdrop (4 + zlen body) x = Y).
  { unfold x. rewrite (app_assoc (le_enc 2 1)), (app_assoc (_ ++ le_enc 2 (zlen body))).
    apply zdrop_exact_n. rewrite !zlen_app, !le_enc_zlen. lia. }
  cbn [z64_count]. rewrite Hi, Hs, Hd.
  replace (zlen x <? 4) with false by lia. replace (zlen x <? zlen body + 4) with false by lia. reflexivity.
Qed.

(* ------------------------------------------------------------------ a rebuilt entry (GetDirectoryHeader without raw) *)
Definition z64rec (f : cdent) : bytes := enc_struct z64x_widths (gdh_z64extra (e_csize f) (e_usize f) (e_offset f)).
Lemma z64rec_bytes f :
  z64rec f = le_enc 2 1 ++ le_enc 2 24 ++ le_enc 8 (e_usize f) ++ le_enc 8 (e_csize f) ++ le_enc 8 (e_offset f).
Proof. unfold z64rec, z64x_widths, gdh_z64extra. rewrite !enc_struct_cons, enc_struct_nil_l, app_nil_r. reflexivity. Qed.
(* the extra field of a rebuilt entry that needs ZIP64 *)
Definition new_extra (f : cdent) : bytes := z64rec f ++ without_zip64_extra (e_extra f).

Definition prom_vals (f : cdent) (xl : Z) : list Z :=
  [33639248; e_creator f; 45; e_flags f; e_method f; e_mtime f; e_mdate f; e_crc f; 4294967295; 4294967295;
   u16 (zlen (e_name f)); u16 xl; u16 (zlen (e_comment f)); 0; e_iattrs f; e_eattrs f; 4294967295].
Definition plain_vals (f : cdent) : list Z :=
  [33639248; e_creator f; e_reader f; e_flags f; e_method f; e_mtime f; e_mdate f; e_crc f; u32 (e_csize f); u32 (e_usize f);
   u16 (zlen (e_name f)); u16 (zlen (e_extra f)); u16 (zlen (e_comment f)); 0; e_iattrs f; e_eattrs f; u32 (e_offset f)].
Lemma regen_promoted f : gdh_promote (e_csize f) (e_usize f) (e_offset f) = true ->
  regen_header f = enc_struct cdh_widths (prom_vals f (zlen (new_extra f))) ++ e_name f ++ new_extra f ++ e_comment f.
Proof. intros P. unfold regen_header. rewrite P. reflexivity. Qed.
Lemma regen_plain f : gdh_promote (e_csize f) (e_usize f) (e_offset f) = false ->
  regen_header f = enc_struct cdh_widths (plain_vals f) ++ e_name f ++ e_extra f ++ e_comment f.
Proof. intros P. unfold regen_header. rewrite P. reflexivity. Qed.

Lemma u16_mod x : 0 <= x < 65536 -> u16 x mod 65536 = x.
Proof. intros H. unfold u16. rewrite Z.mod_mod by lia. now apply Z.mod_small. Qed.
Lemma u32_mod x : 0 <= x < 4294967296 -> u32 x mod 4294967296 = x.
Proof. intros H. unfold u32. rewrite Z.mod_mod by lia. now apply Z.mod_small. Qed.
Lemma new_extra_len f : 28 <= zlen (new_extra f) <= 28 + zlen (e_extra f).
Proof.
  unfold new_extra. rewrite zlen_app, z64rec_bytes, !zlen_app, !le_enc_zlen.
  pose proof (wz_len' (e_extra f)). pose proof (zlen_nonneg (without_zip64_extra (e_extra f))). lia.
Qed.

(* both readers on a rebuilt entry, reduced to their tails *)
Lemma regen_tail (T : entry_tail) f rest :
  ent_ok f -> 0 <= e_offset f < 2 ^ 64 ->
  sp_entry_with T (regen_header f ++ rest) =
  if gdh_promote (e_csize f) (e_usize f) (e_offset f)
  then T (e_name f) (new_extra f) rest (e_crc f) S_M32 S_M32 S_M32
  else T (e_name f) (e_extra f) rest (e_crc f) (e_csize f) (e_usize f) (e_offset f).
Proof.
  intros (Hcrc & Hcs & Hus & Hn & He & Hk) Ho.
  pose proof (zlen_nonneg (e_name f)). pose proof (zlen_nonneg (e_extra f)). pose proof (zlen_nonneg (e_comment f)).
  destruct (gdh_promote (e_csize f) (e_usize f) (e_offset f)) eqn:P.
  - rewrite (regen_promoted f P). pose proof (new_extra_len f) as Hx.
    set (x := new_extra f) in *.
    replace ((enc_struct cdh_widths (prom_vals f (zlen x)) ++ e_name f ++ x ++ e_comment f) ++ rest)
      with (enc_struct cdh_widths (prom_vals f (zlen x)) ++ e_name f ++ x ++ e_comment f ++ rest) by (now rewrite <- !app_assoc).
    rewrite (sp_entry_with_shape T (prom_vals f (zlen x)) (e_name f) x (e_comment f) rest);
      [| reflexivity | reflexivity
       | change (nth 10 (prom_vals f (zlen x)) 0) with (u16 (zlen (e_name f))); apply u16_mod; lia
       | change (nth 11 (prom_vals f (zlen x)) 0) with (u16 (zlen x)); apply u16_mod; lia
       | change (nth 12 (prom_vals f (zlen x)) 0) with (u16 (zlen (e_comment f))); apply u16_mod; lia ].
    change (nth 7 (prom_vals f (zlen x)) 0) with (e_crc f).
    change (nth 8 (prom_vals f (zlen x)) 0 mod 4294967296) with S_M32.
    change (nth 9 (prom_vals f (zlen x)) 0 mod 4294967296) with S_M32.
    change (nth 16 (prom_vals f (zlen x)) 0 mod 4294967296) with S_M32.
    rewrite (Z.mod_small (e_crc f)) by lia. reflexivity.
  - rewrite (regen_plain f P).
    unfold gdh_promote in P.
    assert (Hc2 : e_csize f < 4294967295) by lia. assert (Hu2 : e_usize f < 4294967295) by lia. assert (Ho2 : e_offset f < 4294967295) by lia.
    replace ((enc_struct cdh_widths (plain_vals f) ++ e_name f ++ e_extra f ++ e_comment f) ++ rest)
      with (enc_struct cdh_widths (plain_vals f) ++ e_name f ++ e_extra f ++ e_comment f ++ rest) by (now rewrite <- !app_assoc).
    rewrite (sp_entry_with_shape T (plain_vals f) (e_name f) (e_extra f) (e_comment f) rest);
      [| reflexivity | reflexivity
       | change (nth 10 (plain_vals f) 0) with (u16 (zlen (e_name f))); apply u16_mod; lia
       | change (nth 11 (plain_vals f) 0) with (u16 (zlen (e_extra f))); apply u16_mod; lia
       | change (nth 12 (plain_vals f) 0) with (u16 (zlen (e_comment f))); apply u16_mod; lia ].
    change (nth 7 (plain_vals f) 0) with (e_crc f).
    change (nth 8 (plain_vals f) 0) with (u32 (e_csize f)).
    change (nth 9 (plain_vals f) 0) with (u32 (e_usize f)).
    change (nth 16 (plain_vals f) 0) with (u32 (e_offset f)).
    rewrite (Z.mod_small (e_crc f)) by lia. rewrite !u32_mod by lia. reflexivity.
Qed.

Lemma sp_entry_regen f rest :
  ent_ok f -> 0 <= e_offset f < 2 ^ 64 ->
  sp_entry (regen_header f ++ rest) = Some (view_of f, rest).
Proof.
  intros Hok Ho. unfold sp_entry. rewrite (regen_tail ap_tail f rest Hok Ho).
  destruct Hok as (Hcrc & Hcs & Hus & Hn & He & Hk).
  destruct (gdh_promote (e_csize f) (e_usize f) (e_offset f)) eqn:P.
  - unfold new_extra. rewrite z64rec_bytes, <- !app_assoc. now apply sp_tail_z64.
  - unfold gdh_promote in P. apply sp_tail_plain; unfold S_M32; lia.
Qed.
(* the zipfile-style reader: needs an extra field it can walk; then the one new record decides and nothing after it is a ZIP64 record *)
Lemma sp_entry_py_regen f rest :
  ent_ok f -> tlv (e_extra f) -> 0 <= e_offset f < 2 ^ 64 ->
  sp_entry_py (regen_header f ++ rest) = Some (view_of f, rest).
Proof.
  intros Hok Ht Ho. unfold sp_entry_py. rewrite (regen_tail py_tail f rest Hok Ho).
  destruct Hok as (Hcrc & Hcs & Hus & Hn & He & Hk).
  destruct (gdh_promote (e_csize f) (e_usize f) (e_offset f)) eqn:P.
  - unfold py_tail, new_extra. rewrite z64rec_bytes, <- !app_assoc.
    set (W := without_zip64_extra (e_extra f)).
    set (body := le_enc 8 (e_usize f) ++ le_enc 8 (e_csize f) ++ le_enc 8 (e_offset f)).
    assert (Hb : zlen body = 24) by (unfold body; rewrite !zlen_app, !le_enc_zlen; reflexivity).
    replace (le_enc 2 1 ++ le_enc 2 24 ++ le_enc 8 (e_usize f) ++ le_enc 8 (e_csize f) ++ le_enc 8 (e_offset f) ++ W)
      with (le_enc 2 1 ++ le_enc 2 (zlen body) ++ body ++ W) by (rewrite Hb; unfold body; now rewrite <- !app_assoc).
    rewrite py_scan_head by lia.
    change (S_M32 =? 18446744073709551615) with false. change (S_M32 =? S_M32) with true. cbn [orb]. unfold body.
    rewrite sp_take8_yes by assumption. rewrite sp_take8_yes by assumption.
    rewrite <- (app_nil_r (le_enc 8 (e_offset f))). rewrite sp_take8_yes by assumption.
    rewrite py_scan_no1; [reflexivity | now apply wz_tlv' |].
    rewrite !app_length, !le_enc_length. lia.
  - unfold gdh_promote in P. unfold py_tail.
    rewrite py_scan_nosent; [reflexivity | exact Ht | lia | unfold S_M32; lia ..].
Qed.

(* the extra field of an encoded entry *)
Lemma entry_extra_shape vs name extra comment rest :
  length vs = 17%nat -> nth 10 vs 0 mod 65536 = zlen name -> nth 11 vs 0 mod 65536 = zlen extra ->
  entry_extra (enc_struct cdh_widths vs ++ name ++ extra ++ comment ++ rest) = Some extra.
Proof.
  intros Hl Hn He.
  set (H := enc_struct cdh_widths vs).
  assert (HH : zlen H = 46) by (unfold H; rewrite zlen_enc_struct; [reflexivity|now rewrite Hl|apply cdh_widths_ok]).
  pose proof (zlen_nonneg name). pose proof (zlen_nonneg extra). pose proof (zlen_nonneg comment). pose proof (zlen_nonneg rest).
  assert (F : forall i R, (i < 17)%nat -> su (off_of i cdh_widths) (nth i cdh_widths 0) (H ++ R) = nth i vs 0 mod 256 ^ nth i cdh_widths 0)
    by (intros; apply su_cdh; assumption).
  set (X := H ++ name ++ extra ++ comment ++ rest).
  assert (HX : zlen X = 46 + zlen name + zlen extra + zlen comment + zlen rest) by (unfold X; rewrite !zlen_app; lia).
  unfold entry_extra. replace (zlen X <? 46) with false by lia.
  change (su 28 2 X) with (su (off_of 10 cdh_widths) (nth 10 cdh_widths 0) X).
  change (su 30 2 X) with (su (off_of 11 cdh_widths) (nth 11 cdh_widths 0) X).
  unfold X. rewrite !F by lia.
  change (256 ^ nth 10 cdh_widths 0) with 65536. change (256 ^ nth 11 cdh_widths 0) with 65536. rewrite Hn, He.
  fold X. replace (zlen X <? 46 + zlen name + zlen extra) with false by lia.
  f_equal. unfold X. rewrite (app_assoc H name). apply zslice_mid; rewrite ?zlen_app; lia.
Qed.
(* UNIQUENESS: a rebuilt entry that needs ZIP64 carries exactly one ZIP64 record, whatever records the old extra field had;
   one that does not need it carries the old extra field untouched *)
Lemma rebuilt_entry_one_zip64 f rest :
  ent_ok f -> tlv (e_extra f) ->
  if gdh_promote (e_csize f) (e_usize f) (e_offset f)
  then entry_extra (regen_header f ++ rest) = Some (new_extra f) /\ z64_count (S (length (new_extra f))) (new_extra f) = 1
  else entry_extra (regen_header f ++ rest) = Some (e_extra f).
Proof.
  intros (Hcrc & Hcs & Hus & Hn & He & Hk) Ht.
  pose proof (zlen_nonneg (e_name f)). pose proof (zlen_nonneg (e_extra f)). pose proof (zlen_nonneg (e_comment f)).
  destruct (gdh_promote (e_csize f) (e_usize f) (e_offset f)) eqn:P.
  - split.
    + rewrite (regen_promoted f P). pose proof (new_extra_len f) as Hx. set (x := new_extra f) in *.
      replace ((enc_struct cdh_widths (prom_vals f (zlen x)) ++ e_name f ++ x ++ e_comment f) ++ rest)
        with (enc_struct cdh_widths (prom_vals f (zlen x)) ++ e_name f ++ x ++ e_comment f ++ rest) by (now rewrite <- !app_assoc).
      apply entry_extra_shape; [reflexivity
       | change (nth 10 (prom_vals f (zlen x)) 0) with (u16 (zlen (e_name f))); apply u16_mod; lia
       | change (nth 11 (prom_vals f (zlen x)) 0) with (u16 (zlen x)); apply u16_mod; lia].
    + unfold new_extra. rewrite z64rec_bytes, <- !app_assoc.
      set (W := without_zip64_extra (e_extra f)).
      set (body := le_enc 8 (e_usize f) ++ le_enc 8 (e_csize f) ++ le_enc 8 (e_offset f)).
      assert (Hb : zlen body = 24) by (unfold body; rewrite !zlen_app, !le_enc_zlen; reflexivity).
      replace (le_enc 2 1 ++ le_enc 2 24 ++ le_enc 8 (e_usize f) ++ le_enc 8 (e_csize f) ++ le_enc 8 (e_offset f) ++ W)
        with (le_enc 2 1 ++ le_enc 2 (zlen body) ++ body ++ W) by (rewrite Hb; unfold body; now rewrite <- !app_assoc).
      rewrite z64_count_head by lia.
      rewrite z64_count_no1 by (now apply wz_tlv'). reflexivity.
  - rewrite (regen_plain f P).
    replace ((enc_struct cdh_widths (plain_vals f) ++ e_name f ++ e_extra f ++ e_comment f) ++ rest)
      with (enc_struct cdh_widths (plain_vals f) ++ e_name f ++ e_extra f ++ e_comment f ++ rest) by (now rewrite <- !app_assoc).
    apply entry_extra_shape; [reflexivity
     | change (nth 10 (plain_vals f) 0) with (u16 (zlen (e_name f))); apply u16_mod; lia
     | change (nth 11 (plain_vals f) 0) with (u16 (zlen (e_extra f))); apply u16_mod; lia].
Qed.

(* ------------------------------------------------------------------ one AddFile, then GetDirectoryHeader *)
(* the File as AddFile leaves it *)
Definition added (f : cdent) (dl : Z) : cdent := with_raw_off f (if negb (e_offset f =? dl) then [] else e_raw f) dl.
(* reader E reads the entry emitted for f as v *)
Definition emitsE (E : bytes -> option (sp_ent * bytes)) (f : cdent) (v : sp_ent) : Prop :=
  forall rest, E (dir_header f ++ rest) = Some (v, rest).
Definition emits := emitsE sp_entry.
Definition emits_py := emitsE sp_entry_py.

Lemma emits_added_gen (E : bytes -> option (sp_ent * bytes)) f dl :
  (forall rest, E (regen_header (added f dl) ++ rest) = Some (view_of (added f dl), rest)) ->
  (e_raw f = [] \/ forall rest, E (e_raw f ++ rest) = Some (view_of f, rest)) ->
  emitsE E (added f dl) (mkSE (e_name f) dl (e_csize f) (e_usize f) (e_crc f)).
Proof.
  intros Hreg Hraw rest. unfold dir_header.
  destruct (gdh_use_raw (zlen (e_raw (added f dl)))) eqn:U.
  - unfold added in *. cbn [e_raw with_raw_off] in *. unfold gdh_use_raw in U.
    destruct (e_offset f =? dl) eqn:Eq; cbn [negb] in *.
    + apply Z.eqb_eq in Eq. destruct Hraw as [Hr | Hr].
      * rewrite Hr in U. change (zlen (@nil Z)) with 0 in U. lia.
      * rewrite Hr. unfold view_of. now rewrite Eq.
    + change (zlen (@nil Z)) with 0 in U. lia.
  - rewrite Hreg. reflexivity.
Qed.
Lemma emits_added f dl : ent_ok f -> raw_ok f -> 0 <= dl < 2 ^ 64 ->
  emits (added f dl) (mkSE (e_name f) dl (e_csize f) (e_usize f) (e_crc f)).
Proof. intros Hok Hraw Hdl. apply emits_added_gen; [intros rest; now apply sp_entry_regen | exact Hraw]. Qed.
Lemma emits_py_added f dl : ent_ok f -> tlv (e_extra f) -> raw_ok_py f -> 0 <= dl < 2 ^ 64 ->
  emits_py (added f dl) (mkSE (e_name f) dl (e_csize f) (e_usize f) (e_crc f)).
Proof. intros Hok Ht Hraw Hdl. apply emits_added_gen; [intros rest; now apply sp_entry_py_regen | exact Hraw]. Qed.

(* the File and the size an operation passes to AddFile *)
Definition step_file (op : wop) : cdent := match op with WNew c => new_file_ent c | WAdd f _ => f end.
Definition step_size (op : wop) : Z := match op with WNew c => new_file_size c | WAdd _ s => s end.
Definition spec_size (op : wop) : Z := match op with WNew c => sp_new_size c | WAdd _ s => s end.
Definition step_view (op : wop) (dl : Z) : sp_ent :=
  mkSE (e_name (step_file op)) dl (e_csize (step_file op)) (e_usize (step_file op)) (e_crc (step_file op)).
Lemma wstep_eq files dl op : wstep (files, dl) op = (files ++ [added (step_file op) dl], dl + step_size op).
Proof. destruct op; cbn [wstep fst snd]; unfold new_file_l, add_file_l; rewrite ?af_step_model; reflexivity. Qed.
Lemma intended_step_eq vs dl op : intended_step (vs, dl) op = (vs ++ [step_view op dl], dl + spec_size op).
Proof. destruct op; reflexivity. Qed.

Lemma dd64_widths_ok : Forall (fun w => 0 <= w) dd64_widths.
Proof. unfold dd64_widths. wsok. Qed.
Lemma new_file_ddb_len c : zlen (new_file_ddb c) = if n_desc c then 24 else 0.
Proof.
  unfold new_file_ddb, nf_write_desc. destruct (n_desc c); [|reflexivity].
  rewrite zlen_enc_struct; [reflexivity | reflexivity | apply dd64_widths_ok].
Qed.
Lemma step_ok op : op_ok op ->
  ent_ok (step_file op) /\ raw_ok (step_file op) /\ 0 <= step_size op /\ step_size op = spec_size op.
Proof.
  destruct op as [c | f size]; cbn [op_ok step_file step_size spec_size].
  - intros (Hcrc & Hcs & Hus & Hn & He).
    pose proof (zlen_nonneg (n_name c)). pose proof (zlen_nonneg (n_extra c)).
    assert (Hs : new_file_size c = sp_new_size c).
    { unfold new_file_size, sp_new_size, total_size_expr, nf_file_csize. rewrite new_file_ddb_len. destruct (n_desc c); lia. }
    repeat split; try (left; reflexivity); try assumption;
      try (unfold new_file_ent, nf_file_crc, nf_file_csize, nf_file_usize; cbn [e_crc e_csize e_usize e_name e_extra e_comment]; change (zlen (@nil Z)) with 0; lia).
    rewrite Hs. unfold sp_new_size. destruct (n_desc c); lia.
  - intros (Hok & Hraw & Hs). repeat split; try assumption; apply Hok.
Qed.
Lemma op_ok_of_py op : op_ok_py op -> ent_ok (step_file op) /\ raw_ok_py (step_file op) /\ tlv (e_extra (step_file op)) /\ 0 <= step_size op /\ step_size op = spec_size op.
Proof.
  destruct op as [c | f size]; cbn [op_ok_py step_file step_size spec_size].
  - intros (Hn & Ht). destruct (step_ok (WNew c) Hn) as (H1 & _ & H3 & H4). cbn [step_file step_size spec_size] in *.
    repeat split; try assumption; try apply H1. left. reflexivity.
  - intros (Hok & Hraw & Hs & Ht). repeat split; try assumption; apply Hok.
Qed.

(* the run of a sequence of operations, for any reader E and any class P of operations whose emitted entry E reads correctly *)
Section Run.
  Variable E : bytes -> option (sp_ent * bytes).
  Variable P : wop -> Prop.
  Hypothesis P_size : forall op, P op -> 0 <= step_size op /\ step_size op = spec_size op.
  Hypothesis P_emits : forall op dl, P op -> 0 <= dl < 2 ^ 64 -> emitsE E (added (step_file op) dl) (step_view op dl).

  Lemma wrun_mono : forall ops files dl, Forall P ops -> dl <= snd (wrun_from (files, dl) ops).
  Proof.
    induction ops as [|op ops IH]; intros files dl Hok; [cbn; lia|].
    inversion Hok as [|? ? Ho Hos]; subst. unfold wrun_from in *. cbn [fold_left]. rewrite wstep_eq.
    pose proof (P_size op Ho) as (Hs & _).
    specialize (IH (files ++ [added (step_file op) dl]) (dl + step_size op) Hos). lia.
  Qed.
  Lemma wrun_inv : forall ops files dl vs,
    Forall P ops -> 0 <= dl -> snd (wrun_from (files, dl) ops) < 2 ^ 64 -> Forall2 (emitsE E) files vs ->
    Forall2 (emitsE E) (fst (wrun_from (files, dl) ops)) (fst (intended_from (vs, dl) ops)) /\
    snd (wrun_from (files, dl) ops) = snd (intended_from (vs, dl) ops).
  Proof.
    induction ops as [|op ops IH]; intros files dl vs Hok Hdl Hfin Hem; [split; [exact Hem|reflexivity]|].
    inversion Hok as [|? ? Ho Hos]; subst.
    unfold wrun_from, intended_from in *. cbn [fold_left] in *. rewrite wstep_eq in *. rewrite intended_step_eq.
    pose proof (P_size op Ho) as (Hs & Hsz).
    pose proof (wrun_mono ops (files ++ [added (step_file op) dl]) (dl + step_size op) Hos) as Hm. unfold wrun_from in Hm.
    rewrite <- Hsz. apply IH; [exact Hos | lia | exact Hfin |].
    apply Forall2_app; [exact Hem|]. constructor; [|constructor].
    apply P_emits; [exact Ho | lia].
  Qed.
End Run.

Lemma sp_entries_emitted E : forall files vs rest, Forall2 (emitsE E) files vs ->
  sp_entries_with E (length files) (cd_bytes files ++ rest) = Some (vs, rest).
Proof.
  induction files as [|f fs IH]; intros vs rest H; inversion H as [|? v ? vs' Hf Hfs]; subst; [reflexivity|].
  rewrite cd_bytes_cons, <- app_assoc. cbn [length sp_entries_with]. rewrite Hf. rewrite (IH vs' rest Hfs). reflexivity.
Qed.

(* every emitted entry is at least a fixed header long, hence the count is bounded by the directory size *)
Lemma emits_len T f v : emitsE (sp_entry_with T) f v -> 46 <= zlen (dir_header f).
Proof.
  intros H. specialize (H []). rewrite app_nil_r in H. unfold sp_entry_with in H.
  destruct (zlen (dir_header f) <? 46) eqn:Eq; [discriminate|lia].
Qed.
Lemma count_le_size T : forall files vs, Forall2 (emitsE (sp_entry_with T)) files vs -> zlen files <= zlen (cd_bytes files).
Proof.
  induction files as [|f fs IH]; intros vs H; inversion H as [|? v ? vs' Hf Hfs]; subst; [cbn; lia|].
  rewrite cd_bytes_cons, zlen_cons, zlen_app. pose proof (emits_len T f v Hf). specialize (IH vs' Hfs). lia.
Qed.

(* ------------------------------------------------------------------ the end records WriteDirectory emits *)
Lemma eocd_widths_ok : Forall (fun w => 0 <= w) eocd_widths.
Proof. unfold eocd_widths. wsok. Qed.
Lemma e64_widths_ok : Forall (fun w => 0 <= w) e64_widths.
Proof. unfold e64_widths. wsok. Qed.
Lemma l64_widths_ok : Forall (fun w => 0 <= w) l64_widths.
Proof. unfold l64_widths. wsok. Qed.
Lemma su_eocd vs i : length vs = 8%nat -> (i < 8)%nat ->
  su (off_of i eocd_widths) (nth i eocd_widths 0) (enc_struct eocd_widths vs) = nth i vs 0 mod 256 ^ nth i eocd_widths 0.
Proof. intros Hl Hi. change (su ?a ?b ?c) with (fld a b c). apply fld0; [now rewrite Hl|apply eocd_widths_ok|exact Hi]. Qed.
Lemma su_e64 vs i : length vs = 10%nat -> (i < 10)%nat ->
  su (off_of i e64_widths) (nth i e64_widths 0) (enc_struct e64_widths vs) = nth i vs 0 mod 256 ^ nth i e64_widths 0.
Proof. intros Hl Hi. change (su ?a ?b ?c) with (fld a b c). apply fld0; [now rewrite Hl|apply e64_widths_ok|exact Hi]. Qed.
Lemma su_l64 vs i : length vs = 4%nat -> (i < 4)%nat ->
  su (off_of i l64_widths) (nth i l64_widths 0) (enc_struct l64_widths vs) = nth i vs 0 mod 256 ^ nth i l64_widths 0.
Proof. intros Hl Hi. change (su ?a ?b ?c) with (fld a b c). apply fld0; [now rewrite Hl|apply l64_widths_ok|exact Hi]. Qed.

Lemma sp_end_plain cd count size dirloc :
  zlen cd = size -> 0 <= count < 65535 -> 0 <= size < 4294967295 -> 0 <= dirloc < 4294967295 ->
  sp_end dirloc (cd ++ enc_struct eocd_widths (wd_end_plain count size dirloc)) = Some (count, size, dirloc).
Proof.
  intros Hcd Hc Hs Hd.
  set (E := enc_struct eocd_widths (wd_end_plain count size dirloc)).
  assert (HE : zlen E = 22) by (unfold E; rewrite zlen_enc_struct; [reflexivity|reflexivity|apply eocd_widths_ok]).
  unfold sp_end. rewrite zlen_app, HE, Hcd. replace (size + 22 - 22) with size by lia.
  replace (size <? 0) with false by lia.
  rewrite (zdrop_exact_n size cd E) by lia.
  assert (F : forall i, (i < 8)%nat -> su (off_of i eocd_widths) (nth i eocd_widths 0) E = nth i (wd_end_plain count size dirloc) 0 mod 256 ^ nth i eocd_widths 0)
    by (intros; unfold E; apply su_eocd; [reflexivity|assumption]).
  change (su 0 4 E) with (su (off_of 0 eocd_widths) (nth 0 eocd_widths 0) E).
  change (su 20 2 E) with (su (off_of 7 eocd_widths) (nth 7 eocd_widths 0) E).
  change (su 10 2 E) with (su (off_of 4 eocd_widths) (nth 4 eocd_widths 0) E).
  change (su 12 4 E) with (su (off_of 5 eocd_widths) (nth 5 eocd_widths 0) E).
  change (su 16 4 E) with (su (off_of 6 eocd_widths) (nth 6 eocd_widths 0) E).
  rewrite !F by lia.
  change (nth 0 (wd_end_plain count size dirloc) 0 mod 256 ^ nth 0 eocd_widths 0 =? 101010256) with true.
  change (nth 7 (wd_end_plain count size dirloc) 0 mod 256 ^ nth 7 eocd_widths 0 =? 0) with true.
  cbn [negb].
  change (nth 4 (wd_end_plain count size dirloc) 0 mod 256 ^ nth 4 eocd_widths 0) with (u16 count mod 65536).
  change (nth 5 (wd_end_plain count size dirloc) 0 mod 256 ^ nth 5 eocd_widths 0) with (u32 size mod 4294967296).
  change (nth 6 (wd_end_plain count size dirloc) 0 mod 256 ^ nth 6 eocd_widths 0) with (u32 dirloc mod 4294967296).
  rewrite u16_mod by lia. rewrite !u32_mod by lia. unfold S_M16, S_M32.
  replace (count =? 65535) with false by lia. replace (size =? 4294967295) with false by lia.
  replace (dirloc =? 4294967295) with false by lia. reflexivity.
Qed.

Lemma sp_end_zip64 cd mv count size dirloc :
  zlen cd = size -> 0 <= count < 2 ^ 64 -> 0 <= size -> 0 <= dirloc -> dirloc + size < 2 ^ 64 ->
  sp_end dirloc (cd ++ enc_struct e64_widths (wd_end64 mv count size dirloc)
                    ++ enc_struct l64_widths (wd_loc64 (wd_end64off dirloc size)) ++ enc_struct eocd_widths wd_end_sat)
  = Some (count, size, dirloc).
Proof.
  intros Hcd Hc Hs Hd Hb.
  set (R := enc_struct e64_widths (wd_end64 mv count size dirloc)).
  set (L := enc_struct l64_widths (wd_loc64 (wd_end64off dirloc size))).
  set (E := enc_struct eocd_widths wd_end_sat).
  assert (HR : zlen R = 56) by (unfold R; rewrite zlen_enc_struct; [reflexivity|reflexivity|apply e64_widths_ok]).
  assert (HL : zlen L = 20) by (unfold L; rewrite zlen_enc_struct; [reflexivity|reflexivity|apply l64_widths_ok]).
  assert (HE : zlen E = 22) by (unfold E; rewrite zlen_enc_struct; [reflexivity|reflexivity|apply eocd_widths_ok]).
  unfold sp_end. rewrite !zlen_app, HR, HL, HE, Hcd. replace (size + (56 + (20 + 22)) - 22) with (size + 76) by lia.
  replace (size + 76 <? 0) with false by lia.
  assert (D : zdrop (size + 76) (cd ++ R ++ L ++ E) = E).
  { rewrite (app_assoc cd R), (app_assoc (cd ++ R) L). apply zdrop_exact_n. rewrite !zlen_app. lia. }
  rewrite D.
  assert (FE : forall i, (i < 8)%nat -> su (off_of i eocd_widths) (nth i eocd_widths 0) E = nth i wd_end_sat 0 mod 256 ^ nth i eocd_widths 0)
    by (intros; unfold E; apply su_eocd; [reflexivity|assumption]).
  change (su 0 4 E) with (su (off_of 0 eocd_widths) (nth 0 eocd_widths 0) E).
  change (su 20 2 E) with (su (off_of 7 eocd_widths) (nth 7 eocd_widths 0) E).
  change (su 10 2 E) with (su (off_of 4 eocd_widths) (nth 4 eocd_widths 0) E).
  change (su 12 4 E) with (su (off_of 5 eocd_widths) (nth 5 eocd_widths 0) E).
  change (su 16 4 E) with (su (off_of 6 eocd_widths) (nth 6 eocd_widths 0) E).
  rewrite !FE by lia.
  change (nth 0 wd_end_sat 0 mod 256 ^ nth 0 eocd_widths 0 =? 101010256) with true.
  change (nth 7 wd_end_sat 0 mod 256 ^ nth 7 eocd_widths 0 =? 0) with true.
  change (nth 4 wd_end_sat 0 mod 256 ^ nth 4 eocd_widths 0 =? S_M16) with true.
  cbn [negb orb].
  replace (size + 76 - 20) with (size + 56) by lia. replace (size + 56 <? 0) with false by lia.
  assert (SL : zslice (size + 56) (size + 76) (cd ++ R ++ L ++ E) = L).
  { rewrite (app_assoc cd R). apply zslice_mid; rewrite ?zlen_app; lia. }
  rewrite SL.
  assert (FL : forall i, (i < 4)%nat -> su (off_of i l64_widths) (nth i l64_widths 0) L = nth i (wd_loc64 (wd_end64off dirloc size)) 0 mod 256 ^ nth i l64_widths 0)
    by (intros; unfold L; apply su_l64; [reflexivity|assumption]).
  change (su 0 4 L) with (su (off_of 0 l64_widths) (nth 0 l64_widths 0) L).
  change (su 8 8 L) with (su (off_of 2 l64_widths) (nth 2 l64_widths 0) L).
  rewrite !FL by lia.
  change (nth 0 (wd_loc64 (wd_end64off dirloc size)) 0 mod 256 ^ nth 0 l64_widths 0 =? 117853008) with true.
  cbn [negb].
  change (nth 2 (wd_loc64 (wd_end64off dirloc size)) 0 mod 256 ^ nth 2 l64_widths 0) with ((dirloc + size) mod 2 ^ 64).
  rewrite (Z.mod_small (dirloc + size)) by lia.
  replace (dirloc + size - dirloc) with size by lia.
  replace (size <? 0) with false by lia. replace (size + 56 <? size + 56) with false by lia. cbn [orb].
  assert (SR : zslice size (size + 56) (cd ++ R ++ L ++ E) = R) by (apply zslice_mid; lia).
  rewrite SR.
  assert (FR : forall i, (i < 10)%nat -> su (off_of i e64_widths) (nth i e64_widths 0) R = nth i (wd_end64 mv count size dirloc) 0 mod 256 ^ nth i e64_widths 0)
    by (intros; unfold R; apply su_e64; [reflexivity|assumption]).
  change (su 0 4 R) with (su (off_of 0 e64_widths) (nth 0 e64_widths 0) R).
  change (su 32 8 R) with (su (off_of 7 e64_widths) (nth 7 e64_widths 0) R).
  change (su 40 8 R) with (su (off_of 8 e64_widths) (nth 8 e64_widths 0) R).
  change (su 48 8 R) with (su (off_of 9 e64_widths) (nth 9 e64_widths 0) R).
  rewrite !FR by lia.
  change (nth 0 (wd_end64 mv count size dirloc) 0 mod 256 ^ nth 0 e64_widths 0 =? 101075792) with true.
  cbn [negb].
  change (nth 7 (wd_end64 mv count size dirloc) 0 mod 256 ^ nth 7 e64_widths 0) with (count mod 2 ^ 64).
  change (nth 8 (wd_end64 mv count size dirloc) 0 mod 256 ^ nth 8 e64_widths 0) with (size mod 2 ^ 64).
  change (nth 9 (wd_end64 mv count size dirloc) 0 mod 256 ^ nth 9 e64_widths 0) with (dirloc mod 2 ^ 64).
  rewrite !Z.mod_small by lia. reflexivity.
Qed.

Lemma sp_end_wd cd mv0 count size dirloc force :
  zlen cd = size -> 0 <= count < 2 ^ 64 -> 0 <= size -> 0 <= dirloc -> dirloc + size < 2 ^ 64 ->
  sp_end dirloc (cd ++ wd_tail_of mv0 count size dirloc force) = Some (count, size, dirloc).
Proof.
  intros Hcd Hc Hs Hd Hb. unfold wd_tail_of, wd_cdoff.
  assert (Z64 : forall mv,
    concat (map (pick [(3, enc_struct e64_widths (wd_end64 mv count size dirloc));
                       (1, enc_struct l64_widths (wd_loc64 (wd_end64off dirloc size)));
                       (2, enc_struct eocd_widths wd_end_sat)]) wd_write_order)
    = enc_struct e64_widths (wd_end64 mv count size dirloc) ++ enc_struct l64_widths (wd_loc64 (wd_end64off dirloc size))
      ++ enc_struct eocd_widths wd_end_sat).
  { intros mv. rewrite <- (app_nil_r (enc_struct eocd_widths wd_end_sat)) at 2. reflexivity. }
  destruct (wd_need_zip64 count size dirloc force) eqn:N.
  - change (wd_emit_zip64 wd_forced_version) with true. cbv iota. rewrite Z64. now apply sp_end_zip64.
  - destruct (wd_emit_zip64 mv0) eqn:M.
    + rewrite Z64. now apply sp_end_zip64.
    + unfold wd_need_zip64 in N. apply sp_end_plain; [exact Hcd|lia|lia|lia].
Qed.

(* ------------------------------------------------------------------ main theorems *)
(* entries that a reader reads as vs, followed by the end records of WriteDirectory *)
Lemma spec_read_of_emits T files vs dl force :
  Forall2 (emitsE (sp_entry_with T)) files vs -> 0 <= dl -> dl + zlen (cd_bytes files) < 2 ^ 63 ->
  sp_read_tail_with (sp_entry_with T) dl (cd_bytes files ++ wd_tail files dl force) = Some vs.
Proof.
  intros Hem Hdl Hb.
  pose proof (zlen_nonneg (cd_bytes files)) as Hz.
  pose proof (count_le_size T files _ Hem) as Hcnt. pose proof (zlen_nonneg files) as Hf0.
  unfold sp_read_tail_with. rewrite <- wd_tail_of_model.
  rewrite (sp_end_wd (cd_bytes files) (wd_min_version files) (zlen files) (zlen (cd_bytes files)) dl force) by (try reflexivity; lia).
  replace (dl - dl) with 0 by lia. rewrite zlen_app.
  pose proof (zlen_nonneg (wd_tail_of (wd_min_version files) (zlen files) (zlen (cd_bytes files)) dl force)).
  replace ((0 <? 0) || (zlen (cd_bytes files) + zlen (wd_tail_of (wd_min_version files) (zlen files) (zlen (cd_bytes files)) dl force) <? 0 + zlen (cd_bytes files)))
    with false by lia.
  rewrite Z.add_0_l, zslice_0, ztake_app_exact.
  unfold zlen at 1. rewrite Nat2Z.id.
  rewrite <- (app_nil_r (cd_bytes files)). rewrite (sp_entries_emitted _ files _ [] Hem). reflexivity.
Qed.

Theorem rewrite_directory_spec_read : forall ops force,
  Forall op_ok ops ->
  snd (wrun ops) + zlen (cd_bytes (fst (wrun ops))) < 2 ^ 63 ->
  let w := write_directory_l (fst (wrun ops)) (snd (wrun ops)) force in
  sp_read_tail (snd (wrun ops)) (fst (fst w) ++ snd (fst w)) = Some (fst (intended ops))
  /\ snd (wrun ops) = snd (intended ops)
  /\ write_directory (fst (wrun ops)) (snd (wrun ops)) force false false = Ok (fst w).
Proof.
  intros ops force Hok Hb w.
  assert (Psz : forall op, op_ok op -> 0 <= step_size op /\ step_size op = spec_size op) by (intros op H; apply (step_ok op H)).
  assert (Pem : forall op dl, op_ok op -> 0 <= dl < 2 ^ 64 -> emitsE sp_entry (added (step_file op) dl) (step_view op dl)).
  { intros op dl H Hdl. destruct (step_ok op H) as (H1 & H2 & _). now apply emits_added. }
  pose proof (zlen_nonneg (cd_bytes (fst (wrun ops)))) as Hz.
  pose proof (wrun_mono sp_entry op_ok Psz Pem ops [] 0 Hok) as Hm. fold (wrun ops) in Hm.
  destruct (wrun_inv sp_entry op_ok Psz Pem ops [] 0 [] Hok ltac:(lia)) as [Hem Hdl]; [fold (wrun ops); lia | constructor |].
  fold (wrun ops) in Hem, Hdl. fold (intended ops) in Hem, Hdl.
  split; [|split; [exact Hdl | apply write_directory_model]].
  unfold w. rewrite write_directory_l_model. cbn [fst snd].
  apply (spec_read_of_emits ap_tail); [exact Hem | lia | exact Hb].
Qed.
(* the same for the zipfile-style reader, which consults every ZIP64 record: extra fields must be walkable (records up to
   fewer than 4 trailing bytes) and cached raw entries must be read by that reader as the File's fields *)
Theorem rewrite_directory_zipfile_read : forall ops force,
  Forall op_ok_py ops ->
  snd (wrun ops) + zlen (cd_bytes (fst (wrun ops))) < 2 ^ 63 ->
  let w := write_directory_l (fst (wrun ops)) (snd (wrun ops)) force in
  sp_read_tail_py (snd (wrun ops)) (fst (fst w) ++ snd (fst w)) = Some (fst (intended ops)).
Proof.
  intros ops force Hok Hb w.
  assert (Psz : forall op, op_ok_py op -> 0 <= step_size op /\ step_size op = spec_size op).
  { intros op H. destruct (op_ok_of_py op H) as (_ & _ & _ & H4 & H5). now split. }
  assert (Pem : forall op dl, op_ok_py op -> 0 <= dl < 2 ^ 64 -> emitsE sp_entry_py (added (step_file op) dl) (step_view op dl)).
  { intros op dl H Hdl. destruct (op_ok_of_py op H) as (H1 & H2 & H3 & _). now apply emits_py_added. }
  pose proof (zlen_nonneg (cd_bytes (fst (wrun ops)))) as Hz.
  pose proof (wrun_mono sp_entry_py op_ok_py Psz Pem ops [] 0 Hok) as Hm. fold (wrun ops) in Hm.
  destruct (wrun_inv sp_entry_py op_ok_py Psz Pem ops [] 0 [] Hok ltac:(lia)) as [Hem Hdl]; [fold (wrun ops); lia | constructor |].
  fold (wrun ops) in Hem, Hdl. fold (intended ops) in Hem, Hdl.
  unfold w. rewrite write_directory_l_model. cbn [fst snd].
  apply (spec_read_of_emits py_tail); [exact Hem | lia | exact Hb].
Qed.

(* ------------------------------------------------------------------ a SECOND WriteDirectory on the same Directory *)
(* GetDirectoryHeader leaves the File as it was (f.Extra in particular), so a second call emits the same bytes
   (lib/signappx digests the first output and writes the second) *)
Lemma gdh_keeps_extra f : snd (gdh_of f) = e_extra f.
Proof. now rewrite gdh_of_model. Qed.
Lemma dir_header_after f : dir_header (after_write f) = dir_header f.
Proof. reflexivity. Qed.
Lemma cd_bytes_after : forall files, cd_bytes (map after_write files) = cd_bytes files.
Proof. induction files as [|f fs IH]; [reflexivity|]. cbn [map]. now rewrite !cd_bytes_cons, IH, dir_header_after. Qed.
Lemma min_version_after : forall files mv,
  fold_left (fun mv f => if wd_version_raise (e_reader f) mv then e_reader f else mv) (map after_write files) mv =
  fold_left (fun mv f => if wd_version_raise (e_reader f) mv then e_reader f else mv) files mv.
Proof. induction files as [|f fs IH]; intros mv; [reflexivity|]. cbn [map fold_left]. apply IH. Qed.
Theorem second_write_same : forall files dirloc force,
  fst (write_directory_l (snd (write_directory_l files dirloc force)) dirloc force) = fst (write_directory_l files dirloc force).
Proof.
  intros files dirloc force. rewrite !write_directory_l_model. cbn [fst snd].
  rewrite cd_bytes_after. f_equal.
  rewrite <- !wd_tail_of_model. rewrite cd_bytes_after. unfold wd_min_version. rewrite min_version_after.
  unfold zlen. now rewrite map_length.
Qed.

(* ------------------------------------------------------------------ Mangle = the AddFile sequence of the kept members *)
Fixpoint src_total (src : list msrc) : Z := match src with [] => 0 | m :: r => ms_size m + src_total r end.
Definition src_cuts (src : list msrc) : list (Z * Z) :=
  map (fun m => (e_offset (ms_ent m), ms_size m)) (filter ms_del src).
Lemma src_total_nonneg : forall src pos, contiguous src pos -> 0 <= src_total src.
Proof. induction src as [|m r IH]; intros pos H; cbn in *; [lia|]. destruct H as (_ & Hs & Hr). specialize (IH _ Hr). lia. Qed.

Lemma mangle_walk_run : forall src pos out dl cuts,
  contiguous src pos -> 0 <= pos -> pos + src_total src < 2 ^ 63 ->
  mangle_walk_l src pos out dl cuts =
  Ok (fst (wrun_from (out, dl) (kept_ops src)), snd (wrun_from (out, dl) (kept_ops src)), cuts ++ src_cuts src, pos + src_total src).
Proof.
  induction src as [|m r IH]; intros pos out dl cuts Hc Hp Hb.
  - cbn. now rewrite app_nil_r, Z.add_0_r.
  - cbn [contiguous src_total] in Hc, Hb. destruct Hc as (Ho & Hs & Hr).
    pose proof (src_total_nonneg r _ Hr) as Ht.
    cbn [mangle_walk_l]. rewrite to_i64_small by lia. rewrite Ho.
    unfold cc_refuse. rewrite Z.eqb_refl. cbn [negb]. change cc_advances with true. cbv iota.
    unfold mg_delete_branch, kept_ops, src_cuts. cbn [filter map src_total].
    destruct (ms_del m); cbn [negb map].
    + rewrite IH by (try assumption; lia). rewrite <- app_assoc, Ho. cbn [app].
      replace (pos + (ms_size m + src_total r)) with (pos + ms_size m + src_total r) by lia. reflexivity.
    + rewrite IH by (try assumption; lia). unfold wrun_from. cbn [fold_left wstep fst snd].
      replace (pos + (ms_size m + src_total r)) with (pos + ms_size m + src_total r) by lia. reflexivity.
Qed.
Theorem mangle_is_addfile_sequence : forall src dirloc,
  contiguous src 0 -> src_total src = dirloc -> dirloc < 2 ^ 63 ->
  mangle_l src dirloc = Ok (fst (wrun (kept_ops src)), snd (wrun (kept_ops src)), src_cuts src).
Proof.
  intros src dirloc Hc Ht Hb. unfold mangle_l. rewrite mangle_walk_run by (try assumption; lia). cbn [bind snd fst].
  unfold mg_end_refuse. rewrite Z.add_0_l, Ht, Z.eqb_refl. reflexivity.
Qed.
(* a source that is not laid out back to back in directory order is refused (no directory is produced) *)
Theorem mangle_refuses_gap : forall m r pos out dl cuts,
  0 <= e_offset (ms_ent m) < 2 ^ 63 -> e_offset (ms_ent m) <> pos -> mangle_walk_l (m :: r) pos out dl cuts = Err E_NOTCONTIG.
Proof.
  intros m r pos out dl cuts Ho Hne. cbn [mangle_walk_l]. rewrite to_i64_small by lia. unfold cc_refuse.
  replace (e_offset (ms_ent m) =? pos) with false by lia. reflexivity.
Qed.

(* ------------------------------------------------------------------ cached entries that relic wrote itself satisfy raw_ok *)
Lemma raw_ok_own_entry g : ent_ok g -> 0 <= e_offset g < 2 ^ 64 ->
  forall x, raw_ok (mkEnt (e_creator g) (e_reader g) (e_flags g) (e_method g) (e_mtime g) (e_mdate g) (e_crc g) (e_csize g) (e_usize g)
                          (e_name g) x (e_comment g) (e_iattrs g) (e_eattrs g) (e_offset g) (regen_header g)).
Proof. intros Hok Ho x. right. intros rest. cbn [e_raw]. rewrite sp_entry_regen by assumption. reflexivity. Qed.
Lemma raw_ok_py_own_entry g : ent_ok g -> tlv (e_extra g) -> 0 <= e_offset g < 2 ^ 64 ->
  forall x, raw_ok_py (mkEnt (e_creator g) (e_reader g) (e_flags g) (e_method g) (e_mtime g) (e_mdate g) (e_crc g) (e_csize g) (e_usize g)
                             (e_name g) x (e_comment g) (e_iattrs g) (e_eattrs g) (e_offset g) (regen_header g)).
Proof. intros Hok Ht Ho x. right. intros rest. cbn [e_raw]. rewrite sp_entry_py_regen by assumption. reflexivity. Qed.

(* ------------------------------------------------------------------ witnesses *)
(* a 4 GiB member (only its length) followed by a small one: the second entry needs a ZIP64 record *)
Definition w_big : nfl := mkNfl [98] [] 4294967296 4294967296 7 0 0 0 false.
Definition w_small : nfl := mkNfl [115] [] 3 3 9 0 0 0 true.

(* ------------------------------------------------------------------ cached entries of APPNOTE-built archives satisfy raw_ok *)
Lemma sp_find_z64_skip : forall X, wf_extra X -> forall fuel Y, (length X < fuel)%nat ->
  exists k, sp_find_z64 fuel (X ++ Y) = sp_find_z64 (S k) Y.
Proof.
  induction 1 as [|tag body rest Ht Ht1 Hb Hwf IH]; intros fuel Y Hf.
  - destruct fuel as [|k]; [lia|]. exists k. reflexivity.
  - destruct fuel as [|f]; [lia|].
    pose proof (zlen_nonneg body) as Hb0. pose proof (zlen_nonneg rest). pose proof (zlen_nonneg Y).
    rewrite <- !app_assoc. cbn [sp_find_z64].
    set (extra := le_enc 2 tag ++ le_enc 2 (zlen body) ++ body ++ rest ++ Y).
    assert (Hlen : zlen extra = 4 + zlen body + zlen rest + zlen Y) by (unfold extra; rewrite !zlen_app, !le_enc_zlen; lia).
    assert (Htag : su 0 2 extra = tag) by (unfold extra; apply (dec2_head tag); lia).
    assert (Hsz : su 2 2 extra = zlen body) by (unfold extra; apply (dec2_second tag); lia).
    rewrite Htag, Hsz.
    replace (zlen extra <? 4) with false by lia. replace (zlen extra <? 4 + zlen body) with false by lia.
    replace (tag =? 1) with false by lia.
    assert (Hd : zdrop (4 + zlen body) extra = rest ++ Y).
    { unfold extra. rewrite (app_assoc (le_enc 2 tag)), (app_assoc (_ ++ le_enc 2 (zlen body))).
      apply zdrop_exact_n. rewrite !zlen_app, !le_enc_zlen. lia. }
    rewrite Hd. apply IH.
    rewrite !app_length in Hf. rewrite !le_enc_length in Hf. lia.
Qed.
Lemma sp_take8_no v b : sp_take8 false v b = Some (v, b).
Proof. reflexivity. Qed.

Lemma sp_entry_central m off rest : central_ok m off ->
  sp_entry (sp_central m off ++ rest) = Some (mkSE (m_name m) off (sp_csize m) (m_usize m) (m_crc m), rest).
Proof.
  intros H. destruct H as (_ & _ & _ & _ & _ & _ & Hcrc & _ & _ & Hnl & Hxl & Hkl & Hus & Hcs & Hoff & Hwf).
  pose proof (zlen_nonneg (m_data m)) as Hd0. pose proof (zlen_nonneg (m_name m)). pose proof (zlen_nonneg (sp_cextra m off)).
  pose proof (zlen_nonneg (m_comment m)).
  unfold sp_central. rewrite sp_cdh_vals. change apn_cdh_widths with cdh_widths.
  replace ((enc_struct cdh_widths (cdh_vals m off) ++ m_name m ++ sp_cextra m off ++ m_comment m) ++ rest)
    with (enc_struct cdh_widths (cdh_vals m off) ++ m_name m ++ sp_cextra m off ++ m_comment m ++ rest) by (now rewrite <- !app_assoc).
  rewrite (sp_entry_shape (cdh_vals m off) (m_name m) (sp_cextra m off) (m_comment m) rest);
    [| reflexivity | reflexivity
     | change (nth 10 (cdh_vals m off) 0) with (zlen (m_name m)); apply Z.mod_small; lia
     | change (nth 11 (cdh_vals m off) 0) with (zlen (sp_cextra m off)); apply Z.mod_small; lia
     | change (nth 12 (cdh_vals m off) 0) with (zlen (m_comment m)); apply Z.mod_small; lia ].
  change (nth 7 (cdh_vals m off) 0) with (m_crc m).
  change (nth 8 (cdh_vals m off) 0) with (if sat_c m then A_M32 else sp_csize m).
  change (nth 9 (cdh_vals m off) 0) with (if sat_u m then A_M32 else m_usize m).
  change (nth 16 (cdh_vals m off) 0) with (if sat_o m off then A_M32 else off).
  rewrite (Z.mod_small (m_crc m)) by lia.
  assert (Ec : (if sat_c m then A_M32 else sp_csize m) mod 4294967296 = if sat_c m then S_M32 else sp_csize m).
  { destruct (sat_c m) eqn:E; [reflexivity|]. apply sat_small in E. unfold sp_csize in *. apply Z.mod_small. lia. }
  assert (Eu : (if sat_u m then A_M32 else m_usize m) mod 4294967296 = if sat_u m then S_M32 else m_usize m).
  { destruct (sat_u m) eqn:E; [reflexivity|]. apply sat_small in E. apply Z.mod_small. lia. }
  assert (Eo : (if sat_o m off then A_M32 else off) mod 4294967296 = if sat_o m off then S_M32 else off).
  { destruct (sat_o m off) eqn:E; [reflexivity|]. apply sat_small in E. apply Z.mod_small. lia. }
  rewrite Ec, Eu, Eo. clear Ec Eu Eo.
  unfold ap_tail.
  assert (Nc : ((if sat_c m then S_M32 else sp_csize m) =? S_M32) = sat_c m).
  { destruct (sat_c m) eqn:E; [reflexivity|]. apply sat_small in E. unfold S_M32. lia. }
  assert (Nu : ((if sat_u m then S_M32 else m_usize m) =? S_M32) = sat_u m).
  { destruct (sat_u m) eqn:E; [reflexivity|]. apply sat_small in E. unfold S_M32. lia. }
  assert (No : ((if sat_o m off then S_M32 else off) =? S_M32) = sat_o m off).
  { destruct (sat_o m off) eqn:E; [reflexivity|]. apply sat_small in E. unfold S_M32. lia. }
  rewrite Nc, Nu, No.
  destruct (sat_u m || sat_c m || sat_o m off) eqn:Eany.
  2:{ apply orb_false_iff in Eany as [Eany Eo]. apply orb_false_iff in Eany as [Eu Ec]. rewrite Eu, Ec, Eo. reflexivity. }
  (* a ZIP64 record is present: before or after the other extra data *)
  set (body := (if sat_u m then le_enc 8 (m_usize m) else []) ++ (if sat_c m then le_enc 8 (sp_csize m) else []) ++ (if sat_o m off then le_enc 8 off else [])).
  assert (Hbl : zlen body = (if sat_u m then 8 else 0) + (if sat_c m then 8 else 0) + (if sat_o m off then 8 else 0)).
  { unfold body. rewrite !zlen_app. destruct (sat_u m), (sat_c m), (sat_o m off); rewrite ?le_enc_zlen; reflexivity. }
  assert (Hb0 : zlen body =? 0 = false) by (destruct (sat_u m), (sat_c m), (sat_o m off); try discriminate; lia).
  assert (Hfind : sp_find_z64 (S (length (sp_cextra m off))) (sp_cextra m off) = Some body).
  { unfold sp_cextra, sp_z64rec. fold (sat_u m) (sat_c m) (sat_o m off). fold body. rewrite Hb0.
    destruct (m_z64last m) eqn:El.
    - assert (W : wf_extra (m_cextra m)) by (apply Hwf; first [reflexivity | exact Eany | exact El]).
      destruct (sp_find_z64_skip (m_cextra m) W (S (length (m_cextra m ++ le_enc 2 1 ++ le_enc 2 (zlen body) ++ body)))
                                 (le_enc 2 1 ++ le_enc 2 (zlen body) ++ body)) as (k & ->); [rewrite app_length; lia|].
      rewrite <- (app_nil_r body) at 2. apply sp_find_z64_head. destruct (sat_u m), (sat_c m), (sat_o m off); lia.
    - rewrite <- !app_assoc. apply sp_find_z64_head. destruct (sat_u m), (sat_c m), (sat_o m off); lia. }
  rewrite Hfind. unfold body. unfold sp_csize in *.
  destruct (sat_u m), (sat_c m), (sat_o m off); try discriminate; cbn [app]; rewrite ?app_nil_r;
    repeat first [ rewrite sp_take8_no
                 | rewrite sp_take8_yes by lia
                 | rewrite <- (app_nil_r (le_enc 8 _)); rewrite sp_take8_yes by lia ];
    reflexivity.
Qed.
Lemma raw_ok_parsed m off : central_ok m off -> raw_ok (parsed_ent m off).
Proof. intros H. right. intros rest. cbn [e_raw parsed_ent]. rewrite (sp_entry_central m off rest H). reflexivity. Qed.
(* the zipfile-style reader on the same entries; it walks the whole extra field, so the other extra data must be records *)
Lemma wf_extra_no1 X : wf_extra X -> tlv_no1 X.
Proof.
  induction 1 as [|tag body rest Ht Ht1 Hb Hwf IH]; [apply no1_end; cbn; lia|]. now constructor.
Qed.
Lemma py_scan_nil fuel u c o : py_scan fuel [] u c o = Some (u, c, o).
Proof. destruct fuel; reflexivity. Qed.
Lemma py_scan_skip : forall X, wf_extra X -> forall fuel Y u c o, (length (X ++ Y) < fuel)%nat ->
  exists k, (length Y < S k)%nat /\ py_scan fuel (X ++ Y) u c o = py_scan (S k) Y u c o.
Proof.
  induction 1 as [|tag body rest Ht Ht1 Hb Hwf IH]; intros fuel Y u c o Hf.
  - destruct fuel as [|k]; [lia|]. exists k. split; [exact Hf|reflexivity].
  - destruct fuel as [|f]; [lia|].
    pose proof (zlen_nonneg body) as Hb0. pose proof (zlen_nonneg rest). pose proof (zlen_nonneg Y).
    rewrite <- !app_assoc. cbn [py_scan].
    set (extra := le_enc 2 tag ++ le_enc 2 (zlen body) ++ body ++ rest ++ Y).
    assert (Hlen : zlen extra = 4 + zlen body + zlen rest + zlen Y) by (unfold extra; rewrite !zlen_app, !le_enc_zlen; lia).
    assert (Htag : su 0 2 extra = tag) by (unfold extra; apply (dec2_head tag); lia).
    assert (Hsz : su 2 2 extra = zlen body) by (unfold extra; apply (dec2_second tag); lia).
    rewrite Htag, Hsz.
    replace (zlen extra <? 4) with false by lia. replace (zlen extra <? zlen body + 4) with false by lia.
    replace (tag =? 1) with false by lia.
    assert (Hd : zdrop (4 + zlen body) extra = rest ++ Y).
    { unfold extra. rewrite (app_assoc (le_enc 2 tag)), (app_assoc (_ ++ le_enc 2 (zlen body))).
      apply zdrop_exact_n. rewrite !zlen_app, !le_enc_zlen. lia. }
    rewrite Hd. apply IH.
    rewrite <- !app_assoc in Hf. rewrite !app_length in Hf. rewrite !le_enc_length in Hf. rewrite app_length. lia.
Qed.

Lemma sp_entry_py_central m off rest : central_ok m off -> wf_extra (m_cextra m) ->
  sp_entry_py (sp_central m off ++ rest) = Some (mkSE (m_name m) off (sp_csize m) (m_usize m) (m_crc m), rest).
Proof.
  intros H W. destruct H as (_ & _ & _ & _ & _ & _ & Hcrc & _ & _ & Hnl & Hxl & Hkl & Hus & Hcs & Hoff & _).
  pose proof (zlen_nonneg (m_data m)) as Hd0. pose proof (zlen_nonneg (m_name m)). pose proof (zlen_nonneg (sp_cextra m off)).
  pose proof (zlen_nonneg (m_comment m)).
  unfold sp_central. rewrite sp_cdh_vals. change apn_cdh_widths with cdh_widths.
  replace ((enc_struct cdh_widths (cdh_vals m off) ++ m_name m ++ sp_cextra m off ++ m_comment m) ++ rest)
    with (enc_struct cdh_widths (cdh_vals m off) ++ m_name m ++ sp_cextra m off ++ m_comment m ++ rest) by (now rewrite <- !app_assoc).
  rewrite (sp_entry_py_shape (cdh_vals m off) (m_name m) (sp_cextra m off) (m_comment m) rest);
    [| reflexivity | reflexivity
     | change (nth 10 (cdh_vals m off) 0) with (zlen (m_name m)); apply Z.mod_small; lia
     | change (nth 11 (cdh_vals m off) 0) with (zlen (sp_cextra m off)); apply Z.mod_small; lia
     | change (nth 12 (cdh_vals m off) 0) with (zlen (m_comment m)); apply Z.mod_small; lia ].
  change (nth 7 (cdh_vals m off) 0) with (m_crc m).
  change (nth 8 (cdh_vals m off) 0) with (if sat_c m then A_M32 else sp_csize m).
  change (nth 9 (cdh_vals m off) 0) with (if sat_u m then A_M32 else m_usize m).
  change (nth 16 (cdh_vals m off) 0) with (if sat_o m off then A_M32 else off).
  rewrite (Z.mod_small (m_crc m)) by lia.
  assert (Ec : (if sat_c m then A_M32 else sp_csize m) mod 4294967296 = if sat_c m then S_M32 else sp_csize m).
  { destruct (sat_c m) eqn:E; [reflexivity|]. apply sat_small in E. unfold sp_csize in *. apply Z.mod_small. lia. }
  assert (Eu : (if sat_u m then A_M32 else m_usize m) mod 4294967296 = if sat_u m then S_M32 else m_usize m).
  { destruct (sat_u m) eqn:E; [reflexivity|]. apply sat_small in E. apply Z.mod_small. lia. }
  assert (Eo : (if sat_o m off then A_M32 else off) mod 4294967296 = if sat_o m off then S_M32 else off).
  { destruct (sat_o m off) eqn:E; [reflexivity|]. apply sat_small in E. apply Z.mod_small. lia. }
  rewrite Ec, Eu, Eo. clear Ec Eu Eo.
  set (u0 := if sat_u m then S_M32 else m_usize m). set (c0 := if sat_c m then S_M32 else sp_csize m).
  set (o0 := if sat_o m off then S_M32 else off).
  assert (Nu : ((u0 =? 18446744073709551615) || (u0 =? S_M32)) = sat_u m).
  { unfold u0. destruct (sat_u m) eqn:E; [reflexivity|]. apply sat_small in E. unfold S_M32. lia. }
  assert (Nc : (c0 =? S_M32) = sat_c m).
  { unfold c0. destruct (sat_c m) eqn:E; [reflexivity|]. apply sat_small in E. unfold S_M32. lia. }
  assert (No : (o0 =? S_M32) = sat_o m off).
  { unfold o0. destruct (sat_o m off) eqn:E; [reflexivity|]. apply sat_small in E. unfold S_M32. lia. }
  unfold py_tail.
  set (body := (if sat_u m then le_enc 8 (m_usize m) else []) ++ (if sat_c m then le_enc 8 (sp_csize m) else []) ++ (if sat_o m off then le_enc 8 off else [])).
  assert (Hbl : zlen body = (if sat_u m then 8 else 0) + (if sat_c m then 8 else 0) + (if sat_o m off then 8 else 0)).
  { unfold body. rewrite !zlen_app. destruct (sat_u m), (sat_c m), (sat_o m off); rewrite ?le_enc_zlen; reflexivity. }
  pose proof (wf_extra_no1 _ W) as W1.
  destruct (sat_u m || sat_c m || sat_o m off) eqn:Eany.
  2:{ (* no field saturated: no record is consulted *)
    apply orb_false_iff in Eany as [Eany Eo]. apply orb_false_iff in Eany as [Eu Ec].
    assert (Hx : sp_cextra m off = m_cextra m).
    { unfold sp_cextra, sp_z64rec. fold (sat_u m) (sat_c m) (sat_o m off). rewrite Eu, Ec, Eo. cbn [app]. change (zlen (@nil Z) =? 0) with true. cbv iota.
      destruct (m_z64last m); [apply app_nil_r|reflexivity]. }
    rewrite Hx. rewrite py_scan_no1 by (try exact W1; lia).
    unfold u0, c0, o0. rewrite Eu, Ec, Eo. reflexivity. }
  assert (Hb0 : zlen body =? 0 = false) by (destruct (sat_u m), (sat_c m), (sat_o m off); try discriminate; lia).
  assert (Hb1 : zlen body < 65536) by (destruct (sat_u m), (sat_c m), (sat_o m off); lia).
  (* reach the ZIP64 record, then nothing after it changes the values *)
  assert (Hscan : exists k Y, (forall u c o, py_scan k Y u c o = Some (u, c, o)) /\
            py_scan (S (length (sp_cextra m off))) (sp_cextra m off) u0 c0 o0 =
            py_scan (S k) (le_enc 2 1 ++ le_enc 2 (zlen body) ++ body ++ Y) u0 c0 o0).
  { unfold sp_cextra, sp_z64rec. fold (sat_u m) (sat_c m) (sat_o m off). fold body. rewrite Hb0.
    destruct (m_z64last m).
    - destruct (py_scan_skip (m_cextra m) W (S (length (m_cextra m ++ le_enc 2 1 ++ le_enc 2 (zlen body) ++ body)))
                             (le_enc 2 1 ++ le_enc 2 (zlen body) ++ body) u0 c0 o0 ltac:(lia)) as (k & Hk & ->).
      exists k, []. split; [intros; apply py_scan_nil|]. now rewrite app_nil_r.
    - exists (length ((le_enc 2 1 ++ le_enc 2 (zlen body) ++ body) ++ m_cextra m)), (m_cextra m). split.
      + intros u c o. apply py_scan_no1; [exact W1|]. rewrite !app_length, !le_enc_length. lia.
      + now rewrite <- !app_assoc. }
  destruct Hscan as (k & Y & HY & ->).
  rewrite py_scan_head by exact Hb1. rewrite Nu, Nc, No.
  unfold body, u0, c0, o0. unfold sp_csize in *.
  destruct (sat_u m), (sat_c m), (sat_o m off); try discriminate; cbn [app]; rewrite ?app_nil_r;
    repeat first [ rewrite sp_take8_no
                 | rewrite sp_take8_yes by lia
                 | rewrite <- (app_nil_r (le_enc 8 _)); rewrite sp_take8_yes by lia ];
    rewrite HY; reflexivity.
Qed.
Lemma raw_ok_py_parsed m off : central_ok m off -> wf_extra (m_cextra m) -> raw_ok_py (parsed_ent m off).
Proof. intros H W. right. intros rest. cbn [e_raw parsed_ent]. rewrite (sp_entry_py_central m off rest H W). reflexivity. Qed.

(* a member kept from an archive of class K, as the callers hand it to AddFile (GetTotalSize has stored the descriptor's CRC,
   which is the directory's CRC there): the hypotheses of rewrite_directory_spec_read hold *)
Lemma kept_member_op_ok m off size :
  central_ok m off -> zlen (sp_cextra m off) + 28 < 65536 -> 0 <= size ->
  op_ok (WAdd (with_crc (parsed_ent m off) (m_crc m)) size).
Proof.
  intros H Hx Hs. pose proof (raw_ok_parsed m off H) as R.
  destruct H as (_ & _ & _ & _ & _ & _ & Hcrc & _ & _ & Hnl & Hxl & Hkl & Hus & Hcs & Hoff & Hwf).
  pose proof (zlen_nonneg (m_data m)).
  cbn [op_ok]. split; [|split; [exact R | exact Hs]].
  unfold ent_ok, with_crc, parsed_ent, sp_csize in *. cbn [e_crc e_csize e_usize e_name e_extra e_comment]. repeat split; lia.
Qed.

(* the offsets AddFile assigns during Mangle are the physical positions after the deleted ranges are cut out *)
Lemma mangle_offsets_physical : forall src pos removed vs,
  contiguous src pos ->
  fst (intended_from (vs, pos - removed) (kept_ops src)) = vs ++ kept_views src removed.
Proof.
  induction src as [|m r IH]; intros pos removed vs Hc; [cbn; now rewrite app_nil_r|].
  cbn [contiguous] in Hc. destruct Hc as (Ho & Hs & Hr).
  unfold kept_ops in *. cbn [filter kept_views]. destruct (ms_del m); cbn [negb map].
  - replace (pos - removed) with (pos + ms_size m - (removed + ms_size m)) by lia. now apply IH.
  - unfold intended_from in *. cbn [fold_left intended_step fst snd].
    replace (pos - removed + ms_size m) with (pos + ms_size m - removed) by lia.
    rewrite (IH _ removed _ Hr). rewrite <- app_assoc. cbn [app]. now rewrite Ho.
Qed.

(* the extra field of a class-K entry is walkable *)
Lemma wf_extra_tlv_app X Y : wf_extra X -> tlv Y -> tlv (X ++ Y).
Proof.
  induction 1 as [|tag body rest Ht Ht1 Hb Hwf IH]; intros HY; [exact HY|].
  rewrite <- !app_assoc. constructor; [assumption|assumption|now apply IH].
Qed.
Lemma tlv_cextra m off : wf_extra (m_cextra m) -> tlv (sp_cextra m off).
Proof.
  intros W. unfold sp_cextra, sp_z64rec.
  set (body := (if sat (m_satu m) (m_usize m) then le_enc 8 (m_usize m) else []) ++ (if sat (m_satc m) (sp_csize m) then le_enc 8 (sp_csize m) else []) ++
               (if sat (m_sato m) off then le_enc 8 off else [])).
  assert (Hb : zlen body < 65536).
  { unfold body. rewrite !zlen_app. destruct (sat _ _), (sat _ _), (sat _ _); rewrite ?le_enc_zlen; cbn; lia. }
  assert (T0 : tlv []) by (apply tlv_end; cbn; lia).
  assert (TW : tlv (m_cextra m)) by (rewrite <- (app_nil_r (m_cextra m)); now apply wf_extra_tlv_app).
  destruct (zlen body =? 0).
  - destruct (m_z64last m); [now rewrite app_nil_r | exact TW].
  - destruct (m_z64last m).
    + apply wf_extra_tlv_app; [exact W|].
      replace (le_enc 2 1 ++ le_enc 2 (zlen body) ++ body) with (le_enc 2 1 ++ le_enc 2 (zlen body) ++ body ++ []) by (now rewrite app_nil_r).
      constructor; [lia|exact Hb|exact T0].
    + rewrite <- !app_assoc. constructor; [lia|exact Hb|exact TW].
Qed.
Lemma kept_member_op_ok_py m off size :
  central_ok m off -> wf_extra (m_cextra m) -> zlen (sp_cextra m off) + 28 < 65536 -> 0 <= size ->
  op_ok_py (WAdd (with_crc (parsed_ent m off) (m_crc m)) size).
Proof.
  intros H W Hx Hs. pose proof (raw_ok_py_parsed m off H W) as R. pose proof (tlv_cextra m off W) as T.
  destruct H as (_ & _ & _ & _ & _ & _ & Hcrc & _ & _ & Hnl & Hxl & Hkl & Hus & Hcs & Hoff & Hwf).
  pose proof (zlen_nonneg (m_data m)).
  cbn [op_ok_py]. split; [|split; [exact R | split; [exact Hs | exact T]]].
  unfold ent_ok, with_crc, parsed_ent, sp_csize in *. cbn [e_crc e_csize e_usize e_name e_extra e_comment]. repeat split; lia.
Qed.
