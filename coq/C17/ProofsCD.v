(* C17/ProofsCD.v — ReadWithDirectory on APPNOTE-built central directories (incl. the ZIP64 extra scan),
   re-emission, the whole-archive round trip, and the writer. *)
From Relic Require Import Base.Prelude Base.Enc Generated.C17_gen C17.Model C17.Bytes C17.Proofs.

(* ------------------------------------------------------------------ the ZIP64 extra scan *)
Lemma z64_scan_noneed : forall fuel extra st, z_need_c st = false -> z_need_o st = false ->
  z64_scan fuel extra false st = st.
Proof.
  induction fuel as [|k IH]; intros extra st Hc Ho; cbn [z64_scan]; [reflexivity|].
  destruct (negb (rwd_extra_loop (zlen extra))); [reflexivity|].
  destruct (rwd_rec_overrun _ _); [reflexivity|].
  destruct (rwd_is_zip64_tag _).
  - unfold rwd_take_u, rwd_take_c, rwd_take_o. rewrite Hc, Ho. cbn [andb]. destruct st; reflexivity.
  - now apply IH.
Qed.

Lemma dec2_head t R : 0 <= t < 65536 -> le_dec (zslice 0 2 (le_enc 2 t ++ R)) = t.
Proof. intros H. rewrite zslice_0, ztake_exact_n by now rewrite le_enc_zlen. now apply le_dec_enc_small. Qed.
Lemma dec2_second t n R : 0 <= n < 65536 -> le_dec (zslice 2 4 (le_enc 2 t ++ le_enc 2 n ++ R)) = n.
Proof. intros H. rewrite zslice_mid by (rewrite ?le_enc_zlen; reflexivity). now apply le_dec_enc_small. Qed.

Lemma z64_scan_skip : forall X, wf_extra X -> forall fuel Z need_u st, (length X < fuel)%nat ->
  exists k, z64_scan fuel (X ++ Z) need_u st = z64_scan (S k) Z need_u st.
Proof.
  induction 1 as [|tag body rest Ht Ht1 Hb Hwf IH]; intros fuel Z need_u st Hf.
  - destruct fuel as [|k]; [lia|]. exists k. reflexivity.
  - destruct fuel as [|f]; [lia|].
    pose proof (zlen_nonneg body) as Hb0. pose proof (zlen_nonneg rest). pose proof (zlen_nonneg Z).
    rewrite <- !app_assoc. cbn [z64_scan].
    set (extra := le_enc 2 tag ++ le_enc 2 (zlen body) ++ body ++ rest ++ Z).
    assert (Hlen : zlen extra = 4 + zlen body + zlen rest + zlen Z) by (unfold extra; rewrite !zlen_app, !le_enc_zlen; lia).
    unfold rwd_extra_loop. replace (zlen extra >=? 4) with true by lia. cbn [negb].
    unfold extra at 2 3. rewrite dec2_head, dec2_second by lia.
    unfold rwd_rec_overrun. replace (zlen body >? zlen extra - 4) with false by lia.
    unfold rwd_is_zip64_tag. replace (tag =? 1) with false by lia.
    assert (Hd : zdrop (4 + zlen body) extra = rest ++ Z).
    { unfold extra. rewrite (app_assoc (le_enc 2 tag)), (app_assoc (_ ++ le_enc 2 (zlen body))).
      apply zdrop_exact_n. rewrite !zlen_app, !le_enc_zlen. lia. }
    rewrite Hd. apply IH.
    rewrite !app_length in Hf. rewrite !le_enc_length in Hf. lia.
Qed.

Lemma z64_scan_head : forall k body Y need_u st, 0 < zlen body < 65536 ->
  z64_scan (S k) (le_enc 2 1 ++ le_enc 2 (zlen body) ++ body ++ Y) need_u st =
  mkZ (if rwd_take_u need_u (zlen body) then le_dec (zslice 0 8 body) else z_usize st)
      (if rwd_take_c (z_need_c st) (zlen body) then le_dec (zslice 8 16 body) else z_csize st)
      (if rwd_take_o (z_need_o st) (zlen body) then le_dec (zslice 16 24 body) else z_offset st)
      (if rwd_take_c (z_need_c st) (zlen body) then rwd_need_c_after else z_need_c st)
      (if rwd_take_o (z_need_o st) (zlen body) then rwd_need_o_after else z_need_o st).
Proof.
  intros k body Y need_u st Hb. pose proof (zlen_nonneg Y).
  cbn [z64_scan].
  set (extra := le_enc 2 1 ++ le_enc 2 (zlen body) ++ body ++ Y).
  assert (Hlen : zlen extra = 4 + zlen body + zlen Y) by (unfold extra; rewrite !zlen_app, !le_enc_zlen; lia).
  unfold rwd_extra_loop. replace (zlen extra >=? 4) with true by lia. cbn [negb].
  unfold extra at 2 3. rewrite dec2_head, dec2_second by lia.
  unfold rwd_rec_overrun. replace (zlen body >? zlen extra - 4) with false by lia.
  change (rwd_is_zip64_tag 1) with true. cbv iota.
  assert (He : zslice 4 (4 + zlen body) extra = body).
  { unfold extra. rewrite (app_assoc (le_enc 2 1)). apply zslice_mid; rewrite ?zlen_app, ?le_enc_zlen; lia. }
  rewrite He. reflexivity.
Qed.

(* 8-byte fields inside a ZIP64 record body *)
Lemma dec8_at a x R p q : p = zlen a -> q = zlen a + 8 -> 0 <= x < 2 ^ 64 -> le_dec (zslice p q (a ++ le_enc 8 x ++ R)) = x.
Proof. intros -> -> H. rewrite zslice_mid by (rewrite ?le_enc_zlen; reflexivity). now apply le_dec_enc_small. Qed.

(* the scan on the central extra field of a spec-built entry restores the 64-bit values *)
Lemma z64_scan_central : forall m off,
  central_ok m off ->
  let u0 := if sat_u m then A_M32 else m_usize m in
  let c0 := if sat_c m then A_M32 else sp_csize m in
  let o0 := if sat_o m off then A_M32 else off in
  let st := z64_scan (length (sp_cextra m off)) (sp_cextra m off) (rwd_need_u u0) (mkZ u0 c0 o0 (rwd_need_c c0) (rwd_need_o o0)) in
  z_usize st = m_usize m /\ z_csize st = sp_csize m /\ z_offset st = off /\ z_need_c st = false /\ z_need_o st = false.
Proof.
  intros m off H. destruct H as (_ & _ & _ & _ & _ & _ & _ & _ & _ & _ & Hxl & _ & Hus & Hcs & Hoff & Hoc & Hcu & Hwf).
  pose proof (zlen_nonneg (m_data m)) as Hd0. unfold sp_csize in *.
  cbv zeta.
  assert (Hnu : rwd_need_u (if sat_u m then A_M32 else m_usize m) = sat_u m).
  { unfold rwd_need_u. destruct (sat_u m) eqn:E; [reflexivity|]. unfold sat_u, sat in E. apply orb_false_iff in E as [_ E]. unfold A_M32 in E. lia. }
  assert (Hnc : rwd_need_c (if sat_c m then A_M32 else zlen (m_data m)) = sat_c m).
  { unfold rwd_need_c. destruct (sat_c m) eqn:E; [reflexivity|]. unfold sat_c, sat, sp_csize in E. apply orb_false_iff in E as [_ E]. unfold A_M32 in E. lia. }
  assert (Hno : rwd_need_o (if sat_o m off then A_M32 else off) = sat_o m off).
  { unfold rwd_need_o. destruct (sat_o m off) eqn:E; [reflexivity|]. unfold sat_o, sat in E. apply orb_false_iff in E as [_ E]. unfold A_M32 in E. lia. }
  rewrite Hnu, Hnc, Hno.
  unfold sp_cextra, sp_z64rec. fold (sat_u m) (sat_c m) (sat_o m off). fold (sp_csize m). unfold sp_csize.
  destruct (sat_u m) eqn:Eu.
  2:{ (* nothing saturated *)
    assert (Ec : sat_c m = false) by (destruct (sat_c m); [specialize (Hcu eq_refl); congruence|reflexivity]).
    assert (Eo : sat_o m off = false) by (destruct (sat_o m off); [specialize (Hoc eq_refl); congruence|reflexivity]).
    rewrite Ec, Eo. rewrite z64_scan_noneed by reflexivity. cbn. auto. }
  set (body := le_enc 8 (m_usize m) ++ (if sat_c m then le_enc 8 (zlen (m_data m)) else []) ++ (if sat_o m off then le_enc 8 off else [])).
  assert (Hbl : zlen body = 8 + (if sat_c m then 8 else 0) + (if sat_o m off then 8 else 0)).
  { unfold body. rewrite !zlen_app, le_enc_zlen. destruct (sat_c m), (sat_o m off); rewrite ?le_enc_zlen; reflexivity. }
  assert (Hb0 : zlen body =? 0 = false) by (destruct (sat_c m), (sat_o m off); lia).
  rewrite Hb0.
  set (REC := le_enc 2 1 ++ le_enc 2 (zlen body) ++ body).
  assert (Hscan : forall fuel X Y, wf_extra X -> (length X < fuel)%nat -> forall st,
            z64_scan fuel (X ++ REC ++ Y) true st =
            mkZ (if rwd_take_u true (zlen body) then le_dec (zslice 0 8 body) else z_usize st)
                (if rwd_take_c (z_need_c st) (zlen body) then le_dec (zslice 8 16 body) else z_csize st)
                (if rwd_take_o (z_need_o st) (zlen body) then le_dec (zslice 16 24 body) else z_offset st)
                (if rwd_take_c (z_need_c st) (zlen body) then rwd_need_c_after else z_need_c st)
                (if rwd_take_o (z_need_o st) (zlen body) then rwd_need_o_after else z_need_o st)).
  { intros fuel X Y HX Hf st. destruct (z64_scan_skip X HX fuel (REC ++ Y) true st Hf) as (k & ->).
    unfold REC. rewrite <- !app_assoc. apply z64_scan_head. destruct (sat_c m), (sat_o m off); lia. }
  assert (Hres : forall st, z_usize st = A_M32 -> z_csize st = (if sat_c m then A_M32 else zlen (m_data m)) ->
            z_offset st = (if sat_o m off then A_M32 else off) -> z_need_c st = sat_c m -> z_need_o st = sat_o m off ->
            let r := mkZ (if rwd_take_u true (zlen body) then le_dec (zslice 0 8 body) else z_usize st)
                (if rwd_take_c (z_need_c st) (zlen body) then le_dec (zslice 8 16 body) else z_csize st)
                (if rwd_take_o (z_need_o st) (zlen body) then le_dec (zslice 16 24 body) else z_offset st)
                (if rwd_take_c (z_need_c st) (zlen body) then rwd_need_c_after else z_need_c st)
                (if rwd_take_o (z_need_o st) (zlen body) then rwd_need_o_after else z_need_o st) in
            z_usize r = m_usize m /\ z_csize r = zlen (m_data m) /\ z_offset r = off /\ z_need_c r = false /\ z_need_o r = false).
  { intros st H1 H2 H3 H4 H5. cbv zeta. cbn [z_usize z_csize z_offset z_need_c z_need_o]. rewrite H4, H5.
    unfold rwd_take_u, rwd_take_c, rwd_take_o, rwd_need_c_after, rwd_need_o_after. rewrite Hbl.
    destruct (sat_c m) eqn:Ec; destruct (sat_o m off) eqn:Eo; try (specialize (Hoc eq_refl); congruence);
      unfold body; rewrite ?Ec, ?Eo; cbn [andb]; rewrite ?app_nil_r.
    - replace (8 + 8 + 8 >=? 8) with true by lia. replace (8 + 8 + 8 >=? 16) with true by lia. replace (8 + 8 + 8 >=? 24) with true by lia.
      repeat split; try reflexivity.
      + rewrite <- (app_nil_l (le_enc 8 (m_usize m) ++ _)). apply dec8_at; try reflexivity; lia.
      + apply (dec8_at (le_enc 8 (m_usize m))); rewrite ?le_enc_zlen; try reflexivity; lia.
      + rewrite (app_assoc (le_enc 8 (m_usize m))). rewrite <- (app_nil_r (le_enc 8 off)).
        apply dec8_at; rewrite ?zlen_app, ?le_enc_zlen; try reflexivity; lia.
    - replace (8 + 8 + 0 >=? 8) with true by lia. replace (8 + 8 + 0 >=? 16) with true by lia.
      repeat split; try reflexivity; try assumption.
      + rewrite <- (app_nil_l (le_enc 8 (m_usize m) ++ _)). apply dec8_at; try reflexivity; lia.
      + rewrite <- (app_nil_r (le_enc 8 (zlen (m_data m)))). apply (dec8_at (le_enc 8 (m_usize m))); rewrite ?le_enc_zlen; try reflexivity; lia.
    - replace (8 + 0 + 0 >=? 8) with true by lia.
      repeat split; try reflexivity; try assumption.
      rewrite <- (app_nil_l (le_enc 8 (m_usize m))), <- (app_nil_r (le_enc 8 (m_usize m))). rewrite <- app_assoc. apply dec8_at; try reflexivity; lia. }
  destruct (m_z64last m) eqn:El.
  - rewrite <- (app_nil_r (m_cextra m ++ REC)), <- app_assoc.
    rewrite Hscan; [|now apply Hwf|rewrite !app_length; unfold REC; rewrite !app_length, !le_enc_length; lia].
    now apply Hres.
  - rewrite <- (app_nil_l (REC ++ m_cextra m)).
    rewrite Hscan; [|constructor|cbn [length app]; unfold REC; rewrite !app_length, !le_enc_length; lia].
    now apply Hres.
Qed.
