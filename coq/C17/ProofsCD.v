(* C17/ProofsCD.v — ReadWithDirectory on APPNOTE-built central directories (incl. the ZIP64 extra scan),
   re-emission, the whole-archive round trip, and the writer. *)
From Relic Require Import Base.Prelude Base.Enc Generated.C17_gen C17.Model C17.Bytes C17.Proofs.

(* ------------------------------------------------------------------ the ZIP64 extra scan *)
Lemma z64_scan_noneed : forall fuel extra st, z_need_c st = false -> z_need_o st = false ->
  z64_scan fuel extra false st = st.
Proof.
  induction fuel as [|k IH]; intros extra st Hc Ho; cbn [z64_scan]; [reflexivity|].
  destruct (negb (rwd_extra_loop (zlen extra))); [reflexivity|].
  destruct (rwd_rec_overrun _ _); [reflexivity|].
  destruct (rwd_is_zip64_tag _).
  - unfold rwd_seq_u, rwd_seq_c, rwd_seq_o, rwd_take_u, rwd_take_c, rwd_take_o. rewrite Hc, Ho. cbn [andb].
    destruct st; cbn in Hc, Ho; subst. destruct (rwd_exact_rec _ _); reflexivity.
  - now apply IH.
Qed.

Lemma dec2_head t R : 0 <= t < 65536 -> le_dec (zslice 0 2 (le_enc 2 t ++ R)) = t.
Proof. intros H. rewrite zslice_0, ztake_exact_n by now rewrite le_enc_zlen. now apply le_dec_enc_small. Qed.
Lemma dec2_second t n R : 0 <= n < 65536 -> le_dec (zslice 2 4 (le_enc 2 t ++ le_enc 2 n ++ R)) = n.
Proof. intros H. rewrite zslice_mid by (rewrite ?le_enc_zlen; reflexivity). now apply le_dec_enc_small. Qed.

Lemma z64_scan_skip : forall X, wf_extra X -> forall fuel Z need_u st, (length X < fuel)%nat ->
  exists k, z64_scan fuel (X ++ Z) need_u st = z64_scan (S k) Z need_u st.
Proof.
  induction 1 as [|tag body rest Ht Ht1 Hb Hwf IH]; intros fuel Z need_u st Hf.
  - destruct fuel as [|k]; [lia|]. exists k. reflexivity.
  - destruct fuel as [|f]; [lia|].
    pose proof (zlen_nonneg body) as Hb0. pose proof (zlen_nonneg rest). pose proof (zlen_nonneg Z).
    rewrite <- !app_assoc. cbn [z64_scan].
    set (extra := le_enc 2 tag ++ le_enc 2 (zlen body) ++ body ++ rest ++ Z).
    assert (Hlen : zlen extra = 4 + zlen body + zlen rest + zlen Z) by (unfold extra; rewrite !zlen_app, !le_enc_zlen; lia).
    unfold rwd_extra_loop. replace (zlen extra >=? 4) with true by lia. cbn [negb].
    assert (Htag : le_dec (zslice 0 2 extra) = tag) by (unfold extra; apply dec2_head; lia).
    assert (Hsz : le_dec (zslice 2 4 extra) = zlen body) by (unfold extra; apply dec2_second; lia).
    rewrite Htag, Hsz.
    unfold rwd_rec_overrun. replace (zlen body >? zlen extra - 4) with false by lia.
    unfold rwd_is_zip64_tag. replace (tag =? 1) with false by lia.
    assert (Hd : zdrop (4 + zlen body) extra = rest ++ Z).
    { unfold extra. rewrite (app_assoc (le_enc 2 tag)), (app_assoc (_ ++ le_enc 2 (zlen body))).
      apply zdrop_exact_n. rewrite !zlen_app, !le_enc_zlen. lia. }
    rewrite Hd. apply IH.
    rewrite !app_length in Hf. rewrite !le_enc_length in Hf. lia.
Qed.

Lemma z64_scan_head : forall k body Y need_u st, 0 < zlen body < 65536 ->
  z64_scan (S k) (le_enc 2 1 ++ le_enc 2 (zlen body) ++ body ++ Y) need_u st =
  let size := zlen body in
  let e := body in
  let needed := (if need_u then 1 else 0) + (if z_need_c st then 1 else 0) + (if z_need_o st then 1 else 0) in
  if rwd_exact_rec size needed then
    let u := if rwd_seq_u need_u then le_dec (zslice 0 8 e) else z_usize st in
    let e1 := if rwd_seq_u need_u then zdrop 8 e else e in
    let c := if rwd_seq_c (z_need_c st) then le_dec (zslice 0 8 e1) else z_csize st in
    let nc := if rwd_seq_c (z_need_c st) then rwd_need_c_after else z_need_c st in
    let e2 := if rwd_seq_c (z_need_c st) then zdrop 8 e1 else e1 in
    let o := if rwd_seq_o (z_need_o st) then le_dec (zslice 0 8 e2) else z_offset st in
    let no := if rwd_seq_o (z_need_o st) then rwd_need_o_after else z_need_o st in
    mkZ u c o nc no
  else
    mkZ (if rwd_take_u need_u size then le_dec (zslice 0 8 e) else z_usize st)
        (if rwd_take_c (z_need_c st) size then le_dec (zslice 8 16 e) else z_csize st)
        (if rwd_take_o (z_need_o st) size then le_dec (zslice 16 24 e) else z_offset st)
        (if rwd_take_c (z_need_c st) size then rwd_need_c_after else z_need_c st)
        (if rwd_take_o (z_need_o st) size then rwd_need_o_after else z_need_o st).
Proof.
  intros k body Y need_u st Hb. pose proof (zlen_nonneg Y).
  cbn [z64_scan].
  set (extra := le_enc 2 1 ++ le_enc 2 (zlen body) ++ body ++ Y).
  assert (Hlen : zlen extra = 4 + zlen body + zlen Y) by (unfold extra; rewrite !zlen_app, !le_enc_zlen; lia).
  unfold rwd_extra_loop. replace (zlen extra >=? 4) with true by lia. cbn [negb].
  assert (Htag : le_dec (zslice 0 2 extra) = 1) by (unfold extra; apply dec2_head; lia).
  assert (Hsz : le_dec (zslice 2 4 extra) = zlen body) by (unfold extra; apply dec2_second; lia).
  rewrite Htag, Hsz.
  unfold rwd_rec_overrun. replace (zlen body >? zlen extra - 4) with false by lia.
  change (rwd_is_zip64_tag 1) with true. cbv iota.
  assert (He : zslice 4 (4 + zlen body) extra = body).
  { unfold extra. rewrite (app_assoc (le_enc 2 1)). apply zslice_mid; rewrite ?zlen_app, ?le_enc_zlen; lia. }
  rewrite He. reflexivity.
Qed.

(* 8-byte fields at the head of a ZIP64 record body *)
Lemma dec8_head x R : 0 <= x < 2 ^ 64 -> le_dec (zslice 0 8 (le_enc 8 x ++ R)) = x.
Proof. intros H. rewrite zslice_0, ztake_exact_n by now rewrite le_enc_zlen. now apply le_dec_enc_small. Qed.
Lemma drop8_head x R : zdrop 8 (le_enc 8 x ++ R) = R.
Proof. apply zdrop_exact_n. now rewrite le_enc_zlen. Qed.

(* the scan on the central extra field of a spec-built entry restores the 64-bit values, for every saturation mask *)
Lemma z64_scan_central : forall m off,
  central_ok m off ->
  let u0 := if sat_u m then A_M32 else m_usize m in
  let c0 := if sat_c m then A_M32 else sp_csize m in
  let o0 := if sat_o m off then A_M32 else off in
  let st := z64_scan (length (sp_cextra m off)) (sp_cextra m off) (rwd_need_u u0) (mkZ u0 c0 o0 (rwd_need_c c0) (rwd_need_o o0)) in
  z_usize st = m_usize m /\ z_csize st = sp_csize m /\ z_offset st = off /\ z_need_c st = false /\ z_need_o st = false.
Proof.
  intros m off H. destruct H as (_ & _ & _ & _ & _ & _ & _ & _ & _ & _ & Hxl & _ & Hus & Hcs & Hoff & Hwf).
  pose proof (zlen_nonneg (m_data m)) as Hd0. unfold sp_csize in *.
  cbv zeta.
  assert (Hnu : rwd_need_u (if sat_u m then A_M32 else m_usize m) = sat_u m).
  { unfold rwd_need_u. destruct (sat_u m) eqn:E; [reflexivity|]. unfold sat_u, sat in E. apply orb_false_iff in E as [_ E]. unfold A_M32 in E. lia. }
  assert (Hnc : rwd_need_c (if sat_c m then A_M32 else zlen (m_data m)) = sat_c m).
  { unfold rwd_need_c. destruct (sat_c m) eqn:E; [reflexivity|]. unfold sat_c, sat, sp_csize in E. apply orb_false_iff in E as [_ E]. unfold A_M32 in E. lia. }
  assert (Hno : rwd_need_o (if sat_o m off then A_M32 else off) = sat_o m off).
  { unfold rwd_need_o. destruct (sat_o m off) eqn:E; [reflexivity|]. unfold sat_o, sat in E. apply orb_false_iff in E as [_ E]. unfold A_M32 in E. lia. }
  rewrite Hnu, Hnc, Hno.
  unfold sp_cextra, sp_z64rec. fold (sat_u m) (sat_c m) (sat_o m off). fold (sp_csize m). unfold sp_csize.
  set (body := (if sat_u m then le_enc 8 (m_usize m) else []) ++ (if sat_c m then le_enc 8 (zlen (m_data m)) else []) ++ (if sat_o m off then le_enc 8 off else [])).
  assert (Hbl : zlen body = (if sat_u m then 8 else 0) + (if sat_c m then 8 else 0) + (if sat_o m off then 8 else 0)).
  { unfold body. rewrite !zlen_app. destruct (sat_u m), (sat_c m), (sat_o m off); rewrite ?le_enc_zlen; reflexivity. }
  destruct (sat_u m || sat_c m || sat_o m off) eqn:Eany.
  2:{ (* nothing saturated: no record; whatever the other extra data is, the scan leaves the fields alone *)
    apply orb_false_iff in Eany as [Eany Eo]. apply orb_false_iff in Eany as [Eu Ec].
    rewrite Eu, Ec, Eo in *. replace (zlen body =? 0) with true by (cbn in Hbl; lia).
    rewrite app_nil_r, app_nil_l. destruct (m_z64last m); rewrite z64_scan_noneed by reflexivity; cbn; auto. }
  assert (Hb0 : zlen body =? 0 = false) by (destruct (sat_u m), (sat_c m), (sat_o m off); try discriminate; lia).
  rewrite Hb0.
  set (REC := le_enc 2 1 ++ le_enc 2 (zlen body) ++ body).
  set (st0 := mkZ (if sat_u m then A_M32 else m_usize m) (if sat_c m then A_M32 else zlen (m_data m)) (if sat_o m off then A_M32 else off) (sat_c m) (sat_o m off)).
  assert (Hscan : forall fuel X Y, wf_extra X -> (length X < fuel)%nat ->
            let r := z64_scan fuel (X ++ REC ++ Y) (sat_u m) st0 in
            z_usize r = m_usize m /\ z_csize r = zlen (m_data m) /\ z_offset r = off /\ z_need_c r = false /\ z_need_o r = false).
  { intros fuel X Y HX Hf. cbv zeta. destruct (z64_scan_skip X HX fuel (REC ++ Y) (sat_u m) st0 Hf) as (k & ->).
    unfold REC. rewrite <- !app_assoc. rewrite z64_scan_head by (destruct (sat_u m), (sat_c m), (sat_o m off); try discriminate; lia).
    cbv zeta. unfold st0. cbn [z_usize z_csize z_offset z_need_c z_need_o].
    unfold rwd_exact_rec, rwd_seq_u, rwd_seq_c, rwd_seq_o, rwd_need_c_after, rwd_need_o_after. rewrite Hbl. unfold body.
    destruct (sat_u m), (sat_c m), (sat_o m off); try discriminate; cbn [app]; rewrite ?app_nil_r;
      match goal with |- context [if ?c then _ else _] => replace c with true by lia end; cbv iota;
      cbn [z_usize z_csize z_offset z_need_c z_need_o]; rewrite ?drop8_head;
      repeat split; try reflexivity;
      try (apply dec8_head; lia);
      try (rewrite <- (app_nil_r (le_enc 8 _)); apply dec8_head; lia). }
  destruct (m_z64last m) eqn:El.
  - rewrite <- (app_nil_r (m_cextra m ++ REC)), <- app_assoc.
    apply Hscan; [now apply Hwf|rewrite !app_length; unfold REC; rewrite !app_length, !le_enc_length; lia].
  - rewrite <- (app_nil_l (REC ++ m_cextra m)).
    apply Hscan; [constructor|cbn [length app]; unfold REC; rewrite !app_length, !le_enc_length; lia].
Qed.

(* ------------------------------------------------------------------ one central entry *)
Lemma lor8_range a : 0 <= a < 65536 -> 0 <= Z.lor a 8 < 65536.
Proof.
  intros H. split; [apply Z.lor_nonneg; lia|].
  assert (0 < Z.lor a 8).
  { assert (0 <= Z.lor a 8) by (apply Z.lor_nonneg; lia). assert (Z.lor a 8 <> 0) by (rewrite Z.lor_eq_0_iff; lia). lia. }
  change 65536 with (2 ^ 16). apply Z.log2_lt_pow2; [assumption|].
  rewrite Z.log2_lor by lia. change (Z.log2 8) with 3.
  destruct (Z.eq_dec a 0) as [->|Ha]; [cbn; lia|].
  assert (Z.log2 a < 16) by (apply Z.log2_lt_pow2; lia). lia.
Qed.
Lemma sp_flags_range m : 0 <= m_flags m < 65536 -> 0 <= sp_flags m < 65536.
Proof. intros H. unfold sp_flags. destruct (has_desc m); [now apply lor8_range|now rewrite Z.lor_0_r]. Qed.

Lemma sp_cdh_len m off : zlen (sp_cdh m off) = 46.
Proof. unfold sp_cdh. rewrite zlen_enc_struct; [reflexivity|reflexivity|unfold apn_cdh_widths; wsok]. Qed.
Lemma sp_central_len m off : zlen (sp_central m off) = 46 + zlen (m_name m) + zlen (sp_cextra m off) + zlen (m_comment m).
Proof. unfold sp_central. rewrite !zlen_app, sp_cdh_len. lia. Qed.

Definition cdh_vals (m : smember) (off : Z) : list Z :=
  [A_CDH_SIG; m_creator m; m_reader m; sp_flags m; m_method m; m_mtime m; m_mdate m; m_crc m;
   (if sat_c m then A_M32 else sp_csize m); (if sat_u m then A_M32 else m_usize m);
   zlen (m_name m); zlen (sp_cextra m off); zlen (m_comment m); m_disk m; m_iattrs m; m_eattrs m;
   (if sat_o m off then A_M32 else off)].
Lemma sp_cdh_vals m off : sp_cdh m off = enc_struct apn_cdh_widths (cdh_vals m off).
Proof. reflexivity. Qed.

Lemma cdf_central m off R i : (i < 17)%nat ->
  cdf (off_of i apn_cdh_widths) (nth i apn_cdh_widths 0) (sp_central m off ++ R) = nth i (cdh_vals m off) 0 mod 256 ^ nth i apn_cdh_widths 0.
Proof.
  intros Hi. unfold cdf, sp_central. rewrite <- !app_assoc. rewrite sp_cdh_vals.
  apply fld_enc_struct; [reflexivity|unfold apn_cdh_widths; wsok|exact Hi].
Qed.

Lemma sat_small (forced : bool) v : sat forced v = false -> v < 4294967295.
Proof. unfold sat, A_M32. intros H. apply orb_false_iff in H as [_ H]. lia. Qed.

Lemma read_entries_step : forall k m off R, central_ok m off ->
  read_entries (S k) (sp_central m off ++ R) = (rest <- read_entries k R ;; Ok (parsed_ent m off :: fst rest, snd rest)).
Proof.
  intros k m off R H. pose proof (z64_scan_central m off H) as Hscan. cbv zeta in Hscan.
  destruct H as (Hcr & Hrd & Hfl & Hme & Hmt & Hmd & Hcrc & Hia & Hea & Hnl & Hxl & Hcl & Hus & Hcs & Hoff & Hwf).
  pose proof (zlen_nonneg (m_name m)) as Hn0. pose proof (zlen_nonneg (sp_cextra m off)) as Hx0.
  pose proof (zlen_nonneg (m_comment m)) as Hc0. pose proof (zlen_nonneg R) as HR0.
  pose proof (zlen_nonneg (m_data m)) as Hd0. pose proof (sp_flags_range m Hfl) as Hflr.
  set (cd := sp_central m off ++ R).
  assert (Hlen : zlen cd = 46 + zlen (m_name m) + zlen (sp_cextra m off) + zlen (m_comment m) + zlen R)
    by (unfold cd; rewrite zlen_app, sp_central_len; lia).
  assert (F : forall i, (i < 17)%nat -> cdf (off_of i apn_cdh_widths) (nth i apn_cdh_widths 0) cd = nth i (cdh_vals m off) 0 mod 256 ^ nth i apn_cdh_widths 0)
    by (intros i Hi; unfold cd; now apply cdf_central).
  cbn [read_entries]. fold cd. unfold rwd_cd_short, rwd_hdr_short, rwd_ent_short.
  replace (zlen cd <? 4) with false by lia.
  assert (Hsig : le_dec (ztake 4 cd) = A_CDH_SIG).
  { rewrite <- zslice_0. change (le_dec (zslice 0 4 cd)) with (cdf (off_of 0 apn_cdh_widths) (nth 0 apn_cdh_widths 0) cd). rewrite F by lia. reflexivity. }
  rewrite Hsig. change (rwd_not_cd_sig A_CDH_SIG) with false. cbv iota.
  change directoryHeaderLen with 46. replace (zlen cd <? 46) with false by lia.
  change cdh_off_FilenameLen with (off_of 10 apn_cdh_widths). change cdh_w_FilenameLen with (nth 10 apn_cdh_widths 0).
  change cdh_off_ExtraLen with (off_of 11 apn_cdh_widths). change cdh_w_ExtraLen with (nth 11 apn_cdh_widths 0).
  change cdh_off_CommentLen with (off_of 12 apn_cdh_widths). change cdh_w_CommentLen with (nth 12 apn_cdh_widths 0).
  change cdh_off_UncompressedSize with (off_of 9 apn_cdh_widths). change cdh_w_UncompressedSize with (nth 9 apn_cdh_widths 0).
  change cdh_off_CompressedSize with (off_of 8 apn_cdh_widths). change cdh_w_CompressedSize with (nth 8 apn_cdh_widths 0).
  change cdh_off_Offset with (off_of 16 apn_cdh_widths). change cdh_w_Offset with (nth 16 apn_cdh_widths 0).
  change cdh_off_CreatorVersion with (off_of 1 apn_cdh_widths). change cdh_w_CreatorVersion with (nth 1 apn_cdh_widths 0).
  change cdh_off_ReaderVersion with (off_of 2 apn_cdh_widths). change cdh_w_ReaderVersion with (nth 2 apn_cdh_widths 0).
  change cdh_off_Flags with (off_of 3 apn_cdh_widths). change cdh_w_Flags with (nth 3 apn_cdh_widths 0).
  change cdh_off_Method with (off_of 4 apn_cdh_widths). change cdh_w_Method with (nth 4 apn_cdh_widths 0).
  change cdh_off_ModifiedTime with (off_of 5 apn_cdh_widths). change cdh_w_ModifiedTime with (nth 5 apn_cdh_widths 0).
  change cdh_off_ModifiedDate with (off_of 6 apn_cdh_widths). change cdh_w_ModifiedDate with (nth 6 apn_cdh_widths 0).
  change cdh_off_CRC32 with (off_of 7 apn_cdh_widths). change cdh_w_CRC32 with (nth 7 apn_cdh_widths 0).
  change cdh_off_InternalAttrs with (off_of 14 apn_cdh_widths). change cdh_w_InternalAttrs with (nth 14 apn_cdh_widths 0).
  change cdh_off_ExternalAttrs with (off_of 15 apn_cdh_widths). change cdh_w_ExternalAttrs with (nth 15 apn_cdh_widths 0).
  rewrite !F by lia. cbn [nth cdh_vals apn_cdh_widths].
  change (256 ^ 2) with 65536. change (256 ^ 4) with 4294967296.
  assert (Hcsv : 0 <= (if sat_c m then A_M32 else sp_csize m) < 4294967296).
  { destruct (sat_c m) eqn:E; [unfold A_M32; lia|]. unfold sat_c in E. apply sat_small in E. unfold sp_csize in *. lia. }
  assert (Husv : 0 <= (if sat_u m then A_M32 else m_usize m) < 4294967296).
  { destruct (sat_u m) eqn:E; [unfold A_M32; lia|]. unfold sat_u in E. apply sat_small in E. lia. }
  assert (Hofv : 0 <= (if sat_o m off then A_M32 else off) < 4294967296).
  { destruct (sat_o m off) eqn:E; [unfold A_M32; lia|]. unfold sat_o in E. apply sat_small in E. lia. }
  rewrite (Z.mod_small (zlen (m_name m))), (Z.mod_small (zlen (sp_cextra m off))), (Z.mod_small (zlen (m_comment m))) by lia.
  rewrite (Z.mod_small _ 4294967296 Hcsv), (Z.mod_small _ 4294967296 Husv), (Z.mod_small _ 4294967296 Hofv).
  rewrite (Z.mod_small (m_creator m)), (Z.mod_small (m_reader m)), (Z.mod_small (sp_flags m)), (Z.mod_small (m_method m)),
          (Z.mod_small (m_mtime m)), (Z.mod_small (m_mdate m)), (Z.mod_small (m_crc m)), (Z.mod_small (m_iattrs m)), (Z.mod_small (m_eattrs m)) by lia.
  (* the four slices *)
  replace (zlen cd <? 46 + zlen (m_name m) + zlen (sp_cextra m off) + zlen (m_comment m)) with false by lia.
  assert (D1 : zdrop 46 cd = m_name m ++ sp_cextra m off ++ m_comment m ++ R).
  { unfold cd, sp_central. rewrite <- !app_assoc. apply zdrop_exact_n. now rewrite sp_cdh_len. }
  rewrite D1.
  rewrite zdrop_app_exact, ztake_app_exact.
  rewrite zdrop_app_exact, ztake_app_exact.
  rewrite zdrop_app_exact, ztake_app_exact.
  destruct Hscan as (S1 & S2 & S3 & S4 & S5).
  set (st := z64_scan _ _ _ _) in *.
  rewrite S1, S2, S3, S4, S5. change (rwd_missing_z64 false false) with false. cbv iota.
  assert (Hraw : ztake (46 + zlen (m_name m) + zlen (sp_cextra m off) + zlen (m_comment m)) cd = sp_central m off).
  { unfold cd. apply ztake_exact_n. now rewrite sp_central_len. }
  rewrite Hraw. reflexivity.
Qed.

(* ------------------------------------------------------------------ the whole central directory *)
Definition centrals (ps : list (smember * Z)) : bytes := concat (map (fun p => sp_central (fst p) (snd p)) ps).
Definition parsed (ps : list (smember * Z)) : list cdent := map (fun p => parsed_ent (fst p) (snd p)) ps.

Lemma read_entries_centrals : forall ps tail fuel,
  Forall (fun p => central_ok (fst p) (snd p)) ps -> 4 <= zlen tail -> rwd_not_cd_sig (le_dec (ztake 4 tail)) = true ->
  (length ps < fuel)%nat -> read_entries fuel (centrals ps ++ tail) = Ok (parsed ps, tail).
Proof.
  induction ps as [|[m off] ps IH]; intros tail fuel Hok Ht Hsig Hf.
  - destruct fuel as [|k]; [cbn in Hf; lia|]. cbn [centrals map concat app read_entries]. unfold rwd_cd_short.
    replace (zlen tail <? 4) with false by lia. rewrite Hsig. reflexivity.
  - destruct fuel as [|k]; [cbn in Hf; lia|]. inversion Hok as [|? ? H1 H2]; subst.
    unfold centrals. cbn [map concat fst snd]. rewrite <- app_assoc.
    rewrite read_entries_step by exact H1. fold (centrals ps).
    rewrite IH by (auto; cbn in Hf; lia). reflexivity.
Qed.
Lemma centrals_long ps : (length ps <= length (centrals ps))%nat.
Proof.
  induction ps as [|[m off] ps IH]; [cbn; lia|]. unfold centrals in *. cbn [map concat fst snd length]. rewrite app_length.
  pose proof (sp_central_len m off) as H. unfold zlen in H.
  pose proof (zlen_nonneg (m_name m)). pose proof (zlen_nonneg (sp_cextra m off)). pose proof (zlen_nonneg (m_comment m)).
  unfold zlen in *. lia.
Qed.

(* end records as parsed by ReadWithDirectory *)
Lemma eocd_sig4 a b c R : le_dec (ztake 4 (eocd_of a b c ++ R)) = A_EOCD_SIG.
Proof.
  rewrite <- zslice_0. change (le_dec (zslice 0 4 (eocd_of a b c ++ R))) with (fld (off_of 0 apn_eocd_widths) (nth 0 apn_eocd_widths 0) (eocd_of a b c ++ R)).
  unfold eocd_of. rewrite fld_enc_struct; [reflexivity|reflexivity|unfold apn_eocd_widths; wsok|cbn; lia].
Qed.
Lemma eocd_sig4' a b c : le_dec (ztake 4 (eocd_of a b c)) = A_EOCD_SIG.
Proof. rewrite <- (app_nil_r (eocd_of a b c)). apply eocd_sig4. Qed.
Lemma e64_sig4 a b c d e R : le_dec (ztake 4 (e64_of a b c d e ++ R)) = A_E64_SIG.
Proof.
  rewrite <- zslice_0. change (le_dec (zslice 0 4 (e64_of a b c d e ++ R))) with (fld (off_of 0 apn_e64_widths) (nth 0 apn_e64_widths 0) (e64_of a b c d e ++ R)).
  unfold e64_of. rewrite fld_enc_struct; [reflexivity|reflexivity|unfold apn_e64_widths; wsok|cbn; lia].
Qed.

Definition dir_plain (ps : list (smember * Z)) (size dirloc : Z) (E : bytes) : directory :=
  mkDir (parsed ps) size dirloc (zeros e64_size) (zeros l64_size) E.
Definition dir_zip64 (ps : list (smember * Z)) (size dirloc : Z) (E64 L E : bytes) : directory :=
  mkDir (parsed ps) size dirloc E64 L E.

Lemma rwd_plain : forall ps size a b c,
  Forall (fun p => central_ok (fst p) (snd p)) ps ->
  read_with_directory size (centrals ps ++ eocd_of a b c) =
  Ok (dir_plain ps size (size - zlen (centrals ps ++ eocd_of a b c)) (eocd_of a b c)).
Proof.
  intros ps size a b c Hok. unfold read_with_directory.
  pose proof (eocd_len a b c) as HE.
  rewrite read_entries_centrals; [|assumption|lia| |].
  2:{ rewrite eocd_sig4'. reflexivity. }
  2:{ pose proof (centrals_long ps). rewrite app_length. lia. }
  cbn [bind fst snd]. rewrite eocd_sig4'.
  change (A_EOCD_SIG =? directory64EndSignature) with false. change (A_EOCD_SIG =? directoryEndSignature) with true. cbv iota.
  unfold dir_plain, rwd_dirloc.
  cbn [seq_take]. change (2 =? 2) with true. change (struct_size 2) with 22. cbv iota.
  replace (zlen (eocd_of a b c) <? 22) with false by lia. rewrite (ztake_all 22 (eocd_of a b c)) by lia. reflexivity.
Qed.

Lemma rwd_zip64 : forall ps size cr rd n s o c16 s32 o32 lo,
  Forall (fun p => central_ok (fst p) (snd p)) ps ->
  let E64 := e64_of cr rd n s o in let L := l64_of lo in let E := eocd_of c16 s32 o32 in
  read_with_directory size (centrals ps ++ E64 ++ L ++ E) =
  Ok (dir_zip64 ps size (size - zlen (centrals ps ++ E64 ++ L ++ E)) E64 L E).
Proof.
  intros ps size cr rd n s o c16 s32 o32 lo Hok E64 L E. unfold read_with_directory.
  pose proof (eocd_len c16 s32 o32) as HE. pose proof (e64_len cr rd n s o) as H64. pose proof (l64_len lo) as HL.
  fold E in HE. fold E64 in H64. fold L in HL.
  rewrite read_entries_centrals; [|assumption|rewrite !zlen_app; lia| |].
  2:{ unfold E64. rewrite e64_sig4. reflexivity. }
  2:{ pose proof (centrals_long ps). rewrite app_length. lia. }
  cbn [bind fst snd]. unfold E64 at 1 2. rewrite e64_sig4. fold E64.
  change (A_E64_SIG =? directory64EndSignature) with true. cbv iota.
  unfold dir_zip64, rwd_dirloc.
  unfold rwd_read_order. cbn [skipn seq_take].
  change (struct_size 3) with 56. change (struct_size 1) with 20. change (struct_size 2) with 22.
  change (3 =? 3) with true. change (3 =? 1) with false. change (3 =? 2) with false. change (1 =? 1) with true. change (1 =? 2) with false.
  change (2 =? 2) with true. cbv iota.
  rewrite !zlen_app. replace (zlen E64 + (zlen L + zlen E) <? 56) with false by lia.
  rewrite zdrop_exact_n by lia. rewrite zlen_app. replace (zlen L + zlen E <? 20) with false by lia.
  rewrite zdrop_exact_n by lia. replace (zlen E <? 22) with false by lia.
  rewrite (ztake_exact_n 56 E64) by lia. rewrite (ztake_exact_n 20 L) by lia. rewrite (ztake_all 22 E) by lia. reflexivity.
Qed.

(* ------------------------------------------------------------------ the whole archive: parse (build ms) *)
Lemma sp_locals_plain ms : sp_locals [] ms = locals ms.
Proof. induction ms as [|m ms IH]; [reflexivity|]. cbn [sp_locals hd tl app]. rewrite IH. reflexivity. Qed.
Lemma sp_offsets_len s g ms : length (sp_offsets s g ms) = length ms.
Proof. revert s g. induction ms as [|m ms IH]; intros; cbn [sp_offsets length]; [reflexivity|]. now rewrite IH. Qed.
Lemma build_plain ms mode :
  build ms (plain_opts mode) =
  locals ms ++ centrals (pairs ms) ++ sp_end (plain_opts mode) (zlen ms) (zlen (centrals (pairs ms))) (zlen (locals ms)).
Proof.
  unfold build, plain_opts. cbn [o_gaps o_gapcd o_cdorder o_prefix app]. rewrite sp_locals_plain, app_nil_r.
  unfold sp_centrals, centrals, pairs. reflexivity.
Qed.

Lemma placed_parsed : forall ms s, placed s ms (parsed (combine ms (sp_offsets s [] ms))).
Proof.
  induction ms as [|m ms IH]; intros s; cbn [sp_offsets combine parsed map]; [constructor|].
  cbn [hd tl]. change (zlen (@nil Z)) with 0. rewrite Z.add_0_r. constructor.
  - repeat split.
  - apply IH.
Qed.

Lemma sp_end_cases mode count cdsize cdoff :
  let need := (count >=? A_M16) || (cdsize >=? A_M32) || (cdoff >=? A_M32) in
  let all := mode =? 1 in
  let f16 := fun v => if all || (v >=? A_M16) then A_M16 else v in
  let f32 := fun v => if all || (v >=? A_M32) then A_M32 else v in
  sp_end (plain_opts mode) count cdsize cdoff =
  if need || negb (mode =? 0)
  then e64_of 45 45 count cdsize cdoff ++ l64_of (cdoff + cdsize) ++ eocd_of (f16 count) (f32 cdsize) (f32 cdoff)
  else eocd_of (f16 count) (f32 cdsize) (f32 cdoff).
Proof.
  cbv zeta. unfold sp_end, plain_opts. cbn [o_zip64end o_e64creator o_e64reader o_comment]. change (zlen (@nil Z)) with 0.
  rewrite !app_nil_r. destruct ((count >=? A_M16) || (cdsize >=? A_M32) || (cdoff >=? A_M32) || negb (mode =? 0)).
  - rewrite <- app_assoc. reflexivity.
  - reflexivity.
Qed.

Lemma god_records_eq a b c :
  god_records a b c = (if god_emit_end64 (fld e64_off_Signature e64_w_Signature a) then a else [])
                   ++ (if god_emit_loc64 (fld l64_off_Signature l64_w_Signature b) then b else []) ++ c.
Proof.
  unfold god_records, god_write_order. cbn [map concat]. unfold pick. cbn [find fst snd].
  change (3 =? 3) with true. change (3 =? 1) with false. change (1 =? 1) with true. change (3 =? 2) with false. change (1 =? 2) with false.
  change (2 =? 2) with true. cbv iota. now rewrite app_nil_r.
Qed.

Lemma cd_bytes_parsed ps : cd_bytes (parsed ps) = centrals ps.
Proof.
  unfold cd_bytes, parsed, centrals. rewrite map_map. apply f_equal. apply map_ext. intros [m off]. cbn [fst snd].
  unfold dir_header, parsed_ent. cbn [e_raw]. unfold gdh_use_raw.
  pose proof (sp_central_len m off). pose proof (zlen_nonneg (m_name m)). pose proof (zlen_nonneg (sp_cextra m off)).
  pose proof (zlen_nonneg (m_comment m)). replace (zlen (sp_central m off) >? 0) with true by lia. reflexivity.
Qed.

Lemma eocd_sig_fld a b c : fld eocd_off_Signature eocd_w_Signature (eocd_of a b c) = A_EOCD_SIG.
Proof. unfold eocd_of. sfield apn_eocd_widths 0%nat. reflexivity. Qed.
Lemma e64_sig_fld a b c d e : fld e64_off_Signature e64_w_Signature (e64_of a b c d e) = A_E64_SIG.
Proof. unfold e64_of. sfield apn_e64_widths 0%nat. reflexivity. Qed.
Lemma l64_sig_fld a : fld l64_off_Signature l64_w_Signature (l64_of a) = A_L64_SIG.
Proof. unfold l64_of. sfield apn_l64_widths 0%nat. reflexivity. Qed.

(* GetOriginalDirectory(false) returns the original directory entries and the original end records, whichever they were *)
Lemma get_original_plain r ps size dirloc a b c :
  get_original r (dir_plain ps size dirloc (eocd_of a b c)) false = Ok (centrals ps, eocd_of a b c).
Proof.
  unfold get_original, dir_plain. cbn [d_end d_files d_dirloc d_end64 d_loc64]. rewrite eocd_sig_fld.
  change (god_is_new A_EOCD_SIG) with false. cbv iota.
  unfold write_directory. change (wd_separate true) with true. cbv iota.
  change (list_eqb Z.eqb god_wd_weod_arg [0]) with false. cbv iota. cbn [bind fst]. rewrite cd_bytes_parsed.
  rewrite god_records_eq. reflexivity.
Qed.
Lemma get_original_zip64 r ps size dirloc cr rd n s o lo a b c :
  get_original r (dir_zip64 ps size dirloc (e64_of cr rd n s o) (l64_of lo) (eocd_of a b c)) false =
  Ok (centrals ps, e64_of cr rd n s o ++ l64_of lo ++ eocd_of a b c).
Proof.
  unfold get_original, dir_zip64. cbn [d_end d_files d_dirloc d_end64 d_loc64]. rewrite eocd_sig_fld.
  change (god_is_new A_EOCD_SIG) with false. cbv iota.
  unfold write_directory. change (wd_separate true) with true. cbv iota.
  change (list_eqb Z.eqb god_wd_weod_arg [0]) with false. cbv iota. cbn [bind fst]. rewrite cd_bytes_parsed.
  rewrite god_records_eq, e64_sig_fld, l64_sig_fld. reflexivity.
Qed.

Lemma views_parsed : forall ms s mode,
  views (parsed (combine ms (sp_offsets s [] ms))) (map sized_of ms) =
  map (fun p => sp_view1 (plain_opts mode) (fst p) (snd p)) (combine ms (sp_offsets s [] ms)).
Proof.
  induction ms as [|m ms IH]; intros s mode; [reflexivity|].
  cbn [sp_offsets hd tl]. change (zlen (@nil Z)) with 0. rewrite Z.add_0_r.
  unfold views, parsed in *. cbn [combine map fst snd]. f_equal; try reflexivity. apply IH.
Qed.

Theorem parse_build_thm : forall ms mode, classK ms mode ->
  let z := build ms (plain_opts mode) in
  exists d, read_zip (rd_bytes z) (zlen z) = Ok d
    /\ d_files d = parsed (pairs ms) /\ d_dirloc d = zlen (locals ms)
    /\ (forall md, total_sizes md (rd_bytes z) 0 (d_files d) = Ok (map sized_of ms))
    /\ views (d_files d) (map sized_of ms) = sp_view ms (plain_opts mode)
    /\ exists cd eod, get_original (rd_bytes z) d false = Ok (cd, eod) /\ cd ++ eod = zdrop (zlen (locals ms)) z.
Proof.
  intros ms mode (Hloc & Hcen & Hmode & Hbig) z. fold z in Hbig.
  assert (Hz : z = locals ms ++ centrals (pairs ms) ++ sp_end (plain_opts mode) (zlen ms) (zlen (centrals (pairs ms))) (zlen (locals ms)))
    by (unfold z; apply build_plain).
  set (L := locals ms) in *. set (C := centrals (pairs ms)) in *.
  pose proof (zlen_nonneg L) as HL0. pose proof (zlen_nonneg C) as HC0. pose proof (zlen_nonneg ms) as Hn0.
  pose proof (sp_end_cases mode (zlen ms) (zlen C) (zlen L)) as HE. cbv zeta in HE.
  set (c16 := if (mode =? 1) || (zlen ms >=? A_M16) then A_M16 else zlen ms) in *.
  set (s32 := if (mode =? 1) || (zlen C >=? A_M32) then A_M32 else zlen C) in *.
  set (o32 := if (mode =? 1) || (zlen L >=? A_M32) then A_M32 else zlen L) in *.
  assert (Hc16 : 0 <= c16 < 65536) by (unfold c16, A_M16; destruct ((mode =? 1) || (zlen ms >=? 65535)) eqn:E; [lia|apply orb_false_iff in E; lia]).
  assert (Hs32 : 0 <= s32 < 4294967296) by (unfold s32, A_M32; destruct ((mode =? 1) || (zlen C >=? 4294967295)) eqn:E; [lia|apply orb_false_iff in E; lia]).
  assert (Ho32 : 0 <= o32 < 4294967296) by (unfold o32, A_M32; destruct ((mode =? 1) || (zlen L >=? 4294967295)) eqn:E; [lia|apply orb_false_iff in E; lia]).
  assert (Hsizes : forall d md, d_files d = parsed (pairs ms) -> total_sizes md (rd_bytes z) 0 (d_files d) = Ok (map sized_of ms)).
  { intros d md ->. rewrite Hz. rewrite <- (app_nil_l (L ++ _)).
    apply total_sizes_locals; [assumption|apply placed_parsed| |reflexivity].
    change (zlen (@nil Z)) with 0. rewrite Hz, !zlen_app in Hbig. pose proof (zlen_nonneg (sp_end (plain_opts mode) (zlen ms) (zlen C) (zlen L))). fold L. lia. }
  assert (Hview : views (parsed (pairs ms)) (map sized_of ms) = sp_view ms (plain_opts mode)).
  { unfold sp_view, pairs. cbn [plain_opts o_cdorder o_gaps]. apply views_parsed. }
  destruct ((zlen ms >=? A_M16) || (zlen C >=? A_M32) || (zlen L >=? A_M32) || negb (mode =? 0)) eqn:Ez64.
  - (* ZIP64 records present *)
    rewrite HE in Hz.
    assert (Hfd : find_directory (rd_bytes z) (zlen z) = Ok (zlen L)).
    { rewrite Hz. rewrite (app_assoc L C).
      apply (find_directory_zip64 (L ++ C) 45 45 (zlen ms) (zlen C) (zlen L) c16 s32 o32); try lia.
      - now rewrite zlen_app.
      - rewrite Hz, !zlen_app, e64_len, l64_len, eocd_len in Hbig. lia.
      - unfold fd_is_zip64, o32. intros Hf. apply orb_false_iff in Hf as [_ Hf].
        destruct ((mode =? 1) || (zlen L >=? A_M32)); [unfold A_M32 in Hf; lia|reflexivity]. }
    set (T := e64_of 45 45 (zlen ms) (zlen C) (zlen L) ++ l64_of (zlen L + zlen C) ++ eocd_of c16 s32 o32) in *.
    assert (HT : zlen T = 98) by (unfold T; rewrite !zlen_app, e64_len, l64_len, eocd_len; reflexivity).
    assert (Hzl : zlen z = zlen L + zlen C + 98) by (rewrite Hz, !zlen_app, HT; lia).
    eexists. unfold read_zip. rewrite Hfd. cbn [bind].
    unfold rz_oob. replace (zlen L <? 0) with false by lia. replace (zlen L >? zlen z) with false by lia. cbn [orb]. replace (zlen z - zlen L =? 0) with false by lia.
    assert (Rcd : rd_bytes z (zlen L) (zlen z - zlen L) = Ok (C ++ T)).
    { rewrite Hz at 1. rewrite <- (app_nil_r (C ++ T)) at 1. rewrite <- app_assoc.
      replace (L ++ C ++ T ++ []) with (L ++ (C ++ T) ++ []) by now rewrite <- !app_assoc.
      apply rd_bytes_mid; [reflexivity|rewrite !zlen_app, HT; lia]. }
    rewrite Rcd. cbn [bind]. unfold T. unfold C at 1. rewrite rwd_zip64 by exact Hcen. fold C. fold T.
    repeat split.
    + cbn [dir_zip64 d_dirloc]. rewrite !zlen_app, HT. lia.
    + intros md. apply Hsizes. reflexivity.
    + exact Hview.
    + eexists. eexists. split; [apply get_original_zip64|]. fold C. fold T. rewrite Hz. now rewrite zdrop_app_exact.
  - (* plain end record *)
    apply orb_false_iff in Ez64 as [Eneed Emode]. apply orb_false_iff in Eneed as [Eneed E3]. apply orb_false_iff in Eneed as [E1 E2].
    assert (Hm0 : mode = 0) by (destruct (Z.eqb_spec mode 0); [assumption|discriminate]).
    rewrite HE in Hz.
    assert (Hc : c16 = zlen ms) by (unfold c16; rewrite Hm0, E1; reflexivity).
    assert (Hs : s32 = zlen C) by (unfold s32; rewrite Hm0, E2; reflexivity).
    assert (Ho : o32 = zlen L) by (unfold o32; rewrite Hm0, E3; reflexivity).
    unfold A_M16, A_M32 in *.
    assert (Hfd : find_directory (rd_bytes z) (zlen z) = Ok (zlen L)).
    { rewrite Hz, Hc, Hs, Ho. rewrite (app_assoc L C). destruct (Z_lt_ge_dec (zlen (L ++ C)) 20).
      - apply find_directory_short; lia.
      - apply find_directory_plain; lia. }
    set (T := eocd_of c16 s32 o32) in *.
    assert (HT : zlen T = 22) by (unfold T; apply eocd_len).
    assert (Hzl : zlen z = zlen L + zlen C + 22) by (rewrite Hz, !zlen_app, HT; lia).
    eexists. unfold read_zip. rewrite Hfd. cbn [bind].
    unfold rz_oob. replace (zlen L <? 0) with false by lia. replace (zlen L >? zlen z) with false by lia. cbn [orb]. replace (zlen z - zlen L =? 0) with false by lia.
    assert (Rcd : rd_bytes z (zlen L) (zlen z - zlen L) = Ok (C ++ T)).
    { rewrite Hz at 1. replace (L ++ C ++ T) with (L ++ (C ++ T) ++ []) by now rewrite app_nil_r.
      apply rd_bytes_mid; [reflexivity|rewrite !zlen_app, HT; lia]. }
    rewrite Rcd. cbn [bind]. unfold T. unfold C at 1. rewrite rwd_plain by exact Hcen. fold C. fold T.
    repeat split.
    + cbn [dir_plain d_dirloc]. rewrite !zlen_app, HT. lia.
    + intros md. apply Hsizes. reflexivity.
    + exact Hview.
    + eexists. eexists. split; [apply get_original_plain|]. fold C. fold T. rewrite Hz. now rewrite zdrop_app_exact.
Qed.

(* ------------------------------------------------------------------ where the full statement fails: concrete witnesses *)
Definition wm (name : Z) (data : bytes) (usize : Z) (desc : desc_kind) (reader : Z) : smember :=
  mkMem [name] [] [] [] 20 reader 0 0 0 0 7 data usize 0 0 0 desc false false false false false.
Definition with_comment (c : bytes) : sopts := mkOpts [] c 0 45 45 [] [] [].
Definition with_prefix (p : bytes) : sopts := mkOpts p [] 0 45 45 [] [] [].
Definition with_order (ord : list nat) : sopts := mkOpts [] [] 0 45 45 [] [] ord.
Definition with_gap (g : list bytes) : sopts := mkOpts [] [] 0 45 45 g [] [].
Definition sizes_of (md : mode) (z : bytes) : result (list sized) :=
  d <- read_zip (rd_bytes z) (zlen z) ;; total_sizes md (rd_bytes z) 0 (d_files d).

(* APPNOTE 4.3.9.3: the descriptor signature is optional *)
Lemma descriptor_without_signature_refuted :
  exists ms, sizes_of Random (build ms (plain_opts 0)) = Err E_DDSIG.
Proof. exists [wm 97 [1; 2] 2 D12 20]. vm_compute. reflexivity. Qed.
(* APPNOTE 4.3.16: the end record may carry a comment *)
Lemma archive_comment_refuted :
  exists ms c, let z := build ms (with_comment c) in read_zip (rd_bytes z) (zlen z) = Err E_NOCD.
Proof. exists [wm 97 [1; 2] 2 DNone 20], [33]. vm_compute. reflexivity. Qed.
(* data in front of the archive (self-extracting stubs): standard readers adjust, relic takes the offset as absolute *)
Lemma prefix_refuted :
  exists ms p, let z := build ms (with_prefix p) in read_zip (rd_bytes z) (zlen z) = Err E_NOEND.
Proof. exists [wm 97 [1; 2] 2 DNone 20], [88]. vm_compute. reflexivity. Qed.
(* WriteDirectory regenerates the end records: an unmodified directory is not reproduced byte for byte *)
Lemma writedirectory_end_records_refuted :
  exists ms mode d cd eod, let z := build ms (plain_opts mode) in
    read_zip (rd_bytes z) (zlen z) = Ok d /\ write_directory (d_files d) (d_dirloc d) false false false = Ok (cd, eod) /\
    cd ++ eod <> zdrop (d_dirloc d) z.
Proof.
  exists [wm 97 [1; 2] 2 DNone 20], 1.
  destruct (read_zip (rd_bytes (build [wm 97 [1; 2] 2 DNone 20] (plain_opts 1))) (zlen (build [wm 97 [1; 2] 2 DNone 20] (plain_opts 1)))) as [d| |] eqn:E;
    try (vm_compute in E; discriminate).
  exists d. vm_compute in E. injection E as <-. eexists. eexists. split; [reflexivity|]. split; [vm_compute; reflexivity|]. vm_compute. discriminate.
Qed.
(* single pass: the directory order must be the physical order *)
Lemma stream_directory_order_refuted :
  exists ms ord, is_ok (sizes_of Random (build ms (with_order ord))) = true /\ sizes_of Stream (build ms (with_order ord)) = Err E_SEEK.
Proof. exists [wm 97 [1; 2] 2 DNone 20; wm 98 [3] 1 DNone 20], [1%nat; 0%nat]. vm_compute. split; reflexivity. Qed.
(* rewriting (AddFile) assumes members are contiguous from offset 0 in directory order *)
Lemma rewrite_contiguity_refuted :
  exists ms g d, let z := build ms (with_gap g) in
    read_zip (rd_bytes z) (zlen z) = Ok d /\
    exists f size, hd_error (d_files d) = Some f /\ sizes_of Random z = Ok [size] /\
      e_offset (hd f (fst (add_file [] 0 f (s_total size)))) <> e_offset f.
Proof.
  exists [wm 97 [1; 2] 2 DNone 20], [[0; 0; 0]].
  destruct (read_zip (rd_bytes (build [wm 97 [1; 2] 2 DNone 20] (with_gap [[0; 0; 0]]))) (zlen (build [wm 97 [1; 2] 2 DNone 20] (with_gap [[0; 0; 0]])))) as [d| |] eqn:E;
    try (vm_compute in E; discriminate).
  exists d. vm_compute in E. injection E as <-. split; [reflexivity|].
  eexists. eexists. split; [reflexivity|]. split; [vm_compute; reflexivity|]. vm_compute. discriminate.
Qed.
(* residual of the width inference: empty member, 24-byte descriptor, version-needed below 45 *)
Lemma descriptor24_empty_version20_refuted :
  exists ms s, sizes_of Random (build ms (plain_opts 0)) = Ok [s] /\ s_ddlen s = 16 /\ zlen (sp_desc (hd (wm 0 [] 0 DNone 0) ms)) = 24.
Proof. exists [wm 97 [] 0 D24 20]. eexists. split; [vm_compute; reflexivity|]. split; reflexivity. Qed.
(* and of its repair in streaming mode: a real 16-byte descriptor of an empty member with version-needed >= 45 *)
Lemma stream_descriptor16_empty_version45_refuted :
  exists ms, sizes_of Random (build ms (plain_opts 0)) = Ok (map sized_of ms) /\ sizes_of Stream (build ms (plain_opts 0)) = Err E_SEEK.
Proof. exists [wm 97 [] 0 D16 45; wm 98 [3] 1 DNone 20]. vm_compute. split; reflexivity. Qed.
