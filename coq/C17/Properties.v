(* C17/Properties.v — property theorems only. Each is closed by a lemma of C17/Proofs.v or C17/ProofsCD.v. *)
From Relic Require Import Base.Prelude Base.Enc Generated.C17_gen C17.Model C17.Bytes C17.Proofs C17.ProofsCD.

(* 0. the Go wire structs have the APPNOTE field layouts and the length constants match them *)
Theorem wire_layouts_are_appnote :
  lfh_widths = apn_lfh_widths /\ cdh_widths = apn_cdh_widths /\ e64_widths = apn_e64_widths /\
  l64_widths = apn_l64_widths /\ eocd_widths = apn_eocd_widths /\
  dd_widths = [4; 4; 4; 4] /\ dd64_widths = [4; 4; 8; 8] /\ z64x_widths = [2; 2; 8; 8; 8] /\
  cdh_size = directoryHeaderLen /\ lfh_size = fileHeaderLen /\ eocd_size = directoryEndLen /\
  l64_size = directory64LocLen /\ e64_size = directory64EndLen /\ dd_size = dataDescriptorLen /\ dd64_size = dataDescriptor64Len.
Proof. exact C17.Proofs.layouts_are_appnote. Qed.

(* 1. GetTotalSize / readLocalHeader / readDataDesc on an APPNOTE-built local entry located anywhere in an archive, in
      random-access and in streaming mode: the whole-entry length, the descriptor width and the CRC are the true ones,
      and the streaming cursor never passes the end of the entry.  Domain local_ok: descriptor absent, 16 bytes with
      signature (not: empty member with version-needed >= 45), or 24 bytes with signature (empty member: version-needed >= 45). *)
Theorem member_size_correct : forall md m pre post f pos,
  local_ok m -> e_offset f = zlen pre -> e_csize f = sp_csize m -> e_usize f = m_usize m -> e_crc f = m_crc m ->
  zlen pre + zlen (sp_local m) < 2 ^ 63 -> pos <= zlen pre ->
  exists pos', total_size md (rd_bytes (pre ++ sp_local m ++ post)) pos f = Ok (sized_of m, pos')
               /\ pos' <= zlen pre + zlen (sp_local m).
Proof. exact C17.Proofs.total_size_local. Qed.

(* 2. a whole run of members, one pass, random access or streaming: no seek-back, every size right *)
Theorem all_member_sizes_correct : forall md ms fs pre post pos,
  Forall local_ok ms -> placed (zlen pre) ms fs -> zlen pre + zlen (locals ms) < 2 ^ 63 -> pos <= zlen pre ->
  total_sizes md (rd_bytes (pre ++ locals ms ++ post)) pos fs = Ok (map sized_of ms).
Proof. exact C17.Proofs.total_sizes_locals. Qed.

(* 3. the ZIP64 extra record of an APPNOTE-built central entry is decoded correctly for EVERY saturation mask *)
Theorem zip64_extra_decoded : forall m off,
  central_ok m off ->
  let u0 := if sat_u m then A_M32 else m_usize m in
  let c0 := if sat_c m then A_M32 else sp_csize m in
  let o0 := if sat_o m off then A_M32 else off in
  let st := z64_scan (length (sp_cextra m off)) (sp_cextra m off) (rwd_need_u u0) (mkZ u0 c0 o0 (rwd_need_c c0) (rwd_need_o o0)) in
  z_usize st = m_usize m /\ z_csize st = sp_csize m /\ z_offset st = off /\ z_need_c st = false /\ z_need_o st = false.
Proof. exact C17.ProofsCD.z64_scan_central. Qed.

(* 4. FindDirectory on APPNOTE end records: plain, shorter than 42 bytes (empty archive), and with ZIP64 records whatever
      mix of saturated and plain fields the end record holds *)
Theorem find_directory_plain : forall x count cdsize cdoff,
  20 <= zlen x -> 0 <= count < 65535 -> 0 <= cdsize < 4294967295 -> 0 <= cdoff < 4294967295 ->
  find_directory (rd_bytes (x ++ eocd_of count cdsize cdoff)) (zlen (x ++ eocd_of count cdsize cdoff)) = Ok cdoff.
Proof. exact C17.Proofs.find_directory_plain. Qed.
Theorem find_directory_short : forall x count cdsize cdoff,
  zlen x < 20 -> 0 <= count < 65535 -> 0 <= cdsize < 4294967295 -> 0 <= cdoff < 4294967295 ->
  find_directory (rd_bytes (x ++ eocd_of count cdsize cdoff)) (zlen (x ++ eocd_of count cdsize cdoff)) = Ok cdoff.
Proof. exact C17.Proofs.find_directory_short. Qed.
Theorem find_directory_zip64 : forall x cr rd count cdsize cdoff c16 s32 o32,
  zlen x = cdoff + cdsize -> 0 <= cdoff -> 0 <= cdsize -> cdoff + cdsize < 2 ^ 63 ->
  0 <= c16 < 65536 -> 0 <= s32 < 4294967296 -> 0 <= o32 < 4294967296 ->
  (fd_is_zip64 c16 s32 o32 = false -> o32 = cdoff) ->
  let z := x ++ e64_of cr rd count cdsize cdoff ++ l64_of (cdoff + cdsize) ++ eocd_of c16 s32 o32 in
  find_directory (rd_bytes z) (zlen z) = Ok cdoff.
Proof. exact C17.Proofs.find_directory_zip64. Qed.

(* 5. parse (build ms) = ms on class K, the re-emission identity, both access modes: for every member list in class K and
      every ZIP64-end style (0 only when needed, 1 always / all fields saturated, 2 always / plain fields), relic's Read of
      the APPNOTE-built archive yields exactly the members (names, offsets, sizes, CRCs, extra, comment, raw bytes),
      DirLoc is the end of the member data, GetTotalSize of every member is the true entry length in random-access AND in
      streaming mode, the combined view equals the specification's view, and GetOriginalDirectory(false) returns byte for
      byte the original directory and end records *)
Theorem parse_build : forall ms mode, classK ms mode ->
  let z := build ms (plain_opts mode) in
  exists d, read_zip (rd_bytes z) (zlen z) = Ok d
    /\ d_files d = parsed (pairs ms) /\ d_dirloc d = zlen (locals ms)
    /\ (forall md, total_sizes md (rd_bytes z) 0 (d_files d) = Ok (map sized_of ms))
    /\ views (d_files d) (map sized_of ms) = sp_view ms (plain_opts mode)
    /\ exists cd eod, get_original (rd_bytes z) d false = Ok (cd, eod) /\ cd ++ eod = zdrop (zlen (locals ms)) z.
Proof. exact C17.ProofsCD.parse_build_thm. Qed.
