(* C17/Properties.v — property theorems only. Each is closed by a lemma of C17/Proofs.v, C17/ProofsCD.v or C17/ProofsW.v. *)
From Relic Require Import Base.Prelude Base.Enc Generated.C17_gen C17.Model C17.Bytes C17.Proofs C17.ProofsCD C17.ProofsW C17.Layout C17.ProofsL.

(* 0. the Go wire structs have the APPNOTE field layouts and the length constants match them *)
Theorem wire_layouts_are_appnote :
  lfh_widths = apn_lfh_widths /\ cdh_widths = apn_cdh_widths /\ e64_widths = apn_e64_widths /\
  l64_widths = apn_l64_widths /\ eocd_widths = apn_eocd_widths /\
  dd_widths = [4; 4; 4; 4] /\ dd64_widths = [4; 4; 8; 8] /\ z64x_widths = [2; 2; 8; 8; 8] /\
  cdh_size = directoryHeaderLen /\ lfh_size = fileHeaderLen /\ eocd_size = directoryEndLen /\
  l64_size = directory64LocLen /\ e64_size = directory64EndLen /\ dd_size = dataDescriptorLen /\ dd64_size = dataDescriptor64Len.
Proof. exact C17.Proofs.layouts_are_appnote. Qed.

(* 1. GetTotalSize / readLocalHeader / readDataDesc on an APPNOTE-built local entry located anywhere in an archive, in
      random-access and in streaming mode: the whole-entry length, the descriptor width and the CRC are the true ones,
      and the streaming cursor never passes the end of the entry.  Domain local_ok: descriptor absent, 16 bytes with
      signature (not: empty member with version-needed >= 45), or 24 bytes with signature (empty member: version-needed >= 45). *)
Theorem member_size_correct : forall md m pre post f pos,
  local_ok m -> e_offset f = zlen pre -> e_csize f = sp_csize m -> e_usize f = m_usize m -> e_crc f = m_crc m ->
  zlen pre + zlen (sp_local m) < 2 ^ 63 -> pos <= zlen pre ->
  exists pos', total_size md (rd_bytes (pre ++ sp_local m ++ post)) pos f = Ok (sized_of m, pos')
               /\ pos' <= zlen pre + zlen (sp_local m).
Proof. exact C17.Proofs.total_size_local. Qed.

(* 2. a whole run of members, one pass, random access or streaming: no seek-back, every size right *)
Theorem all_member_sizes_correct : forall md ms fs pre post pos,
  Forall local_ok ms -> placed (zlen pre) ms fs -> zlen pre + zlen (locals ms) < 2 ^ 63 -> pos <= zlen pre ->
  total_sizes md (rd_bytes (pre ++ locals ms ++ post)) pos fs = Ok (map sized_of ms).
Proof. exact C17.Proofs.total_sizes_locals. Qed.

(* 3. the ZIP64 extra record of an APPNOTE-built central entry is decoded correctly for EVERY saturation mask *)
Theorem zip64_extra_decoded : forall m off,
  central_ok m off ->
  let u0 := if sat_u m then A_M32 else m_usize m in
  let c0 := if sat_c m then A_M32 else sp_csize m in
  let o0 := if sat_o m off then A_M32 else off in
  let st := z64_scan (length (sp_cextra m off)) (sp_cextra m off) (rwd_need_u u0) (mkZ u0 c0 o0 (rwd_need_c c0) (rwd_need_o o0)) in
  z_usize st = m_usize m /\ z_csize st = sp_csize m /\ z_offset st = off /\ z_need_c st = false /\ z_need_o st = false.
Proof. exact C17.ProofsCD.z64_scan_central. Qed.

(* 4. FindDirectory on APPNOTE end records: plain, shorter than 42 bytes (empty archive), and with ZIP64 records whatever
      mix of saturated and plain fields the end record holds *)
Theorem find_directory_plain : forall x count cdsize cdoff,
  20 <= zlen x -> 0 <= count < 65535 -> 0 <= cdsize < 4294967295 -> 0 <= cdoff < 4294967295 ->
  find_directory (rd_bytes (x ++ eocd_of count cdsize cdoff)) (zlen (x ++ eocd_of count cdsize cdoff)) = Ok cdoff.
Proof. exact C17.Proofs.find_directory_plain. Qed.
Theorem find_directory_short : forall x count cdsize cdoff,
  zlen x < 20 -> 0 <= count < 65535 -> 0 <= cdsize < 4294967295 -> 0 <= cdoff < 4294967295 ->
  find_directory (rd_bytes (x ++ eocd_of count cdsize cdoff)) (zlen (x ++ eocd_of count cdsize cdoff)) = Ok cdoff.
Proof. exact C17.Proofs.find_directory_short. Qed.
Theorem find_directory_zip64 : forall x cr rd count cdsize cdoff c16 s32 o32,
  zlen x = cdoff + cdsize -> 0 <= cdoff -> 0 <= cdsize -> cdoff + cdsize < 2 ^ 63 ->
  0 <= c16 < 65536 -> 0 <= s32 < 4294967296 -> 0 <= o32 < 4294967296 ->
  (fd_is_zip64 c16 s32 o32 = false -> o32 = cdoff) ->
  let z := x ++ e64_of cr rd count cdsize cdoff ++ l64_of (cdoff + cdsize) ++ eocd_of c16 s32 o32 in
  find_directory (rd_bytes z) (zlen z) = Ok cdoff.
Proof. exact C17.Proofs.find_directory_zip64. Qed.

(* 5. parse (build ms) = ms on class K, the re-emission identity, both access modes: for every member list in class K and
      every ZIP64-end style (0 only when needed, 1 always / all fields saturated, 2 always / plain fields), relic's Read of
      the APPNOTE-built archive yields exactly the members (names, offsets, sizes, CRCs, extra, comment, raw bytes),
      DirLoc is the end of the member data, GetTotalSize of every member is the true entry length in random-access AND in
      streaming mode, the combined view equals the specification's view, and GetOriginalDirectory(false) returns byte for
      byte the original directory and end records *)
Theorem parse_build : forall ms mode, classK ms mode ->
  let z := build ms (plain_opts mode) in
  exists d, read_zip (rd_bytes z) (zlen z) = Ok d
    /\ d_files d = parsed (pairs ms) /\ d_dirloc d = zlen (locals ms)
    /\ (forall md, total_sizes md (rd_bytes z) 0 (d_files d) = Ok (map sized_of ms))
    /\ views (d_files d) (map sized_of ms) = sp_view ms (plain_opts mode)
    /\ exists cd eod, get_original (rd_bytes z) d false = Ok (cd, eod) /\ cd ++ eod = zdrop (zlen (locals ms)) z.
Proof. exact C17.ProofsCD.parse_build_thm. Qed.

(* 6. the writer: an archive written from scratch by NewFile ... WriteDirectory(w, w, force) is byte for byte the APPNOTE
      archive of its members (24-byte descriptors / version 45 when useDesc, ZIP64 end records exactly when forced or when a
      descriptor member exists), lies in class K, and therefore is read back identically (5.) — including the empty member
      with a 24-byte descriptor that relic used to misread *)
Theorem writer_output_is_appnote : forall cs force,
  Forall call_ok cs -> zlen cs < 65535 ->
  zlen (locals (map nf_member cs)) + zlen (centrals (pairs (map nf_member cs))) < 4294967295 ->
  fresh_archive cs force = build (map nf_member cs) (plain_opts (fresh_mode cs force)).
Proof. exact C17.ProofsW.fresh_archive_appnote. Qed.
Theorem writer_output_in_classK : forall cs force,
  Forall call_ok cs -> zlen cs < 65535 ->
  zlen (locals (map nf_member cs)) + zlen (centrals (pairs (map nf_member cs))) < 4294967295 - 98 ->
  classK (map nf_member cs) (fresh_mode cs force).
Proof. exact C17.ProofsW.fresh_archive_in_classK. Qed.
Theorem writer_reread : forall cs force,
  Forall call_ok cs -> zlen cs < 65535 ->
  zlen (locals (map nf_member cs)) + zlen (centrals (pairs (map nf_member cs))) < 4294967295 - 98 ->
  let z := fresh_archive cs force in
  let ms := map nf_member cs in
  exists d, read_zip (rd_bytes z) (zlen z) = Ok d
    /\ d_files d = parsed (pairs ms) /\ d_dirloc d = zlen (locals ms)
    /\ (forall md, total_sizes md (rd_bytes z) 0 (d_files d) = Ok (map sized_of ms))
    /\ views (d_files d) (map sized_of ms) = sp_view ms (plain_opts (fresh_mode cs force))
    /\ exists cd eod, get_original (rd_bytes z) d false = Ok (cd, eod) /\ cd ++ eod = zdrop (zlen (locals ms)) z.
Proof. exact C17.ProofsW.writer_reread_thm. Qed.

(* 7. where the FULL statement of C17 fails for the code as it is: concrete valid archives (all replayed on the real code
      by checks/c17.py; each is a known finding).  sizes_of md z = Read + GetTotalSize of every member in mode md. *)
Theorem descriptor_without_signature_refuted :
  exists ms, sizes_of Random (build ms (plain_opts 0)) = Err E_DDSIG.
Proof. exact C17.ProofsCD.descriptor_without_signature_refuted. Qed.
Theorem archive_comment_refuted :
  exists ms c, let z := build ms (with_comment c) in read_zip (rd_bytes z) (zlen z) = Err E_NOCD.
Proof. exact C17.ProofsCD.archive_comment_refuted. Qed.
Theorem prefix_refuted :
  exists ms p, let z := build ms (with_prefix p) in read_zip (rd_bytes z) (zlen z) = Err E_NOEND.
Proof. exact C17.ProofsCD.prefix_refuted. Qed.
Theorem writedirectory_end_records_refuted :
  exists ms mode d cd eod, let z := build ms (plain_opts mode) in
    read_zip (rd_bytes z) (zlen z) = Ok d /\ write_directory (d_files d) (d_dirloc d) false false false = Ok (cd, eod) /\
    cd ++ eod <> zdrop (d_dirloc d) z.
Proof. exact C17.ProofsCD.writedirectory_end_records_refuted. Qed.
Theorem stream_directory_order_refuted :
  exists ms ord, is_ok (sizes_of Random (build ms (with_order ord))) = true /\ sizes_of Stream (build ms (with_order ord)) = Err E_SEEK.
Proof. exact C17.ProofsCD.stream_directory_order_refuted. Qed.
Theorem rewrite_contiguity_refuted :
  exists ms g d, let z := build ms (with_gap g) in
    read_zip (rd_bytes z) (zlen z) = Ok d /\
    exists f size, hd_error (d_files d) = Some f /\ sizes_of Random z = Ok [size] /\
      e_offset (hd f (fst (add_file [] 0 f (s_total size)))) <> e_offset f.
Proof. exact C17.ProofsCD.rewrite_contiguity_refuted. Qed.
Theorem descriptor24_empty_version20_refuted :
  exists ms s, sizes_of Random (build ms (plain_opts 0)) = Ok [s] /\ s_ddlen s = 16 /\ zlen (sp_desc (hd (wm 0 [] 0 DNone 0) ms)) = 24.
Proof. exact C17.ProofsCD.descriptor24_empty_version20_refuted. Qed.
Theorem stream_descriptor16_empty_version45_refuted :
  exists ms, sizes_of Random (build ms (plain_opts 0)) = Ok (map sized_of ms) /\ sizes_of Stream (build ms (plain_opts 0)) = Err E_SEEK.
Proof. exact C17.ProofsCD.stream_descriptor16_empty_version45_refuted. Qed.

(* 8. THE WRITER WHEN MEMBERS ARE RE-INDEXED (C17/Layout.v).  The bodies of Directory.AddFile, File.GetDirectoryHeader and of the
      loop of WriteDirectory are whole-body translations generated from the Go source (af_step, gdh_step, wd_loop_step); they are
      exactly: raw dropped iff the offset changes / offset := DirLoc / DirLoc += size / member appended; cached raw entry or rebuilt
      entry (ONE new ZIP64 record with all three values followed by the old extra field without its ZIP64 records, fields
      saturated, version 45, f.Extra left as it was); minVersion / count / size *)
Theorem addfile_body_is_model : forall size raw off dl files f,
  af_step size raw off dl = (if negb (off =? dl) then [] else raw, dl, dl + size) /\
  af_step_skipped = [0; 1; 2] /\ add_file_l files dl f size = add_file files dl f size.
Proof. intros. split; [apply C17.ProofsL.af_step_model | split; [apply C17.ProofsL.af_step_statements | apply C17.ProofsL.add_file_l_model]]. Qed.
Theorem getdirectoryheader_body_is_model : forall f, gdh_of f = (dir_header f, e_extra f).
Proof. exact C17.ProofsL.gdh_of_model. Qed.
Theorem writedirectory_loop_is_model : forall files dirloc force,
  write_directory_l files dirloc force = (cd_bytes files, wd_tail files dirloc force, map after_write files) /\
  write_directory files dirloc force false false = Ok (fst (write_directory_l files dirloc force)).
Proof. intros. split; [apply C17.ProofsL.write_directory_l_model | apply C17.ProofsL.write_directory_model]. Qed.

(* 9. For EVERY sequence of NewFile / AddFile calls on a new Directory — members of any size (lengths only, so 4 GiB and more),
      kept members that move up or down across 0xffffffff or stay, with or without a cached raw entry, with or without a ZIP64
      record in it — the directory and end records WriteDirectory emits are read by the APPNOTE reader (32-bit fields, 0xffffffff
      = take the value from the ZIP64 extra record; ZIP64 end record / locator when an end-record field is saturated) as exactly
      the intended members: name, the offset where the member's bytes physically start, sizes, CRC, in order; and DirLoc is the
      physical end of the member data.  Domain: Go field ranges, lengths that fit their 16-bit fields with room for one ZIP64
      record, archive below 2^63 bytes, cached raw entries that the APPNOTE reader reads as the File's fields (raw_ok). *)
Theorem rewrite_directory_spec_read : forall ops force,
  Forall op_ok ops ->
  snd (wrun ops) + zlen (cd_bytes (fst (wrun ops))) < 2 ^ 63 ->
  let w := write_directory_l (fst (wrun ops)) (snd (wrun ops)) force in
  sp_read_tail (snd (wrun ops)) (fst (fst w) ++ snd (fst w)) = Some (fst (intended ops))
  /\ snd (wrun ops) = snd (intended ops)
  /\ write_directory (fst (wrun ops)) (snd (wrun ops)) force false false = Ok (fst w).
Proof. exact C17.ProofsL.rewrite_directory_spec_read. Qed.
(* raw_ok holds for cached entries that relic wrote itself earlier *)
Theorem own_entries_are_raw_ok : forall g, ent_ok g -> 0 <= e_offset g < 2 ^ 64 ->
  forall x, raw_ok (mkEnt (e_creator g) (e_reader g) (e_flags g) (e_method g) (e_mtime g) (e_mdate g) (e_crc g) (e_csize g) (e_usize g)
                          (e_name g) x (e_comment g) (e_iattrs g) (e_eattrs g) (e_offset g) (regen_header g)).
Proof. exact C17.ProofsL.raw_ok_own_entry. Qed.

(* ... and for every entry relic parsed from an APPNOTE-built archive of class K (5.: d_files d = parsed (pairs ms)), whatever
   its saturation mask and wherever its ZIP64 record sits in the extra field: a member kept from such an archive satisfies the
   hypotheses of 9. *)
Theorem parsed_entries_are_raw_ok : forall m off, central_ok m off -> raw_ok (parsed_ent m off).
Proof. exact C17.ProofsL.raw_ok_parsed. Qed.
Theorem kept_member_op_ok : forall m off size,
  central_ok m off -> zlen (sp_cextra m off) + 28 < 65536 -> 0 <= size ->
  op_ok (WAdd (with_crc (parsed_ent m off) (m_crc m)) size).
Proof. exact C17.ProofsL.kept_member_op_ok. Qed.

(* 10. Mangle on a source laid out back to back is the AddFile sequence of the kept members (so 9. applies to Mangle +
       Mangler.NewFile + MakePatch), reports exactly the deleted ranges, the offsets it assigns are the old offsets minus the bytes
       deleted in front (where the members are once the patch is applied), and it refuses any other source *)
Theorem mangle_is_addfile_sequence : forall src dirloc,
  contiguous src 0 -> src_total src = dirloc -> dirloc < 2 ^ 63 ->
  mangle_l src dirloc = Ok (fst (wrun (kept_ops src)), snd (wrun (kept_ops src)), src_cuts src).
Proof. exact C17.ProofsL.mangle_is_addfile_sequence. Qed.
Theorem mangle_offsets_physical : forall src,
  contiguous src 0 -> fst (intended (kept_ops src)) = kept_views src 0.
Proof. intros src H. exact (C17.ProofsL.mangle_offsets_physical src 0 0 [] H). Qed.
Theorem mangle_refuses_gap : forall m r pos out dl cuts,
  0 <= e_offset (ms_ent m) < 2 ^ 63 -> e_offset (ms_ent m) <> pos -> mangle_walk_l (m :: r) pos out dl cuts = Err E_NOTCONTIG.
Proof. exact C17.ProofsL.mangle_refuses_gap. Qed.

(* 11. a second WriteDirectory on the same Directory emits the same bytes as the first (lib/signappx digests the first output
       and writes the second): GetDirectoryHeader leaves f.Extra (declared as state of the generated body) as it was *)
Theorem getdirectoryheader_keeps_extra : forall f, snd (gdh_of f) = e_extra f.
Proof. exact C17.ProofsL.gdh_keeps_extra. Qed.
Theorem second_write_same : forall files dirloc force,
  fst (write_directory_l (snd (write_directory_l files dirloc force)) dirloc force) = fst (write_directory_l files dirloc force).
Proof. exact C17.ProofsL.second_write_same. Qed.

(* 12. UNIQUENESS of the ZIP64 record and the zipfile-style reader.  A rebuilt entry that needs ZIP64 carries exactly one ZIP64
       record whatever records the old extra field had (withoutZip64Extra), one that does not need it carries the old extra
       field untouched.  Therefore a reader that, like CPython's zipfile, visits EVERY ZIP64 record and lets a later one
       overwrite a value that happens to equal 0xffffffff reads the same intended members as the APPNOTE reader (9.), for every
       sequence of calls.  Domain in addition to 9.: extra fields that such a reader can walk (records up to fewer than 4
       trailing bytes; it rejects anything else, before and after the rewrite) and cached raw entries it reads as the File's
       fields (raw_ok_py: proved for entries relic wrote itself and for class-K entries whose other extra data are records). *)
Theorem rebuilt_entry_has_one_zip64_record : forall f rest,
  ent_ok f -> tlv (e_extra f) ->
  if gdh_promote (e_csize f) (e_usize f) (e_offset f)
  then entry_extra (regen_header f ++ rest) = Some (new_extra f) /\ z64_count (S (length (new_extra f))) (new_extra f) = 1
  else entry_extra (regen_header f ++ rest) = Some (e_extra f).
Proof. exact C17.ProofsL.rebuilt_entry_one_zip64. Qed.
Theorem rewrite_directory_zipfile_read : forall ops force,
  Forall op_ok_py ops ->
  snd (wrun ops) + zlen (cd_bytes (fst (wrun ops))) < 2 ^ 63 ->
  let w := write_directory_l (fst (wrun ops)) (snd (wrun ops)) force in
  sp_read_tail_py (snd (wrun ops)) (fst (fst w) ++ snd (fst w)) = Some (fst (intended ops)).
Proof. exact C17.ProofsL.rewrite_directory_zipfile_read. Qed.
Theorem own_entries_are_raw_ok_py : forall g, ent_ok g -> tlv (e_extra g) -> 0 <= e_offset g < 2 ^ 64 ->
  forall x, raw_ok_py (mkEnt (e_creator g) (e_reader g) (e_flags g) (e_method g) (e_mtime g) (e_mdate g) (e_crc g) (e_csize g) (e_usize g)
                             (e_name g) x (e_comment g) (e_iattrs g) (e_eattrs g) (e_offset g) (regen_header g)).
Proof. exact C17.ProofsL.raw_ok_py_own_entry. Qed.
Theorem parsed_entries_are_raw_ok_py : forall m off, central_ok m off -> wf_extra (m_cextra m) -> raw_ok_py (parsed_ent m off).
Proof. exact C17.ProofsL.raw_ok_py_parsed. Qed.
Theorem kept_member_op_ok_py : forall m off size,
  central_ok m off -> wf_extra (m_cextra m) -> zlen (sp_cextra m off) + 28 < 65536 -> 0 <= size ->
  op_ok_py (WAdd (with_crc (parsed_ent m off) (m_crc m)) size).
Proof. exact C17.ProofsL.kept_member_op_ok_py. Qed.

(* non-vacuity: class K is inhabited by archives with every supported feature, and the conclusions are computed on them *)
Definition ex_members : list smember :=
  [mkMem [97] [] [] [] 20 20 0 0 0 0 11 [1; 2; 3] 3 0 0 0 DNone false false false false false;         (* stored, no descriptor *)
   mkMem [98] [] [] [33] 20 20 2048 8 0 0 12 [9] 1 0 0 0 D16 false false false false false;            (* 16-byte descriptor, comment, UTF-8 flag *)
   mkMem [99] [] [] [] 45 45 0 0 0 0 13 [] 0 0 0 0 D24 false false false false false;                  (* empty member, 24-byte descriptor, version 45 *)
   mkMem [100] [] [202; 254; 0; 0] [] 45 45 0 0 0 0 14 [5; 6] 2 0 0 0 DNone true true false true true; (* ZIP64 extra: usize and offset only, after another record *)
   mkMem [100; 47] [] [] [] 20 20 0 0 0 0 0 [] 0 0 16 0 DNone false false false false false].          (* directory entry *)
Example classK_inhabited : classK ex_members 0 /\ classK ex_members 1 /\ classK ex_members 2 /\ classK [] 0.
Proof.
  assert (W : wf_extra [202; 254; 0; 0]) by (apply (wf_extra_rec 65226 [] []); [lia|lia|cbn; lia|constructor]).
  assert (L : Forall local_ok ex_members).
  { unfold ex_members.
    repeat (apply Forall_cons; [vm_compute; repeat split; intros; try reflexivity; try discriminate; auto; try (left; reflexivity); try (right; split; [reflexivity|discriminate])|]).
    apply Forall_nil. }
  assert (C : Forall (fun p => central_ok (fst p) (snd p)) (pairs ex_members)).
  { let v := eval vm_compute in (pairs ex_members) in change (pairs ex_members) with v.
    repeat (apply Forall_cons; [vm_compute; repeat split; intros; try reflexivity; try discriminate; first [exact W | apply wf_extra_nil]|]).
    apply Forall_nil. }
  unfold classK.
  repeat split; try exact L; try exact C; try (apply Forall_nil); auto; try (vm_compute; reflexivity).
Qed.
Example parse_build_computed :
  let z := build ex_members (plain_opts 2) in
  match read_zip (rd_bytes z) (zlen z) with
  | Ok d => views (d_files d) (map sized_of ex_members) = sp_view ex_members (plain_opts 2)
            /\ total_sizes Stream (rd_bytes z) 0 (d_files d) = Ok (map sized_of ex_members)
  | _ => False
  end.
Proof. vm_compute. split; reflexivity. Qed.
Example writer_hypotheses_satisfiable :
  let cs := [mkCall [97] [] [] 0 0 0 0 0 true; mkCall [98] [254; 202; 0; 0] [1; 2] 2 7 0 0 0 false] in
  Forall call_ok cs /\ fresh_archive cs false = build (map nf_member cs) (plain_opts 1).
Proof. split; [repeat constructor; vm_compute; congruence|vm_compute; reflexivity]. Qed.

(* non-vacuity of 9.: a kept member with a cached plain entry at offset 16 is pushed ABOVE 0xffffffff by a prepended 4 GiB member
   (lengths only), another with a cached ZIP64 entry at 2^32+5 comes DOWN to offset 0; hypotheses hold, the conclusion is computed *)
Definition ex_g_low : cdent := mkEnt 20 20 0 0 0 0 77 5 5 [107] [] [] 0 0 16 [].
Definition ex_g_high : cdent := mkEnt 45 45 0 0 0 0 78 6 6 [104] [] [] 0 0 4294967301 [].
Definition ex_kept_low : cdent := mkEnt 20 20 0 0 0 0 77 5 5 [107] [] [] 0 0 16 (regen_header ex_g_low).
Definition ex_kept_high : cdent := mkEnt 45 45 0 0 0 0 78 6 6 [104] (z64rec ex_g_high) [] 0 0 4294967301 (regen_header ex_g_high).
Lemma ex_ent_ok : ent_ok ex_g_low /\ ent_ok ex_g_high /\ ent_ok ex_kept_low /\ ent_ok ex_kept_high.
Proof. repeat split; vm_compute; congruence. Qed.
Example rewrite_hypotheses_satisfiable_up :
  let ops := [WNew w_big; WAdd ex_kept_low 36] in
  Forall op_ok ops /\
  sp_read_tail (snd (wrun ops)) (fst (fst (write_directory_l (fst (wrun ops)) (snd (wrun ops)) false)) ++
                                 snd (fst (write_directory_l (fst (wrun ops)) (snd (wrun ops)) false)))
  = Some [mkSE [98] 0 4294967296 4294967296 7; mkSE [107] 4294967327 5 5 77].
Proof.
  split.
  - constructor; [vm_compute; repeat split; congruence|]. constructor; [|constructor].
    split; [apply ex_ent_ok|]. split; [|lia].
    apply (own_entries_are_raw_ok ex_g_low); [apply ex_ent_ok | vm_compute; split; congruence].
  - vm_compute. reflexivity.
Qed.
Example rewrite_hypotheses_satisfiable_down :
  let ops := [WAdd ex_kept_high 37; WNew w_small] in
  Forall op_ok ops /\
  sp_read_tail (snd (wrun ops)) (fst (fst (write_directory_l (fst (wrun ops)) (snd (wrun ops)) true)) ++
                                 snd (fst (write_directory_l (fst (wrun ops)) (snd (wrun ops)) true)))
  = Some [mkSE [104] 0 6 6 78; mkSE [115] 37 3 3 9].
Proof.
  split.
  - constructor.
    + split; [apply ex_ent_ok|]. split; [|lia].
      apply (own_entries_are_raw_ok ex_g_high); [apply ex_ent_ok | vm_compute; split; congruence].
    + constructor; [vm_compute; repeat split; congruence|constructor].
  - vm_compute. reflexivity.
Qed.

(* regression for relic 0526757 (finding C17:GetDirectoryHeader:stale-zip64-record-kept): a kept member whose cached entry and
   parsed extra field carry a ZIP64 record for its old offset 2^32+5 is re-indexed at EXACTLY 0xffffffff behind a member of
   that length; both readers read the new offset, the emitted entry has one ZIP64 record, a second write is identical *)
Definition w_exact : nfl := mkNfl [98] [] 4294967264 4294967264 7 0 0 0 false.
Example stale_zip64_record_regression :
  let ops := [WNew w_exact; WAdd ex_kept_high 37] in
  let w := write_directory_l (fst (wrun ops)) (snd (wrun ops)) false in
  snd (intended [WNew w_exact]) = 4294967295 /\
  sp_read_tail (snd (wrun ops)) (fst (fst w) ++ snd (fst w)) = Some [mkSE [98] 0 4294967264 4294967264 7; mkSE [104] 4294967295 6 6 78] /\
  sp_read_tail_py (snd (wrun ops)) (fst (fst w) ++ snd (fst w)) = Some [mkSE [98] 0 4294967264 4294967264 7; mkSE [104] 4294967295 6 6 78] /\
  fst (write_directory_l (snd w) (snd (wrun ops)) false) = fst w.
Proof. vm_compute. repeat split; reflexivity. Qed.
Example zipfile_hypotheses_satisfiable :
  Forall op_ok_py [WNew w_exact; WAdd ex_kept_high 37].
Proof.
  assert (T : tlv (z64rec ex_g_high)).
  { rewrite C17.ProofsL.z64rec_bytes.
    apply (tlv_rec 1 (le_enc 8 (e_usize ex_g_high) ++ le_enc 8 (e_csize ex_g_high) ++ le_enc 8 (e_offset ex_g_high)) []); [lia | vm_compute; reflexivity | apply tlv_end; vm_compute; reflexivity]. }
  constructor; [split; [vm_compute; repeat split; congruence | apply tlv_end; vm_compute; reflexivity]|].
  constructor; [|constructor].
  split; [apply ex_ent_ok|]. split; [|split; [lia | exact T]].
  apply (own_entries_are_raw_ok_py ex_g_high); [apply ex_ent_ok | apply tlv_end; vm_compute; reflexivity | vm_compute; split; congruence].
Qed.
