(* C17/Properties.v — property theorems only. Each is closed by a lemma of C17/Proofs.v. *)
From Relic Require Import Base.Prelude Base.Enc Generated.C17_gen C17.Model C17.Proofs.

(* 1. GetTotalSize / readLocalHeader / readDataDesc on an APPNOTE-built local entry located anywhere in an archive, in
      random-access and in streaming mode: the whole-entry length, the descriptor width and the CRC are the true ones,
      and the streaming cursor never passes the end of the entry.  Domain (local_ok): descriptor absent, 16 bytes with
      signature, or 24 bytes with signature and dd24_ok (for compressed sizes below 4 GiB: uncompressed size <> 0). *)
Theorem member_size_correct : forall md m pre post f pos,
  local_ok m -> e_offset f = zlen pre -> e_csize f = sp_csize m -> e_usize f = m_usize m -> e_crc f = m_crc m ->
  zlen pre + zlen (sp_local m) < 2 ^ 63 -> pos <= zlen pre ->
  exists pos', total_size md (rd_bytes (pre ++ sp_local m ++ post)) pos f = Ok (sized_of m, pos')
               /\ pos' <= zlen pre + zlen (sp_local m).
Proof. exact C17.Proofs.total_size_local. Qed.
