(* C17/Properties.v — property theorems only. Each is closed by a lemma of C17/Proofs.v, C17/ProofsCD.v or C17/ProofsW.v. *)
From Relic Require Import Base.Prelude Base.Enc Generated.C17_gen C17.Model C17.Bytes C17.Proofs C17.ProofsCD C17.ProofsW.

(* 0. the Go wire structs have the APPNOTE field layouts and the length constants match them *)
Theorem wire_layouts_are_appnote :
  lfh_widths = apn_lfh_widths /\ cdh_widths = apn_cdh_widths /\ e64_widths = apn_e64_widths /\
  l64_widths = apn_l64_widths /\ eocd_widths = apn_eocd_widths /\
  dd_widths = [4; 4; 4; 4] /\ dd64_widths = [4; 4; 8; 8] /\ z64x_widths = [2; 2; 8; 8; 8] /\
  cdh_size = directoryHeaderLen /\ lfh_size = fileHeaderLen /\ eocd_size = directoryEndLen /\
  l64_size = directory64LocLen /\ e64_size = directory64EndLen /\ dd_size = dataDescriptorLen /\ dd64_size = dataDescriptor64Len.
Proof. exact C17.Proofs.layouts_are_appnote. Qed.

(* 1. GetTotalSize / readLocalHeader / readDataDesc on an APPNOTE-built local entry located anywhere in an archive, in
      random-access and in streaming mode: the whole-entry length, the descriptor width and the CRC are the true ones,
      and the streaming cursor never passes the end of the entry.  Domain local_ok: descriptor absent, 16 bytes with
      signature (not: empty member with version-needed >= 45), or 24 bytes with signature (empty member: version-needed >= 45). *)
Theorem member_size_correct : forall md m pre post f pos,
  local_ok m -> e_offset f = zlen pre -> e_csize f = sp_csize m -> e_usize f = m_usize m -> e_crc f = m_crc m ->
  zlen pre + zlen (sp_local m) < 2 ^ 63 -> pos <= zlen pre ->
  exists pos', total_size md (rd_bytes (pre ++ sp_local m ++ post)) pos f = Ok (sized_of m, pos')
               /\ pos' <= zlen pre + zlen (sp_local m).
Proof. exact C17.Proofs.total_size_local. Qed.

(* 2. a whole run of members, one pass, random access or streaming: no seek-back, every size right *)
Theorem all_member_sizes_correct : forall md ms fs pre post pos,
  Forall local_ok ms -> placed (zlen pre) ms fs -> zlen pre + zlen (locals ms) < 2 ^ 63 -> pos <= zlen pre ->
  total_sizes md (rd_bytes (pre ++ locals ms ++ post)) pos fs = Ok (map sized_of ms).
Proof. exact C17.Proofs.total_sizes_locals. Qed.

(* 3. the ZIP64 extra record of an APPNOTE-built central entry is decoded correctly for EVERY saturation mask *)
Theorem zip64_extra_decoded : forall m off,
  central_ok m off ->
  let u0 := if sat_u m then A_M32 else m_usize m in
  let c0 := if sat_c m then A_M32 else sp_csize m in
  let o0 := if sat_o m off then A_M32 else off in
  let st := z64_scan (length (sp_cextra m off)) (sp_cextra m off) (rwd_need_u u0) (mkZ u0 c0 o0 (rwd_need_c c0) (rwd_need_o o0)) in
  z_usize st = m_usize m /\ z_csize st = sp_csize m /\ z_offset st = off /\ z_need_c st = false /\ z_need_o st = false.
Proof. exact C17.ProofsCD.z64_scan_central. Qed.

(* 4. FindDirectory on APPNOTE end records: plain, shorter than 42 bytes (empty archive), and with ZIP64 records whatever
      mix of saturated and plain fields the end record holds *)
Theorem find_directory_plain : forall x count cdsize cdoff,
  20 <= zlen x -> 0 <= count < 65535 -> 0 <= cdsize < 4294967295 -> 0 <= cdoff < 4294967295 ->
  find_directory (rd_bytes (x ++ eocd_of count cdsize cdoff)) (zlen (x ++ eocd_of count cdsize cdoff)) = Ok cdoff.
Proof. exact C17.Proofs.find_directory_plain. Qed.
Theorem find_directory_short : forall x count cdsize cdoff,
  zlen x < 20 -> 0 <= count < 65535 -> 0 <= cdsize < 4294967295 -> 0 <= cdoff < 4294967295 ->
  find_directory (rd_bytes (x ++ eocd_of count cdsize cdoff)) (zlen (x ++ eocd_of count cdsize cdoff)) = Ok cdoff.
Proof. exact C17.Proofs.find_directory_short. Qed.
Theorem find_directory_zip64 : forall x cr rd count cdsize cdoff c16 s32 o32,
  zlen x = cdoff + cdsize -> 0 <= cdoff -> 0 <= cdsize -> cdoff + cdsize < 2 ^ 63 ->
  0 <= c16 < 65536 -> 0 <= s32 < 4294967296 -> 0 <= o32 < 4294967296 ->
  (fd_is_zip64 c16 s32 o32 = false -> o32 = cdoff) ->
  let z := x ++ e64_of cr rd count cdsize cdoff ++ l64_of (cdoff + cdsize) ++ eocd_of c16 s32 o32 in
  find_directory (rd_bytes z) (zlen z) = Ok cdoff.
Proof. exact C17.Proofs.find_directory_zip64. Qed.

(* 5. parse (build ms) = ms on class K, the re-emission identity, both access modes: for every member list in class K and
      every ZIP64-end style (0 only when needed, 1 always / all fields saturated, 2 always / plain fields), relic's Read of
      the APPNOTE-built archive yields exactly the members (names, offsets, sizes, CRCs, extra, comment, raw bytes),
      DirLoc is the end of the member data, GetTotalSize of every member is the true entry length in random-access AND in
      streaming mode, the combined view equals the specification's view, and GetOriginalDirectory(false) returns byte for
      byte the original directory and end records *)
Theorem parse_build : forall ms mode, classK ms mode ->
  let z := build ms (plain_opts mode) in
  exists d, read_zip (rd_bytes z) (zlen z) = Ok d
    /\ d_files d = parsed (pairs ms) /\ d_dirloc d = zlen (locals ms)
    /\ (forall md, total_sizes md (rd_bytes z) 0 (d_files d) = Ok (map sized_of ms))
    /\ views (d_files d) (map sized_of ms) = sp_view ms (plain_opts mode)
    /\ exists cd eod, get_original (rd_bytes z) d false = Ok (cd, eod) /\ cd ++ eod = zdrop (zlen (locals ms)) z.
Proof. exact C17.ProofsCD.parse_build_thm. Qed.

(* 6. the writer: an archive written from scratch by NewFile ... WriteDirectory(w, w, force) is byte for byte the APPNOTE
      archive of its members (24-byte descriptors / version 45 when useDesc, ZIP64 end records exactly when forced or when a
      descriptor member exists), lies in class K, and therefore is read back identically (5.) — including the empty member
      with a 24-byte descriptor that relic used to misread *)
Theorem writer_output_is_appnote : forall cs force,
  Forall call_ok cs -> zlen cs < 65535 ->
  zlen (locals (map nf_member cs)) + zlen (centrals (pairs (map nf_member cs))) < 4294967295 ->
  fresh_archive cs force = build (map nf_member cs) (plain_opts (fresh_mode cs force)).
Proof. exact C17.ProofsW.fresh_archive_appnote. Qed.
Theorem writer_output_in_classK : forall cs force,
  Forall call_ok cs -> zlen cs < 65535 ->
  zlen (locals (map nf_member cs)) + zlen (centrals (pairs (map nf_member cs))) < 4294967295 - 98 ->
  classK (map nf_member cs) (fresh_mode cs force).
Proof. exact C17.ProofsW.fresh_archive_in_classK. Qed.
Theorem writer_reread : forall cs force,
  Forall call_ok cs -> zlen cs < 65535 ->
  zlen (locals (map nf_member cs)) + zlen (centrals (pairs (map nf_member cs))) < 4294967295 - 98 ->
  let z := fresh_archive cs force in
  let ms := map nf_member cs in
  exists d, read_zip (rd_bytes z) (zlen z) = Ok d
    /\ d_files d = parsed (pairs ms) /\ d_dirloc d = zlen (locals ms)
    /\ (forall md, total_sizes md (rd_bytes z) 0 (d_files d) = Ok (map sized_of ms))
    /\ views (d_files d) (map sized_of ms) = sp_view ms (plain_opts (fresh_mode cs force))
    /\ exists cd eod, get_original (rd_bytes z) d false = Ok (cd, eod) /\ cd ++ eod = zdrop (zlen (locals ms)) z.
Proof. exact C17.ProofsW.writer_reread_thm. Qed.

(* 7. where the FULL statement of C17 fails for the code as it is: concrete valid archives (all replayed on the real code
      by checks/c17.py; each is a known finding).  sizes_of md z = Read + GetTotalSize of every member in mode md. *)
Theorem descriptor_without_signature_refuted :
  exists ms, sizes_of Random (build ms (plain_opts 0)) = Err E_DDSIG.
Proof. exact C17.ProofsCD.descriptor_without_signature_refuted. Qed.
Theorem archive_comment_refuted :
  exists ms c, let z := build ms (with_comment c) in read_zip (rd_bytes z) (zlen z) = Err E_NOCD.
Proof. exact C17.ProofsCD.archive_comment_refuted. Qed.
Theorem prefix_refuted :
  exists ms p, let z := build ms (with_prefix p) in read_zip (rd_bytes z) (zlen z) = Err E_NOEND.
Proof. exact C17.ProofsCD.prefix_refuted. Qed.
Theorem writedirectory_end_records_refuted :
  exists ms mode d cd eod, let z := build ms (plain_opts mode) in
    read_zip (rd_bytes z) (zlen z) = Ok d /\ write_directory (d_files d) (d_dirloc d) false false false = Ok (cd, eod) /\
    cd ++ eod <> zdrop (d_dirloc d) z.
Proof. exact C17.ProofsCD.writedirectory_end_records_refuted. Qed.
Theorem stream_directory_order_refuted :
  exists ms ord, is_ok (sizes_of Random (build ms (with_order ord))) = true /\ sizes_of Stream (build ms (with_order ord)) = Err E_SEEK.
Proof. exact C17.ProofsCD.stream_directory_order_refuted. Qed.
Theorem rewrite_contiguity_refuted :
  exists ms g d, let z := build ms (with_gap g) in
    read_zip (rd_bytes z) (zlen z) = Ok d /\
    exists f size, hd_error (d_files d) = Some f /\ sizes_of Random z = Ok [size] /\
      e_offset (hd f (fst (add_file [] 0 f (s_total size)))) <> e_offset f.
Proof. exact C17.ProofsCD.rewrite_contiguity_refuted. Qed.
Theorem descriptor24_empty_version20_refuted :
  exists ms s, sizes_of Random (build ms (plain_opts 0)) = Ok [s] /\ s_ddlen s = 16 /\ zlen (sp_desc (hd (wm 0 [] 0 DNone 0) ms)) = 24.
Proof. exact C17.ProofsCD.descriptor24_empty_version20_refuted. Qed.
Theorem stream_descriptor16_empty_version45_refuted :
  exists ms, sizes_of Random (build ms (plain_opts 0)) = Ok (map sized_of ms) /\ sizes_of Stream (build ms (plain_opts 0)) = Err E_SEEK.
Proof. exact C17.ProofsCD.stream_descriptor16_empty_version45_refuted. Qed.

(* non-vacuity: class K is inhabited by archives with every supported feature, and the conclusions are computed on them *)
Definition ex_members : list smember :=
  [mkMem [97] [] [] [] 20 20 0 0 0 0 11 [1; 2; 3] 3 0 0 0 DNone false false false false false;         (* stored, no descriptor *)
   mkMem [98] [] [] [33] 20 20 2048 8 0 0 12 [9] 1 0 0 0 D16 false false false false false;            (* 16-byte descriptor, comment, UTF-8 flag *)
   mkMem [99] [] [] [] 45 45 0 0 0 0 13 [] 0 0 0 0 D24 false false false false false;                  (* empty member, 24-byte descriptor, version 45 *)
   mkMem [100] [] [202; 254; 0; 0] [] 45 45 0 0 0 0 14 [5; 6] 2 0 0 0 DNone true true false true true; (* ZIP64 extra: usize and offset only, after another record *)
   mkMem [100; 47] [] [] [] 20 20 0 0 0 0 0 [] 0 0 16 0 DNone false false false false false].          (* directory entry *)
Example classK_inhabited : classK ex_members 0 /\ classK ex_members 1 /\ classK ex_members 2 /\ classK [] 0.
Proof.
  assert (W : wf_extra [202; 254; 0; 0]) by (apply (wf_extra_rec 65226 [] []); [lia|lia|cbn; lia|constructor]).
  assert (L : Forall local_ok ex_members).
  { unfold ex_members.
    repeat (apply Forall_cons; [vm_compute; repeat split; intros; try reflexivity; try discriminate; auto; try (left; reflexivity); try (right; split; [reflexivity|discriminate])|]).
    apply Forall_nil. }
  assert (C : Forall (fun p => central_ok (fst p) (snd p)) (pairs ex_members)).
  { let v := eval vm_compute in (pairs ex_members) in change (pairs ex_members) with v.
    repeat (apply Forall_cons; [vm_compute; repeat split; intros; try reflexivity; try discriminate; first [exact W | apply wf_extra_nil]|]).
    apply Forall_nil. }
  unfold classK.
  repeat split; try exact L; try exact C; try (apply Forall_nil); auto; try (vm_compute; reflexivity).
Qed.
Example parse_build_computed :
  let z := build ex_members (plain_opts 2) in
  match read_zip (rd_bytes z) (zlen z) with
  | Ok d => views (d_files d) (map sized_of ex_members) = sp_view ex_members (plain_opts 2)
            /\ total_sizes Stream (rd_bytes z) 0 (d_files d) = Ok (map sized_of ex_members)
  | _ => False
  end.
Proof. vm_compute. split; reflexivity. Qed.
Example writer_hypotheses_satisfiable :
  let cs := [mkCall [97] [] [] 0 0 0 0 0 true; mkCall [98] [254; 202; 0; 0] [1; 2] 2 7 0 0 0 false] in
  Forall call_ok cs /\ fresh_archive cs false = build (map nf_member cs) (plain_opts 1).
Proof. split; [repeat constructor; vm_compute; congruence|vm_compute; reflexivity]. Qed.
