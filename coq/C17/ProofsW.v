(* C17/ProofsW.v — archives written by relic's NewFile / AddFile / WriteDirectory are APPNOTE archives of class K,
   hence (C17/ProofsCD.v) read back identically. *)
From Relic Require Import Base.Prelude Base.Enc Generated.C17_gen C17.Model C17.Bytes C17.Proofs C17.ProofsCD.

Definition nf_ent (c : nfcall) (off : Z) : cdent :=
  mkEnt nf_creator (if c_desc c then nf_desc_reader else nf_reader0) (if c_desc c then nf_desc_flags else 0)
        (c_method c) (c_mtime c) (c_mdate c) (c_crc c) (zlen (c_cdata c)) (c_usize c) (c_name c) (c_extra c) [] 0 0 off [].

Lemma new_file_snd c :
  snd (new_file (c_name c) (c_extra c) (c_cdata c) (c_usize c) (c_crc c) (c_method c) (c_mtime c) (c_mdate c) (c_desc c)) = nf_ent c 0.
Proof. unfold new_file, nf_ent, nf_desc_branch. cbn [snd]. destruct (c_desc c); reflexivity. Qed.

Lemma new_file_local c : call_ok c ->
  fst (new_file (c_name c) (c_extra c) (c_cdata c) (c_usize c) (c_crc c) (c_method c) (c_mtime c) (c_mdate c) (c_desc c)) = sp_local (nf_member c).
Proof.
  intros (Hn & He & Hcrc & Hcs & Hus & _).
  pose proof (zlen_nonneg (c_name c)). pose proof (zlen_nonneg (c_extra c)). pose proof (zlen_nonneg (c_cdata c)).
  unfold new_file, sp_local. cbn [fst]. unfold sp_lfh, sp_lextra, sp_desc, sp_flags, has_desc, sp_csize, nf_member.
  cbn [m_desc m_lz64 m_lextra m_flags m_reader m_method m_mtime m_mdate m_crc m_data m_usize m_name].
  unfold new_file_lfh, nf_lfh, nf_desc_branch, nf_fill_lfh, nf_write_desc, nf_lfh_crc, nf_lfh_csize, nf_lfh_usize.
  rewrite (u16_small (zlen (c_name c))), (u16_small (zlen (c_extra c))) by lia.
  destruct (c_desc c); cbn [negb].
  - reflexivity.
  - cbn [set_field lfh_widths]. rewrite (u32_small (zlen (c_cdata c))), (u32_small (c_usize c)) by lia.
    cbn [desc_enc]. reflexivity.
Qed.

Lemma regen_nf c off : call_ok c -> 0 <= off < 4294967295 -> regen_header (nf_ent c off) = sp_central (nf_member c) off.
Proof.
  intros (Hn & He & Hcrc & Hcs & Hus & _) Ho.
  pose proof (zlen_nonneg (c_name c)). pose proof (zlen_nonneg (c_extra c)). pose proof (zlen_nonneg (c_cdata c)).
  unfold regen_header, nf_ent. cbn [e_csize e_usize e_offset e_creator e_reader e_flags e_method e_mtime e_mdate e_crc e_iattrs e_eattrs e_name e_extra e_comment].
  unfold gdh_promote. replace (zlen (c_cdata c) >=? 4294967295) with false by lia. replace (c_usize c >=? 4294967295) with false by lia.
  replace (off >=? 4294967295) with false by lia. cbn [orb]. cbv iota.
  unfold sp_central, sp_cdh, sp_cextra, sp_z64rec, sat, sp_csize, sp_flags, has_desc, nf_member, A_M32.
  cbn [m_satu m_satc m_sato m_usize m_data m_z64last m_cextra m_name m_comment m_creator m_reader m_flags m_desc m_method m_mtime m_mdate m_crc m_disk m_iattrs m_eattrs].
  replace (zlen (c_cdata c) >=? 4294967295) with false by lia. replace (c_usize c >=? 4294967295) with false by lia.
  replace (off >=? 4294967295) with false by lia. cbn [orb app]. change (zlen (@nil Z) =? 0) with true. cbv iota. cbn [app].
  unfold gdh_hdr. rewrite (u32_small (zlen (c_cdata c))), (u32_small (c_usize c)), (u32_small off) by lia.
  rewrite (u16_small (zlen (c_name c))), (u16_small (zlen (c_extra c))) by lia. change (zlen (@nil Z)) with 0. change (u16 0) with 0.
  destruct (c_desc c); reflexivity.
Qed.

(* the fold over NewFile calls *)
Fixpoint nf_ents (cs : list nfcall) (s : Z) : list cdent :=
  match cs with [] => [] | c :: r => nf_ent c s :: nf_ents r (s + zlen (sp_local (nf_member c))) end.

Lemma fresh_fold : forall cs fs dl buf, Forall call_ok cs ->
  fold_left fresh_step cs (fs, dl, buf) =
  (fs ++ nf_ents cs dl, dl + zlen (locals (map nf_member cs)), buf ++ locals (map nf_member cs)).
Proof.
  induction cs as [|c cs IH]; intros fs dl buf Hok.
  - cbn. change (zlen (@nil Z)) with 0. now rewrite !app_nil_r, Z.add_0_r.
  - inversion Hok as [|? ? Hc Hcs]; subst. cbn [fold_left map nf_ents]. rewrite locals_cons.
    unfold fresh_step at 2. cbn [fst snd]. rewrite new_file_snd, (new_file_local c Hc).
    unfold add_file. cbn [fst snd]. unfold af_offset, af_advances_dirloc.
    rewrite IH by assumption. rewrite zlen_app, <- !app_assoc. cbn [app].
    assert (E : forall x : bool, mkEnt (e_creator (nf_ent c 0)) (e_reader (nf_ent c 0)) (e_flags (nf_ent c 0)) (e_method (nf_ent c 0)) (e_mtime (nf_ent c 0))
                 (e_mdate (nf_ent c 0)) (e_crc (nf_ent c 0)) (e_csize (nf_ent c 0)) (e_usize (nf_ent c 0)) (e_name (nf_ent c 0)) (e_extra (nf_ent c 0))
                 (e_comment (nf_ent c 0)) (e_iattrs (nf_ent c 0)) (e_eattrs (nf_ent c 0)) dl (if x then [] else e_raw (nf_ent c 0)) = nf_ent c dl)
      by (intros x; unfold nf_ent; cbn; destruct x; reflexivity).
    rewrite E. rewrite Z.add_assoc. reflexivity.
Qed.

Lemma nf_ents_cd : forall cs s, Forall call_ok cs -> 0 <= s ->
  s + zlen (locals (map nf_member cs)) < 4294967295 ->
  cd_bytes (nf_ents cs s) = centrals (combine (map nf_member cs) (sp_offsets s [] (map nf_member cs))).
Proof.
  induction cs as [|c cs IH]; intros s Hok Hs Hb; [reflexivity|].
  inversion Hok as [|? ? Hc Hcs]; subst. cbn [map] in *. rewrite locals_cons, zlen_app in Hb.
  pose proof (zlen_nonneg (sp_local (nf_member c))). pose proof (zlen_nonneg (locals (map nf_member cs))).
  cbn [nf_ents sp_offsets hd tl combine]. change (zlen (@nil Z)) with 0. rewrite Z.add_0_r.
  unfold cd_bytes, centrals in *. cbn [map concat fst snd]. f_equal.
  - unfold dir_header. unfold nf_ent at 1. cbn [e_raw]. change (gdh_use_raw (zlen (@nil Z))) with false. cbv iota.
    apply regen_nf; [assumption|lia].
  - apply IH; [assumption|lia|lia].
Qed.

Lemma wd_min_version_nf : forall cs s mv, (mv = 20 \/ mv = 45) ->
  fold_left (fun mv f => if wd_version_raise (e_reader f) mv then e_reader f else mv) (nf_ents cs s) mv =
  if existsb c_desc cs then 45 else mv.
Proof.
  induction cs as [|c cs IH]; intros s mv Hmv; [reflexivity|].
  cbn [nf_ents fold_left existsb]. replace (e_reader (nf_ent c s)) with (if c_desc c then nf_desc_reader else nf_reader0) by reflexivity. unfold wd_version_raise.
  destruct (c_desc c); cbn [orb].
  - change nf_desc_reader with 45. destruct Hmv as [-> | ->].
    + change (45 >? 20) with true. cbv iota. rewrite IH by auto. now destruct (existsb c_desc cs).
    + change (45 >? 45) with false. cbv iota. rewrite IH by auto. now destruct (existsb c_desc cs).
  - change nf_reader0 with 20. destruct Hmv as [-> | ->].
    + change (20 >? 20) with false. cbv iota. now apply IH; auto.
    + change (20 >? 45) with false. cbv iota. now apply IH; auto.
Qed.

Lemma nf_ents_len cs s : zlen (nf_ents cs s) = zlen cs.
Proof. unfold zlen. f_equal. revert s. induction cs as [|c cs IH]; intros s; cbn [nf_ents length]; [reflexivity|]. now rewrite IH. Qed.

(* an archive written from scratch by relic is exactly the APPNOTE archive of its members *)
Theorem fresh_archive_appnote : forall cs force,
  Forall call_ok cs -> zlen cs < 65535 ->
  zlen (locals (map nf_member cs)) + zlen (centrals (pairs (map nf_member cs))) < 4294967295 ->
  fresh_archive cs force = build (map nf_member cs) (plain_opts (fresh_mode cs force)).
Proof.
  intros cs force Hok Hcnt Hsmall. set (ms := map nf_member cs) in *.
  pose proof (zlen_nonneg (locals ms)) as HL0. pose proof (zlen_nonneg (centrals (pairs ms))) as HC0. pose proof (zlen_nonneg cs) as Hn0.
  rewrite build_plain. unfold fresh_archive. cbv zeta. pose proof (fresh_fold cs [] 0 [] Hok) as HF. unfold bytes in *. rewrite HF. clear HF. cbn [fst snd app]. fold ms.
  rewrite Z.add_0_l. f_equal.
  unfold write_directory. change (wd_separate false) with false. change (wd_weod_nil false) with false. cbv iota.
  assert (Hcd : cd_bytes (nf_ents cs 0) = centrals (pairs ms)).
  { unfold pairs, ms. apply nf_ents_cd; [assumption|lia|]. fold ms. lia. }
  rewrite Hcd. f_equal.
  unfold wd_tail. rewrite Hcd, nf_ents_len. unfold wd_cdoff, wd_need_zip64.
  replace (zlen cs >=? 65535) with false by lia. replace (zlen (centrals (pairs ms)) >=? 4294967295) with false by lia.
  replace (zlen (locals ms) >=? 4294967295) with false by lia. cbn [orb].
  unfold wd_min_version. rewrite wd_min_version_nf by (left; reflexivity).
  assert (Hzm : zlen ms = zlen cs) by (unfold ms, zlen; now rewrite map_length).
  rewrite sp_end_cases, Hzm. unfold fresh_mode, A_M16, A_M32.
  replace (zlen cs >=? 65535) with false by lia. replace (zlen (centrals (pairs ms)) >=? 4294967295) with false by lia.
  replace (zlen (locals ms) >=? 4294967295) with false by lia. cbn [orb].
  destruct force; cbn [orb].
  - change wd_forced_version with 45. change (wd_emit_zip64 45) with true. cbv iota.
    change (1 =? 1) with true. change (1 =? 0) with false. cbn [negb orb]. cbv iota.
    unfold wd_write_order. cbn [map concat]. unfold pick. cbn [find fst snd].
    change (3 =? 3) with true. change (3 =? 1) with false. change (1 =? 1) with true. change (3 =? 2) with false. change (1 =? 2) with false.
    change (2 =? 2) with true. cbv iota. rewrite app_nil_r. reflexivity.
  - destruct (existsb c_desc cs).
    + change (wd_emit_zip64 45) with true. cbv iota.
      change (1 =? 1) with true. change (1 =? 0) with false. cbn [negb orb]. cbv iota.
      unfold wd_write_order. cbn [map concat]. unfold pick. cbn [find fst snd].
      change (3 =? 3) with true. change (3 =? 1) with false. change (1 =? 1) with true. change (3 =? 2) with false. change (1 =? 2) with false.
      change (2 =? 2) with true. cbv iota. rewrite app_nil_r. reflexivity.
    + change wd_min_version0 with 20. change (wd_emit_zip64 20) with false. cbv iota.
      change (0 =? 1) with false. change (0 =? 0) with true. cbn [negb orb]. cbv iota.
      unfold wd_end_plain, eocd_of. rewrite (u16_small (zlen cs)), (u32_small (zlen (centrals (pairs ms)))), (u32_small (zlen (locals ms))) by lia.
      reflexivity.
Qed.

(* ... and it lies in class K: relic (and any reader that agrees with the specification view) reads it back identically *)
Lemma nf_local_ok c : call_ok c -> local_ok (nf_member c).
Proof.
  intros (Hn & He & Hcrc & Hcs & Hus & Hm & Hmt & Hmd). pose proof (zlen_nonneg (c_cdata c)).
  unfold local_ok, nf_member, sp_lextra, sp_csize. cbn [m_name m_lz64 m_lextra m_flags m_crc m_reader m_desc m_data m_usize].
  repeat split; try assumption; try lia; try (destruct (c_desc c); lia).
  destruct (c_desc c); cbn [desc_ok]; [|exact I].
  repeat split; try lia.
  destruct (Z.eq_dec (c_usize c) 0) as [E|E]; [right; lia|left; apply dd24_ok_small; lia].
Qed.
Lemma nf_central_ok c off : call_ok c -> 0 <= off < 4294967295 -> central_ok (nf_member c) off.
Proof.
  intros (Hn & He & Hcrc & Hcs & Hus & Hm & Hmt & Hmd) Ho. pose proof (zlen_nonneg (c_cdata c)).
  assert (Hsat : sat_u (nf_member c) = false /\ sat_c (nf_member c) = false /\ sat_o (nf_member c) off = false).
  { unfold sat_u, sat_c, sat_o, sat, sp_csize, nf_member, A_M32. cbn [m_satu m_satc m_sato m_usize m_data]. repeat split; lia. }
  destruct Hsat as (S1 & S2 & S3).
  assert (Hx : sp_cextra (nf_member c) off = c_extra c).
  { unfold sp_cextra, sp_z64rec. fold (sat_u (nf_member c)) (sat_c (nf_member c)) (sat_o (nf_member c) off). rewrite S1, S2, S3. reflexivity. }
  unfold central_ok. rewrite Hx, S1, S2, S3. unfold sp_csize, nf_member.
  cbn [m_creator m_reader m_flags m_method m_mtime m_mdate m_crc m_iattrs m_eattrs m_name m_comment m_usize m_data].
  change (zlen (@nil Z)) with 0.
  repeat split; try assumption; try lia; try (destruct (c_desc c); lia); try discriminate.
Qed.
Lemma nf_pairs_ok : forall cs s, Forall call_ok cs -> 0 <= s -> s + zlen (locals (map nf_member cs)) < 4294967295 ->
  Forall (fun p => central_ok (fst p) (snd p)) (combine (map nf_member cs) (sp_offsets s [] (map nf_member cs))).
Proof.
  induction cs as [|c cs IH]; intros s Hok Hs Hb; [constructor|].
  inversion Hok as [|? ? Hc Hcs]; subst. cbn [map] in *. rewrite locals_cons, zlen_app in Hb.
  pose proof (zlen_nonneg (sp_local (nf_member c))). pose proof (zlen_nonneg (locals (map nf_member cs))).
  cbn [sp_offsets hd tl combine]. change (zlen (@nil Z)) with 0. rewrite Z.add_0_r. constructor.
  - cbn [fst snd]. apply nf_central_ok; [assumption|lia].
  - apply IH; [assumption|lia|lia].
Qed.

Theorem fresh_archive_in_classK : forall cs force,
  Forall call_ok cs -> zlen cs < 65535 ->
  zlen (locals (map nf_member cs)) + zlen (centrals (pairs (map nf_member cs))) < 4294967295 - 98 ->
  classK (map nf_member cs) (fresh_mode cs force).
Proof.
  intros cs force Hok Hcnt Hsmall. set (ms := map nf_member cs) in *.
  pose proof (zlen_nonneg (locals ms)) as HL0. pose proof (zlen_nonneg (centrals (pairs ms))) as HC0.
  unfold classK. repeat split.
  - unfold ms. rewrite Forall_map. eapply Forall_impl; [|exact Hok]. intros c. apply nf_local_ok.
  - unfold pairs, ms. apply nf_pairs_ok; [assumption|lia|fold ms; lia].
  - unfold fresh_mode. destruct (force || existsb c_desc cs); auto.
  - rewrite build_plain, !zlen_app. fold ms.
    assert (zlen (sp_end (plain_opts (fresh_mode cs force)) (zlen ms) (zlen (centrals (pairs ms))) (zlen (locals ms))) <= 98).
    { rewrite sp_end_cases. destruct (_ || _); rewrite ?zlen_app, ?e64_len, ?l64_len, ?eocd_len; lia. }
    lia.
Qed.

Theorem writer_reread_thm : forall cs force,
  Forall call_ok cs -> zlen cs < 65535 ->
  zlen (locals (map nf_member cs)) + zlen (centrals (pairs (map nf_member cs))) < 4294967295 - 98 ->
  let z := fresh_archive cs force in
  let ms := map nf_member cs in
  exists d, read_zip (rd_bytes z) (zlen z) = Ok d
    /\ d_files d = parsed (pairs ms) /\ d_dirloc d = zlen (locals ms)
    /\ (forall md, total_sizes md (rd_bytes z) 0 (d_files d) = Ok (map sized_of ms))
    /\ views (d_files d) (map sized_of ms) = sp_view ms (plain_opts (fresh_mode cs force))
    /\ exists cd eod, get_original (rd_bytes z) d false = Ok (cd, eod) /\ cd ++ eod = zdrop (zlen (locals ms)) z.
Proof.
  intros cs force Hok Hcnt Hsmall z ms.
  assert (E : z = build ms (plain_opts (fresh_mode cs force))) by (apply fresh_archive_appnote; [assumption|assumption|lia]).
  clearbody z. subst z.
  apply parse_build_thm. now apply fresh_archive_in_classK.
Qed.
