(* C17/Proofs.v — lemmas behind C17/Properties.v *)
From Relic Require Import Base.Prelude Base.Enc Generated.C17_gen C17.Model C17.Bytes.

(* the Go wire structs have the APPNOTE layouts (a reordered or resized Go struct breaks these) *)
Lemma layouts_are_appnote :
  lfh_widths = apn_lfh_widths /\ cdh_widths = apn_cdh_widths /\ e64_widths = apn_e64_widths /\
  l64_widths = apn_l64_widths /\ eocd_widths = apn_eocd_widths /\
  dd_widths = [4; 4; 4; 4] /\ dd64_widths = [4; 4; 8; 8] /\ z64x_widths = [2; 2; 8; 8; 8] /\
  cdh_size = directoryHeaderLen /\ lfh_size = fileHeaderLen /\ eocd_size = directoryEndLen /\
  l64_size = directory64LocLen /\ e64_size = directory64EndLen /\ dd_size = dataDescriptorLen /\ dd64_size = dataDescriptor64Len.
Proof. repeat split; reflexivity. Qed.

(* ------------------------------------------------------------------ reading from a byte string *)
Lemma rd_bytes_mid a b c p n : p = zlen a -> n = zlen b -> rd_bytes (a ++ b ++ c) p n = Ok b.
Proof.
  intros -> ->. unfold rd_bytes. rewrite !zlen_app.
  pose proof (zlen_nonneg a). pose proof (zlen_nonneg b). pose proof (zlen_nonneg c).
  replace ((zlen a <? 0) || (zlen b <? 0) || (zlen a + (zlen b + zlen c) <? zlen a + zlen b)) with false by lia.
  f_equal. now apply zslice_mid.
Qed.
Lemma rd_bytes_pre a z p n : zlen a <= p -> rd_bytes (a ++ z) p n = rd_bytes z (p - zlen a) n.
Proof.
  intros H. unfold rd_bytes. rewrite zlen_app. pose proof (zlen_nonneg a).
  replace ((p <? 0) || (n <? 0) || (zlen a + zlen z <? p + n)) with ((p - zlen a <? 0) || (n <? 0) || (zlen z <? p - zlen a + n)) by lia.
  destruct ((p - zlen a <? 0) || (n <? 0) || (zlen z <? p - zlen a + n)); [reflexivity|].
  f_equal. rewrite zslice_app_r by lia. f_equal. lia.
Qed.
Lemma rd_bytes_slice z p n : 0 <= p -> 0 <= n -> p + n <= zlen z -> rd_bytes z p n = Ok (zslice p (p + n) z).
Proof. intros. unfold rd_bytes. replace ((p <? 0) || (n <? 0) || (zlen z <? p + n)) with false by lia. reflexivity. Qed.

Lemma rd_at_ok m r pos p n b : r p n = Ok b -> pos <= p -> rd_at m r pos p n = Ok (b, adv m pos (p + n)).
Proof.
  intros H Hp. destruct m; cbn [rd_at adv]; [now rewrite H|].
  unfold sr_seek_back. replace (p <? pos) with false by lia. now rewrite H.
Qed.
Lemma rd_full_ok m r pos p n b : (n <> 0 -> r p n = Ok b) -> (n = 0 -> b = []) -> pos <= p -> 0 <= n ->
  exists pos', rd_full m r pos p n = Ok (b, pos') /\ pos <= pos' /\ pos' <= Z.max pos (p + n).
Proof.
  intros H H0 Hp Hn. unfold rd_full. destruct (Z.eqb_spec n 0) as [E|E].
  - rewrite (H0 E). exists pos. repeat split; lia.
  - rewrite (rd_at_ok m r pos p n b (H E) Hp). exists (adv m pos (p + n)). destruct m; cbn [adv]; repeat split; lia.
Qed.

(* a local entry in context: pre ++ hdr ++ name ++ ex ++ data ++ tail *)
Section Local.
  Variables pre hdr name ex data tail : bytes.
  Let z := pre ++ hdr ++ name ++ ex ++ data ++ tail.
  Lemma loc_r1 : rd_bytes z (zlen pre) (zlen hdr) = Ok hdr.
  Proof. unfold z. now apply rd_bytes_mid. Qed.
  Lemma loc_r2 : rd_bytes z (zlen pre + zlen hdr) (zlen name) = Ok name.
  Proof.
    unfold z. rewrite (app_assoc pre hdr). apply rd_bytes_mid; [now rewrite zlen_app|reflexivity].
  Qed.
  Lemma loc_r3 : rd_bytes z (zlen pre + zlen hdr + zlen name) (zlen ex) = Ok ex.
  Proof.
    unfold z. rewrite (app_assoc pre hdr), (app_assoc (pre ++ hdr) name).
    apply rd_bytes_mid; [now rewrite !zlen_app|reflexivity].
  Qed.
  Lemma loc_r4 k n : 0 <= k -> 0 <= n -> k + n <= zlen tail ->
    rd_bytes z (zlen pre + zlen hdr + zlen name + zlen ex + zlen data + k) n = Ok (zslice k (k + n) tail).
  Proof.
    intros Hk Hn Hl. unfold z.
    rewrite (app_assoc pre hdr), (app_assoc (pre ++ hdr) name), (app_assoc ((pre ++ hdr) ++ name) ex),
            (app_assoc (((pre ++ hdr) ++ name) ++ ex) data).
    rewrite rd_bytes_pre by (rewrite !zlen_app; lia). rewrite !zlen_app.
    replace (zlen pre + zlen hdr + zlen name + zlen ex + zlen data + k - (zlen pre + zlen hdr + zlen name + zlen ex + zlen data)) with k by lia.
    now apply rd_bytes_slice.
  Qed.
End Local.

(* ------------------------------------------------------------------ fields of spec-built structs *)
Lemma fld0 ws vs i : length ws = length vs -> Forall (fun w => 0 <= w) ws -> (i < length ws)%nat ->
  fld (off_of i ws) (nth i ws 0) (enc_struct ws vs) = nth i vs 0 mod 256 ^ nth i ws 0.
Proof. intros. rewrite <- (app_nil_r (enc_struct ws vs)). now apply fld_enc_struct. Qed.

Lemma sp_lfh_len m : zlen (sp_lfh m) = 30.
Proof. unfold sp_lfh. rewrite zlen_enc_struct; [reflexivity|reflexivity|unfold apn_lfh_widths; wsok]. Qed.
Ltac lfh_field i :=
  unfold sp_lfh;
  match goal with |- context [fld ?o ?w (enc_struct apn_lfh_widths ?vs)] =>
    change o with (off_of i apn_lfh_widths); change w with (nth i apn_lfh_widths 0);
    rewrite (fld0 apn_lfh_widths vs i) by (try reflexivity; try (unfold apn_lfh_widths; wsok); cbn; lia)
  end; cbn [nth apn_lfh_widths].
Lemma sp_lfh_sig m : fld lfh_off_Signature lfh_w_Signature (sp_lfh m) = A_LFH_SIG.
Proof. lfh_field 0%nat. reflexivity. Qed.
Lemma sp_lfh_flags m : Z.land (fld lfh_off_Flags lfh_w_Flags (sp_lfh m)) 8 = if has_desc m then 8 else Z.land (m_flags m) 8.
Proof.
  lfh_field 2%nat. rewrite land8_mod16. unfold sp_flags. destruct (has_desc m); [apply land_lor_8|now rewrite Z.lor_0_r].
Qed.
Lemma sp_lfh_reader m : 0 <= m_reader m < 65536 -> fld lfh_off_ReaderVersion lfh_w_ReaderVersion (sp_lfh m) = m_reader m.
Proof. intros H. lfh_field 1%nat. apply Z.mod_small. lia. Qed.
Lemma sp_lfh_nlen m : zlen (m_name m) < 65536 -> fld lfh_off_FilenameLen lfh_w_FilenameLen (sp_lfh m) = zlen (m_name m).
Proof. intros H. lfh_field 9%nat. apply Z.mod_small. pose proof (zlen_nonneg (m_name m)). lia. Qed.
Lemma sp_lfh_elen m : zlen (sp_lextra m) < 65536 -> fld lfh_off_ExtraLen lfh_w_ExtraLen (sp_lfh m) = zlen (sp_lextra m).
Proof. intros H. lfh_field 10%nat. apply Z.mod_small. pose proof (zlen_nonneg (sp_lextra m)). lia. Qed.

(* ------------------------------------------------------------------ descriptors *)
Lemma dd24_ok_small csize usize : 0 <= csize < 4294967296 -> 0 < usize -> dd24_ok csize usize = true.
Proof.
  intros Hc Hu. unfold dd24_ok. rewrite Z.div_small by lia. rewrite Z.mod_0_l by lia.
  destruct (Z_lt_ge_dec usize 4294967295).
  - rewrite Z.mod_small by lia. lia.
  - lia.
Qed.

Lemma zlen_desc_enc k crc cs us : zlen (desc_enc k crc cs us) = match k with DNone => 0 | D16 => 16 | D12 => 12 | D24 => 24 | D20 => 20 end.
Proof. destruct k; reflexivity. Qed.

Lemma d24_first16 crc cs us :
  ztake 16 (desc_enc D24 crc cs us) = enc_struct [4; 4; 4; 4] [A_DD_SIG; crc; cs; cs / 4294967296].
Proof.
  unfold desc_enc. rewrite !enc_struct_cons, enc_struct_nil_l.
  change (Z.to_nat 8) with (4 + 4)%nat. rewrite (le_enc_split 4 4 cs). change (256 ^ Z.of_nat 4) with 4294967296.
  rewrite !app_nil_r. rewrite <- !app_assoc.
  rewrite (app_assoc (le_enc (Z.to_nat 4) A_DD_SIG)), (app_assoc (_ ++ le_enc (Z.to_nat 4) crc)), (app_assoc (_ ++ le_enc 4 cs)).
  apply ztake_exact_n. rewrite !zlen_app, !le_enc_zlen. reflexivity.
Qed.



Lemma sp_local_len m : zlen (sp_local m) = 30 + zlen (m_name m) + zlen (sp_lextra m) + sp_csize m + zlen (sp_desc m).
Proof. unfold sp_local. rewrite !zlen_app, sp_lfh_len. unfold sp_csize. lia. Qed.

Lemma to_i64_small n : 0 <= n < 2 ^ 63 -> to_i64 n = n.
Proof. intros H. unfold to_i64. replace (n >=? 2 ^ 63) with false by lia. reflexivity. Qed.

(* GetTotalSize on a spec-built local entry sitting at offset |pre| of any archive *)
Lemma total_size_local : forall md m pre post f pos,
  local_ok m -> e_offset f = zlen pre -> e_csize f = sp_csize m -> e_usize f = m_usize m -> e_crc f = m_crc m ->
  zlen pre + zlen (sp_local m) < 2 ^ 63 -> pos <= zlen pre ->
  exists pos', total_size md (rd_bytes (pre ++ sp_local m ++ post)) pos f = Ok (sized_of m, pos')
               /\ pos' <= zlen pre + zlen (sp_local m).
Proof.
  intros md m pre post f pos (Hn & He & Hfl & Hcrc & Hrd & Hd) Hoff Hcs Hus Hcr Hbig Hpos.
  pose proof (zlen_nonneg pre) as Hp0. pose proof (zlen_nonneg (m_name m)) as Hn0.
  pose proof (zlen_nonneg (sp_lextra m)) as He0. pose proof (zlen_nonneg (m_data m)) as Hd0.
  pose proof (zlen_nonneg (sp_desc m)) as Hdd0.
  pose proof (sp_local_len m) as Hlen. unfold sp_csize in *.
  unfold sized_of. rewrite !Hlen.
  unfold total_size, read_lfh. rewrite Hoff, to_i64_small by lia.
  unfold sp_local. rewrite <- !app_assoc.
  set (z := pre ++ sp_lfh m ++ m_name m ++ sp_lextra m ++ m_data m ++ sp_desc m ++ post).
  assert (R1 : rd_bytes z (zlen pre) fileHeaderLen = Ok (sp_lfh m)).
  { change fileHeaderLen with 30. rewrite <- (sp_lfh_len m). apply loc_r1. }
  rewrite (rd_at_ok md _ pos _ _ _ R1 Hpos). cbn [bind fst snd].
  rewrite sp_lfh_sig. change (lfh_sig_bad A_LFH_SIG) with false. cbv iota.
  rewrite sp_lfh_nlen, sp_lfh_elen by assumption.
  assert (R2 : zlen (m_name m) <> 0 -> rd_bytes z (zlen pre + fileHeaderLen) (zlen (m_name m)) = Ok (m_name m)).
  { intros _. change fileHeaderLen with 30. rewrite <- (sp_lfh_len m). apply loc_r2. }
  destruct (rd_full_ok md (rd_bytes z) (adv md pos (zlen pre + fileHeaderLen)) (zlen pre + fileHeaderLen) (zlen (m_name m)) (m_name m) R2)
    as (p2 & E2 & Hp2a & Hp2b).
  { intros E. destruct (m_name m); [reflexivity|]. rewrite zlen_cons in E. pose proof (zlen_nonneg b). lia. }
  { destruct md; cbn [adv]; change fileHeaderLen with 30; lia. }
  { lia. }
  rewrite E2. cbn [bind fst snd].
  assert (R3 : zlen (sp_lextra m) <> 0 -> rd_bytes z (zlen pre + fileHeaderLen + zlen (m_name m)) (zlen (sp_lextra m)) = Ok (sp_lextra m)).
  { intros _. change fileHeaderLen with 30. rewrite <- (sp_lfh_len m). apply loc_r3. }
  assert (Hp2c : p2 <= zlen pre + fileHeaderLen + zlen (m_name m)).
  { change fileHeaderLen with 30 in *. destruct md; cbn [adv] in *; lia. }
  destruct (rd_full_ok md (rd_bytes z) p2 (zlen pre + fileHeaderLen + zlen (m_name m)) (zlen (sp_lextra m)) (sp_lextra m) R3)
    as (p3 & E3 & Hp3a & Hp3b).
  { intros E. destruct (sp_lextra m); [reflexivity|]. rewrite zlen_cons in E. pose proof (zlen_nonneg b). lia. }
  { exact Hp2c. }
  { lia. }
  rewrite E3. cbn [bind fst snd].
  assert (Hp3c : p3 <= zlen pre + 30 + zlen (m_name m) + zlen (sp_lextra m)).
  { change fileHeaderLen with 30 in *. lia. }
  unfold read_dd. unfold l_flags. cbn [l_hdr l_name l_extra].
  change dd_flag_mask with 8. rewrite sp_lfh_flags.
  assert (R4 : forall k n, 0 <= k -> 0 <= n -> k + n <= zlen (sp_desc m ++ post) ->
     rd_bytes z (zlen pre + 30 + zlen (m_name m) + zlen (sp_lextra m) + zlen (m_data m) + k) n = Ok (zslice k (k + n) (sp_desc m ++ post))).
  { intros k n Hk Hn' Hkn. rewrite <- (sp_lfh_len m). now apply loc_r4. }
  unfold sp_desc, has_desc in *. unfold sp_csize in *. destruct (m_desc m) eqn:Ek; cbn [desc_ok] in *.
  - (* no descriptor *)
    rewrite Hfl. change (dd_absent 0) with true. cbv iota. cbn [bind fst snd].
    exists p3. split.
    + f_equal. f_equal. unfold total_size_expr. rewrite Hcs, to_i64_small by lia. cbn [desc_enc]. change (zlen (@nil Z)) with 0. f_equal; lia.
    + cbn [desc_enc]. change (zlen (@nil Z)) with 0. lia.
  - (* 16-byte descriptor with signature *)
    change (dd_absent 8) with false. cbv iota.
    destruct Hd as (Hus1 & Hcs1 & Hamb).
    rewrite (sp_lfh_reader m Hrd).
    unfold dd_lfh_size, dd_pos. rewrite Hoff, Hcs, !to_i64_small by lia.
    change fileHeaderLen with 30.
    replace (zlen pre + (30 + zlen (m_name m) + zlen (sp_lextra m)) + zlen (m_data m))
      with (zlen pre + 30 + zlen (m_name m) + zlen (sp_lextra m) + zlen (m_data m) + 0) by lia.
    assert (R : rd_bytes z (zlen pre + 30 + zlen (m_name m) + zlen (sp_lextra m) + zlen (m_data m) + 0) dataDescriptorLen
                = Ok (desc_enc D16 (m_crc m) (zlen (m_data m)) (m_usize m))).
    { rewrite R4 by (rewrite ?zlen_app, ?zlen_desc_enc; change dataDescriptorLen with 16; pose proof (zlen_nonneg post); lia).
      f_equal; try reflexivity. }
    rewrite (rd_at_ok md _ p3 _ _ _ R) by lia. cbn [bind fst snd].
    unfold desc_enc.
    change dd_off_Signature with (off_of 0 [4;4;4;4]). change dd_w_Signature with (nth 0 [4;4;4;4] 0).
    change dd_off_UncompressedSize with (off_of 3 [4;4;4;4]). change dd_w_UncompressedSize with (nth 3 [4;4;4;4] 0).
    change dd_off_CompressedSize with (off_of 2 [4;4;4;4]). change dd_w_CompressedSize with (nth 2 [4;4;4;4] 0).
    change dd_off_CRC32 with (off_of 1 [4;4;4;4]). change dd_w_CRC32 with (nth 1 [4;4;4;4] 0).
    rewrite !fld0 by (try reflexivity; try wsok; cbn; lia). cbn [nth].
    change (dd_sig_bad (A_DD_SIG mod 256 ^ 4)) with false. cbv iota.
    change (256 ^ 4) with 4294967296. rewrite ?Hus, ?Hcs.
    rewrite (Z.mod_small (m_usize m)), (Z.mod_small (zlen (m_data m))), (Z.mod_small (m_crc m)) by lia.
    unfold dd_is_64, u32. rewrite (Z.mod_small (m_usize m)), (Z.mod_small (zlen (m_data m))) by lia.
    replace (m_usize m >=? 4294967295) with false by lia. rewrite !Z.eqb_refl. cbn [negb orb].
    unfold dd_ambiguous. cbn [negb andb].
    replace ((m_usize m =? 0) && (m_reader m >=? 45)) with false by (destruct (Z.eqb_spec (m_usize m) 0) as [E0|E0]; [specialize (Hamb E0)|]; lia).
    unfold dd_try_64. cbn [orb]. cbv iota.
    eexists. split.
    + cbn [bind fst snd]. rewrite ?zlen_enc_struct by (try reflexivity; wsok). cbn [sumz].
      unfold total_size_expr. rewrite ?to_i64_small by lia. f_equal. f_equal. f_equal; lia.
    + rewrite zlen_enc_struct by (try reflexivity; wsok). cbn [sumz]. change dataDescriptorLen with 16.
      destruct md; cbn [adv]; lia.
  - destruct Hd.
  - (* 24-byte descriptor with signature *)
    change (dd_absent 8) with false. cbv iota.
    destruct Hd as (Hus1 & Hcs1 & Hok).
    rewrite (sp_lfh_reader m Hrd).
    unfold dd_lfh_size, dd_pos. rewrite Hoff, Hcs, !to_i64_small by lia.
    change fileHeaderLen with 30.
    set (D := desc_enc D24 (m_crc m) (zlen (m_data m)) (m_usize m)) in *.
    assert (HD : zlen D = 24) by (unfold D; now rewrite zlen_desc_enc).
    replace (zlen pre + (30 + zlen (m_name m) + zlen (sp_lextra m)) + zlen (m_data m))
      with (zlen pre + 30 + zlen (m_name m) + zlen (sp_lextra m) + zlen (m_data m) + 0) by lia.
    assert (Ra : rd_bytes z (zlen pre + 30 + zlen (m_name m) + zlen (sp_lextra m) + zlen (m_data m) + 0) dataDescriptorLen
                = Ok (ztake 16 D)).
    { rewrite R4 by (rewrite ?zlen_app, ?HD; change dataDescriptorLen with 16; pose proof (zlen_nonneg post); lia).
      f_equal; try reflexivity. }
    rewrite (rd_at_ok md _ p3 _ _ _ Ra) by lia. cbn [bind fst snd].
    assert (G : fld dd_off_Signature dd_w_Signature (ztake 16 D) = A_DD_SIG /\
                fld dd_off_UncompressedSize dd_w_UncompressedSize (ztake 16 D) = zlen (m_data m) / 4294967296 mod 4294967296 /\
                fld dd_off_CompressedSize dd_w_CompressedSize (ztake 16 D) = zlen (m_data m) mod 4294967296).
    { unfold D. rewrite d24_first16.
      change dd_off_Signature with (off_of 0 [4;4;4;4]). change dd_w_Signature with (nth 0 [4;4;4;4] 0).
      change dd_off_UncompressedSize with (off_of 3 [4;4;4;4]). change dd_w_UncompressedSize with (nth 3 [4;4;4;4] 0).
      change dd_off_CompressedSize with (off_of 2 [4;4;4;4]). change dd_w_CompressedSize with (nth 2 [4;4;4;4] 0).
      rewrite !fld0 by (try reflexivity; try wsok; cbn; lia). cbn [nth]. change (256 ^ 4) with 4294967296. auto. }
    destruct G as (G1 & G2 & G3). rewrite G1, G2, G3.
    change (dd_sig_bad A_DD_SIG) with false. cbv iota. rewrite ?Hus, ?Hcs.
    set (is64 := dd_is_64 (m_usize m) (zlen (m_data m)) (zlen (m_data m) / 4294967296 mod 4294967296) (zlen (m_data m) mod 4294967296)).
    assert (His : dd_try_64 is64 (dd_ambiguous is64 (m_usize m) (m_reader m)) = true).
    { unfold dd_try_64, dd_ambiguous. destruct Hok as [Hok|(Hu0 & Hr45)].
      - replace is64 with true; [reflexivity|]. symmetry. unfold is64, dd_is_64, u32. unfold dd24_ok in Hok. rewrite Z.eqb_refl. cbn [negb]. rewrite orb_false_r.
        exact Hok.
      - destruct is64; [reflexivity|]. cbn [negb orb andb]. rewrite Hu0. replace (m_reader m >=? 45) with true by lia. reflexivity. }
    rewrite His. cbv iota.
    replace (zlen pre + 30 + zlen (m_name m) + zlen (sp_lextra m) + zlen (m_data m) + 0 + dataDescriptorLen)
      with (zlen pre + 30 + zlen (m_name m) + zlen (sp_lextra m) + zlen (m_data m) + 16) by (change dataDescriptorLen with 16; lia).
    assert (Rb : rd_bytes z (zlen pre + 30 + zlen (m_name m) + zlen (sp_lextra m) + zlen (m_data m) + 16)
                   (dataDescriptor64Len - dataDescriptorLen) = Ok (zdrop 16 D)).
    { rewrite R4 by (rewrite ?zlen_app, ?HD; change (dataDescriptor64Len - dataDescriptorLen) with 8; pose proof (zlen_nonneg post); lia).
      f_equal; try reflexivity. }
    rewrite (rd_at_ok md _ _ _ _ _ Rb) by (destruct md; cbn [adv]; change dataDescriptorLen with 16; lia).
    cbn [bind fst snd].
    rewrite !ztake_zdrop.
    assert (F : fld dd64_off_UncompressedSize dd64_w_UncompressedSize D = m_usize m /\
                fld dd64_off_CompressedSize dd64_w_CompressedSize D = zlen (m_data m) /\
                fld dd64_off_CRC32 dd64_w_CRC32 D = m_crc m).
    { unfold D, desc_enc.
      change dd64_off_UncompressedSize with (off_of 3 [4;4;8;8]). change dd64_w_UncompressedSize with (nth 3 [4;4;8;8] 0).
      change dd64_off_CompressedSize with (off_of 2 [4;4;8;8]). change dd64_w_CompressedSize with (nth 2 [4;4;8;8] 0).
      change dd64_off_CRC32 with (off_of 1 [4;4;8;8]). change dd64_w_CRC32 with (nth 1 [4;4;8;8] 0).
      rewrite !fld0 by (try reflexivity; try wsok; cbn; lia). cbn [nth].
      change (256 ^ 8) with (2 ^ 64). change (256 ^ 4) with 4294967296.
      rewrite (Z.mod_small (m_usize m)), (Z.mod_small (zlen (m_data m))), (Z.mod_small (m_crc m)) by lia. auto. }
    destruct F as (F1 & F2 & F3). rewrite F1, F2, F3.
    unfold dd_64_valid. rewrite !Z.eqb_refl. cbn [is_ok andb]. cbv iota.
    eexists. split.
    + cbn [bind fst snd]. rewrite ?HD.
      unfold total_size_expr. rewrite ?to_i64_small by lia. f_equal. f_equal. f_equal; lia.
    + rewrite HD. change (dataDescriptor64Len - dataDescriptorLen) with 8. destruct md; cbn [adv]; lia.
  - destruct Hd.
Qed.

(* ------------------------------------------------------------------ all members, one pass (random access or streaming) *)
Lemma locals_cons m ms : locals (m :: ms) = sp_local m ++ locals ms.
Proof. reflexivity. Qed.
Lemma total_sizes_locals : forall md ms fs pre post pos,
  Forall local_ok ms -> placed (zlen pre) ms fs -> zlen pre + zlen (locals ms) < 2 ^ 63 -> pos <= zlen pre ->
  total_sizes md (rd_bytes (pre ++ locals ms ++ post)) pos fs = Ok (map sized_of ms).
Proof.
  intros md ms. induction ms as [|m ms IH]; intros fs pre post pos Hok Hpl Hbig Hpos.
  - inversion Hpl; subst. reflexivity.
  - inversion Hpl as [|o m' ms' f fs' (Ho & Hc & Hu & Hcr) Hrest]; subst. inversion Hok as [|? ? Hm Hms]; subst.
    rewrite locals_cons in *. rewrite zlen_app in Hbig. pose proof (zlen_nonneg (locals ms)).
    cbn [total_sizes]. rewrite <- app_assoc.
    destruct (total_size_local md m pre (locals ms ++ post) f pos Hm Ho Hc Hu Hcr) as (pos' & E & Hp'); [lia|exact Hpos|].
    rewrite E. cbn [bind fst snd].
    replace (pre ++ sp_local m ++ locals ms ++ post) with ((pre ++ sp_local m) ++ locals ms ++ post) by now rewrite <- app_assoc.
    rewrite (IH fs' (pre ++ sp_local m) post pos'); [reflexivity|assumption| |rewrite zlen_app; lia|rewrite zlen_app; lia].
    rewrite zlen_app. exact Hrest.
Qed.

(* ------------------------------------------------------------------ FindDirectory on APPNOTE end records *)
Ltac sfield ws i :=
  match goal with |- context [fld ?o ?w (enc_struct ws ?vs)] =>
    change o with (off_of i ws); change w with (nth i ws 0);
    rewrite (fld0 ws vs i) by (try reflexivity; try (unfold ws; wsok); cbn; lia)
  end; cbn [nth ws].

Lemma seq_loc l : zlen l = 42 -> seq_take (firstn 2 fd_read_order) 1 l = ztake 20 l.
Proof.
  intros H. unfold fd_read_order. cbn [firstn seq_take]. change (struct_size 1) with 20. change (1 =? 1) with true. cbv iota.
  replace (zlen l <? 20) with false by lia. reflexivity.
Qed.
Lemma seq_end l : zlen l = 42 -> seq_take (firstn 2 fd_read_order) 2 l = zdrop 20 l.
Proof.
  intros H. unfold fd_read_order. cbn [firstn seq_take]. change (struct_size 1) with 20. change (struct_size 2) with 22.
  change (1 =? 2) with false. change (2 =? 2) with true. cbv iota.
  replace (zlen l <? 20) with false by lia. rewrite zlen_zdrop by lia. replace (zlen l - 20 <? 22) with false by lia.
  apply ztake_all. rewrite zlen_zdrop; lia.
Qed.

Definition eocd_of (count cdsize cdoff : Z) : bytes := enc_struct apn_eocd_widths [A_EOCD_SIG; 0; 0; count; count; cdsize; cdoff; 0].
Lemma eocd_len a b c : zlen (eocd_of a b c) = 22.
Proof. unfold eocd_of. rewrite zlen_enc_struct; [reflexivity|reflexivity|unfold apn_eocd_widths; wsok]. Qed.

(* no ZIP64 records: the end record is the last 22 bytes and holds the directory offset *)
Lemma find_directory_plain : forall x count cdsize cdoff,
  20 <= zlen x -> 0 <= count < 65535 -> 0 <= cdsize < 4294967295 -> 0 <= cdoff < 4294967295 ->
  find_directory (rd_bytes (x ++ eocd_of count cdsize cdoff)) (zlen (x ++ eocd_of count cdsize cdoff)) = Ok cdoff.
Proof.
  intros x count cdsize cdoff Hx Hc Hs Ho. unfold find_directory, fd_pos, fd_short.
  change (directoryEndLen + directory64LocLen) with 42. change directoryEndLen with 22. change directory64LocLen with 20.
  set (E := eocd_of count cdsize cdoff). pose proof (eocd_len count cdsize cdoff) as HE. fold E in HE.
  rewrite zlen_app, HE. replace (zlen x + 22 - 22 - 20 <? 0) with false by lia. cbn [andb]. cbv iota.
  assert (H2 : zlen (zdrop (zlen x - 20) x) = 20) by (rewrite zlen_zdrop; lia).
  assert (R : rd_bytes (x ++ E) (zlen x + 22 - 22 - 20) 42 = Ok (zdrop (zlen x - 20) x ++ E)).
  { rewrite rd_bytes_slice by (rewrite ?zlen_app, ?HE; lia). f_equal. unfold zslice.
    replace (zlen x + 22 - 22 - 20) with (zlen x - 20) by lia.
    rewrite zdrop_app_l by lia. apply ztake_all. rewrite zlen_app, H2, HE. lia. }
  rewrite R. cbn [bind]. rewrite seq_end by (rewrite zlen_app, H2, HE; lia).
  rewrite zdrop_exact_n by lia.
  unfold E, eocd_of.
  sfield apn_eocd_widths 0%nat. change (fd_end_sig_bad (A_EOCD_SIG mod 256 ^ 4)) with false. cbv iota.
  sfield apn_eocd_widths 4%nat. sfield apn_eocd_widths 5%nat.
  repeat sfield apn_eocd_widths 6%nat.
  change (256 ^ 2) with 65536. change (256 ^ 4) with 4294967296.
  rewrite !Z.mod_small by lia. unfold fd_is_zip64.
  replace (count =? 65535) with false by lia. replace (cdsize =? 4294967295) with false by lia. replace (cdoff =? 4294967295) with false by lia.
  reflexivity.
Qed.

Definition e64_of (creator reader count cdsize cdoff : Z) : bytes :=
  enc_struct apn_e64_widths [A_E64_SIG; 44; creator; reader; 0; 0; count; count; cdsize; cdoff].
Definition l64_of (off : Z) : bytes := enc_struct apn_l64_widths [A_L64_SIG; 0; off; 1].
Lemma e64_len a b c d e : zlen (e64_of a b c d e) = 56.
Proof. unfold e64_of. rewrite zlen_enc_struct; [reflexivity|reflexivity|unfold apn_e64_widths; wsok]. Qed.
Lemma l64_len a : zlen (l64_of a) = 20.
Proof. unfold l64_of. rewrite zlen_enc_struct; [reflexivity|reflexivity|unfold apn_l64_widths; wsok]. Qed.

(* ZIP64 end record + locator present: whatever mix of saturated / plain fields the end record holds *)
Lemma find_directory_zip64 : forall x cr rd count cdsize cdoff c16 s32 o32,
  zlen x = cdoff + cdsize -> 0 <= cdoff -> 0 <= cdsize -> cdoff + cdsize < 2 ^ 63 ->
  0 <= c16 < 65536 -> 0 <= s32 < 4294967296 -> 0 <= o32 < 4294967296 ->
  (fd_is_zip64 c16 s32 o32 = false -> o32 = cdoff) ->
  let z := x ++ e64_of cr rd count cdsize cdoff ++ l64_of (cdoff + cdsize) ++ eocd_of c16 s32 o32 in
  find_directory (rd_bytes z) (zlen z) = Ok cdoff.
Proof.
  intros x cr rd count cdsize cdoff c16 s32 o32 Hx Ho Hs Hbig Hc16 Hs32 Ho32 Hplain z.
  set (E64 := e64_of cr rd count cdsize cdoff) in *. set (L := l64_of (cdoff + cdsize)) in *. set (E := eocd_of c16 s32 o32) in *.
  pose proof (e64_len cr rd count cdsize cdoff) as H64. pose proof (l64_len (cdoff + cdsize)) as HL. pose proof (eocd_len c16 s32 o32) as HE.
  fold E64 in H64. fold L in HL. fold E in HE.
  assert (Hz : zlen z = zlen x + 98) by (unfold z; rewrite !zlen_app, H64, HL, HE; lia).
  unfold find_directory, fd_pos, fd_short.
  change (directoryEndLen + directory64LocLen) with 42. change directoryEndLen with 22. change directory64LocLen with 20.
  pose proof (zlen_nonneg x). replace (zlen z - 22 - 20 <? 0) with false by lia. cbn [andb]. cbv iota.
  assert (R : rd_bytes z (zlen z - 22 - 20) 42 = Ok (L ++ E)).
  { replace (zlen z - 22 - 20) with (zlen x + 56) by lia. unfold z.
    replace (x ++ E64 ++ L ++ E) with ((x ++ E64) ++ (L ++ E) ++ []) by (now rewrite app_nil_r, <- !app_assoc).
    apply rd_bytes_mid; rewrite ?zlen_app, ?H64, ?HL, ?HE; lia. }
  rewrite R. cbn [bind].
  rewrite seq_loc, seq_end by (rewrite zlen_app, HL, HE; lia).
  rewrite zdrop_exact_n, ztake_exact_n by lia.
  unfold E at 1 2 3 4, eocd_of.
  sfield apn_eocd_widths 0%nat. change (fd_end_sig_bad (A_EOCD_SIG mod 256 ^ 4)) with false. cbv iota.
  sfield apn_eocd_widths 4%nat. sfield apn_eocd_widths 5%nat. sfield apn_eocd_widths 6%nat.
  change (256 ^ 2) with 65536. change (256 ^ 4) with 4294967296.
  rewrite !Z.mod_small by lia.
  destruct (fd_is_zip64 c16 s32 o32) eqn:Ez.
  - unfold L at 1 2, l64_of.
    sfield apn_l64_widths 0%nat. change (fd_loc_sig_bad (A_L64_SIG mod 256 ^ 4)) with false. cbv iota.
    sfield apn_l64_widths 2%nat. change (256 ^ 8) with (2 ^ 64). rewrite Z.mod_small by lia. rewrite to_i64_small by lia.
    assert (R2 : rd_bytes z (cdoff + cdsize) directory64EndLen = Ok E64).
    { unfold z. apply rd_bytes_mid; [lia|now rewrite H64]. }
    rewrite R2. cbn [bind]. unfold E64, e64_of.
    sfield apn_e64_widths 0%nat. change (fd_end64_sig_bad (A_E64_SIG mod 256 ^ 4)) with false. cbv iota.
    sfield apn_e64_widths 9%nat. change (256 ^ 8) with (2 ^ 64). rewrite Z.mod_small by lia. now rewrite to_i64_small by lia.
  - unfold E, eocd_of. sfield apn_eocd_widths 6%nat. change (256 ^ 4) with 4294967296. rewrite Z.mod_small by lia.
    now rewrite Hplain.
Qed.

(* archives shorter than 42 bytes (e.g. the empty archive): the whole file is read into the end of the buffer *)
Lemma find_directory_short : forall x count cdsize cdoff,
  zlen x < 20 -> 0 <= count < 65535 -> 0 <= cdsize < 4294967295 -> 0 <= cdoff < 4294967295 ->
  find_directory (rd_bytes (x ++ eocd_of count cdsize cdoff)) (zlen (x ++ eocd_of count cdsize cdoff)) = Ok cdoff.
Proof.
  intros x count cdsize cdoff Hx Hc Hs Ho. unfold find_directory, fd_pos, fd_short.
  change (directoryEndLen + directory64LocLen) with 42. change directoryEndLen with 22. change directory64LocLen with 20.
  set (E := eocd_of count cdsize cdoff). pose proof (eocd_len count cdsize cdoff) as HE. fold E in HE.
  pose proof (zlen_nonneg x) as Hx0.
  rewrite zlen_app, HE. replace (zlen x + 22 - 22 - 20 <? 0) with true by lia. replace (zlen x + 22 >=? 22) with true by lia. cbn [andb]. cbv iota.
  assert (R : rd_bytes (x ++ E) 0 (42 + (zlen x + 22 - 22 - 20)) = Ok (x ++ E)).
  { rewrite rd_bytes_slice by (rewrite ?zlen_app, ?HE; lia). f_equal. rewrite zslice_0. apply ztake_all. rewrite zlen_app, HE. lia. }
  rewrite R. cbn [bind].
  set (Z0 := zeros (- (zlen x + 22 - 22 - 20))).
  assert (HZ : zlen Z0 = 20 - zlen x) by (unfold Z0; rewrite zlen_zeros; lia).
  rewrite seq_end by (rewrite !zlen_app, HZ, HE; lia).
  rewrite app_assoc. rewrite zdrop_exact_n by (rewrite zlen_app, HZ; lia).
  unfold E, eocd_of.
  sfield apn_eocd_widths 0%nat. change (fd_end_sig_bad (A_EOCD_SIG mod 256 ^ 4)) with false. cbv iota.
  sfield apn_eocd_widths 4%nat. sfield apn_eocd_widths 5%nat.
  repeat sfield apn_eocd_widths 6%nat.
  change (256 ^ 2) with 65536. change (256 ^ 4) with 4294967296.
  rewrite !Z.mod_small by lia. unfold fd_is_zip64.
  replace (count =? 65535) with false by lia. replace (cdsize =? 4294967295) with false by lia. replace (cdoff =? 4294967295) with false by lia.
  reflexivity.
Qed.
