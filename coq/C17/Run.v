(* C17/Run.v — evaluation of the model and of the APPNOTE builder on harness cases. *)
From Relic Require Import Base.Prelude Base.Enc Base.Val Generated.C17_gen C17.Model C17.Layout.

Definition res_hdr {A} (r : result A) : list val :=
  match r with Ok _ => [VZ 0; VZ 0] | Err e => [VZ 1; VZ e] | Panic e => [VZ 2; VZ e] end.

(* reader description: [size [[off bytes] ...]] *)
Definition vreader (v : val) : reader * Z :=
  let size := vz (vnth 0 v) in
  let segs := map (fun s => (vz (vnth 0 s), vb (vnth 1 s))) (vl (vnth 1 v)) in
  (match segs with
   | [(0, b)] => if zlen b =? size then rd_bytes b else rd_sparse size segs
   | _ => rd_sparse size segs
   end, size).

Definition v_ent (f : cdent) : val :=
  VL [VB (e_name f); VZ (e_offset f); VZ (e_csize f); VZ (e_usize f); VZ (e_crc f); VZ (e_method f); VZ (e_flags f);
      VZ (e_reader f); VZ (e_creator f); VB (e_extra f); VB (e_comment f)].
Definition v_sized (r : result (sized * Z)) : val :=
  match r with
  | Ok (s, _) => VL [VZ 0; VZ 0; VZ (s_total s); VZ (s_ddlen s); VZ (s_crc s); VZ (s_lfhlen s)]
  | Err e => VL [VZ 1; VZ e]
  | Panic e => VL [VZ 2; VZ e]
  end.
Definition v_pair (r : result (bytes * bytes)) : val :=
  match r with
  | Ok (a, b) => VL [VZ 0; VZ 0; VB a; VB b]
  | Err e => VL [VZ 1; VZ e]
  | Panic e => VL [VZ 2; VZ e]
  end.
Definition v_z (r : result Z) : val :=
  match r with Ok z => VL [VZ 0; VZ 0; VZ z] | Err e => VL [VZ 1; VZ e] | Panic e => VL [VZ 2; VZ e] end.

(* streaming pass: GetTotalSize per file with a shared cursor, stopping at the first failure *)
Fixpoint stream_pass (r : reader) (pos : Z) (fs : list cdent) : list val :=
  match fs with
  | [] => []
  | f :: rest =>
      let x := total_size Stream r pos f in
      match x with
      | Ok (_, p) => v_sized x :: stream_pass r p rest
      | _ => [v_sized x]
      end
  end.

(* [0 reader] : random-access read, per-file sizes, NextFileOffset, WriteDirectory, GetOriginalDirectory, streaming pass *)
Definition run_read (v : val) : val :=
  let '(r, size) := vreader v in
  let d := read_zip r size in
  match d with
  | Ok d =>
      VL [VL (res_hdr (Ok d)); VZ (d_dirloc d); VL (map v_ent (d_files d));
          VL (map (fun f => v_sized (total_size Random r 0 f)) (d_files d));
          v_z (next_file_offset r (d_files d));
          v_pair (write_directory (d_files d) (d_dirloc d) false true false);
          v_pair (get_original r d false); v_pair (get_original r d true);
          VL (stream_pass r 0 (d_files d))]
  | _ => VL [VL (res_hdr d)]
  end.

(* spec member / options from values *)
Definition vdesc (z : Z) : desc_kind :=
  if z =? 1 then D16 else if z =? 2 then D12 else if z =? 3 then D24 else if z =? 4 then D20 else DNone.
(* [name lextra cextra comment creator reader flags method mtime mdate crc cdata usize iattrs eattrs disk desc lz64 satu satc sato z64last] *)
Definition vmember (v : val) : smember :=
  mkMem (vb (vnth 0 v)) (vb (vnth 1 v)) (vb (vnth 2 v)) (vb (vnth 3 v))
        (vz (vnth 4 v)) (vz (vnth 5 v)) (vz (vnth 6 v)) (vz (vnth 7 v)) (vz (vnth 8 v)) (vz (vnth 9 v)) (vz (vnth 10 v))
        (vb (vnth 11 v)) (vz (vnth 12 v)) (vz (vnth 13 v)) (vz (vnth 14 v)) (vz (vnth 15 v))
        (vdesc (vz (vnth 16 v))) (vbool (vnth 17 v)) (vbool (vnth 18 v)) (vbool (vnth 19 v)) (vbool (vnth 20 v)) (vbool (vnth 21 v)).
(* [prefix comment zip64end e64creator e64reader gaps gapcd cdorder] *)
Definition vopts (v : val) : sopts :=
  mkOpts (vb (vnth 0 v)) (vb (vnth 1 v)) (vz (vnth 2 v)) (vz (vnth 3 v)) (vz (vnth 4 v))
         (map vb (vl (vnth 5 v))) (vb (vnth 6 v)) (map (fun x => Z.to_nat (vz x)) (vl (vnth 7 v))).
Definition v_view (s : sview) : val :=
  VL [VB (v_name s); VZ (v_off s); VZ (v_csize s); VZ (v_usize s); VZ (v_crc s); VZ (v_total s); VZ (v_ddlen s)].
(* [2 members opts] : APPNOTE builder output and the view a conforming reader must report *)
Definition run_build (v : val) : val :=
  let ms := map vmember (vl (vnth 0 v)) in
  let o := vopts (vnth 1 v) in
  VL [VB (build ms o); VL (map v_view (sp_view ms o))].

(* NewFile calls: [name extra cdata usize crc method mtime mdate usedesc] *)
Definition run_new (files : list cdent) (dirloc : Z) (buf : bytes) (v : val) : list cdent * Z * bytes :=
  let '(b, e) := new_file (vb (vnth 0 v)) (vb (vnth 1 v)) (vb (vnth 2 v)) (vz (vnth 3 v)) (vz (vnth 4 v)) (vz (vnth 5 v))
                          (vz (vnth 6 v)) (vz (vnth 7 v)) (vbool (vnth 8 v)) in
  let '(fs, dl) := add_file files dirloc e (zlen b) in
  (fs, dl, buf ++ b).
Definition wd_same (files : list cdent) (dirloc : Z) (force : bool) : bytes :=
  match write_directory files dirloc force false false with Ok (a, b) => a ++ b | _ => [] end.
(* [3 calls force] : new(Directory); NewFile...; WriteDirectory(w, w, force) *)
Definition vcall (v : val) : nfcall :=
  mkCall (vb (vnth 0 v)) (vb (vnth 1 v)) (vb (vnth 2 v)) (vz (vnth 3 v)) (vz (vnth 4 v)) (vz (vnth 5 v)) (vz (vnth 6 v)) (vz (vnth 7 v)) (vbool (vnth 8 v)).
Definition run_fresh (v : val) : val :=
  VL [VB (fresh_archive (map vcall (vl (vnth 0 v))) (vbool (vnth 1 v)))].

(* [4 reader deleteflags calls force] : Read; Mangle(delete per flag); Mangler.NewFile...; MakePatch; apply the patch *)
Fixpoint mangle_walk (r : reader) (fs : list cdent) (del : list val) (out : list cdent) (dirloc : Z) (ranges : list (Z * Z))
  : result (list cdent * Z * list (Z * Z)) :=
  match fs with
  | [] => Ok (out, dirloc, ranges)
  | f :: rest =>
      x <- total_size Random r 0 f ;;
      let size := s_total (fst x) in
      (* the callback's file copy carries the CRC after readDataDesc *)
      let f1 := mkEnt (e_creator f) (e_reader f) (e_flags f) (e_method f) (e_mtime f) (e_mdate f) (s_crc (fst x)) (e_csize f) (e_usize f)
                      (e_name f) (e_extra f) (e_comment f) (e_iattrs f) (e_eattrs f) (e_offset f) (e_raw f) in
      if vbool (hd (VZ 0) del) then mangle_walk r rest (tl del) out dirloc (ranges ++ [(to_i64 (e_offset f), size)])
      else let '(o2, d2) := add_file out dirloc f1 size in mangle_walk r rest (tl del) o2 d2 ranges
  end.
(* copy the source up to `upto`, skipping the removed ranges (which must come in ascending order) *)
Fixpoint cut_ranges (r : reader) (pos upto : Z) (ranges : list (Z * Z)) : result bytes :=
  match ranges with
  | [] => if upto <? pos then Err 20 else r pos (upto - pos)
  | (o, n) :: rest =>
      if o <? pos then Err 20 else
      a <- r pos (o - pos) ;;
      b <- cut_ranges r (o + n) upto rest ;;
      Ok (a ++ b)
  end.
Definition run_mangle (v : val) : val :=
  let '(r, size) := vreader (vnth 0 v) in
  let res :=
    d <- read_zip r size ;;
    w <- mangle_walk r (d_files d) (vl (vnth 1 v)) [] 0 [] ;;
    let '(out, dirloc, ranges) := w in
    let '(fs, dl, buf) := fold_left (fun st c => let '(fs, dl, buf) := st in run_new fs dl buf c) (vl (vnth 2 v)) (out, dirloc, []) in
    body <- cut_ranges r 0 (d_dirloc d) ranges ;;
    Ok (body ++ buf ++ wd_same fs dl (vbool (vnth 3 v))) in
  match res with
  | Ok b => VL [VL (res_hdr res); VB b]
  | _ => VL [VL (res_hdr res)]
  end.

(* ------------------------------------------------------------------ layout-level writer (C17/Layout.v) *)
Definition v_se (s : sp_ent) : val := VL [VB (se_name s); VZ (se_off s); VZ (se_csize s); VZ (se_usize s); VZ (se_crc s)].
Definition v_views (o : option (list sp_ent)) : val :=
  match o with Some l => VL [VZ 1; VL (map v_se l)] | None => VL [VZ 0] end.
(* [0 name extra csize usize crc method mtime mdate usedesc] *)
Definition vnfl (v : val) : nfl :=
  mkNfl (vb (vnth 1 v)) (vb (vnth 2 v)) (vz (vnth 3 v)) (vz (vnth 4 v)) (vz (vnth 5 v)) (vz (vnth 6 v)) (vz (vnth 7 v)) (vz (vnth 8 v))
        (vbool (vnth 9 v)).
Definition lay_sources (v : val) : list (reader * result directory) :=
  map (fun rv => let '(r, size) := vreader rv in (r, read_zip r size)) (vl v).
(* AddFile(f) as the callers do it: f comes from Read of source k, GetTotalSize has stored the descriptor's CRC in f *)
Definition lay_add (srcs : list (reader * result directory)) (k i : Z) : result wop :=
  match nth_error srcs (Z.to_nat k) with
  | Some (r, Ok d) =>
      match nth_error (d_files d) (Z.to_nat i) with
      | Some f => x <- total_size Random r 0 f ;; Ok (WAdd (with_crc f (s_crc (fst x))) (s_total (fst x)))
      | None => Err 21
      end
  | Some (_, Err e) => Err e
  | Some (_, Panic e) => Panic e
  | None => Err 21
  end.
Fixpoint lay_ops (srcs : list (reader * result directory)) (ops : list val) : result (list wop) :=
  match ops with
  | [] => Ok []
  | o :: rest =>
      op <- (if vz (vnth 0 o) =? 0 then Ok (WNew (vnfl o)) else lay_add srcs (vz (vnth 1 o)) (vz (vnth 2 o))) ;;
      t <- lay_ops srcs rest ;;
      Ok (op :: t)
  end.
(* WriteDirectory(w, w, force) twice on the same Directory; what the APPNOTE reader sees in both outputs *)
Definition lay_write (files : list cdent) (dirloc : Z) (force : bool) : list val :=
  let w1 := write_directory_l files dirloc force in
  let w2 := write_directory_l (snd w1) dirloc force in
  [VZ dirloc; VB (fst (fst w1)); VB (snd (fst w1)); VB (fst (fst w2)); VB (snd (fst w2));
   v_views (sp_read_tail dirloc (fst (fst w1) ++ snd (fst w1))); v_views (sp_read_tail dirloc (fst (fst w2) ++ snd (fst w2)));
   v_views (sp_read_tail_py dirloc (fst (fst w1) ++ snd (fst w1)))].
(* [5 sources ops force] : new(Directory); NewFile / AddFile ...; WriteDirectory twice *)
Definition run_layout (v : val) : val :=
  let srcs := lay_sources (vnth 0 v) in
  let res := lay_ops srcs (vl (vnth 1 v)) in
  match res with
  | Ok ops =>
      let st := wrun ops in
      VL (VL (res_hdr res) :: lay_write (fst st) (snd st) (vbool (vnth 2 v)) ++ [VL (map v_se (fst (intended ops)))])
  | _ => VL [VL (res_hdr res)]
  end.
(* [6 source deleteflags news force] : Read; Mangle (callback deletes per flag); Mangler.NewFile ...; MakePatch; second WriteDirectory *)
Fixpoint lay_msrc (r : reader) (fs : list cdent) (del : list val) : result (list msrc) :=
  match fs with
  | [] => Ok []
  | f :: rest =>
      x <- total_size Random r 0 f ;;
      t <- lay_msrc r rest (tl del) ;;
      Ok (mkMs (with_crc f (s_crc (fst x))) (s_total (fst x)) (vbool (hd (VZ 0) del)) :: t)
  end.
Definition run_mangle_layout (v : val) : val :=
  let '(r, size) := vreader (vnth 0 v) in
  let res :=
    d <- read_zip r size ;;
    src <- lay_msrc r (d_files d) (vl (vnth 1 v)) ;;
    m <- mangle_l src (d_dirloc d) ;;
    Ok (m, src, d_dirloc d) in
  match res with
  | Ok (files, dl, cuts, src, srcdl) =>
      let news := map (fun o => WNew (vnfl o)) (vl (vnth 2 v)) in
      let st := wrun_from (files, dl) news in
      VL (VL (res_hdr res) :: lay_write (fst st) (snd st) (vbool (vnth 3 v))
          ++ [VL (map v_se (fst (intended (kept_ops src ++ news)))); VL (map (fun c => VL [VZ (fst c); VZ (snd c)]) cuts); VZ srcdl])
  | _ => VL [VL (res_hdr res)]
  end.

Definition run (v : val) : val :=
  let k := vz (vnth 0 v) in
  if k =? 0 then run_read (vnth 1 v)
  else if k =? 2 then run_build (VL (tl (vl v)))
  else if k =? 3 then run_fresh (VL (tl (vl v)))
  else if k =? 4 then run_mangle (VL (tl (vl v)))
  else if k =? 5 then run_layout (VL (tl (vl v)))
  else if k =? 6 then run_mangle_layout (VL (tl (vl v)))
  else VL [].
