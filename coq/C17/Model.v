(* C17/Model.v — executable byte-level model of lib/zipslicer (FindDirectory, ReadWithDirectory, readLocalHeader,
   readDataDesc, GetTotalSize, GetDirectoryHeader, WriteDirectory, GetOriginalDirectory, NewFile, AddFile) over an
   abstract ReaderAt, in random-access and in streaming (forward-only) mode, AND an independent ZIP builder written
   from PKWARE APPNOTE 6.3 (section numbers in comments).  Definitions only.  Every constant, struct layout,
   branch condition and serialised struct literal of the Go code comes from Generated/C17_gen.v (srcgen). *)
From Relic Require Import Base.Prelude Base.Enc Generated.C17_gen.

(* ------------------------------------------------------------------ wire structs *)
(* field of a struct decoded by encoding/binary (little endian) at byte offset off, width w *)
Definition fld (off w : Z) (l : bytes) : Z := le_dec (zslice off (off + w) l).
(* binary.Write of a struct: every field little endian, truncated to its width *)
Definition enc_struct (ws vs : list Z) : bytes :=
  concat (map (fun p => le_enc (Z.to_nat (fst p)) (snd p)) (combine ws vs)).
Definition zeros (n : Z) : bytes := repeat 0 (Z.to_nat n).
(* signed reinterpretation done by int64(x) on a uint64 *)
Definition to_i64 (n : Z) : Z := if n >=? 2 ^ 63 then n - 2 ^ 64 else n.

(* errors (ordinary) and panics *)
Definition E_READ := 1.    (* ReadAt / ReadFull error: EOF, negative offset *)
Definition E_NOCD := 2.    (* "zip central directory not found" *)
Definition E_NOLOC := 3.   (* "expected ZIP64 locator" *)
Definition E_Z64 := 4.     (* "missing ZIP64 header" *)
Definition E_NOEND := 5.   (* "expected end record" *)
Definition E_LFH := 6.     (* "local file header not found" *)
Definition E_DDSIG := 7.   (* "data descriptor signature is missing" *)
Definition E_DDINV := 8.   (* "data descriptor is invalid" *)
Definition E_SEEK := 9.    (* "attempted to seek backwards" *)
Definition E_NEW := 10.    (* "new zipfile, can't produce original directory" *)
Definition E_TRUNC := 11.  (* "zip central directory is truncated" *)
Definition E_OOB := 12.    (* "zip central directory is out of bounds" *)
Definition E_FUEL := 99.
Definition P_INDEX := 1.   (* slice bounds / index out of range *)
Definition P_MAKE := 2.    (* makeslice: len out of range *)
Definition P_NIL := 3.     (* nil pointer dereference (Write on a nil io.Writer) *)

(* ------------------------------------------------------------------ io.ReaderAt *)
(* read exactly n bytes at offset p, or fail (every caller treats a short read as an error) *)
Definition reader := Z -> Z -> result bytes.
Definition rd_bytes (z : bytes) : reader := fun p n =>
  if (p <? 0) || (n <? 0) || (zlen z <? p + n) then Err E_READ else Ok (zslice p (p + n) z).

(* sparse archives (>= 4 GiB): sorted non-overlapping segments, zero elsewhere *)
Fixpoint sparse_read (segs : list (Z * bytes)) (p n : Z) : bytes :=
  if n <=? 0 then [] else
  match segs with
  | [] => zeros n
  | (o, b) :: r =>
      if o + zlen b <=? p then sparse_read r p n else
      let zb := Z.max 0 (Z.min n (o - p)) in
      let p1 := p + zb in
      let n1 := n - zb in
      let part := if n1 <=? 0 then [] else zslice (p1 - o) (Z.min (p1 + n1) (o + zlen b) - o) b in
      zeros zb ++ part ++ sparse_read r (p1 + zlen part) (n1 - zlen part)
  end.
Definition rd_sparse (size : Z) (segs : list (Z * bytes)) : reader := fun p n =>
  if (p <? 0) || (n <? 0) || (size <? p + n) then Err E_READ else Ok (sparse_read segs p n).

(* random access, or the forward-only streamReaderAt (cursor = position after the last read) *)
Inductive mode := Random | Stream.
Definition rd_at (m : mode) (r : reader) (pos p n : Z) : result (bytes * Z) :=
  match m with
  | Random => b <- r p n ;; Ok (b, pos)
  | Stream => if sr_seek_back p pos then Err E_SEEK else b <- r p n ;; Ok (b, p + n)
  end.
(* io.ReadFull into an empty buffer performs no read at all *)
Definition rd_full (m : mode) (r : reader) (pos p n : Z) : result (bytes * Z) :=
  if n =? 0 then Ok ([], pos) else rd_at m r pos p n.

(* sequential binary.Read calls over one bytes.Reader: the slice seen by the struct of class cls
   (1 = zip64Loc, 2 = zipEndRecord, 3 = zip64End); a short buffer is consumed and leaves the struct zero *)
Definition struct_size (cls : Z) : Z :=
  if cls =? 1 then l64_size else if cls =? 2 then eocd_size else if cls =? 3 then e64_size else 0.
Fixpoint seq_take (order : list Z) (cls : Z) (l : bytes) : bytes :=
  match order with
  | [] => zeros (struct_size cls)
  | c :: r =>
      let n := struct_size c in
      if c =? cls then (if zlen l <? n then zeros n else ztake n l)
      else seq_take r cls (if zlen l <? n then [] else zdrop n l)
  end.

(* ------------------------------------------------------------------ FindDirectory *)
Definition find_directory (r : reader) (size : Z) : result Z :=
  let pos := fd_pos size in
  (* an archive shorter than end record + locator is read whole into the END of the 42-byte buffer *)
  endb <- (if fd_short pos size then b <- r 0 (directoryEndLen + directory64LocLen + pos) ;; Ok (zeros (- pos) ++ b)
           else r pos (directoryEndLen + directory64LocLen)) ;;
  let ord := firstn 2 fd_read_order in           (* the third Read of the function uses its own buffer *)
  let loc := seq_take ord 1 endb in
  let endr := seq_take ord 2 endb in
  if fd_end_sig_bad (fld eocd_off_Signature eocd_w_Signature endr) then Err E_NOCD else
  if fd_is_zip64 (fld eocd_off_TotalCDCount eocd_w_TotalCDCount endr) (fld eocd_off_CDSize eocd_w_CDSize endr)
                 (fld eocd_off_CDOffset eocd_w_CDOffset endr) then
    if fd_loc_sig_bad (fld l64_off_Signature l64_w_Signature loc) then Err E_NOLOC else
    e64b <- r (to_i64 (fld l64_off_Offset l64_w_Offset loc)) directory64EndLen ;;
    if fd_end64_sig_bad (fld e64_off_Signature e64_w_Signature e64b) then Err E_NOCD else
    Ok (to_i64 (fld e64_off_CDOffset e64_w_CDOffset e64b))
  else Ok (fld eocd_off_CDOffset eocd_w_CDOffset endr).

(* ------------------------------------------------------------------ ReadWithDirectory *)
Record cdent := mkEnt {
  e_creator : Z; e_reader : Z; e_flags : Z; e_method : Z; e_mtime : Z; e_mdate : Z; e_crc : Z;
  e_csize : Z; e_usize : Z; e_name : bytes; e_extra : bytes; e_comment : bytes;
  e_iattrs : Z; e_eattrs : Z; e_offset : Z; e_raw : bytes }.

Record z64st := mkZ { z_usize : Z; z_csize : Z; z_offset : Z; z_need_c : bool; z_need_o : bool }.
(* the loop over extra-field records and the two ways the ZIP64 record is decoded *)
Fixpoint z64_scan (fuel : nat) (extra : bytes) (need_u : bool) (st : z64st) : z64st :=
  match fuel with
  | O => st
  | S k =>
      if negb (rwd_extra_loop (zlen extra)) then st else
      let tag := le_dec (zslice 0 2 extra) in
      let size := le_dec (zslice 2 4 extra) in
      if rwd_rec_overrun size (zlen extra) then st else
      if rwd_is_zip64_tag tag then
        let e := zslice 4 (4 + size) extra in
        let needed := (if need_u then 1 else 0) + (if z_need_c st then 1 else 0) + (if z_need_o st then 1 else 0) in
        if rwd_exact_rec size needed then
          (* exactly the saturated fields, in order (optionally followed by the disk number) *)
          let u := if rwd_seq_u need_u then le_dec (zslice 0 8 e) else z_usize st in
          let e1 := if rwd_seq_u need_u then zdrop 8 e else e in
          let c := if rwd_seq_c (z_need_c st) then le_dec (zslice 0 8 e1) else z_csize st in
          let nc := if rwd_seq_c (z_need_c st) then rwd_need_c_after else z_need_c st in
          let e2 := if rwd_seq_c (z_need_c st) then zdrop 8 e1 else e1 in
          let o := if rwd_seq_o (z_need_o st) then le_dec (zslice 0 8 e2) else z_offset st in
          let no := if rwd_seq_o (z_need_o st) then rwd_need_o_after else z_need_o st in
          mkZ u c o nc no
        else
        (* otherwise FIXED positions (usize 0, csize 8, offset 16) *)
        let u := if rwd_take_u need_u size then le_dec (zslice 0 8 e) else z_usize st in
        let c := if rwd_take_c (z_need_c st) size then le_dec (zslice 8 16 e) else z_csize st in
        let nc := if rwd_take_c (z_need_c st) size then rwd_need_c_after else z_need_c st in
        let o := if rwd_take_o (z_need_o st) size then le_dec (zslice 16 24 e) else z_offset st in
        let no := if rwd_take_o (z_need_o st) size then rwd_need_o_after else z_need_o st in
        mkZ u c o nc no
      else z64_scan k (zdrop (4 + size) extra) need_u st
  end.

Definition cdf (off w : Z) (cd : bytes) : Z := fld off w cd.
Fixpoint read_entries (fuel : nat) (cd : bytes) : result (list cdent * bytes) :=
  match fuel with
  | O => Err E_FUEL
  | S k =>
      if rwd_cd_short (zlen cd) then Err E_NOEND else
      if rwd_not_cd_sig (le_dec (ztake 4 cd)) then Ok ([], cd) else
      if rwd_hdr_short (zlen cd) then Err E_TRUNC else
      let nlen := cdf cdh_off_FilenameLen cdh_w_FilenameLen cd in
      let elen := cdf cdh_off_ExtraLen cdh_w_ExtraLen cd in
      let clen := cdf cdh_off_CommentLen cdh_w_CommentLen cd in
      if rwd_ent_short (zlen cd) nlen elen clen then Err E_TRUNC else
      let r1 := zdrop directoryHeaderLen cd in
      let r2 := zdrop nlen r1 in
      let extra := ztake elen r2 in
      let r3 := zdrop elen r2 in
      let r4 := zdrop clen r3 in
      let u0 := cdf cdh_off_UncompressedSize cdh_w_UncompressedSize cd in
      let c0 := cdf cdh_off_CompressedSize cdh_w_CompressedSize cd in
      let o0 := cdf cdh_off_Offset cdh_w_Offset cd in
      let st := z64_scan (length extra) extra (rwd_need_u u0) (mkZ u0 c0 o0 (rwd_need_c c0) (rwd_need_o o0)) in
      if rwd_missing_z64 (z_need_c st) (z_need_o st) then Err E_Z64 else
      let ent := mkEnt (cdf cdh_off_CreatorVersion cdh_w_CreatorVersion cd) (cdf cdh_off_ReaderVersion cdh_w_ReaderVersion cd)
                       (cdf cdh_off_Flags cdh_w_Flags cd) (cdf cdh_off_Method cdh_w_Method cd)
                       (cdf cdh_off_ModifiedTime cdh_w_ModifiedTime cd) (cdf cdh_off_ModifiedDate cdh_w_ModifiedDate cd)
                       (cdf cdh_off_CRC32 cdh_w_CRC32 cd) (z_csize st) (z_usize st)
                       (ztake nlen r1) extra (ztake clen r3)
                       (cdf cdh_off_InternalAttrs cdh_w_InternalAttrs cd) (cdf cdh_off_ExternalAttrs cdh_w_ExternalAttrs cd)
                       (z_offset st) (ztake (directoryHeaderLen + nlen + elen + clen) cd) in
      rest <- read_entries k r4 ;;
      Ok (ent :: fst rest, snd rest)
  end.

Record directory := mkDir { d_files : list cdent; d_size : Z; d_dirloc : Z; d_end64 : bytes; d_loc64 : bytes; d_end : bytes }.
Definition read_with_directory (size : Z) (cd : bytes) : result directory :=
  r <- read_entries (S (length cd)) cd ;;
  let files := fst r in
  let rest := snd r in
  let dirloc := rwd_dirloc size (zlen cd) in
  let sig := le_dec (ztake 4 rest) in
  let ord := skipn 1 rwd_read_order in            (* the first Read of the function is the per-entry header *)
  if sig =? directory64EndSignature then
    Ok (mkDir files size dirloc (seq_take ord 3 rest) (seq_take ord 1 rest) (seq_take ord 2 rest))
  else if sig =? directoryEndSignature then
    Ok (mkDir files size dirloc (zeros e64_size) (zeros l64_size) (seq_take [2] 2 rest))
  else Err E_NOEND.

(* Read(r, size) over a bytes.Reader (an empty tail read reports EOF there) *)
Definition read_zip (r : reader) (size : Z) : result directory :=
  loc <- find_directory r size ;;
  if rz_oob loc size then Err E_OOB else
  if size - loc =? 0 then Err E_READ else
  cd <- r loc (size - loc) ;;
  read_with_directory size cd.

(* ------------------------------------------------------------------ readLocalHeader / readDataDesc / GetTotalSize *)
Record lfhinfo := mkLfh { l_hdr : bytes; l_name : bytes; l_extra : bytes }.
Definition l_flags (l : lfhinfo) : Z := fld lfh_off_Flags lfh_w_Flags (l_hdr l).

Definition read_lfh (m : mode) (r : reader) (pos : Z) (f : cdent) : result (lfhinfo * Z) :=
  let off := to_i64 (e_offset f) in
  x <- rd_at m r pos off fileHeaderLen ;;
  let hb := fst x in
  if lfh_sig_bad (fld lfh_off_Signature lfh_w_Signature hb) then Err E_LFH else
  let nlen := fld lfh_off_FilenameLen lfh_w_FilenameLen hb in
  let elen := fld lfh_off_ExtraLen lfh_w_ExtraLen hb in
  y <- rd_full m r (snd x) (off + fileHeaderLen) nlen ;;
  z <- rd_full m r (snd y) (off + fileHeaderLen + nlen) elen ;;
  Ok (mkLfh hb (fst y) (fst z), snd z).

Definition adv_fail (m : mode) (pos q : Z) : Z := match m with Random => pos | Stream => q end.
(* result: descriptor bytes, the CRC relic keeps afterwards, new cursor *)
Definition read_dd (m : mode) (r : reader) (pos : Z) (f : cdent) (l : lfhinfo) : result (bytes * Z * Z) :=
  if dd_absent (Z.land (l_flags l) dd_flag_mask) then Ok ([], e_crc f, pos) else
  let lsz := dd_lfh_size (zlen (l_name l)) (zlen (l_extra l)) in
  let p := dd_pos (to_i64 (e_offset f)) lsz (to_i64 (e_csize f)) in
  x <- rd_at m r pos p dataDescriptorLen ;;
  let b16 := fst x in
  if dd_sig_bad (fld dd_off_Signature dd_w_Signature b16) then Err E_DDSIG else
  let is64 := dd_is_64 (e_usize f) (e_csize f) (fld dd_off_UncompressedSize dd_w_UncompressedSize b16)
                       (fld dd_off_CompressedSize dd_w_CompressedSize b16) in
  (* usize = 0: the first 16 bytes of a 64-bit descriptor read like a 32-bit one; decided by version-needed, with fallback *)
  let amb := dd_ambiguous is64 (e_usize f) (fld lfh_off_ReaderVersion lfh_w_ReaderVersion (l_hdr l)) in
  if dd_try_64 is64 amb then
    let y := rd_at m r (snd x) (p + dataDescriptorLen) (dataDescriptor64Len - dataDescriptorLen) in
    let read_ok := is_ok y in
    let b8 := match y with Ok v => fst v | _ => zeros (dataDescriptor64Len - dataDescriptorLen) end in
    let pos2 := match y with Ok v => snd v | _ => adv_fail m (snd x) (p + dataDescriptor64Len) end in
    let b24 := b16 ++ b8 in
    if dd_64_valid read_ok (e_usize f) (e_csize f) (fld dd64_off_UncompressedSize dd64_w_UncompressedSize b24)
                   (fld dd64_off_CompressedSize dd64_w_CompressedSize b24) then
      Ok (b24, fld dd64_off_CRC32 dd64_w_CRC32 b24, pos2)
    else if dd_64_read_error amb (negb read_ok) then (match y with Err e => Err e | Panic e => Panic e | Ok _ => Err E_READ end)
    else if dd_64_invalid amb then Err E_DDINV
    else Ok (b16, fld dd_off_CRC32 dd_w_CRC32 b16, pos2)          (* fall back to 32-bit; a stream has moved on *)
  else Ok (b16, fld dd_off_CRC32 dd_w_CRC32 b16, snd x).

Record sized := mkSized { s_total : Z; s_ddlen : Z; s_crc : Z; s_lfhlen : Z }.
Definition total_size (m : mode) (r : reader) (pos : Z) (f : cdent) : result (sized * Z) :=
  x <- read_lfh m r pos f ;;
  let l := fst x in
  y <- read_dd m r (snd x) f l ;;
  let ddb := fst (fst y) in
  Ok (mkSized (total_size_expr (zlen (l_name l)) (zlen (l_extra l)) (zlen ddb) (to_i64 (e_csize f)))
              (zlen ddb) (snd (fst y)) (fileHeaderLen + zlen (l_name l) + zlen (l_extra l)), snd y).

(* GetTotalSize of every file in directory order (how the signers walk an archive) *)
Fixpoint total_sizes (m : mode) (r : reader) (pos : Z) (fs : list cdent) : result (list sized) :=
  match fs with
  | [] => Ok []
  | f :: rest =>
      x <- total_size m r pos f ;;
      t <- total_sizes m r (snd x) rest ;;
      Ok (fst x :: t)
  end.

(* NextFileOffset *)
Definition next_file_offset (r : reader) (fs : list cdent) : result Z :=
  match rev fs with
  | [] => Ok 0
  | last :: _ => x <- total_size Random r 0 last ;; Ok (to_i64 (e_offset last) + s_total (fst x))
  end.

(* ------------------------------------------------------------------ GetDirectoryHeader *)
(* replace the value of the field that starts at byte offset off *)
Fixpoint set_field (ws vs : list Z) (cur off v : Z) : list Z :=
  match ws, vs with
  | w :: ws', x :: vs' => (if cur =? off then v else x) :: set_field ws' vs' (cur + w) off v
  | _, _ => vs
  end.

(* withoutZip64Extra: copy of an extra block without its records of header id 1; a malformed remainder is kept as is *)
Fixpoint without_z64 (fuel : nat) (extra out : bytes) : bytes :=
  match fuel with
  | O => out ++ extra
  | S k =>
      if negb (wz_loop (zlen extra)) then (if wz_keeps_remainder then out ++ extra else out) else
      let id := le_dec (zslice 0 2 extra) in
      let size := wz_size (le_dec (zslice 2 4 extra)) in
      if wz_overrun size (zlen extra) then (if wz_keeps_remainder then out ++ extra else out) else
      without_z64 k (if wz_advances then zdrop size extra else extra)
                  (if wz_keep id && wz_copies_record then out ++ ztake size extra else out)
  end.
Definition without_zip64_extra (extra : bytes) : bytes := without_z64 (S (length extra)) extra [].

Definition regen_header (f : cdent) : bytes :=
  let base := gdh_hdr (e_creator f) (e_reader f) (e_flags f) (e_method f) (e_mtime f) (e_mdate f) (e_crc f)
                      (e_csize f) (e_usize f) (e_iattrs f) (e_eattrs f) (e_offset f)
                      (zlen (e_name f)) (zlen (e_extra f)) (zlen (e_comment f)) in
  if gdh_promote (e_csize f) (e_usize f) (e_offset f) then
    let extra := enc_struct z64x_widths (gdh_z64extra (e_csize f) (e_usize f) (e_offset f)) ++ without_zip64_extra (e_extra f) in
    let h1 := set_field cdh_widths base 0 cdh_off_CompressedSize gdh_p_csize in
    let h2 := set_field cdh_widths h1 0 cdh_off_UncompressedSize gdh_p_usize in
    let h3 := set_field cdh_widths h2 0 cdh_off_Offset gdh_p_offset in
    let h4 := set_field cdh_widths h3 0 cdh_off_ExtraLen (gdh_p_extralen (zlen extra)) in
    let h5 := set_field cdh_widths h4 0 cdh_off_ReaderVersion gdh_p_reader in
    enc_struct cdh_widths h5 ++ e_name f ++ extra ++ e_comment f
  else enc_struct cdh_widths base ++ e_name f ++ e_extra f ++ e_comment f.
Definition dir_header (f : cdent) : bytes :=
  if gdh_use_raw (zlen (e_raw f)) then e_raw f else regen_header f.

(* ------------------------------------------------------------------ WriteDirectory *)
Definition wd_min_version (files : list cdent) : Z :=
  fold_left (fun mv f => if wd_version_raise (e_reader f) mv then e_reader f else mv) files wd_min_version0.
Definition cd_bytes (files : list cdent) : bytes := concat (map dir_header files).
Definition pick (parts : list (Z * bytes)) (c : Z) : bytes :=
  match find (fun p => fst p =? c) parts with Some p => snd p | None => [] end.
Definition wd_tail (files : list cdent) (dirloc : Z) (force : bool) : bytes :=
  let cdoff := wd_cdoff dirloc in
  let count := zlen files in
  let size := zlen (cd_bytes files) in
  let mv := if wd_need_zip64 count size cdoff force then wd_forced_version else wd_min_version files in
  if wd_emit_zip64 mv then
    let parts := [(3, enc_struct e64_widths (wd_end64 mv count size cdoff));
                  (1, enc_struct l64_widths (wd_loc64 (wd_end64off cdoff size)));
                  (2, enc_struct eocd_widths wd_end_sat)] in
    concat (map (pick parts) wd_write_order)
  else enc_struct eocd_widths (wd_end_plain count size cdoff).
(* (entries written to wcd, records written to weod); separate = (wcd != weod), weod_nil = (weod == nil) *)
Definition write_directory (files : list cdent) (dirloc : Z) (force separate weod_nil : bool) : result (bytes * bytes) :=
  if wd_separate separate then
    (if weod_nil then Panic P_NIL           (* buf.Reset(nil); the end record is never empty; Flush -> nil.Write *)
     else Ok (cd_bytes files, wd_tail files dirloc force))
  else if wd_weod_nil weod_nil then Ok ([], [])
  else Ok (cd_bytes files, wd_tail files dirloc force).

(* the end-of-directory records GetOriginalDirectory serialises: ZIP64 record and locator only when they were present *)
Definition god_records (end64 loc64 endr : bytes) : bytes :=
  concat (map (pick [(3, if god_emit_end64 (fld e64_off_Signature e64_w_Signature end64) then end64 else []);
                     (1, if god_emit_loc64 (fld l64_off_Signature l64_w_Signature loc64) then loc64 else []);
                     (2, endr)]) god_write_order).
(* GetOriginalDirectory *)
Definition get_original (r : reader) (d : directory) (trim : bool) : result (bytes * bytes) :=
  if god_is_new (fld eocd_off_Signature eocd_w_Signature (d_end d)) then Err E_NEW else
  w <- write_directory (d_files d) (d_dirloc d) false true (list_eqb Z.eqb god_wd_weod_arg [0]) ;;
  if trim then
    ce <- next_file_offset r (d_files d) ;;
    let delta := d_dirloc d - ce in
    if (delta <? 0) || (delta >? uint32Max) then Err E_NOEND else
    let e64sig := fld e64_off_Signature e64_w_Signature (d_end64 d) in
    let l64sig := fld l64_off_Signature l64_w_Signature (d_loc64 d) in
    let end64 := if god_emit_end64 e64sig
                 then ztake e64_off_CDOffset (d_end64 d) ++ le_enc 8 (fld e64_off_CDOffset e64_w_CDOffset (d_end64 d) - delta)
                 else d_end64 d in
    let loc64 := if god_emit_loc64 l64sig
                 then ztake l64_off_Offset (d_loc64 d) ++ le_enc 8 (fld l64_off_Offset l64_w_Offset (d_loc64 d) - delta)
                      ++ zdrop (l64_off_Offset + l64_w_Offset) (d_loc64 d)
                 else d_loc64 d in
    let eoff := fld eocd_off_CDOffset eocd_w_CDOffset (d_end d) in
    let endr := if god_trim_end eoff l64sig
                then ztake eocd_off_CDOffset (d_end d) ++ le_enc 4 (eoff - delta) ++ zdrop (eocd_off_CDOffset + eocd_w_CDOffset) (d_end d)
                else d_end d in
    Ok (fst w, god_records end64 loc64 endr)
  else Ok (fst w, god_records (d_end64 d) (d_loc64 d) (d_end d)).

(* ------------------------------------------------------------------ NewFile / AddFile *)
(* contents are given already compressed (deflate and CRC-32 are library functions) *)
Definition new_file_lfh (reader flags method mtime mdate crc csize usize : Z) (name extra : bytes) (use_desc : bool) : list Z :=
  let l0 := nf_lfh reader flags method mtime mdate (zlen name) (zlen extra) in
  if nf_fill_lfh use_desc then
    set_field lfh_widths (set_field lfh_widths (set_field lfh_widths l0 0 lfh_off_CRC32 (nf_lfh_crc crc))
                                    0 lfh_off_CompressedSize (nf_lfh_csize csize)) 0 lfh_off_UncompressedSize (nf_lfh_usize usize)
  else l0.
Definition new_file (name extra cdata : bytes) (usize crc method mtime mdate : Z) (use_desc : bool) : bytes * cdent :=
  let reader := if nf_desc_branch use_desc then nf_desc_reader else nf_reader0 in
  let flags := if nf_desc_branch use_desc then nf_desc_flags else 0 in
  let csize := zlen cdata in
  let ddb := if nf_write_desc use_desc then enc_struct dd64_widths (nf_desc64 crc csize usize) else [] in
  (enc_struct lfh_widths (new_file_lfh reader flags method mtime mdate crc csize usize name extra use_desc)
     ++ name ++ extra ++ cdata ++ ddb,
   mkEnt nf_creator reader flags method mtime mdate crc csize usize name extra [] 0 0 0 []).
(* AddFile(f) where GetTotalSize(f) = size *)
Definition add_file (files : list cdent) (dirloc : Z) (f : cdent) (size : Z) : list cdent * Z :=
  let offset := af_offset dirloc in
  let f' := mkEnt (e_creator f) (e_reader f) (e_flags f) (e_method f) (e_mtime f) (e_mdate f) (e_crc f) (e_csize f) (e_usize f)
                  (e_name f) (e_extra f) (e_comment f) (e_iattrs f) (e_eattrs f) offset
                  (if af_drop_raw (e_offset f) offset then [] else e_raw f) in
  (files ++ [f'], if af_advances_dirloc then dirloc + size else dirloc).

(* ================================================================== SPECIFICATION (APPNOTE 6.3) ====== *)
(* Written from the format specification; shares only the little-endian encoder with the model above. *)
Definition A_LFH_SIG := 67324752.     (* 4.3.7  0x04034b50 *)
Definition A_DD_SIG := 134695760.     (* 4.3.9.3 0x08074b50 *)
Definition A_CDH_SIG := 33639248.     (* 4.3.12 0x02014b50 *)
Definition A_E64_SIG := 101075792.    (* 4.3.14 0x06064b50 *)
Definition A_L64_SIG := 117853008.    (* 4.3.15 0x07064b50 *)
Definition A_EOCD_SIG := 101010256.   (* 4.3.16 0x06054b50 *)
Definition A_M32 := 4294967295.
Definition A_M16 := 65535.
Definition apn_lfh_widths : list Z := [4; 2; 2; 2; 2; 2; 4; 4; 4; 2; 2].                       (* 4.3.7 *)
Definition apn_cdh_widths : list Z := [4; 2; 2; 2; 2; 2; 2; 4; 4; 4; 2; 2; 2; 2; 2; 4; 4].     (* 4.3.12 *)
Definition apn_e64_widths : list Z := [4; 8; 2; 2; 4; 4; 8; 8; 8; 8].                          (* 4.3.14 *)
Definition apn_l64_widths : list Z := [4; 4; 8; 4].                                            (* 4.3.15 *)
Definition apn_eocd_widths : list Z := [4; 2; 2; 2; 2; 4; 4; 2].                               (* 4.3.16 *)

Inductive desc_kind := DNone | D16 | D12 | D24 | D20.   (* 4.3.9: with/without signature, 4- or 8-byte sizes *)
Record smember := mkMem {
  m_name : bytes; m_lextra : bytes; m_cextra : bytes; m_comment : bytes;
  m_creator : Z; m_reader : Z; m_flags : Z; m_method : Z; m_mtime : Z; m_mdate : Z; m_crc : Z;
  m_data : bytes;            (* bytes as stored (compressed form) *)
  m_usize : Z; m_iattrs : Z; m_eattrs : Z; m_disk : Z;
  m_desc : desc_kind; m_lz64 : bool; m_satu : bool; m_satc : bool; m_sato : bool; m_z64last : bool }.
Record sopts := mkOpts {
  o_prefix : bytes; o_comment : bytes; o_zip64end : Z; o_e64creator : Z; o_e64reader : Z;
  o_gaps : list bytes; o_gapcd : bytes; o_cdorder : list nat }.

Definition has_desc (m : smember) : bool := match m_desc m with DNone => false | _ => true end.
Definition sp_flags (m : smember) : Z := Z.lor (m_flags m) (if has_desc m then 8 else 0).      (* 4.4.4 bit 3 *)
Definition sp_csize (m : smember) : Z := zlen (m_data m).
(* 4.3.9: crc, compressed size, uncompressed size; optional signature; 8-byte sizes in ZIP64 format *)
Definition desc_enc (k : desc_kind) (crc csize usize : Z) : bytes :=
  match k with
  | DNone => []
  | D16 => enc_struct [4; 4; 4; 4] [A_DD_SIG; crc; csize; usize]
  | D12 => enc_struct [4; 4; 4] [crc; csize; usize]
  | D24 => enc_struct [4; 4; 8; 8] [A_DD_SIG; crc; csize; usize]
  | D20 => enc_struct [4; 8; 8] [crc; csize; usize]
  end.
Definition sp_desc (m : smember) : bytes := desc_enc (m_desc m) (m_crc m) (sp_csize m) (m_usize m).
(* 4.5.3: local ZIP64 record carries both sizes; zero when a descriptor follows (4.4.4) *)
Definition sp_lextra (m : smember) : bytes :=
  if m_lz64 m then
    le_enc 2 1 ++ le_enc 2 16 ++ le_enc 8 (if has_desc m then 0 else m_usize m) ++ le_enc 8 (if has_desc m then 0 else sp_csize m)
    ++ m_lextra m
  else m_lextra m.
Definition sp_lfh (m : smember) : bytes :=
  enc_struct apn_lfh_widths
    [A_LFH_SIG; m_reader m; sp_flags m; m_method m; m_mtime m; m_mdate m;
     (if has_desc m then 0 else m_crc m);
     (if m_lz64 m then A_M32 else if has_desc m then 0 else sp_csize m);
     (if m_lz64 m then A_M32 else if has_desc m then 0 else m_usize m);
     zlen (m_name m); zlen (sp_lextra m)].
Definition sp_local (m : smember) : bytes := sp_lfh m ++ m_name m ++ sp_lextra m ++ m_data m ++ sp_desc m.

(* a central field is 0xffffffff iff forced or too large (4.4.8, 4.4.9, 4.4.16) *)
Definition sat (forced : bool) (v : Z) : bool := forced || (v >=? A_M32).
Definition sp_z64rec (m : smember) (off : Z) : bytes :=                                         (* 4.5.3 *)
  let body := (if sat (m_satu m) (m_usize m) then le_enc 8 (m_usize m) else [])
           ++ (if sat (m_satc m) (sp_csize m) then le_enc 8 (sp_csize m) else [])
           ++ (if sat (m_sato m) off then le_enc 8 off else []) in
  if zlen body =? 0 then [] else le_enc 2 1 ++ le_enc 2 (zlen body) ++ body.
Definition sp_cextra (m : smember) (off : Z) : bytes :=
  if m_z64last m then m_cextra m ++ sp_z64rec m off else sp_z64rec m off ++ m_cextra m.
Definition sp_cdh (m : smember) (off : Z) : bytes :=
  enc_struct apn_cdh_widths
    [A_CDH_SIG; m_creator m; m_reader m; sp_flags m; m_method m; m_mtime m; m_mdate m; m_crc m;
     (if sat (m_satc m) (sp_csize m) then A_M32 else sp_csize m);
     (if sat (m_satu m) (m_usize m) then A_M32 else m_usize m);
     zlen (m_name m); zlen (sp_cextra m off); zlen (m_comment m); m_disk m; m_iattrs m; m_eattrs m;
     (if sat (m_sato m) off then A_M32 else off)].
Definition sp_central (m : smember) (off : Z) : bytes := sp_cdh m off ++ m_name m ++ sp_cextra m off ++ m_comment m.

(* offsets (relative to the end of the prefix) of the local headers, laid out in order with optional gaps *)
Fixpoint sp_offsets (start : Z) (gaps : list bytes) (ms : list smember) : list Z :=
  match ms with
  | [] => []
  | m :: r => let o := start + zlen (hd [] gaps) in o :: sp_offsets (o + zlen (sp_local m)) (tl gaps) r
  end.
Fixpoint sp_locals (gaps : list bytes) (ms : list smember) : bytes :=
  match ms with
  | [] => []
  | m :: r => hd [] gaps ++ sp_local m ++ sp_locals (tl gaps) r
  end.
Definition sp_centrals (ms : list smember) (offs : list Z) (order : list nat) : bytes :=
  let ents := map (fun p => sp_central (fst p) (snd p)) (combine ms offs) in
  match order with
  | [] => concat ents
  | _ => concat (map (fun i => nth i ents []) order)
  end.
Definition sp_end (o : sopts) (count cdsize cdoff : Z) : bytes :=                               (* 4.3.14-16, 4.4.1.4 *)
  let need := (count >=? A_M16) || (cdsize >=? A_M32) || (cdoff >=? A_M32) in
  let z64 := need || negb (o_zip64end o =? 0) in
  let all := o_zip64end o =? 1 in
  let f16 := fun v => if all || (v >=? A_M16) then A_M16 else v in
  let f32 := fun v => if all || (v >=? A_M32) then A_M32 else v in
  (if z64 then
     enc_struct apn_e64_widths [A_E64_SIG; 44; o_e64creator o; o_e64reader o; 0; 0; count; count; cdsize; cdoff]
     ++ enc_struct apn_l64_widths [A_L64_SIG; 0; cdoff + cdsize; 1]
   else [])
  ++ enc_struct apn_eocd_widths [A_EOCD_SIG; 0; 0; f16 count; f16 count; f32 cdsize; f32 cdoff; zlen (o_comment o)]
  ++ o_comment o.
Definition build (ms : list smember) (o : sopts) : bytes :=
  let offs := sp_offsets 0 (o_gaps o) ms in
  let locals := sp_locals (o_gaps o) ms ++ o_gapcd o in
  let cds := sp_centrals ms offs (o_cdorder o) in
  o_prefix o ++ locals ++ cds ++ sp_end o (zlen ms) (zlen cds) (zlen locals).

(* what a conforming reader reports for a built archive, in central-directory order:
   (name, absolute header offset, compressed size, uncompressed size, crc, whole local entry length, descriptor length) *)
Record sview := mkView { v_name : bytes; v_off : Z; v_csize : Z; v_usize : Z; v_crc : Z; v_total : Z; v_ddlen : Z }.
Definition sp_view1 (o : sopts) (m : smember) (off : Z) : sview :=
  mkView (m_name m) (zlen (o_prefix o) + off) (sp_csize m) (m_usize m) (m_crc m) (zlen (sp_local m)) (zlen (sp_desc m)).
Definition sp_view (ms : list smember) (o : sopts) : list sview :=
  let vs := map (fun p => sp_view1 o (fst p) (snd p)) (combine ms (sp_offsets 0 (o_gaps o) ms)) in
  match o_cdorder o with
  | [] => vs
  | ord => map (fun i => nth i vs (mkView [] 0 0 0 0 0 0)) ord
  end.
(* the model's view of a parsed directory plus GetTotalSize results *)
Definition ent_view (f : cdent) (s : sized) : sview :=
  mkView (e_name f) (e_offset f) (e_csize f) (e_usize f) (s_crc s) (s_total s) (s_ddlen s).

(* the plain options used by the class-K theorems *)
Definition plain_opts (zip64end : Z) : sopts := mkOpts [] [] zip64end 45 45 [] [] [].

(* ================================================================== domains used by the theorems ====== *)
(* cursor after a read ending at q *)
Definition adv (m : mode) (pos q : Z) : Z := match m with Random => pos | Stream => q end.

(* the 32-bit view of a 24-byte descriptor already shows that it is not a 16-byte one *)
Definition dd24_ok (csize usize : Z) : bool :=
  (usize >=? 4294967295) || negb ((csize / 4294967296) mod 4294967296 =? usize mod 4294967296).
Definition desc_ok (k : desc_kind) (reader csize usize : Z) : Prop :=
  match k with
  | DNone => True
  | D16 => 0 <= usize < 4294967295 /\ csize < 4294967296 /\ (usize = 0 -> reader < 45)
  | D24 => 0 <= usize < 2 ^ 64 /\ csize < 2 ^ 63 /\ (dd24_ok csize usize = true \/ (usize = 0 /\ 45 <= reader))
  | D12 | D20 => False
  end.

Definition sized_of (m : smember) : sized :=
  mkSized (zlen (sp_local m)) (zlen (sp_desc m)) (m_crc m) (30 + zlen (m_name m) + zlen (sp_lextra m)).

Definition local_ok (m : smember) : Prop :=
  zlen (m_name m) < 65536 /\ zlen (sp_lextra m) < 65536 /\ Z.land (m_flags m) 8 = 0 /\
  0 <= m_crc m < 4294967296 /\ 0 <= m_reader m < 65536 /\ desc_ok (m_desc m) (m_reader m) (sp_csize m) (m_usize m).

(* local entries laid out back to back from offset o, and directory entries that describe them *)
Definition ent_matches (m : smember) (off : Z) (f : cdent) : Prop :=
  e_offset f = off /\ e_csize f = sp_csize m /\ e_usize f = m_usize m /\ e_crc f = m_crc m.
Inductive placed : Z -> list smember -> list cdent -> Prop :=
| placed_nil o : placed o [] []
| placed_cons o m ms f fs : ent_matches m o f -> placed (o + zlen (sp_local m)) ms fs -> placed o (m :: ms) (f :: fs).
Definition locals (ms : list smember) : bytes := concat (map sp_local ms).

(* what ReadWithDirectory must produce for the central entry of m located at off *)
Definition parsed_ent (m : smember) (off : Z) : cdent :=
  mkEnt (m_creator m) (m_reader m) (sp_flags m) (m_method m) (m_mtime m) (m_mdate m) (m_crc m) (sp_csize m) (m_usize m)
        (m_name m) (sp_cextra m off) (m_comment m) (m_iattrs m) (m_eattrs m) off (sp_central m off).

(* well-formed extra-field data: header-id / size / body records (4.5.1), none of them the ZIP64 record *)
Inductive wf_extra : bytes -> Prop :=
| wf_extra_nil : wf_extra []
| wf_extra_rec tag body rest : 0 <= tag < 65536 -> tag <> 1 -> zlen body < 65536 -> wf_extra rest ->
    wf_extra (le_enc 2 tag ++ le_enc 2 (zlen body) ++ body ++ rest).
Definition sat_u (m : smember) : bool := sat (m_satu m) (m_usize m).
Definition sat_c (m : smember) : bool := sat (m_satc m) (sp_csize m).
Definition sat_o (m : smember) (off : Z) : bool := sat (m_sato m) off.
(* a central entry relic can read: field ranges; extra data in front of a trailing ZIP64 record must be well-formed records *)
Definition central_ok (m : smember) (off : Z) : Prop :=
  0 <= m_creator m < 65536 /\ 0 <= m_reader m < 65536 /\ 0 <= m_flags m < 65536 /\ 0 <= m_method m < 65536 /\
  0 <= m_mtime m < 65536 /\ 0 <= m_mdate m < 65536 /\ 0 <= m_crc m < 4294967296 /\ 0 <= m_iattrs m < 65536 /\
  0 <= m_eattrs m < 4294967296 /\ zlen (m_name m) < 65536 /\ zlen (sp_cextra m off) < 65536 /\ zlen (m_comment m) < 65536 /\
  0 <= m_usize m < 2 ^ 64 /\ sp_csize m < 2 ^ 64 /\ 0 <= off < 2 ^ 64 /\
  (sat_u m || sat_c m || sat_o m off = true -> m_z64last m = true -> wf_extra (m_cextra m)).

(* class K of the round-trip theorems: plain layout (no prefix, comment, gaps, reordering), every member readable *)
Definition pairs (ms : list smember) : list (smember * Z) := combine ms (sp_offsets 0 [] ms).
Definition classK (ms : list smember) (mode : Z) : Prop :=
  Forall local_ok ms /\ Forall (fun p => central_ok (fst p) (snd p)) (pairs ms) /\
  (mode = 0 \/ mode = 1 \/ mode = 2) /\ zlen (build ms (plain_opts mode)) < 2 ^ 63.
Definition views (fs : list cdent) (ss : list sized) : list sview := map (fun p => ent_view (fst p) (snd p)) (combine fs ss).

(* ------------------------------------------------------------------ an archive written by relic from scratch *)
Record nfcall := mkCall { c_name : bytes; c_extra : bytes; c_cdata : bytes; c_usize : Z; c_crc : Z; c_method : Z;
                          c_mtime : Z; c_mdate : Z; c_desc : bool }.
Definition fresh_step (st : list cdent * Z * bytes) (c : nfcall) : list cdent * Z * bytes :=
  let b := fst (new_file (c_name c) (c_extra c) (c_cdata c) (c_usize c) (c_crc c) (c_method c) (c_mtime c) (c_mdate c) (c_desc c)) in
  let e := snd (new_file (c_name c) (c_extra c) (c_cdata c) (c_usize c) (c_crc c) (c_method c) (c_mtime c) (c_mdate c) (c_desc c)) in
  let r := add_file (fst (fst st)) (snd (fst st)) e (zlen b) in
  (fst r, snd r, snd st ++ b).
(* new(Directory); NewFile(...) for every call; WriteDirectory(w, w, force) *)
Definition fresh_archive (cs : list nfcall) (force : bool) : bytes :=
  let st := fold_left fresh_step cs ([], 0, []) in
  snd st ++ match write_directory (fst (fst st)) (snd (fst st)) force false false with Ok (a, b) => a ++ b | _ => [] end.
(* the APPNOTE member NewFile is supposed to produce *)
Definition nf_member (c : nfcall) : smember :=
  mkMem (c_name c) (c_extra c) (c_extra c) [] 45 (if c_desc c then 45 else 20) 0 (c_method c) (c_mtime c) (c_mdate c) (c_crc c)
        (c_cdata c) (c_usize c) 0 0 0 (if c_desc c then D24 else DNone) false false false false false.
Definition call_ok (c : nfcall) : Prop :=
  zlen (c_name c) < 65536 /\ zlen (c_extra c) < 65536 /\ 0 <= c_crc c < 4294967296 /\ zlen (c_cdata c) < 4294967295 /\
  0 <= c_usize c < 4294967295 /\ 0 <= c_method c < 65536 /\ 0 <= c_mtime c < 65536 /\ 0 <= c_mdate c < 65536.
(* does WriteDirectory emit ZIP64 records for this archive (any descriptor member makes minVersion 45) *)
Definition fresh_mode (cs : list nfcall) (force : bool) : Z := if force || existsb c_desc cs then 1 else 0.
