(* C17/Bytes.v — generic lemmas about slices of concatenations, little-endian fields and encoded structs. *)
From Relic Require Import Base.Prelude Base.Enc Generated.C17_gen C17.Model.

Lemma ztake_app_exact {A} (a b : list A) : ztake (zlen a) (a ++ b) = a.
Proof. rewrite ztake_app_l by lia. apply ztake_all. lia. Qed.
Lemma zdrop_app_exact {A} (a b : list A) : zdrop (zlen a) (a ++ b) = b.
Proof. rewrite zdrop_app_r by lia. replace (zlen a - zlen a) with 0 by lia. apply zdrop_0. Qed.
Lemma ztake_exact_n {A} n (a b : list A) : n = zlen a -> ztake n (a ++ b) = a.
Proof. intros ->. apply ztake_app_exact. Qed.
Lemma zdrop_exact_n {A} n (a b : list A) : n = zlen a -> zdrop n (a ++ b) = b.
Proof. intros ->. apply zdrop_app_exact. Qed.
Lemma ztake_0 {A} (l : list A) : ztake 0 l = [].
Proof. reflexivity. Qed.

Lemma zslice_mid {A} (a b c : list A) p q :
  p = zlen a -> q = zlen a + zlen b -> zslice p q (a ++ b ++ c) = b.
Proof.
  intros -> ->. unfold zslice. rewrite zdrop_app_exact.
  replace (zlen a + zlen b - zlen a) with (zlen b) by lia. apply ztake_app_exact.
Qed.
Lemma zslice_0 {A} n (l : list A) : zslice 0 n l = ztake n l.
Proof. unfold zslice. rewrite zdrop_0. f_equal. lia. Qed.
Lemma zslice_app_l {A} p q (a b : list A) : 0 <= p -> q <= zlen a -> zslice p q (a ++ b) = zslice p q a.
Proof.
  intros Hp Hq. unfold zslice. destruct (Z_le_gt_dec p (zlen a)) as [H|H].
  - rewrite zdrop_app_l by lia. apply ztake_app_l. rewrite zlen_zdrop by lia. lia.
  - rewrite !ztake_neg by lia. reflexivity.
Qed.
Lemma zslice_app_r {A} p q (a b : list A) : zlen a <= p -> zslice p q (a ++ b) = zslice (p - zlen a) (q - zlen a) b.
Proof. intros H. unfold zslice. rewrite zdrop_app_r by lia. f_equal. lia. Qed.
Lemma zlen_zslice {A} p q (l : list A) : 0 <= p <= q -> q <= zlen l -> zlen (zslice p q l) = q - p.
Proof. intros H1 H2. unfold zslice. rewrite zlen_ztake; [lia|]. rewrite zlen_zdrop by lia. lia. Qed.
Lemma zlen_repeat {A} (x : A) n : zlen (repeat x n) = Z.of_nat n.
Proof. unfold zlen. now rewrite repeat_length. Qed.
Lemma zlen_zeros n : 0 <= n -> zlen (zeros n) = n.
Proof. intros H. unfold zeros. rewrite zlen_repeat. lia. Qed.
Lemma zlen_length {A} (l : list A) : Z.of_nat (length l) = zlen l.
Proof. reflexivity. Qed.
Lemma ztake_ztake_app {A} n (a b : list A) : 0 <= n <= zlen a -> ztake n (a ++ b) = ztake n a.
Proof. intros H. apply ztake_app_l. lia. Qed.

(* ------------------------------------------------------------------ little endian *)
Lemma le_dec_app a b : le_dec (a ++ b) = le_dec a + 256 ^ zlen a * le_dec b.
Proof.
  induction a as [|x a IH]; cbn [app le_dec].
  - change (zlen (@nil Z)) with 0. rewrite Z.pow_0_r. lia.
  - rewrite IH, zlen_cons. rewrite Z.pow_add_r by (pose proof (zlen_nonneg a); lia). lia.
Qed.
Lemma le_dec_enc_mod w n : le_dec (le_enc w n) = n mod 256 ^ Z.of_nat w.
Proof.
  revert n. induction w as [|w IH]; intros n.
  - cbn. now rewrite Z.mod_1_r.
  - cbn [le_enc le_dec]. rewrite IH. rewrite Nat2Z.inj_succ, Z.pow_succ_r by lia.
    pose proof (Z.pow_pos_nonneg 256 (Z.of_nat w) ltac:(lia) ltac:(lia)) as Hp.
    rewrite (Z.mul_comm 256), Z.rem_mul_r by lia. lia.
Qed.
Lemma le_dec_enc_small w n : 0 <= n < 256 ^ Z.of_nat w -> le_dec (le_enc w n) = n.
Proof. intros H. rewrite le_dec_enc_mod. now apply Z.mod_small. Qed.
Lemma le_enc_split a b n : le_enc (a + b) n = le_enc a n ++ le_enc b (n / 256 ^ Z.of_nat a).
Proof.
  revert n. induction a as [|a IH]; intros n.
  - cbn. now rewrite Z.div_1_r.
  - cbn [Nat.add le_enc app]. f_equal. rewrite IH. f_equal. f_equal.
    rewrite Nat2Z.inj_succ, Z.pow_succ_r by lia. rewrite Z.div_div by (try lia; apply Z.pow_pos_nonneg; lia). reflexivity.
Qed.

(* ------------------------------------------------------------------ encoded structs *)
Fixpoint off_of (i : nat) (ws : list Z) : Z :=
  match i, ws with
  | S k, w :: r => w + off_of k r
  | _, _ => 0
  end.
Fixpoint sumz (ws : list Z) : Z := match ws with [] => 0 | w :: r => w + sumz r end.

Lemma enc_struct_cons w v ws vs : enc_struct (w :: ws) (v :: vs) = le_enc (Z.to_nat w) v ++ enc_struct ws vs.
Proof. reflexivity. Qed.
Lemma enc_struct_nil_l vs : enc_struct [] vs = [].
Proof. reflexivity. Qed.
Lemma zlen_enc_struct ws vs : length ws = length vs -> Forall (fun w => 0 <= w) ws -> zlen (enc_struct ws vs) = sumz ws.
Proof.
  revert vs. induction ws as [|w ws IH]; intros [|v vs] Hl Hw; try discriminate; [reflexivity|].
  inversion Hw; subst. rewrite enc_struct_cons, zlen_app, le_enc_zlen, IH by (auto; cbn in Hl; lia). cbn [sumz]. lia.
Qed.

Lemma fld_enc_struct : forall ws vs rest i,
  length ws = length vs -> Forall (fun w => 0 <= w) ws -> (i < length ws)%nat ->
  fld (off_of i ws) (nth i ws 0) (enc_struct ws vs ++ rest) = nth i vs 0 mod 256 ^ nth i ws 0.
Proof.
  induction ws as [|w ws IH]; intros [|v vs] rest i Hl Hw Hi; try discriminate; [cbn in Hi; lia|].
  inversion Hw; subst. rewrite enc_struct_cons. destruct i as [|i]; cbn [off_of nth].
  - unfold fld. rewrite Z.add_0_l, zslice_0. rewrite <- app_assoc.
    rewrite ztake_exact_n by (rewrite le_enc_zlen; lia).
    rewrite le_dec_enc_mod. now rewrite Z2Nat.id by lia.
  - unfold fld. rewrite <- app_assoc. rewrite zslice_app_r by (rewrite le_enc_zlen; pose proof (off_nonneg_aux := 0); clear off_nonneg_aux;
      assert (0 <= off_of i ws) by (clear -H2; revert i; induction ws as [|x ws IHw]; intros [|i]; cbn; try lia;
        inversion H2; subst; specialize (IHw H3 i); lia); lia).
    rewrite le_enc_zlen, Z2Nat.id by lia.
    replace (w + off_of i ws - w) with (off_of i ws) by lia.
    replace (w + off_of i ws + nth i ws 0 - w) with (off_of i ws + nth i ws 0) by lia.
    apply (IH vs rest i); auto. cbn in Hi; lia.
Qed.

(* whole-struct slices *)
Lemma ztake_enc_struct ws vs rest n :
  length ws = length vs -> Forall (fun w => 0 <= w) ws -> n = sumz ws -> ztake n (enc_struct ws vs ++ rest) = enc_struct ws vs.
Proof. intros Hl Hw ->. apply ztake_exact_n. symmetry. now apply zlen_enc_struct. Qed.
Lemma zdrop_enc_struct ws vs rest n :
  length ws = length vs -> Forall (fun w => 0 <= w) ws -> n = sumz ws -> zdrop n (enc_struct ws vs ++ rest) = rest.
Proof. intros Hl Hw ->. apply zdrop_exact_n. symmetry. now apply zlen_enc_struct. Qed.

Ltac wsok := repeat constructor; lia.

(* mod facts used for truncating conversions *)
Lemma u32_small x : 0 <= x < 4294967296 -> u32 x = x.
Proof. intros H. unfold u32. now apply Z.mod_small. Qed.
Lemma u16_small x : 0 <= x < 65536 -> u16 x = x.
Proof. intros H. unfold u16. now apply Z.mod_small. Qed.

(* bit 3 of the flags survives the 16-bit truncation *)
Lemma land8_mod16 v : Z.land (v mod 256 ^ 2) 8 = Z.land v 8.
Proof.
  change (256 ^ 2) with (2 ^ 16). rewrite <- Z.land_ones by lia. rewrite <- Z.land_assoc.
  f_equal.
Qed.
Lemma land_lor_8 a : Z.land (Z.lor a 8) 8 = 8.
Proof.
  apply Z.bits_inj'. intros n Hn. rewrite Z.land_spec, Z.lor_spec.
  destruct (Z.testbit 8 n) eqn:E; [rewrite orb_true_r; reflexivity | now rewrite andb_false_r].
Qed.
Lemma lor_0_r a : Z.lor a 0 = a.
Proof. apply Z.lor_0_r. Qed.
