(* FmtCAB/ProofsXap.v — the XAP lemmas behind FmtCAB/Properties.v *)
From Relic Require Import Base.Prelude Base.Enc Generated.FmtCAB_gen FmtCAB.Model FmtCAB.Lib Laws.Pipeline.
From Relic Require C12.Model C12.Proofs.

(* ================================================================== the signature block *)
Definition xap_hdr (b : bytes) : bytes := enc_struct xaphd_widths (xap_hdr_vals (zlen b)).
Definition xap_trl (b : bytes) : bytes := enc_struct xaptr_widths (xap_tr_vals (zlen b)).
Lemma xap_sigblock_eq b : xap_sigblock b = xap_hdr b ++ b ++ xap_trl b.
Proof. unfold xap_sigblock, xap_write_order. cbn [assemble Z.eqb Pos.eqb]. now rewrite app_nil_r. Qed.

Lemma xap_hdr_vals_eq n : 0 <= n < 2 ^ 32 -> xap_hdr_vals n = [1; 1; n].
Proof. intros H. unfold xap_hdr_vals, xap_hdr_sigsize. rewrite wrap32_small by lia. reflexivity. Qed.
Lemma xap_tr_vals_eq n : 0 <= n -> n + 8 < 2 ^ 32 -> xap_tr_vals n = [xap_trailerMagic; 1; n + 8].
Proof. intros H H'. unfold xap_tr_vals, xap_tr_size. rewrite wrap32_small by lia. reflexivity. Qed.
Lemma xap_hdr_range n : 0 <= n < 2 ^ 32 -> in_range xaphd_widths [1; 1; n].
Proof. intros H. repeat constructor; cbn in *; lia. Qed.
Lemma xap_tr_range m u n : 0 <= m < 2 ^ 32 -> 0 <= u < 2 ^ 16 -> 0 <= n < 2 ^ 32 -> in_range xaptr_widths [m; u; n].
Proof. intros. repeat constructor; cbn in *; lia. Qed.
Lemma zlen_xap_hdr b : zlen b + 8 < 2 ^ 32 -> zlen (xap_hdr b) = 8.
Proof.
  intros H. pose proof (zlen_nonneg b). unfold xap_hdr. rewrite xap_hdr_vals_eq by lia.
  rewrite (enc_struct_zlen xaphd_widths [1; 1; zlen b]) by (apply xap_hdr_range; lia). reflexivity.
Qed.
Lemma zlen_xap_trl b : zlen b + 8 < 2 ^ 32 -> zlen (xap_trl b) = 10.
Proof.
  intros H. pose proof (zlen_nonneg b). unfold xap_trl. rewrite xap_tr_vals_eq by lia.
  rewrite (enc_struct_zlen xaptr_widths [xap_trailerMagic; 1; zlen b + 8]); [reflexivity|]. apply xap_tr_range; unfold xap_trailerMagic; lia.
Qed.
Lemma xap_sigblock_bytes b : all_bytes b = true -> all_bytes (xap_sigblock b) = true.
Proof. intros H. rewrite xap_sigblock_eq, !all_bytes_app, H. unfold xap_hdr, xap_trl. now rewrite !enc_struct_bytes. Qed.

(* the last n bytes of a list *)
Lemma zslice_last {A} (X Y : list A) n : zlen Y = n -> zslice (zlen (X ++ Y) - n) (zlen (X ++ Y)) (X ++ Y) = Y.
Proof.
  intros H. rewrite zlen_app. replace (zlen X + zlen Y - n) with (zlen X) by lia.
  replace (X ++ Y) with (X ++ Y ++ []) by now rewrite app_nil_r. apply C12.Proofs.zslice_mid; lia.
Qed.

(* a signed file as relic writes it *)
Definition xap_signed (z b : bytes) : bytes := z ++ xap_sigblock b.
Lemma zlen_xap_signed z b : zlen b + 8 < 2 ^ 32 -> zlen (xap_signed z b) = zlen z + zlen b + 18.
Proof.
  intros H. unfold xap_signed. rewrite xap_sigblock_eq, !zlen_app, zlen_xap_hdr, zlen_xap_trl by lia. lia.
Qed.
Lemma xap_signed_tail z b : zlen b + 8 < 2 ^ 32 ->
  zslice (zlen (xap_signed z b) - 10) (zlen (xap_signed z b)) (xap_signed z b) = xap_trl b.
Proof.
  intros H. unfold xap_signed. rewrite xap_sigblock_eq.
  replace (z ++ xap_hdr b ++ b ++ xap_trl b) with ((z ++ xap_hdr b ++ b) ++ xap_trl b) by now rewrite <- !app_assoc.
  apply zslice_last. now apply zlen_xap_trl.
Qed.
Lemma xap_signed_trailer z b : zlen b + 8 < 2 ^ 32 ->
  dec_struct xaptr_widths (zslice (zlen (xap_signed z b) - 10) (zlen (xap_signed z b)) (xap_signed z b)) = [xap_trailerMagic; 1; zlen b + 8].
Proof.
  intros H. pose proof (zlen_nonneg b). rewrite xap_signed_tail by lia. unfold xap_trl. rewrite xap_tr_vals_eq by lia.
  apply dec_enc_struct0. apply xap_tr_range; unfold xap_trailerMagic; lia.
Qed.

(* ================================================================== the verifier on a file relic wrote *)
Lemma xap_vparse_signed z b : zlen b + 8 < 2 ^ 32 -> xap_vparse (xap_signed z b) = Ok (Some (zlen z, b)).
Proof.
  intros H. pose proof (zlen_nonneg b) as Hb. pose proof (zlen_nonneg z) as Hz.
  pose proof (xap_signed_trailer z b H) as Et. pose proof (zlen_xap_signed z b H) as Lg.
  assert (Eh : zslice (zlen z) (zlen z + 8) (xap_signed z b) = xap_hdr b).
  { unfold xap_signed. rewrite xap_sigblock_eq. apply C12.Proofs.zslice_mid; [reflexivity|]. rewrite zlen_xap_hdr by lia. lia. }
  assert (Eb : zslice (zlen z + 8) (zlen z + 8 + zlen b) (xap_signed z b) = b).
  { unfold xap_signed. rewrite xap_sigblock_eq.
    replace (z ++ xap_hdr b ++ b ++ xap_trl b) with ((z ++ xap_hdr b) ++ b ++ xap_trl b) by now rewrite <- !app_assoc.
    apply C12.Proofs.zslice_mid; [|lia]. rewrite zlen_app, zlen_xap_hdr by lia. reflexivity. }
  remember (xap_signed z b) as g eqn:Eg. clear Eg.
  unfold xap_vparse, xap_v_trailer_off, xap_v_trailer_len.
  replace (zlen g - 10 + 10) with (zlen g) by lia. rewrite !Et.
  replace (zlen g - 10 <? 0) with false by lia.
  cbn [fld nth xaptr_ix_Magic xaptr_ix_TrailerSize]. unfold xap_v_no_trailer, xap_trailerMagic. cbn [Z.eqb Pos.eqb negb].
  unfold xap_v_body_size. replace (zlen g - (zlen b + 8 + 10)) with (zlen z) by lia. replace (zlen z <? 0) with false by lia.
  unfold xap_v_hdr_len. rewrite Eh. unfold xap_hdr. rewrite xap_hdr_vals_eq by lia. rewrite dec_enc_struct0 by (apply xap_hdr_range; lia).
  cbn [fld nth xaphd_ix_SignatureSize]. unfold xap_v_size_mismatch. replace (zlen b =? zlen b + 8 - 8) with true by lia. cbn [negb].
  unfold xap_v_blob_off. replace (zlen g - (zlen z + 8) <? zlen b) with false by lia. now rewrite Eb.
Qed.
Lemma xap_extract_signed z b : zlen b + 8 < 2 ^ 32 -> xap_extract (xap_signed z b) = Ok (Some b).
Proof. intros H. unfold xap_extract. now rewrite xap_vparse_signed. Qed.
Lemma xap_vhashin_signed z b : zlen b + 8 < 2 ^ 32 -> xap_vhashin (xap_signed z b) = Ok z.
Proof.
  intros H. unfold xap_vhashin. rewrite xap_vparse_signed by exact H. cbn [bind]. f_equal.
  unfold xap_v_digest_from, xap_v_digest_len, xap_signed. cbn [Z.add]. now apply C12.Proofs.zslice_head.
Qed.

(* ================================================================== slices of prefixes *)
Lemma zslice_ztake_inner {A} a b m (l : list A) : 0 <= a -> b <= m -> zslice a b (ztake m l) = zslice a b l.
Proof.
  intros Ha Hb. unfold zslice. rewrite C12.Proofs.zdrop_ztake by lia. apply C12.Proofs.ztake_ztake. lia.
Qed.
Lemma zslice_to_end {A} a (l : list A) : 0 <= a -> zslice a (zlen l) l = zdrop a l.
Proof.
  intros Ha. unfold zslice. destruct (Z_le_gt_dec a (zlen l)).
  - apply ztake_all. rewrite zlen_zdrop by lia. lia.
  - rewrite zdrop_all by lia. apply ztake_neg. lia.
Qed.
Lemma zslice_0 {A} b (l : list A) : zslice 0 b l = ztake b l.
Proof. unfold zslice. now rewrite zdrop_0, Z.sub_0_r. Qed.

(* ================================================================== zipslicer.FindDirectory reads only the first `size` bytes *)
Lemma zip_window_agree f g zs : 0 <= zs -> zs <= zlen f -> zs <= zlen g -> ztake zs f = ztake zs g ->
  zip_window f zs = zip_window g zs.
Proof.
  intros H0 Hf Hg E. unfold zip_window, zip_find_pos, zip_find_short, zip_find_short_skip, zip_find_short_pos,
    zip_directory64LocLen, zip_directoryEndLen.
  destruct ((zs - 22 - 20 <? 0) && (zs >=? 22)) eqn:Es.
  - replace (zlen f - 0 <? 20 + 22 - - (zs - 22 - 20)) with false by lia.
    replace (zlen g - 0 <? 20 + 22 - - (zs - 22 - 20)) with false by lia.
    replace (0 + (20 + 22 - - (zs - 22 - 20))) with zs by lia. now rewrite !zslice_0, E.
  - destruct (zs - 22 - 20 <? 0) eqn:Ep; [reflexivity|].
    replace (zlen f - (zs - 22 - 20) <? 20 + 22) with false by lia.
    replace (zlen g - (zs - 22 - 20) <? 20 + 22) with false by lia.
    rewrite <- (zslice_ztake_inner _ _ zs f), <- (zslice_ztake_inner _ _ zs g) by lia. now rewrite E.
Qed.

Lemma zip64_inside_agree f g zs : 0 <= zs -> zs <= zlen f -> zs <= zlen g -> ztake zs f = ztake zs g ->
  zip64_inside_at f zs = zip64_inside_at g zs.
Proof. intros. unfold zip64_inside_at. now rewrite (zip_window_agree f g zs). Qed.

Lemma zip_find_dir_agree f g zs : 0 <= zs -> zs <= zlen f -> zs <= zlen g -> ztake zs f = ztake zs g ->
  zip64_inside_at f zs = true -> zip_find_dir f zs = zip_find_dir g zs.
Proof.
  intros H0 Hf Hg E Hin. unfold zip_find_dir. unfold zip64_inside_at in Hin.
  rewrite <- (zip_window_agree f g zs) by assumption.
  destruct (zip_window f zs) as [w| |]; cbn [bind]; try reflexivity.
  destruct (zip_no_end_record _); [reflexivity|].
  destruct (zip_needs_zip64 _ _ _); [|reflexivity].
  destruct (zip_no_locator _); [reflexivity|].
  set (off := to_i64 (fld ziploc_ix_Offset (dec_struct ziploc_widths (ztake ziploc_size w)))) in *.
  unfold zip_directory64EndLen in *.
  destruct (off <? 0) eqn:Eo; cbn [orb]; [reflexivity|].
  replace (zlen f <? off + 56) with false by lia. replace (zlen g <? off + 56) with false by lia.
  rewrite <- (zslice_ztake_inner off (off + 56) zs f), <- (zslice_ztake_inner off (off + 56) zs g) by lia.
  now rewrite E.
Qed.

(* ================================================================== the signer's digest, step by step *)
Definition XM := 1399873880.     (* "XapS" *)
(* the last ten bytes of a file, read as a trailer *)
Definition f_trl (f : bytes) : list Z := dec_struct xaptr_widths (zslice (zlen f - 10) (zlen f) f).
Definition t_magic (f : bytes) : Z := fld xaptr_ix_Magic (f_trl f).
Definition t_size (f : bytes) : Z := fld xaptr_ix_TrailerSize (f_trl f).

Lemma trailer_size_eq f : xap_trailer_size f =
  if zlen f <? 10 then 0 else if negb (t_magic f =? XM) || (t_size f + 10 >? zlen f) then 0 else t_size f + 10.
Proof.
  unfold xap_trailer_size, xap_ts_too_short, xap_ts_trailer_off, xap_ts_trailer_len, xaptr_size, xap_ts_no_trailer, xap_ts_returns.
  destruct (zlen f <? 10) eqn:E; [reflexivity|].
  replace ((zlen f - 10 <? 0) || (zlen f - (zlen f - 10) <? 10) || (10 <? 10)) with false by lia.
  replace (zlen f - 10 + 10) with (zlen f) by lia. fold (f_trl f). fold (t_magic f). fold (t_size f). unfold XM.
  destruct (negb (t_magic f =? 1399873880) || (t_size f + 10 >? zlen f)); reflexivity.
Qed.
Lemma tf_trailer_eq f : xap_tf_trailer f = xap_trailer_size f.
Proof. reflexivity. Qed.
Lemma in_range_nth ws vs : in_range ws vs -> forall i, 0 <= nth i vs 0.
Proof.
  intros R. induction R as [|w v ws' vs' Hwv _ IH]; intros [|i]; cbn [nth]; try lia; try apply IH.
Qed.
Lemma all_bytes_nonneg_fld ws i c : nonneg_ws ws -> all_bytes c = true -> 0 <= fld i (dec_struct ws c).
Proof. intros Hn Hb. unfold fld. exact (in_range_nth _ _ (dec_struct_range ws c Hn Hb) i). Qed.
Lemma nonneg_xaptr : nonneg_ws xaptr_widths. Proof. repeat constructor; lia. Qed.
Lemma nonneg_xaphd : nonneg_ws xaphd_widths. Proof. repeat constructor; lia. Qed.
Lemma t_size_nonneg f : all_bytes f = true -> 0 <= t_size f.
Proof. intros H. apply all_bytes_nonneg_fld; [exact nonneg_xaptr|now apply all_bytes_zslice]. Qed.
Lemma trailer_size_range f : all_bytes f = true -> 0 <= xap_trailer_size f <= zlen f.
Proof.
  intros H. rewrite trailer_size_eq. pose proof (t_size_nonneg f H). pose proof (zlen_nonneg f).
  destruct (zlen f <? 10); [lia|]. destruct (negb (t_magic f =? XM) || (t_size f + 10 >? zlen f)) eqn:E; lia.
Qed.

Lemma remove_sig_eq cd : xap_remove_signature cd = Ok (
  if zlen cd <? 10 then cd else
  if (t_magic cd =? XM) && (t_size cd + 10 <=? zlen cd) then ztake (zlen cd - (t_size cd + 10)) cd else cd).
Proof.
  unfold xap_remove_signature, xap_rm_too_short, xap_rm_trailer_start, xap_rm_has_trailer, xap_rm_new_size.
  destruct (zlen cd <? 10) eqn:E; [reflexivity|].
  replace (zlen cd - 10 <? 0) with false by lia. fold (f_trl cd). fold (t_magic cd). fold (t_size cd). unfold XM.
  destruct ((t_magic cd =? 1399873880) && (t_size cd + 10 <=? zlen cd)) eqn:E2; [|reflexivity].
  replace (zlen cd - (t_size cd + 10) <? 0) with false by lia. reflexivity.
Qed.

Lemma xap_tar_eq f : all_bytes f = true -> xap_tar f =
  d <- zip_find_dir f (zlen f - xap_trailer_size f) ;;
  if d <? 0 then Err E_OFFSET else if zlen f - d <? 0 then Err E_TAR else Ok (zdrop d f, zlen f).
Proof.
  intros Hb. pose proof (trailer_size_range f Hb) as R.
  unfold xap_tar, xap_find_dir. rewrite tf_trailer_eq. unfold zip_tar_bad_trailer, zip_tar_find_size.
  replace ((xap_trailer_size f <? 0) || (xap_trailer_size f >? zlen f)) with false by lia.
  destruct (zip_find_dir f (zlen f - xap_trailer_size f)) as [d| |]; cbn [bind]; try reflexivity.
  unfold zip_tar_cd_from, zip_tar_cd_size, zip_tar_cd_len, zip_tar_zip_len, zip_tar_zip_size, zip_tar_zip_from.
  destruct (d <? 0) eqn:Ed; [reflexivity|]. destruct (zlen f - d <? 0) eqn:Es; [reflexivity|].
  replace ((zlen f - d <? zlen f - d) || (zlen f <? zlen f) || (zlen f <? 0 + zlen f) || negb (0 =? 0)) with false by lia.
  replace (d + (zlen f - d)) with (zlen f) by lia. rewrite zslice_to_end by lia. reflexivity.
Qed.

Lemma xap_digest_eq f : all_bytes f = true -> xap_digest f =
  d <- zip_find_dir f (zlen f - xap_trailer_size f) ;;
  if d <? 0 then Err E_OFFSET else if zlen f - d <? 0 then Err E_TAR else
  cd' <- xap_remove_signature (zdrop d f) ;;
  Ok (mkXapd (ztake d f ++ cd') (d + zlen cd') (zlen f - (d + zlen cd'))).
Proof.
  intros Hb. unfold xap_digest. rewrite xap_tar_eq by exact Hb.
  destruct (zip_find_dir f (zlen f - xap_trailer_size f)) as [d| |]; cbn [bind]; try reflexivity.
  destruct (d <? 0) eqn:Ed; [reflexivity|]. destruct (zlen f - d <? 0) eqn:Es; [reflexivity|]. cbn [bind fst snd].
  unfold xap_body_size, xap_zip_size, xap_patch_start, xap_patch_len.
  rewrite zlen_zdrop by lia. replace (zlen f - (zlen f - d)) with d by lia. reflexivity.
Qed.

(* C01 / C11: the signer's digest never panics (since relic commit f898997; before it a directory offset in the last ten
   bytes of the file made removeSignature slice with a negative bound) *)
Lemma xap_digest_no_panic f p : all_bytes f = true -> xap_digest f <> Panic p.
Proof.
  intros Hb. rewrite xap_digest_eq by exact Hb.
  assert (Hz : forall g zs q, zip_find_dir g zs <> Panic q).
  { intros g zs q. unfold zip_find_dir, zip_window.
    destruct (zip_find_short _ _); [destruct (_ <? _)|destruct (_ <? _); [|destruct (_ <? _)]]; cbn [bind]; try discriminate;
    (destruct (zip_no_end_record _); [discriminate|]); (destruct (zip_needs_zip64 _ _ _); [|discriminate]);
    (destruct (zip_no_locator _); [discriminate|]); (destruct (_ || _); [discriminate|]); destruct (zip_no_end64 _); discriminate. }
  destruct (zip_find_dir f _) as [d| |q] eqn:E; cbn [bind]; try discriminate; [|exfalso; exact (Hz _ _ _ E)].
  destruct (d <? 0); [discriminate|]. destruct (_ <? 0); [discriminate|]. rewrite remove_sig_eq. cbn [bind]. discriminate.
Qed.

(* ================================================================== a file that ends in a consistent signature block *)
(* g = z ++ h ++ b0 ++ tl : header h (8 bytes) announcing |b0|, trailer tl (10 bytes) with the magic and |b0| + 8; the
   unknown fields are arbitrary *)
Record sig_shape (h b0 tl : bytes) : Prop := mkShape {
  sh_h : zlen h = 8;
  sh_tl : zlen tl = 10;
  sh_magic : fld xaptr_ix_Magic (dec_struct xaptr_widths tl) = XM;
  sh_tsz : fld xaptr_ix_TrailerSize (dec_struct xaptr_widths tl) = zlen b0 + 8;
  sh_ssz : fld xaphd_ix_SignatureSize (dec_struct xaphd_widths h) = zlen b0 }.

Lemma magic_bytes x : all_bytes x = true -> zlen x = 4 -> (bytes_eqb x [88; 97; 112; 83] = true <-> le_dec x = XM).
Proof.
  intros Hb Hl. unfold bytes_eqb. rewrite list_eqb_Z_eq. split; [intros ->; reflexivity|].
  intros E. rewrite <- (le_enc_dec x Hb). replace (length x) with 4%nat by (unfold zlen in Hl; lia). rewrite E. reflexivity.
Qed.
Lemma trl_fields tl : zlen tl = 10 ->
  fld xaptr_ix_Magic (dec_struct xaptr_widths tl) = le_dec (ztake 4 tl) /\
  fld xaptr_ix_TrailerSize (dec_struct xaptr_widths tl) = le_dec (zdrop 6 tl).
Proof.
  intros Hl. split.
  - rewrite (fld_dec xaptr_widths xaptr_ix_Magic tl nonneg_xaptr) by (vm_compute; lia). cbn [firstn xaptr_ix_Magic wsum fold_right nth xaptr_widths].
    now rewrite zslice_0.
  - rewrite (fld_dec xaptr_widths xaptr_ix_TrailerSize tl nonneg_xaptr) by (vm_compute; lia).
    cbn [firstn xaptr_ix_TrailerSize wsum fold_right nth xaptr_widths]. change (4 + (2 + 0)) with 6. change (6 + 4) with 10.
    rewrite <- Hl. now rewrite zslice_to_end by lia.
Qed.
Lemma hdr_field h : zlen h = 8 -> fld xaphd_ix_SignatureSize (dec_struct xaphd_widths h) = le_dec (zslice 4 8 h).
Proof.
  intros Hl. rewrite (fld_dec xaphd_widths xaphd_ix_SignatureSize h nonneg_xaphd) by (vm_compute; lia).
  cbn [firstn xaphd_ix_SignatureSize wsum fold_right nth xaphd_widths]. reflexivity.
Qed.

Section Shape.
  Variables z h b0 tl : bytes.
  Hypothesis S : sig_shape h b0 tl.
  Let g := z ++ h ++ b0 ++ tl.
  Lemma shape_len : zlen g = zlen z + zlen b0 + 18.
  Proof. unfold g. rewrite !zlen_app, (sh_h _ _ _ S), (sh_tl _ _ _ S). lia. Qed.
  Lemma shape_take : ztake (zlen z) g = z.
  Proof. unfold g. now apply ztake_app_exact. Qed.
  Lemma shape_from a b : 0 <= a -> zslice (zlen z + a) (zlen z + b) g = zslice a b (h ++ b0 ++ tl).
  Proof. intros Ha. unfold g. rewrite zslice_app_r by lia. f_equal; lia. Qed.
  Lemma shape_hdr : zslice (zlen z) (zlen z + 8) g = h.
  Proof.
    replace (zlen z) with (zlen z + 0) at 1 by lia. rewrite shape_from by lia.
    rewrite zslice_0. apply ztake_app_exact. exact (sh_h _ _ _ S).
  Qed.
  Lemma shape_blob : zslice (zlen z + 8) (zlen z + (8 + zlen b0)) g = b0.
  Proof.
    rewrite shape_from by lia. replace (h ++ b0 ++ tl) with (h ++ b0 ++ tl) by reflexivity.
    apply C12.Proofs.zslice_mid; [exact (sh_h _ _ _ S)|lia].
  Qed.
  Lemma shape_tail : zslice (zlen g - 10) (zlen g) g = tl.
  Proof.
    unfold g. replace (z ++ h ++ b0 ++ tl) with ((z ++ h ++ b0) ++ tl) by now rewrite <- !app_assoc.
    apply zslice_last. exact (sh_tl _ _ _ S).
  Qed.
  Lemma shape_t_magic : t_magic g = XM.
  Proof. unfold t_magic, f_trl. rewrite shape_tail. exact (sh_magic _ _ _ S). Qed.
  Lemma shape_t_size : t_size g = zlen b0 + 8.
  Proof. unfold t_size, f_trl. rewrite shape_tail. exact (sh_tsz _ _ _ S). Qed.
  Lemma shape_trailer_size : xap_trailer_size g = zlen b0 + 18.
  Proof.
    pose proof (zlen_nonneg b0). pose proof (zlen_nonneg z). rewrite trailer_size_eq, shape_t_magic, shape_t_size, shape_len.
    replace (zlen z + zlen b0 + 18 <? 10) with false by lia. rewrite Z.eqb_refl. cbn [negb orb].
    replace (zlen b0 + 8 + 10 >? zlen z + zlen b0 + 18) with false by lia. lia.
  Qed.
  Lemma shape_vparse : xap_vparse g = Ok (Some (zlen z, b0)).
  Proof.
    pose proof (zlen_nonneg b0) as Hb. pose proof (zlen_nonneg z) as Hz. pose proof shape_len as Lg.
    unfold xap_vparse, xap_v_trailer_off, xap_v_trailer_len.
    replace (zlen g - 10 + 10) with (zlen g) by lia. replace (zlen g - 10 <? 0) with false by lia.
    fold (f_trl g). fold (t_magic g). fold (t_size g). rewrite shape_t_magic, shape_t_size.
    unfold xap_v_no_trailer, XM. cbn [Z.eqb Pos.eqb negb].
    unfold xap_v_body_size. replace (zlen g - (zlen b0 + 8 + 10)) with (zlen z) by lia. replace (zlen z <? 0) with false by lia.
    unfold xap_v_hdr_len. rewrite shape_hdr, (sh_ssz _ _ _ S).
    unfold xap_v_size_mismatch. replace (zlen b0 =? zlen b0 + 8 - 8) with true by lia. cbn [negb].
    unfold xap_v_blob_off. replace (zlen g - (zlen z + 8) <? zlen b0) with false by lia.
    replace (zlen z + 8 + zlen b0) with (zlen z + (8 + zlen b0)) by lia. now rewrite shape_blob.
  Qed.
  Lemma shape_extract : xap_extract g = Ok (Some b0).
  Proof. unfold xap_extract. now rewrite shape_vparse. Qed.
  Lemma shape_vhashin : xap_vhashin g = Ok z.
  Proof.
    unfold xap_vhashin. rewrite shape_vparse. cbn [bind]. f_equal.
    unfold xap_v_digest_from, xap_v_digest_len. cbn [Z.add]. rewrite zslice_0. exact shape_take.
  Qed.
  Lemma shape_spec_split : all_bytes tl = true -> xap_spec_split g = Ok (z, Some b0).
  Proof.
    intros Ht. pose proof (zlen_nonneg b0) as Hb. pose proof (zlen_nonneg z) as Hz. pose proof shape_len as Lg.
    pose proof (sh_tl _ _ _ S) as Ltl. pose proof (sh_h _ _ _ S) as Lh.
    destruct (trl_fields tl Ltl) as [Fm Fs]. rewrite (sh_magic _ _ _ S) in Fm. rewrite (sh_tsz _ _ _ S) in Fs.
    assert (Em : zslice (zlen g - 10) (zlen g - 6) g = ztake 4 tl).
    { replace (zlen g - 10) with (zlen z + (8 + zlen b0)) by lia. replace (zlen g - 6) with (zlen z + (8 + zlen b0 + 4)) by lia.
      rewrite shape_from by lia. rewrite app_assoc. rewrite zslice_app_r by (rewrite zlen_app; lia).
      rewrite zlen_app, Lh. replace (8 + zlen b0 - (8 + zlen b0)) with 0 by lia. replace (8 + zlen b0 + 4 - (8 + zlen b0)) with 4 by lia.
      apply zslice_0. }
    assert (Es : zdrop (zlen g - 4) g = zdrop 6 tl).
    { unfold g. rewrite !app_assoc. rewrite zdrop_app_r by (rewrite !zlen_app; fold g; lia). f_equal. rewrite !zlen_app. fold g. lia. }
    unfold xap_spec_split. replace (zlen g <? 10) with false by lia. rewrite Em.
    replace (bytes_eqb (ztake 4 tl) [88; 97; 112; 83]) with true
      by (symmetry; apply magic_bytes; [now apply all_bytes_ztake|apply zlen_ztake; lia|now symmetry]).
    cbn [negb orb]. rewrite Es, <- Fs.
    replace (zlen g - 10 - (zlen b0 + 8)) with (zlen z) by lia.
    replace ((zlen b0 + 8 <? 8) || (zlen z <? 0)) with false by lia.
    replace (zslice (zlen z + 4) (zlen z + 8) g) with (zslice 4 8 h).
    2:{ rewrite shape_from by lia. symmetry. apply zslice_app_l; lia. }
    rewrite <- hdr_field by exact Lh. rewrite (sh_ssz _ _ _ S).
    replace (zlen b0 =? zlen b0 + 8 - 8) with true by lia. cbn [negb].
    rewrite shape_take. replace (zlen z + 8 + zlen b0) with (zlen z + (8 + zlen b0)) by lia. now rewrite shape_blob.
  Qed.
  (* the signer's digest strips the block *)
  Lemma shape_digest d : all_bytes g = true -> zip_find_dir g (zlen z) = Ok d -> 0 <= d <= zlen z ->
    xap_digest g = Ok (mkXapd z (zlen z) (zlen b0 + 18)).
  Proof.
    intros Hg Hd Rd. pose proof (zlen_nonneg b0) as Hb. pose proof shape_len as Lg.
    rewrite xap_digest_eq by exact Hg. rewrite shape_trailer_size.
    replace (zlen g - (zlen b0 + 18)) with (zlen z) by lia. rewrite Hd. cbn [bind].
    replace (d <? 0) with false by lia. replace (zlen g - d <? 0) with false by lia.
    rewrite remove_sig_eq. cbn [bind].
    assert (Ecd : zdrop d g = zdrop d z ++ h ++ b0 ++ tl) by (unfold g; apply zdrop_app_l; lia).
    assert (Lcd : zlen (zdrop d g) = zlen z - d + zlen b0 + 18) by (rewrite zlen_zdrop by lia; lia).
    assert (Etl : zslice (zlen (zdrop d g) - 10) (zlen (zdrop d g)) (zdrop d g) = tl).
    { rewrite Ecd. replace (zdrop d z ++ h ++ b0 ++ tl) with ((zdrop d z ++ h ++ b0) ++ tl) by now rewrite <- !app_assoc.
      apply zslice_last. exact (sh_tl _ _ _ S). }
    replace (zlen (zdrop d g) <? 10) with false by lia.
    unfold t_magic, t_size, f_trl. rewrite Etl, (sh_magic _ _ _ S), (sh_tsz _ _ _ S). rewrite Z.eqb_refl.
    replace (zlen b0 + 8 + 10 <=? zlen (zdrop d g)) with true by lia. cbn [andb].
    replace (zlen (zdrop d g) - (zlen b0 + 8 + 10)) with (zlen (zdrop d z)) by (rewrite zlen_zdrop by lia; lia).
    rewrite Ecd, ztake_app_exact by reflexivity.
    replace (ztake d g) with (ztake d z) by (unfold g; symmetry; apply ztake_app_l; lia).
    rewrite ztake_zdrop. rewrite zlen_zdrop by lia. do 2 f_equal; lia.
  Qed.
  Lemma shape_protected : xap_protected g = z ++ zdrop 4 h ++ b0 ++ ztake 4 tl ++ zdrop 6 tl.
  Proof.
    pose proof (zlen_nonneg b0) as Hb. pose proof (zlen_nonneg z) as Hz. pose proof shape_len as Lg.
    pose proof (sh_tl _ _ _ S) as Ltl. pose proof (sh_h _ _ _ S) as Lh.
    destruct (trl_fields tl Ltl) as [_ Fs]. rewrite (sh_tsz _ _ _ S) in Fs.
    assert (Es : zdrop (zlen g - 4) g = zdrop 6 tl).
    { unfold g. rewrite !app_assoc. rewrite zdrop_app_r by (rewrite !zlen_app; fold g; lia). f_equal. rewrite !zlen_app. fold g. lia. }
    unfold xap_protected. rewrite Es, <- Fs. replace (zlen g - 10 - (zlen b0 + 8)) with (zlen z) by lia.
    replace (zlen z <? 0) with false by lia. rewrite shape_take. f_equal.
    replace (zlen g - 6) with (zlen z + (8 + zlen b0 + 4)) by lia. rewrite shape_from by lia.
    rewrite (zslice_split 4 8 (8 + zlen b0 + 4)) by lia.
    rewrite (zslice_app_l 4 8 h) by lia. replace (zslice 4 8 h) with (zdrop 4 h) by (rewrite <- Lh; symmetry; apply zslice_to_end; lia).
    rewrite <- app_assoc. f_equal.
    rewrite zslice_app_r by lia. rewrite Lh. replace (8 - 8) with 0 by lia. replace (8 + zlen b0 + 4 - 8) with (zlen b0 + 4) by lia.
    rewrite zslice_0. rewrite ztake_app_r by lia. replace (zlen b0 + 4 - zlen b0) with 4 by lia. now rewrite <- app_assoc.
  Qed.
End Shape.

(* the block relic writes has the shape *)
Lemma sigblock_shape b : zlen b + 8 < 2 ^ 32 -> sig_shape (xap_hdr b) b (xap_trl b).
Proof.
  intros H. pose proof (zlen_nonneg b) as Hb. constructor.
  - now apply zlen_xap_hdr.
  - now apply zlen_xap_trl.
  - unfold xap_trl. rewrite xap_tr_vals_eq by lia. rewrite dec_enc_struct0 by (apply xap_tr_range; unfold xap_trailerMagic; lia). reflexivity.
  - unfold xap_trl. rewrite xap_tr_vals_eq by lia. rewrite dec_enc_struct0 by (apply xap_tr_range; unfold xap_trailerMagic; lia). reflexivity.
  - unfold xap_hdr. rewrite xap_hdr_vals_eq by lia. rewrite dec_enc_struct0 by (apply xap_hdr_range; lia). reflexivity.
Qed.
Lemma xap_signed_assoc z b : xap_signed z b = z ++ xap_hdr b ++ b ++ xap_trl b.
Proof. unfold xap_signed. now rewrite xap_sigblock_eq. Qed.

(* ================================================================== the last ten bytes, as the specification reads them *)
Lemma tail_reads f : 10 <= zlen f -> let tl := zslice (zlen f - 10) (zlen f) f in
  zlen tl = 10 /\ zslice (zlen f - 10) (zlen f - 6) f = ztake 4 tl /\ zdrop (zlen f - 4) f = zdrop 6 tl /\
  t_magic f = le_dec (ztake 4 tl) /\ t_size f = le_dec (zdrop 6 tl).
Proof.
  intros Hn tl. assert (Ltl : zlen tl = 10).
  { unfold tl. rewrite zslice_to_end by lia. rewrite zlen_zdrop by lia. lia. }
  split; [exact Ltl|]. split; [|split].
  - unfold tl, zslice. rewrite C12.Proofs.ztake_ztake by lia. f_equal. lia.
  - unfold tl. rewrite zslice_to_end by lia. rewrite zdrop_zdrop by lia. f_equal. lia.
  - destruct (trl_fields tl Ltl) as [A B]. unfold t_magic, t_size, f_trl. fold tl. now rewrite A, B.
Qed.

(* ================================================================== a file without trailer magic *)
Section Unsigned.
  Variable f : bytes.
  Hypothesis Hb : all_bytes f = true.
  Hypothesis U : zlen f < 10 \/ t_magic f <> XM.
  Lemma uns_trailer_size : xap_trailer_size f = 0.
  Proof.
    rewrite trailer_size_eq. destruct (zlen f <? 10) eqn:E; [reflexivity|].
    destruct U as [U'|U']; [lia|]. replace (t_magic f =? XM) with false by lia. reflexivity.
  Qed.
  Lemma uns_spec_split : xap_spec_split f = Ok (f, None).
  Proof.
    unfold xap_spec_split. destruct (zlen f <? 10) eqn:E; [reflexivity|]. destruct U as [U'|U']; [lia|].
    destruct (tail_reads f ltac:(lia)) as (Ltl & Em & _ & Fm & _). rewrite Em.
    destruct (bytes_eqb _ _) eqn:Eb; [|reflexivity]. exfalso. apply U'. rewrite Fm.
    apply magic_bytes; [now apply all_bytes_ztake, all_bytes_zslice|apply zlen_ztake; lia|exact Eb].
  Qed.
  Lemma uns_remove d : 0 <= d <= zlen f -> xap_remove_signature (zdrop d f) = Ok (zdrop d f).
  Proof.
    intros Rd. rewrite remove_sig_eq. f_equal. rewrite zlen_zdrop by lia.
    destruct (zlen f - d <? 10) eqn:E; [reflexivity|]. destruct U as [U'|U']; [lia|].
    replace (t_magic (zdrop d f)) with (t_magic f).
    - replace (t_magic f =? XM) with false by lia. reflexivity.
    - unfold t_magic, f_trl. rewrite zlen_zdrop by lia. rewrite zslice_zdrop by lia. do 3 f_equal; lia.
  Qed.
  Lemma uns_digest d : zip_find_dir f (zlen f) = Ok d -> 0 <= d <= zlen f -> xap_digest f = Ok (mkXapd f (zlen f) 0).
  Proof.
    intros Hd Rd. rewrite xap_digest_eq by exact Hb. rewrite uns_trailer_size, Z.sub_0_r, Hd. cbn [bind].
    replace (d <? 0) with false by lia. replace (zlen f - d <? 0) with false by lia.
    rewrite uns_remove by exact Rd. cbn [bind]. rewrite ztake_zdrop, zlen_zdrop by lia. do 2 f_equal; lia.
  Qed.
End Unsigned.

(* ================================================================== more slices *)
Lemma zlen_zslice {A} a b (l : list A) : 0 <= a <= b -> b <= zlen l -> zlen (zslice a b l) = b - a.
Proof. intros H1 H2. unfold zslice. rewrite zlen_ztake; [lia|]. rewrite zlen_zdrop by lia. lia. Qed.
Lemma zslice_zslice {A} a b s e (l : list A) : 0 <= a -> 0 <= s -> b <= e - s -> zslice a b (zslice s e l) = zslice (s + a) (s + b) l.
Proof.
  intros Ha Hs Hb. unfold zslice. rewrite C12.Proofs.zdrop_ztake by lia. rewrite C12.Proofs.ztake_ztake by lia.
  rewrite zdrop_zdrop by lia. f_equal; [lia|f_equal; lia].
Qed.

(* ================================================================== what an accepted end record looks like *)
Lemma nonneg_zipend : nonneg_ws zipend_widths. Proof. repeat constructor; lia. Qed.
Lemma find_dir_eocd f zs d : 0 <= zs -> zip_find_dir f zs = Ok d ->
  22 <= zs /\ le_dec (zslice (zs - 22) (zs - 18) f) = 101010256.
Proof.
  intros H0 H. unfold zip_find_dir in H. destruct (zip_window f zs) as [w| |] eqn:Ew; cbn [bind] in H; try discriminate.
  destruct (zip_no_end_record _) eqn:En; [discriminate|]. clear H.
  unfold zip_no_end_record in En. apply negb_false_iff, Z.eqb_eq in En.
  rewrite (fld_dec zipend_widths zipend_ix_Signature _ nonneg_zipend) in En by (vm_compute; lia).
  cbn [firstn zipend_ix_Signature wsum fold_right nth zipend_widths] in En. unfold ziploc_size in En.
  rewrite zslice_zdrop in En by lia. change (20 + 0) with 20 in En. change (20 + (0 + 4)) with 24 in En.
  unfold zip_window, zip_find_pos, zip_find_short, zip_find_short_skip, zip_find_short_pos, zip_directory64LocLen, zip_directoryEndLen in Ew.
  destruct ((zs - 22 - 20 <? 0) && (zs >=? 22)) eqn:Es.
  - destruct (zlen f - 0 <? _) eqn:El; [discriminate|]. apply Ok_inj in Ew; subst w. split; [lia|].
    rewrite <- En. f_equal. rewrite zslice_app_r by (rewrite zlen_repeat; lia). rewrite zlen_repeat.
    replace (0 + (20 + 22 - - (zs - 22 - 20))) with zs by lia. rewrite zslice_0, zslice_ztake_inner by lia. f_equal; lia.
  - destruct (zs - 22 - 20 <? 0) eqn:Ep; [discriminate|]. destruct (zlen f - _ <? _) eqn:El; [discriminate|].
    apply Ok_inj in Ew; subst w. split; [lia|]. rewrite <- En. f_equal. rewrite zslice_zslice by lia. f_equal; lia.
Qed.

Lemma uns_extract f d : (zlen f < 10 \/ t_magic f <> XM) -> zip_find_dir f (zlen f) = Ok d -> xap_extract f = Ok None.
Proof.
  intros U Hd. destruct (find_dir_eocd f (zlen f) d (zlen_nonneg f) Hd) as [Hn He].
  destruct U as [U|U]; [lia|]. unfold xap_extract, xap_vparse, xap_v_trailer_off, xap_v_trailer_len.
  replace (zlen f - 10 <? 0) with false by lia. replace (zlen f - 10 + 10) with (zlen f) by lia.
  fold (f_trl f). fold (t_magic f). unfold xap_v_no_trailer. fold XM. replace (t_magic f =? XM) with false by lia. cbn [negb].
  unfold xap_v_zipmagic_off, xap_v_zipmagic_len, xap_v_is_zip. replace (zlen f - 22 <? 0) with false by lia.
  replace (zlen f - 22 + 4) with (zlen f - 18) by lia. rewrite He. reflexivity.
Qed.

(* ================================================================== the domain, structurally *)
Definition is_block (old : bytes) (o : option bytes) : Prop :=
  (old = [] /\ o = None) \/ (exists h b0 tl, old = h ++ b0 ++ tl /\ sig_shape h b0 tl /\ o = Some b0).
Record xap_parts (f z old : bytes) (o : option bytes) : Prop := mkParts {
  pt_split : f = z ++ old;
  pt_bytes : all_bytes f = true;
  pt_digest : xap_digest f = Ok (mkXapd z (zlen z) (zlen old));
  pt_spec : xap_spec_split f = Ok (z, o);
  pt_extract : xap_extract f = Ok o;
  pt_trailer : xap_trailer_size f = zlen old;
  pt_dir : exists d, zip_find_dir f (zlen z) = Ok d /\ 0 <= d <= zlen z;
  pt_zip64 : zip64_inside_at f (zlen z) = true;
  pt_block : is_block old o }.

Lemma parts_unsigned f d : all_bytes f = true -> (zlen f < 10 \/ t_magic f <> XM) -> zip_find_dir f (zlen f) = Ok d -> 0 <= d <= zlen f ->
  zip64_inside_at f (zlen f) = true -> xap_parts f f [] None.
Proof.
  intros Hb U Hd Rd Hz. constructor; try assumption.
  - now rewrite app_nil_r.
  - rewrite zlen_nil. exact (uns_digest f Hb U d Hd Rd).
  - exact (uns_spec_split f Hb U).
  - exact (uns_extract f d U Hd).
  - rewrite zlen_nil. exact (uns_trailer_size f U).
  - exists d. auto.
  - left. auto.
Qed.
Lemma parts_signed z h b0 tl d : let g := z ++ h ++ b0 ++ tl in
  all_bytes g = true -> sig_shape h b0 tl -> zip_find_dir g (zlen z) = Ok d -> 0 <= d <= zlen z ->
  zip64_inside_at g (zlen z) = true -> xap_parts g z (h ++ b0 ++ tl) (Some b0).
Proof.
  intros g Hb S Hd Rd Hz.
  assert (Lo : zlen (h ++ b0 ++ tl) = zlen b0 + 18) by (rewrite !zlen_app, (sh_h _ _ _ S), (sh_tl _ _ _ S); lia).
  constructor; try assumption.
  - reflexivity.
  - rewrite Lo. exact (shape_digest z h b0 tl S d Hb Hd Rd).
  - apply shape_spec_split; [exact S|]. unfold g in Hb. rewrite !all_bytes_app in Hb.
    apply andb_true_iff in Hb as [_ Hb]. apply andb_true_iff in Hb as [_ Hb]. apply andb_true_iff in Hb as [_ Hb]. exact Hb.
  - exact (shape_extract z h b0 tl S).
  - rewrite Lo. exact (shape_trailer_size z h b0 tl S).
  - exists d. auto.
  - right. exists h, b0, tl. auto.
Qed.

Lemma xap_wf_parts f : xap_wf f = true -> exists z old o, xap_parts f z old o.
Proof.
  unfold xap_wf. intros H. repeat (apply andb_true_iff in H as [H ?]).
  rename H into Hb, H0 into Hs, H1 into Hi, H2 into Hz, H3 into Hd.
  unfold xap_zip64_inside, xap_dir_inside, xap_find_dir, zip_tar_find_size in *. rewrite tf_trailer_eq in *.
  rewrite xap_digest_eq in Hd by exact Hb.
  destruct (zip_find_dir f (zlen f - xap_trailer_size f)) as [d| |] eqn:Ed; try discriminate. cbn [bind] in Hd.
  destruct (d <? 0) eqn:Ed0; [discriminate|]. clear Hd. pose proof (zlen_nonneg f) as Hn.
  destruct (Z_lt_ge_dec (zlen f) 10) as [Hlt|Hge]; [|destruct (Z.eq_dec (t_magic f) XM) as [Em|Em]].
  - assert (U : zlen f < 10 \/ t_magic f <> XM) by (left; exact Hlt).
    rewrite (uns_trailer_size f U), Z.sub_0_r in *. exists f, [], None. apply (parts_unsigned f d); auto; lia.
  - (* trailer magic present *)
    destruct (tail_reads f ltac:(lia)) as (Ltl & Emg & Esz & Fm & Fs). set (tl := zslice (zlen f - 10) (zlen f) f) in *.
    assert (Htl : all_bytes tl = true) by (unfold tl; now apply all_bytes_zslice).
    unfold xap_spec_split in Hs. replace (zlen f <? 10) with false in Hs by lia. rewrite Emg in Hs.
    replace (bytes_eqb (ztake 4 tl) [88; 97; 112; 83]) with true in Hs
      by (symmetry; apply magic_bytes; [now apply all_bytes_ztake|apply zlen_ztake; lia|congruence]).
    cbn [negb orb] in Hs. rewrite Esz, <- Fs in Hs. pose proof (t_size_nonneg f Hb) as Hts.
    destruct ((t_size f <? 8) || (zlen f - 10 - t_size f <? 0)) eqn:E1; [discriminate|].
    set (start := zlen f - 10 - t_size f) in *.
    destruct (negb (le_dec (zslice (start + 4) (start + 8) f) =? t_size f - 8)) eqn:E2; [discriminate|]. clear Hs.
    apply negb_false_iff, Z.eqb_eq in E2.
    assert (Et : xap_trailer_size f = t_size f + 10).
    { rewrite trailer_size_eq. replace (zlen f <? 10) with false by lia. rewrite Em, Z.eqb_refl. cbn [negb orb].
      replace (t_size f + 10 >? zlen f) with false by lia. reflexivity. }
    rewrite Et in *. replace (zlen f - (t_size f + 10)) with start in * by (unfold start; lia).
    set (z := ztake start f). set (h := zslice start (start + 8) f). set (b0 := zslice (start + 8) (zlen f - 10) f).
    assert (Lz : zlen z = start) by (unfold z; apply zlen_ztake; lia).
    assert (Ef : f = z ++ h ++ b0 ++ tl).
    { unfold z, h, b0, tl. rewrite <- (zslice_split (start + 8) (zlen f - 10) (zlen f)) by lia.
      rewrite <- (zslice_split start (start + 8) (zlen f)) by lia. rewrite zslice_to_end by lia. symmetry. apply ztake_zdrop. }
    assert (S : sig_shape h b0 tl).
    { constructor.
      - unfold h. rewrite zlen_zslice by lia. lia.
      - exact Ltl.
      - exact Em.
      - unfold b0. rewrite zlen_zslice by lia. change (fld xaptr_ix_TrailerSize (dec_struct xaptr_widths tl)) with (t_size f). unfold start. lia.
      - rewrite hdr_field by (unfold h; rewrite zlen_zslice by lia; lia). unfold h. rewrite zslice_zslice by lia.
        rewrite E2. unfold b0. rewrite zlen_zslice by lia. unfold start. lia. }
    exists z, (h ++ b0 ++ tl), (Some b0). rewrite Ef at 1. apply (parts_signed z h b0 tl d); try rewrite <- Ef; try rewrite Lz; auto; lia.
  - assert (U : zlen f < 10 \/ t_magic f <> XM) by (right; exact Em).
    rewrite (uns_trailer_size f U), Z.sub_0_r in *. exists f, [], None. apply (parts_unsigned f d); auto; lia.
Qed.

Lemma xap_parts_wf f z old o : xap_parts f z old o -> xap_wf f = true.
Proof.
  intros P. destruct P as [Ef Hb Hd Hs He Ht [d [Hf Rd]] Hz _].
  assert (Ezs : zlen f - xap_trailer_size f = zlen z) by (rewrite Ht, Ef, zlen_app; lia).
  unfold xap_wf. rewrite Hb, Hd, Hs. cbn [is_ok andb].
  unfold xap_zip64_inside, xap_dir_inside, xap_find_dir, zip_tar_find_size. rewrite tf_trailer_eq, Ezs, Hz, Hf. cbn [andb]. lia.
Qed.

(* ================================================================== signing: the patch set applied *)
Lemma xap_embed_eq f b z old o : xap_parts f z old o -> xap_embed f b = Ok (z ++ xap_sigblock b).
Proof.
  intros P. destruct P as [Ef Hb Hd _ _ _ _ _ _]. unfold xap_embed. rewrite Hd. cbn [bind].
  unfold xap_patchset. cbn [x_start x_len]. unfold xap_patch_off, xap_patch_old.
  change (C12.Model.add [] (zlen z) (zlen old) (xap_sigblock b))
    with (C12.Model.add_all [C12.Model.mkCall (zlen z) (zlen old) (xap_sigblock b)]).
  pose proof (zlen_nonneg z) as Hz. pose proof (zlen_nonneg old) as Ho.
  assert (Lf : zlen f = zlen z + zlen old) by (rewrite Ef; apply zlen_app).
  destruct (C12.Proofs.add_fileorder_sound [C12.Model.mkCall (zlen z) (zlen old) (xap_sigblock b)] f) as [A S].
  { cbn [map C12.Model.call_patch C12.Model.asc_disjoint C12.Model.c_off C12.Model.c_old C12.Model.c_blob C12.Model.p_off C12.Model.p_old].
    rewrite Lf. lia. }
  rewrite (C12.Proofs.isort_id _ (C12.Proofs.asc_nondecreasing _ _ _ A)).
  rewrite (C12.Proofs.rewrite_sorted _ _ A), S. f_equal.
  cbn [map C12.Model.call_patch C12.Model.splice fold_right C12.Model.c_off C12.Model.c_old C12.Model.c_blob C12.Model.p_off C12.Model.p_old C12.Model.p_blob].
  unfold C12.Model.replace1. rewrite Ef at 1. rewrite ztake_app_exact by reflexivity. f_equal.
  rewrite zdrop_all by lia. apply app_nil_r.
Qed.

Lemma blob_wf_inv b : xap_blob_wf b = true -> all_bytes b = true /\ zlen b + 8 < 2 ^ 32.
Proof. unfold xap_blob_wf. intros H. apply andb_true_iff in H as [H1 H2]. split; [exact H1|lia]. Qed.

Lemma parts_resign f z old o b : xap_parts f z old o -> xap_blob_wf b = true ->
  xap_parts (z ++ xap_sigblock b) z (xap_sigblock b) (Some b).
Proof.
  intros P Hbw. destruct (blob_wf_inv b Hbw) as [Hbb Hbl]. destruct P as [Ef Hb _ _ _ _ [d [Hf Rd]] Hz _].
  pose proof (zlen_nonneg z) as Lz0. pose proof (zlen_nonneg old) as Lo0.
  assert (Lf : zlen f = zlen z + zlen old) by (rewrite Ef; apply zlen_app).
  assert (Hbz : all_bytes z = true) by (rewrite Ef, all_bytes_app in Hb; now apply andb_true_iff in Hb).
  rewrite xap_sigblock_eq. set (g := z ++ xap_hdr b ++ b ++ xap_trl b).
  assert (Et : ztake (zlen z) f = ztake (zlen z) g).
  { rewrite Ef. unfold g. now rewrite !ztake_app_exact. }
  assert (Lg : zlen z <= zlen g) by (unfold g; rewrite zlen_app; pose proof (zlen_nonneg (xap_hdr b ++ b ++ xap_trl b)); lia).
  apply (parts_signed z (xap_hdr b) b (xap_trl b) d).
  - fold g. unfold g. rewrite <- xap_sigblock_eq, all_bytes_app, Hbz. now apply xap_sigblock_bytes.
  - now apply sigblock_shape.
  - fold g. rewrite <- (zip_find_dir_agree f g (zlen z)); auto; lia.
  - exact Rd.
  - fold g. rewrite <- (zip64_inside_agree f g (zlen z)); auto; lia.
Qed.

(* ================================================================== the format and its laws *)
Definition xap_format : format bytes := mkFormat bytes xap_hashin xap_embed_wf xap_extract xap_payload.

Lemma xap_embed_wf_inv f b g : xap_embed_wf f b = Ok g -> xap_wf f = true /\ xap_blob_wf b = true /\ xap_embed f b = Ok g.
Proof.
  unfold xap_embed_wf. destruct (xap_wf f); [|discriminate]. destruct (xap_blob_wf b); [|discriminate]. cbn [andb]. auto.
Qed.
(* everything about one signing step *)
Lemma xap_step f b g : xap_embed_wf f b = Ok g -> exists z old o,
  xap_parts f z old o /\ g = z ++ xap_sigblock b /\ xap_parts g z (xap_sigblock b) (Some b).
Proof.
  intros H. destruct (xap_embed_wf_inv _ _ _ H) as (Hw & Hb & He).
  destruct (xap_wf_parts f Hw) as (z & old & o & P). exists z, old, o.
  rewrite (xap_embed_eq f b z old o P) in He. apply Ok_inj in He. subst g. split; [exact P|]. split; [reflexivity|]. exact (parts_resign f z old o b P Hb).
Qed.
Lemma parts_hashin f z old o : xap_parts f z old o -> xap_hashin f = Ok z.
Proof. intros P. unfold xap_hashin. now rewrite (pt_digest _ _ _ _ P). Qed.
Lemma parts_payload f z old o : xap_parts f z old o -> xap_payload f = Ok z.
Proof. intros P. unfold xap_payload. now rewrite (pt_spec _ _ _ _ P). Qed.

Theorem xap_law_extract : law_extract bytes xap_format.
Proof.
  unfold law_extract, xap_format. cbn [f_embed f_extract]. intros f b g H.
  destruct (xap_step f b g H) as (z & old & o & _ & _ & P). exact (pt_extract _ _ _ _ P).
Qed.
Theorem xap_law_hashin : law_hashin bytes xap_format.
Proof.
  unfold law_hashin, xap_format. cbn [f_embed f_hashin]. intros f b g H.
  destruct (xap_step f b g H) as (z & old & o & P & _ & P'). now rewrite (parts_hashin _ _ _ _ P), (parts_hashin _ _ _ _ P').
Qed.
Theorem xap_law_payload : law_payload bytes xap_format.
Proof.
  unfold law_payload, xap_format. cbn [f_embed f_payload]. intros f b g H.
  destruct (xap_step f b g H) as (z & old & o & P & _ & P'). now rewrite (parts_payload _ _ _ _ P), (parts_payload _ _ _ _ P').
Qed.

(* C01: inside the domain signing always succeeds — for unsigned zips and for files that already carry a signature *)
Theorem xap_embed_defined f b : xap_wf f = true -> xap_blob_wf b = true -> exists g, xap_embed_wf f b = Ok g /\ xap_embed f b = Ok g.
Proof.
  intros Hw Hb. destruct (xap_wf_parts f Hw) as (z & old & o & P). exists (z ++ xap_sigblock b).
  unfold xap_embed_wf. rewrite Hw, Hb. cbn [andb]. split; exact (xap_embed_eq f b z old o P).
Qed.
(* C08: the signed file is again in the domain *)
Theorem xap_wf_preserved f b g : xap_embed_wf f b = Ok g -> xap_wf g = true.
Proof. intros H. destruct (xap_step f b g H) as (z & old & o & _ & _ & P). exact (xap_parts_wf _ _ _ _ P). Qed.

(* C08: NotSignedError coincides with the specification's "no trailer" *)
Theorem xap_is_signed_spec f : xap_wf f = true -> (xap_extract f = Ok None <-> xap_spec_signed f = false).
Proof.
  intros Hw. destruct (xap_wf_parts f Hw) as (z & old & o & P). unfold xap_spec_signed.
  rewrite (pt_extract _ _ _ _ P), (pt_spec _ _ _ _ P). destruct o; split; intros H; congruence.
Qed.
(* C05: the signer's digest input is the specification's: the zip part of the file *)
Theorem xap_hashin_eq_spec f : xap_wf f = true -> xap_hashin f = xap_spec_hashin f.
Proof.
  intros Hw. destruct (xap_wf_parts f Hw) as (z & old & o & P). rewrite (parts_hashin _ _ _ _ P).
  unfold xap_spec_hashin. now rewrite (pt_spec _ _ _ _ P).
Qed.
(* C01 / C05: on a signed file the verifier digests the same bytes as the signer would *)
Theorem xap_verifier_digest_eq f : xap_wf f = true -> xap_spec_signed f = true -> xap_vhashin f = xap_hashin f.
Proof.
  intros Hw Hs. destruct (xap_wf_parts f Hw) as (z & old & o & P). rewrite (parts_hashin _ _ _ _ P).
  unfold xap_spec_signed in Hs. rewrite (pt_spec _ _ _ _ P) in Hs.
  destruct (pt_block _ _ _ _ P) as [[_ ->]|(h & b0 & tl & Eo & S & ->)]; [discriminate|].
  rewrite (pt_split _ _ _ _ P), Eo. exact (shape_vhashin z h b0 tl S).
Qed.
(* C03: input and output share the payload as a prefix; behind it the input has nothing or one signature block, the output
   exactly the block for the new blob *)
Theorem xap_only_these_ranges_differ f b g : xap_embed_wf f b = Ok g -> exists z old,
  xap_payload f = Ok z /\ f = z ++ old /\ g = z ++ xap_sigblock b /\
  (old = [] \/ exists h b0 tl, old = h ++ b0 ++ tl /\ zlen h = 8 /\ zlen tl = 10 /\ xap_extract f = Ok (Some b0)).
Proof.
  intros H. destruct (xap_step f b g H) as (z & old & o & P & Eg & _). exists z, old.
  split; [exact (parts_payload _ _ _ _ P)|]. split; [exact (pt_split _ _ _ _ P)|]. split; [exact Eg|].
  destruct (pt_block _ _ _ _ P) as [[-> _]|(h & b0 & tl & Eo & S & Eq)]; [left; reflexivity|right].
  exists h, b0, tl. repeat split; [exact Eo|exact (sh_h _ _ _ S)|exact (sh_tl _ _ _ S)|]. rewrite <- Eq. exact (pt_extract _ _ _ _ P).
Qed.
(* C08 (fix 956170e): a signed XAP can be signed again; the old block is replaced, not kept *)
Theorem xap_signed_resignable f b g b' : xap_embed_wf f b = Ok g -> xap_blob_wf b' = true ->
  exists g', xap_embed_wf g b' = Ok g' /\ xap_extract g' = Ok (Some b') /\ xap_payload g' = xap_payload f /\
             xap_hashin g' = xap_hashin f /\ zlen g' - zlen b' = zlen g - zlen b.
Proof.
  intros H Hb'. destruct (xap_step f b g H) as (z & old & o & P & Eg & Pg).
  destruct (xap_embed_wf_inv _ _ _ H) as (_ & Hb & _).
  destruct (xap_embed_defined g b' (xap_parts_wf _ _ _ _ Pg) Hb') as (g' & H' & _).
  destruct (xap_step g b' g' H') as (z' & old' & o' & Pg2 & Eg' & Pg').
  assert (z' = z) by (pose proof (parts_hashin _ _ _ _ Pg); pose proof (parts_hashin _ _ _ _ Pg2); congruence). subst z'.
  exists g'. split; [exact H'|]. split; [exact (pt_extract _ _ _ _ Pg')|].
  rewrite (parts_payload _ _ _ _ Pg'), (parts_payload _ _ _ _ P), (parts_hashin _ _ _ _ Pg'), (parts_hashin _ _ _ _ P).
  repeat split. rewrite Eg, Eg'. unfold xap_signed. fold (xap_signed z b). fold (xap_signed z b').
  rewrite !zlen_xap_signed by (destruct (blob_wf_inv _ Hb); destruct (blob_wf_inv _ Hb'); lia). lia.
Qed.

(* ================================================================== C02: what the digest and the blob pin down *)
Lemma le4_canon x v : all_bytes x = true -> zlen x = 4 -> le_dec x = v -> x = le_enc 4 v.
Proof. intros Hb Hl <-. rewrite <- (le_enc_dec x Hb) at 1. f_equal. unfold zlen in Hl. lia. Qed.
Lemma shape_protected_canon z h b0 tl : sig_shape h b0 tl -> all_bytes h = true -> all_bytes tl = true ->
  xap_protected (z ++ h ++ b0 ++ tl) = z ++ le_enc 4 (zlen b0) ++ b0 ++ le_enc 4 XM ++ le_enc 4 (zlen b0 + 8).
Proof.
  intros S Hh Ht. rewrite (shape_protected z h b0 tl S).
  pose proof (sh_h _ _ _ S) as Lh. pose proof (sh_tl _ _ _ S) as Lt. destruct (trl_fields tl Lt) as [Fm Fs].
  rewrite (sh_magic _ _ _ S) in Fm. rewrite (sh_tsz _ _ _ S) in Fs.
  rewrite (le4_canon (zdrop 4 h) (zlen b0)); [|now apply all_bytes_zdrop|rewrite zlen_zdrop by lia; lia|].
  2:{ rewrite <- (sh_ssz _ _ _ S), hdr_field by exact Lh. f_equal. rewrite <- Lh. symmetry. apply zslice_to_end. lia. }
  rewrite (le4_canon (ztake 4 tl) XM); [|now apply all_bytes_ztake|apply zlen_ztake; lia|now symmetry].
  rewrite (le4_canon (zdrop 6 tl) (zlen b0 + 8)); [reflexivity|now apply all_bytes_zdrop|rewrite zlen_zdrop by lia; lia|now symmetry].
Qed.
Lemma parts_signed_block f z old o : xap_parts f z old o -> xap_spec_signed f = true ->
  exists h b0 tl, f = z ++ h ++ b0 ++ tl /\ sig_shape h b0 tl /\ o = Some b0 /\ all_bytes h = true /\ all_bytes tl = true.
Proof.
  intros P Hs. unfold xap_spec_signed in Hs. rewrite (pt_spec _ _ _ _ P) in Hs.
  destruct (pt_block _ _ _ _ P) as [[_ ->]|(h & b0 & tl & Eo & S & ->)]; [discriminate|].
  exists h, b0, tl. pose proof (pt_bytes _ _ _ _ P) as Hb. rewrite (pt_split _ _ _ _ P), Eo in Hb |- *.
  rewrite !all_bytes_app in Hb. repeat (apply andb_true_iff in Hb as [? Hb]). auto.
Qed.
(* two signed files of the domain with the same digest input and the same blob agree on every byte the format protects:
   everything except the two unknown words of the block header and the unknown word of the trailer *)
Theorem xap_protect g1 g2 : xap_wf g1 = true -> xap_wf g2 = true -> xap_spec_signed g1 = true -> xap_spec_signed g2 = true ->
  xap_hashin g1 = xap_hashin g2 -> xap_extract g1 = xap_extract g2 -> xap_protected g1 = xap_protected g2.
Proof.
  intros W1 W2 S1 S2 Hh He.
  destruct (xap_wf_parts g1 W1) as (z1 & old1 & o1 & P1). destruct (xap_wf_parts g2 W2) as (z2 & old2 & o2 & P2).
  rewrite (parts_hashin _ _ _ _ P1), (parts_hashin _ _ _ _ P2) in Hh. apply Ok_inj in Hh. subst z2.
  rewrite (pt_extract _ _ _ _ P1), (pt_extract _ _ _ _ P2) in He. apply Ok_inj in He. subst o2.
  destruct (parts_signed_block _ _ _ _ P1 S1) as (h1 & b1 & t1 & E1 & Sh1 & Eo1 & Hh1 & Ht1).
  destruct (parts_signed_block _ _ _ _ P2 S2) as (h2 & b2 & t2 & E2 & Sh2 & Eo2 & Hh2 & Ht2).
  assert (b2 = b1) by congruence. subst b2.
  rewrite E1, E2. now rewrite !shape_protected_canon.
Qed.
(* ... and nothing more: the unknown words are covered by neither digest nor blob (witness, replayed on the real verifier) *)
Definition w_zip : bytes := [80; 75; 5; 6] ++ repeat 0 18.
Definition w_x1 : bytes := w_zip ++ xap_sigblock [7].
Definition w_x2 : bytes := w_zip ++ [2; 0; 3; 0; 1; 0; 0; 0] ++ [7] ++ [88; 97; 112; 83; 9; 0; 9; 0; 0; 0].
Theorem xap_exempt_fields_unprotected :
  xap_wf w_x1 = true /\ xap_wf w_x2 = true /\ w_x1 <> w_x2 /\ xap_hashin w_x1 = xap_hashin w_x2 /\
  xap_extract w_x1 = xap_extract w_x2 /\ xap_extract w_x1 = Ok (Some [7]) /\ xap_vhashin w_x2 = Ok w_zip /\
  xap_protected w_x1 = xap_protected w_x2.
Proof. vm_compute. repeat split; try reflexivity. discriminate. Qed.

(* outside the domain: an end record whose directory offset points behind the zip part, into an existing signature block.
   relic keeps the old block inside the signed content and appends a second one; the result cannot be signed again and the
   independent reader's payload has changed *)
Definition w_zip_out : bytes := [80; 75; 5; 6] ++ repeat 0 12 ++ [23; 0; 0; 0; 0; 0].
Definition w_out : bytes := w_zip_out ++ xap_sigblock [].
Theorem xap_law_hashin_refuted : exists g,
  xap_wf w_out = false /\ xap_embed w_out [9] = Ok g /\ xap_extract g = Ok (Some [9]) /\
  xap_hashin w_out = Ok w_out /\ xap_hashin g = Err E_NODIR /\ xap_payload w_out = Ok w_zip_out /\ xap_payload g = Ok w_out.
Proof. exists (w_out ++ xap_sigblock [9]). vm_compute. repeat split; reflexivity. Qed.

(* ================================================================== C01: refusals *)
Theorem xap_refuses_clean :
  (forall f b, is_ok (xap_hashin f) = false -> is_ok (xap_embed f b) = false) /\
  (forall f b p, all_bytes f = true -> xap_hashin f <> Panic p /\ xap_embed f b <> Panic p) /\
  (forall f pre, all_bytes f = true -> xap_hashin f = Ok pre ->
     let zs := zlen f - xap_trailer_size f in
     22 <= zs /\ u32at (zs - 22) f = 101010256 /\ exists d, zip_find_dir f zs = Ok d /\ 0 <= d <= zlen f).
Proof.
  split; [|split].
  - intros f b. unfold xap_hashin, xap_embed. destruct (xap_digest f); cbn [bind is_ok]; congruence.
  - intros f b p Hb. pose proof (xap_digest_no_panic f) as N. unfold xap_hashin, xap_embed.
    destruct (xap_digest f) as [dg| |q]; cbn [bind]; [|split; discriminate|exfalso; exact (N q Hb eq_refl)].
    split; [discriminate|]. apply rewrite_from_no_panic.
  - intros f pre Hb H zs. unfold xap_hashin in H. rewrite xap_digest_eq in H by exact Hb. fold zs in H.
    destruct (zip_find_dir f zs) as [d| |] eqn:Ed; cbn [bind] in H; try discriminate.
    destruct (d <? 0) eqn:E0; [discriminate|]. destruct (zlen f - d <? 0) eqn:E1; [discriminate|].
    pose proof (trailer_size_range f Hb) as R.
    destruct (find_dir_eocd f zs d ltac:(unfold zs; lia) Ed) as [A B].
    split; [exact A|]. split; [|exists d; split; [reflexivity|lia]].
    unfold u32at. replace (zs - 22 + 4) with (zs - 18) by lia. exact B.
Qed.

(* ================================================================== C01 / C08: the pipeline theorems, symbolic cryptography *)
Section XapCrypto.
  Variables key pubk sigv : Type.
  Variable H : Z -> bytes -> bytes.
  Variable pub : key -> pubk.
  Variable sign : key -> bytes -> sigv.
  Variable vrfy : pubk -> bytes -> sigv -> bool.
  Hypothesis sign_correct : forall k m, vrfy (pub k) m (sign k m) = true.
  Variable tbs : Z -> bytes -> bytes.
  Variable ser : sigblob pubk sigv -> bytes.
  Variable deser : bytes -> option (sigblob pubk sigv).
  Hypothesis deser_ser : forall b, deser (ser b) = Some b.

  Theorem xap_sign_then_verify : forall k a f g,
    sign_file key pubk sigv H pub sign tbs ser bytes xap_format k a f = Ok g ->
    verify_file pubk sigv H vrfy tbs deser bytes xap_format g = Accept pubk (pub k) a.
  Proof.
    apply (sign_then_verify key pubk sigv H pub sign vrfy sign_correct tbs ser deser deser_ser bytes xap_format).
    - exact xap_law_extract.
    - exact xap_law_hashin.
  Qed.
  Theorem xap_resign_history : forall hist f g k a,
    resign key pubk sigv H pub sign tbs ser bytes xap_format (hist ++ [(k, a)]) f = Ok g ->
    verify_file pubk sigv H vrfy tbs deser bytes xap_format g = Accept pubk (pub k) a
    /\ is_signed bytes xap_format g = true /\ xap_payload g = xap_payload f /\ xap_hashin g = xap_hashin f.
  Proof.
    apply (resign_history key pubk sigv H pub sign vrfy sign_correct tbs ser deser deser_ser bytes xap_format).
    - exact xap_law_extract.
    - exact xap_law_hashin.
    - exact xap_law_payload.
  Qed.
  (* the verifier of the pipeline theorems uses the signer's digest function; on the signed file it is the verifier's own *)
  Theorem xap_verify_uses_verifier_digest : forall f b g, xap_embed_wf f b = Ok g -> xap_vhashin g = xap_hashin g.
  Proof.
    intros f b g Hg. destruct (xap_step f b g Hg) as (z & old & o & _ & _ & P).
    apply xap_verifier_digest_eq; [exact (xap_parts_wf _ _ _ _ P)|]. unfold xap_spec_signed. now rewrite (pt_spec _ _ _ _ P).
  Qed.
End XapCrypto.

(* ================================================================== statements in the form FmtCAB/Properties.v quotes them *)
Lemma xap_embed_wf_eq f b : xap_wf f = true -> xap_blob_wf b = true -> xap_embed_wf f b = xap_embed f b.
Proof. intros Hw Hb. unfold xap_embed_wf. now rewrite Hw, Hb. Qed.
Lemma xap_law_extract_P f b g : xap_wf f = true -> xap_blob_wf b = true -> xap_embed f b = Ok g -> xap_extract g = Ok (Some b).
Proof. intros Hw Hb He. apply (xap_law_extract f b g). cbn [f_embed xap_format]. now rewrite xap_embed_wf_eq. Qed.
Lemma xap_law_hashin_P f b g : xap_wf f = true -> xap_blob_wf b = true -> xap_embed f b = Ok g -> xap_hashin g = xap_hashin f.
Proof. intros Hw Hb He. apply (xap_law_hashin f b g). cbn [f_embed xap_format]. now rewrite xap_embed_wf_eq. Qed.
Lemma xap_law_payload_P f b g : xap_wf f = true -> xap_blob_wf b = true -> xap_embed f b = Ok g -> xap_payload g = xap_payload f.
Proof. intros Hw Hb He. apply (xap_law_payload f b g). cbn [f_embed xap_format]. now rewrite xap_embed_wf_eq. Qed.
Lemma xap_format_laws : law_extract bytes xap_format /\ law_hashin bytes xap_format /\ law_payload bytes xap_format.
Proof. exact (conj xap_law_extract (conj xap_law_hashin xap_law_payload)). Qed.
Lemma xap_wf_preserved_P f b g : xap_wf f = true -> xap_blob_wf b = true -> xap_embed f b = Ok g -> xap_wf g = true.
Proof. intros Hw Hb He. apply (xap_wf_preserved f b g). now rewrite xap_embed_wf_eq. Qed.
Lemma xap_embed_defined_P f b : xap_wf f = true -> xap_blob_wf b = true -> exists g, xap_embed f b = Ok g.
Proof. intros Hw Hb. destruct (xap_embed_defined f b Hw Hb) as (g & _ & E). now exists g. Qed.
