(* FmtCAB/ProofsXap.v — the XAP lemmas behind FmtCAB/Properties.v *)
From Relic Require Import Base.Prelude Base.Enc Generated.FmtCAB_gen FmtCAB.Model FmtCAB.Lib Laws.Pipeline.
From Relic Require C12.Model C12.Proofs.

(* ================================================================== the signature block *)
Definition xap_hdr (b : bytes) : bytes := enc_struct xaphd_widths (xap_hdr_vals (zlen b)).
Definition xap_trl (b : bytes) : bytes := enc_struct xaptr_widths (xap_tr_vals (zlen b)).
Lemma xap_sigblock_eq b : xap_sigblock b = xap_hdr b ++ b ++ xap_trl b.
Proof. unfold xap_sigblock, xap_write_order. cbn [assemble Z.eqb Pos.eqb]. now rewrite app_nil_r. Qed.

Lemma xap_hdr_vals_eq n : 0 <= n < 2 ^ 32 -> xap_hdr_vals n = [1; 1; n].
Proof. intros H. unfold xap_hdr_vals, xap_hdr_sigsize. rewrite wrap32_small by lia. reflexivity. Qed.
Lemma xap_tr_vals_eq n : 0 <= n -> n + 8 < 2 ^ 32 -> xap_tr_vals n = [xap_trailerMagic; 1; n + 8].
Proof. intros H H'. unfold xap_tr_vals, xap_tr_size. rewrite wrap32_small by lia. reflexivity. Qed.
Lemma xap_hdr_range n : 0 <= n < 2 ^ 32 -> in_range xaphd_widths [1; 1; n].
Proof. intros H. repeat constructor; cbn in *; lia. Qed.
Lemma xap_tr_range m u n : 0 <= m < 2 ^ 32 -> 0 <= u < 2 ^ 16 -> 0 <= n < 2 ^ 32 -> in_range xaptr_widths [m; u; n].
Proof. intros. repeat constructor; cbn in *; lia. Qed.
Lemma zlen_xap_hdr b : zlen b + 8 < 2 ^ 32 -> zlen (xap_hdr b) = 8.
Proof.
  intros H. pose proof (zlen_nonneg b). unfold xap_hdr. rewrite xap_hdr_vals_eq by lia.
  rewrite (enc_struct_zlen xaphd_widths [1; 1; zlen b]) by (apply xap_hdr_range; lia). reflexivity.
Qed.
Lemma zlen_xap_trl b : zlen b + 8 < 2 ^ 32 -> zlen (xap_trl b) = 10.
Proof.
  intros H. pose proof (zlen_nonneg b). unfold xap_trl. rewrite xap_tr_vals_eq by lia.
  rewrite (enc_struct_zlen xaptr_widths [xap_trailerMagic; 1; zlen b + 8]); [reflexivity|]. apply xap_tr_range; unfold xap_trailerMagic; lia.
Qed.
Lemma xap_sigblock_bytes b : all_bytes b = true -> all_bytes (xap_sigblock b) = true.
Proof. intros H. rewrite xap_sigblock_eq, !all_bytes_app, H. unfold xap_hdr, xap_trl. now rewrite !enc_struct_bytes. Qed.

(* the last n bytes of a list *)
Lemma zslice_last {A} (X Y : list A) n : zlen Y = n -> zslice (zlen (X ++ Y) - n) (zlen (X ++ Y)) (X ++ Y) = Y.
Proof.
  intros H. rewrite zlen_app. replace (zlen X + zlen Y - n) with (zlen X) by lia.
  replace (X ++ Y) with (X ++ Y ++ []) by now rewrite app_nil_r. apply C12.Proofs.zslice_mid; lia.
Qed.

(* a signed file as relic writes it *)
Definition xap_signed (z b : bytes) : bytes := z ++ xap_sigblock b.
Lemma zlen_xap_signed z b : zlen b + 8 < 2 ^ 32 -> zlen (xap_signed z b) = zlen z + zlen b + 18.
Proof.
  intros H. unfold xap_signed. rewrite xap_sigblock_eq, !zlen_app, zlen_xap_hdr, zlen_xap_trl by lia. lia.
Qed.
Lemma xap_signed_tail z b : zlen b + 8 < 2 ^ 32 ->
  zslice (zlen (xap_signed z b) - 10) (zlen (xap_signed z b)) (xap_signed z b) = xap_trl b.
Proof.
  intros H. unfold xap_signed. rewrite xap_sigblock_eq.
  replace (z ++ xap_hdr b ++ b ++ xap_trl b) with ((z ++ xap_hdr b ++ b) ++ xap_trl b) by now rewrite <- !app_assoc.
  apply zslice_last. now apply zlen_xap_trl.
Qed.
Lemma xap_signed_trailer z b : zlen b + 8 < 2 ^ 32 ->
  dec_struct xaptr_widths (zslice (zlen (xap_signed z b) - 10) (zlen (xap_signed z b)) (xap_signed z b)) = [xap_trailerMagic; 1; zlen b + 8].
Proof.
  intros H. pose proof (zlen_nonneg b). rewrite xap_signed_tail by lia. unfold xap_trl. rewrite xap_tr_vals_eq by lia.
  apply dec_enc_struct0. apply xap_tr_range; unfold xap_trailerMagic; lia.
Qed.

(* ================================================================== the verifier on a file relic wrote *)
Lemma xap_vparse_signed z b : zlen b + 8 < 2 ^ 32 -> xap_vparse (xap_signed z b) = Ok (Some (zlen z, b)).
Proof.
  intros H. pose proof (zlen_nonneg b) as Hb. pose proof (zlen_nonneg z) as Hz.
  pose proof (xap_signed_trailer z b H) as Et. pose proof (zlen_xap_signed z b H) as Lg.
  assert (Eh : zslice (zlen z) (zlen z + 8) (xap_signed z b) = xap_hdr b).
  { unfold xap_signed. rewrite xap_sigblock_eq. apply C12.Proofs.zslice_mid; [reflexivity|]. rewrite zlen_xap_hdr by lia. lia. }
  assert (Eb : zslice (zlen z + 8) (zlen z + 8 + zlen b) (xap_signed z b) = b).
  { unfold xap_signed. rewrite xap_sigblock_eq.
    replace (z ++ xap_hdr b ++ b ++ xap_trl b) with ((z ++ xap_hdr b) ++ b ++ xap_trl b) by now rewrite <- !app_assoc.
    apply C12.Proofs.zslice_mid; [|lia]. rewrite zlen_app, zlen_xap_hdr by lia. reflexivity. }
  remember (xap_signed z b) as g eqn:Eg. clear Eg.
  unfold xap_vparse, xap_v_trailer_off, xap_v_trailer_len.
  replace (zlen g - 10 + 10) with (zlen g) by lia. rewrite !Et.
  replace (zlen g - 10 <? 0) with false by lia.
  cbn [fld nth xaptr_ix_Magic xaptr_ix_TrailerSize]. unfold xap_v_no_trailer, xap_trailerMagic. cbn [Z.eqb Pos.eqb negb].
  unfold xap_v_body_size. replace (zlen g - (zlen b + 8 + 10)) with (zlen z) by lia. replace (zlen z <? 0) with false by lia.
  unfold xap_v_hdr_len. rewrite Eh. unfold xap_hdr. rewrite xap_hdr_vals_eq by lia. rewrite dec_enc_struct0 by (apply xap_hdr_range; lia).
  cbn [fld nth xaphd_ix_SignatureSize]. unfold xap_v_size_mismatch. replace (zlen b =? zlen b + 8 - 8) with true by lia. cbn [negb].
  unfold xap_v_blob_off. replace (zlen g - (zlen z + 8) <? zlen b) with false by lia. now rewrite Eb.
Qed.
Lemma xap_extract_signed z b : zlen b + 8 < 2 ^ 32 -> xap_extract (xap_signed z b) = Ok (Some b).
Proof. intros H. unfold xap_extract. now rewrite xap_vparse_signed. Qed.
Lemma xap_vhashin_signed z b : zlen b + 8 < 2 ^ 32 -> xap_vhashin (xap_signed z b) = Ok z.
Proof.
  intros H. unfold xap_vhashin. rewrite xap_vparse_signed by exact H. cbn [bind]. f_equal.
  unfold xap_v_digest_from, xap_v_digest_len, xap_signed. cbn [Z.add]. now apply C12.Proofs.zslice_head.
Qed.
