(* FmtCAB/Properties.v — property theorems only, for the two formats of this module:
   cab_  Microsoft Cabinet Authenticode signatures (lib/cabfile Digest / Parse / MakePatch, lib/authenticode VerifyCab, signers/cab),
   xap_  Silverlight XAP signature trailer (signers/xap transformer, lib/signxap TrailerSize / DigestXapTar / removeSignature /
         Sign / Verify, lib/zipslicer FindDirectory / ZipToTarTrailer).
   Each theorem is closed by a lemma of FmtCAB/ProofsB.v (CAB) or FmtCAB/ProofsXap.v (XAP).  Grouped by the property served
   (C01 C08 C03 C02 C05); checks/fmtcab.py ASPECT_THEOREMS lists the same names.  Where the faithful model violates a
   statement at full strength the theorem `*_refuted` exhibits a concrete witness (replayed on the real code by
   checks/fmtcab.py) and the theorem itself is stated on the decidable domain cab_wf / xap_wf (FmtCAB/Model.v). *)
From Relic Require Import Base.Prelude Base.Enc Generated.FmtCAB_gen FmtCAB.Model FmtCAB.Lib FmtCAB.Proofs FmtCAB.ProofsB FmtCAB.ProofsXap Laws.Pipeline.

(* ====================================================================================================== Cabinet *)
(* cab_format = (cab_hashin, cab_embed_wf, cab_extract, cab_payload); cab_embed_wf f b = cab_embed f b when
   cab_wf f && blob_wf b && |b| mod 8 = 0, Err E_DOMAIN otherwise.
   cab_wf (Model.v): bytes; cabfile.Digest accepts the file; cbCabinet and every folder's coffCabStart stay inside 32 bits
   after the header has grown to the signed layout (theorem cab_wf_exact).
   blob_wf: bytes, not empty, shorter than 4 GiB - 8. *)

(* ---- C01 *)
(* Laws.law_extract: the verifier's parser finds the blob, zero padded to the 8-byte boundary MakePatch pads to; the blob
   itself when its length is a multiple of 8.  Full statement (any blob): cab_law_extract_refuted *)
Theorem cab_law_extract : forall f b g, cab_wf f = true -> blob_wf b = true -> cab_embed f b = Ok g ->
  cab_extract g = Ok (Some (cab_pad8 b)) /\ (zlen b mod 8 = 0 -> cab_extract g = Ok (Some b)).
Proof. exact FmtCAB.ProofsB.cab_law_extract_P. Qed.
Theorem cab_law_extract_refuted : exists g,
  cab_wf w_cab = true /\ blob_wf [1] = true /\ cab_embed w_cab [1] = Ok g /\ cab_extract g = Ok (Some [1; 0; 0; 0; 0; 0; 0; 0]).
Proof. exact FmtCAB.ProofsB.cab_law_extract_refuted. Qed.
(* since relic commit 6b49488 every byte string cabfile.Digest accepts has the layout MakePatch relies on: header area (header,
   reserve, folder table) ends exactly at coffFiles, coffFiles <= cbCabinet, file = header area ++ data ++ signature area.
   (Before it: `cab_signs_unverifiable_refuted` — relic signed such files and rejected its own output.) *)
Theorem cab_accepted_layout : forall f p, all_bytes f = true -> cab_parse f = Ok p ->
  f = p_hd p ++ c_data p ++ c_sig p /\ zlen (p_hd p) = u32at 16 f /\ u32at 16 f <= u32at 8 f /\ zlen (p_hd p) + zlen (c_data p) = u32at 8 f.
Proof. exact FmtCAB.ProofsB.cab_accepted_layout. Qed.
(* so the domain of the laws is exactly: bytes, accepted by cabfile.Digest, 32-bit headroom for the grown header (cabp_wf) *)
Theorem cab_wf_exact : forall f, cab_wf f = true <-> all_bytes f = true /\ exists p, cab_parse f = Ok p /\ cabp_wf p = true.
Proof. exact FmtCAB.ProofsB.cab_wf_exact. Qed.
(* ... and whatever relic signs, relic's parser finds the signature in, digests as before, with the same payload *)
Theorem cab_signed_verifies : forall f p b g, all_bytes f = true -> cab_parse f = Ok p -> cabp_wf p = true -> blob_wf b = true ->
  cab_embed f b = Ok g -> cab_extract g = Ok (Some (cab_pad8 b)) /\ cab_hashin g = cab_hashin f /\ cab_payload g = cab_payload f.
Proof. exact FmtCAB.ProofsB.cab_signed_verifies. Qed.
(* regression inputs of the repaired defect: refused cleanly, never signed *)
Theorem cab_bad_layout_refused :
  all_bytes w_overlap = true /\ cab_hashin w_overlap = Err E_LAYOUT /\ cab_embed w_overlap [1; 2; 3; 4; 5; 6; 7; 8] = Err E_LAYOUT /\
  all_bytes w_regress = true /\ zlen w_regress = 36 /\ cab_hashin w_regress = Err E_LAYOUT /\ cab_embed w_regress [1; 2; 3; 4; 5; 6; 7; 8] = Err E_LAYOUT /\
  cab_extract w_regress = Err E_LAYOUT.
Proof. exact FmtCAB.ProofsB.cab_bad_layout_refused. Qed.
(* C01 + C08: Laws.law_hashin: the digest input ignores the signature just written (header rewritten to the signed layout,
   folder offsets shifted, reserve area and signature skipped) *)
Theorem cab_law_hashin : forall f b g, cab_wf f = true -> blob_wf b = true -> cab_embed f b = Ok g -> cab_hashin g = cab_hashin f.
Proof. exact FmtCAB.ProofsB.cab_law_hashin_wf. Qed.
(* the three laws of Laws/Pipeline.v for cab_format *)
Theorem cab_format_laws : law_extract cabview cab_format /\ law_hashin cabview cab_format /\ law_payload cabview cab_format.
Proof. exact FmtCAB.ProofsB.cab_format_laws. Qed.
(* inside the domain signing always succeeds: unsigned cabinets, cabinets with a zeroed reserve of any size, signed cabinets *)
Theorem cab_embed_defined : forall f b, cab_wf f = true -> blob_wf b = true -> exists g, cab_embed f b = Ok g.
Proof. exact FmtCAB.ProofsB.cab_embed_defined. Qed.
(* refusals: what the digest refuses is not signed; nothing panics, on any input; the digest accepts exactly the byte strings
   that are the serialisation of a parse result satisfying cabp_ok (Proofs.v: magic, flags in {0, RESERVE_PRESENT}, reserve
   header {20 + pad, 0, 0} with pad zero bytes and CabinetSize 0, or pad = 0 and CabinetSize = cbCabinet, NumFolders folder
   headers ending at coffFiles <= cbCabinet, cbCabinet - coffFiles bytes, SignatureSize bytes, nothing else) *)
Theorem cab_refuses_clean :
  (forall f b, is_ok (cab_hashin f) = false -> is_ok (cab_embed f b) = false) /\
  (forall f b q, cab_hashin f <> Panic q /\ cab_extract f <> Panic q /\ cab_embed f b <> Panic q) /\
  (forall f, all_bytes f = true -> (is_ok (cab_hashin f) = true <-> exists p, cabp_ok p /\ f = cab_write p)).
Proof. exact FmtCAB.ProofsB.cab_refuses_clean. Qed.

(* ---- C08 *)
(* "signed" for the verifier (anything but NotSignedError) is the specification's: Authenticode reserve layout with a
   non-zero cbSignature *)
Theorem cab_is_signed_spec : forall f, cab_wf f = true -> (cab_extract f = Ok None <-> cab_spec_signed f = false).
Proof. exact FmtCAB.ProofsB.cab_is_signed_spec. Qed.
(* the signed cabinet is again in the domain: signing can be repeated *)
Theorem cab_wf_preserved : forall f b g, cab_wf f = true -> blob_wf b = true -> cab_embed f b = Ok g -> cab_wf g = true.
Proof. exact FmtCAB.ProofsB.cab_wf_preserved_gen. Qed.

(* ---- C03 *)
(* Laws.law_payload: the [MS-CAB] reader's view (reserved fields, version, counts, flags without RESERVE_PRESENT, set id,
   cabinet index, per folder {offset relative to coffFiles, block count, compression}, every byte from coffFiles to cbCabinet) *)
Theorem cab_law_payload : forall f b g, cab_wf f = true -> blob_wf b = true -> cab_embed f b = Ok g -> cab_payload g = cab_payload f.
Proof. exact FmtCAB.ProofsB.cab_law_payload_wf. Qed.
(* only the header area (up to coffFiles) and the signature area (behind cbCabinet) differ; the new header area has the size of
   the signed layout; the new signature area is the padded blob *)
Theorem cab_only_these_ranges_differ : forall f b g, cab_wf f = true -> blob_wf b = true -> cab_embed f b = Ok g ->
  exists hd hd' data sig, f = hd ++ data ++ sig /\ g = hd' ++ data ++ cab_pad8 b /\
    zlen hd = u32at 16 f /\ zlen hd + zlen data = u32at 8 f /\ zlen hd' = 60 + 8 * u16at 26 f /\
    cab_extract f = Ok (if zlen sig =? 0 then None else Some sig) /\ cab_payload g = cab_payload f.
Proof. exact FmtCAB.ProofsB.cab_only_these_ranges_differ_wf. Qed.

(* ---- C02 *)
(* two cabinets of the domain in the Authenticode layout with equal digest input and equal blob agree on every protected byte:
   everything except reserved1 [4,8), iCabinet [34,36) and the two unknown words of the signature header [40,44), [52,56) *)
Theorem cab_protect : forall g1 g2, cab_wf g1 = true -> cab_wf g2 = true ->
  cab_spec_signed_layout g1 = true -> cab_spec_signed_layout g2 = true ->
  cab_hashin g1 = cab_hashin g2 -> cab_extract g1 = cab_extract g2 -> cab_protected g1 = cab_protected g2.
Proof. exact FmtCAB.ProofsB.cab_protect. Qed.
(* ... and no more: witness, two signed cabinets differing exactly in those four fields (the real verifier accepts both) *)
Theorem cab_exempt_fields_unprotected :
  cab_wf w_g1 = true /\ cab_wf w_g2 = true /\ w_g1 <> w_g2 /\ cab_spec_signed w_g1 = true /\ cab_spec_signed w_g2 = true /\
  cab_hashin w_g1 = cab_hashin w_g2 /\ cab_extract w_g1 = cab_extract w_g2 /\ cab_extract w_g1 = Ok (Some [7; 0; 0; 0; 0; 0; 0; 1]) /\
  cab_protected w_g1 = cab_protected w_g2.
Proof. exact FmtCAB.ProofsB.cab_exempt_fields_unprotected. Qed.

(* ---- C05 *)
(* relic's digest input is the Authenticode digest input of the specification side (header of the signed layout without
   reserved1 and iCabinet, the last word of the signature reserve, folder entries of the signed layout, coffFiles..cbCabinet) *)
Theorem cab_hashin_eq_spec : forall f, cab_wf f = true -> cab_hashin f = cab_spec_hashin f.
Proof. exact FmtCAB.ProofsB.cab_hashin_eq_spec. Qed.

(* ====================================================================================================== XAP *)
(* xap_format = (xap_hashin, xap_embed_wf, xap_extract, xap_payload); xap_embed_wf f b = xap_embed f b when
   xap_wf f && xap_blob_wf b.  xap_wf (Model.v): bytes; the signer's digest (transformer + DigestXapTar) accepts the file; the
   central directory offset (and a ZIP64 end record, if the end record asks for one) lies inside the zip part; the
   specification's trailer split is defined.  Unsigned zips AND files that already carry a signature block are in the domain.
   xap_blob_wf: bytes, shorter than 4 GiB - 8. *)

(* ---- C01 *)
Theorem xap_law_extract : forall f b g, xap_wf f = true -> xap_blob_wf b = true -> xap_embed f b = Ok g -> xap_extract g = Ok (Some b).
Proof. exact FmtCAB.ProofsXap.xap_law_extract_P. Qed.
(* C01 + C08: the signer's digest input ignores the signature block (fix 956170e: also when there is one already) *)
Theorem xap_law_hashin : forall f b g, xap_wf f = true -> xap_blob_wf b = true -> xap_embed f b = Ok g -> xap_hashin g = xap_hashin f.
Proof. exact FmtCAB.ProofsXap.xap_law_hashin_P. Qed.
(* full statement (any file the signer accepts): fails when the end record's directory offset points into an existing signature
   block — relic signs, keeps the old block inside the signed content, and refuses the result when asked to sign it again *)
Theorem xap_law_hashin_refuted : exists g,
  xap_wf w_out = false /\ xap_embed w_out [9] = Ok g /\ xap_extract g = Ok (Some [9]) /\
  xap_hashin w_out = Ok w_out /\ xap_hashin g = Err E_NODIR /\ xap_payload w_out = Ok w_zip_out /\ xap_payload g = Ok w_out.
Proof. exact FmtCAB.ProofsXap.xap_law_hashin_refuted. Qed.
Theorem xap_format_laws : law_extract bytes xap_format /\ law_hashin bytes xap_format /\ law_payload bytes xap_format.
Proof. exact FmtCAB.ProofsXap.xap_format_laws. Qed.
Theorem xap_embed_defined : forall f b, xap_wf f = true -> xap_blob_wf b = true -> exists g, xap_embed f b = Ok g.
Proof. exact FmtCAB.ProofsXap.xap_embed_defined_P. Qed.
(* refusals: what the digest refuses is not signed; neither digest nor signing panics on any byte string (holds since relic
   commit f898997; before it a directory offset inside the last ten bytes made removeSignature slice with a negative bound);
   an accepted file has the end-of-directory signature 22 bytes in front of the end of its zip part and a directory offset
   inside the file *)
Theorem xap_refuses_clean :
  (forall f b, is_ok (xap_hashin f) = false -> is_ok (xap_embed f b) = false) /\
  (forall f b p, all_bytes f = true -> xap_hashin f <> Panic p /\ xap_embed f b <> Panic p) /\
  (forall f pre, all_bytes f = true -> xap_hashin f = Ok pre ->
     let zs := zlen f - xap_trailer_size f in
     22 <= zs /\ u32at (zs - 22) f = 101010256 /\ exists d, zip_find_dir f zs = Ok d /\ 0 <= d <= zlen f).
Proof. exact FmtCAB.ProofsXap.xap_refuses_clean. Qed.
(* the verifier digests its own way (the bytes in front of the block); on a signed file of the domain that is the signer's
   digest input *)
Theorem xap_verifier_digest_eq : forall f, xap_wf f = true -> xap_spec_signed f = true -> xap_vhashin f = xap_hashin f.
Proof. exact FmtCAB.ProofsXap.xap_verifier_digest_eq. Qed.

(* ---- C08 *)
Theorem xap_is_signed_spec : forall f, xap_wf f = true -> (xap_extract f = Ok None <-> xap_spec_signed f = false).
Proof. exact FmtCAB.ProofsXap.xap_is_signed_spec. Qed.
Theorem xap_wf_preserved : forall f b g, xap_wf f = true -> xap_blob_wf b = true -> xap_embed f b = Ok g -> xap_wf g = true.
Proof. exact FmtCAB.ProofsXap.xap_wf_preserved_P. Qed.
(* a signed XAP can be signed again (fix 956170e; before it: "zip central directory not found"): the old block is replaced,
   payload and digest input are those of the original *)
Theorem xap_signed_resignable : forall f b g b', xap_embed_wf f b = Ok g -> xap_blob_wf b' = true ->
  exists g', xap_embed_wf g b' = Ok g' /\ xap_extract g' = Ok (Some b') /\ xap_payload g' = xap_payload f /\
             xap_hashin g' = xap_hashin f /\ zlen g' - zlen b' = zlen g - zlen b.
Proof. exact FmtCAB.ProofsXap.xap_signed_resignable. Qed.

(* ---- C03 *)
(* Laws.law_payload: the zip part as the specification splits the file *)
Theorem xap_law_payload : forall f b g, xap_wf f = true -> xap_blob_wf b = true -> xap_embed f b = Ok g -> xap_payload g = xap_payload f.
Proof. exact FmtCAB.ProofsXap.xap_law_payload_P. Qed.
Theorem xap_only_these_ranges_differ : forall f b g, xap_embed_wf f b = Ok g -> exists z old,
  xap_payload f = Ok z /\ f = z ++ old /\ g = z ++ xap_sigblock b /\
  (old = [] \/ exists h b0 tl, old = h ++ b0 ++ tl /\ zlen h = 8 /\ zlen tl = 10 /\ xap_extract f = Ok (Some b0)).
Proof. exact FmtCAB.ProofsXap.xap_only_these_ranges_differ. Qed.

(* ---- C02 *)
(* protected: everything except the two unknown words of the block header and the unknown word of the trailer *)
Theorem xap_protect : forall g1 g2, xap_wf g1 = true -> xap_wf g2 = true -> xap_spec_signed g1 = true -> xap_spec_signed g2 = true ->
  xap_hashin g1 = xap_hashin g2 -> xap_extract g1 = xap_extract g2 -> xap_protected g1 = xap_protected g2.
Proof. exact FmtCAB.ProofsXap.xap_protect. Qed.
Theorem xap_exempt_fields_unprotected :
  xap_wf w_x1 = true /\ xap_wf w_x2 = true /\ w_x1 <> w_x2 /\ xap_hashin w_x1 = xap_hashin w_x2 /\
  xap_extract w_x1 = xap_extract w_x2 /\ xap_extract w_x1 = Ok (Some [7]) /\ xap_vhashin w_x2 = Ok w_zip /\
  xap_protected w_x1 = xap_protected w_x2.
Proof. exact FmtCAB.ProofsXap.xap_exempt_fields_unprotected. Qed.

(* ---- C05 *)
Theorem xap_hashin_eq_spec : forall f, xap_wf f = true -> xap_hashin f = xap_spec_hashin f.
Proof. exact FmtCAB.ProofsXap.xap_hashin_eq_spec. Qed.

(* ====================================================================================================== the pipeline *)
(* C01 / C08: Laws.Pipeline.sign_then_verify and resign_history for both formats; cryptography symbolic *)
Section Crypto.
  Variables key pubk sigv : Type.
  Variable H : Z -> bytes -> bytes.
  Variable pub : key -> pubk.
  Variable sign : key -> bytes -> sigv.
  Variable vrfy : pubk -> bytes -> sigv -> bool.
  Hypothesis sign_correct : forall k m, vrfy (pub k) m (sign k m) = true.
  Variable tbs : Z -> bytes -> bytes.
  Variable ser : sigblob pubk sigv -> bytes.
  Variable deser : bytes -> option (sigblob pubk sigv).
  Hypothesis deser_ser : forall b, deser (ser b) = Some b.
  (* cabinets: pkcs7.Unmarshal ignores the zero padding MakePatch adds to the SignedData *)
  Hypothesis deser_padded : forall b, deser (cab_pad8 (ser b)) = Some b.

  Theorem cab_sign_then_verify : forall k a f g,
    sign_file key pubk sigv H pub sign tbs (fun b => cab_pad8 (ser b)) cabview cab_format k a f = Ok g ->
    verify_file pubk sigv H vrfy tbs deser cabview cab_format g = Accept pubk (pub k) a.
  Proof. exact (FmtCAB.ProofsB.cab_sign_then_verify key pubk sigv H pub sign vrfy sign_correct tbs ser deser deser_padded). Qed.
  (* ... and the file sign_file produces is the one MakePatch produces for the unpadded SignedData *)
  Theorem cab_sign_file_is_makepatch : forall k a f g pre,
    cab_hashin f = Ok pre ->
    sign_file key pubk sigv H pub sign tbs (fun b => cab_pad8 (ser b)) cabview cab_format k a f = Ok g ->
    cab_embed f (ser (mksig key pubk sigv pub sign tbs k a (H a pre))) = Ok g.
  Proof. exact (FmtCAB.ProofsB.cab_sign_file_is_makepatch key pubk sigv H pub sign tbs ser). Qed.
  Theorem cab_resign_history : forall hist f g k a,
    resign key pubk sigv H pub sign tbs (fun b => cab_pad8 (ser b)) cabview cab_format (hist ++ [(k, a)]) f = Ok g ->
    verify_file pubk sigv H vrfy tbs deser cabview cab_format g = Accept pubk (pub k) a
    /\ is_signed cabview cab_format g = true /\ cab_payload g = cab_payload f /\ cab_hashin g = cab_hashin f.
  Proof. exact (FmtCAB.ProofsB.cab_resign_history key pubk sigv H pub sign vrfy sign_correct tbs ser deser deser_padded). Qed.

  Theorem xap_sign_then_verify : forall k a f g,
    sign_file key pubk sigv H pub sign tbs ser bytes xap_format k a f = Ok g ->
    verify_file pubk sigv H vrfy tbs deser bytes xap_format g = Accept pubk (pub k) a.
  Proof. exact (FmtCAB.ProofsXap.xap_sign_then_verify key pubk sigv H pub sign vrfy sign_correct tbs ser deser deser_ser). Qed.
  Theorem xap_resign_history : forall hist f g k a,
    resign key pubk sigv H pub sign tbs ser bytes xap_format (hist ++ [(k, a)]) f = Ok g ->
    verify_file pubk sigv H vrfy tbs deser bytes xap_format g = Accept pubk (pub k) a
    /\ is_signed bytes xap_format g = true /\ xap_payload g = xap_payload f /\ xap_hashin g = xap_hashin f.
  Proof. exact (FmtCAB.ProofsXap.xap_resign_history key pubk sigv H pub sign vrfy sign_correct tbs ser deser deser_ser). Qed.
End Crypto.

(* ====================================================================================================== non-vacuity *)
(* a cabinet with one folder (8-byte entry, 5 data bytes), the same with a zeroed 24-byte reserve, and the signed form of the
   first are in the domain; signing computes, and the laws hold on the results *)
Definition ex_cab : bytes :=
  enc_struct cabh_widths [1178817357; 305419896; 49; 7; 44; 9; 259; 1; 0; 0; 4660; 3] ++ enc_struct cabfh_widths [44; 1; 0] ++ [104; 101; 108; 108; 111].
Definition ex_cab_reserve : bytes :=
  enc_struct cabh_widths [1178817357; 0; 77; 0; 72; 0; 259; 1; 0; 4; 4660; 0] ++ enc_struct cabrh_widths [24; 0; 0] ++ repeat 0 24
  ++ enc_struct cabfh_widths [72; 1; 0] ++ [104; 101; 108; 108; 111].
Definition ex_blob : bytes := [48; 3; 2; 1; 0; 0; 0; 0].
Example cab_wf_inhabited :
  cab_wf w_cab = true /\ cab_wf ex_cab = true /\ cab_wf ex_cab_reserve = true /\ cab_wf w_overlap = false /\ blob_wf ex_blob = true.
Proof. vm_compute. repeat split; reflexivity. Qed.
Example cab_laws_computed :
  match cab_embed_wf ex_cab ex_blob with
  | Ok g => cab_extract g = Ok (Some ex_blob) /\ cab_hashin g = cab_hashin ex_cab /\ cab_payload g = cab_payload ex_cab /\ cab_wf g = true /\
            cab_spec_signed g = true /\ cab_hashin g = cab_spec_hashin g /\
            match cab_embed_wf g [9; 9; 9; 9; 9; 9; 9; 9; 1; 2; 3; 4; 5; 6; 7; 8] with
            | Ok g2 => cab_extract g2 = Ok (Some [9; 9; 9; 9; 9; 9; 9; 9; 1; 2; 3; 4; 5; 6; 7; 8]) /\ zlen g2 = zlen g + 8 /\ cab_hashin g2 = cab_hashin ex_cab
            | _ => False
            end
  | _ => False
  end /\
  match cab_embed_wf ex_cab_reserve ex_blob with
  | Ok g => cab_extract g = Ok (Some ex_blob) /\ cab_payload g = cab_payload ex_cab_reserve /\ zlen g = zlen ex_cab_reserve - 4 + 8
  | _ => False
  end.
Proof. vm_compute. repeat split; reflexivity. Qed.

(* an empty zip, a zip with 20 bytes in front of the end record, and a signed file are in the domain *)
Definition ex_zip : bytes := repeat 7 20 ++ [80; 75; 5; 6] ++ repeat 0 12 ++ [20; 0; 0; 0; 0; 0].
Example xap_wf_inhabited :
  xap_wf w_zip = true /\ xap_wf ex_zip = true /\ xap_wf w_x1 = true /\ xap_wf w_out = false /\ xap_blob_wf ex_blob = true /\ xap_blob_wf [] = true.
Proof. vm_compute. repeat split; reflexivity. Qed.
Example xap_laws_computed :
  match xap_embed_wf ex_zip ex_blob with
  | Ok g => xap_extract g = Ok (Some ex_blob) /\ xap_hashin g = Ok ex_zip /\ xap_payload g = Ok ex_zip /\ xap_wf g = true /\ xap_vhashin g = Ok ex_zip /\
            match xap_embed_wf g [1; 2; 3] with
            | Ok g2 => xap_extract g2 = Ok (Some [1; 2; 3]) /\ zlen g2 = zlen g - 5 /\ xap_hashin g2 = Ok ex_zip /\ xap_payload g2 = Ok ex_zip
            | _ => False
            end
  | _ => False
  end.
Proof. vm_compute. repeat split; reflexivity. Qed.

(* the symbolic cryptography of the pipeline theorems has a model: a toy scheme with unit keys whose encoding ends in a
   non-zero byte (so that zero padding can be stripped); signing a cabinet and a zip succeeds with it *)
Definition toy_ser (b : sigblob unit unit) : bytes := sb_alg unit unit b :: sb_digest unit unit b.
Definition toy_deser (l : bytes) : option (sigblob unit unit) := match l with a :: d => Some (mkBlob unit unit a d tt tt) | [] => None end.
Example toy_deser_ser : forall b, toy_deser (toy_ser b) = Some b.
Proof. intros [a d [] []]. reflexivity. Qed.
Example sign_hypothesis_satisfiable :
  is_ok (sign_file unit unit unit (fun a m => [a; zlen m mod 256; 1; 2; 3; 4; 5]) (fun _ => tt) (fun _ _ => tt) (fun _ d => d)
           (fun b => cab_pad8 (toy_ser b)) cabview cab_format tt 4 ex_cab) = true /\
  is_ok (sign_file unit unit unit (fun a m => [a; zlen m mod 256]) (fun _ => tt) (fun _ _ => tt) (fun _ d => d) toy_ser bytes xap_format tt 4 ex_zip) = true.
Proof. vm_compute. split; reflexivity. Qed.
