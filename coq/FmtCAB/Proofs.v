(* FmtCAB/Proofs.v — the CAB lemmas behind FmtCAB/Properties.v (the XAP lemmas are in FmtCAB/ProofsXap.v) *)
From Relic Require Import Base.Prelude Base.Enc Generated.FmtCAB_gen FmtCAB.Model FmtCAB.Lib Laws.Pipeline.
From Relic Require C12.Model C12.Proofs.

(* ================================================================== CAB: parser inversion and completeness *)
Definition res_bytes (res : option (list Z * list Z * Z)) : bytes :=
  match res with
  | None => []
  | Some (rv, sv, pad) => enc_struct cabrh_widths rv ++ enc_struct cabsh_widths sv ++ repeat 0 (Z.to_nat pad)
  end.
(* the file a parse result stands for *)
Definition cab_write (p : cabp) : bytes :=
  enc_struct cabh_widths (c_hv p) ++ res_bytes (c_res p) ++ enc_folders (c_folders p) ++ c_data p ++ c_sig p.

Definition res_ok (hv : list Z) (res : option (list Z * list Z * Z)) : Prop :=
  match res with
  | None => fld cabh_ix_Flags hv = 0
  | Some (rv, sv, pad) =>
      fld cabh_ix_Flags hv = 4 /\ rv = [20 + pad; 0; 0] /\ 0 <= pad < 65516 /\ in_range cabsh_widths sv /\
      (if pad >? 0 then fld cabsh_ix_CabinetSize sv = 0 else fld cabsh_ix_CabinetSize sv = fld cabh_ix_TotalSize hv)
  end.
Record cabp_ok (p : cabp) : Prop := mkOk {
  ok_hv : in_range cabh_widths (c_hv p);
  ok_magic : fld cabh_ix_Magic (c_hv p) = cab_Magic;
  ok_res : res_ok (c_hv p) (c_res p);
  ok_folders : Forall (in_range cabfh_widths) (c_folders p);
  ok_nfolders : zlen (c_folders p) = fld cabh_ix_NumFolders (c_hv p);
  ok_data : zlen (c_data p) = fc_wrap32 (fld cabh_ix_TotalSize (c_hv p) - fld cabh_ix_OffsetFiles (c_hv p));
  ok_sig : if cab_has_sig p then zlen (c_sig p) = fld cabsh_ix_SignatureSize (res_sv (c_res p)) else c_sig p = [];
  (* since relic commit 6b49488: the folder table ends at coffFiles, and coffFiles <= cbCabinet *)
  ok_layout : fld cabh_ix_OffsetFiles (c_hv p) = cab_P p /\ fld cabh_ix_OffsetFiles (c_hv p) <= fld cabh_ix_TotalSize (c_hv p) }.

Lemma nonneg_cabh : nonneg_ws cabh_widths. Proof. repeat constructor; lia. Qed.
Lemma nonneg_cabrh : nonneg_ws cabrh_widths. Proof. repeat constructor; lia. Qed.
Lemma nonneg_cabsh : nonneg_ws cabsh_widths. Proof. repeat constructor; lia. Qed.
Lemma nonneg_cabfh : nonneg_ws cabfh_widths. Proof. repeat constructor; lia. Qed.

(* the three flag tests leave exactly two values of the 16-bit flags word (decided by enumeration) *)
Definition flags_check (x : Z) : bool :=
  implb (negb (cab_multipart x) && negb (cab_unsupported_flags x)) (if cab_has_reserve x then x =? 4 else x =? 0).
Fixpoint all_from (fuel : nat) (x : Z) : bool :=
  match fuel with O => true | S k => flags_check x && all_from k (x + 1) end.
Lemma all_from_spec fuel : forall x0 x, all_from fuel x0 = true -> x0 <= x < x0 + Z.of_nat fuel -> flags_check x = true.
Proof.
  induction fuel as [|k IH]; intros x0 x H Hx; [lia|].
  cbn [all_from] in H. apply andb_true_iff in H as [H1 H2].
  destruct (Z.eq_dec x x0) as [->|Hn]; [exact H1|]. apply (IH (x0 + 1)); [exact H2|lia].
Qed.
Lemma flags_all : all_from (Z.to_nat 65536) 0 = true.
Proof. vm_compute. reflexivity. Qed.
Lemma flags_cases x : 0 <= x < 65536 -> cab_multipart x = false -> cab_unsupported_flags x = false ->
  if cab_has_reserve x then x = 4 else x = 0.
Proof.
  intros Hx H1 H2. pose proof (all_from_spec _ 0 x flags_all) as A.
  assert (I : 0 <= x < 0 + Z.of_nat (Z.to_nat 65536)) by lia.
  specialize (A I). unfold flags_check in A. rewrite H1, H2 in A. cbn [negb andb implb] in A.
  destruct (cab_has_reserve x); lia.
Qed.

Lemma parse_reserve_sound hv s res s1 : all_bytes s = true -> cab_parse_reserve hv s = Ok (res, s1) ->
  s = res_bytes res ++ s1 /\
  cab_has_reserve (fld cabh_ix_Flags hv) = (match res with Some _ => true | None => false end) /\
  match res with
  | None => True
  | Some (rv, sv, pad) => rv = [20 + pad; 0; 0] /\ 0 <= pad < 65516 /\ in_range cabsh_widths sv /\
      (if pad >? 0 then fld cabsh_ix_CabinetSize sv = 0 else fld cabsh_ix_CabinetSize sv = fld cabh_ix_TotalSize hv)
  end.
Proof.
  intros Hb H. unfold cab_parse_reserve in H.
  destruct (cab_has_reserve (fld cabh_ix_Flags hv)) eqn:Eh.
  2:{ inversion H; subst. repeat split. }
  destruct (take_n cabrh_size s) as [[rb s']| |] eqn:E1; cbn [bind fst snd] in H; try discriminate.
  apply take_n_inv in E1 as [L1 E1]. inversion E1; subst rb s'; clear E1.
  pose proof (dec_struct_range cabrh_widths (ztake cabrh_size s) nonneg_cabrh (all_bytes_ztake _ _ Hb)) as Rr.
  pose proof (enc_dec_struct cabrh_widths (ztake cabrh_size s) nonneg_cabrh (all_bytes_ztake _ _ Hb)) as Er.
  rewrite zlen_ztake in Er by (pose proof (zlen_nonneg s); unfold cabrh_size in *; lia). specialize (Er eq_refl).
  remember (dec_struct cabrh_widths (ztake cabrh_size s)) as rv eqn:Erv.
  assert (Lr : length rv = 3%nat) by (rewrite (in_range_length _ _ Rr); reflexivity).
  destruct rv as [|r0 [|r1 [|r2 [|]]]]; try discriminate. clear Lr Erv.
  cbn [fld nth cabrh_ix_HeaderSize cabrh_ix_FolderSize cabrh_ix_DataSize] in H.
  destruct (cab_bad_reserve r0 r1 r2) eqn:Ebr; try discriminate.
  unfold cab_bad_reserve in Ebr.
  inversion Rr as [|? ? ? ? [_ R0] Rr1]; subst. inversion Rr1 as [|? ? ? ? [_ R1] Rr2]; subst. inversion Rr2 as [|? ? ? ? [_ R2] _]; subst.
  assert (r1 = 0 /\ r2 = 0 /\ 20 <= r0 < 65536) as (-> & -> & R0') by lia. clear R1 R2 Ebr Rr Rr1 Rr2.
  assert (Hb' : all_bytes (zdrop cabrh_size s) = true) by now apply all_bytes_zdrop.
  destruct (take_n cabsh_size (zdrop cabrh_size s)) as [[sb s'']| |] eqn:E2; cbn [bind fst snd] in H; try discriminate.
  apply take_n_inv in E2 as [L2 E2]. inversion E2; subst sb s''; clear E2.
  pose proof (dec_struct_range cabsh_widths (ztake cabsh_size (zdrop cabrh_size s)) nonneg_cabsh (all_bytes_ztake _ _ Hb')) as Rs.
  pose proof (enc_dec_struct cabsh_widths (ztake cabsh_size (zdrop cabrh_size s)) nonneg_cabsh (all_bytes_ztake _ _ Hb')) as Es.
  rewrite zlen_ztake in Es by (pose proof (zlen_nonneg (zdrop cabrh_size s)); unfold cabsh_size in *; lia). specialize (Es eq_refl).
  remember (dec_struct cabsh_widths (ztake cabsh_size (zdrop cabrh_size s))) as sv eqn:Esv. clear Esv.
  unfold cab_padding in H.
  assert (S0 : s = enc_struct cabrh_widths [r0; 0; 0] ++ enc_struct cabsh_widths sv ++ zdrop cabsh_size (zdrop cabrh_size s)).
  { rewrite Er, Es, ztake_zdrop, ztake_zdrop. reflexivity. }
  destruct (cab_padding_present (r0 - 20)) eqn:Epp; unfold cab_padding_present in Epp.
  - destruct (cab_padded_with_size (fld cabsh_ix_CabinetSize sv)) eqn:Eps; try discriminate.
    destruct (take_n (r0 - 20) (zdrop cabsh_size (zdrop cabrh_size s))) as [[pb s3]| |] eqn:E3; cbn [bind fst snd] in H; try discriminate.
    apply take_n_inv in E3 as [L3 E3]. inversion E3; subst pb s3; clear E3.
    destruct (existsb cab_pad_nonzero _) eqn:Enz; try discriminate. inversion H; subst res s1; clear H.
    apply existsb_nonzero_repeat in Enz.
    assert (Lp : zlen (ztake (r0 - 20) (zdrop cabsh_size (zdrop cabrh_size s))) = r0 - 20) by (apply zlen_ztake; lia).
    split; [|split; [reflexivity|]].
    + cbn [res_bytes]. rewrite S0 at 1. rewrite <- !app_assoc. do 2 f_equal.
      rewrite <- (ztake_zdrop (r0 - 20) (zdrop cabsh_size (zdrop cabrh_size s))) at 1. f_equal.
      rewrite Enz at 1. f_equal. unfold zlen in Lp. lia.
    + replace (20 + (r0 - 20)) with r0 by lia. repeat split; try lia; [exact Rs|].
      replace (r0 - 20 >? 0) with true by lia. unfold cab_padded_with_size in Eps. lia.
  - destruct (cab_size_mismatch _ _) eqn:Esm; try discriminate. inversion H; subst res s1; clear H.
    assert (r0 = 20) by lia. subst r0.
    split; [|split; [reflexivity|]].
    + cbn [res_bytes]. change (Z.to_nat (20 - 20)) with 0%nat. cbn [repeat]. rewrite app_nil_r. rewrite <- app_assoc. exact S0.
    + repeat split; try lia; [exact Rs|]. change (20 - 20 >? 0) with false. cbv iota. unfold cab_size_mismatch in Esm. lia.
Qed.

Lemma enc_folders_cons fv fs : enc_folders (fv :: fs) = enc_struct cabfh_widths fv ++ enc_folders fs.
Proof. reflexivity. Qed.
Lemma enc_folders_zlen fs : Forall (in_range cabfh_widths) fs -> zlen (enc_folders fs) = cabfh_size * zlen fs.
Proof.
  induction 1 as [|fv fs Hf _ IH]; [reflexivity|].
  rewrite enc_folders_cons, zlen_app, zlen_cons, IH, (enc_struct_zlen _ _ Hf). cbn [wsum fold_right cabfh_widths]. unfold cabfh_size. lia.
Qed.
Lemma enc_folders_bytes fs : all_bytes (enc_folders fs) = true.
Proof. induction fs as [|fv fs IH]; [reflexivity|]. now rewrite enc_folders_cons, all_bytes_app, enc_struct_bytes, IH. Qed.

Lemma read_folders_sound fuel : forall i n s fs r, all_bytes s = true -> read_folders fuel i n s = Ok (fs, r) ->
  s = enc_folders fs ++ r /\ Forall (in_range cabfh_widths) fs /\ (n - i < Z.of_nat fuel -> zlen fs = Z.max 0 (n - i)).
Proof.
  induction fuel as [|fuel IH]; intros i n s fs r Hb H; cbn [read_folders] in H.
  - inversion H; subst. repeat split; [constructor|]. intros. rewrite zlen_nil. lia.
  - unfold cab_more_folders in H. destruct (i <? n) eqn:E.
    + destruct (take_n cabfh_size s) as [[fb s']| |] eqn:E1; cbn [bind fst snd] in H; try discriminate.
      apply take_n_inv in E1 as [L1 E1]. inversion E1; subst fb s'; clear E1.
      remember (dec_struct cabfh_widths (ztake cabfh_size s)) as fv eqn:Efv.
      destruct (read_folders fuel (i + 1) n (zdrop cabfh_size s)) as [[fs' r']| |] eqn:E2; cbn [bind fst snd] in H; try discriminate.
      inversion H; subst fs r; clear H. subst fv.
      destruct (IH _ _ _ _ _ (all_bytes_zdrop _ _ Hb) E2) as (S2 & F2 & Z2).
      split; [|split].
      * rewrite enc_folders_cons, <- app_assoc, <- S2.
        rewrite enc_dec_struct; [symmetry; apply ztake_zdrop|exact nonneg_cabfh|now apply all_bytes_ztake|].
        rewrite zlen_ztake by (pose proof (zlen_nonneg s); unfold cabfh_size in *; lia). reflexivity.
      * constructor; [|exact F2]. apply dec_struct_range; [exact nonneg_cabfh|now apply all_bytes_ztake].
      * intros Hf. rewrite zlen_cons, Z2 by lia. lia.
    + inversion H; subst. repeat split; [constructor|]. intros. rewrite zlen_nil. lia.
Qed.
Lemma read_folders_complete fs : forall fuel i n r, Forall (in_range cabfh_widths) fs -> zlen fs = n - i -> (length fs < fuel)%nat ->
  read_folders fuel i n (enc_folders fs ++ r) = Ok (fs, r).
Proof.
  induction fs as [|fv fs IH]; intros fuel i n r F L Hf; (destruct fuel as [|fuel]; [lia|]); cbn [read_folders]; unfold cab_more_folders.
  - rewrite zlen_nil in L. replace (i <? n) with false by lia. reflexivity.
  - rewrite zlen_cons in L. pose proof (zlen_nonneg fs). replace (i <? n) with true by lia.
    inversion F as [|? ? F1 F2]; subst. rewrite enc_folders_cons, <- app_assoc.
    rewrite take_n_app by (rewrite (enc_struct_zlen _ _ F1); reflexivity). cbn [bind fst snd].
    rewrite IH by (try assumption; cbn [length] in Hf; lia). cbn [bind fst snd].
    now rewrite dec_enc_struct0.
Qed.

Lemma cab_parse_sound f p : all_bytes f = true -> cab_parse f = Ok p -> cabp_ok p /\ f = cab_write p.
Proof.
  intros Hb H. unfold cab_parse in H.
  destruct (take_n cabh_size f) as [[hb s0]| |] eqn:E0; cbn [bind fst snd] in H; try discriminate.
  apply take_n_inv in E0 as [L0 E0]. inversion E0; subst hb s0; clear E0.
  pose proof (dec_struct_range cabh_widths (ztake cabh_size f) nonneg_cabh (all_bytes_ztake _ _ Hb)) as Rh.
  pose proof (enc_dec_struct cabh_widths (ztake cabh_size f) nonneg_cabh (all_bytes_ztake _ _ Hb)) as Eh.
  rewrite zlen_ztake in Eh by (pose proof (zlen_nonneg f); unfold cabh_size in *; lia). specialize (Eh eq_refl).
  remember (dec_struct cabh_widths (ztake cabh_size f)) as hv eqn:Ehv. clear Ehv.
  destruct (cab_bad_magic (fld cabh_ix_Magic hv)) eqn:Em; try discriminate.
  pose proof (all_bytes_zdrop cabh_size f Hb) as Hb0.
  destruct (cab_parse_reserve hv (zdrop cabh_size f)) as [[res s1]| |] eqn:E1; cbn [bind fst snd] in H; try discriminate.
  destruct (parse_reserve_sound _ _ _ _ Hb0 E1) as (S1 & Fr & Pr).
  destruct (cab_multipart _) eqn:Emu; try discriminate.
  destruct (cab_unsupported_flags _) eqn:Efl; try discriminate.
  destruct (cab_bad_layout _ _ _) eqn:Ely; try discriminate.
  assert (Hb1 : all_bytes s1 = true).
  { rewrite S1, all_bytes_app in Hb0. apply andb_true_iff in Hb0. exact (proj2 Hb0). }
  destruct (read_folders folder_fuel 0 (fld cabh_ix_NumFolders hv) s1) as [[fs s2]| |] eqn:E2; cbn [bind fst snd] in H; try discriminate.
  destruct (read_folders_sound _ _ _ _ _ _ Hb1 E2) as (S2 & F2 & Z2).
  assert (Hb2 : all_bytes s2 = true).
  { rewrite S2, all_bytes_app in Hb1. apply andb_true_iff in Hb1. exact (proj2 Hb1). }
  destruct (take_n _ s2) as [[data s3]| |] eqn:E3; cbn [bind fst snd] in H; try discriminate.
  apply take_n_inv in E3 as [L3 E3]. inversion E3; subst data s3; clear E3.
  unfold cab_data_len in *.
  set (D := fc_wrap32 (fld cabh_ix_TotalSize hv - fld cabh_ix_OffsetFiles hv)) in *.
  pose proof (wrap32_range (fld cabh_ix_TotalSize hv - fld cabh_ix_OffsetFiles hv)) as RD. fold D in RD.
  assert (Rflags : 0 <= fld cabh_ix_Flags hv < 65536 /\ 0 <= fld cabh_ix_NumFolders hv < 65536).
  { assert (Lh : length hv = 12%nat) by (rewrite (in_range_length _ _ Rh); reflexivity).
    do 13 (destruct hv as [|? hv]; try discriminate). clear Lh.
    repeat match goal with R : in_range _ _ |- _ => inversion R; clear R; subst | R : Forall2 _ _ _ |- _ => inversion R; clear R; subst end.
    cbn [fld nth cabh_ix_Flags cabh_ix_NumFolders]. lia. }
  pose proof (flags_cases _ (proj1 Rflags) Emu Efl) as Fc. rewrite Fr in Fc.
  assert (Sg : exists sig, p = mkCabp hv res fs (ztake D s2) sig /\ zdrop D s2 = sig /\
               (if res_has_sig res then zlen sig = fld cabsh_ix_SignatureSize (res_sv res) else sig = [])).
  { destruct (res_has_sig res) eqn:Es.
    - destruct (take_n (fld cabsh_ix_SignatureSize (res_sv res)) (zdrop D s2)) as [[sig s4]| |] eqn:E4; cbn [bind fst snd] in H; try discriminate.
      destruct s4 as [|? ?]; try discriminate. inversion H; subst p; clear H. exists sig. split; [reflexivity|].
      apply take_n_inv in E4 as [L4 E4]. inversion E4 as [[Ea Eb]].
      assert (Hsv : 0 <= fld cabsh_ix_SignatureSize (res_sv res)).
      { destruct res as [[[rv sv] pad]|]; [|discriminate]. destruct Pr as (_ & _ & Rs & _). cbn [res_sv].
        assert (Ls : length sv = 5%nat) by (rewrite (in_range_length _ _ Rs); reflexivity).
        do 6 (destruct sv as [|? sv]; try discriminate).
        repeat match goal with R : in_range _ _ |- _ => inversion R; clear R; subst | R : Forall2 _ _ _ |- _ => inversion R; clear R; subst end.
        cbn [fld nth cabsh_ix_SignatureSize]. lia. }
      split.
      + rewrite <- (ztake_zdrop (fld cabsh_ix_SignatureSize (res_sv res)) (zdrop D s2)) at 1. rewrite <- Eb, app_nil_r. reflexivity.
      + apply zlen_ztake. lia.
    - cbn [bind fst snd] in H. destruct (zdrop D s2) as [|? ?] eqn:E4; try discriminate.
      inversion H; subst p; clear H. exists []. repeat split. }
  destruct Sg as (sig & -> & Sg1 & Sg2).
  split.
  - constructor; cbn [c_hv c_res c_folders c_data c_sig].
    + exact Rh.
    + unfold cab_bad_magic in Em. unfold cab_Magic. lia.
    + destruct res as [[[rv sv] pad]|]; cbn [res_ok]; [|exact Fc]. destruct Pr as (P1 & P2 & P3 & P4). repeat split; try assumption; lia.
    + exact F2.
    + rewrite Z2 by (unfold folder_fuel; lia). lia.
    + apply zlen_ztake. lia.
    + unfold cab_has_sig. cbn [c_res c_sig]. exact Sg2.
    + unfold cab_bad_layout, cab_hdr_end, cab_hdr_end_has_reserve, cab_hdr_end_reserve in Ely. unfold cab_has_reserve in Fr.
      unfold cab_P, cabh_size, cabrh_size, cabsh_size, cabfh_size in *. cbn [c_res c_folders fst] in *.
      rewrite Z2 by (unfold folder_fuel; lia).
      destruct res as [[[rv sv] pad]|].
      * destruct Pr as (-> & _). rewrite Fr in Ely. cbn [fld nth cabrh_ix_HeaderSize] in Ely. lia.
      * rewrite Fr in Ely. lia.
  - unfold cab_write. cbn [c_hv c_res c_folders c_data c_sig].
    rewrite <- (ztake_zdrop cabh_size f) at 1. rewrite Eh. f_equal.
    rewrite S1 at 1. f_equal. rewrite S2 at 1. f_equal.
    rewrite <- (ztake_zdrop D s2) at 1. f_equal. exact Sg1.
Qed.
