(* FmtCAB/Model.v — executable byte-level models of relic's Microsoft Cabinet signer (lib/cabfile Digest / Parse /
   MakePatch, lib/authenticode VerifyCab, signers/cab) and of the Silverlight XAP trailer signer (lib/zipslicer
   FindDirectory / ZipToTar, lib/signxap DigestXapTar / removeSignature / Sign / Verify, signers/xap), plus INDEPENDENT
   specification functions (a cabinet reader by absolute offsets per [MS-CAB], the Authenticode digest input for
   cabinets, the XAP trailer split).  Definitions only.  Every constant, struct layout, branch condition and field table of
   the Go code comes from Generated/FmtCAB_gen.v (srcgen); the specification side uses literal numbers from the formats'
   documents and none of the generated definitions.  The patch application is lib/binpatch's model C12.Model. *)
From Relic Require Import Base.Prelude Base.Enc Generated.FmtCAB_gen.
From Relic Require C12.Model.

(* ------------------------------------------------------------------ error classes (informational) *)
Definition E_SHORT := 1.      (* EOF / unexpected EOF while reading a fixed-size piece *)
Definition E_MAGIC := 2.      (* "not a cab file" *)
Definition E_RESERVE := 3.    (* "unknown reserved data" *)
Definition E_PADSIG := 4.     (* reserve larger than 20 bytes together with a filled-in signature header *)
Definition E_PADNZ := 5.      (* "invalid padding in signature reserve header" *)
Definition E_SIZE := 6.       (* cabinet size differs from the signature header's *)
Definition E_MULTI := 7.      (* multipart cabinets *)
Definition E_FLAGS := 8.      (* unsupported flags *)
Definition E_TRAILING := 9.   (* "trailing garbage after cabinet" *)
Definition E_LAYOUT := 10.    (* "unsupported layout of cabinet header": folder table does not end at coffFiles, or coffFiles > cbCabinet *)
Definition E_NODIR := 11.     (* "zip central directory not found" *)
Definition E_LOC := 12.       (* "expected ZIP64 locator" *)
Definition E_END64 := 13.
Definition E_OFFSET := 14.    (* negative offset given to ReadAt / Seek *)
Definition E_TAR := 15.       (* negative size in the tar header *)
Definition E_XAP := 16.       (* "invalid xap file" *)
Definition E_TRAILER := 17.   (* "invalid zip trailer size" *)

(* ------------------------------------------------------------------ fixed-layout structs (encoding/binary, little endian) *)
Fixpoint enc_struct (ws vs : list Z) : bytes :=
  match ws, vs with
  | w :: ws', v :: vs' => le_enc (Z.to_nat w) v ++ enc_struct ws' vs'
  | _, _ => []
  end.
Fixpoint dec_struct (ws : list Z) (c : bytes) : list Z :=
  match ws with
  | [] => []
  | w :: ws' => le_dec (ztake w c) :: dec_struct ws' (zdrop w c)
  end.
Definition fld (i : nat) (vs : list Z) : Z := nth i vs 0.
Fixpoint set_fld (i : nat) (v : Z) (vs : list Z) : list Z :=
  match i, vs with
  | O, _ :: r => v :: r
  | S k, x :: r => x :: set_fld k v r
  | _, [] => []
  end.
Fixpoint mapi {A B} (f : nat -> A -> B) (i : nat) (l : list A) : list B :=
  match l with [] => [] | x :: r => f i x :: mapi f (S i) r end.

(* sequential reader: the next n bytes of the stream, or an error when fewer remain *)
Definition take_n (n : Z) (s : bytes) : result (bytes * bytes) :=
  if zlen s <? n then Err E_SHORT else Ok (ztake n s, zdrop n s).

(* ================================================================== CAB: the faithful model *)

(* what cabfile.Digest keeps of a file it accepts *)
Record cabp := mkCabp {
  c_hv : list Z;                               (* Header, field values in struct order *)
  c_res : option (list Z * list Z * Z);        (* ReserveHeader values, the 20 bytes after it as SignatureHeader values, padding length *)
  c_folders : list (list Z);                   (* FolderHeader values *)
  c_data : bytes;                              (* the TotalSize-OffsetFiles bytes read after the folder headers *)
  c_sig : bytes }.                             (* cab.Signature *)

Definition cab_parse_reserve (hv : list Z) (s : bytes) : result (option (list Z * list Z * Z) * bytes) :=
  if cab_has_reserve (fld cabh_ix_Flags hv) then
    p1 <- take_n cabrh_size s ;;
    let rv := dec_struct cabrh_widths (fst p1) in
    if cab_bad_reserve (fld cabrh_ix_HeaderSize rv) (fld cabrh_ix_FolderSize rv) (fld cabrh_ix_DataSize rv) then Err E_RESERVE else
    p2 <- take_n cabsh_size (snd p1) ;;
    let sv := dec_struct cabsh_widths (fst p2) in
    let padding := cab_padding (fld cabrh_ix_HeaderSize rv) in
    if cab_padding_present padding then
      if cab_padded_with_size (fld cabsh_ix_CabinetSize sv) then Err E_PADSIG else
      p3 <- take_n padding (snd p2) ;;
      if existsb cab_pad_nonzero (fst p3) then Err E_PADNZ else Ok (Some (rv, sv, padding), snd p3)
    else if cab_size_mismatch (fld cabh_ix_TotalSize hv) (fld cabsh_ix_CabinetSize sv) then Err E_SIZE
    else Ok (Some (rv, sv, padding), snd p2)
  else Ok (None, s).

(* the folder loop `for i := 0; i < int(NumFolders); i++` *)
Definition folder_fuel : nat := Z.to_nat 65537.
Fixpoint read_folders (fuel : nat) (i n : Z) (s : bytes) : result (list (list Z) * bytes) :=
  match fuel with
  | O => Ok ([], s)
  | S fuel' =>
      if cab_more_folders i n then
        p <- take_n cabfh_size s ;;
        r <- read_folders fuel' (i + 1) n (snd p) ;;
        Ok (dec_struct cabfh_widths (fst p) :: fst r, snd r)
      else Ok ([], s)
  end.

Definition res_has_sig (res : option (list Z * list Z * Z)) : bool :=
  match res with Some (_, _, pad) => negb (cab_padding_present pad) | None => false end.
Definition res_sv (res : option (list Z * list Z * Z)) : list Z :=
  match res with Some (_, sv, _) => sv | None => [] end.

Definition cab_parse (f : bytes) : result cabp :=
  p0 <- take_n cabh_size f ;;
  let hv := dec_struct cabh_widths (fst p0) in
  if cab_bad_magic (fld cabh_ix_Magic hv) then Err E_MAGIC else
  p1 <- cab_parse_reserve hv (snd p0) ;;
  let flags := fld cabh_ix_Flags hv in
  if cab_multipart flags then Err E_MULTI else
  if cab_unsupported_flags flags then Err E_FLAGS else
  (* relic commit 6b49488: the header is patched by offset, the rest digested in sequence; both agree only for this layout *)
  let he0 := cab_hdr_end (fld cabh_ix_NumFolders hv) in
  let he := if cab_hdr_end_has_reserve flags
            then cab_hdr_end_reserve he0 (match fst p1 with Some (rv, _, _) => fld cabrh_ix_HeaderSize rv | None => 0 end) else he0 in
  if cab_bad_layout (fld cabh_ix_OffsetFiles hv) he (fld cabh_ix_TotalSize hv) then Err E_LAYOUT else
  p2 <- read_folders folder_fuel 0 (fld cabh_ix_NumFolders hv) (snd p1) ;;
  p3 <- take_n (fc_wrap32 (cab_data_len (fld cabh_ix_TotalSize hv) (fld cabh_ix_OffsetFiles hv))) (snd p2) ;;
  p4 <- (if res_has_sig (fst p1) then take_n (fld cabsh_ix_SignatureSize (res_sv (fst p1))) (snd p3) else Ok ([], snd p3)) ;;
  match snd p4 with
  | [] => Ok (mkCabp hv (fst p1) (fst p2) (fst p3) (fst p4))
  | _ :: _ => Err E_TRAILING
  end.

Definition cab_has_sig (p : cabp) : bool := res_has_sig (c_res p).
Definition cab_add_offset (p : cabp) : Z :=
  match c_res p with
  | Some (_, _, pad) => if cab_padding_present pad then cab_offset_remove_padding 0 pad else 0
  | None => cab_offset_add_reserve 0
  end.

(* outHeader := cab.Header; add32 TotalSize, OffsetFiles; Flags |= FlagReservePresent *)
Definition cab_out_hv (p : cabp) : list Z :=
  let d := cab_add_offset p in
  let hv := if cab_out_header_is_copy then c_hv p else [] in
  set_fld cabh_ix_Flags (cab_out_flags (fld cabh_ix_Flags hv))
    (set_fld cabh_ix_OffsetFiles (cab_add32 (fld cabh_ix_OffsetFiles hv) d)
      (set_fld cabh_ix_TotalSize (cab_add32 (fld cabh_ix_TotalSize hv) d) hv)).

(* a field of a keyed composite literal: 999 = absent (zero), 997 = a constant extracted separately, i = outHeader field i *)
Definition lit_field (out_hv : list Z) (i : nat) (code : Z) : Z :=
  if code =? 999 then 0
  else if code =? 997 then (if Nat.eqb i cabsh_ix_Unknown1 then cab_out_sig_unknown1 else 0)
  else fld (Z.to_nat code) out_hv.
(* outSigHeader: the literal, then the three fields preserved from an existing signature header *)
Definition cab_out_sv (p : cabp) : list Z :=
  let base := mapi (lit_field (cab_out_hv p)) 0 cab_out_sig_src_raw in
  if cab_has_sig p
  then fold_left (fun acc pr => set_fld (fst pr) (fld (snd pr) (res_sv (c_res p))) acc) cab_sig_preserved base
  else base.
Definition cab_out_rv : list Z :=
  set_fld cabrh_ix_HeaderSize cab_out_reserve_header_size (map (fun _ => 0) cabrh_widths).

(* the digested pieces of the header (sigBlob literal): i = outHeader field i, 100+i = outSigHeader field i *)
Definition sigblob_field (out_hv out_sv : list Z) (code : Z) : Z :=
  if code <? 100 then fld (Z.to_nat code) out_hv
  else if code <? 900 then fld (Z.to_nat (code - 100)) out_sv
  else 0.
Definition cab_sigblob (p : cabp) : bytes :=
  enc_struct cabsb_widths (map (sigblob_field (cab_out_hv p) (cab_out_sv p)) cab_sigblob_src).
Definition cab_out_folders (p : cabp) : list (list Z) :=
  map (fun fv => set_fld cabfh_ix_Offset (cab_add32 (fld cabfh_ix_Offset fv) (cab_add_offset p)) fv) (c_folders p).
Definition enc_folders (l : list (list Z)) : bytes := concat (map (enc_struct cabfh_widths) l).

(* the byte string fed to the hash *)
Definition cab_pre (p : cabp) : bytes := cab_sigblob p ++ enc_folders (cab_out_folders p) ++ c_data p.
(* CabinetDigest.Patched *)
Definition cab_patched (p : cabp) : bytes :=
  enc_struct cabh_widths (cab_out_hv p) ++ enc_struct cabrh_widths cab_out_rv ++ enc_struct cabsh_widths (cab_out_sv p)
  ++ enc_folders (cab_out_folders p).

(* MakePatch *)
Definition cab_pad8 (b : bytes) : bytes := b ++ repeat 0 (Z.to_nat (cab_padded_len (zlen b) - zlen b)).
Definition cab_new_header (p : cabp) (b : bytes) : bytes :=
  let h := cab_patched p in
  ztake cab_sigsize_patch_offset h ++ le_enc 4 (cab_sigsize_patch_value (zlen (cab_pad8 b))) ++ zdrop (cab_sigsize_patch_offset + 4) h.
Definition cab_old_sig_size (p : cabp) : Z :=
  cab_sig_size (negb (cab_has_sig p)) (fld cabsh_ix_SignatureSize (res_sv (c_res p))).
Definition cab_patchset (p : cabp) (b : bytes) : list C12.Model.patch :=
  C12.Model.add
    (C12.Model.add [] cab_patch1_off (cab_patch1_old (fld cabh_ix_OffsetFiles (c_hv p))) (cab_new_header p b))
    (cab_patch2_off (fld cabh_ix_TotalSize (c_hv p))) (cab_patch2_old (cab_old_sig_size p)) (cab_pad8 b).

(* ---- the three functions of the format *)
(* the patch set travels through PatchSet.Dump (which sorts it by offset) and binpatch.Load before it is applied *)
Definition cab_hashin (f : bytes) : result bytes := p <- cab_parse f ;; Ok (cab_pre p).
(* signed file = relic's patch set applied to the file; `same` = output path is the input path (Apply may patch in place) *)
Definition cab_embed_at (same : bool) (f b : bytes) : result bytes :=
  p <- cab_parse f ;; C12.Model.apply same true same false (C12.Model.isort (cab_patchset p b)) f.
Definition cab_embed (f b : bytes) : result bytes := p <- cab_parse f ;; C12.Model.rewrite (C12.Model.isort (cab_patchset p b)) f.
Definition cab_extract (f : bytes) : result (option bytes) :=
  p <- cab_parse f ;; Ok (if cab_not_signed (zlen (c_sig p)) then None else Some (c_sig p)).

(* ---- explicit, decidable domain on which the laws hold *)
Definition cab_P (p : cabp) : Z :=            (* position of the reader after the folder headers *)
  cabh_size + match c_res p with Some (_, _, pad) => cabrh_size + cabsh_size + pad | None => 0 end + cabfh_size * zlen (c_folders p).
(* 32-bit headroom: cbCabinet and every folder offset still fit after the header has grown to the signed layout.  (That the
   folder table ends at coffFiles and coffFiles <= cbCabinet is guaranteed by cabfile.Digest itself since relic commit 6b49488:
   theorem cab_accepted_layout.) *)
Definition cabp_wf (p : cabp) : bool :=
  let T := fld cabh_ix_TotalSize (c_hv p) in
  let d := cab_add_offset p in
  (T + d <? 2 ^ 32)
  && forallb (fun fv => (0 <=? fld cabfh_ix_Offset fv + d) && (fld cabfh_ix_Offset fv + d <? 2 ^ 32)) (c_folders p).
Definition cab_wf (f : bytes) : bool :=
  all_bytes f && match cab_parse f with Ok p => cabp_wf p | _ => false end.
Definition blob_wf (b : bytes) : bool := all_bytes b && (0 <? zlen b) && (zlen b + 8 <? 2 ^ 32).
Definition blob_aligned (b : bytes) : bool := zlen b mod 8 =? 0.

(* ================================================================== CAB: the specification side (no generated definitions) *)
Definition u8at (o : Z) (f : bytes) : Z := le_dec (zslice o (o + 1) f).
Definition u16at (o : Z) (f : bytes) : Z := le_dec (zslice o (o + 2) f).
Definition u32at (o : Z) (f : bytes) : Z := le_dec (zslice o (o + 4) f).
Definition le16 (v : Z) : bytes := le_enc 2 v.
Definition le32 (v : Z) : bytes := le_enc 4 v.

(* [MS-CAB] CFHEADER: signature "MSCF" 0, reserved1 4, cbCabinet 8, reserved2 12, coffFiles 16, reserved3 20, version 24,
   cFolders 26, cFiles 28, flags 30, setID 32, iCabinet 34; if flags&4: cbCFHeader 36, cbCFFolder 38, cbCFData 39, abReserve 40;
   CFFOLDER: coffCabStart, cCFData, typeCompress (+ cbCFFolder reserved bytes). *)
Fixpoint spec_folders (k : nat) (pos entry : Z) (f : bytes) : list (Z * Z * Z) :=
  match k with
  | O => []
  | S k' => (u32at pos f, u16at (pos + 4) f, u16at (pos + 6) f) :: spec_folders k' (pos + entry) entry f
  end.
Record cabview := mkView {
  v_scalars : list Z;              (* reserved1 reserved2 reserved3 version cFolders cFiles flags-without-RESERVE setID iCabinet *)
  v_folders : list (Z * Z * Z);    (* coffCabStart relative to coffFiles, cCFData, typeCompress *)
  v_data : bytes }.                (* the bytes from coffFiles to cbCabinet: CFFILE entries and CFDATA blocks *)
Definition cab_spec_view (f : bytes) : result cabview :=
  if zlen f <? 36 then Err 20 else
  if negb (u32at 0 f =? 1178817357) then Err 21 else
  let cb := u32at 8 f in let coff := u32at 16 f in let nf := u16at 26 f in let flags := u16at 30 f in
  if negb (Z.land flags 3 =? 0) then Err 22 else
  let reserve := negb (Z.land flags 4 =? 0) in
  if reserve && (zlen f <? 40) then Err 20 else
  let hdr_end := if reserve then 40 + u16at 36 f else 36 in
  let entry := if reserve then 8 + u8at 38 f else 8 in
  let folders_end := hdr_end + nf * entry in
  if negb ((folders_end <=? coff) && (coff <=? cb) && (cb <=? zlen f)) then Err 23 else
  Ok (mkView [u32at 4 f; u32at 12 f; u32at 20 f; u16at 24 f; nf; u16at 28 f; Z.ldiff flags 4; u16at 32 f; u16at 34 f]
             (map (fun e => let '(c, n, t) := e in (c - coff, n, t)) (spec_folders (Z.to_nat nf) hdr_end entry f))
             (zslice coff cb f)).
Definition cab_payload : bytes -> result cabview := cab_spec_view.

(* the Authenticode layout of a signed cabinet: RESERVE_PRESENT, a 20-byte reserve {unknown1, cbCabinet, cbSignature,
   unknown2, unknown3}, no per-folder / per-datablock reserve; the signature follows the cabinet *)
Definition cab_spec_signed_layout (f : bytes) : bool :=
  (36 + 24 <=? zlen f) && negb (Z.land (u16at 30 f) 4 =? 0) && (u16at 36 f =? 20).
Definition cab_spec_signed (f : bytes) : bool := cab_spec_signed_layout f && negb (u32at 48 f =? 0).
(* the digest input: the header of the SIGNED layout without reserved1 and iCabinet, of the reserve area only its last
   four bytes, the CFFOLDER entries of the signed layout, and everything from coffFiles to cbCabinet *)
Definition cab_spec_hashin (f : bytes) : result bytes :=
  v <- cab_spec_view f ;;
  let sc := v_scalars v in
  let n := zlen (v_folders v) in
  let coff' := 60 + 8 * n in
  let cb' := coff' + zlen (v_data v) in
  let u3 := if cab_spec_signed_layout f then u32at 56 f else 0 in
  Ok (le32 1178817357 ++ le32 cb' ++ le32 (nth 1 sc 0) ++ le32 coff' ++ le32 (nth 2 sc 0) ++ le16 (nth 3 sc 0) ++ le16 n
      ++ le16 (nth 5 sc 0) ++ le16 (Z.lor (nth 6 sc 0) 4) ++ le16 (nth 7 sc 0) ++ le32 u3
      ++ concat (map (fun e => let '(rel, nd, tc) := e in le32 (coff' + rel) ++ le16 nd ++ le16 tc) (v_folders v))
      ++ v_data v).
(* bytes of a signed cabinet the format protects: everything except reserved1 [4,8), iCabinet [34,36) and the two unknown
   words of the signature header [40,44) and [52,56) *)
Definition cab_protected (g : bytes) : bytes :=
  ztake 4 g ++ zslice 8 34 g ++ zslice 36 40 g ++ zslice 44 52 g ++ zdrop 56 g.

(* ================================================================== XAP: the faithful model *)
Definition to_i64 (n : Z) : Z := if n >=? 2 ^ 63 then n - 2 ^ 64 else n.

(* signxap.TrailerSize: the number of bytes at the end of the file that the XAP transform treats as an existing signature.
   The four return statements of the Go function are xap_ts_returns, in source order. *)
Definition xap_trailer_size (f : bytes) : Z :=
  let size := zlen f in
  if xap_ts_too_short size then nth 0 (xap_ts_returns 0) 0 else
  let off := xap_ts_trailer_off size in
  (* binary.Read from the section [off, off+len): negative offset, short section *)
  if (off <? 0) || (size - off <? xaptr_size) || (xap_ts_trailer_len <? xaptr_size) then nth 1 (xap_ts_returns 0) 0 else
  let tr := dec_struct xaptr_widths (zslice off (off + xaptr_size) f) in
  let t := fld xaptr_ix_TrailerSize tr in
  if xap_ts_no_trailer (fld xaptr_ix_Magic tr) t size then nth 2 (xap_ts_returns t) 0 else nth 3 (xap_ts_returns t) 0.
(* signers/xap xapTransformer.GetReader: trailer := signxap.TrailerSize(f, size) is handed to ZipToTarTrailer *)
Definition xap_tf_trailer (f : bytes) : Z :=
  if xap_tf_trailer_from_trailer_size && xap_tf_passes_trailer && xap_tf_same_file then xap_trailer_size f else zip_tar_plain_trailer.

(* zipslicer.FindDirectory(r, size): the 42-byte window (zip64 locator + end record) that ends at `size`; the reads are
   positioned reads on the whole file f, which may be longer than size (a signature trailer follows the zip) *)
Definition zip_window (f : bytes) (size : Z) : result bytes :=
  let pos := zip_find_pos size in
  let wlen := zip_directory64LocLen + zip_directoryEndLen in
  if zip_find_short pos size then
    (* archive shorter than the window: buf = endb[-pos:], read from offset 0; the front of the window stays zero *)
    let skip := zip_find_short_skip pos in
    let p := zip_find_short_pos in
    if zlen f - p <? wlen - skip then Err E_SHORT
    else Ok (repeat 0 (Z.to_nat skip) ++ zslice p (p + (wlen - skip)) f)
  else if pos <? 0 then Err E_OFFSET
  else if zlen f - pos <? wlen then Err E_SHORT
  else Ok (zslice pos (pos + wlen) f).
Definition zip_find_dir (f : bytes) (size : Z) : result Z :=
  w <- zip_window f size ;;
  let loc := dec_struct ziploc_widths (ztake ziploc_size w) in
  let en := dec_struct zipend_widths (zdrop ziploc_size w) in
  if zip_no_end_record (fld zipend_ix_Signature en) then Err E_NODIR else
  if zip_needs_zip64 (fld zipend_ix_TotalCDCount en) (fld zipend_ix_CDSize en) (fld zipend_ix_CDOffset en) then
    if zip_no_locator (fld ziploc_ix_Signature loc) then Err E_LOC else
    let off := to_i64 (fld ziploc_ix_Offset loc) in
    if (off <? 0) || (zlen f <? off + zip_directory64EndLen) then Err E_OFFSET else
    let e64 := dec_struct zipend64_widths (zslice off (off + zip_directory64EndLen) f) in
    if zip_no_end64 (fld zipend64_ix_Signature e64) then Err E_END64 else Ok (to_i64 (fld zipend64_ix_CDOffset e64))
  else Ok (fld zipend_ix_CDOffset en).
(* what the XAP transform looks for: the end record in the first size - trailer bytes *)
Definition xap_find_dir (f : bytes) : result Z :=
  zip_find_dir f (zip_tar_find_size (zlen f) (xap_tf_trailer f)).
(* zipslicer.ZipToTarTrailer: member 1 = the bytes from the directory offset to the end of the FILE (the trailer stays part
   of it), member 2 = the whole file; the tar transport is the identity on the two members *)
Definition xap_tar (f : bytes) : result (bytes * Z) :=
  let size := zlen f in
  if zip_tar_bad_trailer (xap_tf_trailer f) size then Err E_TRAILER else
  d <- xap_find_dir f ;;
  if zip_tar_cd_from d <? 0 then Err E_OFFSET else
  if zip_tar_cd_size size d <? 0 then Err E_TAR else
  if (zip_tar_cd_len size d <? zip_tar_cd_size size d) || (zip_tar_zip_len size <? zip_tar_zip_size size d)
     || (size <? zip_tar_zip_from + zip_tar_zip_size size d) || negb (zip_tar_zip_from =? 0) then Err E_SHORT else
  Ok (zslice (zip_tar_cd_from d) (zip_tar_cd_from d + zip_tar_cd_size size d) f, zip_tar_zip_size size d).
(* signxap.removeSignature: a blob shorter than a trailer is returned as it is (guard of relic commit f898997); otherwise
   slices cd[size-10:size] (Panic 1 models the slice with a negative bound, unreachable while the guard stands), strips a
   trailer it recognises by magic and whose size field fits the blob (Panic 2: negative new length, likewise unreachable) *)
Definition xap_remove_signature (cd : bytes) : result bytes :=
  let size := zlen cd in
  if xap_rm_too_short size then Ok cd else
  let st := xap_rm_trailer_start size in
  if st <? 0 then Panic 1 else
  let tr := dec_struct xaptr_widths (zslice st size cd) in
  if xap_rm_has_trailer (fld xaptr_ix_Magic tr) (fld xaptr_ix_TrailerSize tr) size then
    let size' := xap_rm_new_size size (fld xaptr_ix_TrailerSize tr) in
    if size' <? 0 then Panic 2 else Ok (ztake size' cd)
  else Ok cd.
Record xapd := mkXapd { x_pre : bytes; x_start : Z; x_len : Z }.
Definition xap_digest (f : bytes) : result xapd :=
  t <- xap_tar f ;;
  let cd := fst t in let total := snd t in
  let body := xap_body_size total (zlen cd) in
  cd' <- xap_remove_signature cd ;;
  let zs := xap_zip_size body (zlen cd') in
  Ok (mkXapd (ztake body f ++ cd') (xap_patch_start zs) (xap_patch_len total zs)).
(* XapDigest.Sign: header, blob, trailer in the order of the writes *)
Fixpoint assemble (order : list Z) (structs : list bytes) (raw : bytes) : bytes :=
  match order with
  | [] => []
  | o :: r =>
      if o =? 0 then match structs with s :: ss => s ++ assemble r ss raw | [] => assemble r [] raw end
      else raw ++ assemble r structs raw
  end.
Definition xap_hdr_vals (n : Z) : list Z :=
  set_fld xaphd_ix_Unknown1 xap_hdr_unknown1 (set_fld xaphd_ix_Unknown2 xap_hdr_unknown2
    (set_fld xaphd_ix_SignatureSize (xap_hdr_sigsize n) (map (fun _ => 0) xaphd_widths))).
Definition xap_tr_vals (n : Z) : list Z :=
  set_fld xaptr_ix_Magic xap_tr_magic (set_fld xaptr_ix_Unknown1 xap_tr_unknown1
    (set_fld xaptr_ix_TrailerSize (xap_tr_size n) (map (fun _ => 0) xaptr_widths))).
Definition xap_sigblock (b : bytes) : bytes :=
  assemble xap_write_order [enc_struct xaphd_widths (xap_hdr_vals (zlen b)); enc_struct xaptr_widths (xap_tr_vals (zlen b))] b.
Definition xap_patchset (d : xapd) (b : bytes) : list C12.Model.patch :=
  C12.Model.add [] (xap_patch_off (x_start d)) (xap_patch_old (x_len d)) (xap_sigblock b).
Definition xap_embed (f b : bytes) : result bytes := d <- xap_digest f ;; C12.Model.rewrite (C12.Model.isort (xap_patchset d b)) f.
Definition xap_embed_at (same : bool) (f b : bytes) : result bytes :=
  d <- xap_digest f ;; C12.Model.apply same true same false (C12.Model.isort (xap_patchset d b)) f.

(* signxap.Verify up to the extraction of the blob: Some (size of the signed prefix, blob) / None = NotSignedError *)
Definition xap_vparse (g : bytes) : result (option (Z * bytes)) :=
  let size := zlen g in
  let toff := xap_v_trailer_off size in
  if toff <? 0 then Err E_OFFSET else
  let tr := dec_struct xaptr_widths (zslice toff (toff + xap_v_trailer_len) g) in
  if xap_v_no_trailer (fld xaptr_ix_Magic tr) then
    let zoff := xap_v_zipmagic_off size in
    if zoff <? 0 then Err E_OFFSET else
    if xap_v_is_zip (le_dec (zslice zoff (zoff + xap_v_zipmagic_len) g)) then Ok None else Err E_XAP
  else
    let body := xap_v_body_size size (fld xaptr_ix_TrailerSize tr) in
    if body <? 0 then Err E_OFFSET else
    let hd := dec_struct xaphd_widths (zslice body (body + xap_v_hdr_len) g) in
    if xap_v_size_mismatch (fld xaphd_ix_SignatureSize hd) (fld xaptr_ix_TrailerSize tr) then Err E_XAP else
    let boff := xap_v_blob_off body in
    let n := fld xaphd_ix_SignatureSize hd in
    if size - boff <? n then Err E_SHORT else Ok (Some (body, zslice boff (boff + n) g)).

Definition xap_extract (g : bytes) : result (option bytes) := r <- xap_vparse g ;; Ok (option_map snd r).
(* the digest input of the SIGNER (DigestXapTar behind the XAP transform): an existing trailer is stripped *)
Definition xap_hashin (f : bytes) : result bytes := d <- xap_digest f ;; Ok (x_pre d).
(* the digest input of the VERIFIER: the bytes in front of the signature block; defined only for files that carry one *)
Definition E_NOTSIGNED := 18.
Definition xap_vhashin (g : bytes) : result bytes :=
  r <- xap_vparse g ;;
  match r with
  | Some (body, _) => Ok (zslice xap_v_digest_from (xap_v_digest_from + xap_v_digest_len body) g)
  | None => Err E_NOTSIGNED
  end.
Definition xap_blob_wf (b : bytes) : bool := all_bytes b && (zlen b + 8 <? 2 ^ 32).

(* ================================================================== XAP: the specification side *)
(* a XAP is a zip; a signed XAP is the zip followed by {u16 1, u16 1, u32 n} blob[n] {"XapS", u16 1, u32 n+8} *)
Definition xap_spec_split (f : bytes) : result (bytes * option bytes) :=
  let n := zlen f in
  if (n <? 10) || negb (bytes_eqb (zslice (n - 10) (n - 6) f) [88; 97; 112; 83]) then Ok (f, None) else
  let tsz := le_dec (zdrop (n - 4) f) in
  let start := n - 10 - tsz in
  if (tsz <? 8) || (start <? 0) then Err 30 else
  let ssz := le_dec (zslice (start + 4) (start + 8) f) in
  if negb (ssz =? tsz - 8) then Err 31 else Ok (ztake start f, Some (zslice (start + 8) (start + 8 + ssz) f)).
Definition xap_payload (f : bytes) : result bytes := r <- xap_spec_split f ;; Ok (fst r).
Definition xap_spec_hashin (f : bytes) : result bytes := r <- xap_spec_split f ;; Ok (fst r).
Definition xap_spec_signed (f : bytes) : bool :=
  match xap_spec_split f with Ok (_, Some _) => true | _ => false end.
(* protected bytes of a signed XAP: everything except the two unknown words of the header and the unknown word of the
   trailer (6 bytes) *)
Definition xap_protected (g : bytes) : bytes :=
  let n := zlen g in
  let start := n - 10 - le_dec (zdrop (n - 4) g) in
  if start <? 0 then g else ztake start g ++ zslice (start + 4) (n - 6) g ++ zdrop (n - 4) g.

(* ================================================================== XAP: the explicit, decidable domain of the laws *)
(* when the end record read in the window that ends at `size` asks for ZIP64, the ZIP64 end-of-directory record lies inside
   the first `size` bytes (the zip part, not a signature trailer) *)
Definition zip64_inside_at (f : bytes) (size : Z) : bool :=
  match zip_window f size with
  | Ok w =>
      let loc := dec_struct ziploc_widths (ztake ziploc_size w) in
      let en := dec_struct zipend_widths (zdrop ziploc_size w) in
      if zip_needs_zip64 (fld zipend_ix_TotalCDCount en) (fld zipend_ix_CDSize en) (fld zipend_ix_CDOffset en)
      then to_i64 (fld ziploc_ix_Offset loc) + zip_directory64EndLen <=? size else true
  | _ => true
  end.
Definition xap_zip64_inside (f : bytes) : bool := zip64_inside_at f (zip_tar_find_size (zlen f) (xap_tf_trailer f)).
(* the central directory offset the end record gives lies inside the zip part (not in or behind an existing signature) *)
Definition xap_dir_inside (f : bytes) : bool :=
  match xap_find_dir f with Ok d => d <=? zip_tar_find_size (zlen f) (xap_tf_trailer f) | _ => false end.
(* unsigned zips AND already signed XAP files: bytes, accepted by the signer's digest code, directory (and ZIP64 record)
   inside the zip part, the specification's trailer split is defined (a trailer, if any, is consistent) *)
Definition xap_wf (f : bytes) : bool :=
  all_bytes f && is_ok (xap_digest f) && xap_zip64_inside f && xap_dir_inside f && is_ok (xap_spec_split f).

(* ================================================================== guarded embedding: what Laws/Pipeline.v is instantiated with *)
Definition E_DOMAIN := 40.    (* outside the stated well-formedness domain (never returned by relic) *)
Definition cab_embed_wf (f b : bytes) : result bytes :=
  if cab_wf f && blob_wf b && blob_aligned b then cab_embed f b else Err E_DOMAIN.
Definition xap_embed_wf (f b : bytes) : result bytes :=
  if xap_wf f && xap_blob_wf b then xap_embed f b else Err E_DOMAIN.
