(* FmtCAB/Run.v — evaluation of the CAB / XAP models and specification functions on harness cases. *)
From Relic Require Import Base.Prelude Base.Enc Base.Val Generated.FmtCAB_gen FmtCAB.Model.
From Relic Require C12.Model.

Definition st {A} (r : result A) : Z := match r with Ok _ => 0 | Err e => 100 + e | Panic e => 900 + e end.
Definition okb (r : result bytes) : bytes := match r with Ok b => b | _ => [] end.
Definition ext_st (r : result (option bytes)) : Z :=
  match r with Ok (Some _) => 0 | Ok None => 1 | Err e => 100 + e | Panic e => 900 + e end.
Definition ext_b (r : result (option bytes)) : bytes := match r with Ok (Some b) => b | _ => [] end.
Definition vpatches (l : list C12.Model.patch) : val :=
  VL (map (fun p => VZs [C12.Model.p_off p; C12.Model.p_old p; zlen (C12.Model.p_blob p)]) l).
Definition vview (r : result cabview) : val :=
  match r with
  | Ok v => VL [VZ 0; VZs (v_scalars v); VL (map (fun e => let '(a, b, c) := e in VZs [a; b; c]) (v_folders v)); VB (v_data v)]
  | Err e => VL [VZ (100 + e)]
  | Panic e => VL [VZ (900 + e)]
  end.

(* [0 f] -> [dg_st pre patched ext_st sig wf spec_st spec_pre payload spec_signed protected] *)
Definition run_cab_file (f : bytes) : val :=
  let p := cab_parse f in
  let h := cab_hashin f in
  let e := cab_extract f in
  let s := cab_spec_hashin f in
  VL [VZ (st h); VB (okb h); VB (match p with Ok q => cab_patched q | _ => [] end); VZ (ext_st e); VB (ext_b e);
      of_bool (cab_wf f); VZ (st s); VB (okb s); vview (cab_payload f); of_bool (cab_spec_signed f); VB (cab_protected f)].
(* [1 f b same] -> [st out patches domain] *)
Definition run_cab_embed (f b : bytes) (same : bool) : val :=
  let r := cab_embed_at same f b in
  VL [VZ (st r); VB (okb r); (match cab_parse f with Ok q => vpatches (cab_patchset q b) | _ => VL [] end);
      of_bool (cab_wf f && blob_wf b); VZ (st (cab_embed f b)); VB (okb (cab_embed f b))].
(* [2 f] -> [dg_st pre start len ext_st sig hashin_st hashin wf spec_st spec_zip spec_signed spec_blob protected] *)
Definition run_xap_file (f : bytes) : val :=
  let d := xap_digest f in
  let e := xap_extract f in
  let h := xap_hashin f in
  let s := xap_spec_split f in
  VL [VZ (st d); VB (match d with Ok x => x_pre x | _ => [] end); VZ (match d with Ok x => x_start x | _ => 0 end);
      VZ (match d with Ok x => x_len x | _ => 0 end); VZ (ext_st e); VB (ext_b e); VZ (st h); VB (okb h); of_bool (xap_wf f);
      VZ (st s); VB (match s with Ok (z, _) => z | _ => [] end); of_bool (xap_spec_signed f);
      VB (match s with Ok (_, Some b) => b | _ => [] end); VB (xap_protected f)].
(* [3 f b same] -> [st out patches domain] *)
Definition run_xap_embed (f b : bytes) (same : bool) : val :=
  let r := xap_embed_at same f b in
  VL [VZ (st r); VB (okb r); (match xap_digest f with Ok d => vpatches (xap_patchset d b) | _ => VL [] end);
      of_bool (xap_wf f && xap_blob_wf b); VZ (st (xap_embed f b)); VB (okb (xap_embed f b))].

Definition run (v : val) : val :=
  let k := vz (vnth 0 v) in
  if k =? 0 then run_cab_file (vb (vnth 1 v))
  else if k =? 1 then run_cab_embed (vb (vnth 1 v)) (vb (vnth 2 v)) (vbool (vnth 3 v))
  else if k =? 2 then run_xap_file (vb (vnth 1 v))
  else if k =? 3 then run_xap_embed (vb (vnth 1 v)) (vb (vnth 2 v)) (vbool (vnth 3 v))
  else VL [].
