(* FmtCAB/ProofsB.v — CAB: parser completeness, the signed file in closed form, and the laws (continues FmtCAB/Proofs.v) *)
From Relic Require Import Base.Prelude Base.Enc Generated.FmtCAB_gen FmtCAB.Model FmtCAB.Lib FmtCAB.Proofs Laws.Pipeline.
From Relic Require C12.Model C12.Proofs.

(* ================================================================== taking range facts apart *)
Lemma in_range_cons_inv w ws vs : in_range (w :: ws) vs -> exists v vs', vs = v :: vs' /\ 0 <= v < 256 ^ w /\ in_range ws vs'.
Proof. intros H. inversion H as [|? v ? vs' [_ Hv] Hr]; subst. exists v, vs'. auto. Qed.
Lemma in_range_nil_inv vs : in_range [] vs -> vs = [].
Proof. intros H. now inversion H. Qed.
Ltac destr_range R :=
  unfold cabh_widths, cabrh_widths, cabsh_widths, cabfh_widths in R;
  repeat match type of R with
  | in_range (_ :: _) _ => let v := fresh "v" in let r := fresh "r" in let E := fresh "E" in let B := fresh "B" in
      apply in_range_cons_inv in R as (v & r & E & B & R); subst
  | in_range [] _ => apply in_range_nil_inv in R; subst
  end.

Lemma in_range_fld ws vs : in_range ws vs -> forall i, (i < length ws)%nat -> 0 <= fld i vs < 256 ^ nth i ws 0.
Proof.
  unfold fld. induction 1 as [|w v ws' vs' [_ Hv] _ IH]; intros [|i] Hi; cbn [length] in Hi; try lia; cbn [nth]; [exact Hv|].
  apply IH. lia.
Qed.

(* ================================================================== reading a field of a struct inside a file *)
Lemma wsum_firstn_nonneg ws : nonneg_ws ws -> forall i, 0 <= wsum (firstn i ws).
Proof. induction 1 as [|w ws Hw _ IH]; intros [|i]; cbn [firstn wsum fold_right]; try lia. fold (wsum (firstn i ws)). specialize (IH i). lia. Qed.
Lemma struct_read ws pre vs rest i : nonneg_ws ws -> in_range ws vs -> (i < length ws)%nat ->
  le_dec (zslice (zlen pre + wsum (firstn i ws)) (zlen pre + wsum (firstn i ws) + nth i ws 0) (pre ++ enc_struct ws vs ++ rest)) = fld i vs.
Proof.
  intros Hn Hr Hi. pose proof (wsum_firstn_nonneg ws Hn i).
  rewrite zslice_app_r by lia.
  replace (zlen pre + wsum (firstn i ws) - zlen pre) with (wsum (firstn i ws)) by lia.
  replace (zlen pre + wsum (firstn i ws) + nth i ws 0 - zlen pre) with (wsum (firstn i ws) + nth i ws 0) by lia.
  rewrite <- (fld_dec ws i _ Hn Hi). now rewrite dec_enc_struct.
Qed.
(* the same with the offsets as numbers *)
Lemma struct_read_at ws pre vs rest i a b : nonneg_ws ws -> in_range ws vs -> (i < length ws)%nat ->
  a = zlen pre + wsum (firstn i ws) -> b = a + nth i ws 0 ->
  le_dec (zslice a b (pre ++ enc_struct ws vs ++ rest)) = fld i vs.
Proof. intros Hn Hr Hi -> ->. now apply struct_read. Qed.

(* ================================================================== parser completeness *)
Lemma zlen_enc_h hv : in_range cabh_widths hv -> zlen (enc_struct cabh_widths hv) = 36.
Proof. intros H. now rewrite (enc_struct_zlen _ _ H). Qed.
Lemma zlen_enc_rh rv : in_range cabrh_widths rv -> zlen (enc_struct cabrh_widths rv) = 4.
Proof. intros H. now rewrite (enc_struct_zlen _ _ H). Qed.
Lemma zlen_enc_sh sv : in_range cabsh_widths sv -> zlen (enc_struct cabsh_widths sv) = 20.
Proof. intros H. now rewrite (enc_struct_zlen _ _ H). Qed.
Lemma zlen_enc_fh fv : in_range cabfh_widths fv -> zlen (enc_struct cabfh_widths fv) = 8.
Proof. intros H. now rewrite (enc_struct_zlen _ _ H). Qed.

Lemma rv_range pad : 0 <= pad < 65516 -> in_range cabrh_widths [20 + pad; 0; 0].
Proof. intros H. unfold in_range, cabrh_widths. repeat (constructor; [lia|]). constructor. Qed.

Lemma parse_reserve_complete hv res rest : res_ok hv res ->
  cab_parse_reserve hv (res_bytes res ++ rest) = Ok (res, rest).
Proof.
  intros H. unfold cab_parse_reserve. destruct res as [[[rv sv] pad]|]; cbn [res_ok] in H.
  - destruct H as (Hf & -> & Hp & Rs & Hc). rewrite Hf. change (cab_has_reserve 4) with true. cbv iota.
    cbn [res_bytes]. rewrite <- !app_assoc.
    rewrite take_n_app by (apply zlen_enc_rh, rv_range; exact Hp). cbn [bind fst snd].
    rewrite dec_enc_struct0 by (apply rv_range; exact Hp).
    cbn [fld nth cabrh_ix_HeaderSize cabrh_ix_FolderSize cabrh_ix_DataSize]. unfold cab_bad_reserve.
    replace ((20 + pad <? 20) || negb (0 =? 0) || negb (0 =? 0)) with false by lia.
    rewrite take_n_app by (apply zlen_enc_sh; exact Rs). cbn [bind fst snd]. rewrite dec_enc_struct0 by exact Rs.
    unfold cab_padding, cab_padding_present. replace (20 + pad - 20) with pad by lia.
    destruct (pad >? 0) eqn:Ep.
    + unfold cab_padded_with_size. rewrite Hc. cbn [Z.eqb negb].
      rewrite take_n_app by (rewrite zlen_repeat; lia). cbn [bind fst snd]. now rewrite existsb_nonzero_repeat0.
    + assert (pad = 0) by lia. subst pad. cbn [Z.to_nat repeat app]. unfold cab_size_mismatch. rewrite Hc, Z.eqb_refl. reflexivity.
  - rewrite H. reflexivity.
Qed.

Lemma hv_fields_range hv : in_range cabh_widths hv ->
  0 <= fld cabh_ix_TotalSize hv < 2 ^ 32 /\ 0 <= fld cabh_ix_OffsetFiles hv < 2 ^ 32 /\
  0 <= fld cabh_ix_NumFolders hv < 65536 /\ 0 <= fld cabh_ix_Flags hv < 65536.
Proof. intros R. destr_range R. cbn [fld nth cabh_ix_TotalSize cabh_ix_OffsetFiles cabh_ix_NumFolders cabh_ix_Flags]. lia. Qed.

Lemma cab_parse_complete p : cabp_ok p -> cab_parse (cab_write p) = Ok p.
Proof.
  intros [Rh Hm Hr Rf Hn Hd Hs [HlP HlT]]. destruct p as [hv res fs data sig]. cbn [c_hv c_res c_folders c_data c_sig] in *.
  destruct (hv_fields_range hv Rh) as (RT & RO & RN & RF).
  unfold cab_parse, cab_write. cbn [c_hv c_res c_folders c_data c_sig].
  rewrite take_n_app by (apply zlen_enc_h; exact Rh). cbn [bind fst snd]. rewrite dec_enc_struct0 by exact Rh.
  unfold cab_bad_magic. rewrite Hm. unfold cab_Magic. cbn [Z.eqb Pos.eqb negb].
  rewrite parse_reserve_complete by exact Hr. cbn [bind fst snd].
  assert (Hfl : fld cabh_ix_Flags hv = 4 \/ fld cabh_ix_Flags hv = 0).
  { destruct res as [[[rv sv] pad]|]; cbn [res_ok] in Hr; [left; tauto|right; exact Hr]. }
  replace (cab_multipart (fld cabh_ix_Flags hv)) with false by (destruct Hfl as [-> | ->]; reflexivity).
  replace (cab_unsupported_flags (fld cabh_ix_Flags hv)) with false by (destruct Hfl as [-> | ->]; reflexivity).
  match goal with |- context [cab_bad_layout ?a ?b ?c] => replace (cab_bad_layout a b c) with false end.
  2:{ symmetry. unfold cab_bad_layout, cab_hdr_end, cab_hdr_end_has_reserve, cab_hdr_end_reserve, cabh_size, cabfh_size.
      unfold cab_P, cabh_size, cabrh_size, cabsh_size, cabfh_size in HlP. cbn [c_res c_folders] in HlP.
      destruct res as [[[rv sv] pad]|]; cbn [res_ok] in Hr.
      - destruct Hr as (Hf4 & -> & _). rewrite Hf4. change (negb (Z.land 4 4 =? 0)) with true. cbv iota. cbn [fld nth cabrh_ix_HeaderSize]. lia.
      - rewrite Hr. change (negb (Z.land 0 4 =? 0)) with false. cbv iota. lia. }
  rewrite read_folders_complete; [|exact Rf|lia|unfold folder_fuel, zlen in *; lia]. cbn [bind fst snd].
  unfold cab_data_len. rewrite take_n_app by exact Hd. cbn [bind fst snd].
  unfold cab_has_sig in Hs. cbn [c_res c_sig] in Hs. destruct (res_has_sig res).
  - rewrite <- (app_nil_r sig) at 1. rewrite take_n_app by exact Hs. reflexivity.
  - subst sig. reflexivity.
Qed.

(* relic's parser accepts exactly the byte strings of the form cab_write p with cabp_ok p *)
Lemma cab_accepts_iff f : all_bytes f = true -> (is_ok (cab_hashin f) = true <-> exists p, cabp_ok p /\ f = cab_write p).
Proof.
  intros Hb. unfold cab_hashin. split.
  - destruct (cab_parse f) as [p| |] eqn:E; cbn [bind is_ok]; try discriminate. intros _. exists p. now apply cab_parse_sound.
  - intros (p & Hp & ->). now rewrite cab_parse_complete.
Qed.

(* ================================================================== padding of the blob *)
Lemma pad8_len b : zlen (cab_pad8 b) = (zlen b + 7) / 8 * 8.
Proof.
  pose proof (zlen_nonneg b). unfold cab_pad8, cab_padded_len. rewrite Z.quot_div_nonneg by lia.
  rewrite zlen_app, zlen_repeat. lia.
Qed.
Lemma pad8_bounds b : zlen b <= zlen (cab_pad8 b) < zlen b + 8 /\ zlen (cab_pad8 b) mod 8 = 0.
Proof. pose proof (zlen_nonneg b). rewrite pad8_len. lia. Qed.
Lemma pad8_aligned b : zlen b mod 8 = 0 -> cab_pad8 b = b.
Proof.
  intros H. pose proof (zlen_nonneg b). unfold cab_pad8, cab_padded_len. rewrite Z.quot_div_nonneg by lia.
  replace ((zlen b + 7) / 8 * 8 - zlen b) with 0 by lia. cbn [Z.to_nat repeat]. apply app_nil_r.
Qed.
Lemma pad8_idem b : cab_pad8 (cab_pad8 b) = cab_pad8 b.
Proof. apply pad8_aligned. apply pad8_bounds. Qed.
Lemma pad8_bytes b : all_bytes b = true -> all_bytes (cab_pad8 b) = true.
Proof. intros H. unfold cab_pad8. now rewrite all_bytes_app, H, all_bytes_repeat0. Qed.

(* ================================================================== the output header, field by field *)
Definition hv12 (h0 h1 h2 h3 h4 h5 h6 h7 h8 h9 h10 h11 : Z) : list Z := [h0; h1; h2; h3; h4; h5; h6; h7; h8; h9; h10; h11].
Lemma out_hv_eq p h0 h1 h2 h3 h4 h5 h6 h7 h8 h9 h10 h11 : c_hv p = hv12 h0 h1 h2 h3 h4 h5 h6 h7 h8 h9 h10 h11 ->
  cab_out_hv p = hv12 h0 h1 (cab_add32 h2 (cab_add_offset p)) h3 (cab_add32 h4 (cab_add_offset p)) h5 h6 h7 h8 (Z.lor h9 4) h10 h11.
Proof. intros E. unfold cab_out_hv. rewrite E. reflexivity. Qed.
Lemma out_sv_eq p : cab_out_sv p =
  match c_res p with
  | Some (_, sv, pad) => if cab_padding_present pad then [1048576; fld cabh_ix_TotalSize (cab_out_hv p); 0; 0; 0]
                         else [fld 0 sv; fld cabh_ix_TotalSize (cab_out_hv p); 0; fld 3 sv; fld 4 sv]
  | None => [1048576; fld cabh_ix_TotalSize (cab_out_hv p); 0; 0; 0]
  end.
Proof.
  unfold cab_out_sv, cab_has_sig, res_has_sig, res_sv. destruct (c_res p) as [[[rv sv] pad]|]; [|reflexivity].
  destruct (cab_padding_present pad); reflexivity.
Qed.
Lemma out_rv_eq : cab_out_rv = [20; 0; 0].
Proof. reflexivity. Qed.

(* ================================================================== the domain, in numbers *)
Definition p_O (p : cabp) : Z := fld cabh_ix_OffsetFiles (c_hv p).
Definition p_T (p : cabp) : Z := fld cabh_ix_TotalSize (c_hv p).
Definition p_hd (p : cabp) : bytes := enc_struct cabh_widths (c_hv p) ++ res_bytes (c_res p) ++ enc_folders (c_folders p).
Lemma cab_write_hd p : cab_write p = p_hd p ++ c_data p ++ c_sig p.
Proof. unfold cab_write, p_hd. now rewrite <- !app_assoc. Qed.

Lemma zlen_res_bytes hv res : res_ok hv res ->
  zlen (res_bytes res) = match res with Some (_, _, pad) => 24 + pad | None => 0 end.
Proof.
  destruct res as [[[rv sv] pad]|]; cbn [res_ok res_bytes]; [|reflexivity]. intros (_ & -> & Hp & Rs & _).
  rewrite !zlen_app, zlen_enc_rh, zlen_enc_sh, zlen_repeat by (assumption || now apply rv_range). lia.
Qed.
Lemma zlen_p_hd p : cabp_ok p -> zlen (p_hd p) = cab_P p.
Proof.
  intros [Rh _ Hr Rf _ _ _ _]. unfold p_hd, cab_P. rewrite !zlen_app, zlen_enc_h, (zlen_res_bytes _ _ Hr), enc_folders_zlen by assumption.
  unfold cabh_size, cabrh_size, cabsh_size, cabfh_size. destruct (c_res p) as [[[rv sv] pad]|]; lia.
Qed.

Record wf_nums (p : cabp) : Prop := mkNums {
  wn_P : zlen (p_hd p) = p_O p;
  wn_OT : 0 <= p_O p <= p_T p;
  wn_T : 0 <= p_T p + cab_add_offset p < 2 ^ 32;
  wn_Od : p_O p + cab_add_offset p = 60 + 8 * zlen (c_folders p);
  wn_fold : Forall (fun fv => 0 <= fld cabfh_ix_Offset fv + cab_add_offset p < 2 ^ 32) (c_folders p);
  wn_data : zlen (c_data p) = p_T p - p_O p;
  wn_T32 : p_T p < 2 ^ 32 }.
Lemma wf_nums_of p : cabp_ok p -> cabp_wf p = true -> wf_nums p.
Proof.
  intros Hok Hwf. pose proof (zlen_p_hd p Hok) as LP. destruct Hok as [Rh _ Hr Rf _ Hd _ [HlP HlT]].
  destruct (hv_fields_range _ Rh) as (RT & RO & _ & _).
  unfold cabp_wf in Hwf. apply andb_true_iff in Hwf as [Hwf H].
  fold (p_O p) in *. fold (p_T p) in *. pose proof (zlen_nonneg (c_folders p)) as Hn.
  assert (Ed : p_O p + cab_add_offset p = 60 + 8 * zlen (c_folders p)).
  { unfold cab_add_offset, cab_P, cabh_size, cabrh_size, cabsh_size, cabfh_size, cab_offset_remove_padding, cab_offset_add_reserve, cab_padding_present in *.
    destruct (c_res p) as [[[rv sv] pad]|]; [destruct (pad >? 0) eqn:Ep|]; try lia.
    cbn [res_ok] in Hr. lia. }
  constructor; try lia.
  - rewrite forallb_forall in H. apply Forall_forall. intros fv Hin. specialize (H fv Hin). lia.
  - rewrite Hd. apply wrap32_small. lia.
Qed.

(* ================================================================== the signed file in closed form *)
Definition cab_signed_sv (p : cabp) (b : bytes) : list Z := set_fld cabsh_ix_SignatureSize (zlen (cab_pad8 b)) (cab_out_sv p).
Definition cab_signed_p (p : cabp) (b : bytes) : cabp :=
  mkCabp (cab_out_hv p) (Some ([20; 0; 0], cab_signed_sv p b, 0)) (cab_out_folders p) (c_data p) (cab_pad8 b).

Lemma patch_at (X Y Y' Z : bytes) a n : zlen X = a -> zlen Y = n ->
  ztake a (X ++ Y ++ Z) ++ Y' ++ zdrop (a + n) (X ++ Y ++ Z) = X ++ Y' ++ Z.
Proof.
  intros Ha Hn. rewrite ztake_app_exact by exact Ha. do 2 f_equal.
  rewrite app_assoc. apply zdrop_app_exact. rewrite zlen_app. lia.
Qed.

Lemma out_sv_len p : length (cab_out_sv p) = 5%nat.
Proof. rewrite out_sv_eq. destruct (c_res p) as [[[rv sv] pad]|]; [destruct (cab_padding_present pad)|]; reflexivity. Qed.

Lemma new_header_eq p b : cabp_ok p -> zlen (cab_pad8 b) < 2 ^ 32 ->
  in_range cabh_widths (cab_out_hv p) -> in_range cabsh_widths (cab_out_sv p) ->
  cab_new_header p b = enc_struct cabh_widths (cab_out_hv p) ++ enc_struct cabrh_widths [20; 0; 0]
                       ++ enc_struct cabsh_widths (cab_signed_sv p b) ++ enc_folders (cab_out_folders p).
Proof.
  intros Hok Hl Rh Rs. pose proof (zlen_nonneg (cab_pad8 b)) as H0.
  unfold cab_new_header, cab_patched, cab_signed_sv, cab_sigsize_patch_offset, cab_sigsize_patch_value.
  rewrite out_rv_eq, wrap32_small by lia.
  pose proof (zlen_enc_h _ Rh) as Lh. remember (enc_struct cabh_widths (cab_out_hv p)) as EH eqn:EEH. clear EEH.
  assert (Lr : zlen (enc_struct cabrh_widths [20; 0; 0]) = 4) by reflexivity.
  remember (enc_struct cabrh_widths [20; 0; 0]) as ER eqn:EER. clear EER.
  remember (enc_folders (cab_out_folders p)) as EF eqn:EEF. clear EEF.
  pose proof (out_sv_len p) as L5. remember (cab_out_sv p) as sv eqn:Esv. clear Esv.
  destruct sv as [|a0 [|a1 [|a2 [|a3 [|a4 [|]]]]]]; try discriminate. clear L5.
  unfold cabsh_widths. cbn [enc_struct set_fld cabsh_ix_SignatureSize]. change (Z.to_nat 4) with 4%nat. rewrite !app_nil_r.
  replace (EH ++ ER ++ (le_enc 4 a0 ++ le_enc 4 a1 ++ le_enc 4 a2 ++ le_enc 4 a3 ++ le_enc 4 a4) ++ EF)
    with ((EH ++ ER ++ le_enc 4 a0 ++ le_enc 4 a1) ++ le_enc 4 a2 ++ (le_enc 4 a3 ++ le_enc 4 a4 ++ EF)) by (now rewrite <- !app_assoc).
  rewrite (patch_at _ (le_enc 4 a2) (le_enc 4 (zlen (cab_pad8 b))) _ 48 4); [now rewrite <- !app_assoc| |apply le_enc_zlen].
  rewrite !zlen_app, Lh, Lr, !le_enc_zlen. reflexivity.
Qed.

Lemma old_sig_size_eq p : cabp_ok p -> cab_old_sig_size p = zlen (c_sig p).
Proof.
  intros Hok. pose proof (ok_sig _ Hok) as Hs. unfold cab_old_sig_size, cab_sig_size. destruct (cab_has_sig p); cbn [negb]; [now symmetry|now rewrite Hs].
Qed.

Lemma two_patches (Hd data sig nh sb : bytes) O T : zlen Hd = O -> zlen data = T - O -> 0 <= O ->
  C12.Model.splice [C12.Model.mkPatch 0 O nh; C12.Model.mkPatch T (zlen sig) sb] (Hd ++ data ++ sig) = nh ++ data ++ sb.
Proof.
  intros LH LD H0. pose proof (zlen_nonneg data). pose proof (zlen_nonneg sig).
  cbn [C12.Model.splice fold_right C12.Model.p_off C12.Model.p_old C12.Model.p_blob]. unfold C12.Model.replace1.
  rewrite ztake_neg by lia. cbn [app]. f_equal.
  assert (E1 : ztake T (Hd ++ data ++ sig) = Hd ++ data).
  { rewrite app_assoc. apply ztake_app_exact. rewrite zlen_app. lia. }
  assert (E2 : zdrop (T + zlen sig) (Hd ++ data ++ sig) = []).
  { apply zdrop_all. rewrite !zlen_app. lia. }
  rewrite E1, E2, app_nil_r, <- app_assoc. change (0 + O) with O. now apply zdrop_app_exact.
Qed.

Lemma cab_embed_eq p b : cabp_ok p -> cabp_wf p = true -> zlen (cab_pad8 b) < 2 ^ 32 ->
  in_range cabh_widths (cab_out_hv p) -> in_range cabsh_widths (cab_out_sv p) ->
  cab_embed (cab_write p) b = Ok (cab_write (cab_signed_p p b)).
Proof.
  intros Hok Hwf Hl Rh Rs. pose proof (wf_nums_of p Hok Hwf) as N. destruct N as [NP NOT NT NOd _ ND NT32].
  unfold cab_embed. rewrite cab_parse_complete by exact Hok. cbn [bind].
  unfold cab_patchset. rewrite old_sig_size_eq by exact Hok.
  unfold cab_patch1_off, cab_patch1_old, cab_patch2_off, cab_patch2_old. fold (p_O p). fold (p_T p).
  change (C12.Model.add (C12.Model.add [] 0 (p_O p) (cab_new_header p b)) (p_T p) (zlen (c_sig p)) (cab_pad8 b))
    with (C12.Model.add_all [C12.Model.mkCall 0 (p_O p) (cab_new_header p b); C12.Model.mkCall (p_T p) (zlen (c_sig p)) (cab_pad8 b)]).
  rewrite cab_write_hd. pose proof (zlen_nonneg (c_sig p)) as Hs0.
  assert (Lf : zlen (p_hd p ++ c_data p ++ c_sig p) = p_T p + zlen (c_sig p)) by (rewrite !zlen_app; lia).
  match goal with |- C12.Model.rewrite (C12.Model.isort (C12.Model.add_all ?cs)) ?f = _ => destruct (C12.Proofs.add_fileorder_sound cs f) as [A S] end.
  { cbn [map C12.Model.call_patch C12.Model.asc_disjoint C12.Model.c_off C12.Model.c_old C12.Model.c_blob C12.Model.p_off C12.Model.p_old].
    rewrite Lf. lia. }
  rewrite (C12.Proofs.isort_id _ (C12.Proofs.asc_nondecreasing _ _ _ A)).
  rewrite (C12.Proofs.rewrite_sorted _ _ A), S. f_equal.
  unfold C12.Model.call_patch. cbn [map C12.Model.c_off C12.Model.c_old C12.Model.c_blob].
  rewrite (two_patches _ _ _ _ _ (p_O p) (p_T p)) by (assumption || lia).
  rewrite new_header_eq by assumption. unfold cab_write, cab_signed_p. cbn [c_hv c_res c_folders c_data c_sig res_bytes].
  cbn [Z.to_nat repeat]. now rewrite app_nil_r, <- !app_assoc.
Qed.

(* ================================================================== canonical form of the header in the domain *)
Lemma flags_of_res hv res : res_ok hv res -> fld cabh_ix_Flags hv = 4 \/ fld cabh_ix_Flags hv = 0.
Proof. destruct res as [[[rv sv] pad]|]; cbn [res_ok]; [left; tauto|right; assumption]. Qed.

Lemma hv_canon p : cabp_ok p -> cabp_wf p = true -> exists h0 h1 h2 h3 h4 h5 h6 h7 h8 h9 h10 h11,
  c_hv p = hv12 h0 h1 h2 h3 h4 h5 h6 h7 h8 h9 h10 h11 /\
  cab_out_hv p = hv12 h0 h1 (h2 + cab_add_offset p) h3 (h4 + cab_add_offset p) h5 h6 h7 h8 4 h10 h11 /\
  in_range cabh_widths (cab_out_hv p) /\ h0 = cab_Magic /\ (h9 = 4 \/ h9 = 0) /\ h7 = zlen (c_folders p) /\
  h2 = p_T p /\ h4 = p_O p /\ Z.ldiff h9 4 = 0.
Proof.
  intros Hok Hwf. destruct (wf_nums_of p Hok Hwf) as [NP NOT NT NOd _ ND NT32].
  pose proof (ok_hv _ Hok) as Rh. pose proof (ok_magic _ Hok) as Hm. pose proof (flags_of_res _ _ (ok_res _ Hok)) as Hf.
  pose proof (ok_nfolders _ Hok) as Hn. unfold p_O, p_T in *.
  destruct p as [hv res fs data sig]. cbn [c_hv c_folders] in *. pose proof Rh as Rh'. destr_range Rh'.
  cbn [fld nth cabh_ix_Magic cabh_ix_Flags cabh_ix_NumFolders cabh_ix_TotalSize cabh_ix_OffsetFiles] in *.
  exists v, v0, v1, v2, v3, v4, v5, v6, v7, v8, v9, v10.
  set (p := mkCabp [v; v0; v1; v2; v3; v4; v5; v6; v7; v8; v9; v10] res fs data sig) in *.
  assert (Ehv : c_hv p = hv12 v v0 v1 v2 v3 v4 v5 v6 v7 v8 v9 v10) by reflexivity.
  assert (Eo : cab_out_hv p = hv12 v v0 (v1 + cab_add_offset p) v2 (v3 + cab_add_offset p) v4 v5 v6 v7 4 v9 v10).
  { rewrite (out_hv_eq p _ _ _ _ _ _ _ _ _ _ _ _ Ehv). unfold cab_add32. rewrite !wrap32_small by lia.
    destruct Hf as [-> | ->]; reflexivity. }
  split; [exact Ehv|]. split; [exact Eo|]. split.
  { rewrite Eo. unfold hv12, in_range, cabh_widths. pose proof (zlen_nonneg fs).
    repeat (constructor; [lia|]). constructor. }
  repeat split; try assumption; try lia. destruct Hf as [-> | ->]; reflexivity.
Qed.

Lemma sv_range_of p : cabp_ok p -> match c_res p with Some (_, sv, _) => in_range cabsh_widths sv | None => True end.
Proof. intros Hok. pose proof (ok_res _ Hok) as Hr. destruct (c_res p) as [[[rv sv] pad]|]; cbn [res_ok] in Hr; tauto. Qed.

Lemma out_sv_range p : cabp_ok p -> cabp_wf p = true -> in_range cabsh_widths (cab_out_sv p) /\
  fld cabsh_ix_CabinetSize (cab_out_sv p) = fld cabh_ix_TotalSize (cab_out_hv p) /\
  fld cabsh_ix_SignatureSize (cab_out_sv p) = 0.
Proof.
  intros Hok Hwf. destruct (hv_canon p Hok Hwf) as (h0&h1&h2&h3&h4&h5&h6&h7&h8&h9&h10&h11&_&Eo&Ro&_).
  assert (RT : 0 <= fld cabh_ix_TotalSize (cab_out_hv p) < 256 ^ 4).
  { exact (in_range_fld _ _ Ro cabh_ix_TotalSize ltac:(vm_compute; lia)). }
  rewrite out_sv_eq. pose proof (sv_range_of p Hok) as Rs.
  destruct (c_res p) as [[[rv sv] pad]|]; [destruct (cab_padding_present pad)|].
  - split; [|split; reflexivity]. unfold in_range, cabsh_widths. repeat (constructor; [lia|]). constructor.
  - destr_range Rs. cbn [fld nth]. split; [|split; reflexivity]. unfold in_range, cabsh_widths. repeat (constructor; [lia|]). constructor.
  - split; [|split; reflexivity]. unfold in_range, cabsh_widths. repeat (constructor; [lia|]). constructor.
Qed.

Lemma blob_wf_inv b : blob_wf b = true -> all_bytes b = true /\ 0 < zlen b /\ zlen (cab_pad8 b) < 2 ^ 32.
Proof.
  unfold blob_wf. intros H. repeat (apply andb_true_iff in H as [H ?]). pose proof (pad8_bounds b). repeat split; [assumption|lia|lia].
Qed.

(* signing a cabinet of the domain: the result in closed form *)
Lemma cab_embed_closed p b : cabp_ok p -> cabp_wf p = true -> blob_wf b = true ->
  cab_embed (cab_write p) b = Ok (cab_write (cab_signed_p p b)).
Proof.
  intros Hok Hwf Hb. destruct (blob_wf_inv b Hb) as (_ & _ & Hl).
  destruct (hv_canon p Hok Hwf) as (h0&h1&h2&h3&h4&h5&h6&h7&h8&h9&h10&h11&_&_&Ro&_).
  destruct (out_sv_range p Hok Hwf) as [Rs _]. now apply cab_embed_eq.
Qed.

(* ================================================================== the signed cabinet is again a cabinet of the domain *)
Lemma set_fld_len i v vs : length (set_fld i v vs) = length vs.
Proof. revert i. induction vs as [|x vs IH]; intros [|i]; cbn [set_fld length]; auto. Qed.
Lemma fld_set_same i v vs : (i < length vs)%nat -> fld i (set_fld i v vs) = v.
Proof. unfold fld. revert i. induction vs as [|x vs IH]; intros [|i] H; cbn [length] in H; try lia; cbn [set_fld nth]; [reflexivity|]. apply IH. lia. Qed.
Lemma fld_set_other i j v vs : i <> j -> fld j (set_fld i v vs) = fld j vs.
Proof.
  unfold fld. revert i j. induction vs as [|x vs IH]; intros [|i] [|j] H; cbn [set_fld nth]; try reflexivity; try congruence.
  apply IH. congruence.
Qed.
Lemma in_range_set ws vs i v : in_range ws vs -> 0 <= v < 256 ^ nth i ws 0 -> in_range ws (set_fld i v vs).
Proof.
  intros R. revert i. induction R as [|w x ws' vs' [Hw Hx] R' IH]; intros [|i] Hv; cbn [set_fld nth] in *.
  - constructor.
  - constructor.
  - constructor; [split; assumption|exact R'].
  - constructor; [split; assumption|exact (IH i Hv)].
Qed.

Lemma out_folder_range d fv : in_range cabfh_widths fv ->
  in_range cabfh_widths (set_fld cabfh_ix_Offset (cab_add32 (fld cabfh_ix_Offset fv) d) fv).
Proof.
  intros R. apply in_range_set; [exact R|]. pose proof (wrap32_range (fld cabfh_ix_Offset fv + d)). unfold cab_add32. cbn [nth cabfh_widths cabfh_ix_Offset]. lia.
Qed.
Lemma zlen_map {A B} (g : A -> B) l : zlen (map g l) = zlen l.
Proof. unfold zlen. now rewrite map_length. Qed.

Lemma signed_sv_facts p b : cabp_ok p -> cabp_wf p = true -> zlen (cab_pad8 b) < 2 ^ 32 ->
  in_range cabsh_widths (cab_signed_sv p b) /\
  fld cabsh_ix_CabinetSize (cab_signed_sv p b) = fld cabh_ix_TotalSize (cab_out_hv p) /\
  fld cabsh_ix_SignatureSize (cab_signed_sv p b) = zlen (cab_pad8 b) /\
  fld cabsh_ix_Unknown3 (cab_signed_sv p b) = fld cabsh_ix_Unknown3 (cab_out_sv p).
Proof.
  intros Hok Hwf Hl. destruct (out_sv_range p Hok Hwf) as (Rs & Ec & _). pose proof (zlen_nonneg (cab_pad8 b)).
  unfold cab_signed_sv. repeat split.
  - apply in_range_set; [exact Rs|]. cbn [nth cabsh_widths cabsh_ix_SignatureSize]. lia.
  - rewrite fld_set_other by (vm_compute; lia). exact Ec.
  - apply fld_set_same. rewrite out_sv_len. vm_compute. lia.
  - apply fld_set_other. vm_compute. lia.
Qed.

Lemma signed_add_offset p b : cab_add_offset (cab_signed_p p b) = 0.
Proof. reflexivity. Qed.

Lemma signed_ok p b : cabp_ok p -> cabp_wf p = true -> blob_wf b = true ->
  cabp_ok (cab_signed_p p b) /\ cabp_wf (cab_signed_p p b) = true.
Proof.
  intros Hok Hwf Hb. destruct (blob_wf_inv b Hb) as (_ & Hb0 & Hl).
  destruct (hv_canon p Hok Hwf) as (h0&h1&h2&h3&h4&h5&h6&h7&h8&h9&h10&h11&Ehv&Eo&Ro&Hm&Hf&Hn&ET&EO&_).
  destruct (signed_sv_facts p b Hok Hwf Hl) as (Rss & Ecs & Ess & _).
  destruct (wf_nums_of p Hok Hwf) as [NP NOT NT NOd NF ND NT32]. rewrite <- ET, <- EO in *.
  pose proof (zlen_nonneg (c_folders p)) as Hn0. pose proof (ok_folders _ Hok) as Rf.
  assert (Rf' : Forall (in_range cabfh_widths) (cab_out_folders p)).
  { unfold cab_out_folders. apply Forall_forall. intros fv' Hin. apply in_map_iff in Hin as (fv & <- & Hin).
    apply out_folder_range. rewrite Forall_forall in Rf. now apply Rf. }
  split.
  - constructor; cbn [cab_signed_p c_hv c_res c_folders c_data c_sig].
    + exact Ro.
    + rewrite Eo. cbn [fld nth hv12 cabh_ix_Magic]. exact Hm.
    + cbn [res_ok]. rewrite Eo at 1. cbn [fld nth hv12 cabh_ix_Flags]. repeat split; try lia; try assumption.
    + exact Rf'.
    + unfold cab_out_folders. rewrite zlen_map, Eo. cbn [fld nth hv12 cabh_ix_NumFolders]. lia.
    + rewrite Eo. cbn [fld nth hv12 cabh_ix_TotalSize cabh_ix_OffsetFiles]. rewrite wrap32_small by lia. lia.
    + unfold cab_has_sig. cbn [c_res res_has_sig res_sv c_sig]. change (cab_padding_present 0) with false. cbn [negb]. now symmetry.
    + unfold cab_P. cbn [cab_signed_p c_res c_folders]. unfold cab_out_folders. rewrite zlen_map, Eo.
      cbn [fld nth hv12 cabh_ix_TotalSize cabh_ix_OffsetFiles]. unfold cabh_size, cabrh_size, cabsh_size, cabfh_size. lia.
  - unfold cabp_wf. cbn [cab_signed_p c_hv c_res c_folders]. rewrite signed_add_offset.
    rewrite Eo. cbn [fld nth hv12 cabh_ix_TotalSize cabh_ix_OffsetFiles].
    replace (h2 + cab_add_offset p + 0 <? 2 ^ 32) with true by lia. cbn [andb].
    apply forallb_forall. intros fv' Hin. rewrite Forall_forall in Rf'. specialize (Rf' fv' Hin).
    pose proof (in_range_fld _ _ Rf' cabfh_ix_Offset ltac:(vm_compute; lia)) as R0. cbn [nth cabfh_widths cabfh_ix_Offset] in R0. lia.
Qed.

(* ================================================================== the digest input ignores the signature just written *)
Lemma set_fld_id vs : (0 < length vs)%nat -> set_fld 0 (fld 0 vs) vs = vs.
Proof. destruct vs; cbn; [lia|reflexivity]. Qed.
Lemma signed_out_hv p b : cabp_ok p -> cabp_wf p = true -> cab_out_hv (cab_signed_p p b) = cab_out_hv p.
Proof.
  intros Hok Hwf.
  destruct (hv_canon p Hok Hwf) as (h0&h1&h2&h3&h4&h5&h6&h7&h8&h9&h10&h11&Ehv&Eo&Ro&Hm&Hf&Hn&ET&EO&_).
  destruct (wf_nums_of p Hok Hwf) as [NP NOT NT NOd NF ND NT32]. rewrite <- ET, <- EO in *. pose proof (zlen_nonneg (c_folders p)).
  rewrite (out_hv_eq (cab_signed_p p b) _ _ _ _ _ _ _ _ _ _ _ _ Eo), signed_add_offset, Eo. unfold cab_add32.
  rewrite !Z.add_0_r, !wrap32_small by lia. reflexivity.
Qed.
Lemma signed_out_folders p b : cabp_ok p -> cab_out_folders (cab_signed_p p b) = cab_out_folders p.
Proof.
  intros Hok. unfold cab_out_folders at 1. rewrite signed_add_offset. cbn [cab_signed_p c_folders].
  rewrite <- (map_id (cab_out_folders p)) at 2. apply map_ext_in. intros fv' Hin.
  unfold cab_out_folders in Hin. apply in_map_iff in Hin as (fv & <- & Hin).
  pose proof (ok_folders _ Hok) as Rf. rewrite Forall_forall in Rf. specialize (Rf fv Hin).
  pose proof (out_folder_range (cab_add_offset p) fv Rf) as R'.
  pose proof (in_range_fld _ _ R' cabfh_ix_Offset ltac:(vm_compute; lia)) as R0. cbn [nth cabfh_widths cabfh_ix_Offset] in R0.
  unfold cab_add32 at 1. rewrite Z.add_0_r, wrap32_small by lia. apply set_fld_id.
  rewrite (in_range_length _ _ R'). vm_compute. lia.
Qed.
Lemma signed_out_sv_u3 p b : cabp_ok p -> cabp_wf p = true -> zlen (cab_pad8 b) < 2 ^ 32 ->
  fld cabsh_ix_Unknown3 (cab_out_sv (cab_signed_p p b)) = fld cabsh_ix_Unknown3 (cab_out_sv p).
Proof.
  intros Hok Hwf Hl. destruct (signed_sv_facts p b Hok Hwf Hl) as (_ & _ & _ & E3).
  rewrite (out_sv_eq (cab_signed_p p b)). cbn [cab_signed_p c_res]. change (cab_padding_present 0) with false. cbv iota.
  cbn [fld nth cabsh_ix_Unknown3] in *. exact E3.
Qed.
Lemma sigblob_ext hvA svA svB : fld cabsh_ix_Unknown3 svA = fld cabsh_ix_Unknown3 svB ->
  map (sigblob_field hvA svA) cab_sigblob_src = map (sigblob_field hvA svB) cab_sigblob_src.
Proof.
  intros E. unfold cab_sigblob_src. cbn [map]. unfold sigblob_field.
  repeat (f_equal; try reflexivity). cbn. exact E.
Qed.
Lemma signed_pre p b : cabp_ok p -> cabp_wf p = true -> zlen (cab_pad8 b) < 2 ^ 32 ->
  cab_pre (cab_signed_p p b) = cab_pre p.
Proof.
  intros Hok Hwf Hl. unfold cab_pre, cab_sigblob. rewrite signed_out_hv, signed_out_folders by assumption.
  rewrite (sigblob_ext _ _ (cab_out_sv p)) by (now apply signed_out_sv_u3). reflexivity.
Qed.

(* ================================================================== the specification reader on a cabinet of the domain *)
Definition view_of (p : cabp) : cabview :=
  let hv := c_hv p in
  mkView [fld 1 hv; fld 3 hv; fld 5 hv; fld 6 hv; fld 7 hv; fld 8 hv; Z.ldiff (fld 9 hv) 4; fld 10 hv; fld 11 hv]
         (map (fun fv => (fld 0 fv - p_O p, fld 1 fv, fld 2 fv)) (c_folders p)) (c_data p).

Lemma hdr_rd hv rest i a w : in_range cabh_widths hv -> (i < 12)%nat -> a = wsum (firstn i cabh_widths) -> w = nth i cabh_widths 0 ->
  le_dec (zslice a (a + w) (enc_struct cabh_widths hv ++ rest)) = fld i hv.
Proof.
  intros R Hi -> ->. apply (struct_read_at cabh_widths [] hv rest i); [exact nonneg_cabh|exact R|exact Hi|reflexivity|reflexivity].
Qed.

Lemma spec_folders_read fs : forall pre rest, Forall (in_range cabfh_widths) fs ->
  spec_folders (length fs) (zlen pre) 8 (pre ++ enc_folders fs ++ rest) = map (fun fv => (fld 0 fv, fld 1 fv, fld 2 fv)) fs.
Proof.
  induction fs as [|fv fs IH]; intros pre rest F; [reflexivity|].
  inversion F as [|? ? Rfv F']; subst. rewrite enc_folders_cons, <- app_assoc. cbn [length spec_folders map]. f_equal.
  - unfold u32at, u16at. f_equal; [f_equal|].
    + apply (struct_read_at cabfh_widths pre fv _ 0); [exact nonneg_cabfh|exact Rfv|vm_compute; lia|cbn; lia|reflexivity].
    + apply (struct_read_at cabfh_widths pre fv _ 1); [exact nonneg_cabfh|exact Rfv|vm_compute; lia|cbn; lia|cbn; lia].
    + apply (struct_read_at cabfh_widths pre fv _ 2); [exact nonneg_cabfh|exact Rfv|vm_compute; lia|cbn; lia|cbn; lia].
  - replace (zlen pre + 8) with (zlen (pre ++ enc_struct cabfh_widths fv)) by (rewrite zlen_app, zlen_enc_fh by exact Rfv; lia).
    rewrite app_assoc. now apply IH.
Qed.

Lemma res_bytes_bytes res : all_bytes (res_bytes res) = true.
Proof.
  destruct res as [[[rv sv] pad]|]; cbn [res_bytes]; [|reflexivity]. now rewrite !all_bytes_app, !enc_struct_bytes, all_bytes_repeat0.
Qed.

(* the reads of the reserve area *)
Lemma res_reads hv rv sv pad rest : in_range cabh_widths hv -> in_range cabrh_widths rv -> in_range cabsh_widths sv ->
  let f := enc_struct cabh_widths hv ++ res_bytes (Some (rv, sv, pad)) ++ rest in
  u16at 36 f = fld 0 rv /\ u8at 38 f = fld 1 rv /\ u32at 48 f = fld cabsh_ix_SignatureSize sv /\ u32at 56 f = fld cabsh_ix_Unknown3 sv.
Proof.
  intros Rh Rr Rs f. unfold f. cbn [res_bytes]. rewrite <- !app_assoc. pose proof (zlen_enc_h _ Rh) as Lh. pose proof (zlen_enc_rh _ Rr) as Lr.
  unfold u16at, u8at, u32at. repeat split.
  - apply (struct_read_at cabrh_widths _ rv _ 0); [exact nonneg_cabrh|exact Rr|vm_compute; lia|rewrite Lh; reflexivity|reflexivity].
  - apply (struct_read_at cabrh_widths _ rv _ 1); [exact nonneg_cabrh|exact Rr|vm_compute; lia|rewrite Lh; reflexivity|reflexivity].
  - rewrite app_assoc. apply (struct_read_at cabsh_widths _ sv _ cabsh_ix_SignatureSize); [exact nonneg_cabsh|exact Rs|vm_compute; lia|rewrite zlen_app, Lh, Lr; reflexivity|reflexivity].
  - rewrite app_assoc. apply (struct_read_at cabsh_widths _ sv _ cabsh_ix_Unknown3); [exact nonneg_cabsh|exact Rs|vm_compute; lia|rewrite zlen_app, Lh, Lr; reflexivity|reflexivity].
Qed.

Lemma spec_view_write p : cabp_ok p -> cabp_wf p = true -> cab_spec_view (cab_write p) = Ok (view_of p).
Proof.
  intros Hok Hwf. destruct (wf_nums_of p Hok Hwf) as [NP NOT NT NOd NF ND NT32].
  destruct (hv_canon p Hok Hwf) as (h0&h1&h2&h3&h4&h5&h6&h7&h8&h9&h10&h11&Ehv&_&_&Hm&Hf&Hn&ET&EO&Hld).
  pose proof (ok_hv _ Hok) as Rh. pose proof (ok_res _ Hok) as Hr. pose proof (ok_folders _ Hok) as Rf.
  pose proof (zlen_p_hd p Hok) as LP. pose proof (zlen_nonneg (c_folders p)) as Hn0. pose proof (zlen_nonneg (c_sig p)) as Hs0.
  set (f := cab_write p).
  assert (Lf : zlen f = p_T p + zlen (c_sig p)) by (unfold f; rewrite cab_write_hd, !zlen_app; lia).
  assert (Rd : forall i a w, (i < 12)%nat -> a = wsum (firstn i cabh_widths) -> w = nth i cabh_widths 0 -> le_dec (zslice a (a + w) f) = fld i (c_hv p)).
  { intros i a w Hi Ha Hw. unfold f, cab_write. now apply hdr_rd. }
  assert (E0 : u32at 0 f = h0) by (unfold u32at; rewrite (Rd 0%nat) by (vm_compute; lia || reflexivity); now rewrite Ehv).
  assert (E4 : u32at 4 f = h1) by (unfold u32at; rewrite (Rd 1%nat) by (vm_compute; lia || reflexivity); now rewrite Ehv).
  assert (E8 : u32at 8 f = h2) by (unfold u32at; rewrite (Rd 2%nat) by (vm_compute; lia || reflexivity); now rewrite Ehv).
  assert (E12 : u32at 12 f = h3) by (unfold u32at; rewrite (Rd 3%nat) by (vm_compute; lia || reflexivity); now rewrite Ehv).
  assert (E16 : u32at 16 f = h4) by (unfold u32at; rewrite (Rd 4%nat) by (vm_compute; lia || reflexivity); now rewrite Ehv).
  assert (E20 : u32at 20 f = h5) by (unfold u32at; rewrite (Rd 5%nat) by (vm_compute; lia || reflexivity); now rewrite Ehv).
  assert (E24 : u16at 24 f = h6) by (unfold u16at; rewrite (Rd 6%nat) by (vm_compute; lia || reflexivity); now rewrite Ehv).
  assert (E26 : u16at 26 f = h7) by (unfold u16at; rewrite (Rd 7%nat) by (vm_compute; lia || reflexivity); now rewrite Ehv).
  assert (E28 : u16at 28 f = h8) by (unfold u16at; rewrite (Rd 8%nat) by (vm_compute; lia || reflexivity); now rewrite Ehv).
  assert (E30 : u16at 30 f = h9) by (unfold u16at; rewrite (Rd 9%nat) by (vm_compute; lia || reflexivity); now rewrite Ehv).
  assert (E32 : u16at 32 f = h10) by (unfold u16at; rewrite (Rd 10%nat) by (vm_compute; lia || reflexivity); now rewrite Ehv).
  assert (E34 : u16at 34 f = h11) by (unfold u16at; rewrite (Rd 11%nat) by (vm_compute; lia || reflexivity); now rewrite Ehv).
  (* where the folder table starts, as the specification computes it *)
  set (pre := enc_struct cabh_widths (c_hv p) ++ res_bytes (c_res p)).
  assert (Ef : f = pre ++ enc_folders (c_folders p) ++ (c_data p ++ c_sig p)) by (unfold f, cab_write, pre; now rewrite <- !app_assoc).
  assert (Lpre : zlen pre = p_O p - 8 * zlen (c_folders p)).
  { rewrite <- NP. unfold p_hd. fold pre. rewrite app_assoc, zlen_app. fold pre. rewrite (enc_folders_zlen _ Rf). unfold cabfh_size. lia. }
  assert (Ehe : (if negb (Z.land h9 4 =? 0) then 40 + u16at 36 f else 36) = zlen pre /\
                (if negb (Z.land h9 4 =? 0) then 8 + u8at 38 f else 8) = 8 /\
                (negb (Z.land h9 4 =? 0) && (zlen f <? 40)) = false).
  { unfold pre. rewrite zlen_app, zlen_enc_h, (zlen_res_bytes _ _ Hr) by exact Rh.
    destruct (c_res p) as [[[rv sv] pad]|] eqn:Er; cbn [res_ok] in Hr.
    - destruct Hr as (Hfl & -> & Hp & Rs & _). rewrite Ehv in Hfl. cbn [fld nth hv12 cabh_ix_Flags] in Hfl. subst h9.
      change (negb (Z.land 4 4 =? 0)) with true. cbv iota.
      destruct (res_reads (c_hv p) [20 + pad; 0; 0] sv pad (enc_folders (c_folders p) ++ c_data p ++ c_sig p) Rh (rv_range pad Hp) Rs) as (A & B & _).
      rewrite <- Er in A, B. change (u16at 36 f = fld 0 [20 + pad; 0; 0]) in A. change (u8at 38 f = fld 1 [20 + pad; 0; 0]) in B.
      rewrite A, B. cbn [fld nth andb].
      assert (40 <= zlen f); [|split; [lia|split; [lia|lia]]].
      rewrite Lf. unfold p_O, p_T in *. rewrite Ehv in *. cbn [fld nth hv12 cabh_ix_TotalSize cabh_ix_OffsetFiles] in *.
      unfold cab_P, cabh_size, cabrh_size, cabsh_size, cabfh_size in LP. rewrite Er in LP. lia.
    - rewrite Ehv in Hr. cbn [fld nth hv12 cabh_ix_Flags] in Hr. subst h9. change (negb (Z.land 0 4 =? 0)) with false. cbv iota. cbn [andb]. lia. }
  destruct Ehe as (Ehe & Een & Esh).
  assert (L36 : 36 <= zlen f).
  { unfold f, cab_write. rewrite zlen_app, zlen_enc_h by exact Rh.
    pose proof (zlen_nonneg (res_bytes (c_res p) ++ enc_folders (c_folders p) ++ c_data p ++ c_sig p)). lia. }
  unfold cab_spec_view. fold f. replace (zlen f <? 36) with false by lia.
  rewrite E0, E8, E16, E26, E30, Hm. unfold cab_Magic. change (negb (1178817357 =? 1178817357)) with false. cbv iota.
  replace (negb (Z.land h9 3 =? 0)) with false by (destruct Hf as [-> | ->]; reflexivity).
  rewrite Esh, Ehe, Een.
  replace (negb ((zlen pre + h7 * 8 <=? h4) && (h4 <=? h2) && (h2 <=? zlen f))) with false by lia.
  rewrite E4, E12, E20, E24, E28, E32, E34. unfold view_of. rewrite Ehv. cbn [fld nth hv12]. f_equal. f_equal.
  - replace (Z.to_nat h7) with (length (c_folders p)) by (unfold zlen in Hn; lia).
    rewrite Ef at 1. rewrite spec_folders_read by exact Rf. rewrite map_map. apply map_ext. intros fv. now rewrite EO.
  - rewrite ET, EO. unfold f. rewrite cab_write_hd. apply C12.Proofs.zslice_mid; [exact NP|lia].
Qed.

(* ================================================================== C03: the specification reader's view is unchanged by signing *)
Lemma view_signed p b : cabp_ok p -> cabp_wf p = true -> view_of (cab_signed_p p b) = view_of p.
Proof.
  intros Hok Hwf. destruct (wf_nums_of p Hok Hwf) as [NP NOT NT NOd NF ND NT32].
  destruct (hv_canon p Hok Hwf) as (h0&h1&h2&h3&h4&h5&h6&h7&h8&h9&h10&h11&Ehv&Eo&_&Hm&Hf&Hn&ET&EO&Hld).
  unfold view_of, p_O. cbn [cab_signed_p c_hv c_folders c_data]. rewrite Eo, Ehv. cbn [fld nth hv12 cabh_ix_OffsetFiles].
  rewrite Hld. change (Z.ldiff 4 4) with 0. f_equal.
  unfold cab_out_folders. rewrite map_map. apply map_ext_in. intros fv Hin.
  rewrite Forall_forall in NF. specialize (NF fv Hin). pose proof (ok_folders _ Hok) as Rf. rewrite Forall_forall in Rf. specialize (Rf fv Hin).
  rewrite fld_set_same by (rewrite (in_range_length _ _ Rf); vm_compute; lia).
  rewrite !fld_set_other by (vm_compute; lia). unfold cab_add32. rewrite wrap32_small by exact NF.
  unfold cabfh_ix_Offset. replace (fld 0 fv + cab_add_offset p - (h4 + cab_add_offset p)) with (fld 0 fv - h4) by lia. reflexivity.
Qed.

(* ================================================================== the Authenticode layout test and the words behind it *)
Lemma layout_reads p : cabp_ok p -> cabp_wf p = true ->
  cab_spec_signed_layout (cab_write p) = cab_has_sig p /\
  (cab_has_sig p = true -> u32at 56 (cab_write p) = fld cabsh_ix_Unknown3 (res_sv (c_res p)) /\
                           u32at 48 (cab_write p) = fld cabsh_ix_SignatureSize (res_sv (c_res p))).
Proof.
  intros Hok Hwf. destruct (wf_nums_of p Hok Hwf) as [NP NOT NT NOd NF ND NT32].
  pose proof (ok_hv _ Hok) as Rh. pose proof (ok_res _ Hok) as Hr. pose proof (zlen_p_hd p Hok) as LP.
  pose proof (zlen_nonneg (c_folders p)) as Hn0. pose proof (zlen_nonneg (c_sig p)) as Hs0.
  assert (Lf : zlen (cab_write p) = p_T p + zlen (c_sig p)) by (rewrite cab_write_hd, !zlen_app; lia).
  assert (E30 : u16at 30 (cab_write p) = fld cabh_ix_Flags (c_hv p)).
  { unfold u16at, cab_write. apply hdr_rd; [exact Rh|vm_compute; lia|reflexivity|reflexivity]. }
  unfold cab_spec_signed_layout, cab_has_sig. rewrite E30.
  destruct (c_res p) as [[[rv sv] pad]|] eqn:Er; cbn [res_ok res_has_sig res_sv] in *.
  - destruct Hr as (Hfl & -> & Hp & Rs & _). rewrite Hfl.
    destruct (res_reads (c_hv p) [20 + pad; 0; 0] sv pad (enc_folders (c_folders p) ++ c_data p ++ c_sig p) Rh (rv_range pad Hp) Rs) as (A & _ & C & D).
    rewrite <- Er in A, C, D. fold (cab_write p) in A, C, D. rewrite A. cbn [fld nth].
    unfold cab_P, cabh_size, cabrh_size, cabsh_size, cabfh_size in LP. rewrite Er in LP. unfold cab_padding_present.
    split; [|intros _; split; assumption].
    replace (36 + 24 <=? zlen (cab_write p)) with true by lia. change (negb (Z.land 4 4 =? 0)) with true. cbn [andb]. lia.
  - rewrite Hr. change (negb (Z.land 0 4 =? 0)) with false. rewrite andb_false_r. split; [reflexivity|discriminate].
Qed.
Lemma out_sv_u3 p : fld cabsh_ix_Unknown3 (cab_out_sv p) = if cab_has_sig p then fld cabsh_ix_Unknown3 (res_sv (c_res p)) else 0.
Proof.
  rewrite out_sv_eq. unfold cab_has_sig, res_has_sig, res_sv. destruct (c_res p) as [[[rv sv] pad]|]; [|reflexivity].
  destruct (cab_padding_present pad); reflexivity.
Qed.

(* ================================================================== C05: relic's digest input is the specification's *)
Lemma sigblob_map hv sv : map (sigblob_field hv sv) cab_sigblob_src =
  [fld 0 hv; fld 2 hv; fld 3 hv; fld 4 hv; fld 5 hv; fld 6 hv; fld 7 hv; fld 8 hv; fld 9 hv; fld 10 hv; fld 4 sv].
Proof. reflexivity. Qed.
Lemma spec_hashin_write p : cabp_ok p -> cabp_wf p = true -> cab_spec_hashin (cab_write p) = Ok (cab_pre p).
Proof.
  intros Hok Hwf. destruct (wf_nums_of p Hok Hwf) as [NP NOT NT NOd NF ND NT32].
  destruct (hv_canon p Hok Hwf) as (h0&h1&h2&h3&h4&h5&h6&h7&h8&h9&h10&h11&Ehv&Eo&_&Hm&Hf&Hn&ET&EO&Hld).
  destruct (layout_reads p Hok Hwf) as [EL ER]. pose proof (out_sv_u3 p) as EU.
  unfold cab_spec_hashin. rewrite spec_view_write by assumption. cbn [bind]. f_equal.
  unfold view_of. cbn [v_scalars v_folders v_data]. rewrite zlen_map, Ehv. cbn [fld nth hv12]. rewrite Hld, EL.
  replace (if cab_has_sig p then u32at 56 (cab_write p) else 0) with (fld cabsh_ix_Unknown3 (cab_out_sv p)).
  2:{ rewrite EU. destruct (cab_has_sig p); [|reflexivity]. symmetry. now apply ER. }
  unfold cab_pre, cab_sigblob. rewrite sigblob_map, Eo. cbn [fld nth hv12].
  unfold cabsb_widths. cbn [enc_struct]. change (Z.to_nat 4) with 4%nat. change (Z.to_nat 2) with 2%nat.
  unfold le32, le16. rewrite <- !app_assoc. cbn [app].
  rewrite Hm. unfold cab_Magic. change (Z.lor 0 4) with 4.
  replace (60 + 8 * zlen (c_folders p) + zlen (c_data p)) with (h2 + cab_add_offset p) by (rewrite ND, <- ET, <- EO in *; lia).
  replace (60 + 8 * zlen (c_folders p)) with (h4 + cab_add_offset p) by (rewrite <- EO in *; lia).
  rewrite <- Hn. do 11 f_equal. f_equal.
  unfold enc_folders, cab_out_folders. rewrite !map_map. f_equal. apply map_ext_in. intros fv Hin.
  rewrite Forall_forall in NF. specialize (NF fv Hin). pose proof (ok_folders _ Hok) as Rf. rewrite Forall_forall in Rf. specialize (Rf fv Hin).
  destr_range Rf. cbn [fld nth set_fld cabfh_ix_Offset] in *. unfold cabfh_widths. cbn [enc_struct]. change (Z.to_nat 4) with 4%nat. change (Z.to_nat 2) with 2%nat.
  unfold cab_add32. rewrite wrap32_small by exact NF. rewrite app_nil_r. do 2 f_equal. lia.
Qed.

(* ================================================================== from parse results to files *)
Lemma write_bytes p : all_bytes (c_data p) = true -> all_bytes (c_sig p) = true -> all_bytes (cab_write p) = true.
Proof.
  intros Hd Hs. unfold cab_write. now rewrite !all_bytes_app, enc_struct_bytes, res_bytes_bytes, enc_folders_bytes, Hd, Hs.
Qed.
Lemma write_bytes_inv p : all_bytes (cab_write p) = true -> all_bytes (c_data p) = true /\ all_bytes (c_sig p) = true.
Proof.
  unfold cab_write. rewrite !all_bytes_app. intros H. repeat (apply andb_true_iff in H as [? H]). auto.
Qed.
Lemma cab_wf_inv f : cab_wf f = true ->
  all_bytes f = true /\ exists p, cab_parse f = Ok p /\ cabp_ok p /\ cabp_wf p = true /\ f = cab_write p.
Proof.
  unfold cab_wf. intros H. apply andb_true_iff in H as [Hb H]. split; [exact Hb|].
  destruct (cab_parse f) as [p| |] eqn:E; try discriminate. exists p. destruct (cab_parse_sound f p Hb E). auto.
Qed.
Lemma cab_wf_of p : cabp_ok p -> cabp_wf p = true -> all_bytes (cab_write p) = true -> cab_wf (cab_write p) = true.
Proof. intros Hok Hwf Hb. unfold cab_wf. now rewrite Hb, cab_parse_complete, Hwf. Qed.

(* everything about one signing step *)
Lemma cab_step f b g : cab_wf f = true -> blob_wf b = true -> cab_embed f b = Ok g -> exists p,
  cab_parse f = Ok p /\ cabp_ok p /\ cabp_wf p = true /\ f = cab_write p /\
  g = cab_write (cab_signed_p p b) /\ cab_parse g = Ok (cab_signed_p p b) /\ cab_wf g = true.
Proof.
  intros Hw Hb He. destruct (cab_wf_inv f Hw) as (Hbf & p & Ep & Hok & Hwf & Ef).
  destruct (signed_ok p b Hok Hwf Hb) as [Hok' Hwf']. destruct (blob_wf_inv b Hb) as (Hbb & _ & _).
  rewrite Ef, cab_embed_closed in He by assumption. apply Ok_inj in He. subst g.
  exists p. split; [exact Ep|]. split; [exact Hok|]. split; [exact Hwf|]. split; [exact Ef|]. split; [reflexivity|]. split.
  - now apply cab_parse_complete.
  - apply cab_wf_of; try assumption. rewrite Ef in Hbf. destruct (write_bytes_inv p Hbf) as [Hd _].
    apply write_bytes; cbn [cab_signed_p c_data c_sig]; [exact Hd|now apply pad8_bytes].
Qed.

(* C01 *)
Theorem cab_embed_defined f b : cab_wf f = true -> blob_wf b = true -> exists g, cab_embed f b = Ok g.
Proof.
  intros Hw Hb. destruct (cab_wf_inv f Hw) as (_ & p & _ & Hok & Hwf & ->). eexists. now apply cab_embed_closed.
Qed.
Theorem cab_law_extract_pad f b g : cab_wf f = true -> blob_wf b = true -> cab_embed f b = Ok g ->
  cab_extract g = Ok (Some (cab_pad8 b)).
Proof.
  intros Hw Hb He. destruct (cab_step f b g Hw Hb He) as (p & _ & _ & _ & _ & _ & Eg & _).
  unfold cab_extract. rewrite Eg. cbn [bind cab_signed_p c_sig]. unfold cab_not_signed.
  destruct (blob_wf_inv b Hb) as (_ & H0 & _). pose proof (pad8_bounds b). replace (zlen (cab_pad8 b) =? 0) with false by lia. reflexivity.
Qed.
Theorem cab_law_hashin_wf f b g : cab_wf f = true -> blob_wf b = true -> cab_embed f b = Ok g -> cab_hashin g = cab_hashin f.
Proof.
  intros Hw Hb He. destruct (cab_step f b g Hw Hb He) as (p & Ep & Hok & Hwf & _ & _ & Eg & _).
  unfold cab_hashin. rewrite Eg, Ep. cbn [bind]. f_equal. apply signed_pre; try assumption. now destruct (blob_wf_inv b Hb) as (_ & _ & ?).
Qed.
(* C08 *)
Theorem cab_wf_preserved_gen f b g : cab_wf f = true -> blob_wf b = true -> cab_embed f b = Ok g -> cab_wf g = true.
Proof. intros Hw Hb He. now destruct (cab_step f b g Hw Hb He) as (p & _ & _ & _ & _ & _ & _ & ?). Qed.
(* C03 *)
Theorem cab_law_payload_wf f b g : cab_wf f = true -> blob_wf b = true -> cab_embed f b = Ok g -> cab_payload g = cab_payload f.
Proof.
  intros Hw Hb He. destruct (cab_step f b g Hw Hb He) as (p & _ & Hok & Hwf & Ef & Eg & _ & _).
  destruct (signed_ok p b Hok Hwf Hb) as [Hok' Hwf']. unfold cab_payload.
  rewrite Eg, Ef, !spec_view_write by assumption. f_equal. now apply view_signed.
Qed.
Theorem cab_only_these_ranges_differ_wf f b g : cab_wf f = true -> blob_wf b = true -> cab_embed f b = Ok g ->
  exists hd hd' data sig, f = hd ++ data ++ sig /\ g = hd' ++ data ++ cab_pad8 b /\
    zlen hd = u32at 16 f /\ zlen hd + zlen data = u32at 8 f /\ zlen hd' = 60 + 8 * u16at 26 f /\
    cab_extract f = Ok (if zlen sig =? 0 then None else Some sig) /\ cab_payload g = cab_payload f.
Proof.
  intros Hw Hb He. pose proof (cab_law_payload_wf f b g Hw Hb He) as Hp.
  destruct (cab_step f b g Hw Hb He) as (p & Ep & Hok & Hwf & Ef & Eg & _ & _).
  destruct (signed_ok p b Hok Hwf Hb) as [Hok' Hwf'].
  destruct (wf_nums_of p Hok Hwf) as [NP NOT NT NOd NF ND NT32]. destruct (wf_nums_of _ Hok' Hwf') as [NP' _ _ NOd' _ _ _].
  exists (p_hd p), (p_hd (cab_signed_p p b)), (c_data p), (c_sig p).
  pose proof (ok_hv _ Hok) as Rh.
  assert (R : forall i a w, (i < 12)%nat -> a = wsum (firstn i cabh_widths) -> w = nth i cabh_widths 0 -> le_dec (zslice a (a + w) f) = fld i (c_hv p)).
  { intros i a w Hi Ha Hw'. rewrite Ef. unfold cab_write. now apply hdr_rd. }
  assert (E16 : u32at 16 f = p_O p) by (unfold u32at; apply (R 4%nat); vm_compute; lia || reflexivity).
  assert (E8 : u32at 8 f = p_T p) by (unfold u32at; apply (R 2%nat); vm_compute; lia || reflexivity).
  assert (E26 : u16at 26 f = zlen (c_folders p)) by (unfold u16at; rewrite (R 7%nat) by (vm_compute; lia || reflexivity); symmetry; exact (ok_nfolders _ Hok)).
  rewrite E16, E8, E26. repeat split; try assumption; try lia.
  - rewrite Ef. apply cab_write_hd.
  - rewrite Eg, cab_write_hd. reflexivity.
  - rewrite NP'. rewrite signed_add_offset, Z.add_0_r in NOd'. rewrite NOd'. cbn [cab_signed_p c_folders]. unfold cab_out_folders. now rewrite zlen_map.
  - unfold cab_extract. rewrite Ep. reflexivity.
Qed.
(* C05 *)
Theorem cab_hashin_eq_spec f : cab_wf f = true -> cab_hashin f = cab_spec_hashin f.
Proof.
  intros Hw. destruct (cab_wf_inv f Hw) as (_ & p & Ep & Hok & Hwf & Ef). unfold cab_hashin. rewrite Ep. cbn [bind].
  rewrite Ef. now rewrite spec_hashin_write.
Qed.
(* C08 *)
Theorem cab_is_signed_spec f : cab_wf f = true -> (cab_extract f = Ok None <-> cab_spec_signed f = false).
Proof.
  intros Hw. destruct (cab_wf_inv f Hw) as (_ & p & Ep & Hok & Hwf & Ef). unfold cab_extract, cab_spec_signed. rewrite Ep. cbn [bind].
  destruct (layout_reads p Hok Hwf) as [EL ER]. rewrite Ef, EL. pose proof (ok_sig _ Hok) as Hs. unfold cab_not_signed.
  destruct (cab_has_sig p).
  - destruct (ER eq_refl) as [_ E48]. rewrite E48, <- Hs. cbn [andb]. destruct (zlen (c_sig p) =? 0); cbn [negb]; split; congruence.
  - rewrite Hs. cbn. split; reflexivity.
Qed.

(* ================================================================== C02: what digest input and blob pin down *)
Lemma protected_segments (A0 A1 A2 A3 A4 A5 A6 A7 A8 : bytes) :
  zlen A0 = 4 -> zlen A1 = 4 -> zlen A2 = 26 -> zlen A3 = 2 -> zlen A4 = 4 -> zlen A5 = 4 -> zlen A6 = 8 -> zlen A7 = 4 ->
  cab_protected (A0 ++ A1 ++ A2 ++ A3 ++ A4 ++ A5 ++ A6 ++ A7 ++ A8) = A0 ++ A2 ++ A4 ++ A6 ++ A8.
Proof.
  intros L0 L1 L2 L3 L4 L5 L6 L7. unfold cab_protected. f_equal; [now apply ztake_app_exact|]. f_equal.
  { replace (A0 ++ A1 ++ A2 ++ A3 ++ A4 ++ A5 ++ A6 ++ A7 ++ A8) with ((A0 ++ A1) ++ A2 ++ (A3 ++ A4 ++ A5 ++ A6 ++ A7 ++ A8)) by (now rewrite <- !app_assoc).
    apply C12.Proofs.zslice_mid; [rewrite zlen_app; lia|lia]. }
  f_equal.
  { replace (A0 ++ A1 ++ A2 ++ A3 ++ A4 ++ A5 ++ A6 ++ A7 ++ A8) with ((A0 ++ A1 ++ A2 ++ A3) ++ A4 ++ (A5 ++ A6 ++ A7 ++ A8)) by (now rewrite <- !app_assoc).
    apply C12.Proofs.zslice_mid; [rewrite !zlen_app; lia|lia]. }
  f_equal.
  { replace (A0 ++ A1 ++ A2 ++ A3 ++ A4 ++ A5 ++ A6 ++ A7 ++ A8) with ((A0 ++ A1 ++ A2 ++ A3 ++ A4 ++ A5) ++ A6 ++ (A7 ++ A8)) by (now rewrite <- !app_assoc).
    apply C12.Proofs.zslice_mid; [rewrite !zlen_app; lia|lia]. }
  replace (A0 ++ A1 ++ A2 ++ A3 ++ A4 ++ A5 ++ A6 ++ A7 ++ A8) with ((A0 ++ A1 ++ A2 ++ A3 ++ A4 ++ A5 ++ A6 ++ A7) ++ A8) by (now rewrite <- !app_assoc).
  apply zdrop_app_exact. rewrite !zlen_app. lia.
Qed.

Lemma has_sig_inv p : cabp_ok p -> cab_has_sig p = true ->
  exists sv, c_res p = Some ([20; 0; 0], sv, 0) /\ in_range cabsh_widths sv /\ cab_add_offset p = 0 /\
    fld cabsh_ix_CabinetSize sv = p_T p /\ fld cabsh_ix_SignatureSize sv = zlen (c_sig p).
Proof.
  intros Hok Hs. pose proof (ok_res _ Hok) as Hr. pose proof (ok_sig _ Hok) as Hg. rewrite Hs in Hg.
  unfold cab_has_sig, cab_add_offset in *. destruct (c_res p) as [[[rv sv] pad]|]; cbn [res_has_sig res_ok res_sv] in *; [|discriminate].
  destruct Hr as (_ & -> & Hp & Rs & Hc). unfold cab_padding_present in *. assert (pad = 0) by lia. subst pad.
  change (0 >? 0) with false in *. cbv iota in Hc. exists sv. repeat split; try assumption. now symmetry.
Qed.

(* the protected bytes of a cabinet in the Authenticode layout are a function of its digest input and its signature area *)
Definition cab_protected_of (pre sig : bytes) : bytes :=
  ztake 30 pre ++ [20; 0; 0; 0] ++ zslice 4 8 pre ++ le_enc 4 (zlen sig) ++ zdrop 30 pre ++ sig.
Lemma protected_write p : cabp_ok p -> cabp_wf p = true -> cab_has_sig p = true ->
  cab_protected (cab_write p) = cab_protected_of (cab_pre p) (c_sig p).
Proof.
  intros Hok Hwf Hs. destruct (has_sig_inv p Hok Hs) as (sv & Er & Rs & Ed & Ec & Ess).
  destr_range Rs. cbn [fld nth cabsh_ix_CabinetSize cabsh_ix_SignatureSize cabsh_ix_Unknown3] in Ec, Ess.
  destruct (wf_nums_of p Hok Hwf) as [NP NOT NT NOd NF ND NT32].
  destruct (hv_canon p Hok Hwf) as (h0&h1&h2&h3&h4&h5&h6&h7&h8&h9&h10&h11&Ehv&Eo&_&Hm&Hf&Hn&ET&EO&Hld).
  assert (h9 = 4). { pose proof (ok_res _ Hok) as Hr. rewrite Er in Hr. cbn [res_ok] in Hr. destruct Hr as [Hfl _]. rewrite Ehv in Hfl. exact Hfl. }
  subst h9. rewrite Ed, !Z.add_0_r in Eo.
  assert (Efo : cab_out_folders p = c_folders p).
  { unfold cab_out_folders. rewrite <- (map_id (c_folders p)) at 2. apply map_ext_in. intros fv Hin. rewrite Ed.
    rewrite Forall_forall in NF. specialize (NF fv Hin). rewrite Ed, Z.add_0_r in NF.
    pose proof (ok_folders _ Hok) as Rf. rewrite Forall_forall in Rf. specialize (Rf fv Hin).
    unfold cab_add32. rewrite Z.add_0_r, wrap32_small by exact NF. apply set_fld_id. rewrite (in_range_length _ _ Rf). vm_compute. lia. }
  pose proof (out_sv_u3 p) as EU. rewrite Hs, Er in EU. cbn [res_sv] in EU.
  unfold cab_pre, cab_sigblob. rewrite sigblob_map, Eo, Efo. cbn [fld nth hv12]. change (fld 4 (cab_out_sv p)) with (fld cabsh_ix_Unknown3 (cab_out_sv p)). rewrite EU.
  cbn [fld nth cabsh_ix_Unknown3]. unfold cab_write. rewrite Ehv, Er. cbn [res_bytes].
  unfold cabsb_widths, cabh_widths, cabrh_widths, cabsh_widths, hv12. cbn [enc_struct]. change (Z.to_nat 4) with 4%nat. change (Z.to_nat 2) with 2%nat. change (Z.to_nat 1) with 1%nat. change (Z.to_nat 0) with 0%nat. cbn [repeat].
  rewrite !app_nil_r. rewrite <- !app_assoc.
  set (FD := enc_folders (c_folders p) ++ c_data p). 
  replace (le_enc 4 h0 ++ le_enc 4 h1 ++ le_enc 4 h2 ++ le_enc 4 h3 ++ le_enc 4 h4 ++ le_enc 4 h5 ++ le_enc 2 h6 ++ le_enc 2 h7 ++ le_enc 2 h8 ++ le_enc 2 4 ++ le_enc 2 h10 ++ le_enc 2 h11 ++
           le_enc 2 20 ++ le_enc 1 0 ++ le_enc 1 0 ++ le_enc 4 v ++ le_enc 4 v0 ++ le_enc 4 v1 ++ le_enc 4 v2 ++ le_enc 4 v3 ++ enc_folders (c_folders p) ++ c_data p ++ c_sig p)
    with (le_enc 4 h0 ++ le_enc 4 h1 ++ (le_enc 4 h2 ++ le_enc 4 h3 ++ le_enc 4 h4 ++ le_enc 4 h5 ++ le_enc 2 h6 ++ le_enc 2 h7 ++ le_enc 2 h8 ++ le_enc 2 4 ++ le_enc 2 h10) ++ le_enc 2 h11 ++
           (le_enc 2 20 ++ le_enc 1 0 ++ le_enc 1 0) ++ le_enc 4 v ++ (le_enc 4 v0 ++ le_enc 4 v1) ++ le_enc 4 v2 ++ (le_enc 4 v3 ++ FD ++ c_sig p))
    by (unfold FD; now rewrite <- !app_assoc).
  rewrite protected_segments by (rewrite ?zlen_app, ?le_enc_zlen; reflexivity).
  unfold cab_protected_of.
  set (PRE30 := le_enc 4 h0 ++ le_enc 4 h2 ++ le_enc 4 h3 ++ le_enc 4 h4 ++ le_enc 4 h5 ++ le_enc 2 h6 ++ le_enc 2 h7 ++ le_enc 2 h8 ++ le_enc 2 4 ++ le_enc 2 h10).
  assert (L30 : zlen PRE30 = 30) by (unfold PRE30; rewrite !zlen_app, !le_enc_zlen; reflexivity).
  replace (le_enc 4 h0 ++ le_enc 4 h2 ++ le_enc 4 h3 ++ le_enc 4 h4 ++ le_enc 4 h5 ++ le_enc 2 h6 ++ le_enc 2 h7 ++ le_enc 2 h8 ++ le_enc 2 4 ++ le_enc 2 h10 ++ le_enc 4 v3 ++ FD)
    with (PRE30 ++ le_enc 4 v3 ++ FD) by (unfold PRE30; now rewrite <- !app_assoc).
  rewrite ztake_app_exact, zdrop_app_exact by exact L30.
  replace (zslice 4 8 (PRE30 ++ le_enc 4 v3 ++ FD)) with (le_enc 4 h2).
  2:{ unfold PRE30. rewrite <- !app_assoc. symmetry. apply C12.Proofs.zslice_mid; rewrite le_enc_zlen; reflexivity. }
  unfold PRE30. rewrite <- !app_assoc. cbn [app]. rewrite Ec, Ess, <- ET. reflexivity.
Qed.

Theorem cab_protect g1 g2 : cab_wf g1 = true -> cab_wf g2 = true ->
  cab_spec_signed_layout g1 = true -> cab_spec_signed_layout g2 = true ->
  cab_hashin g1 = cab_hashin g2 -> cab_extract g1 = cab_extract g2 -> cab_protected g1 = cab_protected g2.
Proof.
  intros W1 W2 S1 S2 Hh He.
  destruct (cab_wf_inv g1 W1) as (_ & p1 & E1 & Ok1 & Wf1 & F1). destruct (cab_wf_inv g2 W2) as (_ & p2 & E2 & Ok2 & Wf2 & F2).
  destruct (layout_reads p1 Ok1 Wf1) as [L1 _]. destruct (layout_reads p2 Ok2 Wf2) as [L2 _].
  rewrite F1, L1 in S1. rewrite F2, L2 in S2.
  unfold cab_hashin in Hh. rewrite E1, E2 in Hh. cbn [bind] in Hh. apply Ok_inj in Hh.
  unfold cab_extract in He. rewrite E1, E2 in He. cbn [bind] in He. apply Ok_inj in He. unfold cab_not_signed in He.
  assert (Es : c_sig p1 = c_sig p2).
  { destruct (zlen (c_sig p1) =? 0) eqn:Z1; destruct (zlen (c_sig p2) =? 0) eqn:Z2; try discriminate.
    - rewrite (C12.Proofs.zlen_0_nil (c_sig p1)), (C12.Proofs.zlen_0_nil (c_sig p2)) by lia. reflexivity.
    - congruence. }
  rewrite F1, F2, !protected_write by assumption. now rewrite Hh, Es.
Qed.

(* ================================================================== C01: refusals; no panic anywhere *)
Definition np {A} (r : result A) : Prop := forall q, r <> Panic q.
Lemma np_bind {A B} (r : result A) (k : A -> result B) : np r -> (forall a, np (k a)) -> np (bind r k).
Proof. intros Hr Hk q. destruct r as [a| |e]; cbn [bind]; [apply Hk|discriminate|]. intros E. apply (Hr e). congruence. Qed.
Lemma np_take n s : np (take_n n s).
Proof. intros q. unfold take_n. destruct (zlen s <? n); discriminate. Qed.
Lemma np_ok {A} (a : A) : np (Ok a). Proof. intros q. discriminate. Qed.
Lemma np_err {A} e : np (@Err A e). Proof. intros q. discriminate. Qed.
Lemma np_read_folders fuel : forall i n s, np (read_folders fuel i n s).
Proof.
  induction fuel as [|fuel IH]; intros i n s; cbn [read_folders]; [apply np_ok|].
  destruct (cab_more_folders i n); [|apply np_ok]. apply np_bind; [apply np_take|]. intros a. apply np_bind; [apply IH|]. intros c. apply np_ok.
Qed.
Lemma np_parse_reserve hv s : np (cab_parse_reserve hv s).
Proof.
  unfold cab_parse_reserve. destruct (cab_has_reserve _); [|apply np_ok]. apply np_bind; [apply np_take|]. intros p1.
  destruct (cab_bad_reserve _ _ _); [apply np_err|]. apply np_bind; [apply np_take|]. intros p2.
  destruct (cab_padding_present _).
  - destruct (cab_padded_with_size _); [apply np_err|]. apply np_bind; [apply np_take|]. intros p3. destruct (existsb _ _); [apply np_err|apply np_ok].
  - destruct (cab_size_mismatch _ _); [apply np_err|apply np_ok].
Qed.
Lemma np_parse f : np (cab_parse f).
Proof.
  unfold cab_parse. apply np_bind; [apply np_take|]. intros p0. destruct (cab_bad_magic _); [apply np_err|].
  apply np_bind; [apply np_parse_reserve|]. intros p1. destruct (cab_multipart _); [apply np_err|]. destruct (cab_unsupported_flags _); [apply np_err|].
  destruct (cab_bad_layout _ _ _); [apply np_err|].
  apply np_bind; [apply np_read_folders|]. intros p2. apply np_bind; [apply np_take|]. intros p3.
  apply np_bind; [destruct (res_has_sig _); [apply np_take|apply np_ok]|]. intros p4. destruct (snd p4); [apply np_ok|apply np_err].
Qed.
Theorem cab_refuses_clean :
  (forall f b, is_ok (cab_hashin f) = false -> is_ok (cab_embed f b) = false) /\
  (forall f b q, cab_hashin f <> Panic q /\ cab_extract f <> Panic q /\ cab_embed f b <> Panic q) /\
  (forall f, all_bytes f = true -> (is_ok (cab_hashin f) = true <-> exists p, cabp_ok p /\ f = cab_write p)).
Proof.
  split; [|split].
  - intros f b. unfold cab_hashin, cab_embed. destruct (cab_parse f); cbn [bind is_ok]; congruence.
  - intros f b q. pose proof (np_parse f) as N. unfold cab_hashin, cab_extract, cab_embed.
    destruct (cab_parse f) as [p| |e]; cbn [bind]; repeat split; try discriminate; try (exfalso; exact (N e eq_refl)).
    apply rewrite_from_no_panic.
  - exact cab_accepts_iff.
Qed.

(* MakePatch pads the blob itself: handing it the padded blob gives the same file *)
Lemma cab_embed_pad8 f b : cab_embed f (cab_pad8 b) = cab_embed f b.
Proof. unfold cab_embed, cab_patchset, cab_new_header. now rewrite pad8_idem. Qed.

(* ================================================================== the format handed to Laws/Pipeline.v *)
Definition cab_format : format cabview := mkFormat cabview cab_hashin cab_embed_wf cab_extract cab_payload.
Lemma cab_embed_wf_inv f b g : cab_embed_wf f b = Ok g ->
  cab_wf f = true /\ blob_wf b = true /\ zlen b mod 8 = 0 /\ cab_embed f b = Ok g.
Proof.
  unfold cab_embed_wf, blob_aligned. destruct (cab_wf f); [|discriminate]. destruct (blob_wf b); [|discriminate].
  destruct (zlen b mod 8 =? 0) eqn:E; [|discriminate]. cbn [andb]. intros H. repeat split; try assumption. lia.
Qed.
Theorem cab_law_extract : law_extract cabview cab_format.
Proof.
  unfold law_extract, cab_format. cbn [f_embed f_extract]. intros f b g H. destruct (cab_embed_wf_inv _ _ _ H) as (Hw & Hb & Ha & He).
  rewrite (cab_law_extract_pad f b g Hw Hb He). now rewrite pad8_aligned.
Qed.
Theorem cab_law_hashin : law_hashin cabview cab_format.
Proof.
  unfold law_hashin, cab_format. cbn [f_embed f_hashin]. intros f b g H. destruct (cab_embed_wf_inv _ _ _ H) as (Hw & Hb & _ & He).
  exact (cab_law_hashin_wf f b g Hw Hb He).
Qed.
Theorem cab_law_payload : law_payload cabview cab_format.
Proof.
  unfold law_payload, cab_format. cbn [f_embed f_payload]. intros f b g H. destruct (cab_embed_wf_inv _ _ _ H) as (Hw & Hb & _ & He).
  exact (cab_law_payload_wf f b g Hw Hb He).
Qed.
Theorem cab_wf_preserved f b g : cab_embed_wf f b = Ok g -> cab_wf g = true.
Proof. intros H. destruct (cab_embed_wf_inv _ _ _ H) as (Hw & Hb & _ & He). exact (cab_wf_preserved_gen f b g Hw Hb He). Qed.
Theorem cab_embed_wf_defined f b : cab_wf f = true -> blob_wf b = true -> zlen b mod 8 = 0 -> exists g, cab_embed_wf f b = Ok g.
Proof.
  intros Hw Hb Ha. unfold cab_embed_wf, blob_aligned. rewrite Hw, Hb. replace (zlen b mod 8 =? 0) with true by lia. cbn [andb].
  now apply cab_embed_defined.
Qed.

Section CabCrypto.
  Variables key pubk sigv : Type.
  Variable H : Z -> bytes -> bytes.
  Variable pub : key -> pubk.
  Variable sign : key -> bytes -> sigv.
  Variable vrfy : pubk -> bytes -> sigv -> bool.
  Hypothesis sign_correct : forall k m, vrfy (pub k) m (sign k m) = true.
  Variable tbs : Z -> bytes -> bytes.
  Variable ser0 : sigblob pubk sigv -> bytes.
  Variable deser0 : bytes -> option (sigblob pubk sigv).
  (* pkcs7.Unmarshal ignores the zero padding MakePatch adds *)
  Hypothesis deser_padded : forall b, deser0 (cab_pad8 (ser0 b)) = Some b.
  Let ser (b : sigblob pubk sigv) : bytes := cab_pad8 (ser0 b).

  Theorem cab_sign_then_verify : forall k a f g,
    sign_file key pubk sigv H pub sign tbs ser cabview cab_format k a f = Ok g ->
    verify_file pubk sigv H vrfy tbs deser0 cabview cab_format g = Accept pubk (pub k) a.
  Proof.
    apply (sign_then_verify key pubk sigv H pub sign vrfy sign_correct tbs ser deser0 deser_padded cabview cab_format).
    - exact cab_law_extract.
    - exact cab_law_hashin.
  Qed.
  Theorem cab_resign_history : forall hist f g k a,
    resign key pubk sigv H pub sign tbs ser cabview cab_format (hist ++ [(k, a)]) f = Ok g ->
    verify_file pubk sigv H vrfy tbs deser0 cabview cab_format g = Accept pubk (pub k) a
    /\ is_signed cabview cab_format g = true /\ cab_payload g = cab_payload f /\ cab_hashin g = cab_hashin f.
  Proof.
    apply (resign_history key pubk sigv H pub sign vrfy sign_correct tbs ser deser0 deser_padded cabview cab_format).
    - exact cab_law_extract.
    - exact cab_law_hashin.
    - exact cab_law_payload.
  Qed.
  (* what sign_file embeds is what relic's MakePatch produces for the unpadded SignedData *)
  Theorem cab_sign_file_is_makepatch : forall k a f g pre,
    cab_hashin f = Ok pre -> sign_file key pubk sigv H pub sign tbs ser cabview cab_format k a f = Ok g ->
    cab_embed f (ser0 (mksig key pubk sigv pub sign tbs k a (H a pre))) = Ok g.
  Proof.
    intros k a f g pre Hp Hs. unfold sign_file, cab_format in Hs. cbn [f_hashin f_embed] in Hs. rewrite Hp in Hs. cbn [bind] in Hs.
    destruct (cab_embed_wf_inv _ _ _ Hs) as (_ & _ & _ & He). unfold ser in He. now rewrite cab_embed_pad8 in He.
  Qed.
End CabCrypto.

(* ================================================================== C01: what Digest accepts has the layout MakePatch relies on *)
(* since relic commit 6b49488: for EVERY accepted byte string the header area (header, reserve, folder table) ends exactly at
   coffFiles, coffFiles <= cbCabinet, and the file is header area ++ (cbCabinet - coffFiles bytes) ++ signature area *)
Theorem cab_accepted_layout f p : all_bytes f = true -> cab_parse f = Ok p ->
  f = p_hd p ++ c_data p ++ c_sig p /\ zlen (p_hd p) = u32at 16 f /\ u32at 16 f <= u32at 8 f /\ zlen (p_hd p) + zlen (c_data p) = u32at 8 f.
Proof.
  intros Hb Hp. destruct (cab_parse_sound f p Hb Hp) as [Hok Ef]. pose proof (zlen_p_hd p Hok) as LP.
  destruct (ok_layout _ Hok) as [HlP HlT]. pose proof (ok_hv _ Hok) as Rh. destruct (hv_fields_range _ Rh) as (RT & RO & _ & _).
  assert (E16 : u32at 16 f = fld cabh_ix_OffsetFiles (c_hv p)).
  { rewrite Ef. unfold u32at, cab_write. apply hdr_rd; [exact Rh|vm_compute; lia|reflexivity|reflexivity]. }
  assert (E8 : u32at 8 f = fld cabh_ix_TotalSize (c_hv p)).
  { rewrite Ef. unfold u32at, cab_write. apply hdr_rd; [exact Rh|vm_compute; lia|reflexivity|reflexivity]. }
  rewrite E16, E8, LP, (ok_data _ Hok), wrap32_small by lia. repeat split; try lia. rewrite Ef at 1. apply cab_write_hd.
Qed.
(* the domain of the laws is exactly: bytes, accepted by cabfile.Digest, 32-bit headroom (cabp_wf) *)
Theorem cab_wf_exact f : cab_wf f = true <-> all_bytes f = true /\ exists p, cab_parse f = Ok p /\ cabp_wf p = true.
Proof.
  unfold cab_wf. split.
  - intros H. apply andb_true_iff in H as [Hb H]. split; [exact Hb|]. destruct (cab_parse f) as [p| |]; try discriminate. now exists p.
  - intros (Hb & p & -> & Hw). now rewrite Hb, Hw.
Qed.
(* whatever relic signs (below the 4 GiB headroom), relic's parser finds the signature in and digests as before *)
Theorem cab_signed_verifies f p b g : all_bytes f = true -> cab_parse f = Ok p -> cabp_wf p = true -> blob_wf b = true ->
  cab_embed f b = Ok g -> cab_extract g = Ok (Some (cab_pad8 b)) /\ cab_hashin g = cab_hashin f /\ cab_payload g = cab_payload f.
Proof.
  intros Hb Hp Hw Hbl He. assert (W : cab_wf f = true) by (apply cab_wf_exact; split; [exact Hb|now exists p]).
  split; [exact (cab_law_extract_pad f b g W Hbl He)|]. split; [exact (cab_law_hashin_wf f b g W Hbl He)|exact (cab_law_payload_wf f b g W Hbl He)].
Qed.

(* ================================================================== witnesses *)
(* a 36-byte cabinet without folders and files *)
Definition w_cab : bytes := enc_struct cabh_widths [1178817357; 0; 36; 0; 36; 0; 259; 0; 0; 0; 4660; 0].
(* C01, full statement of law_extract (any blob): fails for a blob whose length is not a multiple of 8 — the verifier's
   parser returns the zero-padded blob (pkcs7.Unmarshal ignores the padding) *)
Theorem cab_law_extract_refuted : exists g,
  cab_wf w_cab = true /\ blob_wf [1] = true /\ cab_embed w_cab [1] = Ok g /\ cab_extract g = Ok (Some [1; 0; 0; 0; 0; 0; 0; 0]).
Proof. exists (match cab_embed w_cab [1] with Ok g => g | _ => [] end). vm_compute. repeat split; reflexivity. Qed.
(* C01 (relic commit 6b49488; before it relic signed these and rejected its own output as "trailing garbage"): a header whose
   coffFiles (20) and cbCabinet (24) point into the 36-byte header, and the 36-byte cabinet with coffFiles = cbCabinet = 35
   found by the check, are refused cleanly by the digest, hence never signed *)
Definition w_overlap : bytes := enc_struct cabh_widths [1178817357; 0; 24; 0; 20; 0; 259; 0; 0; 0; 4660; 0] ++ [208; 209; 210; 211].
Definition w_regress : bytes := [77; 83; 67; 70; 132; 59; 133; 197; 35; 0; 0; 0; 92; 158; 213; 58; 35; 0; 0; 0; 114; 170; 143; 40; 3; 1; 0; 0; 0; 0; 0; 0; 155; 53; 1; 0].
Theorem cab_bad_layout_refused :
  all_bytes w_overlap = true /\ cab_hashin w_overlap = Err E_LAYOUT /\ cab_embed w_overlap [1; 2; 3; 4; 5; 6; 7; 8] = Err E_LAYOUT /\
  all_bytes w_regress = true /\ zlen w_regress = 36 /\ cab_hashin w_regress = Err E_LAYOUT /\ cab_embed w_regress [1; 2; 3; 4; 5; 6; 7; 8] = Err E_LAYOUT /\
  cab_extract w_regress = Err E_LAYOUT.
Proof. vm_compute. repeat split; reflexivity. Qed.
(* C02: reserved1, iCabinet and the two unknown words of the signature header are covered by neither digest nor blob *)
Definition w_g1 : bytes := match cab_embed w_cab [7; 0; 0; 0; 0; 0; 0; 1] with Ok g => g | _ => [] end.
Fixpoint upd (i : nat) (v : Z) (l : bytes) : bytes :=
  match i, l with O, _ :: r => v :: r | S k, x :: r => x :: upd k v r | _, [] => [] end.
Definition w_g2 : bytes := upd 4 9 (upd 34 8 (upd 40 7 (upd 52 6 w_g1))).
Theorem cab_exempt_fields_unprotected :
  cab_wf w_g1 = true /\ cab_wf w_g2 = true /\ w_g1 <> w_g2 /\ cab_spec_signed w_g1 = true /\ cab_spec_signed w_g2 = true /\
  cab_hashin w_g1 = cab_hashin w_g2 /\ cab_extract w_g1 = cab_extract w_g2 /\ cab_extract w_g1 = Ok (Some [7; 0; 0; 0; 0; 0; 0; 1]) /\
  cab_protected w_g1 = cab_protected w_g2.
Proof. vm_compute. repeat split; try reflexivity. discriminate. Qed.

(* ================================================================== statements in the form FmtCAB/Properties.v quotes them *)
Lemma cab_law_extract_P : forall f b g, cab_wf f = true -> blob_wf b = true -> cab_embed f b = Ok g ->
  cab_extract g = Ok (Some (cab_pad8 b)) /\ (zlen b mod 8 = 0 -> cab_extract g = Ok (Some b)).
Proof.
  intros f b g Hw Hb He. pose proof (cab_law_extract_pad f b g Hw Hb He) as E. split; [exact E|]. intros Ha. now rewrite pad8_aligned in E.
Qed.
Lemma cab_format_laws : law_extract cabview cab_format /\ law_hashin cabview cab_format /\ law_payload cabview cab_format.
Proof. exact (conj cab_law_extract (conj cab_law_hashin cab_law_payload)). Qed.
Lemma cab_embed_wf_eq f b : cab_wf f = true -> blob_wf b = true -> zlen b mod 8 = 0 -> cab_embed_wf f b = cab_embed f b.
Proof. intros Hw Hb Ha. unfold cab_embed_wf, blob_aligned. rewrite Hw, Hb. now replace (zlen b mod 8 =? 0) with true by lia. Qed.
