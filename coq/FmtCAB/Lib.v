(* FmtCAB/Lib.v — generic lemmas (slices, byte predicates, fixed-layout structs) used by FmtCAB/Proofs.v and FmtCAB/ProofsXap.v *)
From Relic Require Import Base.Prelude Base.Enc Generated.FmtCAB_gen FmtCAB.Model Laws.Pipeline.
From Relic Require C12.Model C12.Proofs.

Notation ztake_app_exact := C12.Proofs.ztake_app_exact.
Notation zdrop_app_exact := C12.Proofs.zdrop_app_exact.
Notation zlen_repeat := C12.Proofs.zlen_repeat.
Notation zslice_mid := C12.Proofs.zslice_mid.

(* ================================================================== generic: slices, bytes, structs *)
Lemma all_bytes_split n l : all_bytes l = true -> all_bytes (ztake n l) = true /\ all_bytes (zdrop n l) = true.
Proof.
  intros H. rewrite <- (ztake_zdrop n l), all_bytes_app in H. now apply andb_true_iff in H.
Qed.
Lemma all_bytes_ztake n l : all_bytes l = true -> all_bytes (ztake n l) = true.
Proof. intros H. now apply (all_bytes_split n l). Qed.
Lemma all_bytes_zdrop n l : all_bytes l = true -> all_bytes (zdrop n l) = true.
Proof. intros H. now apply (all_bytes_split n l). Qed.
Lemma all_bytes_zslice a b l : all_bytes l = true -> all_bytes (zslice a b l) = true.
Proof. intros H. unfold zslice. now apply all_bytes_ztake, all_bytes_zdrop. Qed.
Lemma all_bytes_repeat0 n : all_bytes (repeat 0 n) = true.
Proof. induction n; cbn; [reflexivity|exact IHn]. Qed.
Lemma zlen_ztake_exact {A} n (l : list A) : 0 <= n <= zlen l -> zlen (ztake n l) = n.
Proof. apply zlen_ztake. Qed.
Lemma firstn_add {A} x : forall y (m : list A), firstn (x + y) m = firstn x m ++ firstn y (skipn x m).
Proof.
  induction x as [|x IH]; intros y [|h t]; cbn [Nat.add firstn skipn app]; try reflexivity.
  - now rewrite firstn_nil.
  - f_equal. apply IH.
Qed.
Lemma zslice_split {A} a b c (l : list A) : 0 <= a <= b -> b <= c -> zslice a c l = zslice a b l ++ zslice b c l.
Proof.
  intros H1 H2. unfold zslice, ztake, zdrop.
  replace (Z.to_nat (c - a)) with (Z.to_nat (b - a) + Z.to_nat (c - b))%nat by lia.
  rewrite firstn_add. do 2 f_equal.
  change (zdrop (b - a) (zdrop a l) = zdrop b l). rewrite zdrop_zdrop by lia. f_equal. lia.
Qed.
Lemma zslice_full {A} (l : list A) : zslice 0 (zlen l) l = l.
Proof. unfold zslice. rewrite zdrop_0, Z.sub_0_r. apply ztake_all. lia. Qed.
Lemma zslice_zdrop {A} k a b (l : list A) : 0 <= k -> 0 <= a -> zslice a b (zdrop k l) = zslice (k + a) (k + b) l.
Proof. intros Hk Ha. unfold zslice. rewrite zdrop_zdrop by lia. f_equal; [lia|f_equal; lia]. Qed.
Lemma zslice_app_r {A} a b (x y : list A) : zlen x <= a -> zslice a b (x ++ y) = zslice (a - zlen x) (b - zlen x) y.
Proof. intros H. unfold zslice. rewrite zdrop_app_r by exact H. f_equal. lia. Qed.
Lemma zslice_app_l {A} a b (x y : list A) : 0 <= a -> b <= zlen x -> zslice a b (x ++ y) = zslice a b x.
Proof.
  intros Ha Hb. unfold zslice. destruct (Z_le_gt_dec a (zlen x)) as [H|H].
  - rewrite zdrop_app_l by lia. apply ztake_app_l. rewrite zlen_zdrop by lia. lia.
  - rewrite !ztake_neg by lia. reflexivity.
Qed.

Definition nonneg_ws (ws : list Z) : Prop := Forall (fun w => 0 <= w) ws.
Definition in_range (ws vs : list Z) : Prop := Forall2 (fun w v => 0 <= w /\ 0 <= v < 256 ^ w) ws vs.
Definition wsum (ws : list Z) : Z := fold_right Z.add 0 ws.

Lemma le_enc_zlen' w v : 0 <= w -> zlen (le_enc (Z.to_nat w) v) = w.
Proof. intros H. rewrite le_enc_zlen. lia. Qed.

Lemma dec_enc_struct ws : forall vs r, in_range ws vs -> dec_struct ws (enc_struct ws vs ++ r) = vs.
Proof.
  induction ws as [|w ws IH]; intros vs r H; inversion H as [|? v ? vs' [Hw Hv] Hr]; subst; cbn [enc_struct dec_struct]; [reflexivity|].
  rewrite <- app_assoc.
  rewrite ztake_app_exact by (apply le_enc_zlen'; lia).
  rewrite zdrop_app_exact by (apply le_enc_zlen'; lia).
  rewrite le_dec_enc by (rewrite Z2Nat.id by lia; lia). f_equal. now apply IH.
Qed.
Lemma dec_enc_struct0 ws vs : in_range ws vs -> dec_struct ws (enc_struct ws vs) = vs.
Proof. intros H. rewrite <- (app_nil_r (enc_struct ws vs)). now apply dec_enc_struct. Qed.
Lemma enc_struct_zlen ws : forall vs, in_range ws vs -> zlen (enc_struct ws vs) = wsum ws.
Proof.
  induction ws as [|w ws IH]; intros vs H; inversion H as [|? v ? vs' [Hw Hv] Hr]; subst; cbn [enc_struct wsum fold_right]; [reflexivity|].
  rewrite zlen_app, le_enc_zlen' by lia. fold (wsum ws). now rewrite IH.
Qed.
Lemma enc_struct_bytes ws : forall vs, all_bytes (enc_struct ws vs) = true.
Proof.
  induction ws as [|w ws IH]; intros [|v vs]; cbn [enc_struct]; try reflexivity.
  now rewrite all_bytes_app, le_enc_bytes, IH.
Qed.
Lemma dec_struct_range ws : forall c, nonneg_ws ws -> all_bytes c = true -> in_range ws (dec_struct ws c).
Proof.
  induction ws as [|w ws IH]; intros c Hn Hb; cbn [dec_struct]; [constructor|].
  inversion Hn as [|? ? Hw Hn']; subst. constructor.
  - split; [exact Hw|]. pose proof (le_dec_range (ztake w c) (all_bytes_ztake w c Hb)) as R.
    pose proof (zlen_nonneg (ztake w c)). pose proof (C12.Proofs.zlen_ztake_min w c Hw).
    assert (256 ^ zlen (ztake w c) <= 256 ^ w) by (apply Z.pow_le_mono_r; lia). lia.
  - apply IH; [exact Hn'|]. now apply all_bytes_zdrop.
Qed.
Lemma enc_dec_struct ws : forall c, nonneg_ws ws -> all_bytes c = true -> zlen c = wsum ws -> enc_struct ws (dec_struct ws c) = c.
Proof.
  induction ws as [|w ws IH]; intros c Hn Hb Hl; cbn [dec_struct enc_struct].
  - cbn in Hl. symmetry. now apply C12.Proofs.zlen_0_nil.
  - inversion Hn as [|? ? Hw Hn']; subst. cbn [wsum fold_right] in Hl. fold (wsum ws) in Hl.
    assert (Hws : 0 <= wsum ws).
    { clear -Hn'. induction Hn'; cbn; [lia|]. fold (wsum l). lia. }
    assert (Ht : zlen (ztake w c) = w) by (apply zlen_ztake; lia).
    replace (Z.to_nat w) with (length (ztake w c)) by (unfold zlen in Ht; lia).
    rewrite le_enc_dec by now apply all_bytes_ztake.
    rewrite IH; [apply ztake_zdrop|exact Hn'|now apply all_bytes_zdrop|rewrite zlen_zdrop by lia; lia].
Qed.
Lemma in_range_length ws vs : in_range ws vs -> length vs = length ws.
Proof. intros H. induction H; cbn; [reflexivity|now rewrite IHForall2]. Qed.

(* field i of a decoded struct is the little-endian integer at the field's offset *)
Lemma fld_dec ws : forall i c, nonneg_ws ws -> (i < length ws)%nat ->
  fld i (dec_struct ws c) = le_dec (zslice (wsum (firstn i ws)) (wsum (firstn i ws) + nth i ws 0) c).
Proof.
  induction ws as [|w ws IH]; intros i c Hn Hi; [cbn in Hi; lia|].
  inversion Hn as [|? ? Hw Hn']; subst. destruct i as [|i]; cbn [dec_struct fld nth firstn wsum fold_right].
  - unfold zslice. rewrite zdrop_0. do 2 f_equal. lia.
  - fold (wsum (firstn i ws)). unfold fld in IH. rewrite IH; [|exact Hn'|cbn in Hi; lia].
    assert (0 <= wsum (firstn i ws)).
    { clear -Hn'. revert i. induction Hn'; intros [|i]; cbn; try lia. fold (wsum (firstn i l)). specialize (IHHn' i). lia. }
    rewrite zslice_zdrop by lia. do 2 f_equal. lia.
Qed.

Lemma take_n_inv n s x : take_n n s = Ok x -> n <= zlen s /\ x = (ztake n s, zdrop n s).
Proof. unfold take_n. destruct (zlen s <? n) eqn:E; [discriminate|]. intros H. inversion H. split; [lia|reflexivity]. Qed.
Lemma take_n_app n a r : zlen a = n -> take_n n (a ++ r) = Ok (a, r).
Proof.
  intros H. unfold take_n. rewrite zlen_app. pose proof (zlen_nonneg r).
  destruct (zlen a + zlen r <? n) eqn:E; [lia|]. now rewrite ztake_app_exact, zdrop_app_exact.
Qed.
Lemma take_n_err n s e : take_n n s = Err e -> zlen s < n.
Proof. unfold take_n. destruct (zlen s <? n) eqn:E; [lia|discriminate]. Qed.

Lemma existsb_nonzero_repeat l : existsb cab_pad_nonzero l = false -> l = repeat 0 (length l).
Proof.
  induction l as [|x l IH]; cbn; [reflexivity|]. intros H. apply orb_false_iff in H as [H1 H2].
  unfold cab_pad_nonzero in H1. f_equal; [lia|now apply IH].
Qed.
Lemma existsb_nonzero_repeat0 n : existsb cab_pad_nonzero (repeat 0 n) = false.
Proof. induction n; cbn; [reflexivity|exact IHn]. Qed.

Lemma wrap32_small x : 0 <= x < 2 ^ 32 -> fc_wrap32 x = x.
Proof. intros H. unfold fc_wrap32. apply Z.mod_small. lia. Qed.
Lemma wrap32_range x : 0 <= fc_wrap32 x < 2 ^ 32.
Proof. unfold fc_wrap32. pose proof (Z.mod_pos_bound x 4294967296). lia. Qed.


Lemma Ok_inj {A} (a b : A) : Ok a = Ok b -> a = b.
Proof. intros H. now injection H. Qed.
(* binpatch's write-then-rename application returns a file or an ordinary error *)
Lemma rewrite_from_no_panic ps : forall pos f p, C12.Model.rewrite_from pos ps f <> Panic p.
Proof.
  induction ps as [|q ps IH]; intros pos f p; cbn [C12.Model.rewrite_from]; [discriminate|].
  destruct (C12_gen.rewrite_out_of_order _); [discriminate|]. destruct (_ && _); [discriminate|].
  destruct (C12.Model.rewrite_from _ ps f) eqn:E; cbn [bind]; try discriminate. exfalso. exact (IH _ _ _ E).
Qed.
Lemma app_inj_len {A} (a b c d : list A) : a ++ b = c ++ d -> zlen a = zlen c -> a = c /\ b = d.
Proof.
  intros E L. assert (Ea : a = c).
  { rewrite <- (ztake_app_exact (zlen a) a b eq_refl), E. now apply ztake_app_exact. }
  subst c. split; [reflexivity|]. now apply app_inv_head in E.
Qed.
