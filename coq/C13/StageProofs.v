(* C13/StageProofs.v — when the sibling temporary cannot be created (name too long once ".tmp<random>" is added, directory not
   writable, EMFILE, ENOSPC at create) the only reaction of the code is to report the error with everything untouched: for
   every environment (every combination of failing calls), every strategy that stages through atomicfile.WriteAny or
   atomicfile.New, every destination and every content.  A plan that opens, truncates, unlinks or writes the destination
   itself is never accepted by the protocol checker; the design with a fallback is refuted with concrete witnesses. *)
From Relic Require Import Base.Prelude Generated.C13_gen C13.Fs C13.FsProofs C13.Stage C13.Strategies C13.StratProofs.

Definition staged (e : oenv) : Prop := e_dash e = false /\ e_special e = false.

Ltac env_cases e :=
  let d := fresh "d" in let s := fresh "s" in let f1 := fresh "f1" in let f2 := fresh "f2" in let f3 := fresh "f3" in
  let f4 := fresh "f4" in let f5 := fresh "f5" in let f6 := fresh "f6" in let op := fresh "op" in
  destruct e as [d s f1 f2 f3 f4 f5 f6 op]; cbn [e_dash e_special f_temp] in *.

(* ================================================================== the open phase itself, for every environment *)
(* New: one call, the exclusive creation of the sibling; on failure nothing else happens and the error is returned *)
Theorem new_result_cases : forall e,
  new_result e = ([EvOpen 1 1 194 (f_temp e)], (if f_temp e then RNil else RAtomic), f_temp e).
Proof. intros e. env_cases e. destruct f1; reflexivity. Qed.

(* WriteAny on a destination that is neither "-" nor special: isSpecial's stat, then New - whatever else would fail *)
Theorem writeany_result_cases : forall e, staged e ->
  writeany_result e = ([EvStat; EvOpen 1 1 194 (f_temp e)], (if f_temp e then RNil else RAtomic), f_temp e).
Proof. intros e [Hd Hs]. env_cases e. subst. destruct f1; reflexivity. Qed.

Theorem stage_failure_returns_error : forall e, staged e -> f_temp e = true ->
  o_handle (writeany_result e) = RNil /\ o_err (writeany_result e) = true /\
  fail_aborts writeany_result e 1 = true /\
  forall pt pd it idest, map (ev_op pt pd it idest) (o_events (writeany_result e)) = [SNop K_STAT_DEST; SCreate pt it].
Proof.
  intros e He Hf. rewrite (writeany_result_cases e He), Hf. repeat split.
  destruct He as [Hd Hs]. env_cases e. subst. reflexivity.
Qed.

(* no environment makes WriteAny (non-special destination) or New open, truncate, remove or create the destination itself *)
Theorem writeany_never_touches_dest : forall e, e_special e = false ->
  existsb ev_touches_dest (o_events (writeany_result e)) = false.
Proof. intros e Hs. env_cases e. subst. destruct d, f1; reflexivity. Qed.
Theorem new_never_touches_dest : forall e, existsb ev_touches_dest (o_events (new_result e)) = false.
Proof. intros e. rewrite new_result_cases. reflexivity. Qed.

(* a failing creation of the temporary always ends the open phase (no environment in which the code goes on) *)
Theorem temp_failure_always_aborts : forall e, staged e -> fail_aborts writeany_result e 1 = true /\ fail_aborts new_result e 1 = true.
Proof. intros e [Hd Hs]. env_cases e. subst. split; reflexivity. Qed.

(* the callers that stage through WriteAny make no file-system call of their own *)
Theorem callers_os_calls_reviewed : whole_os_calls = [] /\ pgp_os_calls = [0] /\ writefile_os_calls = [].
Proof. repeat split; reflexivity. Qed.

(* ================================================================== the checker rejects every direct access to the destination *)
(* an operation that is not: a call without effect, the creation of the temporary, a data call on the temporary's inode, the
   rename of the temporary over the destination *)
Definition direct_op (pt pd : path) (it : ino) (o : sop) : bool :=
  match o with
  | SOpen _ _ _ _ => true
  | SWrite i _ | SPWrite i _ _ | STrunc i _ => negb (i =? it)
  | SCopy _ dst _ _ => negb (dst =? it)
  | SUnlink _ => true
  | SCreate p i => negb ((p =? pt) && (i =? it))
  | SRename a b => negb ((a =? pt) && (b =? pd))
  | SStdout _ => true
  | SNop _ => false
  end.

Theorem protocol_rejects_direct pt pd it : forall pl ph ph',
  check pt pd it ph pl = Some ph' -> forall st, In st pl -> direct_op pt pd it (p_op st) = false.
Proof.
  induction pl as [|x pl IH]; intros ph ph' Hc st Hin; [contradiction|].
  destruct ph as [|[|ph]]; cbn [check] in Hc; [| |discriminate].
  - destruct (p_op x) eqn:Eo; try discriminate.
    + destruct ((p =? pt) && (i =? it) && is_abort (p_onerr x) && cleanup_none (p_cleanup x)) eqn:Eg; [|discriminate].
      destruct Hin as [<-|Hin]; [|eapply IH; eassumption].
      apply andb_true_iff in Eg as [Eg _]. apply andb_true_iff in Eg as [Eg _]. rewrite Eo. cbn [direct_op]. rewrite Eg. reflexivity.
    + destruct (cleanup_none (p_cleanup x) && natfail_ok x); [|discriminate].
      destruct Hin as [<-|Hin]; [rewrite Eo; reflexivity|eapply IH; eassumption].
  - assert (Hl : forall o, p_op x = o -> local_op it o = true -> direct_op pt pd it o = false).
    { intros o _ Hl. destruct o; cbn [local_op] in Hl; try discriminate; cbn [direct_op]; try rewrite Hl; reflexivity. }
    destruct (p_op x) eqn:Eo;
      try (destruct (step_ok1 pt it x) eqn:Es; [|discriminate];
           destruct Hin as [<-|Hin]; [|eapply IH; eassumption];
           unfold step_ok1 in Es; apply andb_true_iff in Es as [Es _]; rewrite Eo in *; apply (Hl _ eq_refl Es)).
    destruct ((a =? pt) && (b =? pd) && is_abort (p_onerr x) && cleanup_removes pt (p_cleanup x)) eqn:Eg; [|discriminate].
    destruct Hin as [<-|Hin]; [|eapply IH; eassumption].
    apply andb_true_iff in Eg as [Eg _]. apply andb_true_iff in Eg as [Eg _]. rewrite Eo. cbn [direct_op]. rewrite Eg. reflexivity.
Qed.

(* in particular: a plan with an open of an existing name (O_TRUNC or not), or with a data call on any inode but the
   temporary's, is not a protocol run *)
Theorem open_of_dest_rejected pt pd it pl st p i c t :
  In st pl -> p_op st = SOpen p i c t -> check pt pd it 0 pl = None.
Proof.
  intros Hin Ho. destruct (check pt pd it 0 pl) as [ph'|] eqn:E; [|reflexivity].
  pose proof (protocol_rejects_direct pt pd it pl _ _ E st Hin) as H. rewrite Ho in H. discriminate.
Qed.
Theorem write_to_dest_rejected pt pd it pl st j d :
  In st pl -> p_op st = SWrite j d -> j <> it -> check pt pd it 0 pl = None.
Proof.
  intros Hin Ho Hj. destruct (check pt pd it 0 pl) as [ph'|] eqn:E; [|reflexivity].
  pose proof (protocol_rejects_direct pt pd it pl _ _ E st Hin) as H. rewrite Ho in H. cbn in H.
  destruct (j =? it) eqn:Ej; [apply Z.eqb_eq in Ej; contradiction|discriminate].
Qed.

(* ================================================================== a run in which the temporary cannot be created *)
Section Fail.
Variables (pt pd : path) (it : ino) (s0 : fsys).

Definition quiet (st : pstep) : bool := is_nop (p_op st) && negb (p_natfail st).

Lemma natural_fault_pre pre st rest : forallb quiet pre = true -> p_natfail st = true ->
  natural_fault (pre ++ st :: rest) = Some (length pre).
Proof.
  intros Hp Hs. induction pre as [|x pre IH]; cbn [app natural_fault length].
  - rewrite Hs. reflexivity.
  - cbn [forallb] in Hp. apply andb_true_iff in Hp as [Hx Hp]. unfold quiet in Hx. apply andb_true_iff in Hx as [_ Hx].
    apply negb_true_iff in Hx. rewrite Hx, (IH Hp). reflexivity.
Qed.
Lemma quiet_nops pre : forallb quiet pre = true -> forallb is_nop (ops_of pre) = true.
Proof.
  induction pre as [|x pre IH]; intros H; [reflexivity|]. cbn [forallb] in H. apply andb_true_iff in H as [Hx Hp].
  unfold quiet in Hx. apply andb_true_iff in Hx as [Hx _]. cbn [ops_of map forallb]. rewrite Hx. exact (IH Hp).
Qed.
Lemma firstn_nops k l : forallb is_nop l = true -> forallb is_nop (firstn k l) = true.
Proof. apply forallb_firstn. Qed.

(* the shape every strategy has when the creation fails: calls without effect, then the creation that fails by itself and is
   reported; from there: the error is the outcome and NOTHING on disk differs from before - at the end and at every instant *)
Theorem create_failure_generic pre rest :
  forallb quiet pre = true ->
  let pl := pre ++ mkP (SCreate pt it) Abort [] true :: rest in
  natural_fault pl = Some (length pre) /\
  outcome pl s0 = s0 /\
  (forall k, (k <= length pre)%nat -> scrash k pl s0 = s0).
Proof.
  intros Hp pl. pose proof (natural_fault_pre pre (mkP (SCreate pt it) Abort [] true) rest Hp eq_refl) as Hn.
  pose proof (quiet_nops pre Hp) as Hno.
  split; [exact Hn|]. split.
  - unfold outcome. fold pl in Hn. rewrite Hn. unfold fault, pl.
    rewrite nth_error_app2 by lia. rewrite Nat.sub_diag. cbn [nth_error p_op p_onerr p_cleanup partial srun fold_left].
    rewrite ops_of_app, firstn_app, firstn_all2 by (unfold ops_of; rewrite map_length; lia).
    unfold ops_of at 2. rewrite map_length, Nat.sub_diag. cbn [firstn]. rewrite app_nil_r. apply srun_nops, Hno.
  - intros k Hk. unfold scrash, pl. rewrite ops_of_app, firstn_app.
    replace (k - length (ops_of pre))%nat with 0%nat by (unfold ops_of; rewrite map_length; lia).
    cbn [firstn]. rewrite app_nil_r. apply srun_nops, firstn_nops, Hno.
Qed.
End Fail.

(* what the property says about such a run, in the words of the statement: every name reads as before (the destination holds
   its complete previous content, or stays absent), no temporary exists, no inode changed (the input is unmodified) *)
Definition spec_refused (pt : path) (s0 s : fsys) : Prop :=
  (forall p, sread s p = sread s0 p) /\ (forall q, dirent s q = dirent s0 q) /\ (forall i, idata s i = idata s0 i) /\
  (dirent s0 pt = None -> spec_no_temp pt s).
Lemma spec_refused_refl pt s0 : spec_refused pt s0 s0.
Proof. repeat split; auto. Qed.

Definition stage_failure_ok (pt pd : path) (it : ino) (s0 : fsys) (pl : list pstep) : Prop :=
  exists n st,
    natural_fault pl = Some n /\ nth_error pl n = Some st /\ p_op st = SCreate pt it /\ p_onerr st = Abort /\
    (* the handled error *)
    spec_refused pt s0 (outcome pl s0) /\
    (* killed at any instant up to and including the failing call *)
    (forall k, (k <= n)%nat -> spec_refused pt s0 (scrash k pl s0)) /\
    (* and the plan as a whole is a protocol run: nothing in it opens or writes the destination *)
    check pt pd it 0 pl = Some 2%nat.

Section Strategies.
Variables (pt pd : path) (it iin : ino) (s0 : fsys).
Variables (e : oenv) (idest : ino).
Hypothesis He : staged e.
Hypothesis Hf : f_temp e = true.

Lemma from_generic pre rest pl :
  pl = pre ++ mkP (SCreate pt it) Abort [] true :: rest -> forallb quiet pre = true ->
  check pt pd it 0 pl = Some 2%nat -> stage_failure_ok pt pd it s0 pl.
Proof.
  intros -> Hp Hc. destruct (create_failure_generic pt it s0 pre rest Hp) as (H1 & H2 & H3).
  exists (length pre), (mkP (SCreate pt it) Abort [] true). split; [exact H1|]. split.
  { rewrite nth_error_app2 by lia. rewrite Nat.sub_diag. reflexivity. }
  split; [reflexivity|]. split; [reflexivity|]. split; [rewrite H2; apply spec_refused_refl|].
  split; [|exact Hc]. intros k Hk. rewrite (H3 k Hk). apply spec_refused_refl.
Qed.

Lemma wa_head : writeany_steps_e pt pd it e idest false 1 =
  [mkP (SNop K_STAT_DEST) Ignore [] false] ++ mkP (SCreate pt it) Abort [] true :: [].
Proof. destruct He as [Hd Hs]. rewrite (writeany_steps_staged pt pd it e idest Hd Hs), Hf. reflexivity. Qed.
Lemma new_head : new_steps_e pt pd it e it false 1 = [] ++ mkP (SCreate pt it) Abort [] true :: [].
Proof. rewrite new_steps_staged, Hf. reflexivity. Qed.

Notation nz := (@nil Z).

(* whole-file write: signers/transform.go fileProducer.Apply *)
Theorem whole_stage_failure writes : stage_failure_ok pt pd it s0 (whole_plan_e pt pd it e idest writes).
Proof.
  destruct He as [Hd Hs].
  eapply (from_generic [mkP (SNop K_STAT_DEST) Ignore [] false]); [|reflexivity|apply whole_protocol_e; assumption].
  unfold whole_plan_e. rewrite (staged_finish pt it e idest Hd Hs).
  change whole_script with ([(5, 1, 0, [2]); (0, 1, 0, nz); (1, 9, 0, nz)] ++ [(2, 1, 0, nz); (3, 0, 0, nz); (4, 1, 0, nz)]).
  rewrite interp_app.
  change (interp pt pd (whole_env pt pd it e idest writes) (whole_guard false) 1 4 false [(5, 1, 0, [2]); (0, 1, 0, nz); (1, 9, 0, nz)])
    with (writeany_steps_e pt pd it e idest false 1 ++ []).
  rewrite wa_head, app_nil_r. cbn [app]. reflexivity.
Qed.

(* atomicfile.WriteFile *)
Theorem writefile_stage_failure data : stage_failure_ok pt pd it s0 (writefile_plan_e pt pd it e idest data).
Proof.
  destruct He as [Hd Hs].
  eapply (from_generic [mkP (SNop K_STAT_DEST) Ignore [] false]); [|reflexivity|apply writefile_protocol_e; assumption].
  unfold writefile_plan_e. rewrite (staged_finish pt it e idest Hd Hs).
  change writefile_script with ([(0, 1, 0, nz); (1, 9, 0, nz)] ++ [(2, 1, 0, nz); (3, 1, 0, nz)]).
  rewrite interp_app.
  change (interp pt pd (writefile_env pt pd it e idest data) (fun _ => true) 1 3 false [(0, 1, 0, nz); (1, 9, 0, nz)])
    with (writeany_steps_e pt pd it e idest false 1 ++ []).
  rewrite wa_head, app_nil_r. cbn [app]. reflexivity.
Qed.

(* PGP: detached signature copied, inline / clearsign merge (signers/pgp pgpTransformer.Apply) *)
Theorem pgp_stage_failure inline clearsign io : stage_failure_ok pt pd it s0 (pgp_plan_e pt pd it e idest inline clearsign io).
Proof.
  destruct He as [Hd Hs].
  eapply (from_generic [mkP (SNop K_STAT_DEST) Ignore [] false]); [|reflexivity|apply pgp_protocol_e; assumption].
  unfold pgp_plan_e, pgp_plan_gen_e. rewrite (staged_finish pt it e idest Hd Hs).
  change pgp_script with ([(0, 1, 0, nz); (1, 9, 0, nz)] ++
                          [(2, 1, 0, [2]); (3, 1, 0, [2]); (4, 1, 0, [2; 4]); (5, 1, 0, [2; 5]); (6, 1, 0, [3]); (7, 0, 0, nz); (8, 1, 0, nz)]).
  rewrite interp_app.
  change (interp pt pd (pgp_env pt pd it e idest clearsign_flush_dropped io) (pgp_guard inline clearsign) 1 8 false [(0, 1, 0, nz); (1, 9, 0, nz)])
    with (writeany_steps_e pt pd it e idest false 1 ++ []).
  rewrite wa_head, app_nil_r. cbn [app]. reflexivity.
Qed.

(* patch by rewrite (binpatch.applyRewrite calls atomicfile.New itself) *)
Theorem rewrite_stage_failure insize ps : stage_failure_ok pt pd it s0 (rewrite_plan_e pt pd it iin e insize ps).
Proof.
  assert (H : exists rest, rewrite_plan_e pt pd it iin e insize ps = [mkP (SNop K_SEEK_IN) Abort [] false] ++ mkP (SCreate pt it) Abort [] true :: rest).
  { unfold rewrite_plan_e. cbv zeta. rewrite rw_pre_eq.
    destruct (rw_loop pt pd it iin e insize (armed_after (rw_guard 0 None) 2 false [(0, 1, 0, nz); (1, 1, 0, nz); (2, 9, 0, nz)])
                (sc_body rewrite_script) 0 ps) as [l pos].
    eexists.
    change (interp pt pd (rw_env pt pd it iin e insize 0 None) (rw_guard 0 None) 2 7 false [(0, 1, 0, nz); (1, 1, 0, nz); (2, 9, 0, nz)])
      with (mk_steps pt pd false 1 [(SNop K_SEEK_IN, false, false)] ++ new_steps_e pt pd it e it false 1 ++ []).
    rewrite new_head. cbn [app mk_steps map]. reflexivity. }
  destruct H as [rest H]. eapply from_generic; [exact H|reflexivity|apply rewrite_protocol_e].
Qed.

(* MSI copy-then-edit (WriteInPlace calls atomicfile.New) *)
Theorem msi_stage_failure insize nreads e1 e2 : stage_failure_ok pt pd it s0 (msi_plan_e pt pd it iin e insize nreads e1 e2).
Proof.
  eapply (from_generic [mkP (SNop K_READ_RESULT) Abort [] false]); [|reflexivity|apply msi_protocol_e].
  unfold msi_plan_e.
  change msi_script with ([(0, 0, 0, nz); (1, 1, 0, nz); (2, 1, 0, nz); (3, 9, 0, nz)] ++ [(4, 1, 0, nz); (5, 1, 0, nz); (6, 1, 0, nz); (7, 1, 0, nz)]).
  rewrite interp_app.
  change (interp pt pd (msi_env pt pd it iin e insize nreads e1 e2) (fun _ => true) 3 7 false [(0, 0, 0, nz); (1, 1, 0, nz); (2, 1, 0, nz); (3, 9, 0, nz)])
    with (mk_steps pt pd false 1 [(SNop K_READ_RESULT, false, false)] ++ wip_plan_e pt pd it iin e insize ++ []).
  rewrite wip_plan_eq, new_head. cbn [app mk_steps map]. reflexivity.
Qed.
End Strategies.

(* ================================================================== every environment: the strategies are safe plans *)
Section SafeE.
Variables (pt pd : path) (it iin : ino) (s0 : fsys).
Hypothesis Hneq : pt <> pd.
Hypothesis Hfresh : fresh pt it s0.
Variables (e : oenv) (idest : ino).
Hypothesis He : staged e.

Theorem whole_safe_e writes : safe_plan pt pd it s0 (whole_plan_e pt pd it e idest writes).
Proof. destruct He. apply protocol_safe; [exact Hneq|exact Hfresh|apply whole_protocol_e; assumption]. Qed.
Theorem writefile_safe_e data : safe_plan pt pd it s0 (writefile_plan_e pt pd it e idest data).
Proof. destruct He. apply protocol_safe; [exact Hneq|exact Hfresh|apply writefile_protocol_e; assumption]. Qed.
Theorem pgp_safe_e inline clearsign io : safe_plan pt pd it s0 (pgp_plan_e pt pd it e idest inline clearsign io).
Proof. destruct He. apply protocol_safe; [exact Hneq|exact Hfresh|apply pgp_protocol_e; assumption]. Qed.
Theorem rewrite_safe_e insize ps : safe_plan pt pd it s0 (rewrite_plan_e pt pd it iin e insize ps).
Proof. apply protocol_safe; [exact Hneq|exact Hfresh|apply rewrite_protocol_e]. Qed.
Theorem msi_safe_e insize nreads e1 e2 : safe_plan pt pd it s0 (msi_plan_e pt pd it iin e insize nreads e1 e2).
Proof. apply protocol_safe; [exact Hneq|exact Hfresh|apply msi_protocol_e]. Qed.
End SafeE.

(* ================================================================== the design with a fallback, refuted *)
(* WriteAny that opens the destination itself (O_WRONLY|O_CREATE|O_TRUNC) when the sibling cannot be created
   (Stage.fallback_tree), whole-file strategy, two writes [5] and [6]; s_demo: name 2 = the destination, content [7] *)
Definition e_temp_fails : oenv := set_fail (env_ok false false) 1.
Definition fb_plan (idest : ino) : list pstep := whole_plan_t 3 2 20 fallback_tree new_tree e_temp_fails idest [[5]; [6]].
Definition s_absent : fsys :=
  mkFsys (fun q => if q =? 1 then Some (EFile 10) else None) (fun i => if i =? 10 then [1; 2] else []) [].

Theorem fallback_refuted :
  (* the failure of the creation is not reported: the code goes on *)
  fail_aborts (writeany_result_t fallback_tree new_tree) (env_ok false false) 1 = false /\
  existsb ev_touches_dest (o_events (writeany_result_t fallback_tree new_tree e_temp_fails)) = true /\
  (* not a protocol run *)
  check 3 2 20 0 (fb_plan 11) = None /\
  (* killed right after the open: an EMPTY file where a complete one existed *)
  (exists k, sread (scrash k (fb_plan 11) s_demo) 2 = Some []) /\
  (* killed between the two writes: neither the previous [7] nor the complete new content [5; 6] *)
  (exists k, let s := scrash k (fb_plan 11) s_demo in
             sread s 2 <> sread s_demo 2 /\ sread s 2 <> sread (srun (ops_of (fb_plan 11)) s_demo) 2 /\ sread s 2 = Some [5]) /\
  (* destination absent before: a partial file appears *)
  (exists k, sread s_absent 2 = None /\ sread (scrash k (fb_plan 21) s_absent) 2 = Some [5] /\
             sread (srun (ops_of (fb_plan 21)) s_absent) 2 = Some [5; 6]) /\
  (* a handled error of the second write: the torn destination stays *)
  (exists n st, nth_error (fb_plan 11) n = Some st /\ p_onerr st = Abort /\ sread (fault n 0 (fb_plan 11) s_demo) 2 = Some [5]).
Proof.
  split; [reflexivity|]. split; [reflexivity|]. split; [vm_compute; reflexivity|].
  split; [exists 3%nat; vm_compute; reflexivity|].
  split; [exists 4%nat; cbv zeta; repeat split; vm_compute; try discriminate; reflexivity|].
  split; [exists 4%nat; repeat split; vm_compute; reflexivity|].
  exists 4%nat. eexists. split; [vm_compute; reflexivity|]. split; [reflexivity|vm_compute; reflexivity].
Qed.

(* the same strategy over the trees of the source is the protocol (non-vacuity of the comparison) *)
Example source_trees_accepted : check 3 2 20 0 (whole_plan_t 3 2 20 writeany_tree new_tree e_temp_fails 11 [[5]; [6]]) = Some 2%nat.
Proof. vm_compute. reflexivity. Qed.
